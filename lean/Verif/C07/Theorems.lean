/-
C07 — property theorems over the use/own graph model (`Graph.lean`).

  used_iff_reachable        Used = nodes ≠ root reachable from the root over `uses`
  used_closed               Used is closed under `uses` (and contains what the root uses)
  deletion_safe_graph       if every reference of the program is covered by a use-path from an
                            enclosing declaration (checked certificate `refsCovered`), then every
                            reference that survives the deletion of all non-Used objects still
                            has its target: no dangling reference
  zero_ref_reported         no incoming use edge, not the root, no unseen owner above ⇒ Unused
  quiet_only_under_unused_owner / quiet_has_unused_ancestor
  verdict_used_iff / verdict_quiet_iff   relational characterisation of all three verdicts
-/
import Verif.C07.Lemmas
namespace Verif.C07
namespace Graph

/-! ### well-formedness gives in-range edges -/

theorem node_mem_of_getD {g : Graph} {a : Nat} {b : Nat}
    (h : b ∈ (g.nodes.getD a ⟨[], []⟩).uses ∨ b ∈ (g.nodes.getD a ⟨[], []⟩).owns) :
    g.nodes.getD a ⟨[], []⟩ ∈ g.nodes := by
  rw [List.getD_eq_getElem?_getD] at h ⊢
  cases hq : g.nodes[a]? with
  | none => rw [hq] at h; simp at h
  | some nd => simp only [Option.getD_some]; exact List.mem_of_getElem? hq

theorem wf_pos {g : Graph} (h : g.wf = true) : 0 < g.N := by
  unfold wf at h
  simp only [Bool.and_eq_true, decide_eq_true_eq] at h
  exact h.1

theorem wf_uses {g : Graph} (h : g.wf = true) : ∀ a b, b ∈ g.usesOf a → b < g.N := by
  intro a b hb
  unfold wf at h
  simp only [Bool.and_eq_true, List.all_eq_true, decide_eq_true_eq] at h
  have hm := node_mem_of_getD (g := g) (a := a) (b := b) (.inl hb)
  exact (h.2 _ hm).1 b hb

theorem wf_owns {g : Graph} (h : g.wf = true) : ∀ a b, b ∈ g.ownsOf a → b < g.N := by
  intro a b hb
  unfold wf at h
  simp only [Bool.and_eq_true, List.all_eq_true, decide_eq_true_eq] at h
  have hm := node_mem_of_getD (g := g) (a := a) (b := b) (.inr hb)
  exact (h.2 _ hm).2 b hb

/-! ### the seen set -/

theorem seen_spec {g : Graph} (h : g.wf = true) :
    0 ∈ g.seenSet ∧ ∀ x, x ∈ g.seenSet → ∀ y, y ∈ g.usesOf x → y ∈ g.seenSet := by
  have hs := dfs_markSpec g.usesOf g.N (wf_uses h) (g.N + 1) 0 [] (wf_pos h)
    (Nat.lt_succ_of_le (unseen_le _ _))
  exact ⟨hs.2.1, fun x hx y hy => hs.2.2 x hx (by simp) y hy⟩

theorem seen_sound (g : Graph) {x : Nat} (hx : x ∈ g.seenSet) : Reach g.usesOf 0 x := by
  rcases dfs_sound g.usesOf _ _ _ _ hx with h | h
  · cases h
  · exact h

theorem seen_iff {g : Graph} (h : g.wf = true) (x : Nat) : x ∈ g.seenSet ↔ Reach g.usesOf 0 x :=
  ⟨seen_sound g, fun r => Reach.mem_of_closed (seen_spec h).2 (seen_spec h).1 r⟩

theorem reach_lt {g : Graph} (h : g.wf = true) {a b : Nat} (ha : a < g.N) (r : Reach g.usesOf a b) : b < g.N := by
  induction r with
  | refl => exact ha
  | step _ hc _ => exact wf_uses h _ _ hc

theorem reach_owns_lt {g : Graph} (h : g.wf = true) {a b : Nat} (ha : a < g.N) (r : Reach g.ownsOf a b) : b < g.N := by
  induction r with
  | refl => exact ha
  | step _ hc _ => exact wf_owns h _ _ hc

/-! ### the quiet set -/

/-- `n` lies below an owner that is not seen: `m` unseen, `m owns c`, `c owns* n`. -/
def UnderUnseenOwner (g : Graph) (n : Nat) : Prop :=
  ∃ m, m < g.N ∧ m ∉ g.seenSet ∧ ∃ c, c ∈ g.ownsOf m ∧ Reach g.ownsOf c n

def quietStep (g : Graph) (seen : List Nat) (q : List Nat) (n : Nat) : List Nat :=
  if n ∈ seen then q else dfsList g.ownsOf (g.N + 1) (g.ownsOf n) q

theorem quietSet_eq (g : Graph) : g.quietSet = (List.range g.N).foldl (quietStep g g.seenSet) [] := rfl

theorem quietFold_sound (g : Graph) (seen : List Nat) :
    ∀ (ms q : List Nat) x, x ∈ ms.foldl (quietStep g seen) q →
      x ∈ q ∨ ∃ m, m ∈ ms ∧ m ∉ seen ∧ ∃ c, c ∈ g.ownsOf m ∧ Reach g.ownsOf c x := by
  intro ms
  induction ms with
  | nil => intro q x hx; exact .inl hx
  | cons m rest ih =>
    intro q x hx
    simp only [List.foldl_cons] at hx
    rcases ih _ x hx with h | ⟨m', hm', hs, c, hc, r⟩
    · unfold quietStep at h
      by_cases hm : m ∈ seen
      · rw [if_pos hm] at h; exact .inl h
      · rw [if_neg hm] at h
        rcases dfsList_sound _ _ _ _ _ h with h | ⟨c, hc, r⟩
        · exact .inl h
        · exact .inr ⟨m, List.mem_cons_self, hm, c, hc, r⟩
    · exact .inr ⟨m', List.mem_cons_of_mem _ hm', hs, c, hc, r⟩

theorem quietFold_closed {g : Graph} (h : g.wf = true) (seen : List Nat) :
    ∀ (ms q : List Nat), (∀ x, x ∈ q → ∀ y, y ∈ g.ownsOf x → y ∈ q) →
      (∀ x, x ∈ q → x ∈ ms.foldl (quietStep g seen) q) ∧
      (∀ x, x ∈ ms.foldl (quietStep g seen) q → ∀ y, y ∈ g.ownsOf x → y ∈ ms.foldl (quietStep g seen) q) ∧
      (∀ m, m ∈ ms → m ∉ seen → ∀ c, c ∈ g.ownsOf m → c ∈ ms.foldl (quietStep g seen) q) := by
  intro ms
  induction ms with
  | nil =>
    intro q hq
    simp only [List.foldl_nil]
    refine ⟨fun x hx => hx, hq, ?_⟩
    intro m hm; cases hm
  | cons m rest ih =>
    intro q hq
    simp only [List.foldl_cons]
    -- one step keeps the accumulated set closed, grows it, and adds what `m` owns
    have hstep : (∀ x, x ∈ q → x ∈ quietStep g seen q m) ∧
        (∀ x, x ∈ quietStep g seen q m → ∀ y, y ∈ g.ownsOf x → y ∈ quietStep g seen q m) ∧
        (m ∉ seen → ∀ c, c ∈ g.ownsOf m → c ∈ quietStep g seen q m) := by
      unfold quietStep
      by_cases hm : m ∈ seen
      · rw [if_pos hm]; exact ⟨fun x hx => hx, hq, fun h => absurd hm h⟩
      · rw [if_neg hm]
        obtain ⟨d1, d2, d3⟩ := dfsList_closed g.ownsOf g.N (wf_owns h) (g.N + 1) (g.ownsOf m) q
          (fun n hn => wf_owns h m n hn) (Nat.lt_succ_of_le (unseen_le _ _))
        refine ⟨d1, ?_, fun _ c hc => d2 c hc⟩
        intro x hx y hy
        by_cases hxq : x ∈ q
        · exact d1 y (hq x hxq y hy)
        · exact d3 x hx hxq y hy
    obtain ⟨s1, s2, s3⟩ := hstep
    obtain ⟨i1, i2, i3⟩ := ih (quietStep g seen q m) s2
    refine ⟨fun x hx => i1 x (s1 x hx), i2, ?_⟩
    intro m' hm' hs c hc
    rcases List.mem_cons.1 hm' with rfl | hm'
    · exact i1 c (s3 hs c hc)
    · exact i3 m' hm' hs c hc

theorem quiet_iff {g : Graph} (h : g.wf = true) (x : Nat) : x ∈ g.quietSet ↔ g.UnderUnseenOwner x := by
  rw [quietSet_eq]
  constructor
  · intro hx
    rcases quietFold_sound g g.seenSet _ _ x hx with h0 | ⟨m, hm, hs, c, hc, r⟩
    · cases h0
    · exact ⟨m, List.mem_range.1 hm, hs, c, hc, r⟩
  · rintro ⟨m, hm, hs, c, hc, r⟩
    obtain ⟨_, c2, c3⟩ := quietFold_closed h g.seenSet (List.range g.N) [] (fun x hx => by cases hx)
    exact Reach.mem_of_closed c2 (c3 m (List.mem_range.2 hm) hs c hc) r

/-! ### verdicts, relationally -/

theorem verdict_used_iff {g : Graph} (h : g.wf = true) (n : Nat) :
    g.verdict n = .used ↔ Reach g.usesOf 0 n := by
  unfold verdict verdictWith
  rw [← seen_iff h]
  by_cases hs : n ∈ g.seenSet
  · simp [hs]
  · simp only [hs, if_false, iff_false]
    split <;> simp

theorem verdict_quiet_iff {g : Graph} (h : g.wf = true) (n : Nat) :
    g.verdict n = .quiet ↔ ¬ Reach g.usesOf 0 n ∧ g.UnderUnseenOwner n := by
  unfold verdict verdictWith
  rw [← seen_iff h, ← quiet_iff h]
  by_cases hs : n ∈ g.seenSet
  · simp [hs]
  · by_cases hq : n ∈ g.quietSet <;> simp [hs, hq]

theorem verdict_unused_iff {g : Graph} (h : g.wf = true) (n : Nat) :
    g.verdict n = .unused ↔ ¬ Reach g.usesOf 0 n ∧ ¬ g.UnderUnseenOwner n := by
  unfold verdict verdictWith
  rw [← seen_iff h, ← quiet_iff h]
  by_cases hs : n ∈ g.seenSet
  · simp [hs]
  · by_cases hq : n ∈ g.quietSet <;> simp [hs, hq]

/-! ### `Results()` lists versus verdicts -/

theorem mem_used_iff (g : Graph) (n : Nat) :
    n ∈ g.results.used ↔ n ≠ 0 ∧ n < g.N ∧ g.verdict n = .used := by
  simp only [results, verdict, List.mem_filter, List.mem_range, decide_eq_true_eq]
  constructor
  · rintro ⟨⟨a, b⟩, c⟩; exact ⟨b, a, c⟩
  · rintro ⟨a, b, c⟩; exact ⟨⟨b, a⟩, c⟩

theorem mem_unused_iff (g : Graph) (n : Nat) :
    n ∈ g.results.unused ↔ n ≠ 0 ∧ n < g.N ∧ g.verdict n = .unused := by
  simp only [results, verdict, List.mem_filter, List.mem_range, decide_eq_true_eq]
  constructor
  · rintro ⟨⟨a, b⟩, c⟩; exact ⟨b, a, c⟩
  · rintro ⟨a, b, c⟩; exact ⟨⟨b, a⟩, c⟩

theorem mem_quiet_iff (g : Graph) (n : Nat) :
    n ∈ g.results.quiet ↔ n ≠ 0 ∧ n < g.N ∧ g.verdict n = .quiet := by
  simp only [results, verdict, List.mem_filter, List.mem_range, decide_eq_true_eq]
  constructor
  · rintro ⟨⟨a, b⟩, c⟩; exact ⟨b, a, c⟩
  · rintro ⟨a, b, c⟩; exact ⟨⟨b, a⟩, c⟩

/-- Every non-root node gets exactly one of the three verdicts (the lists partition). -/
theorem results_partition (g : Graph) (n : Nat) (h0 : n ≠ 0) (hn : n < g.N) :
    (n ∈ g.results.used ∧ n ∉ g.results.unused ∧ n ∉ g.results.quiet) ∨
    (n ∉ g.results.used ∧ n ∈ g.results.unused ∧ n ∉ g.results.quiet) ∨
    (n ∉ g.results.used ∧ n ∉ g.results.unused ∧ n ∈ g.results.quiet) := by
  simp only [mem_used_iff, mem_unused_iff, mem_quiet_iff]
  cases hv : g.verdict n <;> simp [h0, hn]

/-! ### property theorems -/

/-- Used = the non-root nodes reachable from the root over `uses`. -/
theorem used_iff_reachable {g : Graph} (h : g.wf = true) (n : Nat) :
    n ∈ g.results.used ↔ n ≠ 0 ∧ Reach g.usesOf 0 n := by
  rw [mem_used_iff, verdict_used_iff h]
  constructor
  · rintro ⟨a, _, c⟩; exact ⟨a, c⟩
  · rintro ⟨a, c⟩; exact ⟨a, reach_lt h (wf_pos h) c, c⟩

/-- Used is closed under `uses` from the root: everything the root uses is Used, and
everything a Used node uses is Used (the root itself is not an object, hence `y ≠ 0`). -/
theorem used_closed {g : Graph} (h : g.wf = true) :
    (∀ y, y ∈ g.usesOf 0 → y ≠ 0 → y ∈ g.results.used) ∧
    (∀ x, x ∈ g.results.used → ∀ y, y ∈ g.usesOf x → y ≠ 0 → y ∈ g.results.used) := by
  constructor
  · intro y hy h0
    exact (used_iff_reachable h y).2 ⟨h0, .step (.refl 0) hy⟩
  · intro x hx y hy h0
    exact (used_iff_reachable h y).2 ⟨h0, .step ((used_iff_reachable h x).1 hx).2 hy⟩

theorem reaches_sound (g : Graph) {x y : Nat} (hr : g.reaches x y = true) : Reach g.usesOf x y := by
  unfold reaches at hr
  simp only [Bool.or_eq_true, beq_iff_eq, List.contains_eq_mem, decide_eq_true_eq] at hr
  rcases hr with (rfl | hr) | hr
  · exact .refl _
  · exact .step (.refl _) hr
  · rcases dfs_sound g.usesOf _ _ _ _ hr with h | h
    · cases h
    · exact h

/-- Deletion safety on the graph.  `refs` lists the program's references as
(`chain` = ids of the declarations enclosing the referring identifier, `y` = id of the
object referred to).  If the certificate check `refsCovered` succeeds, then every
reference whose enclosing declarations all survive (are Used; an empty chain means the
reference is owned by the package itself) points at an object that survives too. -/
theorem deletion_safe_graph {g : Graph} (h : g.wf = true) (refs : List (List Nat × Nat))
    (hcov : g.refsCovered refs = true) :
    ∀ c y, (c, y) ∈ refs → (∀ x, x ∈ c → x ∈ g.results.used) → y ≠ 0 → y ∈ g.results.used := by
  intro c y hm hall h0
  unfold refsCovered at hcov
  rw [List.all_eq_true] at hcov
  have hc := hcov (c, y) hm
  simp only [List.any_eq_true] at hc
  obtain ⟨x, hx, hr⟩ := hc
  have r := reaches_sound g hr
  rw [used_iff_reachable h]
  refine ⟨h0, ?_⟩
  by_cases hce : c.isEmpty = true
  · rw [if_pos hce] at hx
    have : x = 0 := by simpa using hx
    subst this; exact r
  · rw [if_neg hce] at hx
    exact Reach.trans ((used_iff_reachable h x).1 (hall x hx)).2 r

/-- Completeness for zero-reference objects: a node that is not the root, that no node
(the root included) uses, and that does not lie below an unseen owner, is reported. -/
theorem zero_ref_reported {g : Graph} (h : g.wf = true) (n : Nat) (h0 : n ≠ 0) (hn : n < g.N)
    (hin : ∀ m, n ∉ g.usesOf m) (hown : ¬ g.UnderUnseenOwner n) : n ∈ g.results.unused := by
  rw [mem_unused_iff, verdict_unused_iff h]
  refine ⟨h0, hn, ?_, hown⟩
  intro r
  cases r with
  | refl => exact h0 rfl
  | step _ hc => exact hin _ hc

/-- Package-level form: a node nobody owns and nobody uses is reported. -/
theorem zero_ref_unowned_reported {g : Graph} (h : g.wf = true) (n : Nat) (h0 : n ≠ 0) (hn : n < g.N)
    (hin : ∀ m, n ∉ g.usesOf m) (hno : ∀ m, n ∉ g.ownsOf m) : n ∈ g.results.unused := by
  apply zero_ref_reported h n h0 hn hin
  rintro ⟨m, _, hs, c, hc, r⟩
  cases r with
  | refl => exact hno m hc
  | step _ hc2 => exact hno _ hc2

/-- A Quiet node is not Used and lies below an owner that is itself not Used. -/
theorem quiet_only_under_unused_owner {g : Graph} (h : g.wf = true) (n : Nat) (hq : n ∈ g.results.quiet) :
    n ∉ g.results.used ∧
    ∃ m, m < g.N ∧ g.verdict m ≠ .used ∧ ∃ c, c ∈ g.ownsOf m ∧ Reach g.ownsOf c n := by
  rw [mem_quiet_iff, verdict_quiet_iff h] at hq
  obtain ⟨_, _, hnr, m, hm, hs, c, hc, r⟩ := hq
  refine ⟨fun hu => hnr ((used_iff_reachable h n).1 hu).2, m, hm, ?_, c, hc, r⟩
  intro hv
  exact hs ((seen_iff h m).2 ((verdict_used_iff h m).1 hv))

/-- When `owns` is well-founded (it is a containment forest in real graphs; `rk` is any
rank that strictly grows along `owns`), every Quiet node lies below a *reported* node. -/
theorem quiet_has_unused_ancestor {g : Graph} (h : g.wf = true) (rk : Nat → Nat)
    (hrk : ∀ a b, b ∈ g.ownsOf a → rk a < rk b) :
    ∀ n, n ∈ g.results.quiet →
      ∃ m, m ∈ g.results.unused ∧ ∃ c, c ∈ g.ownsOf m ∧ Reach g.ownsOf c n := by
  have hrk2 : ∀ a b, Reach g.ownsOf a b → rk a ≤ rk b := by
    intro a b r
    induction r with
    | refl => exact Nat.le_refl _
    | step _ hc ih => exact Nat.le_trans ih (Nat.le_of_lt (hrk _ _ hc))
  intro n
  induction hk : rk n using Nat.strongRecOn generalizing n with
  | _ k ih =>
    intro hq
    obtain ⟨_, m, hm, hv, c, hc, r⟩ := quiet_only_under_unused_owner h n hq
    have hlt : rk m < rk n := Nat.lt_of_lt_of_le (hrk m c hc) (hrk2 c n r)
    -- the root is always seen, so m ≠ 0
    have hm0 : m ≠ 0 := by
      intro e; subst e
      exact hv ((verdict_used_iff h 0).2 (.refl 0))
    cases hvm : g.verdict m with
    | used => exact absurd hvm hv
    | unused => exact ⟨m, (mem_unused_iff g m).2 ⟨hm0, hm, hvm⟩, c, hc, r⟩
    | quiet =>
      obtain ⟨m', hm', c', hc', r'⟩ := ih (rk m) (by omega) m rfl ((mem_quiet_iff g m).2 ⟨hm0, hm, hvm⟩)
      exact ⟨m', hm', c', hc', Reach.trans r' (Reach.head hc r)⟩

/-! ### non-vacuity -/

/-- root → 1 → 2; 3 unused, owns 4 (quiet) which owns 5 (quiet); 6 unused, uses 2. -/
def ex1 : Graph := ⟨[⟨[1], []⟩, ⟨[2], []⟩, ⟨[], []⟩, ⟨[], [4]⟩, ⟨[], [5]⟩, ⟨[], []⟩, ⟨[2], []⟩]⟩

example : ex1.wf = true := by decide
example : ex1.results = ⟨[1, 2], [3, 6], [4, 5]⟩ := by decide
example : ex1.refsCovered [([1], 2), ([], 1), ([6], 2)] = true := by decide
example : (1 : Nat) ∈ ex1.results.used ∧ (2 : Nat) ∈ ex1.usesOf 1 ∧ (2 : Nat) ∈ ex1.results.used := by decide
-- zero_ref_reported: node 3 has no incoming use edge and no owner
example : (3 : Nat) ∈ ex1.results.unused := by decide
-- quiet_only_under_unused_owner: 5 is quiet below 3
example : (5 : Nat) ∈ ex1.results.quiet ∧ (4 : Nat) ∈ ex1.ownsOf 3 := by decide
-- quiet_has_unused_ancestor: `owns` of ex1 strictly increases the identity rank
example : ∀ a b, b ∈ ex1.ownsOf a → a < b := by
  intro a b hb
  match a, hb with
  | 0, hb | 1, hb | 2, hb | 5, hb | 6, hb => simp [ex1, ownsOf] at hb
  | 3, hb => simp [ex1, ownsOf] at hb; omega
  | 4, hb => simp [ex1, ownsOf] at hb; omega
  | n + 7, hb => simp [ex1, ownsOf] at hb

end Graph
end Verif.C07
