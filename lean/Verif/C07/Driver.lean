/-
C07 line protocol.

  verdicts <N> <uses> <owns>
      <uses>/<owns> = `-` or comma separated `a>b` edges (per source node in Go list order)
      → `wf=0` | `wf=1 <string over U/Q/X for nodes 1..N-1> zr=<k>/<ok>`
        (`zr`: k nodes meet the hypotheses of `zero_ref_unowned_reported`, ok of them are Unused)
  refs <N> <uses> <refs>
      <refs> = `-` or `;` separated `c1.c2…>y` (chain may be empty)
      → `wf=0` | `covered` | `uncovered <i1,i2,…>` (indices of references not covered by a use-path)
-/
import Verif.Common.Proto
import Verif.C07.Graph
namespace Verif.C07
open Verif.Proto

def parseEdge (s : String) : Option (Nat × Nat) :=
  match s.splitOn ">" with
  | [a, b] => do let a ← a.toNat?; let b ← b.toNat?; pure (a, b)
  | _ => none

def parseEdges (s : String) : Option (List (Nat × Nat)) :=
  if s = "-" then some [] else (s.splitOn ",").mapM parseEdge

/-- build the node list; edges whose source is out of range are rejected -/
def mkGraph (n : Nat) (uses owns : List (Nat × Nat)) : Option Graph := do
  let mut us : Array (Array Nat) := Array.replicate n #[]
  let mut os : Array (Array Nat) := Array.replicate n #[]
  for (a, b) in uses do
    if a < n then us := us.modify a (·.push b) else none
  for (a, b) in owns do
    if a < n then os := os.modify a (·.push b) else none
  pure ⟨(List.range n).map fun i => ⟨(us.getD i #[]).toList, (os.getD i #[]).toList⟩⟩

def parseGraph (n uses owns : String) : Option Graph := do
  let n ← n.toNat?
  let u ← parseEdges uses
  let o ← parseEdges owns
  mkGraph n u o

def showVerdict : Graph.Verdict → Char
  | .used => 'U' | .quiet => 'Q' | .unused => 'X'

def showVerdicts (g : Graph) : String := String.ofList (g.verdicts.map showVerdict)

/-- nodes that meet the hypotheses of `zero_ref_unowned_reported` -/
def zeroRefNodes (g : Graph) : List Nat :=
  let usedT := g.nodes.flatMap (·.uses)
  let ownedT := g.nodes.flatMap (·.owns)
  ((List.range g.N).filter (· ≠ 0)).filter fun n => !usedT.contains n && !ownedT.contains n

def parseRef (s : String) : Option (List Nat × Nat) :=
  match s.splitOn ">" with
  | [c, y] => do
    let y ← y.toNat?
    let c ← if c = "" then some [] else (c.splitOn ".").mapM (·.toNat?)
    pure (c, y)
  | _ => none

def parseRefs (s : String) : Option (List (List Nat × Nat)) :=
  if s = "-" then some [] else (s.splitOn ";").mapM parseRef

def step (line : String) : String :=
  match tokens line with
  | ["verdicts", n, u, o] =>
    match parseGraph n u o with
    | some g =>
      if !g.wf then "wf=0" else
      let r := g.results
      let zr := zeroRefNodes g
      let ok := zr.filter (r.unused.contains ·)
      s!"wf=1 {showVerdicts g} zr={zr.length}/{ok.length}"
    | none => "bad-op"
  | ["refs", n, u, refs] =>
    match parseGraph n u "-", parseRefs refs with
    | some g, some rs =>
      if !g.wf then "wf=0" else
      if g.refsCovered rs then "covered" else
      let bad := (rs.zipIdx.filter fun (r, _) => !g.refsCovered [r]).map (fun (_, i) => toString i)
      "uncovered " ++ ",".intercalate bad
    | _, _ => "bad-op"
  | _ => "bad-op"

end Verif.C07
