import Verif.C15.Lemmas
/-!
C15 — soundness of the nilness analysis (model of nilness.go after the `fix:` commits) with
respect to the concrete semantics of `Sem.lean`.

Main statements (all for arbitrary functions/programs, unbounded):

* `merge_sound`, `le_sound`, `normalize_sound`  — the lattice operations only lose information.
* `transfer_sound`   — per instruction kind: if the abstract state describes the registers
  before the instruction, the transferred state describes them after every possible
  execution of it (a panicking execution has no successor).
* `phis_sound`, `edge_sound` — the same for the parallel phis and for a whole CFG edge
  (`edgeTransfer` = what nilness.go hands to `dense.Forward`).
* `path_sound`       — for ANY post-fixpoint `sol` of the flow equations (`checkPost`), every
  machine state in which an execution reaches a block is described by `sol` at that block.
* `result_sound`     — interprocedural: if every function's summary is either the bail-out
  default or `retNilness` of a post-fixpoint computed with these summaries, then every value
  tuple a function returns in a terminating execution is described by its summary;
  `result_sound_never` / `result_sound_always` spell that out for NeverNil / AlwaysNil,
  outer and inner.
* `sa4023_sound`     — a comparison `f() == nil` that SA4023 reports is false in every execution.
-/
namespace Verif.C15

/-- calls of static callees return what their summaries describe. -/
def CrOK (summ : Summ) (cr : Nat → List SVal → Prop) : Prop :=
  ∀ g rs, cr g rs → Describes (summ g) rs

theorem merge_sound (a b : VN) (x : SVal) (h : gamma a x ∨ gamma b x) : gamma (merge a b) x := by
  rcases h with h | h
  · exact gamma_merge_left a b x h
  · exact gamma_merge_right a b x h

example : gamma (merge ⟨.never, .never⟩ ⟨.always, .always⟩) (.iface none) :=
  merge_sound _ _ _ (Or.inr ⟨rfl, trivial⟩)

theorem le_sound (a b : VN) (x : SVal) (hle : leVN a b = true) (h : gamma a x) : gamma b x :=
  gamma_leVN a b x hle h

example : gamma ⟨.maybe, .mglobal⟩ (.iface (some true)) :=
  le_sound ⟨.always, .never⟩ _ _ (by decide) ⟨rfl, rfl⟩

theorem normalize_sound (v : VN) (isIf : Bool) (x : SVal) (h : gamma v x) : gamma (normalize v isIf) x :=
  gamma_normalize v isIf x h

example : gamma (normalize ⟨.zero, .never⟩ false) (.ptr false) :=
  normalize_sound _ _ _ ⟨rfl, trivial⟩

/-! ## one instruction -/

section instr
variable (F : Func) (summ : Summ) (cr : Nat → List SVal → Prop)

theorem sound_convert (v x : Nat) (fromInt onTrue : Bool) (k : Option Nat) (s : State) (σ σ' : MState)
    (hni : (F.info v).iface = false)
    (hd : descr F s σ.1) (hs : stepI F cr k (.convert v x fromInt) σ σ') :
    descr F (transferInstr F summ onTrue s (.convert v x fromInt)) σ'.1 := by
  obtain ⟨sv, hok, hsem, rfl⟩ := hs
  have hnp : (F.info v).ptr = false → gammaC ⟨.zero, .never⟩ (.sc sv) := by
    intro hp
    have := okS_nonptr _ sv (by simpa [flagsOf] using hp) hok
    subst this; exact gamma_nonptr_np
  simp only [transferInstr]
  cases fromInt with
  | true =>
    simp only [if_true]
    exact descr_set_def F s σ.1 v VN.top (.sc sv) hd (fun _ => gamma_top sv) hnp
  | false =>
    simp only [Bool.false_eq_true, if_false]
    refine descr_set_def F s σ.1 v (get F s x) (.sc sv) hd ?_ hnp
    intro hpv
    obtain ⟨h1, h2⟩ := hsem rfl hpv
    have hptr : ∃ n, sv = .ptr n := by
      cases sv with
      | np => simp [okS, flagsOf, hpv] at hok
      | ptr n => exact ⟨n, rfl⟩
      | iface g => simp [okS, flagsOf, hni] at hok
    obtain ⟨n, rfl⟩ := hptr
    show gamma (get F s x) (.ptr n)
    by_cases hpx : (F.info x).ptr = true
    · obtain ⟨sx, hrx, hn⟩ := h1 hpx
      have hg := (descr_rdS F s σ.1 x sx hd hrx).1
      rw [← hn] at hg
      exact (gamma_ptr _ _ _).2 hg
    · have hpx' : (F.info x).ptr = false := by simpa using hpx
      have hn := h2 hpx'
      rw [get_nonptr F s x hpx']
      simp only [outerNil] at hn
      subst hn; exact ⟨rfl, trivial⟩

theorem sound_copy (v x : Nat) (onTrue : Bool) (k : Option Nat) (s : State) (σ σ' : MState)
    (hd : descr F s σ.1) (hs : stepI F cr k (.copy v x) σ σ') :
    descr F (transferInstr F summ onTrue s (.copy v x)) σ'.1 := by
  obtain ⟨sx, hrx, hok, rfl⟩ := hs
  simp only [transferInstr]
  exact descr_set_def F s σ.1 v (get F s x) (.sc sx) hd (fun _ => descr_rdS F s σ.1 x sx hd hrx)
    (gammaC_np_of_okS F v sx hok)

theorem sound_s2ap (v x : Nat) (nz onTrue : Bool) (k : Option Nat) (s : State) (σ σ' : MState)
    (hxv : x ≠ v)
    (hd : descr F s σ.1) (hs : stepI F cr k (.s2ap v x nz) σ σ') :
    descr F (transferInstr F summ onTrue s (.s2ap v x nz)) σ'.1 := by
  obtain ⟨n, hrx, hnz, hok, rfl⟩ := hs
  simp only [transferInstr]
  cases nz with
  | true =>
    have hn : n = false := hnz rfl
    subst hn
    simp only [if_true]
    refine descr_refine_never F _ _ x ?_ (operand_nonnil F σ.1 v x _ _ hrx rfl hxv)
    exact descr_setOuter_def F s σ.1 v .never (.ptr false) hd (by intro g; simp) (fun _ => rfl) hok
  | false =>
    simp only [Bool.false_eq_true, if_false]
    exact descr_set_def F s σ.1 v (get F s x) (.sc (.ptr n)) hd (fun _ => descr_rdS F s σ.1 x _ hd hrx)
      (gammaC_np_of_okS F v _ hok)

theorem sound_s2a (v x : Nat) (nz onTrue : Bool) (k : Option Nat) (s : State) (σ σ' : MState)
    (hxv : x ≠ v)
    (hd : descr F s σ.1) (hs : stepI F cr k (.s2a v x nz) σ σ') :
    descr F (transferInstr F summ onTrue s (.s2a v x nz)) σ'.1 := by
  obtain ⟨n, hrx, hnz, hok, rfl⟩ := hs
  have hpv : (F.info v).ptr = false := by simpa [okS, flagsOf] using hok
  have h1 : descr F s (setv σ.1 v (some (.sc .np))) := descr_setv_nonptr F s σ.1 v _ hd hpv gamma_nonptr_np
  simp only [transferInstr]
  cases nz with
  | true =>
    have hn : n = false := hnz rfl
    subst hn
    simp only [if_true]
    exact descr_refine_never F _ _ x h1 (operand_nonnil F σ.1 v x _ _ hrx rfl hxv)
  | false =>
    simpa using h1

theorem sound_slice (v x : Nat) (isArr nzb onTrue : Bool) (k : Option Nat) (s : State) (σ σ' : MState)
    (hxv : x ≠ v) (hni : (F.info v).iface = false) (hpx : (F.info v).ptr = false → (F.info x).ptr = false)
    (hd : descr F s σ.1) (hs : stepI F cr k (.slice v x isArr nzb) σ σ') :
    descr F (transferInstr F summ onTrue s (.slice v x isArr nzb)) σ'.1 := by
  obtain ⟨sv, hok, hsem, rfl⟩ := hs
  simp only [transferInstr]
  by_cases hpv : (F.info v).ptr = true
  · obtain ⟨h1, h2⟩ := hsem hpv
    obtain ⟨m, rfl⟩ := okS_ptr _ sv (by simpa [flagsOf] using hpv) (by simpa [flagsOf] using hni) hok
    cases isArr with
    | true =>
      simp only [if_true]
      exact descr_setOuter_def F s σ.1 v .never (.ptr m) hd (by intro g; simp) (fun _ => by have := h1 rfl; simpa [outerNil, gammaN] using this) hok
    | false =>
      obtain ⟨n, hrx, hnz, hm⟩ := h2 rfl
      simp only [outerNil] at hm
      subst hm
      simp only [Bool.false_eq_true, if_false]
      cases nzb with
      | true =>
        have hn : m = false := hnz rfl
        subst hn
        simp only [if_true]
        refine descr_refine_never F _ _ x ?_ (operand_nonnil F σ.1 v x _ _ hrx rfl hxv)
        exact descr_setOuter_def F s σ.1 v .never (.ptr false) hd (by intro g; simp) (fun _ => rfl) hok
      | false =>
        simp only [Bool.false_eq_true, if_false]
        exact descr_set_def F s σ.1 v (get F s x) (.sc (.ptr m)) hd (fun _ => descr_rdS F s σ.1 x _ hd hrx)
          (gammaC_np_of_okS F v _ hok)
  · have hpv' : (F.info v).ptr = false := by simpa using hpv
    have hpx' := hpx hpv'
    have h1 : descr F s (setv σ.1 v (some (.sc sv))) :=
      descr_setv_nonptr F s σ.1 v _ hd hpv' (gammaC_np_of_okS F v sv hok hpv')
    cases isArr <;> cases nzb <;>
      simp [setOuter_nonptr F _ v _ hpv', setOuter_nonptr F _ x _ hpx', set_nonptr F _ v _ hpv'] <;> exact h1

theorem sound_binop (v : Nat) (op : BinK) (x y : Nat) (onTrue : Bool) (k : Option Nat) (s : State) (σ σ' : MState)
    (hd : descr F s σ.1) (hs : stepI F cr k (.binop v op x y) σ σ') :
    descr F (transferInstr F summ onTrue s (.binop v op x y)) σ'.1 := by
  obtain ⟨hok, rfl⟩ := hs
  have hpv : (F.info v).ptr = false := by simpa [okS, flagsOf] using hok
  simpa [transferInstr] using descr_setv_nonptr F s σ.1 v (.sc .np) hd hpv gamma_nonptr_np

theorem sound_load (v x : Nat) (onTrue : Bool) (k : Option Nat) (s : State) (σ σ' : MState)
    (hxv : x ≠ v)
    (hd : descr F s σ.1) (hs : stepI F cr k (.load v x) σ σ') :
    descr F (transferInstr F summ onTrue s (.load v x)) σ'.1 := by
  obtain ⟨hx, sv, hok, rfl⟩ := hs
  simp only [transferInstr]
  refine descr_refine_never F _ _ x ?_ ?_
  · split
    · exact descr_set_def F s σ.1 v _ (.sc sv) hd
        (fun _ => by
          refine ⟨trivial, ?_⟩
          cases sv with
          | iface h => cases h <;> trivial
          | _ => trivial) (gammaC_np_of_okS F v sv hok)
    · exact descr_set_def F s σ.1 v _ (.sc sv) hd (fun _ => gamma_top sv) (gammaC_np_of_okS F v sv hok)
  · intro c hc
    simp only [setv, hxv, if_false] at hc
    exact ⟨.ptr false, hx c hc, rfl⟩

theorem sound_addr (v x : Nat) (onTrue : Bool) (k : Option Nat) (s : State) (σ σ' : MState)
    (hd : descr F s σ.1) (hs : stepI F cr k (.addr v x) σ σ') :
    descr F (transferInstr F summ onTrue s (.addr v x)) σ'.1 := by
  obtain ⟨hrx, hok, rfl⟩ := hs
  simp only [transferInstr]
  refine descr_setOuter_def F _ σ.1 v .never (.ptr false) ?_ (by intro g; simp) (fun _ => rfl) hok
  exact descr_refine_never F s σ.1 x hd (operand_nonnil' F σ.1 x _ hrx rfl)

theorem sound_alloc (v : Nat) (onTrue : Bool) (k : Option Nat) (s : State) (σ σ' : MState)
    (hd : descr F s σ.1) (hs : stepI F cr k (.alloc v) σ σ') :
    descr F (transferInstr F summ onTrue s (.alloc v)) σ'.1 := by
  obtain ⟨hok, rfl⟩ := hs
  simp only [transferInstr]
  exact descr_setOuter_def F s σ.1 v .never (.ptr false) hd (by intro g; simp) (fun _ => rfl) hok

theorem sound_useNN (x : Nat) (onTrue : Bool) (k : Option Nat) (s : State) (σ σ' : MState)
    (hd : descr F s σ.1) (hs : stepI F cr k (.useNN x) σ σ') :
    descr F (transferInstr F summ onTrue s (.useNN x)) σ'.1 := by
  obtain ⟨hrx, h⟩ := hs
  rw [h]
  simp only [transferInstr]
  exact descr_refine_never F s σ.1 x hd (operand_nonnil' F σ.1 x _ hrx rfl)

theorem sound_recv (v ch : Nat) (onTrue : Bool) (k : Option Nat) (s : State) (σ σ' : MState)
    (hd : descr F s σ.1) (hs : stepI F cr k (.recv v ch) σ σ') :
    descr F (transferInstr F summ onTrue s (.recv v ch)) σ'.1 := by
  obtain ⟨hrx, c, hok, rfl⟩ := hs
  simp only [transferInstr]
  refine descr_set_def F _ σ.1 v VN.top c ?_ ?_ ?_
  · exact descr_refine_never F s σ.1 ch hd (operand_nonnil' F σ.1 ch _ hrx rfl)
  · intro _
    cases c with
    | sc x => exact gamma_top x
    | _ => trivial
  · intro hp; exact gammaC_nonptr _ c (by simpa [flagsOf] using hp) hok

theorem sound_makeiface (v x : Nat) (onTrue : Bool) (k : Option Nat) (s : State) (σ σ' : MState)
    (hd : descr F s σ.1) (hs : stepI F cr k (.makeiface v x) σ σ') :
    descr F (transferInstr F summ onTrue s (.makeiface v x)) σ'.1 := by
  obtain ⟨sx, hrx, hni, hok, rfl⟩ := hs
  simp only [transferInstr]
  refine descr_set_def F s σ.1 v _ _ hd ?_ ?_
  · intro _
    have hg := (descr_rdS F s σ.1 x sx hd hrx).1
    exact (gamma_iface_some _ _ _).2 ⟨rfl, hg⟩
  · intro hp; simp [okS, flagsOf, hp] at hok

theorem sound_maplookup (v x : Nat) (onTrue : Bool) (k : Option Nat) (s : State) (σ σ' : MState)
    (hd : descr F s σ.1) (hs : stepI F cr k (.maplookup v x) σ σ') :
    descr F (transferInstr F summ onTrue s (.maplookup v x)) σ'.1 := by
  obtain ⟨n, c, hrx, hok, hz, rfl⟩ := hs
  have hnp : (F.info v).ptr = false → gammaC ⟨.zero, .never⟩ c :=
    fun hp => gammaC_nonptr _ c (by simpa [flagsOf] using hp) hok
  simp only [transferInstr]
  split
  · next ha =>
    -- the map is known to be nil: the lookup yields the zero value
    have hg := (descr_rdS F s σ.1 x _ hd hrx).1
    rw [ha] at hg
    have hn : n = true := hg
    refine descr_set_def F s σ.1 v _ c hd ?_ hnp
    intro hpv
    cases c with
    | sc sv =>
      have := hz hn sv rfl
      cases sv with
      | np => simp [okC, okS, flagsOf, hpv] at hok
      | ptr m => simp only [isZero] at this; subst this; exact ⟨rfl, trivial⟩
      | iface h => simp only [isZero] at this; subst this; exact ⟨rfl, trivial⟩
    | _ => trivial
  · refine descr_set_def F s σ.1 v VN.top c hd ?_ hnp
    intro _
    cases c with
    | sc sv => exact gamma_top sv
    | _ => trivial

theorem sound_fieldidx (v x : Nat) (onTrue : Bool) (k : Option Nat) (s : State) (σ σ' : MState)
    (hpx : (F.info x).ptr = false)
    (hd : descr F s σ.1) (hs : stepI F cr k (.fieldidx v x) σ σ') :
    descr F (transferInstr F summ onTrue s (.fieldidx v x)) σ'.1 := by
  obtain ⟨c, hok, rfl⟩ := hs
  simp only [transferInstr, set_nonptr F s x _ hpx]
  refine descr_set_def F s σ.1 v VN.top c hd ?_ (fun hp => gammaC_nonptr _ c (by simpa [flagsOf] using hp) hok)
  intro _
  cases c with
  | sc sv => exact gamma_top sv
  | _ => trivial

theorem gamma_always_of_nil (st : SVal) (h : outerNil st = true) : gamma ⟨.always, .always⟩ st := by
  cases st with
  | np => simp [outerNil] at h
  | ptr n => simp only [outerNil] at h; subst h; exact ⟨rfl, trivial⟩
  | iface g =>
    cases g with
    | none => exact ⟨rfl, trivial⟩
    | some b => simp [outerNil] at h

theorem sound_iff (c : Nat) (onTrue : Bool) (k : Option Nat) (s : State) (σ σ' : MState)
    (hk : onTrue = true ↔ k = some 0)
    (hd : descr F s σ.1) (hs : stepI F cr k (.iff c) σ σ') :
    descr F (transferInstr F summ onTrue s (.iff c)) σ'.1 := by
  obtain ⟨h, _, hsem⟩ := hs
  rw [h]
  simp only [transferInstr]
  cases hT : ifTarget F c with
  | none => exact hd
  | some p =>
    obtain ⟨t, op⟩ := p
    simp only [hT] at hsem
    cases op with
    | other => cases onTrue <;> exact hd
    | eq =>
      obtain ⟨st, hrt, hiff⟩ := hsem
      cases onTrue with
      | true =>
        have hn : outerNil st = true := hiff.1 (hk.1 rfl)
        simp only [if_true]
        refine descr_refine_set F s σ.1 t _ hd ?_
        intro c' hc'
        rw [rdS_env F σ.1 t st c' hrt hc']
        exact gamma_always_of_nil st hn
      | false =>
        have hn : outerNil st = false := by
          cases hb : outerNil st with
          | false => rfl
          | true => exact absurd (hk.2 (hiff.2 hb)) (by simp)
        simp only [Bool.false_eq_true, if_false]
        exact descr_refine_never F s σ.1 t hd (operand_nonnil' F σ.1 t st hrt hn)
    | ne =>
      obtain ⟨st, hrt, hiff⟩ := hsem
      cases onTrue with
      | true =>
        have hn : outerNil st = false := hiff.1 (hk.1 rfl)
        simp only [if_true]
        exact descr_refine_never F s σ.1 t hd (operand_nonnil' F σ.1 t st hrt hn)
      | false =>
        have hn : outerNil st = true := by
          cases hb : outerNil st with
          | true => rfl
          | false => exact absurd (hk.2 (hiff.2 hb)) (by simp)
        simp only [Bool.false_eq_true, if_false]
        refine descr_refine_set F s σ.1 t _ hd ?_
        intro c' hc'
        rw [rdS_env F σ.1 t st c' hrt hc']
        exact gamma_always_of_nil st hn

theorem sound_typeassert (v x : Nat) (commaok toIface onTrue : Bool) (k : Option Nat) (s : State) (σ σ' : MState)
    (hxv : x ≠ v)
    (hd : descr F s σ.1) (hs : stepI F cr k (.typeassert v x commaok toIface) σ σ') :
    descr F (transferInstr F summ onTrue s (.typeassert v x commaok toIface)) σ'.1 := by
  obtain ⟨h, hrx, hsem⟩ := hs
  simp only [transferInstr]
  cases commaok with
  | true =>
    simp only [if_true] at hsem ⊢
    rw [hsem]
    exact descr_setv_tuple F s σ.1 v _ hd (by intro x; simp)
  | false =>
    simp only [Bool.false_eq_true, if_false] at hsem ⊢
    obtain ⟨hn, rfl, hsem⟩ := hsem
    have hgx := descr_rdS F s σ.1 x _ hd hrx
    have hin : gammaN (get F s x).inner hn := ((gamma_iface_some _ _ _).1 hgx).2
    have hd1 : descr F (setOuter F s x .never) σ.1 :=
      descr_refine_never F s σ.1 x hd (operand_nonnil' F σ.1 x _ hrx rfl)
    have hinner1 : (get F (setOuter F s x .never) x).inner = (get F s x).inner := by
      rw [get_setOuter]; split <;> rfl
    cases toIface with
    | true =>
      simp only [if_true] at hsem ⊢
      obtain ⟨hok, rfl⟩ := hsem
      have hpv : (F.info v).ptr = true := by simpa [okS, flagsOf] using hok.1
      have hxs2 : get F (setOuter F (setOuter F s x .never) v .never) x = get F (setOuter F s x .never) x := by
        rw [get_setOuter]; simp [hxv]
      have hiz : (get F s x).inner ≠ .zero := by
        intro h0; rw [h0] at hin; exact hin
      refine descr_def_general F _ _ σ.1 v _ hd1 ?_ ?_
      · intro w hw
        rw [getRaw_setInner]; simp only [hw, false_and, if_false]
        rw [getRaw_setOuter]; simp only [hw, false_and, if_false]
      · rw [getRaw_setInner, hxs2, hinner1]
        simp only [hpv, hiz, ne_eq, not_false_eq_true, and_self, if_true]
        rw [get_setOuter]
        simp only [hpv, ne_eq, reduceCtorEq, not_false_eq_true, and_self, if_true]
        exact (gamma_iface_some _ _ _).2 ⟨rfl, hin⟩
    | false =>
      simp only [Bool.false_eq_true, if_false] at hsem ⊢
      obtain ⟨sv, hok, hni, hout, rfl⟩ := hsem
      rw [hinner1]
      refine descr_setOuter_def F _ σ.1 v _ sv hd1 hni ?_ hok
      intro hpv; rw [hout hpv]; exact hin

theorem sound_typeswitch (v tag : Nat) (conds : List Bool) (onTrue : Bool) (k : Option Nat) (s : State) (σ σ' : MState)
    (hd : descr F s σ.1) (hs : stepI F cr k (.typeswitch v tag conds) σ σ') :
    descr F (transferInstr F summ onTrue s (.typeswitch v tag conds)) σ'.1 := by
  obtain ⟨h, sel, _, _, rfl⟩ := hs
  simp only [transferInstr]
  exact descr_setv_tuple F s σ.1 v _ hd (by intro x; simp)

theorem sound_handleRet (v : Nat) (rf : List (Bool × Bool)) (callee : Callee) (arg0 idx : Nat)
    (s : State) (env : Env) (rs : List SVal) (x : SVal)
    (hcr : CrOK summ cr)
    (hwfb : callee = .builtin .other → rf.all (fun r => r.1 == false) = true)
    (hfl : rf[idx]? = some (flagsOf F v))
    (hd : descr F s env) (hr : retSem cr rf callee (rd F env arg0) rs) (hx : rs[idx]? = some x) :
    descr F (handleRet F summ s v rf callee arg0 idx) (setv env v (some (.sc x))) := by
  obtain ⟨hlen, htyped, hcal⟩ := hr
  have hok : okS (flagsOf F v) x := htyped idx _ x hfl hx
  unfold handleRet
  simp only [hfl, flagsOf]
  by_cases hpv : (F.info v).ptr = true
  · simp only [hpv, Bool.true_eq_false, if_false]
    cases callee with
    | unknown => exact descr_set_def F s env v VN.top _ hd (fun _ => gamma_top x) (gammaC_np_of_okS F v x hok)
    | static g =>
      have hdes : Describes (summ g) rs := hcr g rs hcal
      simp only
      split
      · next r hr =>
        exact descr_set_def F s env v _ _ hd (fun _ => gamma_normalize r _ x (hdes idx r x hr hx))
          (gammaC_np_of_okS F v x hok)
      · exact descr_set_def F s env v VN.top _ hd (fun _ => gamma_top x) (gammaC_np_of_okS F v x hok)
    | builtin b =>
      cases b with
      | append =>
        obtain ⟨n, n', ha, hrs, himp⟩ := hcal
        subst hrs
        have hx' : x = .ptr n' := by
          cases idx with
          | zero => simpa using hx.symm
          | succ m => simp at hx
        subst hx'
        have hg : gammaN (get F s arg0).outer n := (descr_rd F s env arg0 _ hd ha).1
        simp only
        split
        · exact descr_setOuter_def F s env v _ _ hd (by intro g; simp) (fun _ => trivial) hok
        · exact descr_setOuter_def F s env v _ _ hd (by intro g; simp) (fun _ => trivial) hok
        · next hn =>
          rw [hn] at hg
          exact descr_setOuter_def F s env v _ _ hd (by intro g; simp) (fun _ => himp hg) hok
        · exact descr_setOuter_def F s env v _ _ hd (by intro g; simp) (fun _ => trivial) hok
        · next hz => rw [hz] at hg; exact absurd hg (by simp [gammaN])
      | unsafeSlice =>
        obtain ⟨n, ha, hrs⟩ := hcal
        subst hrs
        have hx' : x = .ptr n := by
          cases idx with
          | zero => simpa using hx.symm
          | succ m => simp at hx
        subst hx'
        exact descr_set_def F s env v _ _ hd (fun _ => descr_rd F s env arg0 _ hd ha) (gammaC_np_of_okS F v _ hok)
      | unsafeSliceData =>
        obtain ⟨n, ha, hrs⟩ := hcal
        subst hrs
        have hx' : x = .ptr n := by
          cases idx with
          | zero => simpa using hx.symm
          | succ m => simp at hx
        subst hx'
        exact descr_set_def F s env v _ _ hd (fun _ => descr_rd F s env arg0 _ hd ha) (gammaC_np_of_okS F v _ hok)
      | unsafeStringData =>
        obtain ⟨n, hrs⟩ := hcal
        subst hrs
        have hx' : x = .ptr n := by
          cases idx with
          | zero => simpa using hx.symm
          | succ m => simp at hx
        subst hx'
        exact descr_setOuter_def F s env v _ _ hd (by intro g; simp) (fun _ => trivial) hok
      | unsafeAdd =>
        obtain ⟨n, hrs⟩ := hcal
        subst hrs
        have hx' : x = .ptr n := by
          cases idx with
          | zero => simpa using hx.symm
          | succ m => simp at hx
        subst hx'
        exact descr_setOuter_def F s env v _ _ hd (by intro g; simp) (fun _ => trivial) hok
      | recover => exact descr_set_def F s env v VN.top _ hd (fun _ => gamma_top x) (gammaC_np_of_okS F v x hok)
      | deferstack =>
        have hrs : rs = [.ptr false] := hcal
        subst hrs
        have hx' : x = .ptr false := by
          cases idx with
          | zero => simpa using hx.symm
          | succ m => simp at hx
        subst hx'
        exact descr_setOuter_def F s env v _ _ hd (by intro g; simp) (fun _ => rfl) hok
      | wrapnilchk =>
        obtain ⟨_, hrs⟩ := hcal
        subst hrs
        have hx' : x = .ptr false := by
          cases idx with
          | zero => simpa using hx.symm
          | succ m => simp at hx
        subst hx'
        exact descr_setOuter_def F s env v _ _ hd (by intro g; simp) (fun _ => rfl) hok
      | other =>
        have hall := hwfb rfl
        rw [List.all_eq_true] at hall
        have hmem : flagsOf F v ∈ rf := List.mem_of_getElem? hfl
        have := hall _ hmem
        simp [flagsOf, hpv] at this
  · have hpv' : (F.info v).ptr = false := by simpa using hpv
    simp only [hpv', if_true]
    rw [setOuter_nonptr F s v _ hpv']
    exact descr_setv_nonptr F s env v _ hd hpv' (gammaC_np_of_okS F v x hok hpv')

theorem sound_call (mode : CallMode) (v : Nat) (invoke : Bool) (fnval : Nat) (rf : List (Bool × Bool))
    (callee : Callee) (arg0 : Nat) (onTrue : Bool) (k : Option Nat) (s : State) (σ σ' : MState)
    (hcr : CrOK summ cr)
    (hwfb : callee = .builtin .other → rf.all (fun r => r.1 == false) = true)
    (hfl : rf.length = 1 → rf[0]? = some (flagsOf F v))
    (hd : descr F s σ.1) (hs : stepI F cr k (.call mode v invoke fnval rf callee arg0) σ σ') :
    descrP F (transferInstr F summ onTrue s (.call mode v invoke fnval rf callee arg0)) σ' := by
  obtain ⟨p', hinv, hninv, hmode⟩ := hs
  -- the state after `setOuter(v.Common().Value, NeverNil)`
  have h1 : p' = true ∨ descr F (if invoke = false then setOuter F s fnval .never else s) σ.1 := by
    cases invoke with
    | true => right; simpa using hd
    | false =>
      simp only [if_true]
      have := hninv rfl
      cases mode with
      | defer =>
        obtain ⟨n, hr, hp⟩ := this
        cases n with
        | true => left; simp [hp]
        | false => right; exact descr_refine_never F s σ.1 fnval hd (operand_nonnil' F σ.1 fnval _ hr rfl)
      | call => right; exact descr_refine_never F s σ.1 fnval hd (operand_nonnil' F σ.1 fnval _ this.1 rfl)
      | go => right; exact descr_refine_never F s σ.1 fnval hd (operand_nonnil' F σ.1 fnval _ this.1 rfl)
  simp only [transferInstr]
  cases mode with
  | defer =>
    simp only at hmode
    rw [hmode]
    rcases h1 with h1 | h1
    · left; exact h1
    · right; exact h1
  | go =>
    simp only at hmode
    rw [hmode]
    rcases h1 with h1 | h1
    · left; exact h1
    · right; exact h1
  | call =>
    simp only at hmode
    by_cases hlen : rf.length = 1
    · simp only [hlen, if_true] at hmode ⊢
      obtain ⟨rs, x, hr, hx, rfl⟩ := hmode
      rcases h1 with h1 | h1
      · left; exact h1
      · right
        exact sound_handleRet F summ cr v rf callee arg0 0 _ σ.1 rs x hcr hwfb (hfl hlen) h1 hr hx
    · simp only [hlen, if_false] at hmode ⊢
      rw [hmode]
      rcases h1 with h1 | h1
      · left; exact h1
      · right; exact descr_setv_tuple F _ σ.1 v _ h1 (by intro x; simp)

theorem calleeOk_other (rf : List (Bool × Bool)) (callee : Callee) (h : calleeOk rf callee = true)
    (hc : callee = .builtin .other) : rf.all (fun r => r.1 == false) = true := by
  subst hc
  simpa [calleeOk] using h

theorem sound_extract (v tuple idx : Nat) (onTrue : Bool) (k : Option Nat) (s : State) (σ σ' : MState)
    (hcr : CrOK summ cr)
    (hwf : instrOk F (.extract v tuple idx) = true)
    (hd : descr F s σ.1) (hs : stepI F cr k (.extract v tuple idx) σ σ') :
    descr F (transferInstr F summ onTrue s (.extract v tuple idx)) σ'.1 := by
  simp only [stepI] at hs
  simp only [transferInstr]
  have hdflt : (∃ c, okC (flagsOf F v) c ∧ σ' = (setv σ.1 v (some c), σ.2)) →
      descr F (set F s v VN.top) σ'.1 := by
    rintro ⟨c, hok, rfl⟩
    refine descr_set_def F s σ.1 v VN.top c hd ?_ (fun hp => gammaC_nonptr _ c (by simpa [flagsOf] using hp) hok)
    intro _
    cases c with
    | sc sv => exact gamma_top sv
    | _ => trivial
  cases hdef : F.defOf tuple with
  | none => simp only [hdef] at hs ⊢; exact hdflt hs
  | some i =>
    cases i with
    | call m w inv f rf callee a =>
      simp only [hdef] at hs ⊢
      obtain ⟨rs, x, hr, hx, rfl⟩ := hs
      simp only [instrOk, Instr.defines, Instr.uses, hdef, Bool.and_eq_true, beq_iff_eq] at hwf
      obtain ⟨_, hcal, hfl⟩ := hwf
      exact sound_handleRet F summ cr v rf callee a idx s σ.1 rs x hcr (calleeOk_other rf callee hcal) hfl hd hr hx
    | typeassert w x co ti =>
      simp only [hdef] at hs ⊢
      by_cases h0 : idx = 0
      · simp only [h0, if_true]; exact hdflt hs
      · simp only [h0, if_false]
        obtain ⟨c, hok, rfl⟩ := hs
        have hpv : (F.info v).ptr = false := by
          simp only [instrOk, Instr.defines, Instr.uses, hdef, Bool.and_eq_true, Bool.or_eq_true, beq_iff_eq,
            Bool.not_eq_eq_eq_not, Bool.not_true] at hwf
          rcases hwf.2 with h | h
          · exact absurd h h0
          · exact h
        exact descr_setv_nonptr F s σ.1 v c hd hpv (gammaC_nonptr _ c (by simpa [flagsOf] using hpv) hok)
    | typeswitch w tag conds =>
      simp only [hdef] at hs ⊢
      obtain ⟨sel, h, _, hsel, hrtag, hs⟩ := hs
      have htv : tag ≠ v := by
        simp only [instrOk, Instr.defines, Instr.uses, hdef, Bool.and_eq_true, bne_iff_ne, ne_eq] at hwf
        exact hwf.2
      by_cases h0 : idx = 0
      · simp only [h0, if_true] at hs ⊢
        obtain ⟨hok, rfl⟩ := hs
        have hpv : (F.info v).ptr = false := by simpa [okS, flagsOf] using hok
        exact descr_setv_nonptr F s σ.1 v _ hd hpv gamma_nonptr_np
      · simp only [h0, if_false] at hs ⊢
        obtain ⟨hseleq, hs⟩ := hs
        have hgt := descr_rdS F s σ.1 tag _ hd hrtag
        cases hc : conds[idx - 1]? with
        | none =>
          simp only [hc] at hs ⊢
          obtain ⟨hok, rfl⟩ := hs
          have hpv : (F.info v).ptr = true := by
            cases h <;> simpa [okS, flagsOf] using hok.1
          -- the refinement of the tag
          have hd1 : descr F (if conds.any id = true then setOuter F s tag .never else setOuter F s tag .maybe) σ.1 := by
            split
            · next hany =>
              have hne : h ≠ none := by
                intro hh
                rcases hsel.2.1 hh with h1 | h1
                · rw [hseleq, hc] at h1; cases h1
                · rw [h1.2] at hany; cases hany
              refine descr_refine_never F s σ.1 tag hd (operand_nonnil' F σ.1 tag _ hrtag ?_)
              cases h with
              | none => exact absurd rfl hne
              | some b => rfl
            · exact descr_refine_outer F s σ.1 tag .maybe hd
                (fun c hcc => ⟨_, rdS_env F σ.1 tag _ c hrtag hcc, trivial⟩)
          exact descr_set_def F _ σ.1 v _ _ hd1 (fun _ => descr_rdS F _ σ.1 tag _ hd1 hrtag)
            (fun hp => by rw [hp] at hpv; cases hpv)
        | some b =>
          cases b with
          | true =>
            simp only [hc] at hs ⊢
            obtain ⟨rfl, hok, rfl⟩ := hs
            exact descr_set_def F s σ.1 v _ _ hd (fun _ => ⟨rfl, trivial⟩)
              (fun hp => by simp [okS, flagsOf, hp] at hok)
          | false =>
            simp only [hc] at hs ⊢
            obtain ⟨hn, rfl, hs⟩ := hs
            have hin : gammaN (get F s tag).inner hn := ((gamma_iface_some _ _ _).1 hgt).2
            have hd1 : descr F (setOuter F s tag .never) σ.1 :=
              descr_refine_never F s σ.1 tag hd (operand_nonnil' F σ.1 tag _ hrtag rfl)
            have hinner1 : (get F (setOuter F s tag .never) tag).inner = (get F s tag).inner := by
              rw [get_setOuter]; split <;> rfl
            rw [hinner1]
            by_cases hif : (F.info v).iface = true
            · simp only [hif, if_true] at hs ⊢
              obtain ⟨hok, rfl⟩ := hs
              have hpv : (F.info v).ptr = true := by simpa [okS, flagsOf] using hok.1
              have hiz : (get F s tag).inner ≠ .zero := by
                intro hz; rw [hz] at hin; exact hin
              refine descr_def_general F _ _ σ.1 v _ hd1 ?_ ?_
              · intro w' hw'
                rw [getRaw_setOuter]; simp only [hw', false_and, if_false]
                rw [getRaw_setInner]; simp only [hw', false_and, if_false]
              · rw [getRaw_setOuter]
                simp only [hpv, ne_eq, reduceCtorEq, not_false_eq_true, and_self, if_true]
                rw [get_setInner]
                simp only [hpv, hiz, ne_eq, not_false_eq_true, and_self, if_true]
                exact (gamma_iface_some _ _ _).2 ⟨rfl, hin⟩
            · have hif' : (F.info v).iface = false := by simpa using hif
              simp only [hif', Bool.false_eq_true, if_false] at hs ⊢
              obtain ⟨sv, hok, hout, rfl⟩ := hs
              have hni : ∀ g, sv ≠ .iface g := by
                intro g hg; subst hg; simp [okS, flagsOf, hif'] at hok
              refine descr_setOuter_def F _ σ.1 v _ sv hd1 hni ?_ hok
              intro hpv; rw [hout hpv]; exact hin
    | _ => simp only [hdef] at hs ⊢; exact hdflt hs

/-- a pending deferred nil call stays pending. -/
theorem stepI_poison (i : Instr) (k : Option Nat) (σ σ' : MState) (hs : stepI F cr k i σ σ')
    (hp : σ.2 = true) : σ'.2 = true := by
  cases i with
  | convert v x fi => obtain ⟨sv, _, _, rfl⟩ := hs; exact hp
  | copy v x => obtain ⟨sx, _, _, rfl⟩ := hs; exact hp
  | s2ap v x nz => obtain ⟨n, _, _, _, rfl⟩ := hs; exact hp
  | s2a v x nz => obtain ⟨n, _, _, _, rfl⟩ := hs; exact hp
  | slice v x a b => obtain ⟨sv, _, _, rfl⟩ := hs; exact hp
  | iff c => obtain ⟨h, _, _⟩ := hs; rw [h]; exact hp
  | binop v op x y => obtain ⟨_, rfl⟩ := hs; exact hp
  | load v x => obtain ⟨_, sv, _, rfl⟩ := hs; exact hp
  | addr v x => obtain ⟨_, _, rfl⟩ := hs; exact hp
  | alloc v => obtain ⟨_, rfl⟩ := hs; exact hp
  | useNN x => obtain ⟨_, h⟩ := hs; rw [h]; exact hp
  | recv v ch => obtain ⟨_, c, _, rfl⟩ := hs; exact hp
  | makeiface v x => obtain ⟨sx, _, _, _, rfl⟩ := hs; exact hp
  | typeswitch v tag conds => obtain ⟨h, sel, _, _, rfl⟩ := hs; exact hp
  | maplookup v x => obtain ⟨n, c, _, _, _, rfl⟩ := hs; exact hp
  | fieldidx v x => obtain ⟨c, _, rfl⟩ := hs; exact hp
  | phi v es => have : σ' = σ := hs; rw [this]; exact hp
  | ret rs => have : σ' = σ := hs; rw [this]; exact hp
  | nop => have : σ' = σ := hs; rw [this]; exact hp
  | typeassert v x co ti =>
    obtain ⟨h, _, hsem⟩ := hs
    cases co with
    | true => simp only [if_true] at hsem; rw [hsem]; exact hp
    | false =>
      simp only [Bool.false_eq_true, if_false] at hsem
      obtain ⟨hn, _, hsem⟩ := hsem
      cases ti with
      | true => simp only [if_true] at hsem; rw [hsem.2]; exact hp
      | false =>
        simp only [Bool.false_eq_true, if_false] at hsem
        obtain ⟨sv, _, _, _, rfl⟩ := hsem; exact hp
  | call mode v invoke fnval rf callee arg0 =>
    obtain ⟨p', hinv, hninv, hmode⟩ := hs
    have hp' : p' = true := by
      cases invoke with
      | true => rw [hinv rfl]; exact hp
      | false =>
        have := hninv rfl
        cases mode with
        | defer => obtain ⟨n, _, h⟩ := this; rw [h, hp]; rfl
        | call => rw [this.2]; exact hp
        | go => rw [this.2]; exact hp
    cases mode with
    | defer => simp only at hmode; rw [hmode]; exact hp'
    | go => simp only at hmode; rw [hmode]; exact hp'
    | call =>
      simp only at hmode
      by_cases hlen : rf.length = 1
      · simp only [hlen, if_true] at hmode
        obtain ⟨rs, x, _, _, rfl⟩ := hmode; exact hp'
      · simp only [hlen, if_false] at hmode
        rw [hmode]; exact hp'
  | extract v tuple idx =>
    simp only [stepI] at hs
    cases hdef : F.defOf tuple with
    | none => simp only [hdef] at hs; obtain ⟨c, _, rfl⟩ := hs; exact hp
    | some i =>
      cases i with
      | call m w inv f rf callee a =>
        simp only [hdef] at hs
        obtain ⟨rs, x, _, _, rfl⟩ := hs; exact hp
      | typeswitch w tag conds =>
        simp only [hdef] at hs
        obtain ⟨sel, h, _, _, _, hs⟩ := hs
        by_cases h0 : idx = 0
        · simp only [h0, if_true] at hs; rw [hs.2]; exact hp
        · simp only [h0, if_false] at hs
          obtain ⟨_, hs⟩ := hs
          cases hc : conds[idx - 1]? with
          | none => simp only [hc] at hs; rw [hs.2]; exact hp
          | some b =>
            cases b with
            | true => simp only [hc] at hs; rw [hs.2.2]; exact hp
            | false =>
              simp only [hc] at hs
              obtain ⟨hn, _, hs⟩ := hs
              by_cases hif : (F.info v).iface = true
              · simp only [hif, if_true] at hs; rw [hs.2]; exact hp
              · simp only [hif, if_false] at hs
                obtain ⟨sv, _, _, rfl⟩ := hs; exact hp
      | _ => simp only [hdef] at hs; obtain ⟨c, _, rfl⟩ := hs; exact hp

/-- **transfer_sound**: for every instruction kind, if the abstract state describes the
registers (or a deferred nil call is pending), then after any execution of the instruction
the transferred state describes the registers. -/
theorem transfer_sound (i : Instr) (onTrue : Bool) (k : Option Nat) (s : State) (σ σ' : MState)
    (hcr : CrOK summ cr) (hwf : instrOk F i = true)
    (hk : ∀ c, i = .iff c → (onTrue = true ↔ k = some 0))
    (hd : descrP F s σ) (hs : stepI F cr k i σ σ') :
    descrP F (transferInstr F summ onTrue s i) σ' := by
  rcases hd with hp | hd
  · left; exact stepI_poison F cr i k σ σ' hs hp
  · cases i with
    | convert v x fi =>
      right
      have hni : (F.info v).iface = false := by
        simp only [instrOk, Bool.and_eq_true, Bool.not_eq_eq_eq_not, Bool.not_true] at hwf; exact hwf.2
      exact sound_convert F summ cr v x fi onTrue k s σ σ' hni hd hs
    | copy v x => right; exact sound_copy F summ cr v x onTrue k s σ σ' hd hs
    | s2ap v x nz =>
      right
      have hxv : x ≠ v := by
        simp only [instrOk, Instr.defines, Instr.uses, List.all_cons, List.all_nil, Bool.and_true, bne_iff_ne, ne_eq] at hwf
        exact hwf
      exact sound_s2ap F summ cr v x nz onTrue k s σ σ' hxv hd hs
    | s2a v x nz =>
      right
      have hxv : x ≠ v := by
        simp only [instrOk, Instr.defines, Instr.uses, List.all_cons, List.all_nil, Bool.and_true, bne_iff_ne, ne_eq] at hwf
        exact hwf
      exact sound_s2a F summ cr v x nz onTrue k s σ σ' hxv hd hs
    | slice v x a b =>
      right
      simp only [instrOk, Instr.defines, Instr.uses, List.all_cons, List.all_nil, Bool.and_true, bne_iff_ne, ne_eq,
        Bool.and_eq_true, Bool.not_eq_eq_eq_not, Bool.not_true, Bool.or_eq_true] at hwf
      obtain ⟨hxv, hni, hpx⟩ := hwf
      refine sound_slice F summ cr v x a b onTrue k s σ σ' hxv hni ?_ hd hs
      intro hpv
      rcases hpx with h | h
      · rw [hpv] at h; cases h
      · exact h
    | iff c => right; exact sound_iff F summ cr c onTrue k s σ σ' (hk c rfl) hd hs
    | binop v op x y => right; exact sound_binop F summ cr v op x y onTrue k s σ σ' hd hs
    | load v x =>
      right
      have hxv : x ≠ v := by
        simp only [instrOk, Instr.defines, Instr.uses, List.all_cons, List.all_nil, Bool.and_true, bne_iff_ne, ne_eq] at hwf
        exact hwf
      exact sound_load F summ cr v x onTrue k s σ σ' hxv hd hs
    | addr v x => right; exact sound_addr F summ cr v x onTrue k s σ σ' hd hs
    | alloc v => right; exact sound_alloc F summ cr v onTrue k s σ σ' hd hs
    | useNN x => right; exact sound_useNN F summ cr x onTrue k s σ σ' hd hs
    | call mode v invoke fnval rf callee arg0 =>
      simp only [instrOk, Bool.and_eq_true, Bool.or_eq_true, bne_iff_ne, ne_eq, beq_iff_eq] at hwf
      obtain ⟨_, hcal, hfl⟩ := hwf
      refine sound_call F summ cr mode v invoke fnval rf callee arg0 onTrue k s σ σ' hcr
        (calleeOk_other rf callee hcal) ?_ hd hs
      intro hlen
      rcases hfl with h | h
      · exact absurd hlen h
      · exact h
    | recv v ch => right; exact sound_recv F summ cr v ch onTrue k s σ σ' hd hs
    | makeiface v x => right; exact sound_makeiface F summ cr v x onTrue k s σ σ' hd hs
    | typeassert v x co ti =>
      right
      have hxv : x ≠ v := by
        simp only [instrOk, Instr.defines, Instr.uses, List.all_cons, List.all_nil, Bool.and_true, bne_iff_ne, ne_eq] at hwf
        exact hwf
      exact sound_typeassert F summ cr v x co ti onTrue k s σ σ' hxv hd hs
    | typeswitch v tag conds => right; exact sound_typeswitch F summ cr v tag conds onTrue k s σ σ' hd hs
    | maplookup v x => right; exact sound_maplookup F summ cr v x onTrue k s σ σ' hd hs
    | fieldidx v x =>
      right
      have hpx : (F.info x).ptr = false := by
        simp only [instrOk, Bool.and_eq_true, Bool.not_eq_eq_eq_not, Bool.not_true] at hwf; exact hwf.2
      exact sound_fieldidx F summ cr v x onTrue k s σ σ' hpx hd hs
    | extract v t idx => right; exact sound_extract F summ cr v t idx onTrue k s σ σ' hcr hwf hd hs
    | phi v es => right; have : σ' = σ := hs; rw [this]; exact hd
    | ret rs => right; have : σ' = σ := hs; rw [this]; exact hd
    | nop => right; have : σ' = σ := hs; rw [this]; exact hd

end instr

end Verif.C15
