import Verif.C15.Lemmas
/-!
C15 — soundness of the nilness analysis (model of nilness.go after the `fix:` commits) with
respect to the concrete semantics of `Sem.lean`.

Main statements (all for arbitrary functions/programs, unbounded):

* `merge_sound`, `le_sound`, `normalize_sound`  — the lattice operations only lose information.
* `transfer_sound`   — per instruction kind: if the abstract state describes the registers
  before the instruction, the transferred state describes them after every possible
  execution of it (a panicking execution has no successor).
* `phis_sound`, `edge_sound` — the same for the parallel phis and for a whole CFG edge
  (`edgeTransfer` = what nilness.go hands to `dense.Forward`).
* `path_sound`       — for ANY post-fixpoint `sol` of the flow equations (`checkPost`), every
  machine state in which an execution reaches a block is described by `sol` at that block.
* `result_sound`     — interprocedural: if every function's summary is either the bail-out
  default or `retNilness` of a post-fixpoint computed with these summaries, then every value
  tuple a function returns in a terminating execution is described by its summary;
  `result_sound_never` / `result_sound_always` spell that out for NeverNil / AlwaysNil,
  outer and inner.
* `sa4023_sound`     — a comparison `f() == nil` that SA4023 reports is false in every execution.
-/
namespace Verif.C15

/-- calls of static callees return what their summaries describe. -/
def CrOK (summ : Summ) (cr : Nat → List SVal → Prop) : Prop :=
  ∀ g rs, cr g rs → Describes (summ g) rs

theorem merge_sound (a b : VN) (x : SVal) (h : gamma a x ∨ gamma b x) : gamma (merge a b) x := by
  rcases h with h | h
  · exact gamma_merge_left a b x h
  · exact gamma_merge_right a b x h

example : gamma (merge ⟨.never, .never⟩ ⟨.always, .always⟩) (.iface none) :=
  merge_sound _ _ _ (Or.inr ⟨rfl, trivial⟩)

theorem le_sound (a b : VN) (x : SVal) (hle : leVN a b = true) (h : gamma a x) : gamma b x :=
  gamma_leVN a b x hle h

example : gamma ⟨.maybe, .mglobal⟩ (.iface (some true)) :=
  le_sound ⟨.always, .never⟩ _ _ (by decide) ⟨rfl, rfl⟩

theorem normalize_sound (v : VN) (isIf : Bool) (x : SVal) (h : gamma v x) : gamma (normalize v isIf) x :=
  gamma_normalize v isIf x h

example : gamma (normalize ⟨.zero, .never⟩ false) (.ptr false) :=
  normalize_sound _ _ _ ⟨rfl, trivial⟩

/-! ## one instruction -/

section instr
variable (F : Func) (summ : Summ) (cr : Nat → List SVal → Prop)

theorem sound_convert (v x : Nat) (fromInt onTrue : Bool) (k : Option Nat) (s : State) (σ σ' : MState)
    (hni : (F.info v).iface = false)
    (hd : descr F s σ.1) (hs : stepI F cr k (.convert v x fromInt) σ σ') :
    descr F (transferInstr F summ onTrue s (.convert v x fromInt)) σ'.1 := by
  obtain ⟨sv, hok, hsem, rfl⟩ := hs
  have hnp : (F.info v).ptr = false → gammaC ⟨.zero, .never⟩ (.sc sv) := by
    intro hp
    have := okS_nonptr _ sv (by simpa [flagsOf] using hp) hok
    subst this; exact gamma_nonptr_np
  simp only [transferInstr]
  cases fromInt with
  | true =>
    simp only [if_true]
    exact descr_set_def F s σ.1 v VN.top (.sc sv) hd (fun _ => gamma_top sv) hnp
  | false =>
    simp only [Bool.false_eq_true, if_false]
    refine descr_set_def F s σ.1 v (get F s x) (.sc sv) hd ?_ hnp
    intro hpv
    obtain ⟨h1, h2⟩ := hsem rfl hpv
    have hptr : ∃ n, sv = .ptr n := by
      cases sv with
      | np => simp [okS, flagsOf, hpv] at hok
      | ptr n => exact ⟨n, rfl⟩
      | iface g => simp [okS, flagsOf, hni] at hok
    obtain ⟨n, rfl⟩ := hptr
    show gamma (get F s x) (.ptr n)
    by_cases hpx : (F.info x).ptr = true
    · obtain ⟨sx, hrx, hn⟩ := h1 hpx
      have hg := (descr_rdS F s σ.1 x sx hd hrx).1
      rw [← hn] at hg
      exact (gamma_ptr _ _ _).2 hg
    · have hpx' : (F.info x).ptr = false := by simpa using hpx
      have hn := h2 hpx'
      rw [get_nonptr F s x hpx']
      simp only [outerNil] at hn
      subst hn; exact ⟨rfl, trivial⟩

theorem sound_copy (v x : Nat) (onTrue : Bool) (k : Option Nat) (s : State) (σ σ' : MState)
    (hd : descr F s σ.1) (hs : stepI F cr k (.copy v x) σ σ') :
    descr F (transferInstr F summ onTrue s (.copy v x)) σ'.1 := by
  obtain ⟨sx, hrx, hok, rfl⟩ := hs
  simp only [transferInstr]
  exact descr_set_def F s σ.1 v (get F s x) (.sc sx) hd (fun _ => descr_rdS F s σ.1 x sx hd hrx)
    (gammaC_np_of_okS F v sx hok)

theorem sound_s2ap (v x : Nat) (nz onTrue : Bool) (k : Option Nat) (s : State) (σ σ' : MState)
    (hxv : x ≠ v)
    (hd : descr F s σ.1) (hs : stepI F cr k (.s2ap v x nz) σ σ') :
    descr F (transferInstr F summ onTrue s (.s2ap v x nz)) σ'.1 := by
  obtain ⟨n, hrx, hnz, hok, rfl⟩ := hs
  simp only [transferInstr]
  cases nz with
  | true =>
    have hn : n = false := hnz rfl
    subst hn
    simp only [if_true]
    refine descr_refine_never F _ _ x ?_ (operand_nonnil F σ.1 v x _ _ hrx rfl hxv)
    exact descr_setOuter_def F s σ.1 v .never (.ptr false) hd (by intro g; simp) (fun _ => rfl) hok
  | false =>
    simp only [Bool.false_eq_true, if_false]
    exact descr_set_def F s σ.1 v (get F s x) (.sc (.ptr n)) hd (fun _ => descr_rdS F s σ.1 x _ hd hrx)
      (gammaC_np_of_okS F v _ hok)

theorem sound_s2a (v x : Nat) (nz onTrue : Bool) (k : Option Nat) (s : State) (σ σ' : MState)
    (hxv : x ≠ v)
    (hd : descr F s σ.1) (hs : stepI F cr k (.s2a v x nz) σ σ') :
    descr F (transferInstr F summ onTrue s (.s2a v x nz)) σ'.1 := by
  obtain ⟨n, hrx, hnz, hok, rfl⟩ := hs
  have hpv : (F.info v).ptr = false := by simpa [okS, flagsOf] using hok
  have h1 : descr F s (setv σ.1 v (some (.sc .np))) := descr_setv_nonptr F s σ.1 v _ hd hpv gamma_nonptr_np
  simp only [transferInstr]
  cases nz with
  | true =>
    have hn : n = false := hnz rfl
    subst hn
    simp only [if_true]
    exact descr_refine_never F _ _ x h1 (operand_nonnil F σ.1 v x _ _ hrx rfl hxv)
  | false =>
    simpa using h1

theorem sound_slice (v x : Nat) (isArr nzb onTrue : Bool) (k : Option Nat) (s : State) (σ σ' : MState)
    (hxv : x ≠ v) (hni : (F.info v).iface = false) (hpx : (F.info v).ptr = false → (F.info x).ptr = false)
    (hd : descr F s σ.1) (hs : stepI F cr k (.slice v x isArr nzb) σ σ') :
    descr F (transferInstr F summ onTrue s (.slice v x isArr nzb)) σ'.1 := by
  obtain ⟨sv, hok, hsem, rfl⟩ := hs
  simp only [transferInstr]
  by_cases hpv : (F.info v).ptr = true
  · obtain ⟨h1, h2⟩ := hsem hpv
    obtain ⟨m, rfl⟩ := okS_ptr _ sv (by simpa [flagsOf] using hpv) (by simpa [flagsOf] using hni) hok
    cases isArr with
    | true =>
      simp only [if_true]
      exact descr_setOuter_def F s σ.1 v .never (.ptr m) hd (by intro g; simp) (fun _ => by have := h1 rfl; simpa [outerNil, gammaN] using this) hok
    | false =>
      obtain ⟨n, hrx, hnz, hm⟩ := h2 rfl
      simp only [outerNil] at hm
      subst hm
      simp only [Bool.false_eq_true, if_false]
      cases nzb with
      | true =>
        have hn : m = false := hnz rfl
        subst hn
        simp only [if_true]
        refine descr_refine_never F _ _ x ?_ (operand_nonnil F σ.1 v x _ _ hrx rfl hxv)
        exact descr_setOuter_def F s σ.1 v .never (.ptr false) hd (by intro g; simp) (fun _ => rfl) hok
      | false =>
        simp only [Bool.false_eq_true, if_false]
        exact descr_set_def F s σ.1 v (get F s x) (.sc (.ptr m)) hd (fun _ => descr_rdS F s σ.1 x _ hd hrx)
          (gammaC_np_of_okS F v _ hok)
  · have hpv' : (F.info v).ptr = false := by simpa using hpv
    have hpx' := hpx hpv'
    have h1 : descr F s (setv σ.1 v (some (.sc sv))) :=
      descr_setv_nonptr F s σ.1 v _ hd hpv' (gammaC_np_of_okS F v sv hok hpv')
    cases isArr <;> cases nzb <;>
      simp [setOuter_nonptr F _ v _ hpv', setOuter_nonptr F _ x _ hpx', set_nonptr F _ v _ hpv'] <;> exact h1

theorem sound_binop (v : Nat) (op : BinK) (x y : Nat) (onTrue : Bool) (k : Option Nat) (s : State) (σ σ' : MState)
    (hd : descr F s σ.1) (hs : stepI F cr k (.binop v op x y) σ σ') :
    descr F (transferInstr F summ onTrue s (.binop v op x y)) σ'.1 := by
  obtain ⟨hok, rfl⟩ := hs
  have hpv : (F.info v).ptr = false := by simpa [okS, flagsOf] using hok
  simpa [transferInstr] using descr_setv_nonptr F s σ.1 v (.sc .np) hd hpv gamma_nonptr_np

theorem sound_load (v x : Nat) (onTrue : Bool) (k : Option Nat) (s : State) (σ σ' : MState)
    (hxv : x ≠ v)
    (hd : descr F s σ.1) (hs : stepI F cr k (.load v x) σ σ') :
    descr F (transferInstr F summ onTrue s (.load v x)) σ'.1 := by
  obtain ⟨hx, sv, hok, rfl⟩ := hs
  simp only [transferInstr]
  refine descr_refine_never F _ _ x ?_ ?_
  · split
    · exact descr_set_def F s σ.1 v _ (.sc sv) hd
        (fun _ => by
          refine ⟨trivial, ?_⟩
          cases sv with
          | iface h => cases h <;> trivial
          | _ => trivial) (gammaC_np_of_okS F v sv hok)
    · exact descr_set_def F s σ.1 v _ (.sc sv) hd (fun _ => gamma_top sv) (gammaC_np_of_okS F v sv hok)
  · intro c hc
    simp only [setv, hxv, if_false] at hc
    exact ⟨.ptr false, hx c hc, rfl⟩

theorem sound_addr (v x : Nat) (onTrue : Bool) (k : Option Nat) (s : State) (σ σ' : MState)
    (hd : descr F s σ.1) (hs : stepI F cr k (.addr v x) σ σ') :
    descr F (transferInstr F summ onTrue s (.addr v x)) σ'.1 := by
  obtain ⟨hrx, hok, rfl⟩ := hs
  simp only [transferInstr]
  refine descr_setOuter_def F _ σ.1 v .never (.ptr false) ?_ (by intro g; simp) (fun _ => rfl) hok
  exact descr_refine_never F s σ.1 x hd (operand_nonnil' F σ.1 x _ hrx rfl)

theorem sound_alloc (v : Nat) (onTrue : Bool) (k : Option Nat) (s : State) (σ σ' : MState)
    (hd : descr F s σ.1) (hs : stepI F cr k (.alloc v) σ σ') :
    descr F (transferInstr F summ onTrue s (.alloc v)) σ'.1 := by
  obtain ⟨hok, rfl⟩ := hs
  simp only [transferInstr]
  exact descr_setOuter_def F s σ.1 v .never (.ptr false) hd (by intro g; simp) (fun _ => rfl) hok

theorem sound_useNN (x : Nat) (onTrue : Bool) (k : Option Nat) (s : State) (σ σ' : MState)
    (hd : descr F s σ.1) (hs : stepI F cr k (.useNN x) σ σ') :
    descr F (transferInstr F summ onTrue s (.useNN x)) σ'.1 := by
  obtain ⟨hrx, h⟩ := hs
  rw [h]
  simp only [transferInstr]
  exact descr_refine_never F s σ.1 x hd (operand_nonnil' F σ.1 x _ hrx rfl)

theorem sound_recv (v ch : Nat) (onTrue : Bool) (k : Option Nat) (s : State) (σ σ' : MState)
    (hd : descr F s σ.1) (hs : stepI F cr k (.recv v ch) σ σ') :
    descr F (transferInstr F summ onTrue s (.recv v ch)) σ'.1 := by
  obtain ⟨hrx, c, hok, rfl⟩ := hs
  simp only [transferInstr]
  refine descr_set_def F _ σ.1 v VN.top c ?_ ?_ ?_
  · exact descr_refine_never F s σ.1 ch hd (operand_nonnil' F σ.1 ch _ hrx rfl)
  · intro _
    cases c with
    | sc x => exact gamma_top x
    | _ => trivial
  · intro hp; exact gammaC_nonptr _ c (by simpa [flagsOf] using hp) hok

theorem sound_makeiface (v x : Nat) (onTrue : Bool) (k : Option Nat) (s : State) (σ σ' : MState)
    (hd : descr F s σ.1) (hs : stepI F cr k (.makeiface v x) σ σ') :
    descr F (transferInstr F summ onTrue s (.makeiface v x)) σ'.1 := by
  obtain ⟨sx, hrx, hni, hok, rfl⟩ := hs
  simp only [transferInstr]
  refine descr_set_def F s σ.1 v _ _ hd ?_ ?_
  · intro _
    have hg := (descr_rdS F s σ.1 x sx hd hrx).1
    exact (gamma_iface_some _ _ _).2 ⟨rfl, hg⟩
  · intro hp; simp [okS, flagsOf, hp] at hok

theorem sound_maplookup (v x : Nat) (onTrue : Bool) (k : Option Nat) (s : State) (σ σ' : MState)
    (hd : descr F s σ.1) (hs : stepI F cr k (.maplookup v x) σ σ') :
    descr F (transferInstr F summ onTrue s (.maplookup v x)) σ'.1 := by
  obtain ⟨n, c, hrx, hok, hz, rfl⟩ := hs
  have hnp : (F.info v).ptr = false → gammaC ⟨.zero, .never⟩ c :=
    fun hp => gammaC_nonptr _ c (by simpa [flagsOf] using hp) hok
  simp only [transferInstr]
  split
  · next ha =>
    -- the map is known to be nil: the lookup yields the zero value
    have hg := (descr_rdS F s σ.1 x _ hd hrx).1
    rw [ha] at hg
    have hn : n = true := hg
    refine descr_set_def F s σ.1 v _ c hd ?_ hnp
    intro hpv
    cases c with
    | sc sv =>
      have := hz hn sv rfl
      cases sv with
      | np => simp [okC, okS, flagsOf, hpv] at hok
      | ptr m => simp only [isZero] at this; subst this; exact ⟨rfl, trivial⟩
      | iface h => simp only [isZero] at this; subst this; exact ⟨rfl, trivial⟩
    | _ => trivial
  · refine descr_set_def F s σ.1 v VN.top c hd ?_ hnp
    intro _
    cases c with
    | sc sv => exact gamma_top sv
    | _ => trivial

theorem sound_fieldidx (v x : Nat) (onTrue : Bool) (k : Option Nat) (s : State) (σ σ' : MState)
    (hpx : (F.info x).ptr = false)
    (hd : descr F s σ.1) (hs : stepI F cr k (.fieldidx v x) σ σ') :
    descr F (transferInstr F summ onTrue s (.fieldidx v x)) σ'.1 := by
  obtain ⟨c, hok, rfl⟩ := hs
  simp only [transferInstr, set_nonptr F s x _ hpx]
  refine descr_set_def F s σ.1 v VN.top c hd ?_ (fun hp => gammaC_nonptr _ c (by simpa [flagsOf] using hp) hok)
  intro _
  cases c with
  | sc sv => exact gamma_top sv
  | _ => trivial

theorem gamma_always_of_nil (st : SVal) (h : outerNil st = true) : gamma ⟨.always, .always⟩ st := by
  cases st with
  | np => simp [outerNil] at h
  | ptr n => simp only [outerNil] at h; subst h; exact ⟨rfl, trivial⟩
  | iface g =>
    cases g with
    | none => exact ⟨rfl, trivial⟩
    | some b => simp [outerNil] at h

theorem sound_iff (c : Nat) (onTrue : Bool) (k : Option Nat) (s : State) (σ σ' : MState)
    (hk' : (k = some 0 → onTrue = true) ∧ (k = some 1 → onTrue = false))
    (hd : descr F s σ.1) (hs : stepI F cr k (.iff c) σ σ') :
    descr F (transferInstr F summ onTrue s (.iff c)) σ'.1 := by
  obtain ⟨h, hk01, hsem⟩ := hs
  have hk : onTrue = true ↔ k = some 0 := by
    constructor
    · intro ht
      rcases hk01 with h0 | h1
      · exact h0
      · have := hk'.2 h1; rw [ht] at this; cases this
    · exact hk'.1
  rw [h]
  simp only [transferInstr]
  cases hT : ifTarget F c with
  | none => exact hd
  | some p =>
    obtain ⟨t, op⟩ := p
    simp only [hT] at hsem
    cases op with
    | other => cases onTrue <;> exact hd
    | eq =>
      obtain ⟨st, hrt, hiff⟩ := hsem
      cases onTrue with
      | true =>
        have hn : outerNil st = true := hiff.1 (hk.1 rfl)
        simp only [if_true]
        refine descr_refine_set F s σ.1 t _ hd ?_
        intro c' hc'
        rw [rdS_env F σ.1 t st c' hrt hc']
        exact gamma_always_of_nil st hn
      | false =>
        have hn : outerNil st = false := by
          cases hb : outerNil st with
          | false => rfl
          | true => exact absurd (hk.2 (hiff.2 hb)) (by simp)
        simp only [Bool.false_eq_true, if_false]
        exact descr_refine_never F s σ.1 t hd (operand_nonnil' F σ.1 t st hrt hn)
    | ne =>
      obtain ⟨st, hrt, hiff⟩ := hsem
      cases onTrue with
      | true =>
        have hn : outerNil st = false := hiff.1 (hk.1 rfl)
        simp only [if_true]
        exact descr_refine_never F s σ.1 t hd (operand_nonnil' F σ.1 t st hrt hn)
      | false =>
        have hn : outerNil st = true := by
          cases hb : outerNil st with
          | true => rfl
          | false => exact absurd (hk.2 (hiff.2 hb)) (by simp)
        simp only [Bool.false_eq_true, if_false]
        refine descr_refine_set F s σ.1 t _ hd ?_
        intro c' hc'
        rw [rdS_env F σ.1 t st c' hrt hc']
        exact gamma_always_of_nil st hn

theorem sound_typeassert (v x : Nat) (commaok toIface onTrue : Bool) (k : Option Nat) (s : State) (σ σ' : MState)
    (hxv : x ≠ v)
    (hd : descr F s σ.1) (hs : stepI F cr k (.typeassert v x commaok toIface) σ σ') :
    descr F (transferInstr F summ onTrue s (.typeassert v x commaok toIface)) σ'.1 := by
  obtain ⟨h, hrx, hsem⟩ := hs
  simp only [transferInstr]
  cases commaok with
  | true =>
    simp only [if_true] at hsem ⊢
    rw [hsem]
    exact descr_setv_tuple F s σ.1 v _ hd (by intro x; simp)
  | false =>
    simp only [Bool.false_eq_true, if_false] at hsem ⊢
    obtain ⟨hn, rfl, hsem⟩ := hsem
    have hgx := descr_rdS F s σ.1 x _ hd hrx
    have hin : gammaN (get F s x).inner hn := ((gamma_iface_some _ _ _).1 hgx).2
    have hd1 : descr F (setOuter F s x .never) σ.1 :=
      descr_refine_never F s σ.1 x hd (operand_nonnil' F σ.1 x _ hrx rfl)
    have hinner1 : (get F (setOuter F s x .never) x).inner = (get F s x).inner := by
      rw [get_setOuter]; split <;> rfl
    cases toIface with
    | true =>
      simp only [if_true] at hsem ⊢
      obtain ⟨hok, rfl⟩ := hsem
      have hpv : (F.info v).ptr = true := by simpa [okS, flagsOf] using hok.1
      have hxs2 : get F (setOuter F (setOuter F s x .never) v .never) x = get F (setOuter F s x .never) x := by
        rw [get_setOuter]; simp [hxv]
      have hiz : (get F s x).inner ≠ .zero := by
        intro h0; rw [h0] at hin; exact hin
      refine descr_def_general F _ _ σ.1 v _ hd1 ?_ ?_
      · intro w hw
        rw [getRaw_setInner]; simp only [hw, false_and, if_false]
        rw [getRaw_setOuter]; simp only [hw, false_and, if_false]
      · rw [getRaw_setInner, hxs2, hinner1]
        simp only [hpv, hiz, ne_eq, not_false_eq_true, and_self, if_true]
        rw [get_setOuter]
        simp only [hpv, ne_eq, reduceCtorEq, not_false_eq_true, and_self, if_true]
        exact (gamma_iface_some _ _ _).2 ⟨rfl, hin⟩
    | false =>
      simp only [Bool.false_eq_true, if_false] at hsem ⊢
      obtain ⟨sv, hok, hni, hout, rfl⟩ := hsem
      rw [hinner1]
      refine descr_setOuter_def F _ σ.1 v _ sv hd1 hni ?_ hok
      intro hpv; rw [hout hpv]; exact hin

theorem sound_typeswitch (v tag : Nat) (conds : List Bool) (onTrue : Bool) (k : Option Nat) (s : State) (σ σ' : MState)
    (hd : descr F s σ.1) (hs : stepI F cr k (.typeswitch v tag conds) σ σ') :
    descr F (transferInstr F summ onTrue s (.typeswitch v tag conds)) σ'.1 := by
  obtain ⟨h, sel, _, _, rfl⟩ := hs
  simp only [transferInstr]
  exact descr_setv_tuple F s σ.1 v _ hd (by intro x; simp)

theorem sound_handleRet (v : Nat) (rf : List (Bool × Bool)) (callee : Callee) (arg0 idx : Nat)
    (s : State) (env : Env) (rs : List SVal) (x : SVal)
    (hcr : CrOK summ cr)
    (hwfb : callee = .builtin .other → rf.all (fun r => r.1 == false) = true)
    (hfl : rf[idx]? = some (flagsOf F v))
    (hd : descr F s env) (hr : retSem cr rf callee (rd F env arg0) rs) (hx : rs[idx]? = some x) :
    descr F (handleRet F summ s v rf callee arg0 idx) (setv env v (some (.sc x))) := by
  obtain ⟨hlen, htyped, hcal⟩ := hr
  have hok : okS (flagsOf F v) x := htyped idx _ x hfl hx
  unfold handleRet
  simp only [hfl, flagsOf]
  by_cases hpv : (F.info v).ptr = true
  · simp only [hpv, Bool.true_eq_false, if_false]
    cases callee with
    | unknown => exact descr_set_def F s env v VN.top _ hd (fun _ => gamma_top x) (gammaC_np_of_okS F v x hok)
    | static g =>
      have hdes : Describes (summ g) rs := hcr g rs hcal
      simp only
      split
      · next r hr =>
        exact descr_set_def F s env v _ _ hd (fun _ => gamma_normalize r _ x (hdes idx r x hr hx))
          (gammaC_np_of_okS F v x hok)
      · exact descr_set_def F s env v VN.top _ hd (fun _ => gamma_top x) (gammaC_np_of_okS F v x hok)
    | builtin b =>
      cases b with
      | append =>
        obtain ⟨n, n', ha, hrs, himp⟩ := hcal
        subst hrs
        have hx' : x = .ptr n' := by
          cases idx with
          | zero => simpa using hx.symm
          | succ m => simp at hx
        subst hx'
        have hg : gammaN (get F s arg0).outer n := (descr_rd F s env arg0 _ hd ha).1
        simp only
        split
        · exact descr_setOuter_def F s env v _ _ hd (by intro g; simp) (fun _ => trivial) hok
        · exact descr_setOuter_def F s env v _ _ hd (by intro g; simp) (fun _ => trivial) hok
        · next hn =>
          rw [hn] at hg
          exact descr_setOuter_def F s env v _ _ hd (by intro g; simp) (fun _ => himp hg) hok
        · exact descr_setOuter_def F s env v _ _ hd (by intro g; simp) (fun _ => trivial) hok
        · next hz => rw [hz] at hg; exact absurd hg (by simp [gammaN])
      | unsafeSlice =>
        obtain ⟨n, ha, hrs⟩ := hcal
        subst hrs
        have hx' : x = .ptr n := by
          cases idx with
          | zero => simpa using hx.symm
          | succ m => simp at hx
        subst hx'
        exact descr_set_def F s env v _ _ hd (fun _ => descr_rd F s env arg0 _ hd ha) (gammaC_np_of_okS F v _ hok)
      | unsafeSliceData =>
        obtain ⟨n, ha, hrs⟩ := hcal
        subst hrs
        have hx' : x = .ptr n := by
          cases idx with
          | zero => simpa using hx.symm
          | succ m => simp at hx
        subst hx'
        exact descr_set_def F s env v _ _ hd (fun _ => descr_rd F s env arg0 _ hd ha) (gammaC_np_of_okS F v _ hok)
      | unsafeStringData =>
        obtain ⟨n, hrs⟩ := hcal
        subst hrs
        have hx' : x = .ptr n := by
          cases idx with
          | zero => simpa using hx.symm
          | succ m => simp at hx
        subst hx'
        exact descr_setOuter_def F s env v _ _ hd (by intro g; simp) (fun _ => trivial) hok
      | unsafeAdd =>
        obtain ⟨n, hrs⟩ := hcal
        subst hrs
        have hx' : x = .ptr n := by
          cases idx with
          | zero => simpa using hx.symm
          | succ m => simp at hx
        subst hx'
        exact descr_setOuter_def F s env v _ _ hd (by intro g; simp) (fun _ => trivial) hok
      | recover => exact descr_set_def F s env v VN.top _ hd (fun _ => gamma_top x) (gammaC_np_of_okS F v x hok)
      | deferstack =>
        have hrs : rs = [.ptr false] := hcal
        subst hrs
        have hx' : x = .ptr false := by
          cases idx with
          | zero => simpa using hx.symm
          | succ m => simp at hx
        subst hx'
        exact descr_setOuter_def F s env v _ _ hd (by intro g; simp) (fun _ => rfl) hok
      | wrapnilchk =>
        obtain ⟨_, hrs⟩ := hcal
        subst hrs
        have hx' : x = .ptr false := by
          cases idx with
          | zero => simpa using hx.symm
          | succ m => simp at hx
        subst hx'
        exact descr_setOuter_def F s env v _ _ hd (by intro g; simp) (fun _ => rfl) hok
      | other =>
        have hall := hwfb rfl
        rw [List.all_eq_true] at hall
        have hmem : flagsOf F v ∈ rf := List.mem_of_getElem? hfl
        have := hall _ hmem
        simp [flagsOf, hpv] at this
  · have hpv' : (F.info v).ptr = false := by simpa using hpv
    simp only [hpv', if_true]
    rw [setOuter_nonptr F s v _ hpv']
    exact descr_setv_nonptr F s env v _ hd hpv' (gammaC_np_of_okS F v x hok hpv')

theorem sound_call (mode : CallMode) (v : Nat) (invoke : Bool) (fnval : Nat) (rf : List (Bool × Bool))
    (callee : Callee) (arg0 : Nat) (onTrue : Bool) (k : Option Nat) (s : State) (σ σ' : MState)
    (hcr : CrOK summ cr)
    (hwfb : callee = .builtin .other → rf.all (fun r => r.1 == false) = true)
    (hfl : rf.length = 1 → rf[0]? = some (flagsOf F v))
    (hd : descr F s σ.1) (hs : stepI F cr k (.call mode v invoke fnval rf callee arg0) σ σ') :
    descrP F (transferInstr F summ onTrue s (.call mode v invoke fnval rf callee arg0)) σ' := by
  obtain ⟨p', hinv, hninv, hmode⟩ := hs
  -- the state after `setOuter(v.Common().Value, NeverNil)`
  have h1 : p' = true ∨ descr F (if invoke = false then setOuter F s fnval .never else s) σ.1 := by
    cases invoke with
    | true => right; simpa using hd
    | false =>
      simp only [if_true]
      have := hninv rfl
      cases mode with
      | defer =>
        obtain ⟨n, hr, hp⟩ := this
        cases n with
        | true => left; simp [hp]
        | false => right; exact descr_refine_never F s σ.1 fnval hd (operand_nonnil' F σ.1 fnval _ hr rfl)
      | call => right; exact descr_refine_never F s σ.1 fnval hd (operand_nonnil' F σ.1 fnval _ this.1 rfl)
      | go => right; exact descr_refine_never F s σ.1 fnval hd (operand_nonnil' F σ.1 fnval _ this.1 rfl)
  simp only [transferInstr]
  cases mode with
  | defer =>
    simp only at hmode
    rw [hmode]
    rcases h1 with h1 | h1
    · left; exact h1
    · right; exact h1
  | go =>
    simp only at hmode
    rw [hmode]
    rcases h1 with h1 | h1
    · left; exact h1
    · right; exact h1
  | call =>
    simp only at hmode
    by_cases hlen : rf.length = 1
    · simp only [hlen, if_true] at hmode ⊢
      obtain ⟨rs, x, hr, hx, rfl⟩ := hmode
      rcases h1 with h1 | h1
      · left; exact h1
      · right
        exact sound_handleRet F summ cr v rf callee arg0 0 _ σ.1 rs x hcr hwfb (hfl hlen) h1 hr hx
    · simp only [hlen, if_false] at hmode ⊢
      rw [hmode]
      rcases h1 with h1 | h1
      · left; exact h1
      · right; exact descr_setv_tuple F _ σ.1 v _ h1 (by intro x; simp)

theorem calleeOk_other (rf : List (Bool × Bool)) (callee : Callee) (h : calleeOk rf callee = true)
    (hc : callee = .builtin .other) : rf.all (fun r => r.1 == false) = true := by
  subst hc
  simpa [calleeOk] using h

theorem sound_extract (v tuple idx : Nat) (onTrue : Bool) (k : Option Nat) (s : State) (σ σ' : MState)
    (hcr : CrOK summ cr)
    (hwf : instrOk F (.extract v tuple idx) = true)
    (hd : descr F s σ.1) (hs : stepI F cr k (.extract v tuple idx) σ σ') :
    descr F (transferInstr F summ onTrue s (.extract v tuple idx)) σ'.1 := by
  simp only [stepI] at hs
  simp only [transferInstr]
  have hdflt : (∃ c, okC (flagsOf F v) c ∧ σ' = (setv σ.1 v (some c), σ.2)) →
      descr F (set F s v VN.top) σ'.1 := by
    rintro ⟨c, hok, rfl⟩
    refine descr_set_def F s σ.1 v VN.top c hd ?_ (fun hp => gammaC_nonptr _ c (by simpa [flagsOf] using hp) hok)
    intro _
    cases c with
    | sc sv => exact gamma_top sv
    | _ => trivial
  cases hdef : F.defOf tuple with
  | none => simp only [hdef] at hs ⊢; exact hdflt hs
  | some i =>
    cases i with
    | call m w inv f rf callee a =>
      simp only [hdef] at hs ⊢
      obtain ⟨rs, x, hr, hx, rfl⟩ := hs
      simp only [instrOk, Instr.defines, Instr.uses, hdef, Bool.and_eq_true, beq_iff_eq] at hwf
      obtain ⟨_, hcal, hfl⟩ := hwf
      exact sound_handleRet F summ cr v rf callee a idx s σ.1 rs x hcr (calleeOk_other rf callee hcal) hfl hd hr hx
    | typeassert w x co ti =>
      simp only [hdef] at hs ⊢
      by_cases h0 : idx = 0
      · simp only [h0, if_true]; exact hdflt hs
      · simp only [h0, if_false]
        obtain ⟨c, hok, rfl⟩ := hs
        have hpv : (F.info v).ptr = false := by
          simp only [instrOk, Instr.defines, Instr.uses, hdef, Bool.and_eq_true, Bool.or_eq_true, beq_iff_eq,
            Bool.not_eq_eq_eq_not, Bool.not_true] at hwf
          rcases hwf.2 with h | h
          · exact absurd h h0
          · exact h
        exact descr_setv_nonptr F s σ.1 v c hd hpv (gammaC_nonptr _ c (by simpa [flagsOf] using hpv) hok)
    | typeswitch w tag conds =>
      simp only [hdef] at hs ⊢
      obtain ⟨sel, h, _, hsel, hrtag, hs⟩ := hs
      have htv : tag ≠ v := by
        simp only [instrOk, Instr.defines, Instr.uses, hdef, Bool.and_eq_true, bne_iff_ne, ne_eq] at hwf
        exact hwf.2
      by_cases h0 : idx = 0
      · simp only [h0, if_true] at hs ⊢
        obtain ⟨hok, rfl⟩ := hs
        have hpv : (F.info v).ptr = false := by simpa [okS, flagsOf] using hok
        exact descr_setv_nonptr F s σ.1 v _ hd hpv gamma_nonptr_np
      · simp only [h0, if_false] at hs ⊢
        obtain ⟨hseleq, hs⟩ := hs
        have hgt := descr_rdS F s σ.1 tag _ hd hrtag
        cases hc : conds[idx - 1]? with
        | none =>
          simp only [hc] at hs ⊢
          obtain ⟨hok, rfl⟩ := hs
          have hpv : (F.info v).ptr = true := by
            cases h <;> simpa [okS, flagsOf] using hok.1
          -- the refinement of the tag
          have hd1 : descr F (if conds.any id = true then setOuter F s tag .never else setOuter F s tag .maybe) σ.1 := by
            split
            · next hany =>
              have hne : h ≠ none := by
                intro hh
                rcases hsel.2.1 hh with h1 | h1
                · rw [hseleq, hc] at h1; cases h1
                · rw [h1.2] at hany; cases hany
              refine descr_refine_never F s σ.1 tag hd (operand_nonnil' F σ.1 tag _ hrtag ?_)
              cases h with
              | none => exact absurd rfl hne
              | some b => rfl
            · exact descr_refine_outer F s σ.1 tag .maybe hd
                (fun c hcc => ⟨_, rdS_env F σ.1 tag _ c hrtag hcc, trivial⟩)
          exact descr_set_def F _ σ.1 v _ _ hd1 (fun _ => descr_rdS F _ σ.1 tag _ hd1 hrtag)
            (fun hp => by rw [hp] at hpv; cases hpv)
        | some b =>
          cases b with
          | true =>
            simp only [hc] at hs ⊢
            obtain ⟨rfl, hok, rfl⟩ := hs
            exact descr_set_def F s σ.1 v _ _ hd (fun _ => ⟨rfl, trivial⟩)
              (fun hp => by simp [okS, flagsOf, hp] at hok)
          | false =>
            simp only [hc] at hs ⊢
            obtain ⟨hn, rfl, hs⟩ := hs
            have hin : gammaN (get F s tag).inner hn := ((gamma_iface_some _ _ _).1 hgt).2
            have hd1 : descr F (setOuter F s tag .never) σ.1 :=
              descr_refine_never F s σ.1 tag hd (operand_nonnil' F σ.1 tag _ hrtag rfl)
            have hinner1 : (get F (setOuter F s tag .never) tag).inner = (get F s tag).inner := by
              rw [get_setOuter]; split <;> rfl
            rw [hinner1]
            by_cases hif : (F.info v).iface = true
            · simp only [hif, if_true] at hs ⊢
              obtain ⟨hok, rfl⟩ := hs
              have hpv : (F.info v).ptr = true := by simpa [okS, flagsOf] using hok.1
              have hiz : (get F s tag).inner ≠ .zero := by
                intro hz; rw [hz] at hin; exact hin
              refine descr_def_general F _ _ σ.1 v _ hd1 ?_ ?_
              · intro w' hw'
                rw [getRaw_setOuter]; simp only [hw', false_and, if_false]
                rw [getRaw_setInner]; simp only [hw', false_and, if_false]
              · rw [getRaw_setOuter]
                simp only [hpv, ne_eq, reduceCtorEq, not_false_eq_true, and_self, if_true]
                rw [get_setInner]
                simp only [hpv, hiz, ne_eq, not_false_eq_true, and_self, if_true]
                exact (gamma_iface_some _ _ _).2 ⟨rfl, hin⟩
            · have hif' : (F.info v).iface = false := by simpa using hif
              simp only [hif', Bool.false_eq_true, if_false] at hs ⊢
              obtain ⟨sv, hok, hout, rfl⟩ := hs
              have hni : ∀ g, sv ≠ .iface g := by
                intro g hg; subst hg; simp [okS, flagsOf, hif'] at hok
              refine descr_setOuter_def F _ σ.1 v _ sv hd1 hni ?_ hok
              intro hpv; rw [hout hpv]; exact hin
    | _ => simp only [hdef] at hs ⊢; exact hdflt hs

/-- a pending deferred nil call stays pending. -/
theorem stepI_poison (i : Instr) (k : Option Nat) (σ σ' : MState) (hs : stepI F cr k i σ σ')
    (hp : σ.2 = true) : σ'.2 = true := by
  cases i with
  | convert v x fi => obtain ⟨sv, _, _, rfl⟩ := hs; exact hp
  | copy v x => obtain ⟨sx, _, _, rfl⟩ := hs; exact hp
  | s2ap v x nz => obtain ⟨n, _, _, _, rfl⟩ := hs; exact hp
  | s2a v x nz => obtain ⟨n, _, _, _, rfl⟩ := hs; exact hp
  | slice v x a b => obtain ⟨sv, _, _, rfl⟩ := hs; exact hp
  | iff c => obtain ⟨h, _, _⟩ := hs; rw [h]; exact hp
  | binop v op x y => obtain ⟨_, rfl⟩ := hs; exact hp
  | load v x => obtain ⟨_, sv, _, rfl⟩ := hs; exact hp
  | addr v x => obtain ⟨_, _, rfl⟩ := hs; exact hp
  | alloc v => obtain ⟨_, rfl⟩ := hs; exact hp
  | useNN x => obtain ⟨_, h⟩ := hs; rw [h]; exact hp
  | recv v ch => obtain ⟨_, c, _, rfl⟩ := hs; exact hp
  | makeiface v x => obtain ⟨sx, _, _, _, rfl⟩ := hs; exact hp
  | typeswitch v tag conds => obtain ⟨h, sel, _, _, rfl⟩ := hs; exact hp
  | maplookup v x => obtain ⟨n, c, _, _, _, rfl⟩ := hs; exact hp
  | fieldidx v x => obtain ⟨c, _, rfl⟩ := hs; exact hp
  | phi v es => have : σ' = σ := hs; rw [this]; exact hp
  | ret rs => have : σ' = σ := hs; rw [this]; exact hp
  | nop => have : σ' = σ := hs; rw [this]; exact hp
  | typeassert v x co ti =>
    obtain ⟨h, _, hsem⟩ := hs
    cases co with
    | true => simp only [if_true] at hsem; rw [hsem]; exact hp
    | false =>
      simp only [Bool.false_eq_true, if_false] at hsem
      obtain ⟨hn, _, hsem⟩ := hsem
      cases ti with
      | true => simp only [if_true] at hsem; rw [hsem.2]; exact hp
      | false =>
        simp only [Bool.false_eq_true, if_false] at hsem
        obtain ⟨sv, _, _, _, rfl⟩ := hsem; exact hp
  | call mode v invoke fnval rf callee arg0 =>
    obtain ⟨p', hinv, hninv, hmode⟩ := hs
    have hp' : p' = true := by
      cases invoke with
      | true => rw [hinv rfl]; exact hp
      | false =>
        have := hninv rfl
        cases mode with
        | defer => obtain ⟨n, _, h⟩ := this; rw [h, hp]; rfl
        | call => rw [this.2]; exact hp
        | go => rw [this.2]; exact hp
    cases mode with
    | defer => simp only at hmode; rw [hmode]; exact hp'
    | go => simp only at hmode; rw [hmode]; exact hp'
    | call =>
      simp only at hmode
      by_cases hlen : rf.length = 1
      · simp only [hlen, if_true] at hmode
        obtain ⟨rs, x, _, _, rfl⟩ := hmode; exact hp'
      · simp only [hlen, if_false] at hmode
        rw [hmode]; exact hp'
  | extract v tuple idx =>
    simp only [stepI] at hs
    cases hdef : F.defOf tuple with
    | none => simp only [hdef] at hs; obtain ⟨c, _, rfl⟩ := hs; exact hp
    | some i =>
      cases i with
      | call m w inv f rf callee a =>
        simp only [hdef] at hs
        obtain ⟨rs, x, _, _, rfl⟩ := hs; exact hp
      | typeswitch w tag conds =>
        simp only [hdef] at hs
        obtain ⟨sel, h, _, _, _, hs⟩ := hs
        by_cases h0 : idx = 0
        · simp only [h0, if_true] at hs; rw [hs.2]; exact hp
        · simp only [h0, if_false] at hs
          obtain ⟨_, hs⟩ := hs
          cases hc : conds[idx - 1]? with
          | none => simp only [hc] at hs; rw [hs.2]; exact hp
          | some b =>
            cases b with
            | true => simp only [hc] at hs; rw [hs.2.2]; exact hp
            | false =>
              simp only [hc] at hs
              obtain ⟨hn, _, hs⟩ := hs
              by_cases hif : (F.info v).iface = true
              · simp only [hif, if_true] at hs; rw [hs.2]; exact hp
              · simp only [hif, if_false] at hs
                obtain ⟨sv, _, _, rfl⟩ := hs; exact hp
      | _ => simp only [hdef] at hs; obtain ⟨c, _, rfl⟩ := hs; exact hp

/-- **transfer_sound**: for every instruction kind, if the abstract state describes the
registers (or a deferred nil call is pending), then after any execution of the instruction
the transferred state describes the registers. -/
theorem transfer_sound (i : Instr) (onTrue : Bool) (k : Option Nat) (s : State) (σ σ' : MState)
    (hcr : CrOK summ cr) (hwf : instrOk F i = true)
    (hk : ∀ c, i = .iff c → (k = some 0 → onTrue = true) ∧ (k = some 1 → onTrue = false))
    (hd : descrP F s σ) (hs : stepI F cr k i σ σ') :
    descrP F (transferInstr F summ onTrue s i) σ' := by
  rcases hd with hp | hd
  · left; exact stepI_poison F cr i k σ σ' hs hp
  · cases i with
    | convert v x fi =>
      right
      have hni : (F.info v).iface = false := by
        simp only [instrOk, Bool.and_eq_true, Bool.not_eq_eq_eq_not, Bool.not_true] at hwf; exact hwf.2
      exact sound_convert F summ cr v x fi onTrue k s σ σ' hni hd hs
    | copy v x => right; exact sound_copy F summ cr v x onTrue k s σ σ' hd hs
    | s2ap v x nz =>
      right
      have hxv : x ≠ v := by
        simp only [instrOk, Instr.defines, Instr.uses, List.all_cons, List.all_nil, Bool.and_true, bne_iff_ne, ne_eq] at hwf
        exact hwf
      exact sound_s2ap F summ cr v x nz onTrue k s σ σ' hxv hd hs
    | s2a v x nz =>
      right
      have hxv : x ≠ v := by
        simp only [instrOk, Instr.defines, Instr.uses, List.all_cons, List.all_nil, Bool.and_true, bne_iff_ne, ne_eq] at hwf
        exact hwf
      exact sound_s2a F summ cr v x nz onTrue k s σ σ' hxv hd hs
    | slice v x a b =>
      right
      simp only [instrOk, Instr.defines, Instr.uses, List.all_cons, List.all_nil, Bool.and_true, bne_iff_ne, ne_eq,
        Bool.and_eq_true, Bool.not_eq_eq_eq_not, Bool.not_true, Bool.or_eq_true] at hwf
      obtain ⟨hxv, hni, hpx⟩ := hwf
      refine sound_slice F summ cr v x a b onTrue k s σ σ' hxv hni ?_ hd hs
      intro hpv
      rcases hpx with h | h
      · rw [hpv] at h; cases h
      · exact h
    | iff c => right; exact sound_iff F summ cr c onTrue k s σ σ' (hk c rfl) hd hs
    | binop v op x y => right; exact sound_binop F summ cr v op x y onTrue k s σ σ' hd hs
    | load v x =>
      right
      have hxv : x ≠ v := by
        simp only [instrOk, Instr.defines, Instr.uses, List.all_cons, List.all_nil, Bool.and_true, bne_iff_ne, ne_eq] at hwf
        exact hwf
      exact sound_load F summ cr v x onTrue k s σ σ' hxv hd hs
    | addr v x => right; exact sound_addr F summ cr v x onTrue k s σ σ' hd hs
    | alloc v => right; exact sound_alloc F summ cr v onTrue k s σ σ' hd hs
    | useNN x => right; exact sound_useNN F summ cr x onTrue k s σ σ' hd hs
    | call mode v invoke fnval rf callee arg0 =>
      simp only [instrOk, Bool.and_eq_true, Bool.or_eq_true, bne_iff_ne, ne_eq, beq_iff_eq] at hwf
      obtain ⟨_, hcal, hfl⟩ := hwf
      refine sound_call F summ cr mode v invoke fnval rf callee arg0 onTrue k s σ σ' hcr
        (calleeOk_other rf callee hcal) ?_ hd hs
      intro hlen
      rcases hfl with h | h
      · exact absurd hlen h
      · exact h
    | recv v ch => right; exact sound_recv F summ cr v ch onTrue k s σ σ' hd hs
    | makeiface v x => right; exact sound_makeiface F summ cr v x onTrue k s σ σ' hd hs
    | typeassert v x co ti =>
      right
      have hxv : x ≠ v := by
        simp only [instrOk, Instr.defines, Instr.uses, List.all_cons, List.all_nil, Bool.and_true, bne_iff_ne, ne_eq] at hwf
        exact hwf
      exact sound_typeassert F summ cr v x co ti onTrue k s σ σ' hxv hd hs
    | typeswitch v tag conds => right; exact sound_typeswitch F summ cr v tag conds onTrue k s σ σ' hd hs
    | maplookup v x => right; exact sound_maplookup F summ cr v x onTrue k s σ σ' hd hs
    | fieldidx v x =>
      right
      have hpx : (F.info x).ptr = false := by
        simp only [instrOk, Bool.and_eq_true, Bool.not_eq_eq_eq_not, Bool.not_true] at hwf; exact hwf.2
      exact sound_fieldidx F summ cr v x onTrue k s σ σ' hpx hd hs
    | extract v t idx => right; exact sound_extract F summ cr v t idx onTrue k s σ σ' hcr hwf hd hs
    | phi v es => right; have : σ' = σ := hs; rw [this]; exact hd
    | ret rs => right; have : σ' = σ := hs; rw [this]; exact hd
    | nop => right; have : σ' = σ := hs; rw [this]; exact hd

/-- a straight-line sequence of instructions (`processBlock`). -/
theorem run_sound (instrs : List Instr) (onTrue : Bool) (k : Option Nat) (s : State) (σ σ' : MState)
    (hcr : CrOK summ cr) (hwf : ∀ i ∈ instrs, instrOk F i = true)
    (hk : ∀ c, .iff c ∈ instrs → (k = some 0 → onTrue = true) ∧ (k = some 1 → onTrue = false))
    (hd : descrP F s σ) (hr : Run F cr k instrs σ σ') :
    descrP F (processBlock F summ onTrue instrs s) σ' := by
  induction hr generalizing s with
  | nil σ => simpa [processBlock] using hd
  | cons i is σ σ1 σ2 hstep _ ih =>
    simp only [processBlock, List.foldl_cons]
    refine ih _ (fun j hj => hwf j (List.mem_cons_of_mem _ hj)) (fun c hc => hk c (List.mem_cons_of_mem _ hc)) ?_
    exact transfer_sound F summ cr i onTrue k s σ σ1 hcr (hwf i (List.mem_cons_self ..))
      (fun c hc => hk c (by rw [hc]; exact List.mem_cons_self ..)) hd hstep

/-! ## phis, edges, paths -/

theorem phis_fold_sound (ps : List (Nat × Nat)) (s0 : State) (env0 : Env) (s : State) (env : Env)
    (hwf : ∀ p ∈ ps, (F.info p.2).ptr = (F.info p.1).ptr)
    (h0 : descr F s0 env0) (hd : descr F s env) :
    descr F ((ps.map (fun p => (p.1, get F s0 p.2))).foldl (fun acc p => set F acc p.1 p.2) s)
      (ps.foldl (fun e p => setv e p.1 (rd F env0 p.2)) env) := by
  induction ps generalizing s env with
  | nil => simpa using hd
  | cons p ps ih =>
    simp only [List.map_cons, List.foldl_cons]
    apply ih
    · intro q hq; exact hwf q (List.mem_cons_of_mem _ hq)
    refine descr_set_opt F s env p.1 (get F s0 p.2) (rd F env0 p.2) hd ?_
    intro c hc
    have hg := descr_rd F s0 env0 p.2 c h0 hc
    refine ⟨fun _ => hg, ?_⟩
    intro hp
    have hp2 : (F.info p.2).ptr = false := by rw [hwf p (List.mem_cons_self ..)]; exact hp
    rw [get_nonptr F s0 p.2 hp2] at hg
    exact hg

/-- **phis_sound**: `processPhis` (all edge values read before any phi is set) describes the
registers after the parallel evaluation of the phis. -/
theorem phis_sound (instrs : List Instr) (i : Nat) (s : State) (env : Env)
    (hwf : ∀ j ∈ instrs, instrOk F j = true) (hd : descr F s env) :
    descr F (processPhis F instrs i s) (phiStep F env (phiPairs i instrs)) := by
  unfold processPhis phiStep
  refine phis_fold_sound F (phiPairs i instrs) s env s env ?_ hd hd
  intro p hp
  obtain ⟨es, hmem, he⟩ := phiPairs_mem i instrs p hp
  have := hwf _ hmem
  simp only [instrOk, Bool.true_and, List.all_eq_true, beq_iff_eq] at this
  exact this p.2 he

/-- **edge_sound**: the transfer function handed to `dense.Forward` is sound for the `k`-th
out-edge of block `b`. -/
theorem edge_sound (b k : Nat) (s : State) (σ : MState) (env1 : Env) (p1 : Bool)
    (hcr : CrOK summ cr) (hwf : wfFunc F = true)
    (hd : descrP F s σ) (hr : Run F cr (some k) (F.block b).instrs σ (env1, p1)) :
    descrP F (edgeTransfer F summ b k s)
      (phiStep F env1 (phiPairs (predIndex (F.block ((F.block b).succs.getD k 0)).preds b)
        (F.block ((F.block b).succs.getD k 0)).instrs), p1) := by
  unfold edgeTransfer
  have h1 := run_sound F summ cr (F.block b).instrs ((F.block b).succs.getD k 0 == (F.block b).succs.getD 0 0)
    (some k) s σ (env1, p1) hcr (fun i hi => wf_instrOk F hwf b i hi) ?_ hd hr
  · rcases h1 with h1 | h1
    · left; exact h1
    · right
      exact phis_sound F _ _ _ env1 (fun j hj => wf_instrOk F hwf _ j hj) h1
  · intro c hc
    constructor
    · intro hk0
      have : k = 0 := by simpa using hk0
      subst this; simp
    · intro hk1
      have : k = 1 := by simpa using hk1
      subst this
      have := wf_if_succs F hwf b c hc
      simp only [beq_eq_false_iff_ne, ne_eq]
      exact fun h => this h.symm

theorem entry_sound (env : Env) (he : entryOK F env) : descr F (entryState F) env := by
  intro v c hv
  rw [getRaw_entry]
  have hk := he v
  by_cases hp : (F.info v).ptr = false
  · simp only [hp, if_true]
    cases hkind : (F.info v).kind <;> simp only [hkind] at hk
    case param => obtain ⟨x, hx, hok⟩ := hk; rw [hx] at hv; cases hv; exact gammaC_np_of_okS F v x hok hp
    case builtin => rw [hk] at hv; cases hv; exact ⟨rfl, trivial⟩
    case func => rw [hk] at hv; cases hv; exact ⟨rfl, trivial⟩
    case global => rw [hk] at hv; cases hv; exact ⟨rfl, trivial⟩
    case constnil => obtain ⟨x, hx, hok, _⟩ := hk; rw [hx] at hv; cases hv; exact gammaC_np_of_okS F v x hok hp
    case constz => obtain ⟨x, hx, hok, _⟩ := hk; rw [hx] at hv; cases hv; exact gammaC_np_of_okS F v x hok hp
    case constnz => obtain ⟨x, hx, hok, _⟩ := hk; rw [hx] at hv; cases hv; exact gammaC_np_of_okS F v x hok hp
    case constother => obtain ⟨x, hx, hok⟩ := hk; rw [hx] at hv; cases hv; exact gammaC_np_of_okS F v x hok hp
    all_goals (rw [hk] at hv; cases hv)
  · have hp' : (F.info v).ptr = true := by simpa using hp
    simp only [hp', Bool.true_eq_false, if_false]
    cases hkind : (F.info v).kind <;> simp only [hkind] at hk <;> simp only [entryVal, hp', Bool.true_eq_false, if_false, hkind]
    case param => obtain ⟨x, hx, _⟩ := hk; rw [hx] at hv; cases hv; exact gamma_top x
    case builtin => rw [hk] at hv; cases hv; exact ⟨rfl, trivial⟩
    case func => rw [hk] at hv; cases hv; exact ⟨rfl, trivial⟩
    case global => rw [hk] at hv; cases hv; exact ⟨rfl, trivial⟩
    case constnil =>
      obtain ⟨x, hx, hok, hz⟩ := hk; rw [hx] at hv; cases hv
      cases x with
      | np => simp [okS, flagsOf, hp'] at hok
      | ptr n => simp only [isZero] at hz; subst hz; exact ⟨rfl, trivial⟩
      | iface h => simp only [isZero] at hz; subst hz; exact ⟨rfl, trivial⟩
    case constz =>
      obtain ⟨x, hx, hok, hz⟩ := hk; rw [hx] at hv; cases hv
      cases x with
      | np => simp [okS, flagsOf, hp'] at hok
      | ptr n => simp only [isZero] at hz; subst hz; exact ⟨rfl, trivial⟩
      | iface h => simp only [isZero] at hz; subst hz; exact ⟨rfl, trivial⟩
    case constnz =>
      obtain ⟨x, hx, hok, hn⟩ := hk; rw [hx] at hv; cases hv
      refine ⟨hn, ?_⟩
      cases x with
      | iface h => cases h <;> trivial
      | _ => trivial
    case constother => obtain ⟨x, hx, _⟩ := hk; rw [hx] at hv; cases hv; exact gamma_top x
    all_goals (rw [hk] at hv; cases hv)

/-- **checkPost_sound**: what the executable post-fixpoint test establishes. -/
theorem checkPost_sound (sol : Sol) (h : checkPost F summ sol = true) :
    leState (entryState F) (sol.at 0) = true ∧
    ∀ b k, b < F.blocks.length → k < (F.block b).succs.length →
      leState (edgeTransfer F summ b k (sol.at b)) (sol.at ((F.block b).succs.getD k 0)) = true := by
  simp only [checkPost, Bool.and_eq_true, List.all_eq_true, List.mem_range] at h
  exact ⟨h.1, fun b k hb hk => h.2 b hb k hk⟩

/-- **path_sound**: every machine state in which an execution reaches block `b` is described
by ANY post-fixpoint of the flow equations at `b`. -/
theorem path_sound (sol : Sol) (hcr : CrOK summ cr) (hwf : wfFunc F = true)
    (hpost : checkPost F summ sol = true) (b : Nat) (σ : MState) (hr : Reach F cr b σ) :
    descrP F (sol.at b) σ := by
  obtain ⟨hentry, hedge⟩ := checkPost_sound F summ sol hpost
  induction hr with
  | entry env he => right; exact descr_le F _ _ env hentry (entry_sound F env he)
  | recover r _ _ => right; intro v c hv; cases hv
  | edge b k σ env1 p1 _ hk hrun ih =>
    have hb : b < F.blocks.length := by
      by_cases hb : b < F.blocks.length
      · exact hb
      · rw [block_of_ge F b (by omega)] at hk; simp at hk
    have h1 := edge_sound F summ cr b k (sol.at b) σ env1 p1 hcr hwf ih hrun
    rcases h1 with h1 | h1
    · left; exact h1
    · right; exact descr_le F _ _ _ (hedge b k hb hk) h1

end instr

/-! ## results -/

/-- what the driver establishes per function (`cert=1`): the summary is the bail-out default,
or `retNilness` of a post-fixpoint (computed with the same summaries) of a well-formed function. -/
def Certified (F : Func) (summ : Summ) (res : List VN) : Prop :=
  res = defaultSumm F.rf ∨
  (wfFunc F = true ∧ ∃ sol, checkPost F summ sol = true ∧
    ∀ (j : Nat) y, res[j]? = some y → ∃ x, (retNilness F summ sol)[j]? = some x ∧ leVN x y = true)

theorem fold_ret_sound (F : Func) (n j : Nat) (x : SVal) (sf : Nat × List Nat → State)
    (l : List (Nat × List Nat)) (acc : List VN) (hj : j < n)
    (h : gamma (acc.getD j VN.bot) x ∨ ∃ br ∈ l, gamma (get F (sf br) (br.2.getD j 0)) x) :
    gamma ((l.foldl (fun acc br =>
      (List.range n).map (fun i => merge (acc.getD i VN.bot) (get F (sf br) (br.2.getD i 0)))) acc).getD j VN.bot) x := by
  induction l generalizing acc with
  | nil =>
    rcases h with h | ⟨br, hbr, _⟩
    · simpa using h
    · cases hbr
  | cons br0 rest ih =>
    simp only [List.foldl_cons]
    apply ih
    rcases h with h | ⟨br, hbr, hg⟩
    · left; rw [range_map_getD n j _ _ hj]; exact gamma_merge_left _ _ _ h
    · rcases List.mem_cons.1 hbr with hb | hb
      · subst hb; left; rw [range_map_getD n j _ _ hj]; exact gamma_merge_right _ _ _ hg
      · right; exact ⟨br, hb, hg⟩

theorem defaultSumm_sound (rf : List (Bool × Bool)) (rs : List SVal)
    (hty : ∀ (j : Nat) x, rs[j]? = some x → okS (rf.getD j (false, false)) x) :
    Describes (defaultSumm rf) rs := by
  intro j r x hr hx
  have hok := hty j x hx
  simp only [defaultSumm, List.getElem?_map] at hr
  cases hrf : rf[j]? with
  | none => simp [hrf] at hr
  | some fl =>
    simp only [hrf, Option.map_some, Option.some.injEq] at hr
    subst hr
    simp only [List.getD_eq_getElem?_getD, hrf, Option.getD_some] at hok
    split
    · exact gamma_top x
    · next hp =>
      have := okS_nonptr fl x (by simpa using hp) hok
      subst this; exact ⟨rfl, trivial⟩

/-- one function: every tuple it can return is described by its certified summary. -/
theorem func_sound (F : Func) (summ : Summ) (cr : Nat → List SVal → Prop) (res : List VN)
    (hcr : CrOK summ cr) (hc : Certified F summ res) (rs : List SVal) (he : FuncExec F cr rs) :
    Describes res rs := by
  obtain ⟨b, σ, env1, rvs, hreach, hrun, hb, hlast, hlen, hrs⟩ := he
  rcases hc with hdef | ⟨hwf, sol, hpost, hret⟩
  · subst hdef
    exact defaultSumm_sound F.rf rs (fun j x hx => (hrs j x hx).2)
  · -- it suffices to show the claim for `retNilness` itself (`describes_mono`, proved below for lists)
    suffices hmain : Describes (retNilness F summ sol) rs by
      intro j y v hy hv
      obtain ⟨x, hx, hxy⟩ := hret j y hy
      exact gamma_leVN x y v hxy (hmain j x v hx hv)
    have hp := path_sound F summ cr sol hcr hwf hpost b σ hreach
    have h1 := run_sound F summ cr (F.block b).instrs false none (sol.at b) σ (env1, false) hcr
      (fun i hi => wf_instrOk F hwf b i hi) (fun c _ => And.intro (fun h => absurd h (by simp)) (fun h => absurd h (by simp))) hp hrun
    have hd1 : descr F (processBlock F summ false (F.block b).instrs (sol.at b)) env1 := by
      rcases h1 with h1 | h1
      · cases h1
      · exact h1
    intro j r x hr hx
    obtain ⟨hrd, hok⟩ := hrs j x hx
    have hj : j < F.rf.length := by
      rw [← hlen]
      exact (List.getElem?_eq_some_iff.1 hx).1
    have hgx : gamma (get F (processBlock F summ false (F.block b).instrs (sol.at b)) (rvs.getD j 0)) x :=
      descr_rdS F _ env1 _ x hd1 hrd
    have hmem : (b, rvs) ∈ F.returns := by
      simp only [Func.returns, List.mem_filterMap, List.mem_range]
      exact ⟨b, hb, by simp [hlast]⟩
    simp only [retNilness] at hr
    rw [List.getElem?_map, List.getElem?_range hj] at hr
    simp only [Option.map_some, Option.some.injEq] at hr
    subst hr
    split
    · next hp' =>
      have := okS_nonptr _ x (by simpa using hp') hok
      subst this; exact ⟨rfl, trivial⟩
    · apply gamma_normalize
      exact fold_ret_sound F F.rf.length j x
        (fun br => processBlock F summ false (F.block br.1).instrs (sol.at br.1)) F.returns _ hj
        (Or.inr ⟨(b, rvs), hmem, hgx⟩)

/-- **result_sound** (interprocedural, any call depth, recursion included): if every function
with a body has a certified summary and the summaries of body-less functions describe what
they return, then every tuple of values any function returns in a terminating execution is
described by its summary. -/
theorem result_sound (P : Nat → Option Func) (ext : Nat → List SVal → Prop) (summ : Summ)
    (hext : ∀ g rs, ext g rs → Describes (summ g) rs)
    (hcert : ∀ g F, P g = some F → Certified F summ (summ g)) :
    ∀ n g rs, ExecN P ext n g rs → Describes (summ g) rs := by
  intro n
  induction n with
  | zero => intro g rs h; exact hext g rs h
  | succ n ih =>
    intro g rs h
    rcases h with h | ⟨F, hF, hexec⟩
    · exact hext g rs h
    · exact func_sound F summ (ExecN P ext n) (summ g) (fun g' rs' h' => ih g' rs' h') (hcert g F hF) rs hexec

/-- **describes_mono**: a classification that is pointwise equal to or coarser than a sound one
(in the order of `lattice.Merge`) is sound. This is the relation the check demands between the
model's `retNilness` and the real `Result.Nilness`. -/
theorem describes_mono (a b : List VN) (rs : List SVal)
    (hle : ∀ (j : Nat) y, b[j]? = some y → ∃ x, a[j]? = some x ∧ leVN x y = true)
    (h : Describes a rs) : Describes b rs := by
  intro j y v hy hv
  obtain ⟨x, hx, hxy⟩ := hle j y hy
  exact gamma_leVN x y v hxy (h j x v hx hv)

example : Describes [⟨.maybe, .maybe⟩] [.iface (some true)] :=
  describes_mono [⟨.always, .never⟩] _ _
    (by
      intro j y hy
      match j with
      | 0 => simp only [List.getElem?_cons_zero, Option.some.injEq] at hy; subst hy; exact ⟨_, rfl, by decide⟩
      | n + 1 => simp at hy)
    (by
      intro j r x hr hx
      match j with
      | 0 =>
        simp only [List.getElem?_cons_zero, Option.some.injEq] at hr hx
        subst hr; subst hx; exact ⟨rfl, rfl⟩
      | n + 1 => simp at hr)

/-- a result classified NeverNil is never nil; for an interface result with Inner = NeverNil the
held value is never nil. -/
theorem result_sound_never (P : Nat → Option Func) (ext : Nat → List SVal → Prop) (summ : Summ)
    (hext : ∀ g rs, ext g rs → Describes (summ g) rs)
    (hcert : ∀ g F, P g = some F → Certified F summ (summ g))
    (g j : Nat) (r : VN) (rs : List SVal) (x : SVal)
    (hr : (summ g)[j]? = some r) (hexec : Exec P ext g rs) (hx : rs[j]? = some x) :
    (r.outer = .never → outerNil x = false) ∧
    (r.inner = .never → ∀ h, x = .iface (some h) → h = false) := by
  obtain ⟨n, hn⟩ := hexec
  have hg := result_sound P ext summ hext hcert n g rs hn j r x hr hx
  constructor
  · intro ho; have := hg.1; rw [ho] at this; exact this
  · intro hi h hxe; subst hxe; have := hg.2; simp only [hi] at this; exact this

/-- a result classified AlwaysNil is always nil; for an interface result with Inner = AlwaysNil
the held value (if the interface is not nil) is always nil. -/
theorem result_sound_always (P : Nat → Option Func) (ext : Nat → List SVal → Prop) (summ : Summ)
    (hext : ∀ g rs, ext g rs → Describes (summ g) rs)
    (hcert : ∀ g F, P g = some F → Certified F summ (summ g))
    (g j : Nat) (r : VN) (rs : List SVal) (x : SVal)
    (hr : (summ g)[j]? = some r) (hexec : Exec P ext g rs) (hx : rs[j]? = some x) :
    (r.outer = .always → outerNil x = true) ∧
    (r.inner = .always → ∀ h, x = .iface (some h) → h = true) := by
  obtain ⟨n, hn⟩ := hexec
  have hg := result_sound P ext summ hext hcert n g rs hn j r x hr hx
  constructor
  · intro ho; have := hg.1; rw [ho] at this; exact this
  · intro hi h hxe; subst hxe; have := hg.2; simp only [hi] at this; exact this

/-- **sa4023_sound**: when SA4023 reports `f() == nil` as never true (`Result.Nilness(f, j).Outer
== NeverNil` for an interface result), the compared value is not nil in any terminating
execution of `f`, i.e. the comparison is indeed false (and `!=` true). -/
theorem sa4023_sound (P : Nat → Option Func) (ext : Nat → List SVal → Prop) (summ : Summ)
    (hext : ∀ g rs, ext g rs → Describes (summ g) rs)
    (hcert : ∀ g F, P g = some F → Certified F summ (summ g))
    (g j : Nat) (r : VN) (rs : List SVal) (x : SVal)
    (hr : (summ g)[j]? = some r) (hflag : sa4023Flags (true, true) (some r) = true)
    (hexec : Exec P ext g rs) (hx : rs[j]? = some x) :
    outerNil x = false := by
  have ho : r.outer = .never := by
    simp only [sa4023Flags, resultNilness, normalize, beq_iff_eq, Bool.true_eq_false, if_false] at hflag
    split at hflag
    · cases hflag
    · exact hflag
  exact (result_sound_never P ext summ hext hcert g j r rs x hr hexec hx).1 ho



/-! ## non-vacuity: the hypotheses of every theorem above are met by concrete functions -/
namespace Ex

/-- `func f(p *int) *int { if p == nil { p = new(int) }; return p }` -/
def F2 : Func :=
  { hasObj := true, hasBlocks := true, rf := [(true, false)], nparams := 1,
    vals := [⟨.param, true, false⟩, ⟨.constnil, true, false⟩, ⟨.instr, false, false⟩, ⟨.instr, true, false⟩,
             ⟨.instr, true, false⟩],
    blocks := [⟨[.binop 2 .eq 0 1, .iff 2], [1, 2], []⟩, ⟨[.alloc 3, .nop], [2], [0]⟩,
               ⟨[.phi 4 [0, 3], .ret [4]], [], [0, 1]⟩] }

def noCalls : Nat → List SVal → Prop := fun _ _ => False
def noExt : Nat → List SVal → Prop := fun _ _ => False
def summ2 : Summ := fun g => if g = 0 then [⟨.maybe, .never⟩] else []
def P2 : Nat → Option Func := fun g => if g = 0 then some F2 else none

theorem crOK_noCalls (summ : Summ) : CrOK summ noCalls := by intro g rs h; cases h

/-- entry registers: `p` is a non-nil pointer. -/
def env0 : Env := fun v =>
  if v = 0 then some (.sc (.ptr false)) else if v = 1 then some (.sc (.ptr true)) else none

theorem env0_ok : entryOK F2 env0 := by
  intro v
  match v with
  | 0 => exact ⟨.ptr false, rfl, ⟨rfl, rfl⟩⟩
  | 1 => exact ⟨.ptr true, rfl, ⟨rfl, rfl⟩, rfl⟩
  | 2 => rfl
  | 3 => rfl
  | 4 => rfl
  | n + 5 => rfl

def env1 : Env := setv env0 2 (some (.sc .np))

/-- block 0 on the false branch of `p == nil`. -/
theorem run_b0 (cr : Nat → List SVal → Prop) :
    Run F2 cr (some 1) (F2.block 0).instrs (env0, false) (env1, false) := by
  refine Run.cons _ _ _ (env1, false) _ ?_ (Run.cons _ _ _ _ _ ?_ (Run.nil _))
  · exact ⟨rfl, rfl⟩
  · refine ⟨rfl, Or.inr rfl, ?_⟩
    have : ifTarget F2 2 = some (0, .eq) := by decide
    rw [this]
    exact ⟨.ptr false, rfl, by simp [outerNil]⟩

def env2 : Env := phiStep F2 env1 (phiPairs (predIndex (F2.block 2).preds 0) (F2.block 2).instrs)

theorem reach_b2 (cr : Nat → List SVal → Prop) : Reach F2 cr 2 (env2, false) :=
  Reach.edge 0 1 (env0, false) env1 false (Reach.entry env0 env0_ok) (by decide) (run_b0 cr)

theorem env2_4 : env2 4 = some (.sc (.ptr false)) := by
  simp [env2, phiStep, phiPairs, predIndex, F2, Func.block, setv, rd, env1, env0]

theorem run_b2 (cr : Nat → List SVal → Prop) : Run F2 cr none (F2.block 2).instrs (env2, false) (env2, false) :=
  Run.cons _ _ _ (env2, false) _ rfl (Run.cons _ _ _ (env2, false) _ rfl (Run.nil _))

theorem exec_F2 (cr : Nat → List SVal → Prop) : FuncExec F2 cr [.ptr false] := by
  refine ⟨2, (env2, false), env2, [4], reach_b2 cr, run_b2 cr, by decide, rfl, rfl, ?_⟩
  intro j x hx
  match j with
  | 0 =>
    simp only [List.getElem?_cons_zero, Option.some.injEq] at hx
    subst hx
    exact ⟨by simp [rdS, rd, env2_4], ⟨rfl, rfl⟩⟩
  | n + 1 => simp at hx

/-- `retNilness … = res` gives the pointwise `⊑` that `Certified` asks for. -/
theorem certified_of_eq (F : Func) (summ : Summ) (res : List VN) (hwf : wfFunc F = true) (sol : Sol)
    (hpost : checkPost F summ sol = true) (heq : retNilness F summ sol = res) : Certified F summ res :=
  Or.inr ⟨hwf, sol, hpost, fun j y hy => ⟨y, by rw [heq]; exact hy, leVN_refl y⟩⟩

theorem cert_F2 : Certified F2 summ2 [⟨.maybe, .never⟩] :=
  certified_of_eq F2 summ2 _ (by decide) (solve F2 summ2) (by decide) (by decide)

theorem hcert2 : ∀ g F, P2 g = some F → Certified F summ2 (summ2 g) := by
  intro g F h
  by_cases hg : g = 0
  · subst hg
    have : F = F2 := by simpa [P2] using h.symm
    subst this; exact cert_F2
  · simp [P2, hg] at h

theorem exec2 : Exec P2 noExt 0 [.ptr false] := ⟨1, Or.inr ⟨F2, rfl, exec_F2 _⟩⟩

-- transfer_sound: the `alloc` of block 1 on the entry state
example : descrP F2 (transferInstr F2 summ2 false (entryState F2) (.alloc 3))
    (setv env0 3 (some (.sc (.ptr false))), false) :=
  transfer_sound F2 summ2 noCalls (.alloc 3) false none (entryState F2) (env0, false) _ (crOK_noCalls _)
    (by decide) (by intro c h; cases h) (Or.inr (entry_sound F2 env0 env0_ok)) ⟨⟨rfl, rfl⟩, rfl⟩

-- phis_sound: the phi of block 2 on the edge from block 0
example : descr F2 (processPhis F2 (F2.block 2).instrs 0 (entryState F2))
    (phiStep F2 env0 (phiPairs 0 (F2.block 2).instrs)) :=
  phis_sound F2 (F2.block 2).instrs 0 (entryState F2) env0 (by decide) (entry_sound F2 env0 env0_ok)

-- edge_sound: the false edge of `if p == nil`
example : descrP F2 (edgeTransfer F2 summ2 0 1 (entryState F2)) (env2, false) :=
  edge_sound F2 summ2 noCalls 0 1 (entryState F2) (env0, false) env1 false (crOK_noCalls _) (by decide)
    (Or.inr (entry_sound F2 env0 env0_ok)) (run_b0 _)

-- checkPost_sound / path_sound: the solver's output is a post-fixpoint and describes the state at block 2
example : leState (entryState F2) ((solve F2 summ2).at 0) = true :=
  (checkPost_sound F2 summ2 (solve F2 summ2) (by decide)).1

example : descrP F2 ((solve F2 summ2).at 2) (env2, false) :=
  path_sound F2 summ2 noCalls (solve F2 summ2) (crOK_noCalls _) (by decide) (by decide) 2 _ (reach_b2 _)

-- result_sound / result_sound_never: f(non-nil) returns a non-nil pointer, as classified
example : Describes (summ2 0) [.ptr false] :=
  result_sound P2 noExt summ2 (by intro g rs h; cases h) hcert2 1 0 _ (Or.inr ⟨F2, rfl, exec_F2 _⟩)

example : outerNil (.ptr false) = false :=
  (result_sound_never P2 noExt summ2 (by intro g rs h; cases h) hcert2 0 0 ⟨.maybe, .never⟩ _ _ rfl exec2 rfl).1 rfl

/-- `func g() *int { return nil }` -/
def F3 : Func :=
  { hasObj := true, hasBlocks := true, rf := [(true, false)], nparams := 0,
    vals := [⟨.constnil, true, false⟩], blocks := [⟨[.ret [0]], [], []⟩] }
def summ3 : Summ := fun g => if g = 0 then [⟨.maybe, .always⟩] else []
def P3 : Nat → Option Func := fun g => if g = 0 then some F3 else none
def env3 : Env := fun v => if v = 0 then some (.sc (.ptr true)) else none

theorem env3_ok : entryOK F3 env3 := by
  intro v
  match v with
  | 0 => exact ⟨.ptr true, rfl, ⟨rfl, rfl⟩, rfl⟩
  | n + 1 => rfl

theorem exec_F3 (cr : Nat → List SVal → Prop) : FuncExec F3 cr [.ptr true] := by
  refine ⟨0, (env3, false), env3, [0], Reach.entry env3 env3_ok, Run.cons _ _ _ (env3, false) _ rfl (Run.nil _),
    by decide, rfl, rfl, ?_⟩
  intro j x hx
  match j with
  | 0 =>
    simp only [List.getElem?_cons_zero, Option.some.injEq] at hx
    subst hx
    exact ⟨rfl, ⟨rfl, rfl⟩⟩
  | n + 1 => simp at hx

theorem hcert3 : ∀ g F, P3 g = some F → Certified F summ3 (summ3 g) := by
  intro g F h
  by_cases hg : g = 0
  · subst hg
    have : F = F3 := by simpa [P3] using h.symm
    subst this
    exact certified_of_eq F3 summ3 _ (by decide) (solve F3 summ3) (by decide) (by decide)
  · simp [P3, hg] at h

-- result_sound_always
example : outerNil (.ptr true) = true :=
  (result_sound_always P3 noExt summ3 (by intro g rs h; cases h) hcert3 0 0 ⟨.maybe, .always⟩ [.ptr true] _ rfl
    ⟨1, Or.inr ⟨F3, rfl, exec_F3 _⟩⟩ rfl).1 rfl

/-- `func h() error { return (*E)(nil) }`: SA4023 reports `h() == nil`. -/
def F4 : Func :=
  { hasObj := true, hasBlocks := true, rf := [(true, true)], nparams := 0,
    vals := [⟨.constnil, true, false⟩, ⟨.instr, true, true⟩],
    blocks := [⟨[.makeiface 1 0, .ret [1]], [], []⟩] }
def summ4 : Summ := fun g => if g = 0 then [⟨.always, .never⟩] else []
def P4 : Nat → Option Func := fun g => if g = 0 then some F4 else none
def env4 : Env := fun v => if v = 0 then some (.sc (.ptr true)) else none
def env4' : Env := setv env4 1 (some (.sc (.iface (some true))))

theorem env4_ok : entryOK F4 env4 := by
  intro v
  match v with
  | 0 => exact ⟨.ptr true, rfl, ⟨rfl, rfl⟩, rfl⟩
  | 1 => rfl
  | n + 2 => rfl

theorem exec_F4 (cr : Nat → List SVal → Prop) : FuncExec F4 cr [.iface (some true)] := by
  refine ⟨0, (env4, false), env4', [1], Reach.entry env4 env4_ok, ?_, by decide, rfl, rfl, ?_⟩
  · refine Run.cons _ _ _ (env4', false) _ ?_ (Run.cons _ _ _ (env4', false) _ rfl (Run.nil _))
    exact ⟨.ptr true, rfl, by intro h; simp, ⟨rfl, rfl⟩, rfl⟩
  · intro j x hx
    match j with
    | 0 =>
      simp only [List.getElem?_cons_zero, Option.some.injEq] at hx
      subst hx
      exact ⟨rfl, ⟨rfl, rfl⟩⟩
    | n + 1 => simp at hx

theorem hcert4 : ∀ g F, P4 g = some F → Certified F summ4 (summ4 g) := by
  intro g F h
  by_cases hg : g = 0
  · subst hg
    have : F = F4 := by simpa [P4] using h.symm
    subst this
    exact certified_of_eq F4 summ4 _ (by decide) (solve F4 summ4) (by decide) (by decide)
  · simp [P4, hg] at h

-- sa4023_sound: the reported comparison `h() == nil` is false: h returns a non-nil interface (holding a nil pointer)
example : outerNil (.iface (some true)) = false :=
  sa4023_sound P4 noExt summ4 (by intro g rs h; cases h) hcert4 0 0 ⟨.always, .never⟩ [.iface (some true)] _ rfl
    (by decide) ⟨1, Or.inr ⟨F4, rfl, exec_F4 _⟩⟩ rfl

-- result_sound_always (inner): the value h's result holds is nil
example : (true : Bool) = true :=
  (result_sound_always P4 noExt summ4 (by intro g rs h; cases h) hcert4 0 0 ⟨.always, .never⟩ [.iface (some true)] _ rfl
    ⟨1, Or.inr ⟨F4, rfl, exec_F4 _⟩⟩ rfl).2 rfl true rfl

end Ex

end Verif.C15
