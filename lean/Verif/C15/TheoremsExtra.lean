import Verif.C15.Theorems
/-!
C15 — strengthening round: what the tie relies on, and why its three parts are necessary.

* `mergeN_comm`, `mergeN_assoc`, `mergeN_idem`, `merge_comm` — the model's `latticeMerge` is a
  commutative idempotent monoid with identity `zero`; `leVN_merge_left/right`, `merge_least`:
  `merge` is the least upper bound of the order `leVN` the check uses for "equal or coarser".
  (The real table is compared with `mergeN` cell by cell on every run through the merge grid of
  checks/c15.py; a table that is not commutative cannot agree with `mergeN`.)
* `asym_table_unsound` — the table with the single cell `[NeverNil][MaybeNilGlobal] := NeverNil`
  violates `merge_sound`: a value described by the right operand is not described by the merge.
* `dyn_call_outer_only_unsound` — recording only `Outer` for the result of a dynamic call leaves
  `Inner` at the identity element; merged with an interface holding a non-nil value the fact
  claims Inner = NeverNil and does not describe an interface holding a typed nil, which the
  model's rule `{MaybeNil, MaybeNil}` (`sound_call`, callee `unknown`) does describe.
* `selfloop_*` — the single-block self loop `for { q := p; p = nil; n--; if n < 0 { return q } }`:
  the family of states a solver computes when it never revisits the block for its own back edge
  is NOT a post-fixpoint (`checkPost` rejects it), claims NeverNil, and the function does return
  nil (`selfloop_exec_nil`); the certified solution says MaybeNil.  This is why the tie re-checks
  `checkPost` instead of trusting whatever the solver returned.
-/
namespace Verif.C15

/-! ## lattice laws of the model's merge table -/

theorem mergeN_comm (a b : Nl) : mergeN a b = mergeN b a := by
  cases a <;> cases b <;> rfl

theorem mergeN_assoc (a b c : Nl) : mergeN (mergeN a b) c = mergeN a (mergeN b c) := by
  cases a <;> cases b <;> cases c <;> rfl

theorem mergeN_idem (a : Nl) : mergeN a a = a := by
  cases a <;> rfl

theorem mergeN_zero_left (a : Nl) : mergeN .zero a = a := by
  cases a <;> rfl

/-- **merge_comm**: `lattice.Merge` does not depend on the operand order (return statements in
block order, predecessors in any order). -/
theorem merge_comm (a b : VN) : merge a b = merge b a := by
  simp only [merge, mergeN_comm a.inner b.inner, mergeN_comm a.outer b.outer]

example : merge ⟨.zero, .never⟩ ⟨.maybe, .mglobal⟩ = merge ⟨.maybe, .mglobal⟩ ⟨.zero, .never⟩ :=
  merge_comm _ _

theorem merge_assoc (a b c : VN) : merge (merge a b) c = merge a (merge b c) := by
  simp only [merge, mergeN_assoc]

example : merge (merge ⟨.never, .never⟩ ⟨.always, .mglobal⟩) ⟨.zero, .always⟩ =
    merge ⟨.never, .never⟩ (merge ⟨.always, .mglobal⟩ ⟨.zero, .always⟩) := merge_assoc _ _ _

theorem merge_idem (a : VN) : merge a a = a := by
  cases a; simp only [merge, mergeN_idem]

example : merge ⟨.never, .mglobal⟩ ⟨.never, .mglobal⟩ = ⟨.never, .mglobal⟩ := merge_idem _

theorem leN_mergeN_left (a b : Nl) : leN a (mergeN a b) = true := by
  cases a <;> cases b <;> rfl

theorem leN_mergeN_right (a b : Nl) : leN b (mergeN a b) = true := by
  cases a <;> cases b <;> rfl

theorem mergeN_least (a b c : Nl) (ha : leN a c = true) (hb : leN b c = true) : leN (mergeN a b) c = true := by
  revert ha hb
  cases a <;> cases b <;> cases c <;> decide

/-- **merge_upper**: both operands are below the merge in the order the check uses. -/
theorem merge_upper (a b : VN) : leVN a (merge a b) = true ∧ leVN b (merge a b) = true := by
  simp only [leVN, merge, leN_mergeN_left, leN_mergeN_right, Bool.and_self, and_self]

example : leVN ⟨.never, .never⟩ (merge ⟨.never, .never⟩ ⟨.always, .mglobal⟩) = true :=
  (merge_upper _ _).1

/-- **merge_least**: the merge is below every common upper bound: `merge` is the join of `leVN`. -/
theorem merge_least (a b c : VN) (ha : leVN a c = true) (hb : leVN b c = true) : leVN (merge a b) c = true := by
  simp only [leVN, Bool.and_eq_true] at ha hb ⊢
  exact ⟨mergeN_least _ _ _ ha.1 hb.1, mergeN_least _ _ _ ha.2 hb.2⟩

example : leVN (merge ⟨.never, .never⟩ ⟨.never, .mglobal⟩) ⟨.never, .maybe⟩ = true :=
  merge_least _ _ _ (by decide) (by decide)

/-! ## why each part of the tie is needed: three property-breaking variants -/

/-- the merge table with the single asymmetric cell `[NeverNil][MaybeNilGlobal] := NeverNil`. -/
def mergeNAsym : Nl → Nl → Nl
  | .never, .mglobal => .never
  | a, b => mergeN a b

/-- **asym_table_unsound**: with that cell, merging a never-nil value (left) with a value loaded
from a global (right) claims NeverNil, which does not describe the nil the global holds;
the mirrored operand order is still sound, and the table is no longer commutative. -/
theorem asym_table_unsound :
    (∃ a b : VN, ∃ x : SVal, gamma b x ∧
      ¬ gamma ⟨mergeNAsym a.inner b.inner, mergeNAsym a.outer b.outer⟩ x) ∧
    mergeNAsym .never .mglobal ≠ mergeNAsym .mglobal .never :=
  ⟨⟨⟨.maybe, .never⟩, ⟨.maybe, .mglobal⟩, .ptr true, ⟨trivial, trivial⟩, by
      intro h; have h1 : true = false := h.1; cases h1⟩, by decide⟩

-- the model's own table is sound on the same operands (`merge_sound`)
example : gamma (merge ⟨.maybe, .never⟩ ⟨.maybe, .mglobal⟩) (.ptr true) :=
  merge_sound _ _ _ (Or.inr ⟨trivial, trivial⟩)

/-- **dyn_call_outer_only_unsound**: if the result of a dynamic call is recorded as
`setOuter v MaybeNil` (Inner stays the identity element) and then merged with an interface that
holds a non-nil value, the merged fact has Inner = NeverNil and does not describe an interface
holding a typed nil — a value a dynamic call can return. The model's `{MaybeNil, MaybeNil}` does. -/
theorem dyn_call_outer_only_unsound :
    let dynOuterOnly : VN := ⟨.zero, .maybe⟩
    let holdsNonNil : VN := ⟨.never, .never⟩
    (merge dynOuterOnly holdsNonNil).inner = .never ∧
    ¬ gamma (merge dynOuterOnly holdsNonNil) (.iface (some true)) ∧
    gamma (merge VN.top holdsNonNil) (.iface (some true)) := by
  refine ⟨rfl, ?_, ⟨trivial, trivial⟩⟩
  intro h
  have h2 : true = false := h.2
  cases h2

/-! ### the single-block self loop -/
namespace ExLoop

/-- `func Prev(n int) *int { x := 0; p := &x; for { q := p; p = nil; n--; if n < 0 { return q } } }`
values: 0 = `&x` (Alloc), 1 = nil constant, 2 = the phi `p` (= `q`), 3 = `n < 0`, 4 = an int constant.
Block 1 is its own successor. -/
def Prev : Func :=
  { hasObj := true, hasBlocks := true, rf := [(true, false)], nparams := 0,
    vals := [⟨.instr, true, false⟩, ⟨.constnil, true, false⟩, ⟨.instr, true, false⟩, ⟨.instr, false, false⟩,
             ⟨.constother, false, false⟩],
    blocks := [⟨[.alloc 0, .nop], [1], []⟩,
               ⟨[.phi 2 [0, 1], .binop 3 .other 4 4, .iff 3], [2, 1], [0, 1]⟩,
               ⟨[.ret [2]], [], [1]⟩] }

def noSumm : Summ := fun _ => []

/-- what a solver computes when block 1 is never revisited for its own back edge: the phi keeps
the value of the loop-entry edge. -/
def noBackEdge : Sol :=
  [entryState Prev,
   edgeTransfer Prev noSumm 0 0 (entryState Prev),
   edgeTransfer Prev noSumm 1 0 (edgeTransfer Prev noSumm 0 0 (entryState Prev))]

theorem prev_wf : wfFunc Prev = true := by decide

/-- **selfloop_unvisited_rejected**: that family claims NeverNil for the result and is rejected by
the post-fixpoint test. -/
theorem selfloop_unvisited_rejected :
    retNilness Prev noSumm noBackEdge = [⟨.maybe, .never⟩] ∧ checkPost Prev noSumm noBackEdge = false := by
  constructor <;> decide

/-- **selfloop_certified**: the solution that includes the back edge is a post-fixpoint and says
MaybeNil. -/
theorem selfloop_certified :
    checkPost Prev noSumm (solve Prev noSumm) = true ∧
    retNilness Prev noSumm (solve Prev noSumm) = [⟨.maybe, .maybe⟩] := by
  constructor <;> decide

def envA : Env := fun v =>
  if v = 1 then some (.sc (.ptr true)) else if v = 4 then some (.sc .np) else none
def envB : Env := setv envA 0 (some (.sc (.ptr false)))
def envC : Env := phiStep Prev envB (phiPairs (predIndex (Prev.block 1).preds 0) (Prev.block 1).instrs)
def envD : Env := setv envC 3 (some (.sc .np))
def envE : Env := phiStep Prev envD (phiPairs (predIndex (Prev.block 1).preds 1) (Prev.block 1).instrs)
def envF : Env := setv envE 3 (some (.sc .np))
def envG : Env := phiStep Prev envF (phiPairs (predIndex (Prev.block 2).preds 1) (Prev.block 2).instrs)

theorem envA_ok : entryOK Prev envA := by
  intro v
  match v with
  | 0 => simp [Func.info, Prev, envA]
  | 1 => simp [Func.info, Prev, envA, okS, flagsOf, isZero]
  | 2 => simp [Func.info, Prev, envA]
  | 3 => simp [Func.info, Prev, envA]
  | 4 => simp [Func.info, Prev, envA, okS, flagsOf]
  | n + 5 => simp [Func.info, Prev, envA]

theorem envG_2 : envG 2 = some (.sc (.ptr true)) := by
  decide

/-- **selfloop_exec_nil**: after one trip round the self loop the function returns nil. -/
theorem selfloop_exec_nil (cr : Nat → List SVal → Prop) : FuncExec Prev cr [.ptr true] := by
  have r0 : Reach Prev cr 0 (envA, false) := Reach.entry envA envA_ok
  have run0 : Run Prev cr (some 0) (Prev.block 0).instrs (envA, false) (envB, false) := by
    refine Run.cons _ _ _ (envB, false) _ ?_ (Run.cons _ _ _ (envB, false) _ rfl (Run.nil _))
    exact ⟨by simp [okS, flagsOf, Func.info, Prev], rfl⟩
  have r1 : Reach Prev cr 1 (envC, false) := Reach.edge 0 0 (envA, false) envB false r0 (by decide) run0
  have run1 : ∀ (k : Nat) (e : Env), (k = 0 ∨ k = 1) →
      Run Prev cr (some k) (Prev.block 1).instrs (e, false) (setv e 3 (some (.sc .np)), false) := by
    intro k e hk
    refine Run.cons _ _ _ (e, false) _ rfl (Run.cons _ _ _ (setv e 3 (some (.sc .np)), false) _ ?_
      (Run.cons _ _ _ (setv e 3 (some (.sc .np)), false) _ ?_ (Run.nil _)))
    · exact ⟨by simp [okS, flagsOf, Func.info, Prev], rfl⟩
    · refine ⟨rfl, ?_, ?_⟩
      · rcases hk with h | h <;> simp [h]
      · simp [ifTarget, Func.defOf, Prev, Instr.defines, Func.info]
  have r1' : Reach Prev cr 1 (envE, false) :=
    Reach.edge 1 1 (envC, false) envD false r1 (by decide) (run1 1 envC (Or.inr rfl))
  refine ⟨2, (envG, false), envG, [2], ?_, ?_, by decide, rfl, rfl, ?_⟩
  · exact Reach.edge 1 0 (envE, false) envF false r1' (by decide) (run1 0 envE (Or.inl rfl))
  · exact Run.cons _ _ _ (envG, false) _ rfl (Run.nil _)
  · intro j x hx
    match j with
    | 0 =>
      simp only [List.getElem?_cons_zero, Option.some.injEq] at hx
      subst hx
      refine ⟨?_, by simp [okS, Prev]⟩
      simp [rdS, rd, envG_2]
    | n + 1 => simp at hx

/-- the rejected family does not describe that execution, the certified one does. -/
theorem selfloop_unvisited_wrong :
    ¬ Describes (retNilness Prev noSumm noBackEdge) [.ptr true] ∧
    Describes (retNilness Prev noSumm (solve Prev noSumm)) [.ptr true] := by
  rw [selfloop_unvisited_rejected.1, selfloop_certified.2]
  constructor
  · intro h
    have h1 : true = false := (h 0 ⟨.maybe, .never⟩ (.ptr true) rfl rfl).1
    cases h1
  · intro j r x hr hx
    match j with
    | 0 =>
      simp only [List.getElem?_cons_zero, Option.some.injEq] at hr hx
      subst hr; subst hx; exact ⟨trivial, trivial⟩
    | n + 1 => simp at hr

end ExLoop

end Verif.C15
