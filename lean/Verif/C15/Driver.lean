import Verif.Common.Proto
import Verif.C15.Model
/-!
C15 driver: one input line = the IR dump of one package written by `harness/cmd/c15probe`
(`<pkg> | <function> | <function> …`, records of a function separated by ` ; `, see
`dumpFunction` in the probe).  Output: `<pkg> | F <name> <status> real=… model=… cert=… | …`.

For every function the driver
1. recomputes what `impl` returns, in the order `run` calls it (`SrcFuncs` order, callees on
   first request, functions in progress answer with the bail-out default), using `solve`;
2. re-checks with the FINAL summaries that the solution is a post-fixpoint (`checkPost`) of a
   well-formed function (`wfFunc`) and that `retNilness` of that solution is what was
   reported (`cert=1`): exactly the hypotheses of `Theorems.result_sound`.
-/
namespace Verif.C15
open Verif.Proto

structure PFunc where
  name : String
  F : Func
  unmodelled : Option String   -- reasons (`U` record)
  real : Option (List VN)      -- `R` record: Result.Nilness per result
  locals : List (Nat × String) -- static-callee id ↦ name of a function of this package
  exts : List (Nat × List VN)  -- static-callee id ↦ summary of a function of another package
  bad : Option String          -- parse error

def parseFlags (s : String) : Option (Bool × Bool) :=
  match s.toList with
  | [a, b] => do
    let x ← parseBool (String.singleton a)
    let y ← parseBool (String.singleton b)
    pure (x, y)
  | _ => none

def parseVN (s : String) : Option VN :=
  match s.toList with
  | [a, b] => do
    let x ← (String.singleton a).toNat? >>= Nl.ofNat?
    let y ← (String.singleton b).toNat? >>= Nl.ofNat?
    pure ⟨x, y⟩
  | _ => none

def parseKind : String → Option VKind
  | "instr" => some .instr | "param" => some .param | "freevar" => some .freevar
  | "builtin" => some .builtin | "func" => some .func | "global" => some .global
  | "constnil" => some .constnil | "constz" => some .constz | "constnz" => some .constnz
  | "constother" => some .constother | "aggconst" => some .aggconst | "other" => some .other
  | _ => none

def parseNatList (s : String) : Option (List Nat) :=
  if s = "-" then some [] else (s.splitOn ",").mapM (·.toNat?)

/-- `-` (no value) is mapped to an id outside the value table. -/
def parseVid (nvHint : Nat) (s : String) : Option Nat :=
  if s = "-" then some nvHint else s.toNat?

def parseBi : String → Bi
  | "append" => .append | "UnsafeSlice" => .unsafeSlice | "UnsafeSliceData" => .unsafeSliceData
  | "UnsafeStringData" => .unsafeStringData | "UnsafeAdd" => .unsafeAdd | "recover" => .recover
  | "ssa:deferstack" => .deferstack | "ssa:wrapnilchk" => .wrapnilchk | _ => .other

/-- all all-`-` operand ids are mapped to `big` (outside every value table). -/
def big : Nat := 1000000

structure PState where
  vals : Array VInfo := #[]
  blocks : Array Block := #[]
  unmodelled : Option String := none
  real : Option (List VN) := none
  locals : List (Nat × String) := []
  exts : List (Nat × List VN) := []
  hasBlocks : Bool := true
  nextCallee : Nat := 0

def addInstr (st : PState) (b : Nat) (i : Instr) : Option PState :=
  if h : b < st.blocks.size then
    let blk := st.blocks[b]
    some { st with blocks := st.blocks.set b { blk with instrs := blk.instrs ++ [i] } }
  else none

def vid (s : String) : Option Nat := if s = "-" then some big else s.toNat?

def parseRecord (st : PState) (toks : List String) : Option PState :=
  match toks with
  | ["V", id, kind, fl] => do
    let id ← id.toNat?
    let k ← parseKind kind
    let f ← parseFlags fl
    if id = st.vals.size then pure { st with vals := st.vals.push ⟨k, f.1, f.2⟩ } else none
  | ["B", id, succs, preds] => do
    let id ← id.toNat?
    let ss ← parseNatList succs
    let ps ← parseNatList preds
    if id = st.blocks.size then pure { st with blocks := st.blocks.push ⟨[], ss, ps⟩ } else none
  | ["U", r] => pure { st with unmodelled := some r }
  | ["N"] => pure { st with hasBlocks := false }
  | "R" :: rs => do
    let l ← rs.mapM parseVN
    pure { st with real := some l }
  | "I" :: b :: rest => do
    let b ← b.toNat?
    match rest with
    | ["convert", v, x, fi] => do addInstr st b (.convert (← vid v) (← vid x) (← parseBool fi))
    | ["changetype", v, x] => do addInstr st b (.copy (← vid v) (← vid x))
    | ["changeiface", v, x] => do addInstr st b (.copy (← vid v) (← vid x))
    | ["s2ap", v, x, nz] => do addInstr st b (.s2ap (← vid v) (← vid x) (← parseBool nz))
    | ["s2a", v, x, nz] => do addInstr st b (.s2a (← vid v) (← vid x) (← parseBool nz))
    | ["slice", v, x, a, nz] => do addInstr st b (.slice (← vid v) (← vid x) (← parseBool a) (← parseBool nz))
    | ["if", c] => do addInstr st b (.iff (← vid c))
    | ["binop", v, op, x, y] => do
      let k ← (match op with | "eq" => some BinK.eq | "ne" => some BinK.ne | "other" => some BinK.other | _ => none)
      addInstr st b (.binop (← vid v) k (← vid x) (← vid y))
    | ["load", v, x] => do addInstr st b (.load (← vid v) (← vid x))
    | ["fieldaddr", v, x] => do addInstr st b (.addr (← vid v) (← vid x))
    | ["indexaddr", v, x] => do addInstr st b (.addr (← vid v) (← vid x))
    | ["alloc", v, _] => do addInstr st b (.alloc (← vid v))
    | ["mapupdate", x] => do addInstr st b (.useNN (← vid x))
    | ["store", x] => do addInstr st b (.useNN (← vid x))
    | ["send", x] => do addInstr st b (.useNN (← vid x))
    | ["select1", x] => do addInstr st b (.useNN (← vid x))
    | ["recv", v, x] => do addInstr st b (.recv (← vid v) (← vid x))
    | ["makeiface", v, x] => do addInstr st b (.makeiface (← vid v) (← vid x))
    | ["typeassert", v, x, co, ti] => do
      addInstr st b (.typeassert (← vid v) (← vid x) (← parseBool co) (← parseBool ti))
    | ["typeswitch", v, tag, fl] => do
      let conds ← (if fl = "-" then some [] else fl.toList.mapM (fun c => if c = 'n' then some true else if c = 't' then some false else none))
      addInstr st b (.typeswitch (← vid v) (← vid tag) conds)
    | ["maplookup", v, x] => do addInstr st b (.maplookup (← vid v) (← vid x))
    | ["field", v, x] => do addInstr st b (.fieldidx (← vid v) (← vid x))
    | ["index", v, x] => do addInstr st b (.fieldidx (← vid v) (← vid x))
    | ["extract", v, t, i] => do addInstr st b (.extract (← vid v) (← vid t) (← i.toNat?))
    | ["phi", v, es] => do addInstr st b (.phi (← vid v) (← parseNatList es))
    | ["return", rs] => do addInstr st b (.ret (← parseNatList rs))
    | ["nop", _] => addInstr st b .nop
    | "call" :: mode :: v :: inv :: fnv :: nres :: rest2 => do
      let m ← (match mode with | "call" => some CallMode.call | "defer" => some CallMode.defer | "go" => some CallMode.go | _ => none)
      let n ← nres.toNat?
      if rest2.length ≠ n + 2 then none else
      let rf ← (rest2.take n).mapM parseFlags
      let calleeS := rest2.getD n ""
      let arg0 ← (let a := rest2.getD (n + 1) ""; if a = "-" then some (big + 1) else a.toNat?)
      let id := st.nextCallee
      let (callee, st1) : Callee × PState :=
        if calleeS.startsWith "builtin:" then (.builtin (parseBi (calleeS.drop 8).toString), st)
        else if calleeS.startsWith "local:" then
          (.static id, { st with locals := (id, (calleeS.drop 6).toString) :: st.locals, nextCallee := id + 1 })
        else if calleeS.startsWith "ext:" then
          match ((calleeS.drop 4).toString.splitOn ",").mapM parseVN with
          | some l => (.static id, { st with exts := (id, l) :: st.exts, nextCallee := id + 1 })
          | none => (.unknown, { st with unmodelled := some "bad-ext" })
        else (.unknown, st)
      addInstr st1 b (.call m (← vid v) (← parseBool inv) (← vid fnv) rf callee arg0)
    | _ => none
  | _ => none

def parseFunc (txt : String) : PFunc :=
  let recs := (txt.splitOn " ; ").map tokens
  match recs with
  | ("F" :: name :: hasobj :: nparams :: nres :: fl) :: rest =>
    match parseBool hasobj, nparams.toNat?, nres.toNat?, fl.mapM parseFlags with
    | some ho, some np, some nr, some rf =>
      if rf.length ≠ nr then ⟨name, default, none, none, [], [], some "bad-header"⟩ else
      match rest.foldlM parseRecord ({} : PState) with
      | some st =>
        ⟨name, { hasObj := ho, hasBlocks := st.hasBlocks, rf := rf, vals := st.vals.toList, nparams := np,
                 blocks := st.blocks.toList }, st.unmodelled, st.real, st.locals, st.exts, none⟩
      | none => ⟨name, default, none, none, [], [], some "bad-record"⟩
    | _, _, _, _ => ⟨name, default, none, none, [], [], some "bad-header"⟩
  | _ => ⟨"?", default, none, none, [], [], some "bad-function"⟩

/-! ## interprocedural evaluation in the order of `run`/`impl` -/

structure ESt where
  memo : Array (Option (List VN))   -- exported fact (`ImportObjectFact` succeeds)
  seen : Array Bool                 -- seenFns
  vals : Array (Option (List VN))   -- what the completed `impl` returned
  sols : Array (Option Sol)

/-- static callees of a function of this package in the order of their call instructions. -/
def staticCallees (F : Func) : List Nat :=
  (F.blocks.flatMap (·.instrs)).filterMap (fun i =>
    match i with
    | .call _ _ _ _ _ (.static g) _ => some g
    | _ => none)

def realSumm (p : PFunc) : List VN :=
  match p.real with
  | some l => l
  | none => defaultSumm p.F.rf

/-- `interesting` in `impl`: some pointer-like result is not {MaybeNil MaybeNil}. -/
def interesting (rf : List (Bool × Bool)) (l : List VN) : Bool :=
  (List.range rf.length).any (fun i => (rf.getD i (false, false)).1 && l.getD i VN.top != VN.top)

/-- the summary function seen by one function: its static-callee ids resolved. -/
def mkSumm (p : PFunc) (byName : String → Option Nat) (valOf : Nat → List VN) : Summ := fun g =>
  match p.exts.lookup g with
  | some l => l
  | none =>
    match p.locals.lookup g with
    | some nm => match byName nm with
      | some fid => valOf fid
      | none => []
    | none => []

partial def implM (ps : Array PFunc) (byName : String → Option Nat) (fid : Nat) (st : ESt) : List VN × ESt :=
  match ps[fid]? with
  | none => ([], st)
  | some p =>
    let F := p.F
    let dflt := defaultSumm F.rf
    if F.rf.length = 0 then ([], st)
    else if F.hasObj = false then (dflt, st)
    else match st.memo.getD fid none with
    | some r => (r, st)
    | none =>
      if F.hasBlocks = false then (dflt, st)
      else if st.seen.getD fid false then (dflt, st)
      else
        let st := { st with seen := st.seen.setIfInBounds fid true }
        if F.rf.any (·.1) = false then (dflt, { st with vals := st.vals.setIfInBounds fid (some dflt) })
        else if p.unmodelled.isSome || p.bad.isSome then
          -- outside the model: the real analysis' own answer is used for callers
          let r := realSumm p
          (r, { st with memo := st.memo.setIfInBounds fid (some r) })
        else
          -- callees on first request
          let (env, st) := (staticCallees F).foldl (fun (acc : List (Nat × List VN) × ESt) g =>
              match p.locals.lookup g with
              | none => acc
              | some nm =>
                match byName nm with
                | none => acc
                | some cf =>
                  if (acc.1.lookup cf).isSome then acc
                  else
                    let (r, st') := implM ps byName cf acc.2
                    ((cf, r) :: acc.1, st')) (([] : List (Nat × List VN)), st)
          let summ := mkSumm p byName (fun cf => (env.lookup cf).getD [])
          let sol := solve F summ
          let ret := retNilness F summ sol
          let st := { st with vals := st.vals.setIfInBounds fid (some ret), sols := st.sols.setIfInBounds fid (some sol) }
          let st := if interesting F.rf ret then { st with memo := st.memo.setIfInBounds fid (some ret) } else st
          (ret, st)

def showVNs (l : List VN) : String :=
  ",".intercalate (l.map (fun v => s!"{v.inner.toNat}{v.outer.toNat}"))

def stepPkg (line : String) : String :=
  match line.splitOn " | " with
  | [] => "bad-op"
  | pkg :: fs =>
    let ps := (fs.map parseFunc).toArray
    let names := ps.toList.map (·.name)
    let byName : String → Option Nat := fun nm => let i := names.idxOf nm; if i < names.length then some i else none
    let n := ps.size
    let st0 : ESt := ⟨Array.replicate n none, Array.replicate n false, Array.replicate n none, Array.replicate n none⟩
    let st := (List.range n).foldl (fun st fid => (implM ps byName fid st).2) st0
    -- final summaries
    let valOf : Nat → List VN := fun fid =>
      match ps[fid]? with
      | none => []
      | some p =>
        if p.unmodelled.isSome || p.bad.isSome then realSumm p
        else match st.vals.getD fid none with
        | some r => r
        | none => defaultSumm p.F.rf
    let outs := (List.range n).map (fun fid =>
      match ps[fid]? with
      | none => "F ? bad"
      | some p =>
        match p.bad with
        | some e => s!"F {p.name} {e}"
        | none =>
          match p.unmodelled with
          | some r => s!"F {p.name} unmodelled:{r}"
          | none =>
            match p.real with
            | none => s!"F {p.name} noobj"
            | some real =>
              let model := valOf fid
              let shown := (List.range p.F.rf.length).map (fun i => resultNilness (p.F.rf.getD i (false, false)) model[i]?)
              let cert : Bool :=
                match st.sols.getD fid none with
                | none => true     -- no dataflow was run: the summary is the bail-out default
                | some sol =>
                  let summ := mkSumm p byName valOf
                  let ret := retNilness p.F summ sol
                  wfFunc p.F && checkPost p.F summ sol && ret.length == model.length &&
                    (List.range model.length).all (fun j => leVN (ret.getD j VN.bot) (model.getD j VN.top))
              let status := if p.F.hasBlocks && p.F.analysed && !(wfFunc p.F) then "wf" else "ok"
              s!"F {p.name} {status} real={showVNs real} model={showVNs shown} cert={showBool cert}")
    " | ".intercalate (pkg :: outs)

/-- `S <ptrlike><iface> <inner><outer>`: the decision of sa4023.go for `f() == nil` given what
`Result.Nilness` returned for the compared result. -/
def stepSA (toks : List String) : String :=
  match toks with
  | [fl, vn] =>
    match parseFlags fl, parseVN vn with
    | some f, some v => showBool ((v.outer == .never) && sa4023Flags f (some v))
    | _, _ => "bad-op"
  | _ => "bad-op"

def step (line : String) : String :=
  if line.trimAscii.isEmpty then "bad-op"
  else if line.startsWith "S " then stepSA ((tokens line).drop 1)
  else stepPkg line

end Verif.C15
