import Verif.C15.Driver
def main : IO UInt32 := do
  Verif.Proto.runLines Verif.C15.step
  return 0
