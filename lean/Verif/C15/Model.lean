/-!
C15 — model of `analysis/facts/nilness` (nilness.go) as it is after the `fix:` commits
6315b9e … f462b28.

* `Nl`, `VN`, `mergeN`, `merge`      — `Nilness`, `ValueNilness`, `latticeMerge`, `lattice.Merge`.
* `get` / `set` / `setOuter` / `setInner` — `state.get/set/setOuter/setInner`.  The Go state is a
  slice indexed by a lazily assigned numbering; here it is a function from the value ids of
  the IR dump.  Since commit eaf75cc every value that has a kind default (`Parameter`,
  `Function`, `Global`, `Builtin`) is recorded in the entry state, so "stored value if it is
  not the identity element, else the default of the value's kind" is what `state.get`
  returns for every numbering.
* `transferInstr`                    — one iteration of the `for _, instr := range from.Instrs`
  loop of `processBlock` (all 28 cases of the type switch, `handleReturnValue` included).
* `processBlock`, `processPhis`, `edgeTransfer` — the closures of the same names and the
  transfer function handed to `dense.Forward`.
* `entryState`, `retNilness`, `normalize`, `defaultSumm`, `resultNilness` — the rest of `impl`
  and `Result.Nilness`.
* `solve`                            — a plain round-robin solver (NOT a model of
  `dense.Forward`, which is C13's subject); its output is only used through `checkPost`,
  the executable post-fixpoint test that `Theorems.result_sound` asks for.
* `sa4023Flags`                      — the decision of `staticcheck/sa4023` for `f() == nil`.

Core Lean only (compiled into `c15driver`).
-/
namespace Verif.C15

/-! ## the lattice -/

/-- `nilness.Nilness`; `zero` is the value 0 (`lattice.Ident`). -/
inductive Nl where
  | zero | never | always | mglobal | maybe
  deriving DecidableEq, Repr, Inhabited

def Nl.toNat : Nl → Nat
  | .zero => 0 | .never => 1 | .always => 2 | .mglobal => 3 | .maybe => 4

def Nl.ofNat? : Nat → Option Nl
  | 0 => some .zero | 1 => some .never | 2 => some .always | 3 => some .mglobal | 4 => some .maybe
  | _ => none

/-- `latticeMerge[a][b]`. -/
def mergeN : Nl → Nl → Nl
  | .zero, b => b
  | a, .zero => a
  | .never, .never => .never
  | .never, .always => .maybe
  | .never, .mglobal => .mglobal
  | .never, .maybe => .maybe
  | .always, .never => .maybe
  | .always, .always => .always
  | .always, .mglobal => .maybe
  | .always, .maybe => .maybe
  | .mglobal, .never => .mglobal
  | .mglobal, .always => .maybe
  | .mglobal, .mglobal => .mglobal
  | .mglobal, .maybe => .maybe
  | .maybe, _ => .maybe

/-- `ValueNilness`. -/
structure VN where
  inner : Nl
  outer : Nl
  deriving DecidableEq, Repr, Inhabited

def VN.bot : VN := ⟨.zero, .zero⟩
def VN.top : VN := ⟨.maybe, .maybe⟩

/-- `lattice.Merge`. -/
def merge (a b : VN) : VN := ⟨mergeN a.inner b.inner, mergeN a.outer b.outer⟩

/-- `a ⊑ b` in the order induced by `Merge`. -/
def leN (a b : Nl) : Bool := mergeN a b == b
def leVN (a b : VN) : Bool := leN a.inner b.inner && leN a.outer b.outer

/-- `normalize`. -/
def normalize (v : VN) (isIface : Bool) : VN :=
  ⟨if v.inner = .zero ∨ isIface = false then .maybe else v.inner,
   if v.outer = .zero then .maybe else v.outer⟩

/-! ## the IR subset -/

inductive VKind where
  | instr | param | freevar | builtin | func | global
  | constnil    -- *ir.Const with Value == nil
  | constz      -- *ir.Const, integer value 0
  | constnz     -- *ir.Const, integer value ≠ 0
  | constother  -- any other *ir.Const
  | aggconst | other
  deriving DecidableEq, Repr, Inhabited

/-- what the analysis asks about the type of a value: `typeutil.IsPointerLike`, `types.IsInterface`. -/
structure VInfo where
  kind : VKind
  ptr : Bool
  iface : Bool
  deriving DecidableEq, Repr, Inhabited

inductive BinK where
  | eq | ne | other
  deriving DecidableEq, Repr, Inhabited

inductive CallMode where
  | call | defer | go
  deriving DecidableEq, Repr, Inhabited

/-- the builtins `handleReturnValue` knows. -/
inductive Bi where
  | append | unsafeSlice | unsafeSliceData | unsafeStringData | unsafeAdd | recover
  | deferstack | wrapnilchk
  | other       -- any other builtin (none of them has a pointer-like result)
  deriving DecidableEq, Repr, Inhabited

inductive Callee where
  | builtin (b : Bi)
  | static (g : Nat)      -- `StaticCallee()` with a summary (`impl(pass, callee, seenFns)`)
  | unknown               -- dynamic call, closure, interface method
  deriving DecidableEq, Repr, Inhabited

/-- One case of the type switch in `processBlock`. Fields `v` = the instruction's own value. -/
inductive Instr where
  | convert (v x : Nat) (fromInt : Bool)          -- *ir.Convert; fromInt = `fromInteger(v.X.Type())`
  | copy (v x : Nat)                               -- *ir.ChangeType, *ir.ChangeInterface
  | s2ap (v x : Nat) (nz : Bool)                   -- *ir.SliceToArrayPointer; nz = allNonZero
  | s2a (v x : Nat) (nz : Bool)                    -- *ir.SliceToArray
  | slice (v x : Nat) (isArr nzb : Bool)           -- *ir.Slice; isArr: X is an array; nzb: some bound is a non-zero constant
  | iff (c : Nat)                                  -- *ir.If
  | binop (v : Nat) (op : BinK) (x y : Nat)        -- *ir.BinOp (no effect; looked up by `iff`)
  | load (v x : Nat)                               -- *ir.Load
  | addr (v x : Nat)                               -- *ir.FieldAddr, *ir.IndexAddr
  | alloc (v : Nat)                                -- *ir.Alloc, MakeMap, MakeSlice, MakeClosure, MakeChan
  | useNN (x : Nat)                                -- *ir.MapUpdate, *ir.Store, *ir.Send, blocking one-state *ir.Select
  | call (mode : CallMode) (v : Nat) (invoke : Bool) (fnval : Nat) (rf : List (Bool × Bool))
         (callee : Callee) (arg0 : Nat)            -- ir.CallInstruction; rf = (IsPointerLike, IsInterface) per result
  | recv (v ch : Nat)                              -- *ir.Recv
  | makeiface (v x : Nat)                          -- *ir.MakeInterface
  | typeassert (v x : Nat) (commaok toIface : Bool) -- *ir.TypeAssert
  | typeswitch (v tag : Nat) (conds : List Bool)   -- *ir.TypeSwitch; per cond: is it the untyped nil
  | maplookup (v x : Nat)                          -- *ir.MapLookup
  | fieldidx (v x : Nat)                           -- *ir.Field, *ir.Index
  | extract (v tuple idx : Nat)                    -- *ir.Extract
  | phi (v : Nat) (edges : List Nat)               -- *ir.Phi (processPhis)
  | ret (rs : List Nat)                            -- *ir.Return
  | nop                                            -- DebugRef, Jump, BlankStore, Panic, RunDefers, Unreachable, ConstantSwitch, UnOp, CompositeValue, Range, Next, non-blocking Select
  deriving DecidableEq, Repr, Inhabited

/-- the value an instruction defines. -/
def Instr.defines : Instr → Option Nat
  | .convert v _ _ | .copy v _ | .s2ap v _ _ | .s2a v _ _ | .slice v _ _ _ | .binop v _ _ _
  | .load v _ | .addr v _ | .alloc v | .recv v _ | .makeiface v _ | .typeassert v _ _ _
  | .typeswitch v _ _ | .maplookup v _ | .fieldidx v _ | .extract v _ _ | .phi v _ => some v
  | .call _ v _ _ _ _ _ => some v
  | _ => none

structure Block where
  instrs : List Instr
  succs : List Nat
  preds : List Nat
  deriving Repr, Inhabited

structure Func where
  hasObj : Bool                 -- fn.Object() != nil
  hasBlocks : Bool              -- fn.Blocks != nil
  rf : List (Bool × Bool)       -- per result: IsPointerLike, IsInterface
  vals : List VInfo             -- value table, id = position
  nparams : Nat                 -- values 0..nparams-1 are fn.Params
  blocks : List Block
  deriving Repr, Inhabited

def Func.info (F : Func) (v : Nat) : VInfo := F.vals.getD v ⟨.other, false, false⟩
def Func.block (F : Func) (b : Nat) : Block := F.blocks.getD b ⟨[], [], []⟩
def Func.nv (F : Func) : Nat := F.vals.length

/-- the instruction defining value `v` (`v.(*ir.BinOp)`, `v.Tuple.(type)`). -/
def Func.defOf (F : Func) (v : Nat) : Option Instr :=
  (F.blocks.flatMap (·.instrs)).find? (fun i => i.defines == some v)

/-! ## state -/

/-- `state.m`: a dense list indexed by value id; positions beyond the end read as the identity
element (the Go slice is extended on demand in the same way). -/
abbrev State := List VN

def State.bot : State := []

def lget : List VN → Nat → VN
  | [], _ => VN.bot
  | x :: _, 0 => x
  | _ :: xs, n + 1 => lget xs n

/-- `s.m[num] = value`, extending the slice with identity elements if necessary. -/
def upd : List VN → Nat → VN → List VN
  | [], 0, x => [x]
  | [], n + 1, x => VN.bot :: upd [] n x
  | _ :: xs, 0, x => x :: xs
  | y :: xs, n + 1, x => y :: upd xs n x

/-- the `switch v.(type)` at the end of `state.get`. -/
def kindDefault : VKind → VN
  | .param => ⟨.maybe, .maybe⟩
  | .freevar => ⟨.maybe, .maybe⟩
  | .builtin => ⟨.zero, .never⟩
  | .func => ⟨.zero, .never⟩
  | .global => ⟨.zero, .never⟩
  | _ => VN.bot

/-- `state.get`. -/
def get (F : Func) (s : State) (v : Nat) : VN :=
  if (F.info v).ptr = false then ⟨.zero, .never⟩
  else if lget s v = VN.bot then kindDefault (F.info v).kind
  else lget s v

/-- `state.set`. -/
def set (F : Func) (s : State) (v : Nat) (x : VN) : State :=
  if (F.info v).ptr = false then s
  else if x = VN.bot then s
  else upd s v x

/-- `state.setOuter`. -/
def setOuter (F : Func) (s : State) (v : Nat) (o : Nl) : State :=
  if (F.info v).ptr = false then s
  else if o = .zero then s
  else upd s v ⟨(get F s v).inner, o⟩

/-- `state.setInner`. -/
def setInner (F : Func) (s : State) (v : Nat) (i : Nl) : State :=
  if (F.info v).ptr = false then s
  else if i = .zero then s
  else upd s v ⟨i, (get F s v).outer⟩

/-! ## transfer -/

/-- `impl(pass, callee, seenFns)` for every function a static call can reach. -/
abbrev Summ := Nat → List VN

/-- `handleReturnValue(v, call, idx)`. -/
def handleRet (F : Func) (summ : Summ) (s : State) (v : Nat) (rf : List (Bool × Bool))
    (callee : Callee) (arg0 : Nat) (idx : Nat) : State :=
  match rf[idx]? with
  | none => s
  | some (p, isIf) =>
    if p = false then setOuter F s v .never
    else match callee with
    | .builtin .append =>
      match (get F s arg0).outer with
      | .maybe => setOuter F s v .maybe
      | .mglobal => setOuter F s v .mglobal
      | .never => setOuter F s v .never
      | .always => setOuter F s v .maybe
      | .zero => s
    | .builtin .unsafeSlice => set F s v (get F s arg0)
    | .builtin .unsafeSliceData => set F s v (get F s arg0)
    | .builtin .unsafeStringData => setOuter F s v .maybe
    | .builtin .unsafeAdd => setOuter F s v .maybe
    | .builtin .recover => set F s v VN.top
    | .builtin .deferstack => setOuter F s v .never
    | .builtin .wrapnilchk => setOuter F s v .never
    | .builtin .other => s      -- the Go code panics ("unhandled builtin"); `wfFunc` rejects this
    | .static g =>
      match (summ g)[idx]? with
      | some r => set F s v (normalize r isIf)
      | none => set F s v VN.top
    | .unknown => set F s v VN.top

/-- the operand an `If` on `cond` tells something about: `(target, op)` when `cond` is a
`BinOp` with a nil constant on one side. -/
def ifTarget (F : Func) (c : Nat) : Option (Nat × BinK) :=
  match F.defOf c with
  | some (.binop _ op x y) =>
    if (F.info x).kind = .constnil then some (y, op)
    else if (F.info y).kind = .constnil then some (x, op)
    else none
  | _ => none

/-- One iteration of the loop over `from.Instrs` in `processBlock(from, to, s)`.
`onTrue` = `to == from.Succs[0]`. -/
def transferInstr (F : Func) (summ : Summ) (onTrue : Bool) (s : State) : Instr → State
  | .convert v x fromInt =>
    if fromInt then set F s v VN.top else set F s v (get F s x)
  | .copy v x => set F s v (get F s x)
  | .s2ap v x nz =>
    if nz then setOuter F (setOuter F s v .never) x .never else set F s v (get F s x)
  | .s2a _ x nz => if nz then setOuter F s x .never else s
  | .slice v x isArr nzb =>
    if isArr then setOuter F s v .never
    else if nzb then setOuter F (setOuter F s v .never) x .never
    else set F s v (get F s x)
  | .iff c =>
    match ifTarget F c with
    | none => s
    | some (t, op) =>
      -- `if to != from.Succs[0] { negate op }`
      let op' := if onTrue then op else (match op with | .eq => .ne | .ne => .eq | .other => .other)
      match op' with
      | .eq => set F s t ⟨.always, .always⟩
      | .ne => setOuter F s t .never
      | .other => s           -- the Go code panics ("unhandled token"); `wfFunc` rejects this
  | .binop _ _ _ _ => s
  | .load v x =>
    let s1 := if (F.info x).kind = .global then set F s v ⟨.maybe, .mglobal⟩ else set F s v ⟨.maybe, .maybe⟩
    setOuter F s1 x .never
  | .addr v x => setOuter F (setOuter F s x .never) v .never
  | .alloc v => setOuter F s v .never
  | .useNN x => setOuter F s x .never
  | .call mode v invoke fnval rf callee arg0 =>
    let s1 := if invoke = false then setOuter F s fnval .never else s
    match mode with
    | .call => if rf.length = 1 then handleRet F summ s1 v rf callee arg0 0 else s1
    | _ => s1
  | .recv v ch => set F (setOuter F s ch .never) v VN.top
  | .makeiface v x => set F s v ⟨(get F s x).outer, .never⟩
  | .typeassert v x commaok toIface =>
    if commaok then s
    else
      let s1 := setOuter F s x .never
      if toIface then
        let s2 := setOuter F s1 v .never
        setInner F s2 v (get F s2 x).inner
      else setOuter F s1 v (get F s1 x).inner
  | .typeswitch _ _ _ => s
  | .maplookup v x =>
    if (get F s x).outer = .always then set F s v ⟨.always, .always⟩ else set F s v VN.top
  | .fieldidx v x => set F (set F s x ⟨.never, .never⟩) v VN.top
  | .extract v tuple idx =>
    match F.defOf tuple with
    | some (.typeassert _ _ _ _) => if idx = 0 then set F s v VN.top else s
    | some (.call _ _ _ _ rf callee arg0) => handleRet F summ s v rf callee arg0 idx
    | some (.typeswitch _ tag conds) =>
      if idx = 0 then s
      else
        let k := idx - 1
        match conds[k]? with
        | none =>
          -- default branch
          let s1 := if conds.any id then setOuter F s tag .never else setOuter F s tag .maybe
          set F s1 v (get F s1 tag)
        | some true => set F s v ⟨.always, .always⟩
        | some false =>
          let s1 := setOuter F s tag .never
          if (F.info v).iface then
            let s2 := setInner F s1 v (get F s1 tag).inner
            setOuter F s2 v .never
          else setOuter F s1 v (get F s1 tag).inner
    | _ => set F s v VN.top
  | .phi _ _ => s
  | .ret _ => s
  | .nop => s

/-- `processBlock(from, to, s)`. -/
def processBlock (F : Func) (summ : Summ) (onTrue : Bool) (instrs : List Instr) (s : State) : State :=
  instrs.foldl (transferInstr F summ onTrue) s

/-- the leading phis of a block with their `i`-th edge. -/
def phiPairs (i : Nat) : List Instr → List (Nat × Nat)
  | .phi v es :: rest =>
    match es[i]? with
    | some e => (v, e) :: phiPairs i rest
    | none => phiPairs i rest      -- `instr.Edges[i]` out of range: the Go code panics
  | _ => []

/-- `processPhis(b, i, s)`: all edge values are read first, then the phis are set. -/
def processPhis (F : Func) (instrs : List Instr) (i : Nat) (s : State) : State :=
  let ps := phiPairs i instrs
  let vals := ps.map (fun p => (p.1, get F s p.2))
  vals.foldl (fun acc p => set F acc p.1 p.2) s

/-- `slices.Index(to.Preds, from)`. -/
def predIndex (preds : List Nat) (b : Nat) : Nat := preds.idxOf b

/-- the transfer function given to `dense.Forward`, for the `k`-th out-edge of `b`. -/
def edgeTransfer (F : Func) (summ : Summ) (b k : Nat) (s : State) : State :=
  let blk := F.block b
  let t := blk.succs.getD k 0
  let onTrue := t == blk.succs.getD 0 0
  let s1 := processBlock F summ onTrue blk.instrs s
  processPhis F (F.block t).instrs (predIndex (F.block t).preds b) s1

/-- the state `impl` builds before calling `dense.Forward` (`entrys`). -/
def entryVal (i : VInfo) : VN :=
  if i.ptr = false then VN.bot
  else match i.kind with
  | .param => ⟨.maybe, .maybe⟩
  | .builtin | .func | .global => ⟨.zero, .never⟩
  | .constnil => ⟨.always, .always⟩
  | .constnz => ⟨.maybe, .never⟩
  | .constz => ⟨.maybe, .always⟩
  | .constother => ⟨.maybe, .maybe⟩
  | _ => VN.bot

def entryState (F : Func) : State := F.vals.map entryVal

/-- `defaultNilnessForSignature`. -/
def defaultSumm (rf : List (Bool × Bool)) : List VN :=
  rf.map (fun r => if r.1 then VN.top else ⟨.never, .never⟩)

/-- a block-indexed family of states (the `In` facts of the dataflow result). -/
abbrev Sol := List State

def Sol.at (sol : Sol) (b : Nat) : State := sol.getD b []

/-- the blocks that end in a `Return` (`fn.Returns()`), with the returned values. -/
def Func.returns (F : Func) : List (Nat × List Nat) :=
  (List.range F.blocks.length).filterMap (fun b =>
    match (F.block b).instrs.getLast? with
    | some (.ret rs) => some (b, rs)
    | _ => none)

/-- the loop over `fn.Returns()` and the final normalisation of `impl`. -/
def retNilness (F : Func) (summ : Summ) (sol : Sol) : List VN :=
  let raw := F.returns.foldl (fun acc br =>
      let s := processBlock F summ false (F.block br.1).instrs (sol.at br.1)
      (List.range F.rf.length).map (fun i => merge (acc.getD i VN.bot) (get F s (br.2.getD i 0))))
    (F.rf.map (fun _ => VN.bot))
  (List.range F.rf.length).map (fun i =>
    let r := F.rf.getD i (false, false)
    if r.1 = false then ⟨.never, .never⟩ else normalize (raw.getD i VN.bot) r.2)

/-- `Result.Nilness(fn, ret)` for a function whose `impl` value is `summ`. -/
def resultNilness (rf : Bool × Bool) (summ : Option VN) : VN :=
  if rf.1 = false then ⟨.zero, .never⟩
  else match summ with
  | none => VN.top
  | some v => normalize v rf.2

/-! ## well-formedness assumed by the soundness theorem (and checked by the driver on every dump) -/

/-- the values an instruction reads. -/
def Instr.uses : Instr → List Nat
  | .convert _ x _ | .copy _ x | .s2ap _ x _ | .s2a _ x _ | .slice _ x _ _ | .load _ x | .addr _ x
  | .recv _ x | .makeiface _ x | .typeassert _ x _ _ | .typeswitch _ x _ | .maplookup _ x
  | .fieldidx _ x => [x]
  | .extract _ t _ => [t]
  | .iff c => [c]
  | .binop _ _ x y => [x, y]
  | .alloc _ => []
  | .useNN x => [x]
  | .call _ _ _ f _ _ a => [f, a]
  | .phi _ es => es
  | .ret rs => rs
  | .nop => []

def flagsOf (F : Func) (v : Nat) : Bool × Bool := ((F.info v).ptr, (F.info v).iface)

/-- `handleReturnValue` panics on a builtin it does not know; none of them has a pointer-like result. -/
def calleeOk (rf : List (Bool × Bool)) (callee : Callee) : Bool :=
  callee != .builtin .other || rf.all (fun r => r.1 == false)

def instrOk (F : Func) (i : Instr) : Bool :=
  -- an instruction does not read its own value (phis are evaluated on edges)
  (match i with
   | .phi _ _ => true
   | _ => match i.defines with
     | some v => i.uses.all (· != v)
     | none => true) &&
  (match i with
   | .call _ v _ _ rf callee _ => calleeOk rf callee && (rf.length != 1 || rf[0]? == some (flagsOf F v))
   -- the `If` case panics on a comparison with nil that is neither == nor !=
   | .iff c => (match ifTarget F c with | some (_, .other) => false | _ => true)
   | .fieldidx _ x => !(F.info x).ptr
   | .phi v es => es.all (fun e => (F.info e).ptr == (F.info v).ptr)
   -- typing facts of the IR the soundness proof uses: conversions and slicing never yield interfaces,
   -- slicing a pointer-like value yields a slice
   | .convert v _ _ => !(F.info v).iface
   | .slice v x _ _ => !(F.info v).iface && ((F.info v).ptr || !(F.info x).ptr)
   | .extract v t idx =>
     (match F.defOf t with
      | some (.call _ _ _ _ rf callee _) => calleeOk rf callee && rf[idx]? == some (flagsOf F v)
      | some (.typeswitch _ tag _) => tag != v
      | some (.typeassert _ _ _ _) => idx == 0 || !(F.info v).ptr   -- index 1 is the `ok` boolean
      | _ => true)
   | _ => true)

def blockOk (F : Func) (b : Block) : Bool :=
  b.instrs.all (instrOk F) &&
  -- the two successors of an `If` differ (`to != from.Succs[0]` identifies the false branch)
  b.instrs.all (fun i => match i with
    | .iff _ => b.succs.getD 0 0 != b.succs.getD 1 0
    | _ => true)

def wfFunc (F : Func) : Bool := F.blocks.all (blockOk F)

/-! ## post-fixpoint test -/

/-- pointwise `⊑` of two states (missing positions are the identity element). -/
def leState : State → State → Bool
  | [], _ => true
  | x :: xs, [] => leVN x VN.bot && leState xs []
  | x :: xs, y :: ys => leVN x y && leState xs ys

/-- `sol` is a post-fixpoint of the flow equations of `F`: the entry state is below `sol 0`
and every edge's transfer of its source is below its target. -/
def checkPost (F : Func) (summ : Summ) (sol : Sol) : Bool :=
  leState (entryState F) (sol.at 0) &&
  (List.range F.blocks.length).all (fun b =>
    (List.range (F.block b).succs.length).all (fun k =>
      leState (edgeTransfer F summ b k (sol.at b)) (sol.at ((F.block b).succs.getD k 0))))

/-! ## a solver (round robin with accumulating merges) -/

/-- `DenseMapLattice.Merge`. -/
def mergeState : State → State → State
  | [], b => b
  | a, [] => a
  | x :: xs, y :: ys => merge x y :: mergeState xs ys

def sweep (F : Func) (summ : Summ) (sol : Array State) : Array State × Bool :=
  (List.range F.blocks.length).foldl (fun (acc : Array State × Bool) b =>
    (List.range (F.block b).succs.length).foldl (fun (acc : Array State × Bool) k =>
      let t := (F.block b).succs.getD k 0
      let out := edgeTransfer F summ b k (acc.1.getD b [])
      let old := acc.1.getD t []
      if leState out old then acc
      else (acc.1.setIfInBounds t (mergeState old out), true)) acc) (sol, false)

def solveLoop (F : Func) (summ : Summ) : Nat → Array State → Array State
  | 0, sol => sol
  | fuel + 1, sol =>
    let r := sweep F summ sol
    if r.2 then solveLoop F summ fuel r.1 else r.1

def solve (F : Func) (summ : Summ) : Sol :=
  let init : Array State := (Array.replicate F.blocks.length []).setIfInBounds 0 (entryState F)
  (solveLoop F summ (6 * F.nv * F.blocks.length + 16) init).toList

/-- does `impl` run the dataflow at all (`anyPointers`, `fn.Blocks != nil`, `fn.Object() != nil`)? -/
def Func.analysed (F : Func) : Bool :=
  F.hasObj && F.hasBlocks && F.rf.any (·.1) && decide (0 < F.rf.length)

/-! ## SA4023 -/

/-- `nillity.Outer == nilness.NeverNil` in sa4023.go: the comparison `f() == nil` is reported. -/
def sa4023Flags (rf : Bool × Bool) (summ : Option VN) : Bool :=
  (resultNilness rf summ).outer == .never

end Verif.C15
