import Verif.C15.Sem
/-!
C15 — helper lemmas: the lattice, the state operations, `descr`.
-/
namespace Verif.C15

/-! ## lattice -/

theorem gammaN_mergeN_left (a b : Nl) (n : Bool) (h : gammaN a n) : gammaN (mergeN a b) n := by
  cases a <;> cases b <;> simp_all [gammaN, mergeN]

theorem gammaN_mergeN_right (a b : Nl) (n : Bool) (h : gammaN b n) : gammaN (mergeN a b) n := by
  cases a <;> cases b <;> simp_all [gammaN, mergeN]

theorem gamma_merge_left (a b : VN) (x : SVal) (h : gamma a x) : gamma (merge a b) x := by
  obtain ⟨h1, h2⟩ := h
  refine ⟨gammaN_mergeN_left _ _ _ h1, ?_⟩
  cases x with
  | iface h => cases h with
    | some n => exact gammaN_mergeN_left _ _ _ h2
    | none => trivial
  | _ => trivial

theorem gamma_merge_right (a b : VN) (x : SVal) (h : gamma b x) : gamma (merge a b) x := by
  obtain ⟨h1, h2⟩ := h
  refine ⟨gammaN_mergeN_right _ _ _ h1, ?_⟩
  cases x with
  | iface h => cases h with
    | some n => exact gammaN_mergeN_right _ _ _ h2
    | none => trivial
  | _ => trivial

theorem gammaN_leN (a b : Nl) (n : Bool) (hle : leN a b = true) (h : gammaN a n) : gammaN b n := by
  cases a <;> cases b <;> simp_all [gammaN, mergeN, leN]

theorem gamma_leVN (a b : VN) (x : SVal) (hle : leVN a b = true) (h : gamma a x) : gamma b x := by
  simp only [leVN, Bool.and_eq_true] at hle
  obtain ⟨h1, h2⟩ := h
  refine ⟨gammaN_leN _ _ _ hle.2 h1, ?_⟩
  cases x with
  | iface h => cases h with
    | some n => exact gammaN_leN _ _ _ hle.1 h2
    | none => trivial
  | _ => trivial

theorem gammaC_leVN (a b : VN) (c : CVal) (hle : leVN a b = true) (h : gammaC a c) : gammaC b c := by
  cases c with
  | sc x => exact gamma_leVN a b x hle h
  | _ => trivial

theorem gamma_bot (x : SVal) : ¬ gamma VN.bot x := by
  intro h; exact h.1

theorem gamma_top (x : SVal) : gamma VN.top x := by
  refine ⟨trivial, ?_⟩
  cases x with
  | iface h => cases h <;> trivial
  | _ => trivial

theorem gammaN_normalize_outer (o : Nl) (n : Bool) (h : gammaN o n) :
    gammaN (if o = .zero then .maybe else o) n := by
  cases o <;> simp_all [gammaN]

theorem gamma_normalize (v : VN) (isIf : Bool) (x : SVal) (h : gamma v x) : gamma (normalize v isIf) x := by
  obtain ⟨h1, h2⟩ := h
  refine ⟨gammaN_normalize_outer _ _ h1, ?_⟩
  cases x with
  | iface hh => cases hh with
    | some n =>
      show gammaN (normalize v isIf).inner n
      simp only [normalize]
      split
      · trivial
      · exact h2
    | none => trivial
  | _ => trivial

theorem leVN_bot (x : VN) : leVN VN.bot x = true := by
  cases x with | mk i o => cases i <;> cases o <;> rfl

theorem leVN_refl (x : VN) : leVN x x = true := by
  cases x with | mk i o => cases i <;> cases o <;> rfl

/-! ## lists as states -/

theorem lget_nil (v : Nat) : lget [] v = VN.bot := by
  cases v <;> rfl

theorem lget_upd (l : List VN) (v w : Nat) (x : VN) :
    lget (upd l v x) w = if w = v then x else lget l w := by
  induction l generalizing v w with
  | nil =>
    induction v generalizing w with
    | zero => cases w <;> simp [upd, lget]
    | succ n ih =>
      cases w with
      | zero => simp [upd, lget]
      | succ m => simp [upd, lget, ih]
  | cons y ys ih =>
    cases v with
    | zero => cases w <;> simp [upd, lget]
    | succ n =>
      cases w with
      | zero => simp [upd, lget]
      | succ m => simp [upd, lget, ih]

theorem leState_lget (a b : State) (h : leState a b = true) (v : Nat) :
    leVN (lget a v) (lget b v) = true := by
  induction a generalizing b v with
  | nil => rw [lget_nil]; exact leVN_bot _
  | cons x xs ih =>
    cases b with
    | nil =>
      simp only [leState, Bool.and_eq_true] at h
      cases v with
      | zero => simpa [lget] using h.1
      | succ n => simpa [lget, lget_nil] using ih [] h.2 n
    | cons y ys =>
      simp only [leState, Bool.and_eq_true] at h
      cases v with
      | zero => simpa [lget] using h.1
      | succ n => simpa [lget] using ih ys h.2 n

/-! ## state operations -/

theorem get_nonptr (F : Func) (s : State) (v : Nat) (h : (F.info v).ptr = false) :
    get F s v = ⟨.zero, .never⟩ := by
  simp [get, h]

theorem get_upd_same (F : Func) (s : State) (v : Nat) (x : VN) (hp : (F.info v).ptr = true)
    (hx : x ≠ VN.bot) : get F (upd s v x) v = x := by
  simp [get, hp, lget_upd, hx]

theorem get_upd_other (F : Func) (s : State) (v w : Nat) (x : VN) (hw : w ≠ v) :
    get F (upd s v x) w = get F s w := by
  simp [get, lget_upd, hw]

theorem get_set (F : Func) (s : State) (v w : Nat) (x : VN) :
    get F (set F s v x) w =
      if w = v ∧ (F.info v).ptr = true ∧ x ≠ VN.bot then x else get F s w := by
  unfold set
  by_cases hp : (F.info v).ptr = false
  · simp [hp]
  · have hp' : (F.info v).ptr = true := by simpa using hp
    by_cases hx : x = VN.bot
    · simp [hp', hx]
    · simp only [hp', hx, if_false, Bool.true_eq_false]
      by_cases hw : w = v
      · subst hw
        rw [get_upd_same F s w x hp' hx]; simp [hx]
      · rw [get_upd_other F s v w x hw]; simp [hw]

theorem get_setOuter (F : Func) (s : State) (v w : Nat) (o : Nl) :
    get F (setOuter F s v o) w =
      if w = v ∧ (F.info v).ptr = true ∧ o ≠ .zero then ⟨(get F s v).inner, o⟩ else get F s w := by
  unfold setOuter
  by_cases hp : (F.info v).ptr = false
  · simp [hp]
  · have hp' : (F.info v).ptr = true := by simpa using hp
    by_cases ho : o = .zero
    · simp [hp', ho]
    · simp only [hp', ho, if_false, Bool.true_eq_false]
      by_cases hw : w = v
      · subst hw
        have hne : (⟨(get F s w).inner, o⟩ : VN) ≠ VN.bot := by
          intro h; apply ho; simpa [VN.bot] using congrArg VN.outer h
        rw [get_upd_same F s w _ hp' hne]; simp [ho]
      · rw [get_upd_other F s v w _ hw]; simp [hw]

theorem get_setInner (F : Func) (s : State) (v w : Nat) (i : Nl) :
    get F (setInner F s v i) w =
      if w = v ∧ (F.info v).ptr = true ∧ i ≠ .zero then ⟨i, (get F s v).outer⟩ else get F s w := by
  unfold setInner
  by_cases hp : (F.info v).ptr = false
  · simp [hp]
  · have hp' : (F.info v).ptr = true := by simpa using hp
    by_cases hi : i = .zero
    · simp [hp', hi]
    · simp only [hp', hi, if_false, Bool.true_eq_false]
      by_cases hw : w = v
      · subst hw
        have hne : (⟨i, (get F s w).outer⟩ : VN) ≠ VN.bot := by
          intro h; apply hi; simpa [VN.bot] using congrArg VN.inner h
        rw [get_upd_same F s w _ hp' hne]; simp [hi]
      · rw [get_upd_other F s v w _ hw]; simp [hw]


theorem getRaw_nonptr (F : Func) (s : State) (v : Nat) (h : (F.info v).ptr = false) :
    getRaw F s v = ⟨.zero, .never⟩ := by
  simp [getRaw, h]

theorem getRaw_upd_same (F : Func) (s : State) (v : Nat) (x : VN) (hp : (F.info v).ptr = true) :
    getRaw F (upd s v x) v = x := by
  simp [getRaw, hp, lget_upd]

theorem getRaw_upd_other (F : Func) (s : State) (v w : Nat) (x : VN) (hw : w ≠ v) :
    getRaw F (upd s v x) w = getRaw F s w := by
  simp [getRaw, lget_upd, hw]

theorem getRaw_set (F : Func) (s : State) (v w : Nat) (x : VN) :
    getRaw F (set F s v x) w =
      if w = v ∧ (F.info v).ptr = true ∧ x ≠ VN.bot then x else getRaw F s w := by
  unfold set
  by_cases hp : (F.info v).ptr = false
  · simp [hp]
  · have hp' : (F.info v).ptr = true := by simpa using hp
    by_cases hx : x = VN.bot
    · simp [hp', hx]
    · simp only [hp', hx, if_false, Bool.true_eq_false]
      by_cases hw : w = v
      · subst hw
        rw [getRaw_upd_same F s w x hp']; simp [hx]
      · rw [getRaw_upd_other F s v w x hw]; simp [hw]

theorem getRaw_setOuter (F : Func) (s : State) (v w : Nat) (o : Nl) :
    getRaw F (setOuter F s v o) w =
      if w = v ∧ (F.info v).ptr = true ∧ o ≠ .zero then ⟨(get F s v).inner, o⟩ else getRaw F s w := by
  unfold setOuter
  by_cases hp : (F.info v).ptr = false
  · simp [hp]
  · have hp' : (F.info v).ptr = true := by simpa using hp
    by_cases ho : o = .zero
    · simp [hp', ho]
    · simp only [hp', ho, if_false, Bool.true_eq_false]
      by_cases hw : w = v
      · subst hw
        rw [getRaw_upd_same F s w _ hp']; simp [ho]
      · rw [getRaw_upd_other F s v w _ hw]; simp [hw]

theorem getRaw_setInner (F : Func) (s : State) (v w : Nat) (i : Nl) :
    getRaw F (setInner F s v i) w =
      if w = v ∧ (F.info v).ptr = true ∧ i ≠ .zero then ⟨i, (get F s v).outer⟩ else getRaw F s w := by
  unfold setInner
  by_cases hp : (F.info v).ptr = false
  · simp [hp]
  · have hp' : (F.info v).ptr = true := by simpa using hp
    by_cases hi : i = .zero
    · simp [hp', hi]
    · simp only [hp', hi, if_false, Bool.true_eq_false]
      by_cases hw : w = v
      · subst hw
        rw [getRaw_upd_same F s w _ hp']; simp [hi]
      · rw [getRaw_upd_other F s v w _ hw]; simp [hw]

/-! ## `γ` on particular shapes -/

theorem gamma_nonptr_np : gamma ⟨.zero, .never⟩ .np := ⟨rfl, trivial⟩

theorem gamma_ptr (i o : Nl) (n : Bool) : gamma ⟨i, o⟩ (.ptr n) ↔ gammaN o n := by
  simp [gamma, outerNil]

theorem gamma_np (i o : Nl) : gamma ⟨i, o⟩ .np ↔ gammaN o false := by
  simp [gamma, outerNil]

theorem gamma_iface_some (i o : Nl) (h : Bool) : gamma ⟨i, o⟩ (.iface (some h)) ↔ gammaN o false ∧ gammaN i h := by
  simp [gamma, outerNil]

theorem gamma_iface_none (i o : Nl) : gamma ⟨i, o⟩ (.iface none) ↔ gammaN o true := by
  simp [gamma, outerNil]

theorem gamma_outer (vn : VN) (x : SVal) (h : gamma vn x) : gammaN vn.outer (outerNil x) := h.1

/-- replacing Outer by something that also describes the value. -/
theorem gamma_withOuter (vn : VN) (o : Nl) (x : SVal) (h : gamma vn x) (ho : gammaN o (outerNil x)) :
    gamma ⟨vn.inner, o⟩ x := by
  refine ⟨ho, ?_⟩
  cases x with
  | iface hh => cases hh with
    | some n => exact h.2
    | none => trivial
  | _ => trivial

theorem okS_nonptr (fl : Bool × Bool) (x : SVal) (hfl : fl.1 = false) (h : okS fl x) : x = .np := by
  cases x <;> simp_all [okS]

theorem gammaC_nonptr (fl : Bool × Bool) (c : CVal) (hfl : fl.1 = false) (h : okC fl c) :
    gammaC ⟨.zero, .never⟩ c := by
  cases c with
  | sc x => have := okS_nonptr fl x hfl h; subst this; exact gamma_nonptr_np
  | _ => trivial

/-- whatever the recorded entry describes, `state.get` describes as well (it only differs
when nothing is recorded). -/
theorem gammaC_get_of_raw (F : Func) (s : State) (v : Nat) (c : CVal) (h : gammaC (getRaw F s v) c) :
    gammaC (get F s v) c := by
  unfold getRaw at h
  unfold get
  by_cases hp : (F.info v).ptr = false
  · simpa [hp] using h
  · simp only [hp, if_false] at h ⊢
    by_cases hb : lget s v = VN.bot
    · rw [hb] at h
      cases c with
      | sc x => exact absurd h (gamma_bot x)
      | _ => trivial
    · simpa [hb] using h

/-! ## `descr` -/

theorem descr_rd (F : Func) (s : State) (env : Env) (x : Nat) (c : CVal) (h : descr F s env)
    (hr : rd F env x = some c) : gammaC (get F s x) c := by
  unfold rd at hr
  split at hr
  · next c' hc =>
    have hcc : c' = c := by simpa using hr
    subst hcc; exact gammaC_get_of_raw F s x _ (h x _ hc)
  · split at hr
    · cases hr
    · next hp =>
      cases hr
      have : (F.info x).ptr = false := by simpa using hp
      rw [get_nonptr F s x this]; exact gamma_nonptr_np

theorem descr_rdS (F : Func) (s : State) (env : Env) (x : Nat) (sx : SVal) (h : descr F s env)
    (hr : rdS F env x = some sx) : gamma (get F s x) sx := by
  unfold rdS at hr
  split at hr
  · next s' hs =>
    have hss : s' = sx := by simpa using hr
    subst hss; exact descr_rd F s env x _ h hs
  · cases hr

/-- an instruction defines `v` and the analysis records `x` for it with `set`. -/
theorem descr_set_def (F : Func) (s : State) (env : Env) (v : Nat) (x : VN) (c : CVal)
    (h : descr F s env) (hc : (F.info v).ptr = true → gammaC x c)
    (hnp : (F.info v).ptr = false → gammaC ⟨.zero, .never⟩ c) :
    descr F (set F s v x) (setv env v (some c)) := by
  intro w c' hw
  rw [getRaw_set]
  by_cases hwv : w = v
  · subst hwv
    simp only [setv, if_true] at hw
    cases hw
    by_cases hp : (F.info w).ptr = true
    · by_cases hx : x = VN.bot
      · subst hx
        cases c with
        | sc sx => exact absurd (hc hp) (gamma_bot sx)
        | _ => trivial
      · simp [hp, hx]; exact hc hp
    · have hp' : (F.info w).ptr = false := by simpa using hp
      simp only [hp', Bool.false_eq_true, false_and, and_false, if_false]
      rw [getRaw_nonptr F s w hp']; exact hnp hp'
  · simp only [setv, hwv, if_false] at hw
    simp only [hwv, false_and, if_false]
    exact h w c' hw

/-- an instruction defines `v` as a non-interface value and the analysis records Outer `o`. -/
theorem descr_setOuter_def (F : Func) (s : State) (env : Env) (v : Nat) (o : Nl) (sv : SVal)
    (h : descr F s env) (hni : ∀ g, sv ≠ .iface g) (ho : (F.info v).ptr = true → gammaN o (outerNil sv))
    (hok : okS (flagsOf F v) sv) :
    descr F (setOuter F s v o) (setv env v (some (.sc sv))) := by
  intro w c' hw
  rw [getRaw_setOuter]
  by_cases hwv : w = v
  · subst hwv
    simp only [setv, if_true] at hw
    cases hw
    by_cases hp : (F.info w).ptr = true
    · have ho := ho hp
      have ho' : o ≠ .zero := by intro h0; subst h0; exact ho
      simp only [hp, ho', ne_eq, not_false_eq_true, and_self, if_true]
      cases sv with
      | np => exact (gamma_np _ _).2 ho
      | ptr n => exact (gamma_ptr _ _ _).2 ho
      | iface g => exact absurd rfl (hni g)
    · have hp' : (F.info w).ptr = false := by simpa using hp
      simp only [hp', Bool.false_eq_true, false_and, and_false, if_false]
      rw [getRaw_nonptr F s w hp']
      have := okS_nonptr (flagsOf F w) sv (by simpa [flagsOf] using hp') hok
      subst this; exact gamma_nonptr_np
  · simp only [setv, hwv, if_false] at hw
    simp only [hwv, false_and, if_false]
    exact h w c' hw

/-- the analysis learns that the (unchanged) register `x` is not nil. -/
theorem descr_refine_never (F : Func) (s : State) (env : Env) (x : Nat)
    (h : descr F s env) (hx : ∀ c, env x = some c → ∃ sx, c = .sc sx ∧ outerNil sx = false) :
    descr F (setOuter F s x .never) env := by
  intro w c hw
  rw [getRaw_setOuter]
  by_cases hwx : w = x
  · subst hwx
    by_cases hp : (F.info w).ptr = true
    · simp only [hp, ne_eq, reduceCtorEq, not_false_eq_true, and_self, if_true]
      obtain ⟨sx, rfl, hn⟩ := hx c hw
      exact gamma_withOuter _ _ _ (gammaC_get_of_raw F s w _ (h w _ hw)) (by rw [hn]; rfl)
    · have hp' : (F.info w).ptr = false := by simpa using hp
      simp only [hp', Bool.false_eq_true, false_and, and_false, if_false]
      exact h w c hw
  · simp only [hwx, false_and, if_false]
    exact h w c hw

/-- the analysis replaces what it knows about the (unchanged) register `t`. -/
theorem descr_refine_set (F : Func) (s : State) (env : Env) (t : Nat) (x : VN)
    (h : descr F s env) (hx : ∀ c, env t = some c → gammaC x c) :
    descr F (set F s t x) env := by
  intro w c hw
  rw [getRaw_set]
  by_cases hwt : w = t
  · subst hwt
    by_cases hc : (F.info w).ptr = true ∧ x ≠ VN.bot
    · simp only [hc, ne_eq, not_false_eq_true, and_self, if_true]; exact hx c hw
    · simp only [true_and, hc, if_false]; exact h w c hw
  · simp only [hwt, false_and, if_false]
    exact h w c hw

theorem rdS_env (F : Func) (env : Env) (x : Nat) (sx : SVal) (c : CVal) (hr : rdS F env x = some sx)
    (he : env x = some c) : c = .sc sx := by
  unfold rdS rd at hr
  rw [he] at hr
  cases c with
  | sc s => simp at hr; rw [hr]
  | _ => simp at hr

theorem rdS_setv_other (F : Func) (env : Env) (v x : Nat) (c : Option CVal) (h : x ≠ v) :
    rdS F (setv env v c) x = rdS F env x := by
  simp [rdS, rd, setv, h]


theorem set_nonptr (F : Func) (s : State) (v : Nat) (x : VN) (h : (F.info v).ptr = false) :
    set F s v x = s := by simp [set, h]

theorem setOuter_nonptr (F : Func) (s : State) (v : Nat) (o : Nl) (h : (F.info v).ptr = false) :
    setOuter F s v o = s := by simp [setOuter, h]

theorem setInner_nonptr (F : Func) (s : State) (v : Nat) (o : Nl) (h : (F.info v).ptr = false) :
    setInner F s v o = s := by simp [setInner, h]

/-- defining a register of non-pointer-like type needs no change of the abstract state. -/
theorem descr_setv_nonptr (F : Func) (s : State) (env : Env) (v : Nat) (c : CVal)
    (h : descr F s env) (hp : (F.info v).ptr = false) (hc : gammaC ⟨.zero, .never⟩ c) :
    descr F s (setv env v (some c)) := by
  intro w c' hw
  by_cases hwv : w = v
  · subst hwv
    simp only [setv, if_true] at hw
    cases hw
    rw [getRaw_nonptr F s w hp]; exact hc
  · simp only [setv, hwv, if_false] at hw
    exact h w c' hw

theorem operand_nonnil (F : Func) (env : Env) (v x : Nat) (c0 : Option CVal) (sx : SVal)
    (hrx : rdS F env x = some sx) (hn : outerNil sx = false) (hxv : x ≠ v) :
    ∀ c, setv env v c0 x = some c → ∃ sx', c = .sc sx' ∧ outerNil sx' = false := by
  intro c hc
  simp only [setv, hxv, if_false] at hc
  exact ⟨sx, rdS_env F env x sx c hrx hc, hn⟩

theorem operand_nonnil' (F : Func) (env : Env) (x : Nat) (sx : SVal)
    (hrx : rdS F env x = some sx) (hn : outerNil sx = false) :
    ∀ c, env x = some c → ∃ sx', c = .sc sx' ∧ outerNil sx' = false := by
  intro c hc
  exact ⟨sx, rdS_env F env x sx c hrx hc, hn⟩

theorem okS_ptr (fl : Bool × Bool) (x : SVal) (h1 : fl.1 = true) (h2 : fl.2 = false) (h : okS fl x) :
    ∃ n, x = .ptr n := by
  cases x with
  | np => simp [okS, h1] at h
  | ptr n => exact ⟨n, rfl⟩
  | iface g => simp [okS, h2] at h

theorem gammaC_np_of_okS (F : Func) (v : Nat) (sv : SVal) (hok : okS (flagsOf F v) sv)
    (hp : (F.info v).ptr = false) : gammaC ⟨.zero, .never⟩ (.sc sv) := by
  have := okS_nonptr _ sv (by simpa [flagsOf] using hp) hok
  subst this; exact gamma_nonptr_np


/-- general form: the instruction defines `v`, the transfer leaves every other value alone. -/
theorem descr_def_general (F : Func) (s s' : State) (env : Env) (v : Nat) (c : CVal)
    (h : descr F s env) (hother : ∀ w, w ≠ v → getRaw F s' w = getRaw F s w)
    (hv : gammaC (getRaw F s' v) c) : descr F s' (setv env v (some c)) := by
  intro w c' hw
  by_cases hwv : w = v
  · subst hwv
    simp only [setv, if_true] at hw
    cases hw; exact hv
  · simp only [setv, hwv, if_false] at hw
    rw [hother w hwv]; exact h w c' hw

/-- a register that holds a tuple is described by anything. -/
theorem descr_setv_tuple (F : Func) (s : State) (env : Env) (v : Nat) (c : CVal)
    (h : descr F s env) (hc : ∀ x, c ≠ .sc x) : descr F s (setv env v (some c)) := by
  refine descr_def_general F s s env v c h (fun _ _ => rfl) ?_
  cases c with
  | sc x => exact absurd rfl (hc x)
  | _ => trivial


/-- the analysis replaces Outer of the (unchanged) register `x` by something that still
describes it. -/
theorem descr_refine_outer (F : Func) (s : State) (env : Env) (x : Nat) (o : Nl)
    (h : descr F s env) (hx : ∀ c, env x = some c → ∃ sx, c = .sc sx ∧ gammaN o (outerNil sx)) :
    descr F (setOuter F s x o) env := by
  intro w c hw
  rw [getRaw_setOuter]
  by_cases hwx : w = x
  · subst hwx
    by_cases hp : (F.info w).ptr = true ∧ o ≠ .zero
    · simp only [hp, ne_eq, not_false_eq_true, and_self, if_true]
      obtain ⟨sx, rfl, hn⟩ := hx c hw
      exact gamma_withOuter _ _ _ (gammaC_get_of_raw F s w _ (h w _ hw)) hn
    · simp only [true_and, hp, if_false]
      exact h w c hw
  · simp only [hwx, false_and, if_false]
    exact h w c hw


/-- `descr` is monotone in the state. -/
theorem descr_le (F : Func) (a b : State) (env : Env) (hle : leState a b = true) (h : descr F a env) :
    descr F b env := by
  intro v c hv
  have := h v c hv
  unfold getRaw at this ⊢
  by_cases hp : (F.info v).ptr = false
  · simpa [hp] using this
  · simp only [hp, if_false] at this ⊢
    exact gammaC_leVN _ _ c (leState_lget a b hle v) this


/-- `set` for a register that the instruction may leave undefined (phis). -/
theorem descr_set_opt (F : Func) (s : State) (env : Env) (v : Nat) (x : VN) (oc : Option CVal)
    (h : descr F s env)
    (hc : ∀ c, oc = some c → ((F.info v).ptr = true → gammaC x c) ∧
      ((F.info v).ptr = false → gammaC ⟨.zero, .never⟩ c)) :
    descr F (set F s v x) (setv env v oc) := by
  cases oc with
  | some c => exact descr_set_def F s env v x c h (hc c rfl).1 (hc c rfl).2
  | none =>
    intro w c' hw
    rw [getRaw_set]
    by_cases hwv : w = v
    · subst hwv; simp [setv] at hw
    · simp only [setv, hwv, if_false] at hw
      simp only [hwv, false_and, if_false]
      exact h w c' hw

theorem lget_map_entry (l : List VInfo) (v : Nat) :
    lget (l.map entryVal) v = entryVal (l.getD v ⟨.other, false, false⟩) := by
  induction l generalizing v with
  | nil => simp [lget_nil, entryVal, VN.bot]
  | cons y ys ih =>
    cases v with
    | zero => simp [lget]
    | succ n => simpa [lget] using ih n

theorem getRaw_entry (F : Func) (v : Nat) :
    getRaw F (entryState F) v = if (F.info v).ptr = false then ⟨.zero, .never⟩ else entryVal (F.info v) := by
  simp only [getRaw, entryState, lget_map_entry, Func.info]
  rfl

theorem range_map_getD {α : Type} (n j : Nat) (f : Nat → α) (d : α) (h : j < n) :
    ((List.range n).map f).getD j d = f j := by
  simp [List.getD_eq_getElem?_getD, List.getElem?_map, List.getElem?_range h]

/-- blocks outside the function are empty. -/
theorem block_of_ge (F : Func) (b : Nat) (h : F.blocks.length ≤ b) : F.block b = ⟨[], [], []⟩ := by
  simp [Func.block, List.getD_eq_getElem?_getD, List.getElem?_eq_none h]

theorem block_mem (F : Func) (b : Nat) (h : b < F.blocks.length) : F.block b ∈ F.blocks := by
  simp only [Func.block, List.getD_eq_getElem?_getD, List.getElem?_eq_getElem h, Option.getD_some]
  exact List.getElem_mem h

theorem wf_instrOk (F : Func) (hwf : wfFunc F = true) (b : Nat) (i : Instr) (hi : i ∈ (F.block b).instrs) :
    instrOk F i = true := by
  by_cases hb : b < F.blocks.length
  · have hm := block_mem F b hb
    simp only [wfFunc, List.all_eq_true] at hwf
    have := hwf _ hm
    simp only [blockOk, Bool.and_eq_true, List.all_eq_true] at this
    exact this.1 i hi
  · rw [block_of_ge F b (by omega)] at hi
    cases hi

theorem wf_if_succs (F : Func) (hwf : wfFunc F = true) (b c : Nat) (hi : .iff c ∈ (F.block b).instrs) :
    (F.block b).succs.getD 0 0 ≠ (F.block b).succs.getD 1 0 := by
  by_cases hb : b < F.blocks.length
  · have hm := block_mem F b hb
    simp only [wfFunc, List.all_eq_true] at hwf
    have := hwf _ hm
    simp only [blockOk, Bool.and_eq_true, List.all_eq_true] at this
    have := this.2 _ hi
    simpa using this
  · rw [block_of_ge F b (by omega)] at hi
    cases hi

theorem phiPairs_mem (i : Nat) (instrs : List Instr) (p : Nat × Nat) (hp : p ∈ phiPairs i instrs) :
    ∃ es, Instr.phi p.1 es ∈ instrs ∧ p.2 ∈ es := by
  induction instrs with
  | nil => simp [phiPairs] at hp
  | cons j js ih =>
    cases j with
    | phi v es =>
      simp only [phiPairs] at hp
      split at hp
      · next e he =>
        rcases List.mem_cons.1 hp with h | h
        · subst h
          exact ⟨es, List.mem_cons_self .., List.mem_of_getElem? he⟩
        · obtain ⟨es', h1, h2⟩ := ih h
          exact ⟨es', List.mem_cons_of_mem _ h1, h2⟩
      · obtain ⟨es', h1, h2⟩ := ih hp
        exact ⟨es', List.mem_cons_of_mem _ h1, h2⟩
    | _ => simp [phiPairs] at hp

end Verif.C15
