import Verif.C15.Model
/-!
C15 — concrete semantics of the IR subset, as far as nil-ness is concerned.

Values are abstracted to what the property talks about: a non-interface pointer-like value is
nil or not; an interface value is nil, or holds a value that is nil or not; everything else is
`np`.  There is no memory: a load, field, index, receive, map lookup, dynamic call, `recover()`
… yields an ARBITRARY value of the instruction's type, so every behaviour of the Go program
is a behaviour of this semantics (over-approximation; this is the modelling assumption that
the execution oracle of the check tests).  An instruction that panics (nil dereference, failed
type assertion, send on nil channel, …) has no successor state.

Contracts of the IR that the analysis itself relies on are part of the semantics:
* SSA: the condition of an `If` that compares a value with nil is evaluated when the branch is
  taken (the register of the compared value cannot have been redefined in between), and an
  `Extract` from a `TypeSwitch` sees the tag the switch saw;
* `Extract k` (k > 0) of a `TypeSwitch` executes only in the head of case k-1 ("there is no
  Extract for the untyped nil case");
* a deferred call of a nil function does not panic at the `defer` statement: it makes a
  normal return impossible (`poison`), control can only continue in the recover block.
* the recover block (a block without predecessors other than the entry) is entered with no
  register defined; a `Load` from an undefined register yields an arbitrary value.
-/
namespace Verif.C15

/-- scalar values. -/
inductive SVal where
  | np                          -- not pointer-like
  | ptr (isNil : Bool)          -- pointer, slice, map, chan, func, unsafe.Pointer
  | iface (held : Option Bool)  -- `none`: nil interface; `some n`: holds a value, `n` = that value is nil
  deriving DecidableEq, Repr

inductive CVal where
  | sc (x : SVal)
  | tuple                                  -- tuples other than the result of a TypeSwitch are opaque
  | tsw (sel : Nat) (tag : Option Bool)    -- result of a TypeSwitch: selected case (`conds.length` = default), the tag
  deriving DecidableEq, Repr

/-- is the value itself nil? -/
def outerNil : SVal → Bool
  | .np => false
  | .ptr n => n
  | .iface none => true
  | .iface (some _) => false

/-- `γ` for one component. `zero` (the identity element) describes no value. -/
def gammaN : Nl → Bool → Prop
  | .zero, _ => False
  | .never, isNil => isNil = false
  | .always, isNil => isNil = true
  | .mglobal, _ => True
  | .maybe, _ => True

/-- `γ : ValueNilness → Set SVal`. Inner speaks about the value held by a non-nil interface. -/
def gamma (vn : VN) (x : SVal) : Prop :=
  gammaN vn.outer (outerNil x) ∧
  (match x with
   | .iface (some h) => gammaN vn.inner h
   | _ => True)

def gammaC (vn : VN) : CVal → Prop
  | .sc x => gamma vn x
  | _ => True

/-- the value has the shape its static type demands. -/
def okS (fl : Bool × Bool) : SVal → Prop
  | .np => fl.1 = false
  | .ptr _ => fl.1 = true ∧ fl.2 = false
  | .iface _ => fl.1 = true ∧ fl.2 = true

def okC (fl : Bool × Bool) : CVal → Prop
  | .sc x => okS fl x
  | _ => fl.1 = false

abbrev Env := Nat → Option CVal

def setv (env : Env) (v : Nat) (c : Option CVal) : Env := fun w => if w = v then c else env w

/-- reading an operand: registers of non-pointer-like type that the dump does not define
(results of arithmetic, composite values, …) read as `np`. -/
def rd (F : Func) (env : Env) (x : Nat) : Option CVal :=
  match env x with
  | some c => some c
  | none => if (F.info x).ptr then none else some (.sc .np)

def rdS (F : Func) (env : Env) (x : Nat) : Option SVal :=
  match rd F env x with
  | some (.sc s) => some s
  | _ => none

/-- what the state itself records for `v` (`state.get` without the fall-back to the default of
the value's kind). -/
def getRaw (F : Func) (s : State) (v : Nat) : VN :=
  if (F.info v).ptr = false then ⟨.zero, .never⟩ else lget s v

/-- the abstract state describes the registers: every defined register of pointer-like type
has an entry in the state (not the identity element), and the entry describes its value. -/
def descr (F : Func) (s : State) (env : Env) : Prop :=
  ∀ v c, env v = some c → gammaC (getRaw F s v) c

/-- machine state: registers + "a deferred nil call is pending". -/
abbrev MState := Env × Bool

def descrP (F : Func) (s : State) (σ : MState) : Prop := σ.2 = true ∨ descr F s σ.1

/-- what a call of a builtin may return (`a0` = first argument). -/
def builtinSem (b : Bi) (a0 : Option CVal) (rs : List SVal) : Prop :=
  match b with
  | .append => ∃ n n', a0 = some (.sc (.ptr n)) ∧ rs = [.ptr n'] ∧ (n = false → n' = false)
  | .unsafeSlice => ∃ n, a0 = some (.sc (.ptr n)) ∧ rs = [.ptr n]
  | .unsafeSliceData => ∃ n, a0 = some (.sc (.ptr n)) ∧ rs = [.ptr n]
  | .wrapnilchk => a0 = some (.sc (.ptr false)) ∧ rs = [.ptr false]
  | .deferstack => rs = [.ptr false]
  | .unsafeStringData => ∃ n, rs = [.ptr n]
  | .unsafeAdd => ∃ n, rs = [.ptr n]
  | .recover => True
  | .other => True

/-- what a call instruction may return: `rs` has the shape of the signature's results and is a
possible result of the callee. -/
def retSem (cr : Nat → List SVal → Prop) (rf : List (Bool × Bool)) (callee : Callee) (a0 : Option CVal)
    (rs : List SVal) : Prop :=
  rs.length = rf.length ∧ (∀ (j : Nat) fl x, rf[j]? = some fl → rs[j]? = some x → okS fl x) ∧
  (match callee with
   | .builtin b => builtinSem b a0 rs
   | .static g => cr g rs
   | .unknown => True)

/-- how a TypeSwitch selects: case `sel` (`conds.length` = default) for a tag that is nil
(`h = none`) or holds a value. A nil tag selects a `nil` case, or the default if there is none;
a non-nil tag never selects a `nil` case. -/
def selOK (conds : List Bool) (sel : Nat) (h : Option Bool) : Prop :=
  sel ≤ conds.length ∧
  (h = none → (conds[sel]? = some true ∨ (sel = conds.length ∧ conds.any id = false))) ∧
  (h ≠ none → conds[sel]? ≠ some true)

/-- the zero value of a type. -/
def isZero : SVal → Prop
  | .np => True
  | .ptr n => n = true
  | .iface h => h = none

/-- One instruction. `k` = the out-edge the block is left through (`none`: it returns);
`cr g rs`: a call of the static callee `g` can return `rs`. -/
def stepI (F : Func) (cr : Nat → List SVal → Prop) (k : Option Nat) (i : Instr) (σ σ' : MState) : Prop :=
  let env := σ.1
  match i with
  | .convert v x fromInt =>
    ∃ sv, okS (flagsOf F v) sv ∧
      (fromInt = false → (F.info v).ptr = true →
        ((F.info x).ptr = true → ∃ sx, rdS F env x = some sx ∧ outerNil sv = outerNil sx) ∧
        ((F.info x).ptr = false → outerNil sv = false)) ∧
      σ' = (setv env v (some (.sc sv)), σ.2)
  | .copy v x => ∃ sx, rdS F env x = some sx ∧ okS (flagsOf F v) sx ∧ σ' = (setv env v (some (.sc sx)), σ.2)
  | .s2ap v x nz =>
    ∃ n, rdS F env x = some (.ptr n) ∧ (nz = true → n = false) ∧ okS (flagsOf F v) (.ptr n) ∧
      σ' = (setv env v (some (.sc (.ptr n))), σ.2)
  | .s2a v x nz =>
    ∃ n, rdS F env x = some (.ptr n) ∧ (nz = true → n = false) ∧ okS (flagsOf F v) .np ∧
      σ' = (setv env v (some (.sc .np)), σ.2)
  | .slice v x isArr nzb =>
    ∃ sv, okS (flagsOf F v) sv ∧
      ((F.info v).ptr = true →
        (isArr = true → outerNil sv = false) ∧
        (isArr = false → ∃ n, rdS F env x = some (.ptr n) ∧ (nzb = true → n = false) ∧ outerNil sv = n)) ∧
      σ' = (setv env v (some (.sc sv)), σ.2)
  | .iff c =>
    σ' = σ ∧ (k = some 0 ∨ k = some 1) ∧
    (match ifTarget F c with
     | some (t, .eq) => ∃ st, rdS F env t = some st ∧ (k = some 0 ↔ outerNil st = true)
     | some (t, .ne) => ∃ st, rdS F env t = some st ∧ (k = some 0 ↔ outerNil st = false)
     | _ => True)
  | .binop v _ _ _ => okS (flagsOf F v) .np ∧ σ' = (setv env v (some (.sc .np)), σ.2)
  | .load v x =>
    (∀ c, env x = some c → c = .sc (.ptr false)) ∧
    ∃ sv, okS (flagsOf F v) sv ∧ σ' = (setv env v (some (.sc sv)), σ.2)
  | .addr v x =>
    rdS F env x = some (.ptr false) ∧ okS (flagsOf F v) (.ptr false) ∧
      σ' = (setv env v (some (.sc (.ptr false))), σ.2)
  | .alloc v => okS (flagsOf F v) (.ptr false) ∧ σ' = (setv env v (some (.sc (.ptr false))), σ.2)
  | .useNN x => rdS F env x = some (.ptr false) ∧ σ' = σ
  | .call mode v invoke fnval rf callee arg0 =>
    ∃ p',
      -- the function value
      (invoke = true → p' = σ.2) ∧
      (invoke = false →
        match mode with
        | .defer => ∃ n, rdS F env fnval = some (.ptr n) ∧ p' = (σ.2 || n)
        | _ => rdS F env fnval = some (.ptr false) ∧ p' = σ.2) ∧
      (match mode with
       | .call =>
         if rf.length = 1 then
           ∃ rs x, retSem cr rf callee (rd F env arg0) rs ∧ rs[0]? = some x ∧
             σ' = (setv env v (some (.sc x)), p')
         else σ' = (setv env v (some .tuple), p')
       | _ => σ' = (env, p'))
  | .recv v ch =>
    rdS F env ch = some (.ptr false) ∧ ∃ c, okC (flagsOf F v) c ∧ σ' = (setv env v (some c), σ.2)
  | .makeiface v x =>
    ∃ sx, rdS F env x = some sx ∧ (∀ h, sx ≠ .iface h) ∧ okS (flagsOf F v) (.iface (some (outerNil sx))) ∧
      σ' = (setv env v (some (.sc (.iface (some (outerNil sx))))), σ.2)
  | .typeassert v x commaok toIface =>
    ∃ h, rdS F env x = some (.iface h) ∧
      (if commaok then σ' = (setv env v (some .tuple), σ.2)
       else ∃ hn, h = some hn ∧
         (if toIface then okS (flagsOf F v) (.iface (some hn)) ∧ σ' = (setv env v (some (.sc (.iface (some hn)))), σ.2)
          else ∃ sv, okS (flagsOf F v) sv ∧ (∀ g, sv ≠ .iface g) ∧ ((F.info v).ptr = true → outerNil sv = hn) ∧
            σ' = (setv env v (some (.sc sv)), σ.2)))
  | .typeswitch v tag conds =>
    ∃ h sel, rdS F env tag = some (.iface h) ∧ selOK conds sel h ∧
      σ' = (setv env v (some (.tsw sel h)), σ.2)
  | .maplookup v x =>
    ∃ n c, rdS F env x = some (.ptr n) ∧ okC (flagsOf F v) c ∧
      (n = true → ∀ s, c = .sc s → isZero s) ∧ σ' = (setv env v (some c), σ.2)
  | .fieldidx v _ => ∃ c, okC (flagsOf F v) c ∧ σ' = (setv env v (some c), σ.2)
  | .extract v tuple idx =>
    match F.defOf tuple with
    | some (.call _ _ _ _ rf callee arg0) =>
      -- every Extract picks a possible result tuple of the callee (the analysis is not relational)
      ∃ rs x, retSem cr rf callee (rd F env arg0) rs ∧ rs[idx]? = some x ∧
        σ' = (setv env v (some (.sc x)), σ.2)
    | some (.typeswitch _ tag conds) =>
      ∃ sel h, env tuple = some (.tsw sel h) ∧ selOK conds sel h ∧ rdS F env tag = some (.iface h) ∧
        (if idx = 0 then okS (flagsOf F v) .np ∧ σ' = (setv env v (some (.sc .np)), σ.2)
         else sel = idx - 1 ∧
           (match conds[idx - 1]? with
            | none => okS (flagsOf F v) (.iface h) ∧ σ' = (setv env v (some (.sc (.iface h))), σ.2)
            | some true => h = none ∧ okS (flagsOf F v) (.iface none) ∧ σ' = (setv env v (some (.sc (.iface none))), σ.2)
            | some false => ∃ hn, h = some hn ∧
              (if (F.info v).iface then okS (flagsOf F v) (.iface (some hn)) ∧
                  σ' = (setv env v (some (.sc (.iface (some hn)))), σ.2)
               else ∃ sv, okS (flagsOf F v) sv ∧ ((F.info v).ptr = true → outerNil sv = hn) ∧
                  σ' = (setv env v (some (.sc sv)), σ.2))))
    | _ => ∃ c, okC (flagsOf F v) c ∧ σ' = (setv env v (some c), σ.2)
  | .phi _ _ => σ' = σ
  | .ret _ => σ' = σ
  | .nop => σ' = σ

/-- executing a list of instructions. -/
inductive Run (F : Func) (cr : Nat → List SVal → Prop) (k : Option Nat) : List Instr → MState → MState → Prop
  | nil (σ) : Run F cr k [] σ σ
  | cons (i is σ σ1 σ2) : stepI F cr k i σ σ1 → Run F cr k is σ1 σ2 → Run F cr k (i :: is) σ σ2

/-- the phis of the target block, evaluated in parallel on the registers before the edge. -/
def phiStep (F : Func) (env0 : Env) (pairs : List (Nat × Nat)) : Env :=
  pairs.foldl (fun e p => setv e p.1 (rd F env0 p.2)) env0

/-- the registers on function entry. -/
def entryOK (F : Func) (env : Env) : Prop :=
  ∀ v, match (F.info v).kind with
    | .param => ∃ x, env v = some (.sc x) ∧ okS (flagsOf F v) x
    | .builtin | .func | .global => env v = some (.sc (.ptr false))
    | .constnil => ∃ x, env v = some (.sc x) ∧ okS (flagsOf F v) x ∧ isZero x
    | .constz => ∃ x, env v = some (.sc x) ∧ okS (flagsOf F v) x ∧ isZero x
    | .constnz => ∃ x, env v = some (.sc x) ∧ okS (flagsOf F v) x ∧ outerNil x = false
    | .constother => ∃ x, env v = some (.sc x) ∧ okS (flagsOf F v) x
    | _ => env v = none

/-- `Reach F cr b σ`: an execution of `F` arrives at the start of block `b` (after its phis)
in machine state `σ`. -/
inductive Reach (F : Func) (cr : Nat → List SVal → Prop) : Nat → MState → Prop
  | entry (env) : entryOK F env → Reach F cr 0 (env, false)
  | recover (r) : r ≠ 0 → (F.block r).preds = [] → Reach F cr r (fun _ => none, false)
  | edge (b k σ env1 p1) :
      Reach F cr b σ → k < (F.block b).succs.length →
      Run F cr (some k) (F.block b).instrs σ (env1, p1) →
      Reach F cr ((F.block b).succs.getD k 0)
        (phiStep F env1 (phiPairs (predIndex (F.block ((F.block b).succs.getD k 0)).preds b)
                          (F.block ((F.block b).succs.getD k 0)).instrs), p1)

/-- `F` returns `rs` normally. -/
def FuncExec (F : Func) (cr : Nat → List SVal → Prop) (rs : List SVal) : Prop :=
  ∃ b σ env1 rvs, Reach F cr b σ ∧ Run F cr none (F.block b).instrs σ (env1, false) ∧
    b < F.blocks.length ∧ (F.block b).instrs.getLast? = some (.ret rvs) ∧
    rs.length = F.rf.length ∧
    (∀ (j : Nat) x, rs[j]? = some x → rdS F env1 (rvs.getD j 0) = some x ∧ okS (F.rf.getD j (false, false)) x)

/-- a whole program: function bodies by id; `ext g rs`: the body-less function `g` (another
package, assembly) can return `rs`. Calls nest to depth at most `n`. -/
def ExecN (P : Nat → Option Func) (ext : Nat → List SVal → Prop) : Nat → Nat → List SVal → Prop
  | 0, g, rs => ext g rs
  | n + 1, g, rs => ext g rs ∨ ∃ F, P g = some F ∧ FuncExec F (ExecN P ext n) rs

/-- `g` can return `rs`. -/
def Exec (P : Nat → Option Func) (ext : Nat → List SVal → Prop) (g : Nat) (rs : List SVal) : Prop :=
  ∃ n, ExecN P ext n g rs

/-- a summary (`impl`'s value for a function) describes a tuple of results. -/
def Describes (summ : List VN) (rs : List SVal) : Prop :=
  ∀ (j : Nat) r x, summ[j]? = some r → rs[j]? = some x → gamma r x

end Verif.C15
