import Verif.C03.Driver
def main : IO UInt32 := do
  Verif.Proto.runLines Verif.C03.step
  return 0
