import Verif.C03.Model
import Verif.C03.Generated
/-! C03 property theorems (table part). -/
namespace Verif.C03

theorem covered_iff (s : Site) (k : Nat) :
    covered s k = true ↔ k ∈ s.handled ∨ k ∈ s.excused ∨ (s.strip = .loop ∧ k = s.stripKind) := by
  simp [covered, Bool.or_eq_true, or_assoc]

theorem siteTotal_iff (s : Site) :
    siteTotal s = true ↔ ∀ k ∈ s.domain, k ∈ s.handled ∨ k ∈ s.excused ∨ (s.strip = .loop ∧ k = s.stripKind) := by
  simp only [siteTotal, List.all_eq_true, covered_iff]

/-- A kind that reaches a total site is named by a case. -/
theorem reaches_handled (s : Site) (h : siteTotal s = true) (k : Nat) (hr : Reaches s k) : k ∈ s.handled := by
  rcases (siteTotal_iff s).mp h k hr.1 with h1 | h1 | h1
  · exact h1
  · exact absurd h1 hr.2.1
  · exact absurd h1 hr.2.2

/-- Soundness of the table obligation: if it holds, no sequence of kinds that can reach
the switch makes it panic. -/
theorem siteTotal_sound (s : Site) (h : siteTotal s = true) :
    ∀ ks : List Nat, (∀ k ∈ ks, Reaches s k) → runSite s ks = .ok := by
  intro ks
  induction ks with
  | nil => intro _; rfl
  | cons k ks ih =>
    intro hk
    have hh : k ∈ s.handled := reaches_handled s h k (hk k (by simp))
    have hc : s.handled.contains k = true := List.contains_iff_mem.mpr hh
    simp only [runSite, dispatch, hc, if_true]
    exact ih (fun k' hk' => hk k' (by simp [hk']))

/-- Completeness: if the obligation fails, some kind that reaches the switch panics, and
`missing` names it. -/
theorem siteTotal_complete (s : Site) (h : siteTotal s = false) :
    ∃ k, Reaches s k ∧ k ∈ missing s ∧ runSite s [k] = .panic := by
  have hn : ¬ (∀ k ∈ s.domain, covered s k = true) := by
    intro hall
    have : siteTotal s = true := by simpa [siteTotal, List.all_eq_true] using hall
    rw [this] at h; cases h
  have : ∃ k, k ∈ s.domain ∧ ¬ covered s k = true := by
    apply Classical.byContradiction
    intro hne
    apply hn
    intro k hk
    apply Classical.byContradiction
    intro hk2
    exact hne ⟨k, hk, hk2⟩
  obtain ⟨k, hk, hne⟩ := this
  have hnc : ¬ (k ∈ s.handled ∨ k ∈ s.excused ∨ (s.strip = .loop ∧ k = s.stripKind)) :=
    fun c => hne ((covered_iff s k).mpr c)
  have hh : ¬ k ∈ s.handled := fun c => hnc (Or.inl c)
  have he : ¬ k ∈ s.excused := fun c => hnc (Or.inr (Or.inl c))
  have hs : ¬ (s.strip = .loop ∧ k = s.stripKind) := fun c => hnc (Or.inr (Or.inr c))
  refine ⟨k, ⟨hk, he, hs⟩, ?_, ?_⟩
  · simp only [missing, List.mem_filter]
    exact ⟨hk, by simpa using hne⟩
  · simp [runSite, dispatch, hh]

theorem missing_nil_iff (s : Site) : missing s = [] ↔ siteTotal s = true := by
  simp [missing, siteTotal, List.filter_eq_nil_iff, List.all_eq_true]

/-- A table row that shrinks breaks the obligation: if some kind that reaches the switch is
not (or no longer) named by a case, the site is not total. -/
theorem shrink_breaks_total (s : Site) (k : Nat) (hr : Reaches s k) (hk : k ∉ s.handled) :
    siteTotal s = false := by
  cases h : siteTotal s with
  | false => rfl
  | true => exact absurd (reaches_handled s h k hr) hk

/-! ### label stripping in front of a site -/

/-- With a stripping *loop* the switch never sees the wrapper kind, however deeply the
statement is labelled. -/
theorem strip_loop_never_label (s : Site) (hs : s.strip = .loop) (n : Node) (hk : n.kind ≠ s.stripKind) :
    seen s n ≠ s.stripKind := by
  simp [seen, hs, hk]

/-- With a single stripping `if`, a statement carrying two or more labels reaches the switch
as a wrapper, and the site panics unless a case names the wrapper kind. (This is the
defect "graph.stmt unwraps only one level of label".) -/
theorem strip_once_leaks_label (s : Site) (hs : s.strip = .once) (n : Node) (h2 : 2 ≤ n.labels) :
    seen s n = s.stripKind ∧ (s.stripKind ∉ s.handled → runWrapped s [n] = .panic) := by
  have hseen : seen s n = s.stripKind := by
    have : ¬ n.labels ≤ 1 := by omega
    simp [seen, hs, this]
  refine ⟨hseen, ?_⟩
  intro hnot
  simp [runWrapped, runSite, dispatch, hseen, hnot]

/-- Total sites do not panic on wrapped nodes whose visible kind can reach the switch. -/
theorem runWrapped_ok (s : Site) (h : siteTotal s = true) (ns : List Node)
    (hr : ∀ n ∈ ns, Reaches s (seen s n)) : runWrapped s ns = .ok := by
  apply siteTotal_sound s h
  intro k hk
  obtain ⟨n, hn, rfl⟩ := List.mem_map.mp hk
  exact hr n hn

/-- **The regenerated obligation**: every dispatch site listed from the current source is
total on its domain.  `Gen.sites` is rewritten from /repo on every run, so this `decide`
is re-checked by the kernel against what the code says now. -/
theorem all_sites_total : Gen.sites.all siteTotal = true := by decide

/-- Hence: no site panics on any sequence of kinds that can reach it. -/
theorem no_site_panics : ∀ s ∈ Gen.sites, ∀ ks : List Nat, (∀ k ∈ ks, Reaches s k) → runSite s ks = .ok :=
  fun s hs => siteTotal_sound s (List.all_eq_true.mp all_sites_total s hs)

/-- And for the sites with a stripping loop: statements under any number of labels whose
inner kind reaches the switch never make it panic — no case for the wrapper is needed. -/
theorem no_site_panics_wrapped : ∀ s ∈ Gen.sites, s.strip = .loop → ∀ ns : List Node,
    (∀ n ∈ ns, Reaches s n.kind) → runWrapped s ns = .ok := by
  intro s hs hl ns hr
  apply runWrapped_ok s (List.all_eq_true.mp all_sites_total s hs)
  intro n hn
  have : seen s n = n.kind := by simp [seen, hl]
  rw [this]
  exact hr n hn

/-! non-vacuity: a site with a gap panics, a total one does not; stripping -/
example : runSite ⟨"x", [1, 2, 3], [1, 2], [], .none, 0⟩ [1, 3] = .panic := by decide
example : siteTotal ⟨"x", [1, 2, 3], [1, 2], [], .none, 0⟩ = false := by decide
example : siteTotal ⟨"x", [1, 2, 3], [1, 2], [3], .none, 0⟩ = true := by decide
example : siteTotal ⟨"x", [1, 2, 3], [1, 2], [], .loop, 3⟩ = true := by decide
example : siteTotal ⟨"x", [1, 2, 3], [1, 2], [], .once, 3⟩ = false := by decide
example : Reaches ⟨"x", [1, 2, 3], [1, 2], [], .none, 0⟩ 3 := by unfold Reaches; decide
example : Reaches ⟨"x", [1, 2, 3], [1, 2], [], .once, 3⟩ 3 := by unfold Reaches; decide
-- two stacked labels: fine with the loop, a panic with the single `if`
example : runWrapped ⟨"x", [1, 2, 3], [1, 2], [], .loop, 3⟩ [⟨2, 1⟩, ⟨0, 2⟩] = .ok := by decide
example : runWrapped ⟨"x", [1, 2, 3], [1, 2], [], .once, 3⟩ [⟨1, 1⟩] = .ok := by decide
example : runWrapped ⟨"x", [1, 2, 3], [1, 2], [], .once, 3⟩ [⟨2, 1⟩] = .panic := by decide
example : Gen.sites.length > 30 := by decide
example : ∃ s ∈ Gen.sites, s.strip = .loop := by decide

end Verif.C03
