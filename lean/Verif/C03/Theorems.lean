import Verif.C03.Model
import Verif.C03.Generated
/-! C03 property theorems (table part). -/
namespace Verif.C03

theorem siteTotal_iff (s : Site) :
    siteTotal s = true ↔ ∀ k ∈ s.domain, k ∈ s.handled ∨ k ∈ s.excused := by
  simp [siteTotal, List.all_eq_true]

/-- Soundness of the table obligation: if it holds, no sequence of kinds that can reach
the switch makes it panic. -/
theorem siteTotal_sound (s : Site) (h : siteTotal s = true) :
    ∀ ks : List Nat, (∀ k ∈ ks, Reaches s k) → runSite s ks = .ok := by
  intro ks
  induction ks with
  | nil => intro _; rfl
  | cons k ks ih =>
    intro hk
    have hr := hk k (by simp)
    have hh : k ∈ s.handled := by
      rcases (siteTotal_iff s).mp h k hr.1 with h1 | h1
      · exact h1
      · exact absurd h1 hr.2
    have hc : s.handled.contains k = true := List.contains_iff_mem.mpr hh
    simp only [runSite, dispatch, hc, if_true]
    exact ih (fun k' hk' => hk k' (by simp [hk']))

/-- Completeness: if the obligation fails, some kind that reaches the switch panics, and
`missing` names it. -/
theorem siteTotal_complete (s : Site) (h : siteTotal s = false) :
    ∃ k, Reaches s k ∧ k ∈ missing s ∧ runSite s [k] = .panic := by
  have hn : ¬ (∀ k ∈ s.domain, k ∈ s.handled ∨ k ∈ s.excused) := by
    intro hall
    have := (siteTotal_iff s).mpr hall
    rw [this] at h; cases h
  have : ∃ k, k ∈ s.domain ∧ ¬ (k ∈ s.handled ∨ k ∈ s.excused) := by
    apply Classical.byContradiction
    intro hne
    apply hn
    intro k hk
    apply Classical.byContradiction
    intro hk2
    exact hne ⟨k, hk, hk2⟩
  obtain ⟨k, hk, hne⟩ := this
  have hh : ¬ k ∈ s.handled := fun c => hne (Or.inl c)
  have he : ¬ k ∈ s.excused := fun c => hne (Or.inr c)
  refine ⟨k, ⟨hk, he⟩, ?_, ?_⟩
  · simp [missing, hk, hh, he]
  · simp [runSite, dispatch, hh]

theorem missing_nil_iff (s : Site) : missing s = [] ↔ siteTotal s = true := by
  rw [siteTotal_iff]
  simp only [missing, List.filter_eq_nil_iff]
  constructor
  · intro h k hk
    have := h k hk
    simp at this
    by_cases hh : k ∈ s.handled
    · exact Or.inl hh
    · exact Or.inr (this hh)
  · intro h k hk
    rcases h k hk with h1 | h1 <;> simp [h1]

/-- **The regenerated obligation**: every dispatch site listed from the current source is
total on its domain.  `Gen.sites` is rewritten from /repo on every run, so this `decide`
is re-checked by the kernel against what the code says now. -/
theorem all_sites_total : Gen.sites.all siteTotal = true := by decide

/-- Hence: no site panics on any sequence of kinds that can reach it. -/
theorem no_site_panics : ∀ s ∈ Gen.sites, ∀ ks : List Nat, (∀ k ∈ ks, Reaches s k) → runSite s ks = .ok :=
  fun s hs => siteTotal_sound s (List.all_eq_true.mp all_sites_total s hs)

/-! non-vacuity: a site with a gap panics, a total one does not -/
example : runSite ⟨"x", [1, 2, 3], [1, 2], []⟩ [1, 3] = .panic := by decide
example : siteTotal ⟨"x", [1, 2, 3], [1, 2], []⟩ = false := by decide
example : siteTotal ⟨"x", [1, 2, 3], [1, 2], [3]⟩ = true := by decide
example : Gen.sites.length > 10 := by decide

end Verif.C03
