/-
C03 — analysis is total.  Closed-world part: dispatch sites with a panicking default.

A *site* is a `switch` in an analyzer (or in the IR builder / helpers the analyzers run
through) whose default clause panics (`panic(...)` or `lint.ExhaustiveTypeSwitch`).
`domain` is the closed set of kinds the scrutinee can have (enumerated from source, from
the toolchain's export data — implementers of go/ast and go/types interfaces — or by
probing the real builder), `handled` the kinds named by a case, `excused` the kinds that
cannot reach the switch by construction (documented in checks/c03_expect.json).
Kinds are numbered (index into `Gen.kindNames`) so that the kernel compares naturals.

Some sites are preceded by a statement that removes wrapper nodes from the scrutinee
(`unused.graph.stmt`: `for { if l, ok := stmt.(*ast.LabeledStmt); ok { stmt = l.Stmt }
else { break } }`).  The extractor recognises that statement structurally and records
whether it is a loop (`Strip.loop`: all wrappers removed) or a single `if`
(`Strip.once`: one wrapper removed) and which kind (`stripKind`) it removes.
-/
namespace Verif.C03

inductive Strip where
  | none | once | loop
deriving DecidableEq, Repr

structure Site where
  id        : String
  domain    : List Nat
  handled   : List Nat
  excused   : List Nat
  strip     : Strip := .none
  stripKind : Nat := 0
deriving Repr

inductive Outcome where
  | ok | panic
deriving DecidableEq, Repr

/-- One execution of the switch statement on a value of kind `k`. -/
def dispatch (s : Site) (k : Nat) : Outcome :=
  if s.handled.contains k then .ok else .panic

/-- The enclosing loop: the analyzer visits a sequence of nodes / instructions / calls;
the process dies at the first panic (analyzer panics are not recovered by the runner). -/
def runSite (s : Site) : List Nat → Outcome
  | [] => .ok
  | k :: ks => match dispatch s k with
    | .panic => .panic
    | .ok => runSite s ks

/-- A kind of the domain is covered if a case names it, if it is excused, or if the
stripping loop in front of the switch removes it. -/
def covered (s : Site) (k : Nat) : Bool :=
  s.handled.contains k || s.excused.contains k || (s.strip == .loop && k == s.stripKind)

/-- The table obligation for one site. -/
def siteTotal (s : Site) : Bool := s.domain.all (covered s)

/-- A kind can reach the switch if it is in the domain, not excused, and not removed by a
stripping loop. -/
def Reaches (s : Site) (k : Nat) : Prop :=
  k ∈ s.domain ∧ k ∉ s.excused ∧ ¬ (s.strip = .loop ∧ k = s.stripKind)

/-- Kinds that violate the obligation (for reporting). -/
def missing (s : Site) : List Nat := s.domain.filter fun k => !(covered s k)

/-- A node as the caller passes it: `labels` wrapper layers (`*ast.LabeledStmt`) around a
statement of kind `kind`. -/
structure Node where
  labels : Nat
  kind   : Nat
deriving Repr, DecidableEq

/-- The kind the switch sees after the stripping statement ran on the node. -/
def seen (s : Site) (n : Node) : Nat :=
  match s.strip with
  | .none => if n.labels = 0 then n.kind else s.stripKind
  | .once => if n.labels ≤ 1 then n.kind else s.stripKind
  | .loop => n.kind

/-- The site run on wrapped nodes. -/
def runWrapped (s : Site) (ns : List Node) : Outcome := runSite s (ns.map (seen s))

end Verif.C03
