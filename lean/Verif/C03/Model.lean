/-
C03 — analysis is total.  Closed-world part: dispatch sites with a panicking default.

A *site* is a `switch` in an analyzer (or in the IR builder / helpers the analyzers run
through) whose default clause panics (`panic(...)` or `lint.ExhaustiveTypeSwitch`).
`domain` is the closed set of kinds the scrutinee can have (enumerated from source or
by probing the real builder), `handled` the kinds named by a case, `excused` the kinds
that cannot reach the switch by construction (documented in checks/c03_expect.json).
Kinds are numbered (index into `Gen.kindNames`) so that the kernel compares naturals.
-/
namespace Verif.C03

structure Site where
  id      : String
  domain  : List Nat
  handled : List Nat
  excused : List Nat
deriving Repr

inductive Outcome where
  | ok | panic
deriving DecidableEq, Repr

/-- One execution of the switch statement on a value of kind `k`. -/
def dispatch (s : Site) (k : Nat) : Outcome :=
  if s.handled.contains k then .ok else .panic

/-- The enclosing loop: the analyzer visits a sequence of nodes / instructions / calls;
the process dies at the first panic (analyzer panics are not recovered by the runner). -/
def runSite (s : Site) : List Nat → Outcome
  | [] => .ok
  | k :: ks => match dispatch s k with
    | .panic => .panic
    | .ok => runSite s ks

/-- The table obligation for one site. -/
def siteTotal (s : Site) : Bool :=
  s.domain.all fun k => s.handled.contains k || s.excused.contains k

/-- A kind can reach the switch if it is in the domain and not excused. -/
def Reaches (s : Site) (k : Nat) : Prop := k ∈ s.domain ∧ k ∉ s.excused

/-- Kinds that violate the obligation (for reporting). -/
def missing (s : Site) : List Nat :=
  s.domain.filter fun k => !(s.handled.contains k || s.excused.contains k)

end Verif.C03
