import Verif.Common.Proto
import Verif.C03.Model
namespace Verif.C03
open Verif.Proto

def parseNats (l : List String) : Option (List Nat) := l.mapM (·.toNat?)

def parseStrip : String → Option Strip
  | "none" => some .none
  | "once" => some .once
  | "loop" => some .loop
  | _ => none

/-- `site <id> d <domain…> h <handled…> e <excused…> s <none|once|loop> <stripKind>`
→ `total` or `missing k…` -/
def step (line : String) : String :=
  match tokens line with
  | "site" :: id :: "d" :: rest =>
    let dom := rest.takeWhile (· ≠ "h")
    let rest := (rest.dropWhile (· ≠ "h")).drop 1
    let han := rest.takeWhile (· ≠ "e")
    let rest := (rest.dropWhile (· ≠ "e")).drop 1
    let exc := rest.takeWhile (· ≠ "s")
    match (rest.dropWhile (· ≠ "s")).drop 1 with
    | [m, k] =>
      match parseNats dom, parseNats han, parseNats exc, parseStrip m, k.toNat? with
      | some d, some h, some e, some st, some sk =>
        let s : Site := ⟨id, d, h, e, st, sk⟩
        if siteTotal s then "total" else "missing " ++ " ".intercalate ((missing s).map toString)
      | _, _, _, _, _ => "bad-op"
    | _ => "bad-op"
  | _ => "bad-op"

end Verif.C03
