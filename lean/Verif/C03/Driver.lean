import Verif.Common.Proto
import Verif.C03.Model
namespace Verif.C03
open Verif.Proto

def parseNats (l : List String) : Option (List Nat) := l.mapM (·.toNat?)

/-- `site <id> d <domain…> h <handled…> e <excused…>` → `total` or `missing k…` -/
def step (line : String) : String :=
  match tokens line with
  | "site" :: id :: "d" :: rest =>
    let dom := rest.takeWhile (· ≠ "h")
    let rest := (rest.dropWhile (· ≠ "h")).drop 1
    let han := rest.takeWhile (· ≠ "e")
    let exc := (rest.dropWhile (· ≠ "e")).drop 1
    match parseNats dom, parseNats han, parseNats exc with
    | some d, some h, some e =>
      let s : Site := ⟨id, d, h, e⟩
      if siteTotal s then "total" else "missing " ++ " ".intercalate ((missing s).map toString)
    | _, _, _ => "bad-op"
  | _ => "bad-op"

end Verif.C03
