import Verif.C09.Refine
/-
C09 — "binding already created" is unreachable for well-formed patterns.
-/
namespace Verif.C09


/-- every bound name is in `l` -/
def Dom (σ : Env) (l : List String) : Prop := ∀ x, σ x ≠ none → x ∈ l

theorem Dom.mono {σ : Env} {l1 l2 : List String} (h : ∀ x, x ∈ l1 → x ∈ l2) (d : Dom σ l1) : Dom σ l2 :=
  fun x hx => h x (d x hx)

theorem Dom.set {σ : Env} {l : List String} {n : String} {v : Tree} (d : Dom σ l) (hn : n ∈ l) :
    Dom (σ.set n v) l := by
  intro x hx
  by_cases e : x = n
  · subst e; exact hn
  · exact d x (by simpa [Env.set, e] using hx)

/-- result of a sub-match: never "binding already created", and only names of `l` are bound -/
def NP (l : List String) : Res → Prop
  | .ok _ s' => Dom s'.st l
  | .fail s' => Dom s'.st l
  | .panic k => k ≠ .created

theorem NP.mono {l1 l2 : List String} {r : Res} (h : ∀ x, x ∈ l1 → x ∈ l2) (d : NP l1 r) : NP l2 r := by
  cases r with
  | ok v s => exact Dom.mono h d
  | fail s => exact Dom.mono h d
  | panic k => exact d

mutual
theorem impl_np (mp : List String) : ∀ (p : Pat) (t : Tree) (s : MState) (top : Nat) (rest : List Nat) (ctx : List String),
    wf ctx p = true → wfIdx mp p = true → s.stack = top :: rest → Dom s.st ctx →
    NP (ctx ++ names p) (impl mp p t s)
  | .gonil, t, s, top, rest, ctx, _, _, _, hd => by
    simp only [impl, names, List.append_nil]; split <;> exact hd
  | .any, t, s, top, rest, ctx, _, _, _, hd => by
    simp only [impl, names, List.append_nil]; exact hd
  | .nil, t, s, top, rest, ctx, _, _, _, hd => by
    simp only [impl, names, List.append_nil]; split <;> exact hd
  | .str x, t, s, top, rest, ctx, _, _, _, hd => by
    simp only [impl, names, List.append_nil]; cases strMatch x (peelR t) <;> exact hd
  | .binding name idx sub, t, s, top, rest, ctx, hwf, hidx, hs, hd => by
    simp only [wfIdx, Bool.and_eq_true] at hidx
    obtain ⟨_, hisub⟩ := hidx
    have hd' : Dom s.st (ctx ++ names (.binding name idx sub)) := hd.mono (fun x h => List.mem_append_left _ h)
    simp only [impl]
    by_cases hn : sub.isNilPat = true
    · simp only [hn, if_true]
      cases h0 : s.st name with
      | some v =>
        cases ha : astEq v t
        · simp only [ha]; exact hd'
        · simp only [ha]; exact hd'
        · simp only [ha]; simp [NP]
      | none =>
        exact Dom.set hd' (by simp [names])
    · simp only [hn]
      simp only [wf, hn, Bool.false_eq_true, if_false, Bool.and_eq_true, Bool.not_eq_true',
        List.contains_eq_mem, decide_eq_false_iff_not] at hwf
      obtain ⟨hctx, hwsub⟩ := hwf
      cases h0 : s.st name with
      | some v => exact absurd (hd name (by simp [h0])) hctx
      | none =>
        have ih := impl_np mp sub t s top rest ctx hwsub hisub hs hd
        have hsubset : ∀ x, x ∈ ctx ++ names sub → x ∈ ctx ++ names (.binding name idx sub) := by
          intro x hx; simp only [names, List.mem_append, List.mem_cons] at hx ⊢
          rcases hx with h | h
          · exact Or.inl h
          · exact Or.inr (Or.inr h)
        cases hr : impl mp sub t s with
        | ok v s' =>
          rw [hr] at ih
          exact Dom.set (Dom.mono hsubset ih) (by simp [names])
        | fail s' => rw [hr] at ih; exact Dom.mono hsubset ih
        | panic k => rw [hr] at ih; exact ih
  | .or alts, t, s, top, rest, ctx, hwf, hidx, hs, hd => by
    simp only [impl, names]
    exact implOr_np mp alts t s top rest ctx (by simpa [wf] using hwf) (by simpa [wfIdx] using hidx) hs hd
  | .not sub, t, s, top, rest, ctx, hwf, hidx, hs, hd => by
    have hisub : wfIdx mp sub = true := by simpa [wfIdx] using hidx
    have hst : s.push.stack = 0 :: top :: rest := by simp [MState.push, hs]
    have ih := impl_np mp sub t s.push 0 (top :: rest) ctx (by simpa [wf] using hwf) hisub hst hd
    have ir := impl_rel mp sub t s.push 0 (top :: rest) hisub hst
    simp only [impl, names, List.append_nil]
    cases hr : impl mp sub t s.push with
    | ok v s' =>
      rw [hr] at ir
      obtain ⟨⟨top', f⟩, _⟩ := ir
      show Dom (s'.pop mp).st ctx
      rw [f.pop_st]; exact hd
    | fail s' =>
      rw [hr] at ir
      obtain ⟨⟨top', f⟩, _⟩ := ir
      show Dom (s'.pop mp).st ctx
      rw [f.pop_st]; exact hd
    | panic k => rw [hr] at ih; exact ih
  | .list h tl, t, s, top, rest, ctx, hwf, hidx, hs, hd => by
    simp only [wfIdx, Bool.and_eq_true] at hidx
    obtain ⟨hih, hit⟩ := hidx
    simp only [wf, Bool.and_eq_true] at hwf
    obtain ⟨hwh, hwt⟩ := hwf
    have hd' : Dom s.st (ctx ++ names (.list h tl)) := hd.mono (fun x hx => List.mem_append_left _ hx)
    simp only [impl]
    cases hp : peelR t with
    | slice ek isNil es =>
      simp only []
      by_cases hn : h.isNilPat = true
      · simp only [hn, if_true]
        split <;> exact hd'
      · simp only [hn, Bool.false_eq_true, if_false]
        cases es with
        | nil => exact hd'
        | cons e es' =>
          have ih1 := impl_np mp h e s top rest ctx hwh hih hs hd
          have ir1 := impl_rel mp h e s top rest hih hs
          have hassoc : ctx ++ names h ++ names tl = ctx ++ names (.list h tl) := by
            simp [names, List.append_assoc]
          simp only []
          cases hr1 : impl mp h e s with
          | panic k => rw [hr1] at ih1; exact ih1
          | ok v1 s1 =>
            rw [hr1] at ih1 ir1
            simp only []
            obtain ⟨⟨top1, f1⟩, _⟩ := ir1
            have ih2 := impl_np mp tl (.slice ek false es') s1 top1 rest (ctx ++ names h) hwt hit f1.stk ih1
            rw [hassoc] at ih2
            cases hr2 : impl mp tl (.slice ek false es') s1 with
            | panic k => rw [hr2] at ih2; exact ih2
            | ok v2 s2 => rw [hr2] at ih2; exact ih2
            | fail s2 => rw [hr2] at ih2; exact ih2
          | fail s1 =>
            rw [hr1] at ih1 ir1
            simp only []
            obtain ⟨⟨top1, f1⟩, _⟩ := ir1
            have ih2 := impl_np mp tl (.slice ek false es') s1 top1 rest (ctx ++ names h) hwt hit f1.stk ih1
            rw [hassoc] at ih2
            cases hr2 : impl mp tl (.slice ek false es') s1 with
            | panic k => rw [hr2] at ih2; exact ih2
            | ok v2 s2 => rw [hr2] at ih2; exact ih2
            | fail s2 => rw [hr2] at ih2; exact ih2
    | nilv => exact hd'
    | str _ => exact hd'
    | tok _ => exact hd'
    | other _ => exact hd'
    | nilptr _ _ => exact hd'
    | node _ _ _ _ => exact hd'
  | .node kind fnames fields, t, s, top, rest, ctx, hwf, hidx, hs, hd => by
    have hd' : Dom s.st (ctx ++ names (.node kind fnames fields)) := hd.mono (fun x hx => List.mem_append_left _ hx)
    simp only [impl]
    cases ht : target t with
    | miss => exact hd'
    | crash => simp [NP]
    | ptr k tfn tfv self =>
      simp only []
      by_cases hk : kind = k
      · simp only [hk, if_true]
        have ih := implFields_np mp fnames fields tfn tfv s top rest ctx (by simpa [wf] using hwf)
          (by simpa [wfIdx] using hidx) hs hd
        simp only [names]
        cases hr : implFields mp fnames fields tfn tfv s with
        | ok v s' => rw [hr] at ih; exact ih
        | fail s' => rw [hr] at ih; exact ih
        | panic k => rw [hr] at ih; exact ih
      · simp only [hk, if_false]; exact hd'

theorem implOr_np (mp : List String) : ∀ (alts : List Pat) (t : Tree) (s : MState) (top : Nat) (rest : List Nat) (ctx : List String),
    wfAlts ctx alts = true → wfIdxL mp alts = true → s.stack = top :: rest → Dom s.st ctx →
    NP (ctx ++ namesL alts) (implOr mp alts t s)
  | [], t, s, top, rest, ctx, _, _, _, hd => by
    simp only [implOr, namesL, List.append_nil]; exact hd
  | a :: as, t, s, top, rest, ctx, hwf, hidx, hs, hd => by
    simp only [wfIdxL, Bool.and_eq_true] at hidx
    obtain ⟨hia, hias⟩ := hidx
    simp only [wfAlts, Bool.and_eq_true] at hwf
    obtain ⟨hwa, hwas⟩ := hwf
    have hst : s.push.stack = 0 :: top :: rest := by simp [MState.push, hs]
    have ih := impl_np mp a t s.push 0 (top :: rest) ctx hwa hia hst hd
    have ir := impl_rel mp a t s.push 0 (top :: rest) hia hst
    have hsub1 : ∀ x, x ∈ ctx ++ names a → x ∈ ctx ++ namesL (a :: as) := by
      intro x hx; simp only [namesL, List.mem_append] at hx ⊢
      rcases hx with h | h
      · exact Or.inl h
      · exact Or.inr (Or.inl h)
    have hsub2 : ∀ x, x ∈ ctx ++ namesL as → x ∈ ctx ++ namesL (a :: as) := by
      intro x hx; simp only [namesL, List.mem_append] at hx ⊢
      rcases hx with h | h
      · exact Or.inl h
      · exact Or.inr (Or.inr h)
    simp only [implOr]
    cases hr : impl mp a t s.push with
    | ok v s' =>
      rw [hr] at ih
      show Dom s'.merge.st _
      rw [merge_st]; exact Dom.mono hsub1 ih
    | fail s' =>
      rw [hr] at ir
      obtain ⟨⟨top', f⟩, _⟩ := ir
      have ih2 := implOr_np mp as t (s'.pop mp) top rest ctx hwas hias f.pop_stack (by rw [f.pop_st]; exact hd)
      exact NP.mono hsub2 ih2
    | panic k => rw [hr] at ih; exact ih

theorem implFields_np (mp : List String) : ∀ (ns : List String) (ps : List Pat) (tfn : List String) (tfv : List Tree)
    (s : MState) (top : Nat) (rest : List Nat) (ctx : List String),
    wfSeq ctx ps = true → wfIdxL mp ps = true → s.stack = top :: rest → Dom s.st ctx →
    NP (ctx ++ namesL ps) (implFields mp ns ps tfn tfv s)
  | [], ps, tfn, tfv, s, top, rest, ctx, _, _, _, hd => by
    simp only [implFields]; exact hd.mono (fun x hx => List.mem_append_left _ hx)
  | _ :: _, [], tfn, tfv, s, top, rest, ctx, _, _, _, hd => by
    simp only [implFields]; exact hd.mono (fun x hx => List.mem_append_left _ hx)
  | n :: ns, p :: ps, tfn, tfv, s, top, rest, ctx, hwf, hidx, hs, hd => by
    simp only [wfIdxL, Bool.and_eq_true] at hidx
    obtain ⟨hip, hips⟩ := hidx
    simp only [wfSeq, Bool.and_eq_true] at hwf
    obtain ⟨hwp, hwps⟩ := hwf
    have hassoc : ctx ++ names p ++ namesL ps = ctx ++ namesL (p :: ps) := by
      simp [namesL, List.append_assoc]
    simp only [implFields]
    cases hl : lookupField n tfn tfv with
    | none => simp [NP]
    | some bv =>
      simp only []
      have ih := impl_np mp p bv s top rest ctx hwp hip hs hd
      have ir := impl_rel mp p bv s top rest hip hs
      cases hr : impl mp p bv s with
      | ok v s' =>
        rw [hr] at ih ir
        obtain ⟨⟨top', f⟩, _⟩ := ir
        have ih2 := implFields_np mp ns ps tfn tfv s' top' rest (ctx ++ names p) hwps hips f.stk ih
        rw [hassoc] at ih2
        exact ih2
      | fail s' =>
        rw [hr] at ih
        exact Dom.mono (fun x hx => by
          simp only [namesL, List.mem_append] at hx ⊢
          rcases hx with h | h
          · exact Or.inl h
          · exact Or.inr (Or.inl h)) ih
      | panic k => rw [hr] at ih; exact ih
end

theorem no_panic (mp : List String) (p : Pat) (t : Tree)
    (hwf : wf [] p = true) (hidx : wfIdx mp p = true) : implMatch mp p t ≠ .panic .created := by
  have h := impl_np mp p t (MState.push { st := Env.empty, stack := [] }) 0 [] [] hwf hidx rfl
    (by intro x hx; simp [MState.push, Env.empty] at hx)
  unfold implMatch
  cases hr : impl mp p t (MState.push { st := Env.empty, stack := [] }) with
  | ok v s => simp
  | fail s => simp
  | panic k =>
    rw [hr] at h
    simp only [Outcome.panic.injEq, ne_eq]
    exact h


end Verif.C09
