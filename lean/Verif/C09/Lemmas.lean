import Verif.C09.Model
/-
C09 — helper lemmas: 64-bit masks, Matcher.pop, the frame invariant.
-/
namespace Verif.C09

/-! ### masks -/

theorem and_two_pow_ne_zero (m i : Nat) : ((m &&& 2 ^ i) != 0) = m.testBit i := by
  cases hb : m.testBit i
  · have : m &&& 2 ^ i = 0 := by
      apply Nat.eq_of_testBit_eq
      intro j
      rw [Nat.testBit_and, Nat.testBit_two_pow, Nat.zero_testBit]
      by_cases h : i = j
      · subst h; simp [hb]
      · simp [h]
    simp [this]
  · have h1 : (m &&& 2 ^ i).testBit i = true := by
      rw [Nat.testBit_and, Nat.testBit_two_pow_self, hb]; rfl
    have : m &&& 2 ^ i ≠ 0 := by
      intro h0; rw [h0, Nat.zero_testBit] at h1; cases h1
    simp [this]

theorem hasBit_eq (m i : Nat) : hasBit m i = (decide (i < 64) && m.testBit i) := by
  unfold hasBit
  rw [Nat.one_shiftLeft]
  by_cases h : i < 64
  · have : 2 ^ i % 2 ^ 64 = 2 ^ i := Nat.mod_eq_of_lt (Nat.pow_lt_pow_right (by omega) h)
    rw [this, and_two_pow_ne_zero]
    simp [h]
  · have : 2 ^ i % 2 ^ 64 = 0 := by
      have : i = 64 + (i - 64) := by omega
      rw [this, Nat.pow_add]; exact Nat.mul_mod_right _ _
    simp [this, h]

theorem hasBit_zero (i : Nat) : hasBit 0 i = false := by simp [hasBit_eq]

theorem hasBit_or (a b i : Nat) : hasBit (a ||| b) i = (hasBit a i || hasBit b i) := by
  simp only [hasBit_eq, Nat.testBit_or]; cases decide (i < 64) <;> simp

theorem hasBit_setBit (m idx i : Nat) :
    hasBit (setBit m idx) i = (hasBit m i || (decide (i < 64) && decide (idx = i))) := by
  unfold setBit
  rw [hasBit_or]
  congr 1
  rw [hasBit_eq, Nat.one_shiftLeft, Nat.testBit_mod_two_pow, Nat.testBit_two_pow]
  cases decide (i < 64) <;> simp

theorem hasBit_setBit_self {m idx : Nat} (h : idx < 64) : hasBit (setBit m idx) idx = true := by
  simp [hasBit_setBit, h]

theorem hasBit_setBit_of_hasBit {m idx i : Nat} (h : hasBit m i = true) : hasBit (setBit m idx) i = true := by
  simp [hasBit_setBit, h]

/-! ### environments and Matcher.pop -/

/-- `x` is the name of a bit set in `mask` (the names Matcher.pop deletes) -/
def Named (mp : List String) (mask : Nat) (x : String) : Prop :=
  ∃ i, mp[i]? = some x ∧ hasBit mask i = true

theorem Named.mono {mp : List String} {a b : Nat} {x : String}
    (h : ∀ i, hasBit a i = true → hasBit b i = true) : Named mp a x → Named mp b x := by
  rintro ⟨i, h1, h2⟩; exact ⟨i, h1, h i h2⟩

theorem not_Named_zero {mp : List String} {x : String} : ¬ Named mp 0 x := by
  rintro ⟨i, _, h2⟩; simp [hasBit_zero] at h2

theorem delFrom_none (mask : Nat) : ∀ (ns : List String) (i : Nat) (σ : Env) (x : String),
    σ x = none → delFrom mask i ns σ x = none := by
  intro ns
  induction ns with
  | nil => intro i σ x h; simpa [delFrom] using h
  | cons n ns ih =>
    intro i σ x h
    simp only [delFrom]
    apply ih
    split
    · simp only [Env.del]; split <;> simp_all
    · exact h

theorem delFrom_hit (mask : Nat) : ∀ (ns : List String) (i : Nat) (σ : Env) (x : String),
    (∃ j, ns[j]? = some x ∧ hasBit mask (i + j) = true) → delFrom mask i ns σ x = none := by
  intro ns
  induction ns with
  | nil => intro i σ x ⟨j, h, _⟩; simp at h
  | cons n ns ih =>
    intro i σ x ⟨j, h1, h2⟩
    simp only [delFrom]
    cases j with
    | zero =>
      simp at h1 h2
      subst h1
      apply delFrom_none
      simp [h2, Env.del]
    | succ j =>
      apply ih
      refine ⟨j, by simpa using h1, ?_⟩
      have : i + 1 + j = i + (j + 1) := by omega
      rw [this]; exact h2

theorem delFrom_miss (mask : Nat) : ∀ (ns : List String) (i : Nat) (σ : Env) (x : String),
    ¬ (∃ j, ns[j]? = some x ∧ hasBit mask (i + j) = true) → delFrom mask i ns σ x = σ x := by
  intro ns
  induction ns with
  | nil => intro i σ x _; rfl
  | cons n ns ih =>
    intro i σ x h
    simp only [delFrom]
    rw [ih]
    · split
      · rename_i hb
        simp only [Env.del]
        split
        · rename_i hx
          exfalso; apply h; exact ⟨0, by simp [hx], by simpa using hb⟩
        · rfl
      · rfl
    · rintro ⟨j, h1, h2⟩
      apply h
      refine ⟨j + 1, by simpa using h1, ?_⟩
      have : i + (j + 1) = i + 1 + j := by omega
      rw [this]; exact h2

theorem pop_stack {mp : List String} {s : MState} {top : Nat} {rest : List Nat}
    (hs : s.stack = top :: rest) : (s.pop mp).stack = rest := by
  simp [MState.pop, hs]

theorem pop_st_hit {mp : List String} {s : MState} {top : Nat} {rest : List Nat} {x : String}
    (hs : s.stack = top :: rest) (h : Named mp top x) : (s.pop mp).st x = none := by
  obtain ⟨i, h1, h2⟩ := h
  have hne : (top != 0) = true := by
    cases ht : top != 0
    · have : top = 0 := by simpa using ht
      subst this; simp [hasBit_zero] at h2
    · rfl
  simp only [MState.pop, hs, hne, if_true]
  exact delFrom_hit _ _ _ _ _ ⟨i, h1, by simpa using h2⟩

theorem pop_st_miss {mp : List String} {s : MState} {top : Nat} {rest : List Nat} {x : String}
    (hs : s.stack = top :: rest) (h : ¬ Named mp top x) : (s.pop mp).st x = s.st x := by
  simp only [MState.pop, hs]
  split
  · apply delFrom_miss
    rintro ⟨j, h1, h2⟩
    exact h ⟨j, h1, by simpa using h2⟩
  · rfl

/-! ### the frame invariant -/


/-- Frame invariant between the state `s` on entry of a (sub)match running in a frame whose
mask was `top` (on top of `rest`) and a later state `s'` of the same frame with mask `top'`. -/
structure Frame (mp : List String) (s s' : MState) (top : Nat) (rest : List Nat) (top' : Nat) : Prop where
  stk : s'.stack = top' :: rest
  mono : ∀ i, hasBit top i = true → hasBit top' i = true
  keep : ∀ x v, s.st x = some v → s'.st x = some v
  new : ∀ x, s.st x = none → s'.st x ≠ none → Named mp top' x
  fresh : ∀ i x, hasBit top' i = true → hasBit top i = false → mp[i]? = some x → s.st x = none

theorem Frame.refl {mp : List String} {s : MState} {top : Nat} {rest : List Nat}
    (hs : s.stack = top :: rest) : Frame mp s s top rest top :=
  ⟨hs, fun _ h => h, fun _ _ h => h, fun _ h h' => absurd h h', fun i _ h h' => by simp [h] at h'⟩

theorem Frame.trans {mp : List String} {s s1 s2 : MState} {top top1 top2 : Nat} {rest : List Nat}
    (f1 : Frame mp s s1 top rest top1) (f2 : Frame mp s1 s2 top1 rest top2) :
    Frame mp s s2 top rest top2 := by
  refine ⟨f2.stk, fun i h => f2.mono i (f1.mono i h), fun x v h => f2.keep x v (f1.keep x v h), ?_, ?_⟩
  · intro x h0 h2
    cases h1 : s1.st x with
    | none => exact f2.new x h1 h2
    | some w => exact Named.mono f2.mono (f1.new x h0 (by simp [h1]))
  · intro i x hb2 hb0 hm
    cases hb1 : hasBit top1 i with
    | true => exact f1.fresh i x hb1 hb0 hm
    | false =>
      have h1 := f2.fresh i x hb2 hb1 hm
      cases h0 : s.st x with
      | none => rfl
      | some w => rw [f1.keep x w h0] at h1; cases h1

/-- Matcher.set after a sub-match, for a name that was unbound when the sub-match started -/
theorem Frame.set {mp : List String} {s s1 : MState} {top top1 : Nat} {rest : List Nat}
    {name : String} {idx : Nat} (v : Tree)
    (f : Frame mp s s1 top rest top1) (h0 : s.st name = none) (hi : idx < 64) (hm : mp[idx]? = some name) :
    Frame mp s (s1.set name idx v) top rest (setBit top1 idx) := by
  refine ⟨by simp [MState.set, f.stk], fun i h => hasBit_setBit_of_hasBit (f.mono i h), ?_, ?_, ?_⟩
  · intro x w h
    have hx : x ≠ name := by intro e; subst e; rw [h0] at h; cases h
    simp [MState.set, Env.set, hx, f.keep x w h]
  · intro x hx0 hx1
    by_cases hx : x = name
    · subst hx; exact ⟨idx, hm, hasBit_setBit_self hi⟩
    · have : s1.st x ≠ none := by simpa [MState.set, Env.set, hx] using hx1
      exact Named.mono (fun i h => hasBit_setBit_of_hasBit h) (f.new x hx0 this)
  · intro i x hb hb0 hmi
    rw [hasBit_setBit] at hb
    cases hb1 : hasBit top1 i with
    | true => exact f.fresh i x hb1 hb0 hmi
    | false =>
      simp [hb1] at hb
      obtain ⟨_, e⟩ := hb
      subst e
      rw [hm] at hmi; cases hmi; exact h0

@[simp] theorem merge_st (s : MState) : s.merge.st = s.st := by
  unfold MState.merge; split <;> rfl

@[simp] theorem push_st (s : MState) : s.push.st = s.st := rfl

/-- a sub-match in a pushed frame that succeeded, then Matcher.merge -/
theorem Frame.merge {mp : List String} {s s' : MState} {top : Nat} {rest : List Nat} {top' : Nat}
    (f : Frame mp s.push s' 0 (top :: rest) top') :
    Frame mp s s'.merge top rest (top ||| top') := by
  refine ⟨by simp [MState.merge, f.stk], fun i h => by simp [hasBit_or, h], ?_, ?_, ?_⟩
  · intro x v h; rw [merge_st]; exact f.keep x v h
  · intro x h0 h1
    rw [merge_st] at h1
    exact Named.mono (fun i h => by simp [hasBit_or, h]) (f.new x h0 h1)
  · intro i x hb hb0 hm
    rw [hasBit_or, hb0] at hb
    exact f.fresh i x (by simpa using hb) (hasBit_zero i) hm

/-- a sub-match in a pushed frame, then Matcher.pop: the state is exactly what it was -/
theorem Frame.pop_st {mp : List String} {s s' : MState} {top : Nat} {rest : List Nat} {top' : Nat}
    (f : Frame mp s.push s' 0 (top :: rest) top') : (s'.pop mp).st = s.st := by
  funext x
  by_cases hn : Named mp top' x
  · rw [pop_st_hit f.stk hn]
    obtain ⟨i, h1, h2⟩ := hn
    exact (f.fresh i x h2 (hasBit_zero i) h1).symm
  · rw [pop_st_miss f.stk hn]
    cases h0 : s.st x with
    | some v => exact f.keep x v h0
    | none =>
      cases h1 : s'.st x with
      | none => rfl
      | some w => exact absurd (f.new x h0 (by simp [h1])) hn

theorem Frame.pop_stack {mp : List String} {s s' : MState} {top : Nat} {rest : List Nat} {top' : Nat}
    (f : Frame mp s.push s' 0 (top :: rest) top') : (s'.pop mp).stack = top :: rest :=
  Verif.C09.pop_stack f.stk

theorem Frame.pop {mp : List String} {s s' : MState} {top : Nat} {rest : List Nat} {top' : Nat}
    (f : Frame mp s.push s' 0 (top :: rest) top') : Frame mp s (s'.pop mp) top rest top := by
  refine ⟨f.pop_stack, fun _ h => h, ?_, ?_, ?_⟩
  · intro x v h; rw [f.pop_st]; exact h
  · intro x h0 h1; rw [f.pop_st] at h1; exact absurd h0 h1
  · intro i x hb hb0; simp [hb] at hb0


end Verif.C09
