import Verif.C09.Refine
/-
C09 — a name that occurs several times is bound consistently: the final environment is one
assignment under which every binding occurrence on a successful path agrees.
-/
namespace Verif.C09


/-- `e'` extends `e` -/
def Env.le (e e' : Env) : Prop := ∀ x w, e x = some w → e' x = some w

theorem Env.le_refl (e : Env) : e.le e := fun _ _ h => h
theorem Env.le_trans {a b c : Env} (h1 : a.le b) (h2 : b.le c) : a.le c := fun x w h => h2 x w (h1 x w h)
theorem Env.le_set {e : Env} {n : String} (v : Tree) (h : e n = none) : e.le (e.set n v) := by
  intro x w hx
  have : x ≠ n := by intro e'; subst e'; rw [h] at hx; cases hx
  simp [Env.set, this, hx]

/-- The specification only ever extends the environment, and leaves names alone that do not
occur in the pattern outside of a `Not` operand (`names`). -/
def Ext (e e' : Env) (l : List String) : Prop := e.le e' ∧ ∀ n, n ∉ l → e' n = e n

theorem Ext.refl (e : Env) (l : List String) : Ext e e l := ⟨Env.le_refl e, fun _ _ => rfl⟩

theorem Ext.trans {a b c : Env} {l1 l2 l : List String} (h1 : Ext a b l1) (h2 : Ext b c l2)
    (s1 : ∀ x, x ∈ l1 → x ∈ l) (s2 : ∀ x, x ∈ l2 → x ∈ l) : Ext a c l :=
  ⟨Env.le_trans h1.1 h2.1, fun n hn => by
    rw [h2.2 n (fun h => hn (s2 n h)), h1.2 n (fun h => hn (s1 n h))]⟩

theorem Ext.weaken {a b : Env} {l1 l : List String} (h : Ext a b l1) (s : ∀ x, x ∈ l1 → x ∈ l) : Ext a b l :=
  ⟨h.1, fun n hn => h.2 n (fun h' => hn (s n h'))⟩

mutual
theorem names_sub_allNames : ∀ (p : Pat) (x : String), x ∈ names p → x ∈ allNames p
  | .binding n _ sub, x, h => by
    simp only [names, allNames, List.mem_cons] at h ⊢
    exact h.elim Or.inl (fun h' => Or.inr (names_sub_allNames sub x h'))
  | .or alts, x, h => by simp only [names, allNames] at h ⊢; exact namesL_sub_allNamesL alts x h
  | .not _, x, h => by simp [names] at h
  | .list hd tl, x, h => by
    simp only [names, allNames, List.mem_append] at h ⊢
    exact h.elim (fun h' => Or.inl (names_sub_allNames hd x h')) (fun h' => Or.inr (names_sub_allNames tl x h'))
  | .node _ _ fs, x, h => by simp only [names, allNames] at h ⊢; exact namesL_sub_allNamesL fs x h
  | .gonil, x, h => by simp [names] at h
  | .any, x, h => by simp [names] at h
  | .nil, x, h => by simp [names] at h
  | .str _, x, h => by simp [names] at h
theorem namesL_sub_allNamesL : ∀ (ps : List Pat) (x : String), x ∈ namesL ps → x ∈ allNamesL ps
  | [], x, h => by simp [namesL] at h
  | p :: ps, x, h => by
    simp only [namesL, allNamesL, List.mem_append] at h ⊢
    exact h.elim (fun h' => Or.inl (names_sub_allNames p x h')) (fun h' => Or.inr (namesL_sub_allNamesL ps x h'))
end

mutual
theorem spec_ext : ∀ (p : Pat) (t : Tree) (e : Env) (v : Tree) (e' : Env),
    spec p t e = some (v, e') → Ext e e' (names p)
  | .gonil, t, e, v, e', h => by
    simp only [spec] at h; split at h <;> simp at h; rw [← h.2]; exact Ext.refl _ _
  | .any, t, e, v, e', h => by
    simp only [spec] at h; simp at h; rw [← h.2]; exact Ext.refl _ _
  | .nil, t, e, v, e', h => by
    simp only [spec] at h; split at h <;> simp at h; rw [← h.2]; exact Ext.refl _ _
  | .str x, t, e, v, e', h => by
    simp only [spec] at h; split at h <;> simp at h; rw [← h.2]; exact Ext.refl _ _
  | .binding name idx sub, t, e, v, e', h => by
    simp only [spec] at h
    by_cases hn : sub.isNilPat = true
    · simp only [hn, if_true] at h
      cases h0 : e name with
      | some w =>
        simp only [h0] at h
        split at h <;> simp at h
        rw [← h.2]; exact Ext.refl _ _
      | none =>
        simp only [h0] at h
        simp at h
        rw [← h.2]
        refine ⟨Env.le_set _ h0, fun n hn' => ?_⟩
        have : n ≠ name := by intro e'; subst e'; exact hn' (by simp [names])
        simp [Env.set, this]
    · simp only [hn] at h
      cases h0 : e name with
      | some w => simp [h0] at h
      | none =>
        simp only [h0] at h
        cases hs : spec sub t e with
        | none => simp [hs] at h
        | some r =>
          obtain ⟨v1, e1⟩ := r
          simp only [hs] at h
          simp at h
          have ih := spec_ext sub t e v1 e1 hs
          rw [← h.2]
          refine ⟨?_, fun n hn' => ?_⟩
          · intro x w hx
            have : x ≠ name := by intro e'; subst e'; rw [h0] at hx; cases hx
            simp [Env.set, this, ih.1 x w hx]
          · have h1 : n ≠ name := by intro e'; subst e'; exact hn' (by simp [names])
            have h2 : n ∉ names sub := fun hm => hn' (by simp [names, hm])
            simp [Env.set, h1, ih.2 n h2]
  | .or alts, t, e, v, e', h => by
    simp only [spec] at h
    simpa [names] using specOr_ext alts t e v e' h
  | .not sub, t, e, v, e', h => by
    simp only [spec] at h
    split at h <;> simp at h
    rw [← h.2]; exact Ext.refl _ _
  | .list hd tl, t, e, v, e', h => by
    simp only [spec] at h
    split at h
    · rename_i ek isNil es hp
      by_cases hn : hd.isNilPat = true
      · simp only [hn, if_true] at h
        split at h <;> simp at h
        rw [← h.2]; exact Ext.refl _ _
      · simp only [hn, Bool.false_eq_true, if_false] at h
        cases es with
        | nil => simp at h
        | cons x rest =>
          simp only [] at h
          cases h1 : spec hd x e with
          | none => simp [h1] at h
          | some r1 =>
            obtain ⟨v1, e1⟩ := r1
            simp only [h1] at h
            cases h2 : spec tl (.slice ek false rest) e1 with
            | none => simp [h2] at h
            | some r2 =>
              obtain ⟨v2, e2⟩ := r2
              simp only [h2] at h
              simp at h
              rw [← h.2]
              exact Ext.trans (spec_ext hd x e v1 e1 h1) (spec_ext tl _ e1 v2 e2 h2)
                (fun y hy => by simp [names, hy]) (fun y hy => by simp [names, hy])
    · simp at h
  | .node kind fnames fields, t, e, v, e', h => by
    simp only [spec] at h
    split at h
    · rename_i k tfn tfv self ht
      by_cases hk : kind = k
      · simp only [hk, if_true] at h
        cases hf : specFields fnames fields tfn tfv e with
        | none => simp [hf] at h
        | some e1 =>
          simp only [hf] at h
          simp at h
          rw [← h.2]
          simpa [names] using specFields_ext fnames fields tfn tfv e e1 hf
      · simp [hk] at h
    · simp at h

theorem specOr_ext : ∀ (alts : List Pat) (t : Tree) (e : Env) (v : Tree) (e' : Env),
    specOr alts t e = some (v, e') → Ext e e' (namesL alts)
  | [], t, e, v, e', h => by simp [specOr] at h
  | a :: as, t, e, v, e', h => by
    simp only [specOr] at h
    cases ha : spec a t e with
    | some r =>
      simp only [ha] at h
      simp at h
      subst h
      exact (spec_ext a t e v e' ha).weaken (fun y hy => by simp [namesL, hy])
    | none =>
      simp only [ha] at h
      exact (specOr_ext as t e v e' h).weaken (fun y hy => by simp [namesL, hy])

theorem specFields_ext : ∀ (ns : List String) (ps : List Pat) (tfn : List String) (tfv : List Tree) (e e' : Env),
    specFields ns ps tfn tfv e = some e' → Ext e e' (namesL ps)
  | [], ps, tfn, tfv, e, e', h => by
    simp only [specFields] at h; simp at h; rw [← h]; exact Ext.refl _ _
  | _ :: _, [], tfn, tfv, e, e', h => by
    simp only [specFields] at h; simp at h; rw [← h]; exact Ext.refl _ _
  | n :: ns, p :: ps, tfn, tfv, e, e', h => by
    simp only [specFields] at h
    cases hl : lookupField n tfn tfv with
    | none => simp [hl] at h
    | some bv =>
      simp only [hl] at h
      cases hp : spec p bv e with
      | none => simp [hp] at h
      | some r =>
        obtain ⟨v1, e1⟩ := r
        simp only [hp] at h
        exact Ext.trans (spec_ext p bv e v1 e1 hp) (specFields_ext ns ps tfn tfv e1 e' h)
          (fun y hy => by simp [namesL, hy]) (fun y hy => by simp [namesL, hy])
end




mutual
/-- `Sat σ p t v`: pattern `p` matches `t` with value `v` along some path on which *every* binding
occurrence of a name `n` is read against the one final assignment `σ`: it either is the value
that `σ n` holds, or it matched the value `σ n` holds (`astEq`).  Operands of `Not` bind nothing
visible and are not constrained. -/
def Sat (σ : Env) : Pat → Tree → Tree → Prop
  | .gonil, t, v => (peelR t).isNilv = true ∧ v = .nilv
  | .any, t, v => v = peelR t
  | .nil, t, v => nilMatch (peelR t) = true ∧ v = .nilv
  | .str x, t, v => strMatch x (peelR t) = some v
  | .binding n _ sub, t, v =>
    if sub.isNilPat then
      ∃ w, σ n = some w ∧ ((w = peelR t ∧ v = peelR t) ∨ (astEq w t = .yes ∧ v = recallVal w t))
    else Sat σ sub t v ∧ σ n = some v
  | .or alts, t, v => SatAny σ alts t v
  | .not _, t, v => v = peelR t
  | .list h tl, t, v =>
    ∃ ek isNil es, peelR t = .slice ek isNil es ∧ v = .slice ek isNil es ∧
      (if h.isNilPat then es = []
       else ∃ x rest v1 v2, es = x :: rest ∧ Sat σ h x v1 ∧ Sat σ tl (.slice ek false rest) v2)
  | .node kind fnames fields, t, v =>
    ∃ tfn tfv, target t = .ptr kind tfn tfv v ∧ SatFields σ fnames fields tfn tfv
def SatAny (σ : Env) : List Pat → Tree → Tree → Prop
  | [], _, _ => False
  | a :: as, t, v => Sat σ a t v ∨ SatAny σ as t v
/-- every field pattern is satisfied by the field of that name -/
def SatFields (σ : Env) : List String → List Pat → List String → List Tree → Prop
  | n :: ns, p :: ps, tfn, tfv =>
    (∃ bv v, lookupField n tfn tfv = some bv ∧ Sat σ p bv v) ∧ SatFields σ ns ps tfn tfv
  | _, _, _, _ => True
end

mutual
theorem spec_sat (σ : Env) : ∀ (p : Pat) (t : Tree) (e : Env) (v : Tree) (e' : Env),
    selfFree p = true → spec p t e = some (v, e') → e'.le σ → Sat σ p t v
  | .gonil, t, e, v, e', _, h, _ => by
    simp only [spec] at h; split at h <;> simp at h
    rename_i hc; exact ⟨hc, h.1.symm⟩
  | .any, t, e, v, e', _, h, _ => by
    simp only [spec] at h; simp at h; exact h.1.symm
  | .nil, t, e, v, e', _, h, _ => by
    simp only [spec] at h; split at h <;> simp at h
    rename_i hc; exact ⟨hc, h.1.symm⟩
  | .str x, t, e, v, e', _, h, _ => by
    simp only [spec] at h
    cases hm : strMatch x (peelR t) with
    | none => simp [hm] at h
    | some w => simp [hm] at h; simp only [Sat, hm, h.1]
  | .binding name idx sub, t, e, v, e', hsf, h, hle => by
    simp only [spec] at h
    simp only [Sat]
    by_cases hn : sub.isNilPat = true
    · simp only [hn, if_true] at h ⊢
      cases h0 : e name with
      | some w =>
        simp only [h0] at h
        split at h <;> simp at h
        rename_i ha
        refine ⟨w, hle name w (by rw [← h.2]; exact h0), Or.inr ⟨ha, h.1.symm⟩⟩
      | none =>
        simp only [h0] at h
        simp at h
        refine ⟨peelR t, hle name _ (by rw [← h.2]; simp [Env.set]), Or.inl ⟨rfl, h.1.symm⟩⟩
    · simp only [hn, Bool.false_eq_true, if_false] at h ⊢
      simp only [selfFree, Bool.and_eq_true, Bool.not_eq_true', List.contains_eq_mem,
        decide_eq_false_iff_not] at hsf
      obtain ⟨hnot, hsfsub⟩ := hsf
      cases h0 : e name with
      | some w => simp [h0] at h
      | none =>
        simp only [h0] at h
        cases hs : spec sub t e with
        | none => simp [hs] at h
        | some r =>
          obtain ⟨v1, e1⟩ := r
          simp only [hs] at h
          simp at h
          obtain ⟨hv, he⟩ := h
          subst hv
          have hx := spec_ext sub t e v1 e1 hs
          have h1 : e1 name = none := by
            rw [hx.2 name (fun hm => hnot (names_sub_allNames sub name hm))]; exact h0
          have hle1 : e1.le σ := Env.le_trans (Env.le_set v1 h1) (by rw [he]; exact hle)
          exact ⟨spec_sat σ sub t e v1 e1 hsfsub hs hle1, hle name v1 (by rw [← he]; simp [Env.set])⟩
  | .or alts, t, e, v, e', hsf, h, hle => by
    simp only [spec] at h
    simp only [Sat]
    exact specOr_sat σ alts t e v e' (by simpa [selfFree] using hsf) h hle
  | .not sub, t, e, v, e', _, h, _ => by
    simp only [spec] at h
    split at h <;> simp at h
    exact h.1.symm
  | .list hd tl, t, e, v, e', hsf, h, hle => by
    simp only [selfFree, Bool.and_eq_true] at hsf
    simp only [spec] at h
    simp only [Sat]
    split at h
    · rename_i ek isNil es hp
      by_cases hn : hd.isNilPat = true
      · simp only [hn, if_true] at h
        split at h <;> simp at h
        rename_i hem
        refine ⟨ek, isNil, es, hp, h.1.symm, ?_⟩
        simp only [hn, if_true]
        simpa using hem
      · simp only [hn, Bool.false_eq_true, if_false] at h
        cases es with
        | nil => simp at h
        | cons x rest =>
          simp only [] at h
          cases h1 : spec hd x e with
          | none => simp [h1] at h
          | some r1 =>
            obtain ⟨v1, e1⟩ := r1
            simp only [h1] at h
            cases h2 : spec tl (.slice ek false rest) e1 with
            | none => simp [h2] at h
            | some r2 =>
              obtain ⟨v2, e2⟩ := r2
              simp only [h2] at h
              simp at h
              obtain ⟨hv, he⟩ := h
              subst he
              refine ⟨ek, isNil, x :: rest, hp, hv.symm, ?_⟩
              simp only [hn, Bool.false_eq_true, if_false]
              have hx2 := spec_ext tl _ e1 v2 e2 h2
              exact ⟨x, rest, v1, v2, rfl,
                spec_sat σ hd x e v1 e1 hsf.1 h1 (Env.le_trans hx2.1 hle),
                spec_sat σ tl _ e1 v2 e2 hsf.2 h2 hle⟩
    · simp at h
  | .node kind fnames fields, t, e, v, e', hsf, h, hle => by
    simp only [spec] at h
    simp only [Sat]
    split at h
    · rename_i k tfn tfv self ht
      by_cases hk : kind = k
      · simp only [hk, if_true] at h
        cases hf : specFields fnames fields tfn tfv e with
        | none => simp [hf] at h
        | some e1 =>
          simp only [hf] at h
          simp at h
          obtain ⟨hv, he⟩ := h
          subst he hv hk
          exact ⟨tfn, tfv, ht, specFields_sat σ fnames fields tfn tfv e e1 (by simpa [selfFree] using hsf) hf hle⟩
      · simp [hk] at h
    · simp at h

theorem specOr_sat (σ : Env) : ∀ (alts : List Pat) (t : Tree) (e : Env) (v : Tree) (e' : Env),
    selfFreeL alts = true → specOr alts t e = some (v, e') → e'.le σ → SatAny σ alts t v
  | [], t, e, v, e', _, h, _ => by simp [specOr] at h
  | a :: as, t, e, v, e', hsf, h, hle => by
    simp only [selfFreeL, Bool.and_eq_true] at hsf
    simp only [specOr] at h
    simp only [SatAny]
    cases ha : spec a t e with
    | some r =>
      simp only [ha] at h
      simp at h
      subst h
      exact Or.inl (spec_sat σ a t e v e' hsf.1 ha hle)
    | none =>
      simp only [ha] at h
      exact Or.inr (specOr_sat σ as t e v e' hsf.2 h hle)

theorem specFields_sat (σ : Env) : ∀ (ns : List String) (ps : List Pat) (tfn : List String) (tfv : List Tree) (e e' : Env),
    selfFreeL ps = true → specFields ns ps tfn tfv e = some e' → e'.le σ →
    SatFields σ ns ps tfn tfv
  | [], ps, tfn, tfv, e, e', _, _, _ => by simp [SatFields]
  | _ :: _, [], tfn, tfv, e, e', _, _, _ => by simp [SatFields]
  | n :: ns, p :: ps, tfn, tfv, e, e', hsf, h, hle => by
    simp only [selfFreeL, Bool.and_eq_true] at hsf
    simp only [specFields] at h
    simp only [SatFields]
    cases hl : lookupField n tfn tfv with
    | none => simp [hl] at h
    | some bv =>
      simp only [hl] at h
      cases hp : spec p bv e with
      | none => simp [hp] at h
      | some r =>
        obtain ⟨v1, e1⟩ := r
        simp only [hp] at h
        have hx := specFields_ext ns ps tfn tfv e1 e' h
        exact ⟨⟨bv, v1, rfl, spec_sat σ p bv e v1 e1 hsf.1 hp (Env.le_trans hx.1 hle)⟩,
          specFields_sat σ ns ps tfn tfv e1 e' hsf.2 h hle⟩
end


end Verif.C09
