import Verif.C09.Model
/-
C09 — the explicit (Binding "name" pattern) form and the name / name@pattern shorthand are
interchangeable.
-/
namespace Verif.C09


mutual
/-- forget whether a recalling/creating-by-Any binding carries `nil` (the explicit
`(Binding "x" nil)`) or nothing (the bare name `x`): `isNil` treats both alike -/
def normP : Pat → Pat
  | .binding n i sub => .binding n i (if sub.isNilPat then .gonil else normP sub)
  | .or alts => .or (normPL alts)
  | .not sub => .not (normP sub)
  | .list h t => .list (normP h) (normP t)
  | .node k fn fs => .node k fn (normPL fs)
  | .gonil => .gonil
  | .any => .any
  | .nil => .nil
  | .str s => .str s
def normPL : List Pat → List Pat
  | [] => []
  | p :: ps => normP p :: normPL ps
end

theorem isNilPat_normP (p : Pat) : (normP p).isNilPat = p.isNilPat := by
  cases p <;> simp [normP, Pat.isNilPat]

mutual
theorem normP_idem : ∀ p : Pat, normP (normP p) = normP p
  | .binding n i sub => by
    simp only [normP]
    by_cases h : sub.isNilPat = true
    · rw [if_pos h]; simp [Pat.isNilPat]
    · rw [if_neg h]; simp [h, isNilPat_normP, normP_idem sub]
  | .or alts => by simp [normP, normPL_idem alts]
  | .not sub => by simp [normP, normP_idem sub]
  | .list h t => by simp [normP, normP_idem h, normP_idem t]
  | .node k fn fs => by simp [normP, normPL_idem fs]
  | .gonil => rfl
  | .any => rfl
  | .nil => rfl
  | .str s => rfl
theorem normPL_idem : ∀ ps : List Pat, normPL (normPL ps) = normPL ps
  | [] => rfl
  | p :: ps => by simp [normPL, normP_idem p, normPL_idem ps]
end

mutual
theorem impl_normP (mp : List String) : ∀ (p : Pat) (t : Tree) (s : MState),
    impl mp (normP p) t s = impl mp p t s
  | .binding n i sub, t, s => by
    simp only [normP]
    by_cases h : sub.isNilPat = true
    · rw [if_pos h]
      have hg : Pat.gonil.isNilPat = true := rfl
      simp only [impl, h, hg, if_true]
    · rw [if_neg h]; simp only [impl, h, isNilPat_normP, impl_normP mp sub]
  | .or alts, t, s => by simp only [normP, impl]; exact implOr_normP mp alts t s
  | .not sub, t, s => by simp only [normP, impl, impl_normP mp sub]
  | .list h tl, t, s => by
    simp only [normP, impl, isNilPat_normP]
    simp only [impl_normP mp h, impl_normP mp tl]
  | .node k fn fs, t, s => by simp only [normP, impl, implFields_normP mp fn fs]
  | .gonil, _, _ => rfl
  | .any, _, _ => rfl
  | .nil, _, _ => rfl
  | .str _, _, _ => rfl
theorem implOr_normP (mp : List String) : ∀ (alts : List Pat) (t : Tree) (s : MState),
    implOr mp (normPL alts) t s = implOr mp alts t s
  | [], _, _ => rfl
  | a :: as, t, s => by
    simp only [normPL, implOr, impl_normP mp a]
    cases impl mp a t s.push with
    | ok v s' => rfl
    | fail s' => exact implOr_normP mp as t _
    | panic k => rfl
theorem implFields_normP (mp : List String) : ∀ (ns : List String) (ps : List Pat) (tfn : List String) (tfv : List Tree) (s : MState),
    implFields mp ns (normPL ps) tfn tfv s = implFields mp ns ps tfn tfv s
  | [], ps, _, _, _ => by cases ps <;> simp [normPL, implFields]
  | _ :: _, [], _, _, _ => by simp [normPL, implFields]
  | n :: ns, p :: ps, tfn, tfv, s => by
    simp only [normPL, implFields]
    cases lookupField n tfn tfv with
    | none => rfl
    | some bv =>
      simp only [impl_normP mp p]
      cases impl mp p bv s with
      | ok v s' => exact implFields_normP mp ns ps tfn tfv s'
      | fail s' => rfl
      | panic k => rfl
end

theorem implMatch_normP (mp : List String) (p : Pat) (t : Tree) :
    implMatch mp (normP p) t = implMatch mp p t := by
  simp [implMatch, impl_normP]




mutual
/-- desugar the shorthand: `x` ↦ `(Binding "x" nil)`, `x@(…)` ↦ `(Binding "x" (…))` -/
def Sx.toExplicit : Sx → Sx
  | .bare name => .nodeS "Binding" [.str name, .nilkw]
  | .at name n => .nodeS "Binding" [.str name, n.toExplicit]
  | .nodeS typ args => .nodeS typ (Sx.toExplicitL args)
  | .cons h t => .cons h.toExplicit t.toExplicit
  | .arr es => .arr (Sx.toExplicitL es)
  | .blank => .blank
  | .nilkw => .nilkw
  | .str s => .str s
def Sx.toExplicitL : List Sx → List Sx
  | [] => []
  | x :: xs => x.toExplicit :: Sx.toExplicitL xs
end

def PRel : Except PErr Pat → Except PErr Pat → Prop
  | .ok p, .ok p' => normP p = normP p'
  | .error _, .error _ => True
  | _, _ => False

def ERel : Except PErr (Pat × List String) → Except PErr (Pat × List String) → Prop
  | .ok (p, b), .ok (p', b') => normP p = normP p' ∧ b = b'
  | .error _, .error _ => True
  | _, _ => False

def LRel : Except PErr (List Pat × List String) → Except PErr (List Pat × List String) → Prop
  | .ok (p, b), .ok (p', b') => normPL p = normPL p' ∧ b = b'
  | .error _, .error _ => True
  | _, _ => False

theorem classify_Binding : classify "Binding" = .bindingC := by rfl

theorem normPL_length : ∀ {ps ps' : List Pat}, normPL ps = normPL ps' → ps.length = ps'.length
  | [], [], _ => rfl
  | [], _ :: _, h => by simp [normPL] at h
  | _ :: _, [], h => by simp [normPL] at h
  | _ :: ps, _ :: ps', h => by
    simp only [normPL, List.cons.injEq] at h
    simp [normPL_length h.2]

theorem normP_str {a : Pat} {s : String} (h : normP a = .str s) : a = .str s := by
  cases a <;> simp [normP] at h ⊢
  exact h

theorem normP_binding_congr {n : String} {i : Nat} {a b : Pat} (h : normP a = normP b) :
    normP (.binding n i a) = normP (.binding n i b) := by
  have hn : a.isNilPat = b.isNilPat := by rw [← isNilPat_normP a, ← isNilPat_normP b, h]
  simp only [normP, hn, h]

theorem populate_norm (typ : String) (ps ps' : List Pat) (h : normPL ps = normPL ps') :
    PRel (populate typ ps) (populate typ ps') := by
  unfold populate
  cases classify typ with
  | tyinfo => simp [PRel]
  | unknown => simp [PRel]
  | orC => simp only [PRel, normP, h]
  | anyC =>
    cases ps <;> cases ps' <;> simp [normPL] at h <;> simp [PRel]
  | notC =>
    match ps, ps', h with
    | [], [], _ => simp [PRel]
    | [], _ :: _, h => simp [normPL] at h
    | _ :: _, [], h => simp [normPL] at h
    | [a], [b], h => simp only [normPL, List.cons.injEq] at h; simp only [PRel, normP, h.1]
    | [_], _ :: _ :: _, h => simp [normPL] at h
    | _ :: _ :: _, [_], h => simp [normPL] at h
    | _ :: _ :: _, _ :: _ :: _, _ => simp [PRel]
  | listC =>
    match ps, ps', h with
    | [], [], _ => simp [PRel]
    | [], _ :: _, h => simp [normPL] at h
    | _ :: _, [], h => simp [normPL] at h
    | [_], [_], _ => simp [PRel]
    | [_], _ :: _ :: _, h => simp [normPL] at h
    | _ :: _ :: _, [_], h => simp [normPL] at h
    | [a, b], [a', b'], h =>
      simp only [normPL, List.cons.injEq] at h; simp only [PRel, normP, h.1, h.2.1]
    | [_, _], _ :: _ :: _ :: _, h => simp [normPL] at h
    | _ :: _ :: _ :: _, [_, _], h => simp [normPL] at h
    | _ :: _ :: _ :: _, _ :: _ :: _ :: _, _ => simp [PRel]
  | bindingC =>
    match ps, ps', h with
    | [], [], _ => simp [PRel]
    | [], _ :: _, h => simp [normPL] at h
    | _ :: _, [], h => simp [normPL] at h
    | [_], [_], _ => simp [PRel]
    | [_], _ :: _ :: _, h => simp [normPL] at h
    | _ :: _ :: _, [_], h => simp [normPL] at h
    | [a, b], [a', b'], h =>
      simp only [normPL, List.cons.injEq] at h
      obtain ⟨ha, hb, _⟩ := h
      cases a with
      | str name =>
        have : a' = .str name := normP_str (by rw [← ha]; rfl)
        subst this
        exact normP_binding_congr hb
      | _ =>
        cases a' <;> simp [normP] at ha <;> simp [PRel]
    | [_, _], _ :: _ :: _ :: _, h => simp [normPL] at h
    | _ :: _ :: _ :: _, [_, _], h => simp [normPL] at h
    | _ :: _ :: _ :: _, _ :: _ :: _ :: _, _ => simp [PRel]
  | struct fs =>
    simp only [normPL_length h]
    split
    · simp only [PRel, normP, h]
    · simp [PRel]




theorem normP_binding_inv {a b : Pat} (h : normP a = normP b) :
    (∀ n i sub, a = .binding n i sub → ∃ sub', b = .binding n i sub' ∧ normP (.binding n i sub) = normP (.binding n i sub')) ∧
    ((∀ n i sub, a ≠ .binding n i sub) → ∀ n i sub, b ≠ .binding n i sub) := by
  constructor
  · intro n i sub ha
    subst ha
    cases b <;> simp [normP] at h
    rename_i n' i' sub'
    obtain ⟨h1, h2, h3⟩ := h
    subst h1 h2
    exact ⟨sub', rfl, by simp only [normP, h3]⟩
  · intro hne n i sub hb
    subst hb
    cases a <;> simp [normP] at h
    rename_i n' i' sub'
    exact hne n' i' sub' rfl

/-- Parser.node's index assignment after populateNode, as a function -/
def fixIdx (node : Pat) (bs : List String) : Pat × List String :=
  match node with
  | .binding name _ sub => (.binding name (bindingIndex name bs).1 sub, (bindingIndex name bs).2)
  | n => (n, bs)

theorem elabSx_nodeS (typ : String) (args : List Sx) (bs : List String) :
    elabSx (.nodeS typ args) bs =
      match elabList args bs with
      | .error e => .error e
      | .ok (objs, bs1) =>
        match populate typ objs with
        | .error e => .error e
        | .ok node => .ok (fixIdx node bs1) := by
  simp only [elabSx]
  cases elabList args bs with
  | error e => rfl
  | ok r =>
    obtain ⟨objs, bs1⟩ := r
    simp only []
    cases populate typ objs with
    | error e => rfl
    | ok node => cases node <;> rfl

theorem fixIdx_norm {a b : Pat} (bs : List String) (h : normP a = normP b) :
    normP (fixIdx a bs).1 = normP (fixIdx b bs).1 ∧ (fixIdx a bs).2 = (fixIdx b bs).2 := by
  cases a with
  | binding n i sub =>
    obtain ⟨sub', hb, hn⟩ := (normP_binding_inv h).1 n i sub rfl
    subst hb
    simp only [fixIdx]
    have hs : normP (Pat.binding n i sub) = normP (Pat.binding n i sub') := hn
    simp only [normP, Pat.binding.injEq, true_and] at hs
    constructor
    · simp only [normP, hs]
    · trivial
  | _ =>
    cases b <;> simp [normP] at h <;> simp [fixIdx, normP, h]

theorem mkList_norm : ∀ {ps ps' : List Pat}, normPL ps = normPL ps' → normP (mkList ps) = normP (mkList ps')
  | [], [], _ => rfl
  | [], _ :: _, h => by simp [normPL] at h
  | _ :: _, [], h => by simp [normPL] at h
  | p :: ps, p' :: ps', h => by
    simp only [normPL, List.cons.injEq] at h
    simp only [mkList, normP, h.1, mkList_norm h.2]

mutual
theorem elab_toExplicit : ∀ (s : Sx) (bs : List String), ERel (elabSx s bs) (elabSx s.toExplicit bs)
  | .blank, bs => by simp [Sx.toExplicit, elabSx, ERel]
  | .nilkw, bs => by simp [Sx.toExplicit, elabSx, ERel]
  | .str x, bs => by simp [Sx.toExplicit, elabSx, ERel]
  | .bare name, bs => by
    simp only [Sx.toExplicit, elabSx_nodeS, elabList, elabSx, populate, classify_Binding, fixIdx]
    simp [ERel, normP, Pat.isNilPat]
  | .at name n, bs => by
    have ih := elab_toExplicit n bs
    simp only [Sx.toExplicit, elabSx_nodeS, elabList]
    simp only [elabSx]
    cases h1 : elabSx n bs with
    | error e =>
      rw [h1] at ih
      cases h2 : elabSx n.toExplicit bs with
      | error e' => simp [ERel]
      | ok r => rw [h2] at ih; simp [ERel] at ih
    | ok r =>
      obtain ⟨o, bs1⟩ := r
      rw [h1] at ih
      cases h2 : elabSx n.toExplicit bs with
      | error e' => rw [h2] at ih; simp [ERel] at ih
      | ok r' =>
        obtain ⟨o', bs1'⟩ := r'
        rw [h2] at ih
        obtain ⟨hn, hb⟩ := ih
        subst hb
        simp only [populate, classify_Binding, fixIdx]
        exact ⟨normP_binding_congr hn, rfl⟩
  | .nodeS typ args, bs => by
    have ih := elabList_toExplicit args bs
    simp only [Sx.toExplicit, elabSx_nodeS]
    cases h1 : elabList args bs with
    | error e =>
      rw [h1] at ih
      cases h2 : elabList (Sx.toExplicitL args) bs with
      | error e' => simp [ERel]
      | ok r => rw [h2] at ih; simp [LRel] at ih
    | ok r =>
      obtain ⟨objs, bs1⟩ := r
      rw [h1] at ih
      cases h2 : elabList (Sx.toExplicitL args) bs with
      | error e' => rw [h2] at ih; simp [LRel] at ih
      | ok r' =>
        obtain ⟨objs', bs1'⟩ := r'
        rw [h2] at ih
        obtain ⟨hn, hb⟩ := ih
        subst hb
        have hp := populate_norm typ objs objs' hn
        simp only []
        cases h3 : populate typ objs with
        | error e =>
          rw [h3] at hp
          cases h4 : populate typ objs' with
          | error e' => simp [ERel]
          | ok nd => rw [h4] at hp; simp [PRel] at hp
        | ok nd =>
          rw [h3] at hp
          cases h4 : populate typ objs' with
          | error e' => rw [h4] at hp; simp [PRel] at hp
          | ok nd' =>
            rw [h4] at hp
            exact fixIdx_norm bs1 hp
  | .cons hd tl, bs => by
    have ih1 := elab_toExplicit hd bs
    simp only [Sx.toExplicit, elabSx]
    cases h1 : elabSx hd bs with
    | error e =>
      rw [h1] at ih1
      cases h2 : elabSx hd.toExplicit bs with
      | error e' => simp [ERel]
      | ok r => rw [h2] at ih1; simp [ERel] at ih1
    | ok r =>
      obtain ⟨hp, bs1⟩ := r
      rw [h1] at ih1
      cases h2 : elabSx hd.toExplicit bs with
      | error e' => rw [h2] at ih1; simp [ERel] at ih1
      | ok r' =>
        obtain ⟨hp', bs1'⟩ := r'
        rw [h2] at ih1
        obtain ⟨hn, hb⟩ := ih1
        subst hb
        have ih2 := elab_toExplicit tl bs1
        simp only []
        cases h3 : elabSx tl bs1 with
        | error e =>
          rw [h3] at ih2
          cases h4 : elabSx tl.toExplicit bs1 with
          | error e' => simp [ERel]
          | ok r => rw [h4] at ih2; simp [ERel] at ih2
        | ok r2 =>
          obtain ⟨tp, bs2⟩ := r2
          rw [h3] at ih2
          cases h4 : elabSx tl.toExplicit bs1 with
          | error e' => rw [h4] at ih2; simp [ERel] at ih2
          | ok r2' =>
            obtain ⟨tp', bs2'⟩ := r2'
            rw [h4] at ih2
            obtain ⟨hn2, hb2⟩ := ih2
            subst hb2
            exact ⟨by simp only [normP, hn, hn2], rfl⟩
  | .arr elems, bs => by
    have ih := elabList_toExplicit elems bs
    simp only [Sx.toExplicit, elabSx]
    cases h1 : elabList elems bs with
    | error e =>
      rw [h1] at ih
      cases h2 : elabList (Sx.toExplicitL elems) bs with
      | error e' => simp [ERel]
      | ok r => rw [h2] at ih; simp [LRel] at ih
    | ok r =>
      obtain ⟨objs, bs1⟩ := r
      rw [h1] at ih
      cases h2 : elabList (Sx.toExplicitL elems) bs with
      | error e' => rw [h2] at ih; simp [LRel] at ih
      | ok r' =>
        obtain ⟨objs', bs1'⟩ := r'
        rw [h2] at ih
        obtain ⟨hn, hb⟩ := ih
        subst hb
        exact ⟨mkList_norm hn, rfl⟩

theorem elabList_toExplicit : ∀ (xs : List Sx) (bs : List String),
    LRel (elabList xs bs) (elabList (Sx.toExplicitL xs) bs)
  | [], bs => by simp [Sx.toExplicitL, elabList, LRel]
  | x :: xs, bs => by
    have ih1 := elab_toExplicit x bs
    simp only [Sx.toExplicitL, elabList]
    cases h1 : elabSx x bs with
    | error e =>
      rw [h1] at ih1
      cases h2 : elabSx x.toExplicit bs with
      | error e' => simp [LRel]
      | ok r => rw [h2] at ih1; simp [ERel] at ih1
    | ok r =>
      obtain ⟨p, bs1⟩ := r
      rw [h1] at ih1
      cases h2 : elabSx x.toExplicit bs with
      | error e' => rw [h2] at ih1; simp [ERel] at ih1
      | ok r' =>
        obtain ⟨p', bs1'⟩ := r'
        rw [h2] at ih1
        obtain ⟨hn, hb⟩ := ih1
        subst hb
        have ih2 := elabList_toExplicit xs bs1
        simp only []
        cases h3 : elabList xs bs1 with
        | error e =>
          rw [h3] at ih2
          cases h4 : elabList (Sx.toExplicitL xs) bs1 with
          | error e' => simp [LRel]
          | ok r => rw [h4] at ih2; simp [LRel] at ih2
        | ok r2 =>
          obtain ⟨ps, bs2⟩ := r2
          rw [h3] at ih2
          cases h4 : elabList (Sx.toExplicitL xs) bs1 with
          | error e' => rw [h4] at ih2; simp [LRel] at ih2
          | ok r2' =>
            obtain ⟨ps', bs2'⟩ := r2'
            rw [h4] at ih2
            obtain ⟨hn2, hb2⟩ := ih2
            subst hb2
            exact ⟨by simp only [normPL, hn, hn2], rfl⟩
end


end Verif.C09
