import Verif.C09.Consistent
import Verif.C09.AstEq
/-
C09 — "a name that occurs several times is bound to structurally equal subtrees", stated
directly: `SatN` is `Sat` (Consistent.lean) with "agrees with the stored value" spelled out as
equality of normal forms (`norm`, AstEq.lean).
-/
namespace Verif.C09

mutual
/-- `SatN σ p t v`: pattern `p` matches `t` with value `v` along a path on which every occurrence
of a bare name `n` (creating or recalling) sees a subtree structurally equal to the one final
value `σ n` (`norm (σ n) = norm t`), and every `n@(…)` / `(Binding "n" …)` occurrence has `σ n` =
the value its operand matched.  Operands of `Not` bind nothing visible and are not constrained. -/
def SatN (σ : Env) : Pat → Tree → Tree → Prop
  | .gonil, t, v => (peelR t).isNilv = true ∧ v = .nilv
  | .any, t, v => v = peelR t
  | .nil, t, v => nilMatch (peelR t) = true ∧ v = .nilv
  | .str x, t, v => strMatch x (peelR t) = some v
  | .binding n _ sub, t, v =>
    if sub.isNilPat then ∃ w, σ n = some w ∧ norm w = norm t
    else SatN σ sub t v ∧ σ n = some v
  | .or alts, t, v => SatNAny σ alts t v
  | .not _, t, v => v = peelR t
  | .list h tl, t, v =>
    ∃ ek isNil es, peelR t = .slice ek isNil es ∧ v = .slice ek isNil es ∧
      (if h.isNilPat then es = []
       else ∃ x rest v1 v2, es = x :: rest ∧ SatN σ h x v1 ∧ SatN σ tl (.slice ek false rest) v2)
  | .node kind fnames fields, t, v =>
    ∃ tfn tfv, target t = .ptr kind tfn tfv v ∧ SatNFields σ fnames fields tfn tfv
def SatNAny (σ : Env) : List Pat → Tree → Tree → Prop
  | [], _, _ => False
  | a :: as, t, v => SatN σ a t v ∨ SatNAny σ as t v
def SatNFields (σ : Env) : List String → List Pat → List String → List Tree → Prop
  | n :: ns, p :: ps, tfn, tfv =>
    (∃ bv v, lookupField n tfn tfv = some bv ∧ SatN σ p bv v) ∧ SatNFields σ ns ps tfn tfv
  | _, _, _, _ => True
end

mutual
theorem Sat.toN (σ : Env) : ∀ (p : Pat) (t v : Tree), Sat σ p t v → SatN σ p t v
  | .gonil, _, _, h => by simpa [Sat, SatN] using h
  | .any, _, _, h => by simpa [Sat, SatN] using h
  | .nil, _, _, h => by simpa [Sat, SatN] using h
  | .str _, _, _, h => by simpa [Sat, SatN] using h
  | .binding n i sub, t, v, h => by
    simp only [Sat] at h
    simp only [SatN]
    by_cases hn : sub.isNilPat = true
    · simp only [hn, if_true] at h ⊢
      obtain ⟨w, hw, hc⟩ := h
      refine ⟨w, hw, ?_⟩
      rcases hc with ⟨h1, _⟩ | ⟨h1, _⟩
      · rw [h1, norm_peelR]
      · exact astEq_sound w t h1
    · simp only [hn, Bool.false_eq_true, if_false] at h ⊢
      exact ⟨Sat.toN σ sub t v h.1, h.2⟩
  | .or alts, t, v, h => by
    simp only [Sat] at h; simp only [SatN]; exact SatAny.toN σ alts t v h
  | .not _, _, _, h => by simpa [Sat, SatN] using h
  | .list hd tl, t, v, h => by
    simp only [Sat] at h
    simp only [SatN]
    obtain ⟨ek, isNil, es, hp, hv, hr⟩ := h
    refine ⟨ek, isNil, es, hp, hv, ?_⟩
    by_cases hn : hd.isNilPat = true
    · simp only [hn, if_true] at hr ⊢; exact hr
    · simp only [hn, Bool.false_eq_true, if_false] at hr ⊢
      obtain ⟨x, rest, v1, v2, he, h1, h2⟩ := hr
      exact ⟨x, rest, v1, v2, he, Sat.toN σ hd x v1 h1, Sat.toN σ tl _ v2 h2⟩
  | .node kind fnames fields, t, v, h => by
    simp only [Sat] at h
    simp only [SatN]
    obtain ⟨tfn, tfv, ht, hf⟩ := h
    exact ⟨tfn, tfv, ht, SatFields.toN σ fnames fields tfn tfv hf⟩
theorem SatAny.toN (σ : Env) : ∀ (alts : List Pat) (t v : Tree), SatAny σ alts t v → SatNAny σ alts t v
  | [], _, _, h => by simp [SatAny] at h
  | a :: as, t, v, h => by
    simp only [SatAny] at h
    simp only [SatNAny]
    exact h.elim (fun h' => Or.inl (Sat.toN σ a t v h')) (fun h' => Or.inr (SatAny.toN σ as t v h'))
theorem SatFields.toN (σ : Env) : ∀ (ns : List String) (ps : List Pat) (tfn : List String) (tfv : List Tree),
    SatFields σ ns ps tfn tfv → SatNFields σ ns ps tfn tfv
  | [], ps, _, _, _ => by simp [SatNFields]
  | _ :: _, [], _, _, _ => by simp [SatNFields]
  | n :: ns, p :: ps, tfn, tfv, h => by
    simp only [SatFields] at h
    simp only [SatNFields]
    obtain ⟨⟨bv, v, hl, hs⟩, hr⟩ := h
    exact ⟨⟨bv, v, hl, Sat.toN σ p bv v hs⟩, SatFields.toN σ ns ps tfn tfv hr⟩
end

/-- the node a node pattern is compared with (and which `n@(Node …)` stores) is structurally the
subtree the pattern was applied to -/
theorem target_norm (t : Tree) (k : String) (fn : List String) (fv : List Tree) (self : Tree)
    (h : target t = .ptr k fn fv self) : norm self = norm t := by
  fun_induction target t <;> simp_all [norm]
  obtain ⟨h1, h2, h3, h4⟩ := h
  subst h1 h2 h3 h4
  simp_all [norm]

end Verif.C09
