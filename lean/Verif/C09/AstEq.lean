import Verif.C09.Model
/-
C09 — what "a repeated name is bound to structurally equal subtrees" means.

`astEq v t` is the model of `match(m, v, node)` for a stored AST value `v` (the recall of a
binding).  `norm` is the normal form under which Go's matcher compares two syntax trees: the
transparent wrappers (ParenExpr, ExprStmt, DeclStmt, LabeledStmt, BlockStmt, FieldList) are
removed, a one-element slice is identified with its element (the `cast` branches of `match`),
nil *BlockStmt / *FieldList / *BasicLit read as nil, and of a node only its kind and its
children count (class and field names are functions of the kind in go/ast; positions, objects
and comments are already absent from `Tree`).  `astEq_sound`: a successful recall implies equal
normal forms.
-/
namespace Verif.C09

mutual
def norm : Tree → Tree
  | .node "ParenExpr" _ _ [x] => norm x
  | .node "ExprStmt" _ _ [x] => norm x
  | .node "DeclStmt" _ _ [x] => norm x
  | .node "LabeledStmt" _ _ [_, x] => norm x
  | .node "BlockStmt" _ _ [x] => norm x
  | .node "FieldList" _ _ [x] => norm x
  | .nilptr "BlockStmt" _ => .nilv
  | .nilptr "FieldList" _ => .nilv
  | .nilptr "BasicLit" _ => .nilv
  | .slice _ _ [x] => norm x
  | .slice _ _ es => .slice .X false (normL es)
  | .node k _ _ fv => .node k .X [] (normL fv)
  | .nilptr k _ => .nilptr k .X
  | .nilv => .nilv
  | .str s => .str s
  | .tok t => .tok t
  | .other d => .other d
def normL : List Tree → List Tree
  | [] => []
  | x :: xs => norm x :: normL xs
end

theorem norm_peelR (r : Tree) : norm (peelR r) = norm r := by
  fun_induction peelR r <;> simp_all [norm]

theorem norm_of_peelR_nilv {r : Tree} (h : (peelR r).isNilv = true) : norm r = .nilv := by
  rw [← norm_peelR]
  cases hp : peelR r <;> simp_all [Tree.isNilv, norm]

theorem norm_descend (c : Cls) (r r' : Tree) (h : descend c r = some r') : norm r = norm r' := by
  fun_induction descend c r <;> simp_all [norm]

theorem normL_length : ∀ (l : List Tree), (normL l).length = l.length
  | [] => rfl
  | _ :: xs => by simp [normL, normL_length xs]

/-- the (kind, number of children) shapes that `match` looks through -/
def isWrapShape (k : String) (n : Nat) : Bool :=
  (n == 1 && (k == "ParenExpr" || k == "ExprStmt" || k == "DeclStmt" || k == "BlockStmt" || k == "FieldList"))
  || (n == 2 && k == "LabeledStmt")

theorem norm_node_plain {k : String} {c : Cls} {fn : List String} {fv : List Tree}
    (h : isWrapShape k fv.length = false) : norm (.node k c fn fv) = .node k .X [] (normL fv) := by
  rw [norm.eq_def]
  split <;> simp_all [isWrapShape]

theorem not_wrapShape {k : String} {fv : List Tree}
    (x1 : ∀ (x : Tree), k = "ParenExpr" → fv = [x] → False)
    (x2 : ∀ (x : Tree), k = "ExprStmt" → fv = [x] → False)
    (x3 : ∀ (x : Tree), k = "DeclStmt" → fv = [x] → False)
    (x4 : ∀ (head x : Tree), k = "LabeledStmt" → fv = [head, x] → False)
    (x5 : ∀ (x : Tree), k = "BlockStmt" → fv = [x] → False)
    (x6 : ∀ (x : Tree), k = "FieldList" → fv = [x] → False) : isWrapShape k fv.length = false := by
  match fv with
  | [] => simp [isWrapShape]
  | [x] => 
    have := x1 x; have := x2 x; have := x3 x; have := x5 x; have := x6 x
    simp_all [isWrapShape]
  | [y, x] => have := x4 y x; simp_all [isWrapShape]
  | _ :: _ :: _ :: _ => simp [isWrapShape]

theorem norm_nilptr_cls (k : String) (c c' : Cls) : norm (.nilptr k c) = norm (.nilptr k c') := by
  rw [norm.eq_def, norm.eq_def (.nilptr k c')]
  split <;> simp_all

theorem norm_slice_congr {a a' : Cls} {b b' : Bool} : ∀ {es es' : List Tree},
    normL es = normL es' → norm (.slice a b es) = norm (.slice a' b' es')
  | [], [], _ => by simp [norm, normL]
  | [], _ :: _, h => by simp [normL] at h
  | _ :: _, [], h => by simp [normL] at h
  | [x], [y], h => by simp only [normL, List.cons.injEq] at h; simp [norm, h.1]
  | [_], _ :: _ :: _, h => by simp [normL] at h
  | _ :: _ :: _, [_], h => by simp [normL] at h
  | x :: x' :: xs, y :: y' :: ys, h => by simp [norm, h]

theorem astEq_sound_all :
    (∀ a b, astEq a b = .yes → norm a = norm b) ∧
    (∀ as bs, as.length = bs.length → listEq as bs = .yes → normL as = normL bs) ∧
    (∀ as bs, as.length = bs.length → fieldsEq as bs = .yes → normL as = normL bs) := by
  apply astEq.mutual_induct
    (motive_1 := fun a b => astEq a b = .yes → norm a = norm b)
    (motive_2 := fun as bs => as.length = bs.length → listEq as bs = .yes → normL as = normL bs)
    (motive_3 := fun as bs => as.length = bs.length → fieldsEq as bs = .yes → normL as = normL bs)
  case case8 => intro cls r h _; simp only [norm]; exact (norm_of_peelR_nilv h).symm
  case case10 => intro r h _; simp only [norm]; exact (norm_of_peelR_nilv h).symm
  case case12 =>
    intro c fn fv r k' cls fn' fv' hd hl x1 x2 x3 x4 x5 x6 ih a
    rw [norm_descend c r _ hd]
    simp [astEq, *] at a
    have hw := not_wrapShape x1 x2 x3 x4 x5 x6
    rw [norm_node_plain hw, norm_node_plain (hl ▸ hw), ih hl a]
  case case16 =>
    intro c r k' cls hd _ _ _
    rw [norm_descend c r _ hd]; exact norm_nilptr_cls _ _ _
  case case20 =>
    intro isNil es r ek' isNil' es' hp hl hne ih a
    simp [astEq, *] at a
    rw [← norm_peelR r, hp]
    exact norm_slice_congr (ih hl a)
  case case23 =>
    intro isNil r k' c' fn' fv' hp e hne ih a
    simp [astEq, *] at a
    rw [← norm_peelR r, hp, ← ih a]; simp [norm]
  case case26 =>
    intro isNil r k' c' hp e hne ih a
    simp [astEq, *] at a
    rw [← norm_peelR r, hp, ← ih a]; simp [norm]
  case case35 =>
    intro t x hx hl _
    match t, x, hx, hl with
    | [], [], _, _ => rfl
    | [], _ :: _, _, hl => simp at hl
    | _ :: _, [], _, hl => simp at hl
    | a :: as, b :: bs, hx, _ => exact absurd rfl (fun h => hx a as b bs h rfl)
  case case36 =>
    intro ek isNil es as bs ek' isNil' es' hl hle ih2 ih1 hlen a
    simp [fieldsEq, *] at a
    simp only [List.length_cons, Nat.add_right_cancel_iff] at hlen
    simp only [normL, ih1 hlen a]
    rw [norm_slice_congr (a := ek) (a' := ek') (b := isNil) (b' := isNil') (ih2 hl hle)]
  case case40 =>
    intro x as b bs hleaf ih hlen a
    simp [fieldsEq, *] at a
    simp only [List.length_cons, Nat.add_right_cancel_iff] at hlen
    cases b <;> simp [leafEq] at hleaf
    subst hleaf
    simp only [normL, ih hlen a]
  case case42 =>
    intro x as b bs hleaf ih hlen a
    simp [fieldsEq, *] at a
    simp only [List.length_cons, Nat.add_right_cancel_iff] at hlen
    cases b <;> simp [leafEq] at hleaf
    subst hleaf
    simp only [normL, ih hlen a]
  case case44 =>
    intro x as b bs hleaf ih hlen a
    simp [fieldsEq, *] at a
    simp only [List.length_cons, Nat.add_right_cancel_iff] at hlen
    cases b <;> simp [leafEq] at hleaf
    subst hleaf
    simp only [normL, ih hlen a]
  case case48 =>
    intro t x _ _ _ _ hx hl _
    match t, x, hx, hl with
    | [], [], _, _ => rfl
    | [], _ :: _, _, hl => simp at hl
    | _ :: _, [], _, hl => simp at hl
    | a :: as, b :: bs, hx, _ => exact absurd rfl (fun h => hx a as b bs h rfl)
  all_goals intros
  all_goals simp_all [astEq, listEq, fieldsEq, norm, normL, leafEq]

/-- A successful recall of a bound name (`match(m, stored, candidate)` in Binding.Match) means the
stored subtree and the candidate are structurally equal: same normal form (transparent wrappers
removed, one-element slices identified with their element, kinds and children equal). -/
theorem astEq_sound (v t : Tree) (h : astEq v t = .yes) : norm v = norm t :=
  astEq_sound_all.1 v t h

end Verif.C09
