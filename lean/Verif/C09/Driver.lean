import Verif.Common.Proto
import Verif.C09.Model
/-
Line driver for C09.

  m <hex pattern text> <tree tokens…>
      → P ok | STR <hex> | I <hexname:idx>,* | B <hexname>,* | W <0|1> | NT <discarded non-empty frames> | R <res> | ST <n> (<hexname> T)* | SP <ok|fail> | SS <n> (<hexname> T)*
      → P err | P err64
  tables → tok <hex>:<int>,… | node <Kind>:<f.f.f>,…

The pattern text is lexed and parsed here into surface syntax `Sx` (lexer.go and the token
level of parser.go are transliterated but not part of the proved model); index assignment,
matching and the specification are the definitions of Model.lean.
-/
namespace Verif.C09
open Verif.Proto

/-! ### lexer (lexer.go) -/

inductive Tk | lp | rp | lb | rb | at | colon | blank | typ (s : String) | var (s : String) | str (s : String)
  deriving Repr, BEq, Inhabited

def isAlnum (c : Char) : Bool := c.isAlphanum

partial def lexGo : List Char → List Tk → Option (List Tk)
  | [], acc => some acc.reverse
  | c :: cs, acc =>
    if c.isWhitespace then lexGo cs acc
    else if c = '(' then lexGo cs (.lp :: acc)
    else if c = ')' then lexGo cs (.rp :: acc)
    else if c = '[' then lexGo cs (.lb :: acc)
    else if c = ']' then lexGo cs (.rb :: acc)
    else if c = '@' then lexGo cs (.at :: acc)
    else if c = ':' then lexGo cs (.colon :: acc)
    else if c = '_' then lexGo cs (.blank :: acc)
    else if c = '"' then
      -- only strings without escapes are accepted here
      let body := cs.takeWhile (fun d => d ≠ '"')
      let rest := cs.dropWhile (fun d => d ≠ '"')
      if body.contains '\\' then none else
      match rest with
      | _ :: rest' => lexGo rest' (.str (String.ofList body) :: acc)
      | [] => none
    else if c.isUpper then
      let w := (c :: cs).takeWhile isAlnum
      lexGo ((c :: cs).dropWhile isAlnum) (.typ (String.ofList w) :: acc)
    else if c.isLower then
      let w := (c :: cs).takeWhile isAlnum
      lexGo ((c :: cs).dropWhile isAlnum) (.var (String.ofList w) :: acc)
    else none

/-! ### parser (token level of parser.go) -/

mutual
partial def pNode : List Tk → Option (Sx × List Tk)
  | .lp :: .typ t :: rest => do
    let (args, rest') ← pObjsUntilRp rest []
    pure (.nodeS t args, rest')
  | _ => none

partial def pObjsUntilRp : List Tk → List Sx → Option (List Sx × List Tk)
  | .rp :: rest, acc => some (acc.reverse, rest)
  | toks, acc => do
    let (o, rest) ← pObject toks
    pObjsUntilRp rest (o :: acc)

partial def pObjsUntilRb : List Tk → List Sx → Option (List Sx × List Tk)
  | .rb :: rest, acc => some (acc.reverse, rest)
  | toks, acc => do
    let (o, rest) ← pObject toks
    pObjsUntilRb rest (o :: acc)

partial def pTail (h : Sx) : List Tk → Option (Sx × List Tk)
  | .colon :: rest => do
    let (t, rest') ← pObject rest
    pure (.cons h t, rest')
  | toks => some (h, toks)

partial def pObject : List Tk → Option (Sx × List Tk)
  | .lp :: rest => do
    let (n, rest') ← pNode (.lp :: rest)
    pTail n rest'
  | .lb :: rest => do
    let (es, rest') ← pObjsUntilRb rest []
    pure (.arr es, rest')
  | .var v :: rest =>
    if v = "nil" then some (.nilkw, rest) else
    match rest with
    | .at :: rest' => do
      let (n, rest'') ← pNode rest'
      pTail (.at v n) rest''
    | _ => pTail (.bare v) rest
  | .blank :: rest => pTail .blank rest
  | .str s :: rest => some (.str s, rest)
  | _ => none
end

def parseText (s : String) : Option Sx := do
  let toks ← lexGo s.toList []
  let (n, rest) ← pNode toks
  if rest.isEmpty then pure n else none

/-! ### trees -/

def parseCls : String → Option Cls
  | "E" => some .E | "S" => some .S | "F" => some .F | "X" => some .X | _ => none

def showCls : Cls → String
  | .E => "E" | .S => "S" | .F => "F" | .X => "X"

mutual
partial def pTree : List String → Option (Tree × List String)
  | "N" :: r => some (.nilv, r)
  | "S" :: h :: r => do let s ← hexDecode h; pure (.str s, r)
  | "K" :: n :: r => do let k ← n.toNat?; pure (.tok k, r)
  | "O" :: w :: r => some (.other w, r)
  | "P" :: k :: c :: r => do let c ← parseCls c; pure (.nilptr k c, r)
  | "A" :: k :: c :: n :: r => do
    let c ← parseCls c
    let n ← n.toNat?
    let (fn, fv, r') ← pFields n r [] []
    pure (.node k c fn fv, r')
  | "L" :: ek :: isnil :: n :: r => do
    let ek ← parseCls ek
    let b ← parseBool isnil
    let n ← n.toNat?
    let (es, r') ← pTrees n r []
    pure (.slice ek b es, r')
  | _ => none

partial def pFields : Nat → List String → List String → List Tree → Option (List String × List Tree × List String)
  | 0, r, fn, fv => some (fn.reverse, fv.reverse, r)
  | n + 1, f :: r, fn, fv => do
    let (t, r') ← pTree r
    pFields n r' (f :: fn) (t :: fv)
  | _, _, _, _ => none

partial def pTrees : Nat → List String → List Tree → Option (List Tree × List String)
  | 0, r, acc => some (acc.reverse, r)
  | n + 1, r, acc => do
    let (t, r') ← pTree r
    pTrees n r' (t :: acc)
end

mutual
partial def showTree : Tree → String
  | .nilv => "N"
  | .str s => "S " ++ hexEncode s
  | .tok k => "K " ++ toString k
  | .other w => "O " ++ w
  | .nilptr k c => s!"P {k} {showCls c}"
  | .node k c fn fv => s!"A {k} {showCls c} {fv.length}" ++ showFields fn fv
  | .slice ek b es => s!"L {showCls ek} {showBool b} {es.length}" ++ String.join (es.map fun e => " " ++ showTree e)

partial def showFields : List String → List Tree → String
  | f :: fs, v :: vs => " " ++ f ++ " " ++ showTree v ++ showFields fs vs
  | _, _ => ""
end

/-! ### Pattern.Root.String() and the index list -/

def isProperList : Pat → Bool
  | .list .gonil .gonil => true
  | .list _ t => isProperList t
  | _ => false

mutual
partial def showPat : Pat → String
  | .gonil => "%!s(<nil>)"
  | .any => "_"
  | .nil => "nil"
  | .str s => "\"" ++ s ++ "\""
  | .binding n _ .gonil => n
  | .binding n _ sub => n ++ "@" ++ showPat sub
  | .or alts => "(Or" ++ String.join (alts.map fun a => " " ++ showPat a) ++ ")"
  | .not sub => "(Not " ++ showPat sub ++ ")"
  | .list .gonil .gonil => "[]"
  | .list h t =>
    if isProperList (.list h t) then "[" ++ " ".intercalate (properElems (.list h t)) ++ "]"
    else showPat h ++ ":" ++ showPat t
  | .node k _ fs => "(" ++ " ".intercalate (k :: fs.map showPat) ++ ")"

partial def properElems : Pat → List String
  | .list .gonil _ => []
  | .list h t => showPat h :: properElems t
  | _ => []
end

mutual
partial def idxList : Pat → List String
  | .binding n i sub => (hexEncode n ++ ":" ++ toString i) :: idxList sub
  | .or alts => idxLists alts
  | .not sub => idxList sub
  | .list h t => idxList h ++ idxList t
  | .node _ _ fs => idxLists fs
  | _ => []
partial def idxLists : List Pat → List String
  | [] => []
  | p :: ps => idxList p ++ idxLists ps
end

def showEnv (names : List String) (e : Env) : String :=
  let sorted := names.mergeSort (fun a b => decide (a ≤ b))
  let ents := sorted.filterMap fun n => (e n).map fun v => " " ++ hexEncode n ++ " " ++ showTree v
  toString ents.length ++ String.join ents

def showPanic : PanicKind → String
  | .created => "panic:created"
  | .other => "panic:other"

def stepMatch (hexpat : String) (treeToks : List String) : String :=
  match hexDecode hexpat, pTree treeToks with
  | some ptxt, some (t, []) =>
    match parseText ptxt with
    | none => "P err"
    | some sx =>
      match parse sx with
      | .error .tooMany => "P err64"
      | .error _ => "P err"
      | .ok (p, bs) =>
        let r := match implMatch bs p t with
          | .done true σ n => "NT " ++ toString n ++ " | R ok | ST " ++ showEnv bs σ
          | .done false _ n => "NT " ++ toString n ++ " | R fail | ST 0"
          | .panic k => "NT 0 | R " ++ showPanic k ++ " | ST 0"
        let sp := match specMatch p t with
          | some σ => "SP ok | SS " ++ showEnv bs σ
          | none => "SP fail | SS 0"
        let w := showBool (wf [] p && wfIdx bs p)
        s!"P ok | STR {hexEncode (showPat p)} | I {",".intercalate (idxList p)} | B {",".intercalate (bs.map hexEncode)} | W {w} | {r} | {sp}"
  | _, _ => "bad-op"

def stepTables : String :=
  let toks := tokensByString.map fun (s, k) => hexEncode s ++ ":" ++ toString k
  let nodes := nodeFields.map fun (k, fs) => k ++ ":" ++ ".".intercalate fs
  "tok " ++ ",".intercalate toks ++ " | node " ++ ",".intercalate nodes

def step (line : String) : String :=
  match tokens line with
  | "m" :: hexpat :: rest => stepMatch hexpat rest
  | ["tables"] => stepTables
  | _ => "bad-op"

end Verif.C09
