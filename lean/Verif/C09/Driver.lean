import Verif.Common.Proto
import Verif.C09.Model
/-
Line driver for C09.

  m <hex pattern text> <PT | -> [<nB> <hex name>*] <tree tokens…>
      PT = Pattern.Root as parsed by the REAL parser (harness serPat), nB/names = Pattern.Bindings;
      `-` = the real parser rejected the text.
      → P <ok|err|err64>                      the model parser on the text (parseText + Model.parse)
        | PM <0|1>                             model-parsed Pat = real Pat up to Binding.idx
        | NUM <0|1>                            … and with identical idx and Bindings
        | RW <0|1>                             wfIdx Bindings Root on the REAL parser's output
        | W <0|1>                              wf [] Root && wfIdx (hypotheses of no_panic)
        | NT <discarded non-empty frames> | R <res> | ST <n> (<hexname> T)*     implMatch on the real Root
        | SP <ok|fail> | SS <n> (<hexname> T)*                                  specMatch on the real Root
      (only `P …` when PT is `-`)
  tables → tok <hex>:<int>,… | node <Kind>:<f.f.f>,…

The pattern text is lexed and parsed here into surface syntax `Sx` (lexer.go and the token
level of parser.go are transliterated but not part of the proved model; tied by PM on every
case); index assignment, matching and the specification are the definitions of Model.lean.
-/
namespace Verif.C09
open Verif.Proto

/-! ### lexer (lexer.go) -/

inductive Tk | lp | rp | lb | rb | at | colon | blank | typ (s : String) | var (s : String) | str (s : String)
  deriving Repr, BEq, Inhabited

def isAlnum (c : Char) : Bool := c.isAlphanum

partial def lexGo : List Char → List Tk → Option (List Tk)
  | [], acc => some acc.reverse
  | c :: cs, acc =>
    if c.isWhitespace then lexGo cs acc
    else if c = '(' then lexGo cs (.lp :: acc)
    else if c = ')' then lexGo cs (.rp :: acc)
    else if c = '[' then lexGo cs (.lb :: acc)
    else if c = ']' then lexGo cs (.rb :: acc)
    else if c = '@' then lexGo cs (.at :: acc)
    else if c = ':' then lexGo cs (.colon :: acc)
    else if c = '_' then lexGo cs (.blank :: acc)
    else if c = '"' then
      -- only strings without escapes are accepted here
      let body := cs.takeWhile (fun d => d ≠ '"')
      let rest := cs.dropWhile (fun d => d ≠ '"')
      if body.contains '\\' then none else
      match rest with
      | _ :: rest' => lexGo rest' (.str (String.ofList body) :: acc)
      | [] => none
    else if c.isUpper then
      let w := (c :: cs).takeWhile isAlnum
      lexGo ((c :: cs).dropWhile isAlnum) (.typ (String.ofList w) :: acc)
    else if c.isLower then
      let w := (c :: cs).takeWhile isAlnum
      lexGo ((c :: cs).dropWhile isAlnum) (.var (String.ofList w) :: acc)
    else none

/-! ### parser (token level of parser.go) -/

mutual
partial def pNode : List Tk → Option (Sx × List Tk)
  | .lp :: .typ t :: rest => do
    let (args, rest') ← pObjsUntilRp rest []
    pure (.nodeS t args, rest')
  | _ => none

partial def pObjsUntilRp : List Tk → List Sx → Option (List Sx × List Tk)
  | .rp :: rest, acc => some (acc.reverse, rest)
  | toks, acc => do
    let (o, rest) ← pObject toks
    pObjsUntilRp rest (o :: acc)

partial def pObjsUntilRb : List Tk → List Sx → Option (List Sx × List Tk)
  | .rb :: rest, acc => some (acc.reverse, rest)
  | toks, acc => do
    let (o, rest) ← pObject toks
    pObjsUntilRb rest (o :: acc)

partial def pTail (h : Sx) : List Tk → Option (Sx × List Tk)
  | .colon :: rest => do
    let (t, rest') ← pObject rest
    pure (.cons h t, rest')
  | toks => some (h, toks)

partial def pObject : List Tk → Option (Sx × List Tk)
  | .lp :: rest => do
    let (n, rest') ← pNode (.lp :: rest)
    pTail n rest'
  | .lb :: rest => do
    let (es, rest') ← pObjsUntilRb rest []
    pure (.arr es, rest')
  | .var v :: rest =>
    if v = "nil" then some (.nilkw, rest) else
    match rest with
    | .at :: rest' => do
      let (n, rest'') ← pNode rest'
      pTail (.at v n) rest''
    | _ => pTail (.bare v) rest
  | .blank :: rest => pTail .blank rest
  | .str s :: rest => some (.str s, rest)
  | _ => none
end

def parseText (s : String) : Option Sx := do
  let toks ← lexGo s.toList []
  let (n, rest) ← pNode toks
  if rest.isEmpty then pure n else none

/-! ### trees -/

def parseCls : String → Option Cls
  | "E" => some .E | "S" => some .S | "F" => some .F | "X" => some .X | _ => none

def showCls : Cls → String
  | .E => "E" | .S => "S" | .F => "F" | .X => "X"

mutual
partial def pTree : List String → Option (Tree × List String)
  | "N" :: r => some (.nilv, r)
  | "S" :: h :: r => do let s ← hexDecode h; pure (.str s, r)
  | "K" :: n :: r => do let k ← n.toNat?; pure (.tok k, r)
  | "O" :: w :: r => some (.other w, r)
  | "P" :: k :: c :: r => do let c ← parseCls c; pure (.nilptr k c, r)
  | "A" :: k :: c :: n :: r => do
    let c ← parseCls c
    let n ← n.toNat?
    let (fn, fv, r') ← pFields n r [] []
    pure (.node k c fn fv, r')
  | "L" :: ek :: isnil :: n :: r => do
    let ek ← parseCls ek
    let b ← parseBool isnil
    let n ← n.toNat?
    let (es, r') ← pTrees n r []
    pure (.slice ek b es, r')
  | _ => none

partial def pFields : Nat → List String → List String → List Tree → Option (List String × List Tree × List String)
  | 0, r, fn, fv => some (fn.reverse, fv.reverse, r)
  | n + 1, f :: r, fn, fv => do
    let (t, r') ← pTree r
    pFields n r' (f :: fn) (t :: fv)
  | _, _, _, _ => none

partial def pTrees : Nat → List String → List Tree → Option (List Tree × List String)
  | 0, r, acc => some (acc.reverse, r)
  | n + 1, r, acc => do
    let (t, r') ← pTree r
    pTrees n r' (t :: acc)
end

mutual
partial def showTree : Tree → String
  | .nilv => "N"
  | .str s => "S " ++ hexEncode s
  | .tok k => "K " ++ toString k
  | .other w => "O " ++ w
  | .nilptr k c => s!"P {k} {showCls c}"
  | .node k c fn fv => s!"A {k} {showCls c} {fv.length}" ++ showFields fn fv
  | .slice ek b es => s!"L {showCls ek} {showBool b} {es.length}" ++ String.join (es.map fun e => " " ++ showTree e)

partial def showFields : List String → List Tree → String
  | f :: fs, v :: vs => " " ++ f ++ " " ++ showTree v ++ showFields fs vs
  | _, _ => ""
end

/-! ### the real parser's Pattern.Root (harness serPat) -/

mutual
partial def pPat : List String → Option (Pat × List String)
  | "g" :: r => some (.gonil, r)
  | "a" :: r => some (.any, r)
  | "n" :: r => some (.nil, r)
  | "s" :: h :: r => do let s ← hexDecode h; pure (.str s, r)
  | "b" :: h :: i :: r => do
    let n ← hexDecode h
    let i ← i.toNat?
    let (sub, r') ← pPat r
    pure (.binding n i sub, r')
  | "o" :: n :: r => do
    let n ← n.toNat?
    let (alts, r') ← pPats n r []
    pure (.or alts, r')
  | "x" :: r => do
    let (sub, r') ← pPat r
    pure (.not sub, r')
  | "l" :: r => do
    let (h, r1) ← pPat r
    let (t, r2) ← pPat r1
    pure (.list h t, r2)
  | "k" :: kind :: n :: r => do
    let n ← n.toNat?
    let (fn, fs, r') ← pPatFields n r [] []
    pure (.node kind fn fs, r')
  | _ => none

partial def pPats : Nat → List String → List Pat → Option (List Pat × List String)
  | 0, r, acc => some (acc.reverse, r)
  | n + 1, r, acc => do
    let (p, r') ← pPat r
    pPats n r' (p :: acc)

partial def pPatFields : Nat → List String → List String → List Pat → Option (List String × List Pat × List String)
  | 0, r, fn, fs => some (fn.reverse, fs.reverse, r)
  | n + 1, f :: r, fn, fs => do
    let (p, r') ← pPat r
    pPatFields n r' (f :: fn) (p :: fs)
  | _, _, _, _ => none
end

def pNames : Nat → List String → List String → Option (List String × List String)
  | 0, r, acc => some (acc.reverse, r)
  | n + 1, h :: r, acc => do
    let s ← hexDecode h
    pNames n r (s :: acc)
  | _, _, _ => none

mutual
/-- equality of patterns; `withIdx = false` ignores Binding.idx -/
partial def eqPat (withIdx : Bool) : Pat → Pat → Bool
  | .gonil, .gonil => true
  | .any, .any => true
  | .nil, .nil => true
  | .str a, .str b => a == b
  | .binding n i s, .binding n' i' s' => n == n' && (!withIdx || i == i') && eqPat withIdx s s'
  | .or as, .or bs => eqPats withIdx as bs
  | .not a, .not b => eqPat withIdx a b
  | .list h t, .list h' t' => eqPat withIdx h h' && eqPat withIdx t t'
  | .node k fn fs, .node k' fn' fs' => k == k' && fn == fn' && eqPats withIdx fs fs'
  | _, _ => false
partial def eqPats (withIdx : Bool) : List Pat → List Pat → Bool
  | [], [] => true
  | a :: as, b :: bs => eqPat withIdx a b && eqPats withIdx as bs
  | _, _ => false
end

def showEnv (names : List String) (e : Env) : String :=
  let sorted := (names.eraseDups).mergeSort (fun a b => decide (a ≤ b))
  let ents := sorted.filterMap fun n => (e n).map fun v => " " ++ hexEncode n ++ " " ++ showTree v
  toString ents.length ++ String.join ents

def showPanic : PanicKind → String
  | .created => "panic:created"
  | .other => "panic:other"

/-- the model parser on the pattern text: status and, when a pattern comes out (also beyond 64
names), the pattern and its binding table -/
def modelParse (ptxt : String) : String × Option (Pat × List String) :=
  match parseText ptxt with
  | none => ("err", none)
  | some sx =>
    match parse sx with
    | .ok (p, bs) => ("ok", some (p, bs))
    | .error .tooMany =>
      (match elabSx sx [] with
       | .ok (p, bs) => ("err64", some (p, bs))
       | .error _ => ("err64", none))
    | .error _ => ("err", none)

def stepMatch (hexpat : String) (rest : List String) : String :=
  match hexDecode hexpat with
  | none => "bad-op"
  | some ptxt =>
    let (pst, mp) := modelParse ptxt
    match rest with
    | "-" :: treeToks =>
      (match pTree treeToks with
       | some (_, []) => "P " ++ pst
       | _ => "bad-op")
    | _ =>
      match pPat rest with
      | none => "bad-op"
      | some (rp, r1) =>
        match r1 with
        | nb :: r2 =>
          match nb.toNat? with
          | none => "bad-op"
          | some nb =>
            match pNames nb r2 [] with
            | none => "bad-op"
            | some (rbs, r3) =>
              match pTree r3 with
              | some (t, []) =>
                let names := rbs ++ allNames rp
                let r := match implMatch rbs rp t with
                  | .done true σ n => "NT " ++ toString n ++ " | R ok | ST " ++ showEnv names σ
                  | .done false _ n => "NT " ++ toString n ++ " | R fail | ST 0"
                  | .panic k => "NT 0 | R " ++ showPanic k ++ " | ST 0"
                let sp := match specMatch rp t with
                  | some σ => "SP ok | SS " ++ showEnv names σ
                  | none => "SP fail | SS 0"
                let rw := wfIdx rbs rp
                let w := wf [] rp && rw
                let (pm, num) := match mp with
                  | some (p, bs) => (eqPat false p rp, eqPat true p rp && bs == rbs)
                  | none => (false, false)
                s!"P {pst} | PM {showBool pm} | NUM {showBool num} | RW {showBool rw} | W {showBool w} | {r} | {sp}"
              | _ => "bad-op"
        | [] => "bad-op"

def stepTables : String :=
  let toks := tokensByString.map fun (s, k) => hexEncode s ++ ":" ++ toString k
  let nodes := nodeFields.map fun (k, fs) => k ++ ":" ++ ".".intercalate fs
  "tok " ++ ",".intercalate toks ++ " | node " ++ ",".intercalate nodes

def step (line : String) : String :=
  match tokens line with
  | "m" :: hexpat :: rest => stepMatch hexpat rest
  | ["tables"] => stepTables
  | _ => "bad-op"

end Verif.C09
