import Verif.C09.Lemmas
/-
C09 — the state machine (impl) refines the specification (spec): mutual induction following
the definitions, with the frame invariant of Lemmas.lean.
-/
namespace Verif.C09


/-- what the state machine and the specification have to do with each other -/
def Rel (mp : List String) (s : MState) (top : Nat) (rest : List Nat) : Res → Option (Tree × Env) → Prop
  | .ok v s', sp => (∃ top', Frame mp s s' top rest top') ∧ sp = some (v, s'.st)
  | .fail s', sp => (∃ top', Frame mp s s' top rest top') ∧ sp = none
  | .panic _, _ => True

def RelF (mp : List String) (s : MState) (top : Nat) (rest : List Nat) : Res → Option Env → Prop
  | .ok _ s', sp => (∃ top', Frame mp s s' top rest top') ∧ sp = some s'.st
  | .fail s', sp => (∃ top', Frame mp s s' top rest top') ∧ sp = none
  | .panic _, _ => True

theorem Rel.trans_left {mp : List String} {s s1 : MState} {top top1 : Nat} {rest : List Nat}
    {r : Res} {sp : Option (Tree × Env)}
    (f : Frame mp s s1 top rest top1) (h : Rel mp s1 top1 rest r sp) : Rel mp s top rest r sp := by
  cases r with
  | ok v s' => obtain ⟨⟨t', f'⟩, e⟩ := h; exact ⟨⟨t', f.trans f'⟩, e⟩
  | fail s' => obtain ⟨⟨t', f'⟩, e⟩ := h; exact ⟨⟨t', f.trans f'⟩, e⟩
  | panic k => trivial

theorem RelF.trans_left {mp : List String} {s s1 : MState} {top top1 : Nat} {rest : List Nat}
    {r : Res} {sp : Option Env}
    (f : Frame mp s s1 top rest top1) (h : RelF mp s1 top1 rest r sp) : RelF mp s top rest r sp := by
  cases r with
  | ok v s' => obtain ⟨⟨t', f'⟩, e⟩ := h; exact ⟨⟨t', f.trans f'⟩, e⟩
  | fail s' => obtain ⟨⟨t', f'⟩, e⟩ := h; exact ⟨⟨t', f.trans f'⟩, e⟩
  | panic k => trivial

mutual
theorem impl_rel (mp : List String) : ∀ (p : Pat) (t : Tree) (s : MState) (top : Nat) (rest : List Nat),
    wfIdx mp p = true → s.stack = top :: rest → Rel mp s top rest (impl mp p t s) (spec p t s.st)
  | .gonil, t, s, top, rest, _, hs => by
    simp only [impl, spec]
    split <;> exact ⟨⟨top, Frame.refl hs⟩, rfl⟩
  | .any, t, s, top, rest, _, hs => by
    simp only [impl, spec]
    exact ⟨⟨top, Frame.refl hs⟩, rfl⟩
  | .nil, t, s, top, rest, _, hs => by
    simp only [impl, spec]
    split <;> exact ⟨⟨top, Frame.refl hs⟩, rfl⟩
  | .str x, t, s, top, rest, _, hs => by
    simp only [impl, spec]
    cases strMatch x (peelR t) <;> exact ⟨⟨top, Frame.refl hs⟩, rfl⟩
  | .binding name idx sub, t, s, top, rest, hwf, hs => by
    simp only [wfIdx, Bool.and_eq_true, decide_eq_true_eq, beq_iff_eq] at hwf
    obtain ⟨⟨hi, hm⟩, hsub⟩ := hwf
    simp only [impl, spec]
    by_cases hn : sub.isNilPat = true
    · simp only [hn, if_true]
      cases h0 : s.st name with
      | some v =>
        cases ha : astEq v t
        · simp only [ha]; exact ⟨⟨top, Frame.refl hs⟩, by simp⟩
        · simp only [ha]; exact ⟨⟨top, Frame.refl hs⟩, by simp⟩
        · simp only [ha]; trivial
      | none =>
        exact ⟨⟨_, Frame.set _ (Frame.refl hs) h0 hi hm⟩, rfl⟩
    · simp only [hn]
      cases h0 : s.st name with
      | some v => trivial
      | none =>
        have ih := impl_rel mp sub t s top rest hsub hs
        cases hr : impl mp sub t s with
        | ok v s' =>
          rw [hr] at ih
          obtain ⟨⟨top', f⟩, hsp⟩ := ih
          simp only [hsp]
          exact ⟨⟨_, f.set v h0 hi hm⟩, rfl⟩
        | fail s' =>
          rw [hr] at ih
          obtain ⟨⟨top', f⟩, hsp⟩ := ih
          simp only [hsp]
          exact ⟨⟨_, f⟩, rfl⟩
        | panic k => trivial
  | .or alts, t, s, top, rest, hwf, hs => by
    simp only [impl, spec]
    exact implOr_rel mp alts t s top rest (by simpa [wfIdx] using hwf) hs
  | .not sub, t, s, top, rest, hwf, hs => by
    have ih := impl_rel mp sub t s.push 0 (top :: rest) (by simpa [wfIdx] using hwf) (by simp [MState.push, hs])
    simp only [impl, spec]
    cases hr : impl mp sub t s.push with
    | ok v s' =>
      rw [hr] at ih
      obtain ⟨⟨top', f⟩, hsp⟩ := ih
      simp only [push_st] at hsp
      simp only [hsp]
      exact ⟨⟨_, f.pop⟩, rfl⟩
    | fail s' =>
      rw [hr] at ih
      obtain ⟨⟨top', f⟩, hsp⟩ := ih
      simp only [push_st] at hsp
      simp only [hsp]
      exact ⟨⟨_, f.pop⟩, by rw [f.pop_st]⟩
    | panic k => trivial
  | .list h tl, t, s, top, rest, hwf, hs => by
    simp only [wfIdx, Bool.and_eq_true] at hwf
    obtain ⟨hwh, hwt⟩ := hwf
    simp only [impl, spec]
    cases hp : peelR t with
    | slice ek isNil es =>
      simp only []
      by_cases hn : h.isNilPat = true
      · simp only [hn, if_true]
        split <;> exact ⟨⟨top, Frame.refl hs⟩, rfl⟩
      · simp only [hn]
        cases es with
        | nil => exact ⟨⟨top, Frame.refl hs⟩, rfl⟩
        | cons e es' =>
          have ih1 := impl_rel mp h e s top rest hwh hs
          simp only []
          cases hr1 : impl mp h e s with
          | panic k => trivial
          | ok v1 s1 =>
            rw [hr1] at ih1
            obtain ⟨⟨top1, f1⟩, hsp1⟩ := ih1
            have ih2 := impl_rel mp tl (.slice ek false es') s1 top1 rest hwt f1.stk
            simp only [hsp1]
            cases hr2 : impl mp tl (.slice ek false es') s1 with
            | panic k => trivial
            | ok v2 s2 =>
              rw [hr2] at ih2
              obtain ⟨⟨top2, f2⟩, hsp2⟩ := ih2
              simp only [hsp2]
              exact ⟨⟨_, f1.trans f2⟩, rfl⟩
            | fail s2 =>
              rw [hr2] at ih2
              obtain ⟨⟨top2, f2⟩, hsp2⟩ := ih2
              simp only [hsp2]
              exact ⟨⟨_, f1.trans f2⟩, rfl⟩
          | fail s1 =>
            rw [hr1] at ih1
            obtain ⟨⟨top1, f1⟩, hsp1⟩ := ih1
            have ih2 := impl_rel mp tl (.slice ek false es') s1 top1 rest hwt f1.stk
            simp only [hsp1]
            cases hr2 : impl mp tl (.slice ek false es') s1 with
            | panic k => trivial
            | ok v2 s2 =>
              rw [hr2] at ih2
              obtain ⟨⟨top2, f2⟩, _⟩ := ih2
              exact ⟨⟨_, f1.trans f2⟩, rfl⟩
            | fail s2 =>
              rw [hr2] at ih2
              obtain ⟨⟨top2, f2⟩, _⟩ := ih2
              exact ⟨⟨_, f1.trans f2⟩, rfl⟩
    | nilv => exact ⟨⟨top, Frame.refl hs⟩, rfl⟩
    | str _ => exact ⟨⟨top, Frame.refl hs⟩, rfl⟩
    | tok _ => exact ⟨⟨top, Frame.refl hs⟩, rfl⟩
    | other _ => exact ⟨⟨top, Frame.refl hs⟩, rfl⟩
    | nilptr _ _ => exact ⟨⟨top, Frame.refl hs⟩, rfl⟩
    | node _ _ _ _ => exact ⟨⟨top, Frame.refl hs⟩, rfl⟩
  | .node kind fnames fields, t, s, top, rest, hwf, hs => by
    simp only [impl, spec]
    cases ht : target t with
    | miss => exact ⟨⟨top, Frame.refl hs⟩, rfl⟩
    | crash => trivial
    | ptr k tfn tfv self =>
      simp only []
      by_cases hk : kind = k
      · simp only [hk, if_true]
        have ih := implFields_rel mp fnames fields tfn tfv s top rest (by simpa [wfIdx] using hwf) hs
        cases hr : implFields mp fnames fields tfn tfv s with
        | ok v s' =>
          rw [hr] at ih
          obtain ⟨⟨top', f⟩, hsp⟩ := ih
          simp only [hsp]
          exact ⟨⟨_, f⟩, rfl⟩
        | fail s' =>
          rw [hr] at ih
          obtain ⟨⟨top', f⟩, hsp⟩ := ih
          simp only [hsp]
          exact ⟨⟨_, f⟩, rfl⟩
        | panic k => trivial
      · simp only [hk, if_false]
        exact ⟨⟨top, Frame.refl hs⟩, rfl⟩

theorem implOr_rel (mp : List String) : ∀ (alts : List Pat) (t : Tree) (s : MState) (top : Nat) (rest : List Nat),
    wfIdxL mp alts = true → s.stack = top :: rest → Rel mp s top rest (implOr mp alts t s) (specOr alts t s.st)
  | [], t, s, top, rest, _, hs => by
    simp only [implOr, specOr]
    exact ⟨⟨top, Frame.refl hs⟩, rfl⟩
  | a :: as, t, s, top, rest, hwf, hs => by
    simp only [wfIdxL, Bool.and_eq_true] at hwf
    obtain ⟨hwa, hwas⟩ := hwf
    have ih := impl_rel mp a t s.push 0 (top :: rest) hwa (by simp [MState.push, hs])
    simp only [implOr, specOr]
    cases hr : impl mp a t s.push with
    | ok v s' =>
      rw [hr] at ih
      obtain ⟨⟨top', f⟩, hsp⟩ := ih
      simp only [push_st] at hsp
      simp only [hsp]
      exact ⟨⟨_, f.merge⟩, by simp⟩
    | fail s' =>
      rw [hr] at ih
      obtain ⟨⟨top', f⟩, hsp⟩ := ih
      simp only [push_st] at hsp
      simp only [hsp]
      have ih2 := implOr_rel mp as t (s'.pop mp) top rest hwas f.pop_stack
      rw [f.pop_st] at ih2
      exact Rel.trans_left f.pop ih2
    | panic k => trivial

theorem implFields_rel (mp : List String) : ∀ (ns : List String) (ps : List Pat) (tfn : List String) (tfv : List Tree)
    (s : MState) (top : Nat) (rest : List Nat),
    wfIdxL mp ps = true → s.stack = top :: rest →
    RelF mp s top rest (implFields mp ns ps tfn tfv s) (specFields ns ps tfn tfv s.st)
  | [], ps, tfn, tfv, s, top, rest, _, hs => by
    simp only [implFields, specFields]
    exact ⟨⟨top, Frame.refl hs⟩, rfl⟩
  | _ :: _, [], tfn, tfv, s, top, rest, _, hs => by
    simp only [implFields, specFields]
    exact ⟨⟨top, Frame.refl hs⟩, rfl⟩
  | n :: ns, p :: ps, tfn, tfv, s, top, rest, hwf, hs => by
    simp only [wfIdxL, Bool.and_eq_true] at hwf
    obtain ⟨hwp, hwps⟩ := hwf
    simp only [implFields, specFields]
    cases hl : lookupField n tfn tfv with
    | none => trivial
    | some bv =>
      simp only []
      have ih := impl_rel mp p bv s top rest hwp hs
      cases hr : impl mp p bv s with
      | ok v s' =>
        rw [hr] at ih
        obtain ⟨⟨top', f⟩, hsp⟩ := ih
        simp only [hsp]
        exact RelF.trans_left f (implFields_rel mp ns ps tfn tfv s' top' rest hwps f.stk)
      | fail s' =>
        rw [hr] at ih
        obtain ⟨⟨top', f⟩, hsp⟩ := ih
        simp only [hsp]
        exact ⟨⟨_, f⟩, rfl⟩
      | panic k => trivial
end


end Verif.C09
