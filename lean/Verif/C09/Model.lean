/-
C09 — model of the binding machinery of honnef.co/go/tools/pattern.

Go counterparts (pattern/match.go, pattern/parser.go):
  Tree                 the Go values `match` sees on its right-hand side (ast nodes, slices,
                       strings, tokens, nil), as serialised by harness/internal/c09ser
  peelR                the r-switch of `match` (ParenExpr, ExprStmt, DeclStmt, LabeledStmt,
                       BlockStmt, FieldList, nil *BasicLit)
  astEq, recallVal     `match` with an AST value on the left (recall of a binding): l-switch,
                       nil comparison, matchAST, the three slice blocks with their casts
  target, implFields   matchNodeAST
  MState.set/push/pop/merge   Matcher.set/push/pop/merge (setBindings is a stack of 64-bit masks)
  impl / implOr        Binding.Match, Any.Match, List.Match, String.Match, Token.Match,
                       Nil.Match, Or.Match, Not.Match, dispatched as in `match`
  implMatch            Matcher.Match
  Sx, elabSx, populate, bindingIndex    Parser.node / object / array / populateNode / bindingIndex
                       on abstract surface syntax (the lexer is not modelled)

Only the type-information-free language is modelled (Parser.AllowTypeInfo = false).
-/
namespace Verif.C09

/-- Which Go interface a pointer implements / which slice type a slice has:
`E` ast.Expr / []ast.Expr, `S` ast.Stmt / []ast.Stmt, `F` *ast.Field / []*ast.Field, `X` other. -/
inductive Cls | E | S | F | X
  deriving DecidableEq, Repr, Inhabited

inductive Tree where
  | nilv                                   -- untyped nil
  | str (s : String)                       -- Go string
  | tok (t : Nat)                          -- token.Token
  | other (d : String)                     -- bool / int / reflect.Value ...
  | nilptr (kind : String) (cls : Cls)     -- (*ast.kind)(nil)
  | node (kind : String) (cls : Cls) (fnames : List String) (fvals : List Tree)  -- non-nil *ast.kind
  | slice (ek : Cls) (isNil : Bool) (elems : List Tree)
  deriving Repr, Inhabited

/-- The r-switch of `match`: unwrap wrapper nodes; nil *BlockStmt / *FieldList / *BasicLit read as nil. -/
def peelR : Tree → Tree
  | .node "ParenExpr" _ _ [x] => peelR x
  | .node "ExprStmt" _ _ [x] => peelR x
  | .node "DeclStmt" _ _ [x] => peelR x
  | .node "LabeledStmt" _ _ [_, x] => peelR x
  | .node "BlockStmt" _ _ [x] => peelR x
  | .node "FieldList" _ _ [x] => peelR x
  | .nilptr "BlockStmt" _ => .nilv
  | .nilptr "FieldList" _ => .nilv
  | .nilptr "BasicLit" _ => .nilv
  | t => t

def Tree.isNilv : Tree → Bool
  | .nilv => true
  | _ => false

/-! ### AST against AST (recall of a binding) -/

inductive ARes | yes | no | panic
  deriving DecidableEq, Repr

/-- With a pointer of class `c` on the left, `match` follows wrappers and one-element slices of
the matching slice type on the right (the `cast` branches) until it reaches a pointer. -/
def descend (c : Cls) : Tree → Option Tree
  | .node "ParenExpr" _ _ [x] => descend c x
  | .node "ExprStmt" _ _ [x] => descend c x
  | .node "DeclStmt" _ _ [x] => descend c x
  | .node "LabeledStmt" _ _ [_, x] => descend c x
  | .node "BlockStmt" _ _ [x] => descend c x
  | .node "FieldList" _ _ [x] => descend c x
  | .nilptr "BlockStmt" _ => none
  | .nilptr "FieldList" _ => none
  | .nilptr "BasicLit" _ => none
  | .slice ek _ [x] => if ek = c && c != .X then descend c x else none
  | .node k c' fn fv => some (.node k c' fn fv)
  | .nilptr k c' => some (.nilptr k c')
  | _ => none

def leafEq : Tree → Tree → Bool
  | .str a, .str b => a == b
  | .tok a, .tok b => a == b
  | .other a, .other b => a == b
  | _, _ => false

mutual
/-- `match(m, l, r)` for an AST value `l` (never a pattern): yes / no / panic. -/
def astEq : Tree → Tree → ARes
  | .node "ParenExpr" _ _ [x], r => astEq x r
  | .node "ExprStmt" _ _ [x], r => astEq x r
  | .node "DeclStmt" _ _ [x], r => astEq x r
  | .node "LabeledStmt" _ _ [_, x], r => astEq x r
  | .node "BlockStmt" _ _ [x], r => astEq x r
  | .node "FieldList" _ _ [x], r => astEq x r
  | .nilptr "BlockStmt" _, _ => .panic        -- l.List on a nil *ast.BlockStmt
  | .nilptr "FieldList" _, r => if (peelR r).isNilv then .yes else .no
  | .nilv, r => if (peelR r).isNilv then .yes else .no
  | .node k c _ fv, r =>
    match descend c r with
    | some (.node k' _ _ fv') =>
      if k = k' then (if fv.length = fv'.length then fieldsEq fv fv' else .no) else .no
    | _ => .no
  | .nilptr k c, r =>
    match descend c r with
    | some (.nilptr k' _) => if k = k' then .yes else .no
    | _ => .no
  | .slice ek _ es, r =>
    if ek = .X then .no else
    match peelR r with
    | .slice ek' _ es' => if ek = ek' then (if es.length = es'.length then listEq es es' else .no) else .no
    | .node k' c' fn' fv' =>
      if c' = ek then (match es with | [e] => astEq e (.node k' c' fn' fv') | _ => .no) else .no
    | .nilptr k' c' =>
      if c' = ek then (match es with | [e] => astEq e (.nilptr k' c') | _ => .no) else .no
    | _ => .no
  | .str _, _ => .no
  | .tok _, _ => .no
  | .other _, _ => .no

/-- element-wise `match` of two slices of equal length, stopping at the first failure -/
def listEq : List Tree → List Tree → ARes
  | a :: as, b :: bs =>
    match astEq a b with
    | .yes => listEq as bs
    | r => r
  | _, _ => .yes

/-- the field loop of matchAST: slices element-wise, scalars by equality, pointers/interfaces by `match` -/
def fieldsEq : List Tree → List Tree → ARes
  | .slice _ _ es :: as, b :: bs =>
    match b with
    | .slice _ _ es' =>
      if es.length = es'.length then
        (match listEq es es' with
         | .yes => fieldsEq as bs
         | r => r)
      else .no
    | _ => .no
  | .str x :: as, b :: bs => if leafEq (.str x) b then fieldsEq as bs else .no
  | .tok x :: as, b :: bs => if leafEq (.tok x) b then fieldsEq as bs else .no
  | .other x :: as, b :: bs => if leafEq (.other x) b then fieldsEq as bs else .no
  | a :: as, b :: bs =>
    match astEq a b with
    | .yes => fieldsEq as bs
    | r => r
  | _, _ => .yes
end

/-- first result of a successful `match(m, v, node)` for an AST value `v` -/
def recallVal (l r : Tree) : Tree :=
  match l, peelR r with
  | .nilv, _ => .nilv
  | .nilptr "FieldList" _, _ => .nilv
  | .nilptr _ _, .nilptr _ _ => .other "rv"     -- matchAST returns the reflect.Value `rb`
  | _, r' => r'

/-! ### Patterns -/

inductive Pat where
  | gonil                                   -- a Go nil in a Node field (`List{}`, bare binding)
  | any
  | nil
  | str (s : String)
  | binding (name : String) (idx : Nat) (sub : Pat)
  | or (alts : List Pat)
  | not (sub : Pat)
  | list (head tail : Pat)
  | node (kind : String) (fnames : List String) (fields : List Pat)
  deriving Repr, Inhabited

/-- `isNil` of match.go -/
def Pat.isNilPat : Pat → Bool
  | .gonil => true
  | .nil => true
  | _ => false

/-- `tokensByString` of match.go (tie: probed through String.Match by `c09match -tables`). -/
def tokensByString : List (String × Nat) := [
  ("INT", 5), ("FLOAT", 6), ("IMAG", 7), ("CHAR", 8), ("STRING", 9),
  ("+", 12), ("-", 13), ("*", 14), ("/", 15), ("%", 16),
  ("&", 17), ("|", 18), ("^", 19), ("<<", 20), (">>", 21), ("&^", 22),
  ("+=", 23), ("-=", 24), ("*=", 25), ("/=", 26), ("%=", 27),
  ("&=", 28), ("|=", 29), ("^=", 30), ("<<=", 31), (">>=", 32), ("&^=", 33),
  ("&&", 34), ("||", 35), ("<-", 36), ("++", 37), ("--", 38),
  ("==", 39), ("<", 40), (">", 41), ("=", 42), ("!", 43),
  ("!=", 44), ("<=", 45), (">=", 46), (":=", 47), ("...", 48),
  ("BREAK", 61), ("CONST", 64), ("CONTINUE", 65), ("FALLTHROUGH", 69), ("GOTO", 73),
  ("IMPORT", 75), ("TYPE", 84), ("VAR", 85)]

/-- String.Match / Token.Match on an already peeled value -/
def strMatch (x : String) : Tree → Option Tree
  | .tok k => if tokensByString.lookup x = some k then some (.tok k) else none
  | .str y => if x = y then some (.str y) else none
  | _ => none

/-- Nil.Match on an already peeled value -/
def nilMatch : Tree → Bool
  | .nilv => true
  | .nilptr _ _ => true
  | .slice _ isNil _ => isNil
  | _ => false

inductive Target | ptr (kind : String) (fnames : List String) (fvals : List Tree) (self : Tree) | miss | crash

/-- matchNodeAST's descent to the struct it compares field-wise: one-element Expr/Stmt/Field
slices are entered, nil and scalars do not match, anything else panics. -/
def target : Tree → Target
  | .node "ParenExpr" _ _ [x] => target x
  | .node "ExprStmt" _ _ [x] => target x
  | .node "DeclStmt" _ _ [x] => target x
  | .node "LabeledStmt" _ _ [_, x] => target x
  | .node "BlockStmt" _ _ [x] => target x
  | .node "FieldList" _ _ [x] => target x
  | .nilptr "BlockStmt" _ => .miss
  | .nilptr "FieldList" _ => .miss
  | .nilptr "BasicLit" _ => .miss
  | .slice .X _ _ => .crash                      -- "unhandled type"
  | .slice _ _ [x] => target x
  | .slice _ _ _ => .miss
  | .node k c fn fv => .ptr k fn fv (.node k c fn fv)
  | .nilptr _ _ => .crash                        -- reflect.Value.Type on the zero Value
  | .nilv => .miss
  | .str _ => .miss
  | .tok _ => .miss
  | .other _ => .crash                           -- "unhandled type"

def lookupField (n : String) : List String → List Tree → Option Tree
  | f :: fs, v :: vs => if f = n then some v else lookupField n fs vs
  | _, _ => none

/-! ### Matcher state -/

abbrev Env := String → Option Tree

def Env.empty : Env := fun _ => none
def Env.set (σ : Env) (x : String) (v : Tree) : Env := fun y => if y = x then some v else σ y
def Env.del (σ : Env) (x : String) : Env := fun y => if y = x then none else σ y

/-- `mask | 1<<idx` on uint64 -/
def setBit (mask idx : Nat) : Nat := mask ||| ((1 <<< idx) % 2 ^ 64)
/-- `mask & (1<<i) != 0` on uint64 -/
def hasBit (mask i : Nat) : Bool := (mask &&& ((1 <<< i) % 2 ^ 64)) != 0

/-- the loop of Matcher.pop over bindingsMapping, from index `i` -/
def delFrom (mask : Nat) : Nat → List String → Env → Env
  | _, [], σ => σ
  | i, n :: ns, σ => delFrom mask (i + 1) ns (if hasBit mask i then σ.del n else σ)

structure MState where
  st : Env
  stack : List Nat          -- setBindings, head = top of stack
  /-- instrumentation only (not in Go): number of non-empty frames discarded by `pop` -/
  pops : Nat := 0

def MState.set (s : MState) (name : String) (idx : Nat) (v : Tree) : MState :=
  { s with
    st := s.st.set name v,
    stack := match s.stack with
      | top :: rest => setBit top idx :: rest
      | [] => [] }

def MState.push (s : MState) : MState := { s with stack := 0 :: s.stack }

def MState.pop (mp : List String) (s : MState) : MState :=
  match s.stack with
  | top :: rest =>
    { st := if top != 0 then delFrom top 0 mp s.st else s.st, stack := rest,
      pops := if top != 0 then s.pops + 1 else s.pops }
  | [] => s

/-- Matcher.merge: the names bound in the finished frame now belong to the enclosing frame. -/
def MState.merge (s : MState) : MState :=
  match s.stack with
  | top :: nxt :: rest => { s with stack := (nxt ||| top) :: rest }
  | _ :: [] => { s with stack := [] }
  | [] => s

inductive PanicKind | created | other
  deriving DecidableEq, Repr

inductive Res where
  | ok (v : Tree) (s : MState)
  | fail (s : MState)
  | panic (k : PanicKind)

mutual
/-- `match(m, p, t)` for a pattern `p`; `mp` = Matcher.bindingsMapping -/
def impl (mp : List String) : Pat → Tree → MState → Res
  | .gonil, t, s => if (peelR t).isNilv then .ok .nilv s else .fail s
  | .any, t, s => .ok (peelR t) s
  | .nil, t, s => if nilMatch (peelR t) then .ok .nilv s else .fail s
  | .str x, t, s =>
    match strMatch x (peelR t) with
    | some v => .ok v s
    | none => .fail s
  | .binding name idx sub, t, s =>
    if sub.isNilPat then
      match s.st name with
      | some v =>
        match astEq v t with
        | .yes => .ok (recallVal v t) s
        | .no => .fail s
        | .panic => .panic .other
      | none => .ok (peelR t) (s.set name idx (peelR t))
    else
      match s.st name with
      | some _ => .panic .created
      | none =>
        match impl mp sub t s with
        | .ok v s' => .ok v (s'.set name idx v)
        | r => r
  | .or alts, t, s => implOr mp alts t s
  | .not sub, t, s =>
    match impl mp sub t s.push with
    | .ok _ s' => .fail (s'.pop mp)
    | .fail s' => .ok (peelR t) (s'.pop mp)
    | .panic k => .panic k
  | .list h tl, t, s =>
    match peelR t with
    | .slice ek isNil es =>
      if h.isNilPat then
        (if es.isEmpty then .ok (.slice ek isNil es) s else .fail s)
      else
        match es with
        | [] => .fail s
        | e :: rest =>
          match impl mp h e s with
          | .panic k => .panic k
          | .ok _ s1 =>
            (match impl mp tl (.slice ek false rest) s1 with
             | .ok _ s2 => .ok (.slice ek isNil es) s2
             | r => r)
          | .fail s1 =>
            (match impl mp tl (.slice ek false rest) s1 with
             | .ok _ s2 => .fail s2
             | r => r)
    | _ => .fail s
  | .node kind fnames fields, t, s =>
    match target t with
    | .ptr k tfn tfv self =>
      if kind = k then
        (match implFields mp fnames fields tfn tfv s with
         | .ok _ s' => .ok self s'
         | r => r)
      else .fail s
    | .miss => .fail s
    | .crash => .panic .other

/-- Or.Match -/
def implOr (mp : List String) : List Pat → Tree → MState → Res
  | [], _, s => .fail s
  | a :: as, t, s =>
    match impl mp a t s.push with
    | .ok v s' => .ok v s'.merge
    | .fail s' => implOr mp as t (s'.pop mp)
    | .panic k => .panic k

/-- the field loop of matchNodeAST -/
def implFields (mp : List String) : List String → List Pat → List String → List Tree → MState → Res
  | n :: ns, p :: ps, tfn, tfv, s =>
    match lookupField n tfn tfv with
    | none => .panic .other
    | some bv =>
      match impl mp p bv s with
      | .ok _ s' => implFields mp ns ps tfn tfv s'
      | r => r
  | _, _, _, _, s => .ok .nilv s
end

/-- Matcher.Match: result flag and State (or the panic). -/
inductive Outcome where
  | done (ok : Bool) (st : Env) (pops : Nat := 0)
  | panic (k : PanicKind)

def implMatch (mp : List String) (p : Pat) (t : Tree) : Outcome :=
  match impl mp p t (MState.push { st := Env.empty, stack := [] }) with
  | .ok _ s => .done true s.merge.st s.pops
  | .fail s => .done false s.merge.st s.pops
  | .panic k => .panic k

/-! ### Specification: immutable environments -/

mutual
/-- What a pattern means: `none` = no match, `some (v, env')` = match with value `v`.
Or = first alternative that succeeds from the incoming environment; Not = environment
unchanged; a name that is already bound must match its stored value (`astEq`). -/
def spec : Pat → Tree → Env → Option (Tree × Env)
  | .gonil, t, e => if (peelR t).isNilv then some (.nilv, e) else none
  | .any, t, e => some (peelR t, e)
  | .nil, t, e => if nilMatch (peelR t) then some (.nilv, e) else none
  | .str x, t, e =>
    match strMatch x (peelR t) with
    | some v => some (v, e)
    | none => none
  | .binding name _ sub, t, e =>
    if sub.isNilPat then
      match e name with
      | some v => if astEq v t = .yes then some (recallVal v t, e) else none
      | none => some (peelR t, e.set name (peelR t))
    else
      match e name with
      | some _ => none                      -- an error in the pattern (doc.go); see `wf`
      | none =>
        match spec sub t e with
        | some (v, e') => some (v, e'.set name v)
        | none => none
  | .or alts, t, e => specOr alts t e
  | .not sub, t, e =>
    match spec sub t e with
    | some _ => none
    | none => some (peelR t, e)
  | .list h tl, t, e =>
    match peelR t with
    | .slice ek isNil es =>
      if h.isNilPat then
        (if es.isEmpty then some (.slice ek isNil es, e) else none)
      else
        match es with
        | [] => none
        | x :: rest =>
          match spec h x e with
          | none => none
          | some (_, e1) =>
            match spec tl (.slice ek false rest) e1 with
            | none => none
            | some (_, e2) => some (.slice ek isNil es, e2)
    | _ => none
  | .node kind fnames fields, t, e =>
    match target t with
    | .ptr k tfn tfv self =>
      if kind = k then
        (match specFields fnames fields tfn tfv e with
         | some e' => some (self, e')
         | none => none)
      else none
    | _ => none

def specOr : List Pat → Tree → Env → Option (Tree × Env)
  | [], _, _ => none
  | a :: as, t, e =>
    match spec a t e with
    | some r => some r
    | none => specOr as t e

def specFields : List String → List Pat → List String → List Tree → Env → Option Env
  | n :: ns, p :: ps, tfn, tfv, e =>
    match lookupField n tfn tfv with
    | none => none
    | some bv =>
      match spec p bv e with
      | some (_, e') => specFields ns ps tfn tfv e'
      | none => none
  | _, _, _, _, e => some e
end

def specMatch (p : Pat) (t : Tree) : Option Env :=
  match spec p t Env.empty with
  | some (_, e) => some e
  | none => none

/-! ### Well-formed patterns

doc.go: "It is an error to provide a non-nil node to a binding that has already been bound."
`wf ctx p`: no creating binding `x@(…)` can be reached while `x` may already be bound, where
`ctx` lists the names that may be bound on entry.  `selfFree p`: a creating binding does not
mention its own name in its operand (`x@(Ident x)` would first bind `x` to the string and then
overwrite it). -/

mutual
/-- names that may be visible after matching `p` (bindings made under `Not` never are) -/
def names : Pat → List String
  | .binding n _ sub => n :: names sub
  | .or alts => namesL alts
  | .not _ => []
  | .list h t => names h ++ names t
  | .node _ _ fs => namesL fs
  | _ => []
def namesL : List Pat → List String
  | [] => []
  | p :: ps => names p ++ namesL ps
end

mutual
/-- all names occurring in `p` -/
def allNames : Pat → List String
  | .binding n _ sub => n :: allNames sub
  | .or alts => allNamesL alts
  | .not sub => allNames sub
  | .list h t => allNames h ++ allNames t
  | .node _ _ fs => allNamesL fs
  | _ => []
def allNamesL : List Pat → List String
  | [] => []
  | p :: ps => allNames p ++ allNamesL ps
end

mutual
def wf (ctx : List String) : Pat → Bool
  | .binding n _ sub =>
    if sub.isNilPat then true
    else !ctx.contains n && wf ctx sub
  | .or alts => wfAlts ctx alts
  | .not sub => wf ctx sub
  | .list h t => wf ctx h && wf (ctx ++ names h) t
  | .node _ _ fs => wfSeq ctx fs
  | _ => true
/-- alternatives: each from the same context -/
def wfAlts (ctx : List String) : List Pat → Bool
  | [] => true
  | p :: ps => wf ctx p && wfAlts ctx ps
/-- fields: in sequence -/
def wfSeq (ctx : List String) : List Pat → Bool
  | [] => true
  | p :: ps => wf ctx p && wfSeq (ctx ++ names p) ps
end

mutual
def selfFree : Pat → Bool
  | .binding n _ sub => !(allNames sub).contains n && selfFree sub
  | .or alts => selfFreeL alts
  | .not sub => selfFree sub
  | .list h t => selfFree h && selfFree t
  | .node _ _ fs => selfFreeL fs
  | _ => true
def selfFreeL : List Pat → Bool
  | [] => true
  | p :: ps => selfFree p && selfFreeL ps
end

mutual
/-- every binding's index names it in the mapping, and fits the 64-bit mask -/
def wfIdx (mp : List String) : Pat → Bool
  | .binding n i sub => decide (i < 64) && mp[i]? == some n && wfIdx mp sub
  | .or alts => wfIdxL mp alts
  | .not sub => wfIdx mp sub
  | .list h t => wfIdx mp h && wfIdx mp t
  | .node _ _ fs => wfIdxL mp fs
  | _ => true
def wfIdxL (mp : List String) : List Pat → Bool
  | [] => true
  | p :: ps => wfIdx mp p && wfIdxL mp ps
end

/-! ### Parser: index assignment on surface syntax -/

inductive Sx where
  | blank                                  -- _
  | nilkw                                  -- nil
  | str (s : String)                       -- "..."
  | bare (name : String)                   -- name
  | at (name : String) (n : Sx)            -- name@(...)
  | nodeS (typ : String) (args : List Sx)  -- (Typ args...)
  | cons (h t : Sx)                        -- h:t
  | arr (elems : List Sx)                  -- [a b c]
  deriving Repr, Inhabited

inductive PErr | syntax | unknownNode | typeInfo | arity | bindingName | tooMany
  deriving DecidableEq, Repr

/-- Parser.bindingIndex on the list of names in index order -/
def bindingIndex (name : String) (bs : List String) : Nat × List String :=
  match bs.idxOf? name with
  | some i => (i, bs)
  | none => (bs.length, bs ++ [name])

/-- exported fields of the pattern node structs (tie: `c09match -tables`) -/
def nodeFields : List (String × List String) := [
  ("ArrayType", ["Len", "Elt"]), ("AssignStmt", ["Lhs", "Tok", "Rhs"]), ("BasicLit", ["Kind", "Value"]),
  ("BinaryExpr", ["X", "Op", "Y"]), ("BranchStmt", ["Tok", "Label"]), ("CallExpr", ["Fun", "Args"]),
  ("CaseClause", ["List", "Body"]), ("ChanType", ["Dir", "Value"]), ("CommClause", ["Comm", "Body"]),
  ("CompositeLit", ["Type", "Elts"]), ("DeferStmt", ["Call"]), ("Ellipsis", ["Elt"]), ("EmptyStmt", []),
  ("Field", ["Names", "Type", "Tag"]), ("ForStmt", ["Init", "Cond", "Post", "Body"]),
  ("FuncDecl", ["Recv", "Name", "Type", "Body"]), ("FuncLit", ["Type", "Body"]),
  ("FuncType", ["Params", "Results"]), ("GenDecl", ["Tok", "Specs"]), ("GoStmt", ["Call"]),
  ("Ident", ["Name"]), ("IfStmt", ["Init", "Cond", "Body", "Else"]), ("ImportSpec", ["Name", "Path"]),
  ("IncDecStmt", ["X", "Tok"]), ("IndexExpr", ["X", "Index"]), ("InterfaceType", ["Methods"]),
  ("KeyValueExpr", ["Key", "Value"]), ("MapType", ["Key", "Value"]),
  ("RangeStmt", ["Key", "Value", "Tok", "X", "Body"]), ("ReturnStmt", ["Results"]),
  ("SelectStmt", ["Body"]), ("SelectorExpr", ["X", "Sel"]), ("SendStmt", ["Chan", "Value"]),
  ("SliceExpr", ["X", "Low", "High", "Max"]), ("StarExpr", ["X"]), ("StructType", ["Fields"]),
  ("SwitchStmt", ["Init", "Tag", "Body"]), ("TypeAssertExpr", ["X", "Type"]), ("TypeSpec", ["Name", "Type"]),
  ("TypeSwitchStmt", ["Init", "Assign", "Body"]), ("UnaryExpr", ["Op", "X"]),
  ("ValueSpec", ["Names", "Type", "Values"])]

def requiresTypeInfo : List String :=
  ["Symbol", "Builtin", "Object", "IntegerLiteral", "TrulyConstantExpression"]

inductive NodeClass where
  | tyinfo | orC | anyC | notC | listC | bindingC | unknown
  | struct (fs : List String)

/-- `structNodes[typ]` of parser.go, by the shape populateNode distinguishes -/
def classify (typ : String) : NodeClass :=
  if requiresTypeInfo.contains typ then .tyinfo
  else if typ = "Or" then .orC
  else if typ = "Any" then .anyC
  else if typ = "Not" then .notC
  else if typ = "List" then .listC
  else if typ = "Binding" then .bindingC
  else match nodeFields.lookup typ with
    | none => .unknown
    | some fs => .struct fs

/-- populateNode (allowTypeInfo = false). A `Binding` gets index 0 here; Parser.node assigns it. -/
def populate (typ : String) (objs : List Pat) : Except PErr Pat :=
  match classify typ with
  | .tyinfo => .error .typeInfo
  | .unknown => .error .unknownNode
  | .orC => .ok (.or objs)
  | .anyC => (match objs with | [] => .ok .any | _ => .error .arity)
  | .notC => (match objs with | [x] => .ok (.not x) | _ => .error .arity)
  | .listC => (match objs with | [h, t] => .ok (.list h t) | _ => .error .arity)
  | .bindingC =>
    (match objs with
     | [.str name, sub] => .ok (.binding name 0 sub)
     | [_, _] => .error .bindingName
     | _ => .error .arity)
  | .struct fs => if objs.length = fs.length then .ok (.node typ fs objs) else .error .arity

def mkList : List Pat → Pat
  | [] => .list .gonil .gonil
  | p :: ps => .list p (mkList ps)

mutual
/-- Parser.object / Parser.node / Parser.array with the binding table threaded through -/
def elabSx : Sx → List String → Except PErr (Pat × List String)
  | .blank, bs => .ok (.any, bs)
  | .nilkw, bs => .ok (.nil, bs)
  | .str s, bs => .ok (.str s, bs)
  | .bare name, bs =>
    let (i, bs') := bindingIndex name bs
    .ok (.binding name i .gonil, bs')
  | .at name n, bs =>
    match elabSx n bs with
    | .error e => .error e
    | .ok (o, bs1) =>
      let (i, bs2) := bindingIndex name bs1
      .ok (.binding name i o, bs2)
  | .nodeS typ args, bs =>
    match elabList args bs with
    | .error e => .error e
    | .ok (objs, bs1) =>
      match populate typ objs with
      | .error e => .error e
      | .ok (.binding name _ sub) =>
        -- Parser.node: `node.idx = p.bindingIndex(node.Name)` on the node that is returned
        let (i, bs2) := bindingIndex name bs1
        .ok (.binding name i sub, bs2)
      | .ok node => .ok (node, bs1)
  | .cons h t, bs =>
    match elabSx h bs with
    | .error e => .error e
    | .ok (hp, bs1) =>
      match elabSx t bs1 with
      | .error e => .error e
      | .ok (tp, bs2) => .ok (.list hp tp, bs2)
  | .arr elems, bs =>
    match elabList elems bs with
    | .error e => .error e
    | .ok (objs, bs1) => .ok (mkList objs, bs1)

def elabList : List Sx → List String → Except PErr (List Pat × List String)
  | [], bs => .ok ([], bs)
  | x :: xs, bs =>
    match elabSx x bs with
    | .error e => .error e
    | .ok (p, bs1) =>
      match elabList xs bs1 with
      | .error e => .error e
      | .ok (ps, bs2) => .ok (p :: ps, bs2)
end

/-- Parser.Parse: root pattern and Pattern.Bindings -/
def parse (s : Sx) : Except PErr (Pat × List String) :=
  match elabSx s [] with
  | .error e => .error e
  | .ok (p, bs) => if bs.length > 64 then .error .tooMany else .ok (p, bs)

end Verif.C09
