import Verif.C09.Driver
def main : IO UInt32 := do
  Verif.Proto.runLines Verif.C09.step
  return 0
