import Verif.C09.Model
namespace Verif.C09
end Verif.C09
