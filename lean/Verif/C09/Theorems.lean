import Verif.C09.Refine
import Verif.C09.NoPanic
import Verif.C09.Consistent
import Verif.C09.ParserLemmas
import Verif.C09.Spelling
import Verif.C09.AstEq
import Verif.C09.Structural
/-
C09 — Pattern bindings: alternatives are atomic, names bind consistently.

Property theorems over the model of pattern/match.go + pattern/parser.go (Model.lean):

* `impl_refines_spec`  after a successful match of the state machine (mutable State, stack of
                       64-bit masks, push/pop/merge) the visible bindings are exactly those of
                       the specification's successful path (immutable environments: Or = first
                       alternative that succeeds from the incoming environment, Not = environment
                       unchanged). `impl_fail_spec`: and it fails exactly when the specification does.
* `visible_names`      only names that occur outside of every `Not` operand can be visible afterwards.
* `repeat_consistent`  the final State is one assignment under which every binding occurrence on
                       the successful path agrees (`Sat`); `astEq_sound` (AstEq.lean) says what
                       agreeing means: structural equality up to the transparent wrappers (`norm`);
                       `repeat_structurally_equal` combines the two (`SatN`, Structural.lean).
* `spellings_agree`    desugaring the shorthand (`x`, `x@(…)`) into the explicit Binding form
                       changes neither Pattern.Bindings nor any match result.
* `parse_wfIdx`        the parser's output satisfies the index hypothesis of the theorems above.
* `no_panic`           "binding already created" is unreachable for well-formed patterns.

Helper lemmas: Lemmas.lean (masks, pop, frame invariant), Refine.lean (`impl_rel`),
NoPanic.lean, Consistent.lean, AstEq.lean, Structural.lean, ParserLemmas.lean, Spelling.lean.
-/
namespace Verif.C09

/-! ### alternatives are atomic -/

/-- Visible bindings after a successful match are exactly those of the successful path. -/
theorem impl_refines_spec (mp : List String) (p : Pat) (t : Tree) (σ : Env) (n : Nat)
    (hwf : wfIdx mp p = true) (h : implMatch mp p t = .done true σ n) : specMatch p t = some σ := by
  have ih := impl_rel mp p t (MState.push { st := Env.empty, stack := [] }) 0 [] hwf rfl
  unfold implMatch at h
  unfold specMatch
  cases hr : impl mp p t (MState.push { st := Env.empty, stack := [] }) with
  | ok v s =>
    rw [hr] at ih h
    obtain ⟨_, hsp⟩ := ih
    simp only [push_st] at hsp
    simp only [Outcome.done.injEq] at h
    rw [hsp]
    simp only [← h.2.1, merge_st]
  | fail s => rw [hr] at h; simp at h
  | panic k => rw [hr] at h; simp at h

/-- The state machine fails exactly when the specification has no match. -/
theorem impl_fail_spec (mp : List String) (p : Pat) (t : Tree) (σ : Env) (n : Nat)
    (hwf : wfIdx mp p = true) (h : implMatch mp p t = .done false σ n) : specMatch p t = none := by
  have ih := impl_rel mp p t (MState.push { st := Env.empty, stack := [] }) 0 [] hwf rfl
  unfold implMatch at h
  unfold specMatch
  cases hr : impl mp p t (MState.push { st := Env.empty, stack := [] }) with
  | ok v s => rw [hr] at h; simp at h
  | fail s =>
    rw [hr] at ih
    obtain ⟨_, hsp⟩ := ih
    simp only [push_st] at hsp
    rw [hsp]
  | panic k => rw [hr] at h; simp at h

/-! Non-vacuity. DESIGN.md section 6 row 10: `(Or (BinaryExpr (Or x@(Ident _) (BasicLit _ _)) "+" _)
(BinaryExpr _ "-" _))` on `a - 1`: the first alternative binds `x` inside a nested Or and then
fails on the operator; the match succeeds with no visible binding. Row 11: a Not operand that
binds `f` and then fails. -/

def exIdent (s : String) : Tree := .node "Ident" .E ["Name"] [.str s]
def exAminus1 : Tree :=
  .node "BinaryExpr" .E ["X", "Op", "Y"] [exIdent "a", .tok 13, .node "BasicLit" .E ["Kind", "Value"] [.tok 5, .str "1"]]
def exRow10 : Pat :=
  .or [.node "BinaryExpr" ["X", "Op", "Y"]
         [.or [.binding "x" 0 (.node "Ident" ["Name"] [.any]), .node "BasicLit" ["Kind", "Value"] [.any, .any]],
          .str "+", .any],
       .node "BinaryExpr" ["X", "Op", "Y"] [.any, .str "-", .any]]

example : wfIdx ["x"] exRow10 = true := by decide
example : (match implMatch ["x"] exRow10 exAminus1 with
    | .done true σ n => (σ "x").isNone && n == 1 | _ => false) = true := by rfl
example : (match specMatch exRow10 exAminus1 with | some σ => (σ "x").isNone | none => false) = true := by rfl

def exRow11 : Pat :=
  .node "BinaryExpr" ["X", "Op", "Y"]
    [.any, .any, .not (.node "CallExpr" ["Fun", "Args"]
      [.binding "f" 0 (.node "Ident" ["Name"] [.any]),
       .list (.node "BasicLit" ["Kind", "Value"] [.str "INT", .any]) (.list .gonil .gonil)])]
def exAplusGx : Tree :=
  .node "BinaryExpr" .E ["X", "Op", "Y"] [exIdent "a", .tok 12,
    .node "CallExpr" .E ["Fun", "Args"] [exIdent "g", .slice .E false [exIdent "x"]]]
example : (match implMatch ["f"] exRow11 exAplusGx with
    | .done true σ n => (σ "f").isNone && n == 1 | _ => false) = true := by rfl

/-- A name bound after a successful match occurs in the pattern outside of every `Not` operand:
whatever a `Not` operand (or a failed alternative, by `impl_refines_spec`) bound is gone. -/
theorem visible_names (mp : List String) (p : Pat) (t : Tree) (σ : Env) (n : Nat)
    (hwf : wfIdx mp p = true) (h : implMatch mp p t = .done true σ n) :
    ∀ x, σ x ≠ none → x ∈ names p := by
  have hs := impl_refines_spec mp p t σ n hwf h
  unfold specMatch at hs
  cases hr : spec p t Env.empty with
  | none => simp [hr] at hs
  | some r =>
    obtain ⟨v, e⟩ := r
    simp only [hr, Option.some.injEq] at hs
    subst hs
    intro x hx
    apply Classical.byContradiction
    intro hnot
    exact hx (by rw [(spec_ext p t Env.empty v e hr).2 x hnot]; rfl)

/-! Non-vacuity: in row 11 `f` occurs only under `Not`: `names` is empty although `f` is a name of
the pattern. -/
example : names exRow11 = [] ∧ allNames exRow11 = ["f"] := by decide

/-! ### names bind consistently -/

/-- The final State of a successful match is a single assignment under which every binding
occurrence on the successful path agrees: the occurrence that created `x` holds `σ x`, every
other occurrence matched `σ x` (`astEq`, see `astEq_sound`). -/
theorem repeat_consistent (mp : List String) (p : Pat) (t : Tree) (σ : Env) (n : Nat)
    (hwf : wfIdx mp p = true) (hsf : selfFree p = true)
    (h : implMatch mp p t = .done true σ n) : ∃ v, Sat σ p t v := by
  have hs := impl_refines_spec mp p t σ n hwf h
  unfold specMatch at hs
  cases hr : spec p t Env.empty with
  | none => simp [hr] at hs
  | some r =>
    obtain ⟨v, e⟩ := r
    simp only [hr, Option.some.injEq] at hs
    subst hs
    exact ⟨v, spec_sat e p t Env.empty v e hsf hr (Env.le_refl e)⟩

/-! Non-vacuity: `(CallExpr _ [x x])` on `f(a, a)` matches (and binds x), on `f(a, b)` it does not. -/
def exXX : Pat := .node "CallExpr" ["Fun", "Args"]
  [.any, .list (.binding "x" 0 .gonil) (.list (.binding "x" 0 .gonil) (.list .gonil .gonil))]
def exCall (a b : String) : Tree :=
  .node "CallExpr" .E ["Fun", "Args"] [exIdent "f", .slice .E false [exIdent a, exIdent b]]
example : selfFree exXX = true ∧ wfIdx ["x"] exXX = true := by decide
example : (match implMatch ["x"] exXX (exCall "a" "a") with
    | .done true σ _ => (σ "x").isSome | _ => false) = true := by rfl
example : (match implMatch ["x"] exXX (exCall "a" "b") with
    | .done false _ _ => true | _ => false) = true := by rfl

/-- The same with "agrees" spelled out: along the successful path every occurrence of a bare name
`x` saw a subtree with the same normal form as the one value `σ x` (`SatN`, Structural.lean). -/
theorem repeat_structurally_equal (mp : List String) (p : Pat) (t : Tree) (σ : Env) (n : Nat)
    (hwf : wfIdx mp p = true) (hsf : selfFree p = true)
    (h : implMatch mp p t = .done true σ n) : ∃ v, SatN σ p t v := by
  obtain ⟨v, hv⟩ := repeat_consistent mp p t σ n hwf hsf h
  exact ⟨v, Sat.toN σ p t v hv⟩

/-! Non-vacuity: for `(CallExpr _ [x x])` on `f(a, (a))` the match succeeds, `σ x` is `a`, and `SatN`
unfolds to: both arguments have the normal form of `σ x`. -/
def exCallP : Tree :=
  .node "CallExpr" .E ["Fun", "Args"] [exIdent "f", .slice .E false [exIdent "a", .node "ParenExpr" .E ["X"] [exIdent "a"]]]
example : (match implMatch ["x"] exXX exCallP with
    | .done true σ _ => (match σ "x" with | some (.node "Ident" _ _ [.str "a"]) => true | _ => false)
    | _ => false) = true := by rfl

/-- (proved in AstEq.lean) restated: what "agrees" means for a repeated name — the stored subtree
and the candidate have the same normal form `norm` (transparent wrappers ParenExpr / ExprStmt /
DeclStmt / LabeledStmt / BlockStmt / FieldList removed, a one-element slice identified with its
element, kinds and children equal). -/
example (v t : Tree) (h : astEq v t = .yes) : norm v = norm t := astEq_sound v t h

/-! Non-vacuity: `a` and `(a)` are equal for the matcher and have the same normal form; `a` and `b`
are different for the matcher and have different normal forms. -/
def exParen (t : Tree) : Tree := .node "ParenExpr" .E ["X"] [t]
example : astEq (exIdent "a") (exParen (exIdent "a")) = .yes := by rfl
example : norm (exIdent "a") = norm (exParen (exIdent "a")) := by rfl
example : astEq (exIdent "a") (exIdent "b") = .no := by rfl
example : norm (exIdent "a") ≠ norm (exIdent "b") := by simp [norm, normL, exIdent]

/-! ### the two spellings -/

/-- `(Binding "name" pattern)` and `name@pattern` (and `(Binding "name" nil)` / `name`) are
interchangeable: desugaring the shorthand gives the same Pattern.Bindings and a pattern with the
same match results on every tree — or both fail to parse. -/
theorem spellings_agree (s : Sx) :
    match parse s, parse s.toExplicit with
    | .ok (p, bs), .ok (p', bs') => bs' = bs ∧ ∀ t, implMatch bs p' t = implMatch bs p t
    | .error _, .error _ => True
    | _, _ => False := by
  have h := elab_toExplicit s []
  unfold parse
  cases h1 : elabSx s [] with
  | error e =>
    rw [h1] at h
    cases h2 : elabSx s.toExplicit [] with
    | error e' => trivial
    | ok r => rw [h2] at h; simp [ERel] at h
  | ok r =>
    obtain ⟨p, bs⟩ := r
    rw [h1] at h
    cases h2 : elabSx s.toExplicit [] with
    | error e' => rw [h2] at h; simp [ERel] at h
    | ok r' =>
      obtain ⟨p', bs'⟩ := r'
      rw [h2] at h
      obtain ⟨hn, hb⟩ := h
      subst hb
      by_cases hlen : bs.length > 64
      · simp only [hlen, if_true]
      · simp only [hlen, if_false]
        refine ⟨trivial, fun t => ?_⟩
        rw [← implMatch_normP bs p', ← hn, implMatch_normP]

/-! Non-vacuity (DESIGN.md section 6 row 9): `(CallExpr a@(Ident _) [b@(Ident _)])` and its
explicit form get the same indices a ↦ 0, b ↦ 1. -/
def exSx : Sx := .nodeS "CallExpr" [.at "a" (.nodeS "Ident" [.blank]), .arr [.at "b" (.nodeS "Ident" [.blank])]]
example : (match parse exSx, parse exSx.toExplicit with
    | .ok (.node _ _ [.binding "a" 0 _, .list (.binding "b" 1 _) _], ["a", "b"]),
      .ok (.node _ _ [.binding "a" 0 _, .list (.binding "b" 1 _) _], ["a", "b"]) => true
    | _, _ => false) = true := by rfl

/-- (re-exported from ParserLemmas.lean) every Binding of a parsed pattern carries the index under
which Pattern.Bindings lists its name, below 64. -/
example (s : Sx) (p : Pat) (bs : List String) (h : parse s = .ok (p, bs)) : wfIdx bs p = true :=
  parse_wfIdx s p bs h

/-! ### no "binding already created" -/

/-- (proved in NoPanic.lean) restated: a well-formed, index-correct pattern never panics with
"binding already created". -/
example (mp : List String) (p : Pat) (t : Tree) (hwf : wf [] p = true) (hidx : wfIdx mp p = true) :
    implMatch mp p t ≠ .panic .created := no_panic mp p t hwf hidx

/-! Non-vacuity: `(Or (BinaryExpr (Or x@(Ident _) (BasicLit _ _)) "+" _) x@(BinaryExpr _ "-" _))`
(row 10, second witness) is well-formed — `x@` occurs in two alternatives — and matches `a - 1`
binding `x` to the whole expression; the ill-formed `(BinaryExpr x@(Ident _) _ x@(Ident _))` does panic. -/
def exRow10b : Pat :=
  .or [.node "BinaryExpr" ["X", "Op", "Y"]
         [.or [.binding "x" 0 (.node "Ident" ["Name"] [.any]), .node "BasicLit" ["Kind", "Value"] [.any, .any]],
          .str "+", .any],
       .binding "x" 0 (.node "BinaryExpr" ["X", "Op", "Y"] [.any, .str "-", .any])]
example : wf [] exRow10b = true ∧ wfIdx ["x"] exRow10b = true := by decide
example : (match implMatch ["x"] exRow10b exAminus1 with
    | .done true σ _ => (σ "x").isSome | _ => false) = true := by rfl
def exRebind : Pat := .node "BinaryExpr" ["X", "Op", "Y"]
  [.binding "x" 0 (.node "Ident" ["Name"] [.any]), .any, .binding "x" 0 (.node "Ident" ["Name"] [.any])]
example : wf [] exRebind = false := by decide
example : (match implMatch ["x"] exRebind
      (.node "BinaryExpr" .E ["X", "Op", "Y"] [exIdent "a", .tok 12, exIdent "b"]) with
    | .panic .created => true | _ => false) = true := by rfl

end Verif.C09
