import Verif.C09.Model
/-
C09 — the parser's index assignment: every Binding of a parsed pattern carries the index
under which Pattern.Bindings lists its name (both spellings).
-/
namespace Verif.C09


/-- `p` is index-correct for every extension of `bs` that still fits 64 bits -/
def Inv (bs : List String) (p : Pat) : Prop :=
  ∀ ext, (bs ++ ext).length ≤ 64 → wfIdx (bs ++ ext) p = true
def InvL (bs : List String) (ps : List Pat) : Prop :=
  ∀ ext, (bs ++ ext).length ≤ 64 → wfIdxL (bs ++ ext) ps = true

theorem Inv.ext {bs e : List String} {p : Pat} (h : Inv bs p) : Inv (bs ++ e) p := by
  intro ext hl; rw [List.append_assoc] at hl ⊢; exact h _ hl
theorem InvL.ext {bs e : List String} {ps : List Pat} (h : InvL bs ps) : InvL (bs ++ e) ps := by
  intro ext hl; rw [List.append_assoc] at hl ⊢; exact h _ hl

theorem bindingIndex_spec (name : String) (bs : List String) :
    ∃ e, (bindingIndex name bs).2 = bs ++ e ∧ (bindingIndex name bs).2[(bindingIndex name bs).1]? = some name := by
  unfold bindingIndex
  cases h : bs.idxOf? name with
  | some i =>
    refine ⟨[], by simp, ?_⟩
    obtain ⟨hi, hv, _⟩ := List.idxOf?_eq_some_iff.mp h
    simp [List.getElem?_eq_getElem hi, hv]
  | none => exact ⟨[name], rfl, by simp⟩

theorem Inv.binding {bs : List String} {name : String} {sub : Pat} (h : Inv bs sub) :
    ∃ e, (bindingIndex name bs).2 = bs ++ e ∧
      Inv (bindingIndex name bs).2 (.binding name (bindingIndex name bs).1 sub) := by
  obtain ⟨e, he, hg⟩ := bindingIndex_spec name bs
  refine ⟨e, he, ?_⟩
  intro ext hl
  have hg' : ((bindingIndex name bs).2 ++ ext)[(bindingIndex name bs).1]? = some name := by
    rw [List.getElem?_append_left]
    · exact hg
    · have := List.getElem?_eq_some_iff.mp hg; exact this.1
  have hlt : (bindingIndex name bs).1 < 64 := by
    have := (List.getElem?_eq_some_iff.mp hg').1; omega
  simp only [wfIdx, Bool.and_eq_true, decide_eq_true_eq, beq_iff_eq]
  refine ⟨⟨hlt, hg'⟩, ?_⟩
  rw [he] at hl ⊢
  exact h.ext _ hl

theorem mkList_inv {bs : List String} : ∀ {ps : List Pat}, InvL bs ps → Inv bs (mkList ps)
  | [], _ => by intro ext _; simp [mkList, wfIdx]
  | p :: ps, h => by
    intro ext hl
    have := h ext hl
    simp only [wfIdxL, Bool.and_eq_true] at this
    simp only [mkList, wfIdx, Bool.and_eq_true]
    exact ⟨this.1, mkList_inv (ps := ps) (fun e hl' => by
      have := h e hl'; simp only [wfIdxL, Bool.and_eq_true] at this; exact this.2) ext hl⟩

/-- what populateNode guarantees: a Binding comes back with an index-correct operand (its own
index is assigned by Parser.node afterwards), anything else is index-correct as a whole -/
def PopInv (bs : List String) : Pat → Prop
  | .binding _ _ sub => Inv bs sub
  | n => Inv bs n

theorem PopInv.of_not_binding {bs : List String} {n : Pat} (h : PopInv bs n)
    (hne : ∀ name i sub, n = .binding name i sub → False) : Inv bs n := by
  cases n with
  | binding name i sub => exact absurd rfl (hne name i sub)
  | _ => exact h

theorem populate_inv {bs : List String} {typ : String} {objs : List Pat} {node : Pat}
    (h : InvL bs objs) (hp : populate typ objs = .ok node) : PopInv bs node := by
  unfold populate at hp
  cases hc : classify typ <;> simp only [hc] at hp
  case tyinfo => cases hp
  case unknown => cases hp
  case orC =>
    cases hp
    intro ext hl
    simpa [wfIdx] using h ext hl
  case anyC =>
    split at hp
    · cases hp; intro ext _; simp [wfIdx]
    · cases hp
  case notC =>
    split at hp
    · cases hp
      intro ext hl
      have := h ext hl
      simpa [wfIdx, wfIdxL] using this
    · cases hp
  case listC =>
    split at hp
    · cases hp
      intro ext hl
      have := h ext hl
      simpa [wfIdx, wfIdxL] using this
    · cases hp
  case bindingC =>
    split at hp
    · cases hp
      intro ext hl
      have := h ext hl
      simp only [wfIdxL, wfIdx, Bool.and_eq_true] at this
      exact this.2.1
    · cases hp
    · cases hp
  case struct fs =>
    split at hp
    · cases hp
      intro ext hl
      simpa [wfIdx] using h ext hl
    · cases hp

mutual
theorem elabSx_inv : ∀ (s : Sx) (bs : List String) (p : Pat) (bs' : List String),
    elabSx s bs = .ok (p, bs') → (∃ e, bs' = bs ++ e) ∧ Inv bs' p
  | .blank, bs, p, bs', h => by
    simp only [elabSx] at h; cases h; exact ⟨⟨[], by simp⟩, fun _ _ => by simp [wfIdx]⟩
  | .nilkw, bs, p, bs', h => by
    simp only [elabSx] at h; cases h; exact ⟨⟨[], by simp⟩, fun _ _ => by simp [wfIdx]⟩
  | .str x, bs, p, bs', h => by
    simp only [elabSx] at h; cases h; exact ⟨⟨[], by simp⟩, fun _ _ => by simp [wfIdx]⟩
  | .bare name, bs, p, bs', h => by
    simp only [elabSx] at h
    cases h
    have hg : Inv bs Pat.gonil := fun _ _ => by simp [wfIdx]
    obtain ⟨e, he, hi⟩ := hg.binding (name := name)
    exact ⟨⟨e, he⟩, hi⟩
  | .at name n, bs, p, bs', h => by
    simp only [elabSx] at h
    cases hn : elabSx n bs with
    | error e => simp [hn] at h
    | ok r =>
      obtain ⟨o, bs1⟩ := r
      simp only [hn] at h
      cases h
      obtain ⟨⟨e1, he1⟩, hi1⟩ := elabSx_inv n bs o bs1 hn
      obtain ⟨e, he, hi⟩ := hi1.binding (name := name)
      exact ⟨⟨e1 ++ e, by rw [he, he1, List.append_assoc]⟩, hi⟩
  | .nodeS typ args, bs, p, bs', h => by
    simp only [elabSx] at h
    cases ha : elabList args bs with
    | error e => simp [ha] at h
    | ok r =>
      obtain ⟨objs, bs1⟩ := r
      simp only [ha] at h
      obtain ⟨⟨e1, he1⟩, hi1⟩ := elabList_inv args bs objs bs1 ha
      cases hp : populate typ objs with
      | error e => simp [hp] at h
      | ok node =>
        have hpi := populate_inv hi1 hp
        simp only [hp] at h
        split at h
        · cases h
        · rename_i name i0 sub heq
          cases heq
          cases h
          obtain ⟨e, he, hi⟩ := (show Inv bs1 sub from hpi).binding (name := name)
          exact ⟨⟨e1 ++ e, by rw [he, he1, List.append_assoc]⟩, hi⟩
        · rename_i node' hne heq
          cases heq
          cases h
          exact ⟨⟨e1, he1⟩, hpi.of_not_binding (fun name i sub e => hne name i sub (by rw [e]))⟩
  | .cons hd tl, bs, p, bs', h => by
    simp only [elabSx] at h
    cases h1 : elabSx hd bs with
    | error e => simp [h1] at h
    | ok r1 =>
      obtain ⟨hp, bs1⟩ := r1
      simp only [h1] at h
      cases h2 : elabSx tl bs1 with
      | error e => simp [h2] at h
      | ok r2 =>
        obtain ⟨tp, bs2⟩ := r2
        simp only [h2] at h
        obtain ⟨⟨e1, he1⟩, hi1⟩ := elabSx_inv hd bs hp bs1 h1
        obtain ⟨⟨e2, he2⟩, hi2⟩ := elabSx_inv tl bs1 tp bs2 h2
        cases h
        refine ⟨⟨e1 ++ e2, by rw [he2, he1, List.append_assoc]⟩, ?_⟩
        intro ext hl
        simp only [wfIdx, Bool.and_eq_true]
        refine ⟨?_, hi2 ext hl⟩
        rw [he2] at hl ⊢
        exact hi1.ext ext hl
  | .arr elems, bs, p, bs', h => by
    simp only [elabSx] at h
    cases ha : elabList elems bs with
    | error e => simp [ha] at h
    | ok r =>
      obtain ⟨objs, bs1⟩ := r
      simp only [ha] at h
      obtain ⟨he1, hi1⟩ := elabList_inv elems bs objs bs1 ha
      cases h
      exact ⟨he1, mkList_inv hi1⟩

theorem elabList_inv : ∀ (xs : List Sx) (bs : List String) (ps : List Pat) (bs' : List String),
    elabList xs bs = .ok (ps, bs') → (∃ e, bs' = bs ++ e) ∧ InvL bs' ps
  | [], bs, ps, bs', h => by
    simp only [elabList] at h; cases h; exact ⟨⟨[], by simp⟩, fun _ _ => by simp [wfIdxL]⟩
  | x :: xs, bs, ps, bs', h => by
    simp only [elabList] at h
    cases h1 : elabSx x bs with
    | error e => simp [h1] at h
    | ok r1 =>
      obtain ⟨p, bs1⟩ := r1
      simp only [h1] at h
      cases h2 : elabList xs bs1 with
      | error e => simp [h2] at h
      | ok r2 =>
        obtain ⟨ps', bs2⟩ := r2
        simp only [h2] at h
        obtain ⟨⟨e1, he1⟩, hi1⟩ := elabSx_inv x bs p bs1 h1
        obtain ⟨⟨e2, he2⟩, hi2⟩ := elabList_inv xs bs1 ps' bs2 h2
        cases h
        refine ⟨⟨e1 ++ e2, by rw [he2, he1, List.append_assoc]⟩, ?_⟩
        intro ext hl
        simp only [wfIdxL, Bool.and_eq_true]
        refine ⟨?_, hi2 ext hl⟩
        rw [he2] at hl ⊢
        exact hi1.ext ext hl
end

/-- The parser's output is index-correct: every Binding's index names it in Pattern.Bindings
and fits the 64-bit mask (the hypothesis of impl_refines_spec / no_panic). -/
theorem parse_wfIdx (s : Sx) (p : Pat) (bs : List String) (h : parse s = .ok (p, bs)) :
    wfIdx bs p = true := by
  unfold parse at h
  cases he : elabSx s [] with
  | error e => simp [he] at h
  | ok r =>
    obtain ⟨p', bs'⟩ := r
    simp only [he] at h
    split at h
    · cases h
    · rename_i hlen
      cases h
      have := (elabSx_inv s [] p bs he).2 [] (by simpa using Nat.le_of_not_lt hlen)
      simpa using this


end Verif.C09
