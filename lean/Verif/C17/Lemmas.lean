/-
C17 lemmas: `addUse` on graphs, and the invariant of the graph builder (`Build.lean`):
after the calls `E` (in any order) the node lists describe exactly the edges the calls
ask for, under the numbering `idOf` of the objects created so far.
-/
import Verif.C07.Theorems
import Verif.C17.Model
import Verif.C17.Build
namespace Verif.C17
open Verif.C07 Verif.C07.Graph

/-! ### lists -/

theorem getD_modify {α : Type} (l : List α) (i j : Nat) (f : α → α) (d : α) :
    (l.modify i f).getD j d = if i = j ∧ j < l.length then f (l.getD j d) else l.getD j d := by
  simp only [List.getD_eq_getElem?_getD, List.getElem?_modify]
  by_cases hij : i = j
  · subst hij
    by_cases hl : i < l.length
    · simp [hl]
    · simp [hl]
  · simp [hij]

theorem getD_append_default {α : Type} (l : List α) (d : α) (j : Nat) :
    (l ++ [d]).getD j d = l.getD j d := by
  simp only [List.getD_eq_getElem?_getD, List.getElem?_append]
  by_cases hl : j < l.length
  · simp [hl]
  · have h1 : l[j]? = none := List.getElem?_eq_none (Nat.le_of_not_gt hl)
    simp only [hl, if_false, h1, Option.getD_none]
    by_cases h0 : j - l.length = 0
    · simp [h0]
    · have : [d][j - l.length]? = none := List.getElem?_eq_none (by simp; omega)
      simp [this]

/-! ### `addUse` on graphs -/

theorem N_addUse (g : Graph) (x y : Nat) : (addUse g x y).N = g.N := by
  simp [addUse, Graph.N]

theorem usesOf_addUse (g : Graph) (x y a : Nat) :
    (addUse g x y).usesOf a = if a = x ∧ x < g.N then g.usesOf a ++ [y] else g.usesOf a := by
  unfold addUse Graph.usesOf Graph.N
  rw [getD_modify]
  by_cases hax : x = a
  · subst hax
    by_cases hlt : x < g.nodes.length <;> simp [hlt]
  · have : ¬ (a = x ∧ x < g.nodes.length) := fun hh => hax hh.1.symm
    simp [hax, this]

theorem ownsOf_addUse (g : Graph) (x y a : Nat) : (addUse g x y).ownsOf a = g.ownsOf a := by
  unfold addUse Graph.ownsOf
  rw [getD_modify]
  split <;> rfl

theorem uses_subset_addUse (g : Graph) (x y : Nat) : ∀ a b, b ∈ g.usesOf a → b ∈ (addUse g x y).usesOf a := by
  intro a b hb
  rw [usesOf_addUse]
  split
  · exact List.mem_append_left _ hb
  · exact hb

theorem wf_addUse {g : Graph} (h : g.wf = true) (x y : Nat) (hy : y < g.N) : (addUse g x y).wf = true := by
  have hu := wf_uses h
  have ho := wf_owns h
  unfold Graph.wf
  simp only [Bool.and_eq_true, List.all_eq_true, decide_eq_true_eq]
  refine ⟨by rw [N_addUse]; exact wf_pos h, ?_⟩
  intro nd hnd
  obtain ⟨i, hi, rfl⟩ := List.getElem_of_mem hnd
  have e1 : (addUse g x y).usesOf i = ((addUse g x y).nodes[i]).uses := by
    simp [Graph.usesOf, List.getD_eq_getElem?_getD, List.getElem?_eq_getElem hi]
  have e2 : (addUse g x y).ownsOf i = ((addUse g x y).nodes[i]).owns := by
    simp [Graph.ownsOf, List.getD_eq_getElem?_getD, List.getElem?_eq_getElem hi]
  rw [N_addUse]
  constructor
  · intro m hm
    rw [← e1, usesOf_addUse] at hm
    split at hm
    · rcases List.mem_append.1 hm with hm | hm
      · exact hu _ _ hm
      · have : m = y := by simpa using hm
        omega
    · exact hu _ _ hm
  · intro m hm
    rw [← e2, ownsOf_addUse] at hm
    exact ho _ _ hm

/-! ### the builder -/

def BState.U (s : BState) (a : Nat) : List Nat := s.graph.usesOf a
def BState.O (s : BState) (a : Nat) : List Nat := s.graph.ownsOf a

/-- `len(g.nodes) = len(g.objects) + 1`, no object has two nodes, nil has none -/
structure BState.WF (s : BState) : Prop where
  len : s.nodes.length = s.objs.length + 1
  nodup : s.objs.Nodup
  nz : 0 ∉ s.objs

theorem init_wf : BState.init.WF := ⟨rfl, List.nodup_nil, by simp [BState.init]⟩

/-- registered: nil or an object that has a node -/
def BState.Reg (s : BState) (x : Nat) : Prop := x = 0 ∨ x ∈ s.objs

theorem idOf_lt {s : BState} (hw : s.WF) {x : Nat} (hx : s.Reg x) : s.idOf x < s.nodes.length := by
  unfold BState.idOf
  rcases hx with rfl | hx
  · simp [hw.len]
  · have : x ≠ 0 := fun h => hw.nz (h ▸ hx)
    simp only [this, if_false, hw.len]
    have := List.idxOf_lt_length_iff.2 hx
    omega

theorem idOf_inj {s : BState} {x y : Nat} (hx : s.Reg x) (hy : s.Reg y) (hw : s.WF)
    (h : s.idOf x = s.idOf y) : x = y := by
  unfold BState.idOf at h
  rcases hx with rfl | hx <;> rcases hy with rfl | hy
  · rfl
  · have : y ≠ 0 := fun h => hw.nz (h ▸ hy)
    simp [this] at h
  · have : x ≠ 0 := fun h => hw.nz (h ▸ hx)
    simp [this] at h
  · have hx0 : x ≠ 0 := fun h => hw.nz (h ▸ hx)
    have hy0 : y ≠ 0 := fun h => hw.nz (h ▸ hy)
    simp only [hx0, hy0, if_false, Nat.add_right_cancel_iff] at h
    have lx := List.idxOf_lt_length_iff.2 hx
    have ly := List.idxOf_lt_length_iff.2 hy
    have ex := List.getElem_idxOf lx
    have ey := List.getElem_idxOf ly
    rw [← ex, ← ey]
    simp [h]

theorem idOf_congr {t s : BState} (h : t.objs = s.objs) (x : Nat) : t.idOf x = s.idOf x := by
  simp [BState.idOf, h]

/-- what `g.node(o)` does -/
theorem node_spec (s : BState) (hw : s.WF) (o : Nat) :
    (s.node o).1.WF ∧ (s.node o).2 = (s.node o).1.idOf o ∧ (s.node o).1.Reg o ∧
    (∀ x, x ∈ (s.node o).1.objs ↔ x ∈ s.objs ∨ (x = o ∧ o ≠ 0)) ∧
    (∀ x, s.Reg x → (s.node o).1.idOf x = s.idOf x) ∧
    (∀ a, (s.node o).1.U a = s.U a) ∧ (∀ a, (s.node o).1.O a = s.O a) := by
  unfold BState.node
  by_cases h0 : o = 0
  · subst h0
    rw [if_pos rfl]
    exact ⟨hw, by simp [BState.idOf], .inl rfl, by simp, fun _ _ => rfl, fun _ => rfl, fun _ => rfl⟩
  · rw [if_neg h0]
    by_cases hm : o ∈ s.objs
    · rw [if_pos hm]
      refine ⟨hw, by simp [BState.idOf, h0], .inr hm, ?_, fun _ _ => rfl, fun _ => rfl, fun _ => rfl⟩
      intro x; constructor
      · exact .inl
      · rintro (h | ⟨rfl, _⟩)
        · exact h
        · exact hm
    · rw [if_neg hm]
      refine ⟨⟨?_, ?_, ?_⟩, ?_, .inr (by simp), ?_, ?_, ?_, ?_⟩
      · simp [hw.len]
      · rw [List.nodup_append]
        refine ⟨hw.nodup, by simp, ?_⟩
        intro a ha b hb
        have : b = o := by simpa using hb
        subst this
        intro hab; exact hm (hab ▸ ha)
      · intro h
        rcases List.mem_append.1 h with h | h
        · exact hw.nz h
        · have : 0 = o := by simpa using h
          exact h0 this.symm
      · simp [BState.idOf, h0, List.idxOf_append, hm]
      · intro x
        simp only [List.mem_append, List.mem_singleton]
        constructor
        · rintro (h | h)
          · exact .inl h
          · exact .inr ⟨h, h0⟩
        · rintro (h | ⟨h, _⟩)
          · exact .inl h
          · exact .inr h
      · intro x hx
        rcases hx with rfl | hx
        · simp [BState.idOf]
        · have hx0 : x ≠ 0 := fun h => hw.nz (h ▸ hx)
          simp [BState.idOf, hx0, List.idxOf_append, hx]
      · intro a
        simp only [BState.U, BState.graph, Graph.usesOf]
        rw [getD_append_default]
      · intro a
        simp only [BState.O, BState.graph, Graph.ownsOf]
        rw [getD_append_default]

/-- what `g.addUse(a, b)` does -/
theorem addUse_spec (s : BState) (a b : Nat) (ha : a < s.nodes.length) :
    (s.addUse a b).objs = s.objs ∧ (s.addUse a b).nodes.length = s.nodes.length ∧
    (∀ x c, c ∈ (s.addUse a b).U x ↔ c ∈ s.U x ∨ (x = a ∧ c = b)) ∧
    (∀ x, (s.addUse a b).O x = s.O x) := by
  unfold BState.addUse
  by_cases hm : b ∈ (s.nodes.getD a ⟨[], []⟩).uses
  · rw [if_pos hm]
    refine ⟨rfl, rfl, ?_, fun _ => rfl⟩
    intro x c; constructor
    · exact .inl
    · rintro (h | ⟨rfl, rfl⟩)
      · exact h
      · exact hm
  · rw [if_neg hm]
    refine ⟨rfl, by simp, ?_, ?_⟩
    · intro x c
      simp only [BState.U, BState.graph, Graph.usesOf]
      rw [getD_modify]
      by_cases hx : a = x
      · subst hx
        simp only [true_and, ha, if_true, List.mem_append, List.mem_singleton]
      · have : ¬ (x = a) := fun h => hx h.symm
        simp [hx, this]
    · intro x
      simp only [BState.O, BState.graph, Graph.ownsOf]
      rw [getD_modify]
      split <;> rfl

/-- what `g.addOwned(a, b)` does -/
theorem addOwned_spec (s : BState) (a b : Nat) (ha : a < s.nodes.length) :
    (s.addOwned a b).objs = s.objs ∧ (s.addOwned a b).nodes.length = s.nodes.length ∧
    (∀ x c, c ∈ (s.addOwned a b).O x ↔ c ∈ s.O x ∨ (x = a ∧ c = b)) ∧
    (∀ x, (s.addOwned a b).U x = s.U x) := by
  unfold BState.addOwned
  by_cases hm : b ∈ (s.nodes.getD a ⟨[], []⟩).owns
  · rw [if_pos hm]
    refine ⟨rfl, rfl, ?_, fun _ => rfl⟩
    intro x c; constructor
    · exact .inl
    · rintro (h | ⟨rfl, rfl⟩)
      · exact h
      · exact hm
  · rw [if_neg hm]
    refine ⟨rfl, by simp, ?_, ?_⟩
    · intro x c
      simp only [BState.O, BState.graph, Graph.ownsOf]
      rw [getD_modify]
      by_cases hx : a = x
      · subst hx
        simp only [true_and, ha, if_true, List.mem_append, List.mem_singleton]
      · have : ¬ (x = a) := fun h => hx h.symm
        simp [hx, this]
    · intro x
      simp only [BState.U, BState.graph, Graph.usesOf]
      rw [getD_modify]
      split <;> rfl

/-- a call that survives the early returns has a non-nil subject -/
def Event.ok : Event → Prop
  | .use u _ => u ≠ 0
  | .see o _ => o ≠ 0

def Event.mentions : Event → List Nat
  | .use u b => [u, b]
  | .see o w => [o, w]

/-- The builder's invariant after the calls `E` (membership only: no order). -/
structure Inv (s : BState) (E : List Event) : Prop where
  wf : s.WF
  reg : ∀ e, e ∈ E → ∀ o, o ∈ e.mentions → s.Reg o
  uses_iff : ∀ a b, b ∈ s.U a ↔ ∃ u w, Event.use u w ∈ E ∧ s.idOf w = a ∧ s.idOf u = b
  owns_iff : ∀ a b, b ∈ s.O a ↔ ∃ o w, Event.see o w ∈ E ∧ w ≠ 0 ∧ s.idOf w = a ∧ s.idOf o = b

theorem inv_init : Inv BState.init [] := by
  refine ⟨init_wf, by simp, ?_, ?_⟩ <;>
  · intro a b
    simp only [BState.U, BState.O, BState.graph, BState.init, Graph.usesOf, Graph.ownsOf, List.getD_eq_getElem?_getD]
    rcases a with _ | a <;> simp

/-- `g.node(o)` keeps the invariant (for the same calls) -/
theorem Inv.node {s : BState} {E : List Event} (h : Inv s E) (o : Nat) : Inv (s.node o).1 E := by
  obtain ⟨w1, _, _, hmem, hid, hU, hO⟩ := node_spec s h.wf o
  have hreg : ∀ x, s.Reg x → (s.node o).1.Reg x := by
    rintro x (rfl | hx)
    · exact .inl rfl
    · exact .inr ((hmem x).2 (.inl hx))
  refine ⟨w1, fun e he x hx => hreg x (h.reg e he x hx), ?_, ?_⟩
  · intro a b
    rw [hU, h.uses_iff]
    constructor
    · rintro ⟨u, w, he, rfl, rfl⟩
      exact ⟨u, w, he, hid w (h.reg _ he w (by simp [Event.mentions])), hid u (h.reg _ he u (by simp [Event.mentions]))⟩
    · rintro ⟨u, w, he, rfl, rfl⟩
      exact ⟨u, w, he, (hid w (h.reg _ he w (by simp [Event.mentions]))).symm, (hid u (h.reg _ he u (by simp [Event.mentions]))).symm⟩
  · intro a b
    rw [hO, h.owns_iff]
    constructor
    · rintro ⟨u, w, he, hw0, rfl, rfl⟩
      exact ⟨u, w, he, hw0, hid w (h.reg _ he w (by simp [Event.mentions])), hid u (h.reg _ he u (by simp [Event.mentions]))⟩
    · rintro ⟨u, w, he, hw0, rfl, rfl⟩
      exact ⟨u, w, he, hw0, (hid w (h.reg _ he w (by simp [Event.mentions]))).symm, (hid u (h.reg _ he u (by simp [Event.mentions]))).symm⟩

/-- `g.addUse(idOf by, idOf used)` records the call `use used by` -/
theorem Inv.addUse {s : BState} {E : List Event} (h : Inv s E) (u w : Nat) (hu : s.Reg u) (hw : s.Reg w) :
    Inv (s.addUse (s.idOf w) (s.idOf u)) (Event.use u w :: E) := by
  obtain ⟨ho, hl, hU, hO⟩ := addUse_spec s (s.idOf w) (s.idOf u) (idOf_lt h.wf hw)
  have hid : ∀ x, (s.addUse (s.idOf w) (s.idOf u)).idOf x = s.idOf x := by
    intro x; exact idOf_congr ho x
  have hreg : ∀ x, (s.addUse (s.idOf w) (s.idOf u)).Reg x ↔ s.Reg x := by
    intro x; simp [BState.Reg, ho]
  refine ⟨⟨by rw [hl, ho]; exact h.wf.len, by rw [ho]; exact h.wf.nodup, by rw [ho]; exact h.wf.nz⟩, ?_, ?_, ?_⟩
  · intro e he x hx
    rw [hreg]
    rcases List.mem_cons.1 he with rfl | he
    · simp only [Event.mentions, List.mem_cons, List.not_mem_nil, or_false] at hx
      rcases hx with rfl | rfl
      · exact hu
      · exact hw
    · exact h.reg e he x hx
  · intro a b
    rw [hU, h.uses_iff]
    simp only [hid, List.mem_cons]
    constructor
    · rintro (⟨u', w', he, h1, h2⟩ | ⟨rfl, rfl⟩)
      · exact ⟨u', w', .inr he, h1, h2⟩
      · exact ⟨u, w, .inl rfl, rfl, rfl⟩
    · rintro ⟨u', w', he | he, h1, h2⟩
      · injection he with e1 e2
        subst e1 e2
        exact .inr ⟨h1.symm, h2.symm⟩
      · exact .inl ⟨u', w', he, h1, h2⟩
  · intro a b
    rw [hO, h.owns_iff]
    simp only [hid, List.mem_cons]
    constructor
    · rintro ⟨o', w', he, h0, h1, h2⟩
      exact ⟨o', w', .inr he, h0, h1, h2⟩
    · rintro ⟨o', w', he | he, h0, h1, h2⟩
      · cases he
      · exact ⟨o', w', he, h0, h1, h2⟩

/-- `g.addOwned(idOf owner, idOf obj)` records the call `see obj owner` (`owner ≠ nil`) -/
theorem Inv.addOwned {s : BState} {E : List Event} (h : Inv s E) (o w : Nat) (ho' : s.Reg o) (hw : s.Reg w)
    (hw0 : w ≠ 0) : Inv (s.addOwned (s.idOf w) (s.idOf o)) (Event.see o w :: E) := by
  obtain ⟨ho, hl, hO, hU⟩ := addOwned_spec s (s.idOf w) (s.idOf o) (idOf_lt h.wf hw)
  have hid : ∀ x, (s.addOwned (s.idOf w) (s.idOf o)).idOf x = s.idOf x := by
    intro x; exact idOf_congr ho x
  have hreg : ∀ x, (s.addOwned (s.idOf w) (s.idOf o)).Reg x ↔ s.Reg x := by
    intro x; simp [BState.Reg, ho]
  refine ⟨⟨by rw [hl, ho]; exact h.wf.len, by rw [ho]; exact h.wf.nodup, by rw [ho]; exact h.wf.nz⟩, ?_, ?_, ?_⟩
  · intro e he x hx
    rw [hreg]
    rcases List.mem_cons.1 he with rfl | he
    · simp only [Event.mentions, List.mem_cons, List.not_mem_nil, or_false] at hx
      rcases hx with rfl | rfl
      · exact ho'
      · exact hw
    · exact h.reg e he x hx
  · intro a b
    rw [hU, h.uses_iff]
    simp only [hid, List.mem_cons]
    constructor
    · rintro ⟨u', w', he, h1, h2⟩
      exact ⟨u', w', .inr he, h1, h2⟩
    · rintro ⟨u', w', he | he, h1, h2⟩
      · cases he
      · exact ⟨u', w', he, h1, h2⟩
  · intro a b
    rw [hO, h.owns_iff]
    simp only [hid, List.mem_cons]
    constructor
    · rintro (⟨o', w', he, h0, h1, h2⟩ | ⟨rfl, rfl⟩)
      · exact ⟨o', w', .inr he, h0, h1, h2⟩
      · exact ⟨o, w, .inl rfl, hw0, rfl, rfl⟩
    · rintro ⟨o', w', he | he, h0, h1, h2⟩
      · injection he with e1 e2
        subst e1 e2
        exact .inr ⟨h1.symm, h2.symm⟩
      · exact .inl ⟨o', w', he, h0, h1, h2⟩

/-- `see obj nil` only creates the node -/
theorem Inv.see_nil {s : BState} {E : List Event} (h : Inv s E) (o : Nat) (ho : s.Reg o) :
    Inv s (Event.see o 0 :: E) := by
  refine ⟨h.wf, ?_, ?_, ?_⟩
  · intro e he x hx
    rcases List.mem_cons.1 he with rfl | he
    · simp only [Event.mentions, List.mem_cons, List.not_mem_nil, or_false] at hx
      rcases hx with rfl | rfl
      · exact ho
      · exact .inl rfl
    · exact h.reg e he x hx
  · intro a b
    rw [h.uses_iff]
    simp only [List.mem_cons]
    constructor
    · rintro ⟨u', w', he, h1, h2⟩
      exact ⟨u', w', .inr he, h1, h2⟩
    · rintro ⟨u', w', he | he, h1, h2⟩
      · cases he
      · exact ⟨u', w', he, h1, h2⟩
  · intro a b
    rw [h.owns_iff]
    simp only [List.mem_cons]
    constructor
    · rintro ⟨o', w', he, h0, h1, h2⟩
      exact ⟨o', w', .inr he, h0, h1, h2⟩
    · rintro ⟨o', w', he | he, h0, h1, h2⟩
      · injection he with e1 e2
        exact absurd e2 h0
      · exact ⟨o', w', he, h0, h1, h2⟩

/-- one surviving call keeps the invariant -/
theorem Inv.step {s : BState} {E : List Event} (h : Inv s E) (e : Event) :
    Inv (bstepCore s e) (e :: E) := by
  cases e with
  | use u b =>
    simp only [bstepCore]
    have h1 := h.node u
    obtain ⟨w1, e1, r1, _, _, _, _⟩ := node_spec s h.wf u
    have h2 := h1.node b
    obtain ⟨w2, e2, r2, m2, id2, _, _⟩ := node_spec (s.node u).1 w1 b
    have ru : ((s.node u).1.node b).1.Reg u := by
      rcases r1 with rfl | r1
      · exact .inl rfl
      · exact .inr ((m2 u).2 (.inl r1))
    have := h2.addUse u b ru r2
    rw [e2, e1, ← id2 u r1]
    exact this
  | see o w =>
    simp only [bstepCore]
    have h1 := h.node o
    obtain ⟨w1, e1, r1, _, _, _, _⟩ := node_spec s h.wf o
    by_cases hw0 : w = 0
    · subst hw0
      simp only [if_true]
      exact h1.see_nil o r1
    · simp only [hw0, if_false]
      have h2 := h1.node w
      obtain ⟨w2, e2, r2, m2, id2, _, _⟩ := node_spec (s.node o).1 w1 w
      have ro : ((s.node o).1.node w).1.Reg o := by
        rcases r1 with rfl | r1
        · exact .inl rfl
        · exact .inr ((m2 o).2 (.inl r1))
      have := h2.addOwned o w ro r2 hw0
      rw [e2, e1, ← id2 o r1]
      exact this

/-- the calls that survive the early returns -/
def kept (cfg : Cfg) (es : List Event) : List Event := es.filter (keep cfg)

theorem build_inv_aux (cfg : Cfg) (es : List Event) : ∀ (s : BState) (E : List Event), Inv s E →
    ∃ E', Inv (es.foldl (bstep cfg) s) E' ∧ ∀ e, e ∈ E' ↔ e ∈ E ∨ e ∈ kept cfg es := by
  induction es with
  | nil => intro s E h; exact ⟨E, h, by simp [kept]⟩
  | cons e rest ih =>
    intro s E h
    simp only [List.foldl_cons]
    by_cases hk : keep cfg e = true
    · have hs : bstep cfg s e = bstepCore s e := by simp [bstep, hk]
      rw [hs]
      obtain ⟨E', hi, hm⟩ := ih _ _ (h.step e)
      refine ⟨E', hi, ?_⟩
      intro x
      rw [hm]
      simp only [kept, List.filter_cons, hk, if_true, List.mem_cons]
      constructor
      · rintro ((rfl | h1) | h1)
        · exact .inr (.inl rfl)
        · exact .inl h1
        · exact .inr (.inr h1)
      · rintro (h1 | rfl | h1)
        · exact .inl (.inr h1)
        · exact .inl (.inl rfl)
        · exact .inr h1
    · have hs : bstep cfg s e = s := by simp [bstep, hk]
      rw [hs]
      obtain ⟨E', hi, hm⟩ := ih _ _ h
      refine ⟨E', hi, ?_⟩
      intro x
      rw [hm]
      simp [kept, hk]

/-- **Builder invariant.**  After any list of calls, the graph's edges are exactly the calls
that survived the early returns, under the numbering of the created objects. -/
theorem build_inv (cfg : Cfg) (es : List Event) :
    ∃ E', Inv (build cfg es) E' ∧ ∀ e, e ∈ E' ↔ e ∈ kept cfg es := by
  obtain ⟨E', hi, hm⟩ := build_inv_aux cfg es BState.init [] inv_init
  exact ⟨E', hi, by intro e; rw [hm]; simp⟩

/-- the objects that have a node are the non-nil objects mentioned by surviving calls -/
theorem step_objs (s : BState) (hw : s.WF) (e : Event) :
    ∀ x, x ∈ (bstepCore s e).objs ↔ x ∈ s.objs ∨ (x ≠ 0 ∧ x ∈ e.mentions) := by
  intro x
  cases e with
  | use u b =>
    simp only [bstepCore, Event.mentions, List.mem_cons, List.not_mem_nil, or_false]
    obtain ⟨w1, _, _, m1, _, _, _⟩ := node_spec s hw u
    obtain ⟨w2, e2, r2, m2, _, _, _⟩ := node_spec (s.node u).1 w1 b
    obtain ⟨ho, _, _, _⟩ := addUse_spec ((s.node u).1.node b).1 ((s.node u).1.node b).2 (s.node u).2
      (by rw [e2]; exact idOf_lt w2 r2)
    rw [ho, m2, m1]
    constructor
    · rintro ((h | ⟨rfl, h⟩) | ⟨rfl, h⟩)
      · exact .inl h
      · exact .inr ⟨h, .inl rfl⟩
      · exact .inr ⟨h, .inr rfl⟩
    · rintro (h | ⟨h0, rfl | rfl⟩)
      · exact .inl (.inl h)
      · exact .inl (.inr ⟨rfl, h0⟩)
      · exact .inr ⟨rfl, h0⟩
  | see o w =>
    simp only [bstepCore, Event.mentions, List.mem_cons, List.not_mem_nil, or_false]
    obtain ⟨w1, _, _, m1, _, _, _⟩ := node_spec s hw o
    by_cases hw0 : w = 0
    · subst hw0
      simp only [if_true]
      rw [m1]
      constructor
      · rintro (h | ⟨rfl, h⟩)
        · exact .inl h
        · exact .inr ⟨h, .inl rfl⟩
      · rintro (h | ⟨h0, rfl | rfl⟩)
        · exact .inl h
        · exact .inr ⟨rfl, h0⟩
        · exact absurd rfl h0
    · simp only [hw0, if_false]
      obtain ⟨w2, e2, r2, m2, _, _, _⟩ := node_spec (s.node o).1 w1 w
      obtain ⟨ho, _, _, _⟩ := addOwned_spec ((s.node o).1.node w).1 ((s.node o).1.node w).2 (s.node o).2
        (by rw [e2]; exact idOf_lt w2 r2)
      rw [ho, m2, m1]
      constructor
      · rintro ((h | ⟨rfl, h⟩) | ⟨rfl, h⟩)
        · exact .inl h
        · exact .inr ⟨h, .inl rfl⟩
        · exact .inr ⟨h, .inr rfl⟩
      · rintro (h | ⟨h0, rfl | rfl⟩)
        · exact .inl (.inl h)
        · exact .inl (.inr ⟨rfl, h0⟩)
        · exact .inr ⟨rfl, h0⟩

theorem build_objs_aux (cfg : Cfg) (es : List Event) : ∀ (s : BState), s.WF →
    (es.foldl (bstep cfg) s).WF ∧
    ∀ x, x ∈ (es.foldl (bstep cfg) s).objs ↔ x ∈ s.objs ∨ (x ≠ 0 ∧ ∃ e, e ∈ kept cfg es ∧ x ∈ e.mentions) := by
  induction es with
  | nil => intro s hw; exact ⟨hw, by simp [kept]⟩
  | cons e rest ih =>
    intro s hw
    simp only [List.foldl_cons]
    by_cases hk : keep cfg e = true
    · have hs : bstep cfg s e = bstepCore s e := by simp [bstep, hk]
      rw [hs]
      have hw' : (bstepCore s e).WF := by
        -- the invariant gives well-formedness; use a trivially true event list
        cases e with
        | use u b =>
          simp only [bstepCore]
          obtain ⟨w1, _, _, _, _, _, _⟩ := node_spec s hw u
          obtain ⟨w2, e2, r2, _, _, _, _⟩ := node_spec (s.node u).1 w1 b
          obtain ⟨ho, hl, _, _⟩ := addUse_spec ((s.node u).1.node b).1 ((s.node u).1.node b).2 (s.node u).2
            (by rw [e2]; exact idOf_lt w2 r2)
          exact ⟨by rw [hl, ho]; exact w2.len, by rw [ho]; exact w2.nodup, by rw [ho]; exact w2.nz⟩
        | see o w =>
          simp only [bstepCore]
          obtain ⟨w1, _, _, _, _, _, _⟩ := node_spec s hw o
          by_cases hw0 : w = 0
          · simp only [hw0, if_true]; exact w1
          · simp only [hw0, if_false]
            obtain ⟨w2, e2, r2, _, _, _, _⟩ := node_spec (s.node o).1 w1 w
            obtain ⟨ho, hl, _, _⟩ := addOwned_spec ((s.node o).1.node w).1 ((s.node o).1.node w).2 (s.node o).2
              (by rw [e2]; exact idOf_lt w2 r2)
            exact ⟨by rw [hl, ho]; exact w2.len, by rw [ho]; exact w2.nodup, by rw [ho]; exact w2.nz⟩
      obtain ⟨hwf, hm⟩ := ih _ hw'
      refine ⟨hwf, ?_⟩
      intro x
      rw [hm, step_objs s hw e]
      simp only [kept, List.filter_cons, hk, if_true, List.mem_cons]
      constructor
      · rintro ((h | ⟨h0, h⟩) | ⟨h0, e', he', h⟩)
        · exact .inl h
        · exact .inr ⟨h0, e, .inl rfl, h⟩
        · exact .inr ⟨h0, e', .inr he', h⟩
      · rintro (h | ⟨h0, e', rfl | he', h⟩)
        · exact .inl (.inl h)
        · exact .inl (.inr ⟨h0, h⟩)
        · exact .inr ⟨h0, e', he', h⟩
    · have hs : bstep cfg s e = s := by simp [bstep, hk]
      rw [hs]
      obtain ⟨hwf, hm⟩ := ih _ hw
      refine ⟨hwf, ?_⟩
      intro x
      rw [hm]
      simp [kept, hk]

theorem build_objs (cfg : Cfg) (es : List Event) (x : Nat) :
    x ∈ (build cfg es).objs ↔ x ≠ 0 ∧ ∃ e, e ∈ kept cfg es ∧ x ∈ e.mentions := by
  have := (build_objs_aux cfg es BState.init init_wf).2 x
  simpa [build, BState.init] using this

end Verif.C17
