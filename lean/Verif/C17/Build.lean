/-
C17 — model of the graph builder of `unused` (/repo/unused/unused.go):

  graph.node / newNode        → `BState.node`
  graph.addEdge + addUse      → `BState.addUse`   (the `edges` map de-duplicates: an edge is
  graph.addEdge + addOwned    → `BState.addOwned`  appended to the node's list iff it is not in it yet)
  graph.use(used, by)         → `bstepCore (.use used by)` behind the filter `keep`
  graph.see(obj, owner)       → `bstepCore (.see obj owner)` behind the filter `keep`

The AST walk (`entry/decl/stmt/read/write/namedType/…`) is NOT modelled: it is abstracted to
the list of `use`/`see` calls it makes (`Event`).  Objects (`types.Object`) are abstract
natural numbers, `0` is the nil object (Go: `g.node(nil) = 0`, the root).  `cfg.isLocal o`
is `o.Pkg() == g.pkg && o.Pkg() != nil`, `cfg.irrelevant o` is `isIrrelevant(o)`
(`*types.PkgName`); options are the defaults (`ExportedIsUsed = true`).

Core Lean only (compiled into `c17driver`).
-/
import Verif.C07.Graph
namespace Verif.C17
open Verif.C07

inductive Event
  /-- `g.use(used, by)`; `by = 0` is `nil` -/
  | use (used by_ : Nat)
  /-- `g.see(obj, owner)`; `owner = 0` is `nil` -/
  | see (obj owner : Nat)
  deriving Repr, DecidableEq, Inhabited

structure Cfg where
  isLocal : Nat → Bool
  irrelevant : Nat → Bool

/-- The early returns of `use` / `see`:
`use`: `if used.Pkg() != g.pkg || used.Pkg() == nil {return}; if by != nil && by.Pkg() != g.pkg {return}; if isIrrelevant(used) {return}`;
`see`: `if obj.Pkg() != g.pkg || obj.Pkg() == nil {return}`.
(A nil `used`/`obj` panics in Go; the model drops such a call.) -/
def keep (cfg : Cfg) : Event → Bool
  | .use u b => u != 0 && cfg.isLocal u && (b == 0 || cfg.isLocal b) && !cfg.irrelevant u
  | .see o _ => o != 0 && cfg.isLocal o

/-- `g.objects` and `g.nodes`: the object created `i`-th (0-based) has `NodeID i+1`. -/
structure BState where
  objs : List Nat
  nodes : List Node
  deriving Repr, Inhabited

/-- `newGraph`: `nodes: []Node{{}}`, empty maps -/
def BState.init : BState := ⟨[], [⟨[], []⟩]⟩

def BState.idOf (s : BState) (o : Nat) : Nat := if o = 0 then 0 else s.objs.idxOf o + 1

/-- `g.node(obj)` -/
def BState.node (s : BState) (o : Nat) : BState × Nat :=
  if o = 0 then (s, 0)
  else if o ∈ s.objs then (s, s.objs.idxOf o + 1)
  else (⟨s.objs ++ [o], s.nodes ++ [⟨[], []⟩]⟩, s.objs.length + 1)

/-- `g.addUse(by, used)` -/
def BState.addUse (s : BState) (by_ used : Nat) : BState :=
  if used ∈ (s.nodes.getD by_ ⟨[], []⟩).uses then s
  else { s with nodes := s.nodes.modify by_ (fun nd => { nd with uses := nd.uses ++ [used] }) }

/-- `g.addOwned(owner, owned)` -/
def BState.addOwned (s : BState) (owner owned : Nat) : BState :=
  if owned ∈ (s.nodes.getD owner ⟨[], []⟩).owns then s
  else { s with nodes := s.nodes.modify owner (fun nd => { nd with owns := nd.owns ++ [owned] }) }

/-- bodies of `use` / `see` after the early returns -/
def bstepCore (s : BState) : Event → BState
  | .use u b =>
    let (s1, nUsed) := s.node u
    let (s2, nBy) := s1.node b
    s2.addUse nBy nUsed
  | .see o w =>
    let (s1, nObj) := s.node o
    if w = 0 then s1 else
    let (s2, nOwner) := s1.node w
    s2.addOwned nOwner nObj

def bstep (cfg : Cfg) (s : BState) (e : Event) : BState := if keep cfg e then bstepCore s e else s

/-- the state after the walk made the calls `es` in this order -/
def build (cfg : Cfg) (es : List Event) : BState := es.foldl (bstep cfg) BState.init

def BState.graph (s : BState) : Graph := ⟨s.nodes⟩

/-- what `Results()` says about object `o`: `none` when the object has no node -/
def objVerdict (cfg : Cfg) (es : List Event) (o : Nat) : Option Graph.Verdict :=
  let s := build cfg es
  if o ≠ 0 ∧ o ∈ s.objs then some (s.graph.verdict (s.idOf o)) else none

/-- every object is local, none irrelevant: the filters keep every call with a non-nil subject -/
def Cfg.all : Cfg := ⟨fun _ => true, fun _ => false⟩

end Verif.C17
