/-
C17 line protocol.

  verdicts <N> <uses> <owns>                → as C07 (`wf=1 <U/Q/X string> …`)
  adduse <N> <uses> <owns> <x> <y>          → verdict string of `addUse g x y`
  iso <N> <uses> <owns> <uses'> <owns'> <f> → `hyp=<0|1> same=<0|1>`: are the hypotheses of
        `results_perm_invariant` met by the renumbering f (comma separated images of 0..N-1),
        and do all verdicts correspond
  merge <k> then per variant: <allowed 0|1> <nUsed> keys… <nUnused> keys…
        key = hex(pkg)/hex(base)/line/hex(name)
        → reported keys in emission order, space separated, or `-`
-/
import Verif.Common.Proto
import Verif.C07.Driver
import Verif.C17.Model
namespace Verif.C17
open Verif.Proto Verif.C07

def parseKey (s : String) : Option Key :=
  match s.splitOn "/" with
  | [p, b, l, n] => do
    let p ← hexDecode p; let b ← hexDecode b; let l ← l.toNat?; let n ← hexDecode n
    pure ⟨p, b, l, n⟩
  | _ => none

def showKey (k : Key) : String :=
  s!"{hexEncode k.pkg}/{hexEncode k.base}/{k.line}/{hexEncode k.name}"

def takeKeys : Nat → List String → Option (List Key × List String)
  | 0, rest => some ([], rest)
  | n + 1, t :: rest => do
    let k ← parseKey t
    let (ks, rest') ← takeKeys n rest
    pure (k :: ks, rest')
  | _ + 1, [] => none

def parseVariants : Nat → List String → Option (List Variant)
  | 0, [] => some []
  | 0, _ :: _ => none
  | n + 1, a :: nu :: rest => do
    let a ← parseBool a
    let nu ← nu.toNat?
    let (us, rest) ← takeKeys nu rest
    match rest with
    | nn :: rest => do
      let nn ← nn.toNat?
      let (ns, rest) ← takeKeys nn rest
      let vs ← parseVariants n rest
      pure (⟨a, us, ns⟩ :: vs)
    | [] => none
  | _ + 1, _ => none

/-- executable form of the hypotheses of `results_perm_invariant` for `f` given as a table -/
def isoHyp (g g' : Graph) (f : List Nat) : Bool :=
  let n := g.N
  let fa := fun a => f.getD a n
  g'.N == n && f.length == n && fa 0 == 0 &&
  (List.range n).all (fun a => fa a < n) &&
  (List.range n).all (fun b => (f.filter (· == b)).length == 1) &&
  (List.range n).all (fun a =>
    let ua := g.usesOf a; let ua' := g'.usesOf (fa a)
    let oa := g.ownsOf a; let oa' := g'.ownsOf (fa a)
    ua.all (fun b => ua'.contains (fa b)) && ua'.all (fun c => (ua.map fa).contains c) &&
    oa.all (fun b => oa'.contains (fa b)) && oa'.all (fun c => (oa.map fa).contains c))

def stepLine (line : String) : String :=
  match tokens line with
  | "verdicts" :: _ => Verif.C07.step line
  | ["adduse", n, u, o, x, y] =>
    match parseGraph n u o, x.toNat?, y.toNat? with
    | some g, some x, some y =>
      if !g.wf || !(y < g.N) then "wf=0" else showVerdicts (addUse g x y)
    | _, _, _ => "bad-op"
  | ["iso", n, u, o, u', o', f] =>
    match parseGraph n u o, parseGraph n u' o', (f.splitOn ",").mapM (·.toNat?) with
    | some g, some g', some f =>
      if !g.wf || !g'.wf then "wf=0" else
      let hyp := isoHyp g g' f
      let v := g.verdicts
      let v' := g'.verdicts
      let same := ((List.range g.N).filter (· ≠ 0)).all fun a =>
        v.getD (a - 1) .used == v'.getD (f.getD a 0 - 1) .used
      s!"hyp={showBool hyp} same={showBool same}"
    | _, _, _ => "bad-op"
  | "merge" :: k :: rest =>
    match k.toNat? with
    | some k =>
      match parseVariants k rest with
      | some vs =>
        let r := reported vs
        if r.isEmpty then "-" else " ".intercalate (r.map showKey)
      | none => "bad-op"
    | none => "bad-op"
  | _ => "bad-op"

end Verif.C17
