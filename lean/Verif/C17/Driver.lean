/-
C17 line protocol.

  verdicts <N> <uses> <owns>                → as C07 (`wf=1 <U/Q/X string> …`)
  adduse <N> <uses> <owns> <x> <y>          → verdict string of `addUse g x y`
  adduses <N> <uses> <owns> <edges>          → verdict string of `addUses g edges`
  iso <N> <uses> <owns> <uses'> <owns'> <f> <finv> → `hyp=<0|1> same=<0|1>`: are the hypotheses of
        `results_perm_invariant` met by the renumbering f with inverse finv (comma separated
        images of 0..N-1; `isoHyp`, proved sound), and do all verdicts correspond
  embed <N> <uses> <owns> <N'> <uses'> <owns'> <f> <x> <y> → `hyp= mono= edge= target=`: hypotheses of
        `used_mono_embed` (`embedHyp`), Used g ⊆ Used g' along f, is f x → f y a use edge of g',
        is f y Used in g'
  build <events…>  (u<used>.<by> | s<obj>.<owner>) → what the builder model (Build.lean) makes of
        the calls: `<objects in creation order> <their verdicts U/Q/X>`
  merge <k> then per variant: <allowed 0|1> <nUsed> keys… <nUnused> keys…
        key = hex(pkg)/hex(base)/line/hex(name)
        → reported keys in emission order, space separated, or `-`
  gmerge <k> then per variant: <n> <ids> <uses> <owns>     (ids: n comma separated `path.pos`, 0 = none)
        → `panic` when Go would panic (node without path and column, edge out of range), else
          `ok=<variantOk of all> pc=<pathsConsistent> n=<N> ids=<…> uses=<…> owns=<…> col=<U/Q/X of nodes 1..N-1>
           union=<positions reachable in the union of the use relations, ascending>`
        the serialized graph after `Merge` of the variants in the given order (`Merge.lean`)
  r65 <n> then n field lists (`-` or comma separated e | p | m<u>) then queries <st>.<u>
        → `wf=0` | `wf=1 <0/1 per query>`: rule 6.5 (`hasExportedField`, `Rule65.lean`)
-/
import Verif.Common.Proto
import Verif.C07.Driver
import Verif.C17.Model
import Verif.C17.Build
import Verif.C17.Merge
import Verif.C17.Rule65
namespace Verif.C17
open Verif.Proto Verif.C07

def parseKey (s : String) : Option Key :=
  match s.splitOn "/" with
  | [p, b, l, n] => do
    let p ← hexDecode p; let b ← hexDecode b; let l ← l.toNat?; let n ← hexDecode n
    pure ⟨p, b, l, n⟩
  | _ => none

def showKey (k : Key) : String :=
  s!"{hexEncode k.pkg}/{hexEncode k.base}/{k.line}/{hexEncode k.name}"

def takeKeys : Nat → List String → Option (List Key × List String)
  | 0, rest => some ([], rest)
  | n + 1, t :: rest => do
    let k ← parseKey t
    let (ks, rest') ← takeKeys n rest
    pure (k :: ks, rest')
  | _ + 1, [] => none

def parseVariants : Nat → List String → Option (List Variant)
  | 0, [] => some []
  | 0, _ :: _ => none
  | n + 1, a :: nu :: rest => do
    let a ← parseBool a
    let nu ← nu.toNat?
    let (us, rest) ← takeKeys nu rest
    match rest with
    | nn :: rest => do
      let nn ← nn.toNat?
      let (ns, rest) ← takeKeys nn rest
      let vs ← parseVariants n rest
      pure (⟨a, us, ns⟩ :: vs)
    | [] => none
  | _ + 1, _ => none

def parseNats (s : String) : Option (List Nat) := (s.splitOn ",").mapM (·.toNat?)

/-- `u<used>.<by>` = `g.use(used, by)`, `s<obj>.<owner>` = `g.see(obj, owner)`; 0 = nil -/
def parseEvent (t : String) : Option Event :=
  let body := (t.drop 1).toString
  match body.splitOn "." with
  | [a, b] => do
    let a ← a.toNat?; let b ← b.toNat?
    if t.startsWith "u" then some (.use a b) else if t.startsWith "s" then some (.see a b) else none
  | _ => none

def parseIdent (s : String) : Option (Nat × Nat) :=
  match s.splitOn "." with
  | [a, b] => do let a ← a.toNat?; let b ← b.toNat?; pure (a, b)
  | _ => none

def mkMGraph (ids : List (Nat × Nat)) (g : Graph) : MGraph :=
  (ids.zip g.nodes).map fun (i, nd) => ⟨i.1, i.2, nd.uses, nd.owns⟩

def parseMVariants : Nat → List String → Option (List MGraph)
  | 0, [] => some []
  | 0, _ :: _ => none
  | k + 1, n :: ids :: u :: o :: rest => do
    let g ← parseGraph n u o
    let ids ← (ids.splitOn ",").mapM parseIdent
    if ids.length != g.N then none else
    let vs ← parseMVariants k rest
    pure (mkMGraph ids g :: vs)
  | _ + 1, _ => none

def showEdges (g : MGraph) (f : MNode → List Nat) : String :=
  let es := g.zipIdx.flatMap fun (nd, i) => (f nd).map fun b => s!"{i}>{b}"
  if es.isEmpty then "-" else ",".intercalate es

def insertSorted (x : Nat) : List Nat → List Nat
  | [] => [x]
  | y :: ys => if x ≤ y then x :: y :: ys else y :: insertSorted x ys

def parseFld (s : String) : Option Fld :=
  if s = "e" then some .exp
  else if s = "p" then some .plain
  else if s.startsWith "m" then (s.drop 1).toString.toNat?.map .emb
  else none

def parseFlds (s : String) : Option (List Fld) :=
  if s = "-" then some [] else (s.splitOn ",").mapM parseFld

def stepLine (line : String) : String :=
  match tokens line with
  | "verdicts" :: _ => Verif.C07.step line
  | ["adduse", n, u, o, x, y] =>
    match parseGraph n u o, x.toNat?, y.toNat? with
    | some g, some x, some y =>
      if !g.wf || !(y < g.N) then "wf=0" else showVerdicts (addUse g x y)
    | _, _, _ => "bad-op"
  | ["iso", n, u, o, u', o', f, fi] =>
    match parseGraph n u o, parseGraph n u' o', parseNats f, parseNats fi with
    | some g, some g', some f, some fi =>
      if !g.wf || !g'.wf then "wf=0" else
      let hyp := isoHyp g g' f fi
      let v := g.verdicts
      let v' := g'.verdicts
      let same := ((List.range g.N).filter (· ≠ 0)).all fun a =>
        v.getD (a - 1) .used == v'.getD (f.getD a 0 - 1) .used
      s!"hyp={showBool hyp} same={showBool same}"
    | _, _, _, _ => "bad-op"
  | ["embed", n, u, o, n', u', o', f, x, y] =>
    match parseGraph n u o, parseGraph n' u' o', parseNats f, x.toNat?, y.toNat? with
    | some g, some g', some f, some x, some y =>
      if !g.wf || !g'.wf then "wf=0" else
      let hyp := embedHyp g g' f
      let fa := fun a => f.getD a 0
      let r := g.results
      let r' := g'.results
      let mono := r.used.all fun a => r'.used.contains (fa a)
      let edge := (g'.usesOf (fa x)).contains (fa y)
      let target := r'.used.contains (fa y)
      s!"hyp={showBool hyp} mono={showBool mono} edge={showBool edge} target={showBool target}"
    | _, _, _, _, _ => "bad-op"
  | ["adduses", n, u, o, es] =>
    match parseGraph n u o, parseEdges es with
    | some g, some es =>
      if !g.wf || !(es.all fun e => decide (e.2 < g.N)) then "wf=0" else showVerdicts (addUses g es)
    | _, _ => "bad-op"
  | "build" :: evs =>
    match evs.mapM parseEvent with
    | some es =>
      let s := build Cfg.all es
      let g := s.graph
      if s.objs.isEmpty then "- -" else
      s!"{",".intercalate (s.objs.map toString)} {showVerdicts g}"
    | none => "bad-op"
  | "gmerge" :: k :: rest =>
    match k.toNat? with
    | some k =>
      match parseMVariants k rest with
      | some vs =>
        if vs.isEmpty || !(vs.all fun v => identOk v && inRange v) then "panic" else
        let g := mergeAll vs
        let ids := ",".intercalate (g.map fun nd => s!"{nd.path}.{nd.pos}")
        let un := (unionUsed vs).foldl (fun acc x => insertSorted x acc) []
        s!"ok={showBool (vs.all variantOk)} pc={showBool (pathsConsistent vs)} n={g.length} ids={ids} uses={showEdges g (·.uses)} owns={showEdges g (·.owns)} col={showVerdicts g.graph} union={",".intercalate (un.map toString)}"
      | none => "bad-op"
    | none => "bad-op"
  | "r65" :: n :: rest =>
    match n.toNat? with
    | some n =>
      if rest.length < n then "bad-op" else
      match (rest.take n).mapM parseFlds, (rest.drop n).mapM parseIdent with
      | some T, some qs =>
        if !(STab.wf T) || !(qs.all fun q => decide (q.1 < T.length) && decide (q.2 < T.length)) then "wf=0" else
        "wf=1 " ++ String.ofList (qs.map fun q => if rule65 T q.1 q.2 then '1' else '0')
      | _, _ => "bad-op"
    | none => "bad-op"
  | "merge" :: k :: rest =>
    match k.toNat? with
    | some k =>
      match parseVariants k rest with
      | some vs =>
        let r := reported vs
        if r.isEmpty then "-" else " ".intercalate (r.map showKey)
      | none => "bad-op"
    | none => "bad-op"
  | _ => "bad-op"

end Verif.C17
