/-
C17 — U1000 verdicts are order-independent, monotone, merged over variants.

  results_perm_invariant    verdicts do not depend on node numbering or on the order (or
                            multiplicity) of edges: any isomorphism of use/own graphs that
                            fixes the root preserves every verdict
  results_edge_order_invariant   special case: same nodes, edge lists equal as sets
  add_use_monotone          adding a use edge never removes anything from Used
  add_use_target_used       … and if the edge starts at a used node (or the root) its target is Used
  reported_iff              variant merge: reported k ↔ (∃ v allowed, k ∈ unused v) ∧ ∀ v, k ∉ used v
  merge_order_independent   the reported keys (with multiplicity) do not depend on variant order
-/
import Verif.C07.Theorems
import Verif.C17.Model
namespace Verif.C17
open Verif.C07 Verif.C07.Graph

/-! ### graph: order independence -/

/-- verdicts are determined by the two relations "reachable from the root" and "below an
unseen owner" -/
theorem verdict_eq_of_iff {g g' : Graph} (h : g.wf = true) (h' : g'.wf = true) (n n' : Nat)
    (hr : Reach g.usesOf 0 n ↔ Reach g'.usesOf 0 n')
    (hq : g.UnderUnseenOwner n ↔ g'.UnderUnseenOwner n') : g'.verdict n' = g.verdict n := by
  cases hv : g.verdict n with
  | used => exact (verdict_used_iff h' n').2 (hr.1 ((verdict_used_iff h n).1 hv))
  | quiet =>
    have := (verdict_quiet_iff h n).1 hv
    exact (verdict_quiet_iff h' n').2 ⟨fun r => this.1 (hr.2 r), hq.1 this.2⟩
  | unused =>
    have := (verdict_unused_iff h n).1 hv
    exact (verdict_unused_iff h' n').2 ⟨fun r => this.1 (hr.2 r), fun r => this.2 (hq.2 r)⟩

/-- one direction of the transport along `f` -/
theorem transport {g g' : Graph} (h : g.wf = true) (f : Nat → Nat)
    (hN : g'.N = g.N) (h0 : f 0 = 0) (hf : ∀ a, a < g.N → f a < g.N)
    (huses : ∀ a b, a < g.N → b ∈ g.usesOf a → f b ∈ g'.usesOf (f a))
    (howns : ∀ a b, a < g.N → b ∈ g.ownsOf a → f b ∈ g'.ownsOf (f a))
    (hback : ∀ a, a < g.N → Reach g'.usesOf 0 (f a) → Reach g.usesOf 0 a) (n : Nat) (_hn : n < g.N) :
    (Reach g.usesOf 0 n → Reach g'.usesOf 0 (f n)) ∧
    (g.UnderUnseenOwner n → g'.wf = true → g'.UnderUnseenOwner (f n)) := by
  constructor
  · intro r
    have := (Reach.map (adj := g.usesOf) (adj' := g'.usesOf) f (fun a => a < g.N)
      (fun a b _ hb => wf_uses h a b hb) huses (wf_pos h) r).1
    rwa [h0] at this
  · rintro ⟨m, hm, hs, c, hc, r⟩ h'
    refine ⟨f m, by rw [hN]; exact hf m hm, ?_, f c, howns m c hm hc, ?_⟩
    · intro hs'
      exact hs ((seen_iff h m).2 (hback m hm ((seen_iff h' (f m)).1 hs')))
    · exact (Reach.map (adj := g.ownsOf) (adj' := g'.ownsOf) f (fun a => a < g.N)
        (fun a b _ hb => wf_owns h a b hb) howns (wf_owns h m c hc) r).1

/-- **Order independence.**  Let `f` (with inverse `f'`) renumber the nodes of `g` into
those of `g'`, fixing the root, such that `b ∈ uses a ↔ f b ∈ uses' (f a)` and likewise
for `owns` (edge *lists* may differ in order and multiplicity).  Then every node keeps
its verdict. -/
theorem results_perm_invariant {g g' : Graph} (h : g.wf = true) (h' : g'.wf = true)
    (f f' : Nat → Nat) (hN : g'.N = g.N) (h0 : f 0 = 0)
    (inv1 : ∀ a, a < g.N → f a < g.N ∧ f' (f a) = a)
    (inv2 : ∀ b, b < g.N → f' b < g.N ∧ f (f' b) = b)
    (huses : ∀ a b, a < g.N → b < g.N → (f b ∈ g'.usesOf (f a) ↔ b ∈ g.usesOf a))
    (howns : ∀ a b, a < g.N → b < g.N → (f b ∈ g'.ownsOf (f a) ↔ b ∈ g.ownsOf a)) :
    ∀ n, n < g.N → g'.verdict (f n) = g.verdict n := by
  have h0' : f' 0 = 0 := by have := (inv1 0 (wf_pos h)).2; rwa [h0] at this
  -- forward and backward edge preservation
  have fu : ∀ a b, a < g.N → b ∈ g.usesOf a → f b ∈ g'.usesOf (f a) :=
    fun a b ha hb => (huses a b ha (wf_uses h a b hb)).2 hb
  have fo : ∀ a b, a < g.N → b ∈ g.ownsOf a → f b ∈ g'.ownsOf (f a) :=
    fun a b ha hb => (howns a b ha (wf_owns h a b hb)).2 hb
  have bu : ∀ a b, a < g'.N → b ∈ g'.usesOf a → f' b ∈ g.usesOf (f' a) := by
    intro a b ha hb
    rw [hN] at ha
    have hb' : b < g.N := by rw [← hN]; exact wf_uses h' a b hb
    have := huses (f' a) (f' b) (inv2 a ha).1 (inv2 b hb').1
    rw [(inv2 a ha).2, (inv2 b hb').2] at this
    exact this.1 hb
  have bo : ∀ a b, a < g'.N → b ∈ g'.ownsOf a → f' b ∈ g.ownsOf (f' a) := by
    intro a b ha hb
    rw [hN] at ha
    have hb' : b < g.N := by rw [← hN]; exact wf_owns h' a b hb
    have := howns (f' a) (f' b) (inv2 a ha).1 (inv2 b hb').1
    rw [(inv2 a ha).2, (inv2 b hb').2] at this
    exact this.1 hb
  -- reachability corresponds in both directions
  have rfwd : ∀ a, a < g.N → Reach g.usesOf 0 a → Reach g'.usesOf 0 (f a) := by
    intro a _ r
    have := (Reach.map (adj := g.usesOf) (adj' := g'.usesOf) f (fun a => a < g.N)
      (fun a b _ hb => wf_uses h a b hb) fu (wf_pos h) r).1
    rwa [h0] at this
  have rbwd : ∀ b, b < g'.N → Reach g'.usesOf 0 b → Reach g.usesOf 0 (f' b) := by
    intro b _ r
    have := (Reach.map (adj := g'.usesOf) (adj' := g.usesOf) f' (fun a => a < g'.N)
      (fun a b _ hb => wf_uses h' a b hb) bu (wf_pos h') r).1
    rwa [h0'] at this
  intro n hn
  have hfn : f n < g'.N := by rw [hN]; exact (inv1 n hn).1
  apply verdict_eq_of_iff h h'
  · constructor
    · exact rfwd n hn
    · intro r; have := rbwd (f n) hfn r; rwa [(inv1 n hn).2] at this
  · constructor
    · intro hu
      exact (transport h f hN h0 (fun a ha => (inv1 a ha).1) fu fo
        (fun a ha r => by
          have := rbwd (f a) (by rw [hN]; exact (inv1 a ha).1) r
          rwa [(inv1 a ha).2] at this) n hn).2 hu h'
    · intro hu
      have := (transport (g := g') (g' := g) h' f' hN.symm h0'
        (fun a ha => by rw [hN] at ha ⊢; exact (inv2 a ha).1) bu bo
        (fun a ha r => by
          rw [hN] at ha
          have := rfwd (f' a) (inv2 a ha).1 r
          rwa [(inv2 a ha).2] at this) (f n) hfn).2 hu h
      rwa [(inv1 n hn).2] at this

/-- Same nodes, edge lists equal as sets (any order, any multiplicity): same `Results`. -/
theorem results_edge_order_invariant {g g' : Graph} (h : g.wf = true) (h' : g'.wf = true)
    (hN : g'.N = g.N)
    (huses : ∀ a b, b ∈ g'.usesOf a ↔ b ∈ g.usesOf a)
    (howns : ∀ a b, b ∈ g'.ownsOf a ↔ b ∈ g.ownsOf a) :
    ∀ n, n < g.N → g'.verdict n = g.verdict n :=
  results_perm_invariant h h' id id hN rfl (fun _ ha => ⟨ha, rfl⟩) (fun _ hb => ⟨hb, rfl⟩)
    (fun _ _ _ _ => huses _ _) (fun _ _ _ _ => howns _ _)

/-! ### graph: monotonicity -/

theorem N_addUse (g : Graph) (x y : Nat) : (addUse g x y).N = g.N := by
  simp [addUse, Graph.N]

theorem usesOf_addUse (g : Graph) (x y a : Nat) :
    (addUse g x y).usesOf a = if a = x ∧ x < g.N then g.usesOf a ++ [y] else g.usesOf a := by
  unfold addUse Graph.usesOf Graph.N
  simp only [List.getD_eq_getElem?_getD, List.getElem?_modify]
  by_cases hax : x = a
  · subst hax
    by_cases hlt : x < g.nodes.length
    · simp [hlt]
    · simp [hlt]
  · have : ¬ (a = x ∧ x < g.nodes.length) := fun hh => hax hh.1.symm
    simp [hax, this]

theorem ownsOf_addUse (g : Graph) (x y a : Nat) : (addUse g x y).ownsOf a = g.ownsOf a := by
  unfold addUse Graph.ownsOf
  simp only [List.getD_eq_getElem?_getD, List.getElem?_modify]
  by_cases hax : x = a
  · subst hax
    cases hq : g.nodes[x]? <;> simp
  · simp [hax]

theorem uses_subset_addUse (g : Graph) (x y : Nat) : ∀ a b, b ∈ g.usesOf a → b ∈ (addUse g x y).usesOf a := by
  intro a b hb
  rw [usesOf_addUse]
  split
  · exact List.mem_append_left _ hb
  · exact hb

/-- generic form: a graph with more use edges has a larger Used set -/
theorem used_mono {g g' : Graph} (h : g.wf = true) (h' : g'.wf = true)
    (hsub : ∀ a b, b ∈ g.usesOf a → b ∈ g'.usesOf a) :
    ∀ n, n ∈ g.results.used → n ∈ g'.results.used := by
  intro n hn
  have := (used_iff_reachable h n).1 hn
  exact (used_iff_reachable h' n).2 ⟨this.1, Reach.mono hsub this.2⟩

theorem wf_addUse {g : Graph} (h : g.wf = true) (x y : Nat) (hy : y < g.N) : (addUse g x y).wf = true := by
  have hu := wf_uses h
  have ho := wf_owns h
  unfold Graph.wf
  simp only [Bool.and_eq_true, List.all_eq_true, decide_eq_true_eq]
  refine ⟨by rw [N_addUse]; exact wf_pos h, ?_⟩
  intro nd hnd
  obtain ⟨i, hi, rfl⟩ := List.getElem_of_mem hnd
  have hi' : i < g.N := by simpa [addUse, Graph.N] using hi
  have e1 : (addUse g x y).usesOf i = ((addUse g x y).nodes[i]).uses := by
    simp [Graph.usesOf, List.getD_eq_getElem?_getD, List.getElem?_eq_getElem hi]
  have e2 : (addUse g x y).ownsOf i = ((addUse g x y).nodes[i]).owns := by
    simp [Graph.ownsOf, List.getD_eq_getElem?_getD, List.getElem?_eq_getElem hi]
  rw [N_addUse]
  constructor
  · intro m hm
    rw [← e1, usesOf_addUse] at hm
    split at hm
    · rcases List.mem_append.1 hm with hm | hm
      · exact hu _ _ hm
      · have : m = y := by simpa using hm
        omega
    · exact hu _ _ hm
  · intro m hm
    rw [← e2, ownsOf_addUse] at hm
    exact ho _ _ hm

/-- **Monotonicity.**  Adding a use edge `x → y` never turns a Used object into a
non-Used one (whatever `x` is — in particular when `x` is itself used). -/
theorem add_use_monotone {g : Graph} (h : g.wf = true) (x y : Nat) (hy : y < g.N) :
    ∀ n, n ∈ g.results.used → n ∈ (addUse g x y).results.used :=
  used_mono h (wf_addUse h x y hy) (uses_subset_addUse g x y)

/-- If the new edge starts at the root or at a used object, its target is Used afterwards. -/
theorem add_use_target_used {g : Graph} (h : g.wf = true) (x y : Nat) (hy : y < g.N) (hy0 : y ≠ 0)
    (hx : x = 0 ∨ x ∈ g.results.used) : y ∈ (addUse g x y).results.used := by
  have hxr : Reach g.usesOf 0 x := by
    rcases hx with rfl | hx
    · exact .refl 0
    · exact ((used_iff_reachable h x).1 hx).2
  have hxN : x < g.N := reach_lt h (wf_pos h) hxr
  rw [used_iff_reachable (wf_addUse h x y hy)]
  refine ⟨hy0, .step (Reach.mono (uses_subset_addUse g x y) hxr) ?_⟩
  rw [usesOf_addUse, if_pos ⟨rfl, hxN⟩]
  simp

/-! ### variant merge -/

def IsTrue (m : UsedMap) (k : Key) : Prop := m.lookup k = some true

theorem markUsed_true (ks : List Key) : ∀ (m : UsedMap) (k : Key),
    IsTrue (markUsed m ks) k ↔ IsTrue m k ∨ k ∈ ks := by
  induction ks with
  | nil => intro m k; simp [markUsed]
  | cons a rest ih =>
    intro m k
    have : markUsed m (a :: rest) = markUsed ((a, true) :: m) rest := rfl
    rw [this, ih]
    unfold IsTrue
    by_cases hka : k = a
    · subst hka; simp
    · have : (k == a) = false := by simpa using hka
      simp [List.lookup_cons, this, hka]

theorem noteUnused_true (ks : List Key) : ∀ (m : UsedMap) (k : Key),
    IsTrue (noteUnused m ks) k ↔ IsTrue m k := by
  induction ks with
  | nil => intro m k; simp [noteUnused]
  | cons a rest ih =>
    intro m k
    have : noteUnused m (a :: rest) =
        noteUnused (if (m.lookup a).isNone then (a, false) :: m else m) rest := rfl
    rw [this, ih]
    unfold IsTrue
    by_cases hn : (m.lookup a).isNone = true
    · rw [if_pos hn]
      by_cases hka : k = a
      · subst hka
        have : m.lookup k = none := by simpa using hn
        simp [this]
      · have : (k == a) = false := by simpa using hka
        simp [List.lookup_cons, this]
    · rw [if_neg hn]

/-- the `unuseds` contribution of one variant -/
def contrib (v : Variant) : List Key := if v.allowed then v.unused else []

theorem fold_step_spec (vs : List Variant) : ∀ (st : UsedMap × List Key),
    (∀ k, IsTrue (vs.foldl step st).1 k ↔ IsTrue st.1 k ∨ ∃ v, v ∈ vs ∧ k ∈ v.used) ∧
    (vs.foldl step st).2 = st.2 ++ vs.flatMap contrib := by
  induction vs with
  | nil => intro st; simp
  | cons v rest ih =>
    intro st
    obtain ⟨i1, i2⟩ := ih (step st v)
    simp only [List.foldl_cons]
    have hs1 : ∀ k, IsTrue (step st v).1 k ↔ IsTrue st.1 k ∨ k ∈ v.used := by
      intro k
      unfold step
      by_cases ha : v.allowed = true
      · simp only [ha, if_true]; rw [noteUnused_true, markUsed_true]
      · simp only [ha]; exact markUsed_true _ _ _
    have hs2 : (step st v).2 = st.2 ++ contrib v := by
      unfold step contrib
      by_cases ha : v.allowed = true <;> simp [ha]
    constructor
    · intro k
      rw [i1, hs1]
      constructor
      · rintro ((h | h) | ⟨w, hw, h⟩)
        · exact .inl h
        · exact .inr ⟨v, List.mem_cons_self, h⟩
        · exact .inr ⟨w, List.mem_cons_of_mem _ hw, h⟩
      · rintro (h | ⟨w, hw, h⟩)
        · exact .inl (.inl h)
        · rcases List.mem_cons.1 hw with rfl | hw
          · exact .inl (.inr h)
          · exact .inr ⟨w, hw, h⟩
    · rw [i2, hs2]; simp [List.flatMap_cons, List.append_assoc]

/-- closed form of the merge: the unused keys of all allowed variants, in order, minus
every key that some variant has as used -/
theorem reported_eq (vs : List Variant) :
    reported vs = (vs.flatMap contrib).filter (fun k => decide (∀ v, v ∈ vs → k ∉ v.used)) := by
  unfold reported
  obtain ⟨h1, h2⟩ := fold_step_spec vs ([], [])
  simp only [h2, List.nil_append]
  apply List.filter_congr
  intro k _
  have hk := h1 k
  have hnil : ¬ IsTrue ([] : UsedMap) k := by simp [IsTrue]
  simp only [hnil, false_or] at hk
  unfold IsTrue at hk
  by_cases hu : ∃ v, v ∈ vs ∧ k ∈ v.used
  · have := hk.2 hu
    obtain ⟨w, hw, hkw⟩ := hu
    simp only [this, Option.getD_some, Bool.not_true]
    symm; rw [decide_eq_false_iff_not]
    intro hall; exact hall w hw hkw
  · have hne : (vs.foldl step ([], [])).1.lookup k ≠ some true := fun e => hu (hk.1 e)
    have hall : ∀ v, v ∈ vs → k ∉ v.used := fun v hv hkv => hu ⟨v, hv, hkv⟩
    rw [decide_eq_true hall]
    cases hl : (vs.foldl step ([], [])).1.lookup k with
    | none => simp
    | some b =>
      cases b with
      | false => simp
      | true => exact absurd hl hne

/-- **Merge rule.**  A key is reported iff some variant in which U1000 is enabled has it as
unused and no variant at all has it as used. -/
theorem reported_iff (vs : List Variant) (k : Key) :
    k ∈ reported vs ↔ (∃ v, v ∈ vs ∧ v.allowed = true ∧ k ∈ v.unused) ∧ ∀ v, v ∈ vs → k ∉ v.used := by
  rw [reported_eq]
  simp only [List.mem_filter, List.mem_flatMap, decide_eq_true_eq, contrib]
  constructor
  · rintro ⟨⟨v, hv, hk⟩, hall⟩
    refine ⟨⟨v, hv, ?_⟩, hall⟩
    by_cases ha : v.allowed = true
    · rw [if_pos ha] at hk; exact ⟨ha, hk⟩
    · rw [if_neg ha] at hk; cases hk
  · rintro ⟨⟨v, hv, ha, hk⟩, hall⟩
    exact ⟨⟨v, hv, by rw [if_pos ha]; exact hk⟩, hall⟩

/-- statement form of the property: reported ⇒ unused-or-absent in every variant -/
theorem reported_only_if_unused_everywhere (vs : List Variant) (k : Key) (hk : k ∈ reported vs) :
    ∀ v, v ∈ vs → k ∉ v.used :=
  ((reported_iff vs k).1 hk).2

/-- **Order independence of the merge**: permuting the runner results permutes the emitted
diagnostics (same keys, same multiplicities). -/
theorem merge_order_independent {vs vs' : List Variant} (hp : vs.Perm vs') :
    (reported vs).Perm (reported vs') := by
  rw [reported_eq, reported_eq]
  have hf : (fun k => decide (∀ v, v ∈ vs → k ∉ v.used)) = (fun k => decide (∀ v, v ∈ vs' → k ∉ v.used)) := by
    funext k
    have : (∀ v, v ∈ vs → k ∉ v.used) ↔ (∀ v, v ∈ vs' → k ∉ v.used) :=
      ⟨fun hh v hv => hh v (hp.mem_iff.2 hv), fun hh v hv => hh v (hp.mem_iff.1 hv)⟩
    simp only [this]
  rw [hf]
  exact (hp.flatMap_right contrib).filter _

theorem merge_order_independent_mem {vs vs' : List Variant} (hp : vs.Perm vs') (k : Key) :
    k ∈ reported vs ↔ k ∈ reported vs' :=
  (merge_order_independent hp).mem_iff

/-! ### non-vacuity -/

open Verif.C07.Graph in
/-- ex1 renumbered by swapping 1↔2 and 3↔6, edges listed in another order -/
def ex1' : Graph := ⟨[⟨[2], []⟩, ⟨[], []⟩, ⟨[1, 1], []⟩, ⟨[1], []⟩, ⟨[], [5]⟩, ⟨[], []⟩, ⟨[], [4]⟩]⟩

def swp : Nat → Nat
  | 1 => 2 | 2 => 1 | 3 => 6 | 6 => 3 | n => n

example : ex1'.wf = true := by decide
example : ∀ n, n < 7 → ex1'.verdict (swp n) = ex1.verdict n := by decide
-- adding 1 → 3: 3 becomes used; 4 (owned by the now-used 3) is reported; 5 stays quiet under 4
example : (addUse ex1 1 3).results = ⟨[1, 2, 3], [4, 6], [5]⟩ := by decide
example : ex1.results.used = [1, 2] := by decide

def kA : Key := ⟨"p", "a.go", 3, "f"⟩
def kB : Key := ⟨"p", "a.go", 7, "g"⟩
def kC : Key := ⟨"p", "a_test.go", 2, "h"⟩
/-- plain variant: f, g unused; test variant: f used by the tests, g and h unused -/
def vPlain : Variant := ⟨true, [], [kA, kB]⟩
def vTest : Variant := ⟨true, [kA], [kB, kC]⟩

example : reported [vPlain, vTest] = [kB, kB, kC] := by decide
example : reported [vTest, vPlain] = [kB, kC, kB] := by decide
example : [vPlain, vTest].Perm [vTest, vPlain] := List.Perm.swap _ _ _

end Verif.C17
