/-
C17 — U1000 verdicts are order-independent, monotone, merged over variants.

graph (Verif/C07/Graph.lean: color / colorAndQuieten / Results)
  results_perm_invariant    verdicts do not depend on node numbering or on the order (or
                            multiplicity) of edges: any isomorphism of use/own graphs that
                            fixes the root preserves every verdict
  results_edge_order_invariant   special case: same nodes, edge lists equal as sets
  iso_check_sound           the executable check `isoHyp` (run on the real graphs of a package
                            and of its permuted copy) implies the hypotheses, hence equal verdicts
  used_mono_embed           a graph that embeds into another (root to root, use edges to use
                            edges) has its Used set mapped into the other's Used set
  embed_check_sound         the executable check `embedHyp` implies that
  add_uses_monotone / add_use_monotone    adding use edges never removes anything from Used
  add_use_target_used       … and if the edge starts at a used node (or the root) its target is Used
builder (Build.lean: node / addUse / addOwned / use / see as a fold over the calls)
  build_wf                  the built graph is well-formed (the hypothesis `wf` of everything above)
  build_used_iff            object o is Used iff o is reachable from nil over the surviving `use` calls
  build_perm_invariant      the verdict of every object depends only on the SET of calls
  build_mono / build_add_use_monotone / build_add_use_target_used
merge (Model.lean: the `used` map / `unuseds` loop of lintcmd.lint)
  reported_iff              reported k ↔ (∃ v allowed, k ∈ unused v) ∧ ∀ v, k ∉ used v
  reported_only_if_unused_everywhere
  merge_order_independent   the reported keys (with multiplicity) do not depend on variant order
-/
import Verif.C07.Theorems
import Verif.C17.Model
import Verif.C17.Lemmas
namespace Verif.C17
open Verif.C07 Verif.C07.Graph

/-! ### graph: order independence -/

/-- verdicts are determined by the two relations "reachable from the root" and "below an
unseen owner" -/
theorem verdict_eq_of_iff {g g' : Graph} (h : g.wf = true) (h' : g'.wf = true) (n n' : Nat)
    (hr : Reach g.usesOf 0 n ↔ Reach g'.usesOf 0 n')
    (hq : g.UnderUnseenOwner n ↔ g'.UnderUnseenOwner n') : g'.verdict n' = g.verdict n := by
  cases hv : g.verdict n with
  | used => exact (verdict_used_iff h' n').2 (hr.1 ((verdict_used_iff h n).1 hv))
  | quiet =>
    have := (verdict_quiet_iff h n).1 hv
    exact (verdict_quiet_iff h' n').2 ⟨fun r => this.1 (hr.2 r), hq.1 this.2⟩
  | unused =>
    have := (verdict_unused_iff h n).1 hv
    exact (verdict_unused_iff h' n').2 ⟨fun r => this.1 (hr.2 r), fun r => this.2 (hq.2 r)⟩

/-- one direction of the transport along `f` -/
theorem transport {g g' : Graph} (h : g.wf = true) (f : Nat → Nat)
    (hN : g'.N = g.N) (h0 : f 0 = 0) (hf : ∀ a, a < g.N → f a < g.N)
    (huses : ∀ a b, a < g.N → b ∈ g.usesOf a → f b ∈ g'.usesOf (f a))
    (howns : ∀ a b, a < g.N → b ∈ g.ownsOf a → f b ∈ g'.ownsOf (f a))
    (hback : ∀ a, a < g.N → Reach g'.usesOf 0 (f a) → Reach g.usesOf 0 a) (n : Nat) (_hn : n < g.N) :
    (Reach g.usesOf 0 n → Reach g'.usesOf 0 (f n)) ∧
    (g.UnderUnseenOwner n → g'.wf = true → g'.UnderUnseenOwner (f n)) := by
  constructor
  · intro r
    have := (Reach.map (adj := g.usesOf) (adj' := g'.usesOf) f (fun a => a < g.N)
      (fun a b _ hb => wf_uses h a b hb) huses (wf_pos h) r).1
    rwa [h0] at this
  · rintro ⟨m, hm, hs, c, hc, r⟩ h'
    refine ⟨f m, by rw [hN]; exact hf m hm, ?_, f c, howns m c hm hc, ?_⟩
    · intro hs'
      exact hs ((seen_iff h m).2 (hback m hm ((seen_iff h' (f m)).1 hs')))
    · exact (Reach.map (adj := g.ownsOf) (adj' := g'.ownsOf) f (fun a => a < g.N)
        (fun a b _ hb => wf_owns h a b hb) howns (wf_owns h m c hc) r).1

/-- **Order independence.**  Let `f` (with inverse `f'`) renumber the nodes of `g` into
those of `g'`, fixing the root, such that `b ∈ uses a ↔ f b ∈ uses' (f a)` and likewise
for `owns` (edge *lists* may differ in order and multiplicity).  Then every node keeps
its verdict. -/
theorem results_perm_invariant {g g' : Graph} (h : g.wf = true) (h' : g'.wf = true)
    (f f' : Nat → Nat) (hN : g'.N = g.N) (h0 : f 0 = 0)
    (inv1 : ∀ a, a < g.N → f a < g.N ∧ f' (f a) = a)
    (inv2 : ∀ b, b < g.N → f' b < g.N ∧ f (f' b) = b)
    (huses : ∀ a b, a < g.N → b < g.N → (f b ∈ g'.usesOf (f a) ↔ b ∈ g.usesOf a))
    (howns : ∀ a b, a < g.N → b < g.N → (f b ∈ g'.ownsOf (f a) ↔ b ∈ g.ownsOf a)) :
    ∀ n, n < g.N → g'.verdict (f n) = g.verdict n := by
  have h0' : f' 0 = 0 := by have := (inv1 0 (wf_pos h)).2; rwa [h0] at this
  -- forward and backward edge preservation
  have fu : ∀ a b, a < g.N → b ∈ g.usesOf a → f b ∈ g'.usesOf (f a) :=
    fun a b ha hb => (huses a b ha (wf_uses h a b hb)).2 hb
  have fo : ∀ a b, a < g.N → b ∈ g.ownsOf a → f b ∈ g'.ownsOf (f a) :=
    fun a b ha hb => (howns a b ha (wf_owns h a b hb)).2 hb
  have bu : ∀ a b, a < g'.N → b ∈ g'.usesOf a → f' b ∈ g.usesOf (f' a) := by
    intro a b ha hb
    rw [hN] at ha
    have hb' : b < g.N := by rw [← hN]; exact wf_uses h' a b hb
    have := huses (f' a) (f' b) (inv2 a ha).1 (inv2 b hb').1
    rw [(inv2 a ha).2, (inv2 b hb').2] at this
    exact this.1 hb
  have bo : ∀ a b, a < g'.N → b ∈ g'.ownsOf a → f' b ∈ g.ownsOf (f' a) := by
    intro a b ha hb
    rw [hN] at ha
    have hb' : b < g.N := by rw [← hN]; exact wf_owns h' a b hb
    have := howns (f' a) (f' b) (inv2 a ha).1 (inv2 b hb').1
    rw [(inv2 a ha).2, (inv2 b hb').2] at this
    exact this.1 hb
  -- reachability corresponds in both directions
  have rfwd : ∀ a, a < g.N → Reach g.usesOf 0 a → Reach g'.usesOf 0 (f a) := by
    intro a _ r
    have := (Reach.map (adj := g.usesOf) (adj' := g'.usesOf) f (fun a => a < g.N)
      (fun a b _ hb => wf_uses h a b hb) fu (wf_pos h) r).1
    rwa [h0] at this
  have rbwd : ∀ b, b < g'.N → Reach g'.usesOf 0 b → Reach g.usesOf 0 (f' b) := by
    intro b _ r
    have := (Reach.map (adj := g'.usesOf) (adj' := g.usesOf) f' (fun a => a < g'.N)
      (fun a b _ hb => wf_uses h' a b hb) bu (wf_pos h') r).1
    rwa [h0'] at this
  intro n hn
  have hfn : f n < g'.N := by rw [hN]; exact (inv1 n hn).1
  apply verdict_eq_of_iff h h'
  · constructor
    · exact rfwd n hn
    · intro r; have := rbwd (f n) hfn r; rwa [(inv1 n hn).2] at this
  · constructor
    · intro hu
      exact (transport h f hN h0 (fun a ha => (inv1 a ha).1) fu fo
        (fun a ha r => by
          have := rbwd (f a) (by rw [hN]; exact (inv1 a ha).1) r
          rwa [(inv1 a ha).2] at this) n hn).2 hu h'
    · intro hu
      have := (transport (g := g') (g' := g) h' f' hN.symm h0'
        (fun a ha => by rw [hN] at ha ⊢; exact (inv2 a ha).1) bu bo
        (fun a ha r => by
          rw [hN] at ha
          have := rfwd (f' a) (inv2 a ha).1 r
          rwa [(inv2 a ha).2] at this) (f n) hfn).2 hu h
      rwa [(inv1 n hn).2] at this

/-- Same nodes, edge lists equal as sets (any order, any multiplicity): same `Results`. -/
theorem results_edge_order_invariant {g g' : Graph} (h : g.wf = true) (h' : g'.wf = true)
    (hN : g'.N = g.N)
    (huses : ∀ a b, b ∈ g'.usesOf a ↔ b ∈ g.usesOf a)
    (howns : ∀ a b, b ∈ g'.ownsOf a ↔ b ∈ g.ownsOf a) :
    ∀ n, n < g.N → g'.verdict n = g.verdict n :=
  results_perm_invariant h h' id id hN rfl (fun _ ha => ⟨ha, rfl⟩) (fun _ hb => ⟨hb, rfl⟩)
    (fun _ _ _ _ => huses _ _) (fun _ _ _ _ => howns _ _)


/-- **Soundness of the executable isomorphism check.**  When `isoHyp g g' f finv` evaluates to
`true` (the driver runs it on the dumped graphs of the real analyzer), every node keeps its
verdict under the renumbering `f`. -/
theorem iso_check_sound {g g' : Graph} (h : g.wf = true) (h' : g'.wf = true) (f finv : List Nat)
    (hc : isoHyp g g' f finv = true) : ∀ n, n < g.N → g'.verdict (f.getD n 0) = g.verdict n := by
  unfold isoHyp at hc
  simp only [Bool.and_eq_true, beq_iff_eq, List.all_eq_true, List.mem_range, decide_eq_true_eq,
    List.contains_iff_mem] at hc
  obtain ⟨⟨⟨hN, h0⟩, hbij⟩, hedge⟩ := hc
  apply results_perm_invariant h h' (fun a => f.getD a 0) (fun b => finv.getD b 0) hN h0
  · intro a ha
    exact ⟨(hbij a ha).1.1.1, (hbij a ha).1.1.2⟩
  · intro b hb
    exact ⟨(hbij b hb).1.2, (hbij b hb).2⟩
  · intro a b ha hb
    constructor
    · intro hm
      have := (hedge a ha).1.1.2 _ hm
      rwa [(hbij b hb).1.1.2] at this
    · intro hm
      exact (hedge a ha).1.1.1 b hm
  · intro a b ha hb
    constructor
    · intro hm
      have := (hedge a ha).2 _ hm
      rwa [(hbij b hb).1.1.2] at this
    · intro hm
      exact (hedge a ha).1.2 b hm

/-! ### graph: monotonicity -/

/-- generic form: a graph with more use edges has a larger Used set -/
theorem used_mono {g g' : Graph} (h : g.wf = true) (h' : g'.wf = true)
    (hsub : ∀ a b, b ∈ g.usesOf a → b ∈ g'.usesOf a) :
    ∀ n, n ∈ g.results.used → n ∈ g'.results.used := by
  intro n hn
  have := (used_iff_reachable h n).1 hn
  exact (used_iff_reachable h' n).2 ⟨this.1, Reach.mono hsub this.2⟩


/-- **Monotonicity along an embedding.**  If `f` maps the nodes of `g` into those of `g'`, the
root to the root and nothing else to the root, and every use edge of `g` to a use edge of
`g'`, then every Used node of `g` is mapped to a Used node of `g'` (whatever else `g'`
contains: more nodes, more use edges, other own edges). -/
theorem used_mono_embed {g g' : Graph} (h : g.wf = true) (h' : g'.wf = true) (f : Nat → Nat)
    (h0 : f 0 = 0) (hnz : ∀ a, a < g.N → a ≠ 0 → f a ≠ 0)
    (huses : ∀ a b, a < g.N → b ∈ g.usesOf a → f b ∈ g'.usesOf (f a)) :
    ∀ n, n ∈ g.results.used → f n ∈ g'.results.used := by
  intro n hn
  obtain ⟨hn0, r⟩ := (used_iff_reachable h n).1 hn
  have hnN : n < g.N := reach_lt h (wf_pos h) r
  have := (Reach.map (adj := g.usesOf) (adj' := g'.usesOf) f (fun a => a < g.N)
    (fun a b _ hb => wf_uses h a b hb) huses (wf_pos h) r).1
  rw [h0] at this
  exact (used_iff_reachable h' (f n)).2 ⟨hnz n hnN hn0, this⟩

/-- **Soundness of the executable embedding check** (run on the real graphs of a package and
of the package with one added reference). -/
theorem embed_check_sound {g g' : Graph} (h : g.wf = true) (h' : g'.wf = true) (f : List Nat)
    (hc : embedHyp g g' f = true) : ∀ n, n ∈ g.results.used → f.getD n 0 ∈ g'.results.used := by
  unfold embedHyp at hc
  simp only [Bool.and_eq_true, beq_iff_eq, List.all_eq_true, List.mem_range, Bool.or_eq_true,
    bne_iff_ne, ne_eq, List.contains_iff_mem] at hc
  obtain ⟨h0, hall⟩ := hc
  apply used_mono_embed h h' (fun a => f.getD a 0) h0
  · intro a ha ha0
    rcases (hall a ha).1 with h1 | h1
    · exact absurd h1 ha0
    · exact h1
  · intro a b ha hb
    exact (hall a ha).2 b hb

theorem wf_addUses {g : Graph} (h : g.wf = true) (es : List (Nat × Nat)) (hes : ∀ e, e ∈ es → e.2 < g.N) :
    (addUses g es).wf = true ∧ (addUses g es).N = g.N ∧ ∀ a b, b ∈ g.usesOf a → b ∈ (addUses g es).usesOf a := by
  induction es generalizing g with
  | nil => exact ⟨h, rfl, fun _ _ hb => hb⟩
  | cons e rest ih =>
    have hy : e.2 < g.N := hes e List.mem_cons_self
    have hw := wf_addUse h e.1 e.2 hy
    obtain ⟨i1, i2, i3⟩ := ih hw (fun e' he' => by rw [N_addUse]; exact hes e' (List.mem_cons_of_mem _ he'))
    refine ⟨i1, by rw [← N_addUse g e.1 e.2]; exact i2, ?_⟩
    intro a b hb
    exact i3 a b (uses_subset_addUse g e.1 e.2 a b hb)

/-- **Monotonicity, several references.**  Adding any number of use edges (whatever their
sources) never turns a Used object into a non-Used one. -/
theorem add_uses_monotone {g : Graph} (h : g.wf = true) (es : List (Nat × Nat)) (hes : ∀ e, e ∈ es → e.2 < g.N) :
    ∀ n, n ∈ g.results.used → n ∈ (addUses g es).results.used := by
  obtain ⟨hw, _, hsub⟩ := wf_addUses h es hes
  exact used_mono h hw hsub

/-- **Monotonicity.**  Adding a use edge `x → y` never turns a Used object into a
non-Used one (whatever `x` is — in particular when `x` is itself used). -/
theorem add_use_monotone {g : Graph} (h : g.wf = true) (x y : Nat) (hy : y < g.N) :
    ∀ n, n ∈ g.results.used → n ∈ (addUse g x y).results.used :=
  used_mono h (wf_addUse h x y hy) (uses_subset_addUse g x y)

/-- If the new edge starts at the root or at a used object, its target is Used afterwards. -/
theorem add_use_target_used {g : Graph} (h : g.wf = true) (x y : Nat) (hy : y < g.N) (hy0 : y ≠ 0)
    (hx : x = 0 ∨ x ∈ g.results.used) : y ∈ (addUse g x y).results.used := by
  have hxr : Reach g.usesOf 0 x := by
    rcases hx with rfl | hx
    · exact .refl 0
    · exact ((used_iff_reachable h x).1 hx).2
  have hxN : x < g.N := reach_lt h (wf_pos h) hxr
  rw [used_iff_reachable (wf_addUse h x y hy)]
  refine ⟨hy0, .step (Reach.mono (uses_subset_addUse g x y) hxr) ?_⟩
  rw [usesOf_addUse, if_pos ⟨rfl, hxN⟩]
  simp


/-! ### the graph builder: verdicts depend only on the set of calls -/

/-- object-level use relation of the surviving calls: `b ∈ adjU K a ↔ use b a ∈ K` -/
def adjU (K : List Event) (a : Nat) : List Nat :=
  K.filterMap fun e => match e with
    | .use u w => if w = a then some u else none
    | .see _ _ => none

theorem mem_adjU (K : List Event) (a b : Nat) : b ∈ adjU K a ↔ Event.use b a ∈ K := by
  unfold adjU
  rw [List.mem_filterMap]
  constructor
  · rintro ⟨e, he, hm⟩
    cases e with
    | use u w =>
      by_cases hw : w = a
      · simp only [hw, if_true, Option.some.injEq] at hm
        subst hm hw; exact he
      · simp [hw] at hm
    | see _ _ => simp at hm
  · intro he
    exact ⟨_, he, by simp⟩

theorem graph_N (s : BState) : s.graph.N = s.nodes.length := rfl

theorem wf_of_edges (g : Graph) (hpos : 0 < g.N) (hu : ∀ a m, m ∈ g.usesOf a → m < g.N)
    (ho : ∀ a m, m ∈ g.ownsOf a → m < g.N) : g.wf = true := by
  unfold Graph.wf
  simp only [Bool.and_eq_true, List.all_eq_true, decide_eq_true_eq]
  refine ⟨hpos, ?_⟩
  intro nd hnd
  obtain ⟨i, hi, rfl⟩ := List.getElem_of_mem hnd
  have e1 : g.usesOf i = (g.nodes[i]).uses := by
    simp [Graph.usesOf, List.getD_eq_getElem?_getD, List.getElem?_eq_getElem hi]
  have e2 : g.ownsOf i = (g.nodes[i]).owns := by
    simp [Graph.ownsOf, List.getD_eq_getElem?_getD, List.getElem?_eq_getElem hi]
  constructor
  · intro m hm
    rw [← e1] at hm
    exact hu _ _ hm
  · intro m hm
    rw [← e2] at hm
    exact ho _ _ hm

/-- **The built graph is well-formed**: the hypothesis `wf` of the graph theorems holds for
whatever the builder produces. -/
theorem build_wf (cfg : Cfg) (es : List Event) : (build cfg es).graph.wf = true := by
  obtain ⟨E, hi, _⟩ := build_inv cfg es
  apply wf_of_edges
  · rw [graph_N, hi.wf.len]; omega
  · intro a m hm
    obtain ⟨u, w, he, _, rfl⟩ := (hi.uses_iff a m).1 hm
    exact idOf_lt hi.wf (hi.reg _ he u (by simp [Event.mentions]))
  · intro a m hm
    obtain ⟨o, w, he, _, _, rfl⟩ := (hi.owns_iff a m).1 hm
    exact idOf_lt hi.wf (hi.reg _ he o (by simp [Event.mentions]))

/-- node-level reachability in the built graph is object-level reachability over the calls -/
theorem build_reach {s : BState} {E : List Event} (hi : Inv s E) :
    (∀ n, Reach s.graph.usesOf 0 n → ∃ x, s.Reg x ∧ s.idOf x = n ∧ Reach (adjU E) 0 x) ∧
    (∀ x, Reach (adjU E) 0 x → s.Reg x ∧ Reach s.graph.usesOf 0 (s.idOf x)) := by
  constructor
  · intro n r
    induction r with
    | refl => exact ⟨0, .inl rfl, by simp [BState.idOf], .refl 0⟩
    | step _ hc ih =>
      obtain ⟨x, hx, rfl, rx⟩ := ih
      obtain ⟨u, w, he, hw, rfl⟩ := (hi.uses_iff _ _).1 hc
      have hwx : w = x := idOf_inj (hi.reg _ he w (by simp [Event.mentions])) hx hi.wf hw
      subst hwx
      exact ⟨u, hi.reg _ he u (by simp [Event.mentions]), rfl, .step rx ((mem_adjU E w u).2 he)⟩
  · intro x r
    induction r with
    | refl => exact ⟨.inl rfl, by simp only [BState.idOf, if_true]; exact .refl 0⟩
    | step _ hc ih =>
      have he := (mem_adjU E _ _).1 hc
      refine ⟨hi.reg _ he _ (by simp [Event.mentions]), .step ih.2 ?_⟩
      exact (hi.uses_iff _ _).2 ⟨_, _, he, rfl, rfl⟩

theorem reach_congr {K K' : List Event} (h : ∀ e, e ∈ K → e ∈ K') {a b : Nat} (r : Reach (adjU K) a b) :
    Reach (adjU K') a b :=
  Reach.mono (fun x y hy => (mem_adjU K' x y).2 (h _ ((mem_adjU K x y).1 hy))) r

/-- **Used, for the builder.**  Whatever the order of the calls, object `o` ends up Used iff
it is reachable from nil (the root) over the `use` calls that survive the early returns. -/
theorem build_used_iff (cfg : Cfg) (es : List Event) (o : Nat) :
    objVerdict cfg es o = some .used ↔ o ≠ 0 ∧ Reach (adjU (kept cfg es)) 0 o := by
  obtain ⟨E, hi, hE⟩ := build_inv cfg es
  obtain ⟨r1, r2⟩ := build_reach hi
  have hwf := build_wf cfg es
  unfold objVerdict
  simp only []
  constructor
  · intro hv
    by_cases hc : o ≠ 0 ∧ o ∈ (build cfg es).objs
    · rw [if_pos hc] at hv
      have hv' : (build cfg es).graph.verdict ((build cfg es).idOf o) = .used := by
        injection hv
      obtain ⟨x, hx, hid, rx⟩ := r1 _ ((verdict_used_iff hwf _).1 hv')
      have : x = o := idOf_inj hx (.inr hc.2) hi.wf hid
      subst this
      exact ⟨hc.1, reach_congr (fun e he => (hE e).1 he) rx⟩
    · rw [if_neg hc] at hv; cases hv
  · rintro ⟨h0, r⟩
    have r' : Reach (adjU E) 0 o := reach_congr (fun e he => (hE e).2 he) r
    obtain ⟨hreg, rn⟩ := r2 o r'
    have hm : o ∈ (build cfg es).objs := by
      rcases hreg with h | h
      · exact absurd h h0
      · exact h
    rw [if_pos ⟨h0, hm⟩, (verdict_used_iff hwf _).2 rn]

/-- **Monotonicity, for the builder.**  More calls of any kind, in any positions of the walk:
every object that was Used stays Used. -/
theorem build_mono (cfg : Cfg) {es es' : List Event} (hsub : ∀ e, e ∈ es → e ∈ es') (o : Nat)
    (h : objVerdict cfg es o = some .used) : objVerdict cfg es' o = some .used := by
  rw [build_used_iff] at h ⊢
  refine ⟨h.1, reach_congr ?_ h.2⟩
  intro e he
  simp only [kept, List.mem_filter] at he ⊢
  exact ⟨hsub e he.1, he.2⟩

/-- the statement's clause: one added reference `use y x`, made anywhere during the walk -/
theorem build_add_use_monotone (cfg : Cfg) (es₁ es₂ : List Event) (x y o : Nat)
    (h : objVerdict cfg (es₁ ++ es₂) o = some .used) :
    objVerdict cfg (es₁ ++ Event.use y x :: es₂) o = some .used :=
  build_mono cfg (by
    intro e he
    rcases List.mem_append.1 he with h1 | h1
    · exact List.mem_append_left _ h1
    · exact List.mem_append_right _ (List.mem_cons_of_mem _ h1)) o h

/-- … and when the referring object `x` is itself Used (or is nil: a reference from the
package) and the call survives the early returns, the referenced object is Used afterwards -/
theorem build_add_use_target_used (cfg : Cfg) (es₁ es₂ : List Event) (x y : Nat)
    (hk : keep cfg (.use y x) = true)
    (hx : x = 0 ∨ objVerdict cfg (es₁ ++ es₂) x = some .used) :
    objVerdict cfg (es₁ ++ Event.use y x :: es₂) y = some .used := by
  have hy0 : y ≠ 0 := by
    simp only [keep, Bool.and_eq_true, bne_iff_ne, ne_eq] at hk
    exact hk.1.1.1
  have hmem : Event.use y x ∈ kept cfg (es₁ ++ Event.use y x :: es₂) := by
    simp only [kept, List.mem_filter]
    exact ⟨List.mem_append_right _ List.mem_cons_self, hk⟩
  rw [build_used_iff]
  refine ⟨hy0, .step ?_ ((mem_adjU _ x y).2 hmem)⟩
  rcases hx with rfl | hx
  · exact .refl 0
  · exact ((build_used_iff _ _ _).1 (build_add_use_monotone cfg es₁ es₂ x y x hx)).2

/-- the object with node id `a` -/
def BState.objAt (s : BState) (a : Nat) : Nat := if a = 0 then 0 else s.objs.getD (a - 1) 0

theorem objAt_spec {s : BState} (hw : s.WF) {a : Nat} (ha : a < s.nodes.length) :
    s.Reg (s.objAt a) ∧ s.idOf (s.objAt a) = a := by
  unfold BState.objAt
  by_cases h0 : a = 0
  · subst h0; exact ⟨.inl rfl, by simp [BState.idOf]⟩
  · rw [if_neg h0]
    have hl : a - 1 < s.objs.length := by have := hw.len; omega
    have hg : s.objs.getD (a - 1) 0 = s.objs[a - 1] := by
      simp [List.getD_eq_getElem?_getD, List.getElem?_eq_getElem hl]
    rw [hg]
    have hm : s.objs[a - 1] ∈ s.objs := List.getElem_mem hl
    have hnz : s.objs[a - 1] ≠ 0 := fun h => hw.nz (h ▸ hm)
    refine ⟨.inr hm, ?_⟩
    simp only [BState.idOf, hnz, if_false]
    rw [hw.nodup.idxOf_getElem (a - 1) hl]
    omega

theorem objAt_idOf {s : BState} (hw : s.WF) {x : Nat} (hx : s.Reg x) : s.objAt (s.idOf x) = x := by
  have h1 := objAt_spec hw (idOf_lt hw hx)
  exact idOf_inj h1.1 hx hw h1.2

/-- **Order independence, for the builder.**  Two walks that make the same SET of calls — in
any order, any number of times each (files permuted, declarations permuted, Go maps iterated
in another order, the analysis repeated) — give every object the same verdict. -/
theorem build_perm_invariant (cfg : Cfg) {es es' : List Event} (hset : ∀ e, e ∈ es ↔ e ∈ es') (o : Nat) :
    objVerdict cfg es o = objVerdict cfg es' o := by
  obtain ⟨E, hi, hE⟩ := build_inv cfg es
  obtain ⟨E', hi', hE'⟩ := build_inv cfg es'
  have hK : ∀ e, e ∈ kept cfg es ↔ e ∈ kept cfg es' := by
    intro e; simp only [kept, List.mem_filter, hset]
  have hEE : ∀ e, e ∈ E ↔ e ∈ E' := fun e => by rw [hE, hE', hK]
  have hobjs : ∀ x, x ∈ (build cfg es).objs ↔ x ∈ (build cfg es').objs := by
    intro x; rw [build_objs, build_objs]
    constructor
    · rintro ⟨h0, e, he, hm⟩; exact ⟨h0, e, (hK e).1 he, hm⟩
    · rintro ⟨h0, e, he, hm⟩; exact ⟨h0, e, (hK e).2 he, hm⟩
  generalize hs : build cfg es = s at *
  generalize hs' : build cfg es' = s' at *
  have hreg : ∀ x, s.Reg x ↔ s'.Reg x := by
    intro x; simp only [BState.Reg, hobjs]
  have hlen : s'.nodes.length = s.nodes.length := by
    have := ((List.perm_ext_iff_of_nodup hi.wf.nodup hi'.wf.nodup).2 hobjs).length_eq
    rw [hi.wf.len, hi'.wf.len, this]
  have hwf : s.graph.wf = true := by rw [← hs]; exact build_wf cfg es
  have hwf' : s'.graph.wf = true := by rw [← hs']; exact build_wf cfg es'
  have key := results_perm_invariant hwf hwf' (fun a => s'.idOf (s.objAt a)) (fun b => s.idOf (s'.objAt b))
    hlen (by simp [BState.objAt, BState.idOf])
    (by
      intro a ha
      have h1 := objAt_spec hi.wf (show a < s.nodes.length from ha)
      have h1' := (hreg _).1 h1.1
      refine ⟨by rw [graph_N, ← hlen]; exact idOf_lt hi'.wf h1', ?_⟩
      show s.idOf (s'.objAt (s'.idOf (s.objAt a))) = a
      rw [objAt_idOf hi'.wf h1', h1.2])
    (by
      intro b hb
      have hb' : b < s'.nodes.length := by rw [hlen]; exact hb
      have h1 := objAt_spec hi'.wf hb'
      have h1' := (hreg _).2 h1.1
      refine ⟨idOf_lt hi.wf h1', ?_⟩
      show s'.idOf (s.objAt (s.idOf (s'.objAt b))) = b
      rw [objAt_idOf hi.wf h1', h1.2])
    (by
      intro a b ha hb
      have ha1 := objAt_spec hi.wf (show a < s.nodes.length from ha)
      have hb1 := objAt_spec hi.wf (show b < s.nodes.length from hb)
      show s'.idOf (s.objAt b) ∈ s'.U (s'.idOf (s.objAt a)) ↔ b ∈ s.U a
      rw [hi'.uses_iff, hi.uses_iff]
      constructor
      · rintro ⟨u, w, he, hw, hu⟩
        have ew : w = s.objAt a := idOf_inj (hi'.reg _ he w (by simp [Event.mentions])) ((hreg _).1 ha1.1) hi'.wf hw
        have eu : u = s.objAt b := idOf_inj (hi'.reg _ he u (by simp [Event.mentions])) ((hreg _).1 hb1.1) hi'.wf hu
        exact ⟨u, w, (hEE _).2 he, by rw [ew, ha1.2], by rw [eu, hb1.2]⟩
      · rintro ⟨u, w, he, hw, hu⟩
        have rw' := hi.reg _ he w (by simp [Event.mentions])
        have ru := hi.reg _ he u (by simp [Event.mentions])
        refine ⟨u, w, (hEE _).1 he, ?_, ?_⟩
        · rw [← hw, objAt_idOf hi.wf rw']
        · rw [← hu, objAt_idOf hi.wf ru])
    (by
      intro a b ha hb
      have ha1 := objAt_spec hi.wf (show a < s.nodes.length from ha)
      have hb1 := objAt_spec hi.wf (show b < s.nodes.length from hb)
      show s'.idOf (s.objAt b) ∈ s'.O (s'.idOf (s.objAt a)) ↔ b ∈ s.O a
      rw [hi'.owns_iff, hi.owns_iff]
      constructor
      · rintro ⟨u, w, he, hw0, hw, hu⟩
        have ew : w = s.objAt a := idOf_inj (hi'.reg _ he w (by simp [Event.mentions])) ((hreg _).1 ha1.1) hi'.wf hw
        have eu : u = s.objAt b := idOf_inj (hi'.reg _ he u (by simp [Event.mentions])) ((hreg _).1 hb1.1) hi'.wf hu
        exact ⟨u, w, (hEE _).2 he, hw0, by rw [ew, ha1.2], by rw [eu, hb1.2]⟩
      · rintro ⟨u, w, he, hw0, hw, hu⟩
        have rw' := hi.reg _ he w (by simp [Event.mentions])
        have ru := hi.reg _ he u (by simp [Event.mentions])
        refine ⟨u, w, (hEE _).1 he, hw0, ?_, ?_⟩
        · rw [← hw, objAt_idOf hi.wf rw']
        · rw [← hu, objAt_idOf hi.wf ru])
  unfold objVerdict
  simp only [hs, hs']
  by_cases hc : o ≠ 0 ∧ o ∈ s.objs
  · have hc' : o ≠ 0 ∧ o ∈ s'.objs := ⟨hc.1, (hobjs o).1 hc.2⟩
    rw [if_pos hc, if_pos hc']
    have := key (s.idOf o) (idOf_lt hi.wf (.inr hc.2))
    simp only [objAt_idOf hi.wf (.inr hc.2)] at this
    rw [this]
  · have hc' : ¬ (o ≠ 0 ∧ o ∈ s'.objs) := fun h => hc ⟨h.1, (hobjs o).2 h.2⟩
    rw [if_neg hc, if_neg hc']

/-! ### variant merge -/

def IsTrue (m : UsedMap) (k : Key) : Prop := m.lookup k = some true

theorem markUsed_true (ks : List Key) : ∀ (m : UsedMap) (k : Key),
    IsTrue (markUsed m ks) k ↔ IsTrue m k ∨ k ∈ ks := by
  induction ks with
  | nil => intro m k; simp [markUsed]
  | cons a rest ih =>
    intro m k
    have : markUsed m (a :: rest) = markUsed ((a, true) :: m) rest := rfl
    rw [this, ih]
    unfold IsTrue
    by_cases hka : k = a
    · subst hka; simp
    · have : (k == a) = false := by simpa using hka
      simp [List.lookup_cons, this, hka]

theorem noteUnused_true (ks : List Key) : ∀ (m : UsedMap) (k : Key),
    IsTrue (noteUnused m ks) k ↔ IsTrue m k := by
  induction ks with
  | nil => intro m k; simp [noteUnused]
  | cons a rest ih =>
    intro m k
    have : noteUnused m (a :: rest) =
        noteUnused (if (m.lookup a).isNone then (a, false) :: m else m) rest := rfl
    rw [this, ih]
    unfold IsTrue
    by_cases hn : (m.lookup a).isNone = true
    · rw [if_pos hn]
      by_cases hka : k = a
      · subst hka
        have : m.lookup k = none := by simpa using hn
        simp [this]
      · have : (k == a) = false := by simpa using hka
        simp [List.lookup_cons, this]
    · rw [if_neg hn]

/-- the `unuseds` contribution of one variant -/
def contrib (v : Variant) : List Key := if v.allowed then v.unused else []

theorem fold_step_spec (vs : List Variant) : ∀ (st : UsedMap × List Key),
    (∀ k, IsTrue (vs.foldl step st).1 k ↔ IsTrue st.1 k ∨ ∃ v, v ∈ vs ∧ k ∈ v.used) ∧
    (vs.foldl step st).2 = st.2 ++ vs.flatMap contrib := by
  induction vs with
  | nil => intro st; simp
  | cons v rest ih =>
    intro st
    obtain ⟨i1, i2⟩ := ih (step st v)
    simp only [List.foldl_cons]
    have hs1 : ∀ k, IsTrue (step st v).1 k ↔ IsTrue st.1 k ∨ k ∈ v.used := by
      intro k
      unfold step
      by_cases ha : v.allowed = true
      · simp only [ha, if_true]; rw [noteUnused_true, markUsed_true]
      · simp only [ha]; exact markUsed_true _ _ _
    have hs2 : (step st v).2 = st.2 ++ contrib v := by
      unfold step contrib
      by_cases ha : v.allowed = true <;> simp [ha]
    constructor
    · intro k
      rw [i1, hs1]
      constructor
      · rintro ((h | h) | ⟨w, hw, h⟩)
        · exact .inl h
        · exact .inr ⟨v, List.mem_cons_self, h⟩
        · exact .inr ⟨w, List.mem_cons_of_mem _ hw, h⟩
      · rintro (h | ⟨w, hw, h⟩)
        · exact .inl (.inl h)
        · rcases List.mem_cons.1 hw with rfl | hw
          · exact .inl (.inr h)
          · exact .inr ⟨w, hw, h⟩
    · rw [i2, hs2]; simp [List.flatMap_cons, List.append_assoc]

/-- closed form of the merge: the unused keys of all allowed variants, in order, minus
every key that some variant has as used -/
theorem reported_eq (vs : List Variant) :
    reported vs = (vs.flatMap contrib).filter (fun k => decide (∀ v, v ∈ vs → k ∉ v.used)) := by
  unfold reported
  obtain ⟨h1, h2⟩ := fold_step_spec vs ([], [])
  simp only [h2, List.nil_append]
  apply List.filter_congr
  intro k _
  have hk := h1 k
  have hnil : ¬ IsTrue ([] : UsedMap) k := by simp [IsTrue]
  simp only [hnil, false_or] at hk
  unfold IsTrue at hk
  by_cases hu : ∃ v, v ∈ vs ∧ k ∈ v.used
  · have := hk.2 hu
    obtain ⟨w, hw, hkw⟩ := hu
    simp only [this, Option.getD_some, Bool.not_true]
    symm; rw [decide_eq_false_iff_not]
    intro hall; exact hall w hw hkw
  · have hne : (vs.foldl step ([], [])).1.lookup k ≠ some true := fun e => hu (hk.1 e)
    have hall : ∀ v, v ∈ vs → k ∉ v.used := fun v hv hkv => hu ⟨v, hv, hkv⟩
    rw [decide_eq_true hall]
    cases hl : (vs.foldl step ([], [])).1.lookup k with
    | none => simp
    | some b =>
      cases b with
      | false => simp
      | true => exact absurd hl hne

/-- **Merge rule.**  A key is reported iff some variant in which U1000 is enabled has it as
unused and no variant at all has it as used. -/
theorem reported_iff (vs : List Variant) (k : Key) :
    k ∈ reported vs ↔ (∃ v, v ∈ vs ∧ v.allowed = true ∧ k ∈ v.unused) ∧ ∀ v, v ∈ vs → k ∉ v.used := by
  rw [reported_eq]
  simp only [List.mem_filter, List.mem_flatMap, decide_eq_true_eq, contrib]
  constructor
  · rintro ⟨⟨v, hv, hk⟩, hall⟩
    refine ⟨⟨v, hv, ?_⟩, hall⟩
    by_cases ha : v.allowed = true
    · rw [if_pos ha] at hk; exact ⟨ha, hk⟩
    · rw [if_neg ha] at hk; cases hk
  · rintro ⟨⟨v, hv, ha, hk⟩, hall⟩
    exact ⟨⟨v, hv, by rw [if_pos ha]; exact hk⟩, hall⟩

/-- statement form of the property: reported ⇒ unused-or-absent in every variant -/
theorem reported_only_if_unused_everywhere (vs : List Variant) (k : Key) (hk : k ∈ reported vs) :
    ∀ v, v ∈ vs → k ∉ v.used :=
  ((reported_iff vs k).1 hk).2

/-- **Order independence of the merge**: permuting the runner results permutes the emitted
diagnostics (same keys, same multiplicities). -/
theorem merge_order_independent {vs vs' : List Variant} (hp : vs.Perm vs') :
    (reported vs).Perm (reported vs') := by
  rw [reported_eq, reported_eq]
  have hf : (fun k => decide (∀ v, v ∈ vs → k ∉ v.used)) = (fun k => decide (∀ v, v ∈ vs' → k ∉ v.used)) := by
    funext k
    have : (∀ v, v ∈ vs → k ∉ v.used) ↔ (∀ v, v ∈ vs' → k ∉ v.used) :=
      ⟨fun hh v hv => hh v (hp.mem_iff.2 hv), fun hh v hv => hh v (hp.mem_iff.1 hv)⟩
    simp only [this]
  rw [hf]
  exact (hp.flatMap_right contrib).filter _

theorem merge_order_independent_mem {vs vs' : List Variant} (hp : vs.Perm vs') (k : Key) :
    k ∈ reported vs ↔ k ∈ reported vs' :=
  (merge_order_independent hp).mem_iff

/-! ### non-vacuity -/

open Verif.C07.Graph in
/-- ex1 renumbered by swapping 1↔2 and 3↔6, edges listed in another order -/
def ex1' : Graph := ⟨[⟨[2], []⟩, ⟨[], []⟩, ⟨[1, 1], []⟩, ⟨[1], []⟩, ⟨[], [5]⟩, ⟨[], []⟩, ⟨[], [4]⟩]⟩

def swp : Nat → Nat
  | 1 => 2 | 2 => 1 | 3 => 6 | 6 => 3 | n => n

example : ex1'.wf = true := by decide
example : ∀ n, n < 7 → ex1'.verdict (swp n) = ex1.verdict n := by decide
-- the hypotheses of `results_perm_invariant` are satisfiable by a non-identity renumbering of a
-- graph with used, unused and quiet nodes, duplicate edges and another edge order
example : ∀ n, n < 7 → ex1'.verdict (swp n) = ex1.verdict n :=
  results_perm_invariant (g := ex1) (g' := ex1') (by decide) (by decide) swp swp rfl rfl
    (by decide) (by decide)
    (fun a b ha hb => (by decide : ∀ a, a < ex1.N → ∀ b, b < ex1.N →
      (swp b ∈ ex1'.usesOf (swp a) ↔ b ∈ ex1.usesOf a)) a ha b hb)
    (fun a b ha hb => (by decide : ∀ a, a < ex1.N → ∀ b, b < ex1.N →
      (swp b ∈ ex1'.ownsOf (swp a) ↔ b ∈ ex1.ownsOf a)) a ha b hb)
-- … and so is the executable check, on the same pair
example : isoHyp ex1 ex1' [0, 2, 1, 6, 4, 5, 3] [0, 2, 1, 6, 4, 5, 3] = true := by decide
example : ∀ n, n < 7 → ex1'.verdict ([0, 2, 1, 6, 4, 5, 3].getD n 0) = ex1.verdict n :=
  iso_check_sound (g := ex1) (g' := ex1') (by decide) (by decide) [0, 2, 1, 6, 4, 5, 3] [0, 2, 1, 6, 4, 5, 3] (by decide)
-- the check is not trivially true: dropping the edge 6 → 2 of ex1 (node 3 of ex1') breaks it
example : isoHyp ex1 ⟨[⟨[2], []⟩, ⟨[], []⟩, ⟨[1, 1], []⟩, ⟨[], []⟩, ⟨[], [5]⟩, ⟨[], []⟩, ⟨[], [4]⟩]⟩
    [0, 2, 1, 6, 4, 5, 3] [0, 2, 1, 6, 4, 5, 3] = false := by decide
-- embedding: ex1 into ex1 + (1 → 3), identity table; and into a graph with an extra node in front
example : embedHyp ex1 (addUse ex1 1 3) [0, 1, 2, 3, 4, 5, 6] = true := by decide
example : ∀ n, n ∈ ex1.results.used → [0, 1, 2, 3, 4, 5, 6].getD n 0 ∈ (addUse ex1 1 3).results.used :=
  embed_check_sound (g := ex1) (g' := addUse ex1 1 3) (by decide) (by decide) [0, 1, 2, 3, 4, 5, 6] (by decide)
example : embedHyp ex1 ex1' [0, 2, 1, 6, 4, 5, 3] = true := by decide
example : embedHyp (addUse ex1 1 3) ex1 [0, 1, 2, 3, 4, 5, 6] = false := by decide
example : (addUses ex1 [(1, 3), (3, 6)]).results.used = [1, 2, 3, 6] := by decide
-- adding 1 → 3: 3 becomes used; 4 (owned by the now-used 3) is reported; 5 stays quiet under 4
example : (addUse ex1 1 3).results = ⟨[1, 2, 3], [4, 6], [5]⟩ := by decide
example : ex1.results.used = [1, 2] := by decide

/-- a walk: `F` (1) exported and used by the package, calls `g` (2); type `t` (3) unused, owns field
`a` (4); the same calls again (de-duplicated); a call into another package (dropped) -/
def evs : List Event :=
  [.see 1 0, .use 1 0, .see 2 0, .use 2 1, .see 3 0, .see 4 3, .use 2 1, .use 9 1, .use 2 0, .see 0 3]
def cfgEx : Cfg := ⟨fun o => o != 9, fun _ => false⟩

example : (build cfgEx evs).objs = [1, 2, 3, 4] := by decide
example : (build cfgEx evs).graph = ⟨[⟨[1, 2], []⟩, ⟨[2], []⟩, ⟨[], []⟩, ⟨[], [4]⟩, ⟨[], []⟩]⟩ := by decide
example : [1, 2, 3, 4, 9].map (objVerdict cfgEx evs) = [some .used, some .used, some .unused, some .quiet, none] := by decide
-- another order of the same calls numbers the objects differently …
example : (build cfgEx evs.reverse).objs = [2, 1, 4, 3] := by decide
-- … and `build_perm_invariant` applies (its hypothesis is satisfiable by a non-identical order)
example : ∀ o, objVerdict cfgEx evs o = objVerdict cfgEx evs.reverse o :=
  build_perm_invariant cfgEx (by intro e; simp)
-- one added reference from the used object 2 to 3: 3 becomes Used, 1 and 2 stay Used, and the
-- field 4 of the now-used type is reported
example : [1, 2, 3, 4].map (objVerdict cfgEx (evs.take 4 ++ Event.use 3 2 :: evs.drop 4)) =
    [some .used, some .used, some .used, some .unused] := by decide
example : objVerdict cfgEx (evs.take 4 ++ Event.use 3 2 :: evs.drop 4) 3 = some .used :=
  build_add_use_target_used cfgEx (evs.take 4) (evs.drop 4) 2 3 (by decide) (.inr (by decide))

def kA : Key := ⟨"p", "a.go", 3, "f"⟩
def kB : Key := ⟨"p", "a.go", 7, "g"⟩
def kC : Key := ⟨"p", "a_test.go", 2, "h"⟩
/-- plain variant: f, g unused; test variant: f used by the tests, g and h unused -/
def vPlain : Variant := ⟨true, [], [kA, kB]⟩
def vTest : Variant := ⟨true, [kA], [kB, kC]⟩

example : reported [vPlain, vTest] = [kB, kB, kC] := by decide
example : reported [vTest, vPlain] = [kB, kC, kB] := by decide
example : [vPlain, vTest].Perm [vTest, vPlain] := List.Perm.swap _ _ _
-- f is unused in the plain variant and used by the tests: not reported; g unused everywhere: reported
example : kA ∉ reported [vPlain, vTest] ∧ kB ∈ reported [vPlain, vTest] := by decide
example : kA ∈ reported [vPlain] := by decide

end Verif.C17
