import Verif.C17.Driver
def main : IO UInt32 := do
  Verif.Proto.runLines Verif.C17.stepLine
  return 0
