/-
C17 — model of (a) adding a use edge to the `unused` graph (`graph.addUse`) and (b) the
merge of U1000 verdicts over package variants in `lintcmd.(*linter).lint`
(/repo/lintcmd/lint.go, the `used map[unusedKey]bool` / `unuseds []unusedPair` loop).

Core Lean only (compiled into `c17driver`).
-/
import Verif.C07.Graph
namespace Verif.C17
open Verif.C07

/-- `graph.addUse(by, used)` on the serialized node list: `nBy.uses = append(nBy.uses, used)`.
(The Go code first de-duplicates through the `edges` map; a duplicate edge changes nothing
about reachability, so the model appends unconditionally.) -/
def addUse (g : Graph) (x y : Nat) : Graph :=
  ⟨g.nodes.modify x (fun nd => { nd with uses := nd.uses ++ [y] })⟩

/-- several added references: `addUse` for every `(by, used)` pair in turn -/
def addUses (g : Graph) (es : List (Nat × Nat)) : Graph :=
  es.foldl (fun g e => addUse g e.1 e.2) g

/-- Executable form of the hypotheses of `results_perm_invariant` for a renumbering given as
a table `f` with inverse table `finv` (both of length `g.N`): `g'` is `g` with nodes
renumbered by `f` and edge lists equal as sets.  Run by the driver on the REAL graphs of a
package and of its permuted copy (`iso_check_sound`). -/
def isoHyp (g g' : Graph) (f finv : List Nat) : Bool :=
  let n := g.N
  let fa := fun a => f.getD a 0
  let fi := fun b => finv.getD b 0
  g'.N == n && fa 0 == 0 &&
  (List.range n).all (fun a => decide (fa a < n) && fi (fa a) == a && decide (fi a < n) && fa (fi a) == a) &&
  (List.range n).all (fun a =>
    (g.usesOf a).all (fun b => (g'.usesOf (fa a)).contains (fa b)) &&
    (g'.usesOf (fa a)).all (fun c => (g.usesOf a).contains (fi c)) &&
    (g.ownsOf a).all (fun b => (g'.ownsOf (fa a)).contains (fa b)) &&
    (g'.ownsOf (fa a)).all (fun c => (g.ownsOf a).contains (fi c)))

/-- Executable form of the hypotheses of `used_mono_embed`: `f` maps the nodes of `g` to
nodes of `g'`, root to root and only the root to the root, and every use edge of `g` is a
use edge of `g'`.  Run by the driver on the REAL graphs of a package and of the package
with one added reference (`embed_check_sound`). -/
def embedHyp (g g' : Graph) (f : List Nat) : Bool :=
  let fa := fun a => f.getD a 0
  fa 0 == 0 &&
  (List.range g.N).all (fun a =>
    (a == 0 || fa a != 0) &&
    (g.usesOf a).all (fun b => (g'.usesOf (fa a)).contains (fa b)))

/-- `unusedKey{pkgPath, base, line, name}` -/
structure Key where
  pkg : String
  base : String
  line : Nat
  name : String
  deriving DecidableEq, Repr, Inhabited

/-- What `lint` reads from one runner result `res` (initial, not failed, not skipped):
`allowedAnalyzers["U1000"]` and the keys of `resd.Unused.Used` / `resd.Unused.Unused`. -/
structure Variant where
  allowed : Bool
  used : List Key
  unused : List Key
  deriving Repr, Inhabited

/-- the Go map `used map[unusedKey]bool` as an association list (newest binding first) -/
abbrev UsedMap := List (Key × Bool)

/-- `for _, obj := range resd.Unused.Used { used[key] = true }` -/
def markUsed (m : UsedMap) (ks : List Key) : UsedMap :=
  ks.foldl (fun m k => (k, true) :: m) m

/-- `if _, ok := used[key]; !ok { used[key] = false }` for every unused object -/
def noteUnused (m : UsedMap) (ks : List Key) : UsedMap :=
  ks.foldl (fun m k => if (m.lookup k).isNone then (k, false) :: m else m) m

/-- one iteration of `for _, res := range results`; the state is `(used, unuseds)`.
In Go the `unuseds = append(…)` and the map update share one loop; they do not read each
other, so the model runs them one after the other. -/
def step (st : UsedMap × List Key) (v : Variant) : UsedMap × List Key :=
  let m1 := markUsed st.1 v.used
  if v.allowed then (noteUnused m1 v.unused, st.2 ++ v.unused) else (m1, st.2)

/-- `for _, uo := range unuseds { if used[uo.key] { continue }; emit }` — the keys of the
U1000 diagnostics in emission order (an object unused in two variants is emitted twice;
printing de-duplicates later). -/
def reported (vs : List Variant) : List Key :=
  let st := vs.foldl step ([], [])
  st.2.filter (fun k => !((st.1.lookup k).getD false))

end Verif.C17
