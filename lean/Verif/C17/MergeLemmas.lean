/-
C17 lemmas about the model of `SerializedGraph.Merge` (`Merge.lean`).
-/
import Verif.C07.Theorems
import Verif.C17.Merge
import Verif.C17.Lemmas
namespace Verif.C17
open Verif.C07 Verif.C07.Graph

/-! ### accessors -/

theorem getD_lt_mem {g : MGraph} {i : Nat} (h : i < g.length) : g.getD i MNode.root ∈ g := by
  rw [List.getD_eq_getElem?_getD, List.getElem?_eq_getElem h]; simp

theorem getD_ge {g : MGraph} {i : Nat} (h : g.length ≤ i) : g.getD i MNode.root = MNode.root := by
  rw [List.getD_eq_getElem?_getD, List.getElem?_eq_none h]; rfl

theorem getD_append_left (g e : MGraph) {i : Nat} (h : i < g.length) :
    (g ++ e).getD i MNode.root = g.getD i MNode.root := by
  simp [List.getD_eq_getElem?_getD, List.getElem?_append, h]

theorem getD_append_right' (g e : MGraph) {i : Nat} (h : g.length ≤ i) :
    (g ++ e).getD i MNode.root = e.getD (i - g.length) MNode.root := by
  have : ¬ i < g.length := by omega
  simp [List.getD_eq_getElem?_getD, List.getElem?_append, this]

theorem mem_getD {g : MGraph} {m : MNode} (h : m ∈ g) : ∃ i, i < g.length ∧ g.getD i MNode.root = m := by
  obtain ⟨i, hi, rfl⟩ := List.mem_iff_getElem.1 h
  exact ⟨i, hi, by rw [List.getD_eq_getElem?_getD, List.getElem?_eq_getElem hi]; rfl⟩

/-! ### the two maps -/

theorem byPath_some {g : MGraph} {p i : Nat} (h : byPath g p = some i) :
    i < g.length ∧ pathAt g i = p ∧ p ≠ 0 := by
  unfold byPath at h
  split at h
  · cases h
  · rename_i hp
    obtain ⟨hi, hpi, _⟩ := List.findIdx?_eq_some_iff_getElem.1 h
    refine ⟨hi, ?_, hp⟩
    unfold pathAt
    rw [List.getD_eq_getElem?_getD, List.getElem?_eq_getElem hi]
    simpa using hpi

theorem byPath_none {g : MGraph} {p : Nat} (h : byPath g p = none) (hp : p ≠ 0) :
    ∀ m, m ∈ g → m.path ≠ p := by
  unfold byPath at h
  rw [if_neg hp] at h
  intro m hm
  have := List.findIdx?_eq_none_iff.1 h m hm
  simpa using this

theorem byPos_some {g : MGraph} {q i : Nat} (h : byPos g q = some i) :
    i < g.length ∧ posAt g i = q ∧ q ≠ 0 := by
  unfold byPos at h
  split at h
  · cases h
  · rename_i hp
    obtain ⟨hi, hpi, _⟩ := List.findIdx?_eq_some_iff_getElem.1 h
    refine ⟨hi, ?_, hp⟩
    unfold posAt
    rw [List.getD_eq_getElem?_getD, List.getElem?_eq_getElem hi]
    simpa using hpi

theorem byPos_none {g : MGraph} {q : Nat} (h : byPos g q = none) (hq : q ≠ 0) :
    ∀ m, m ∈ g → m.pos ≠ q := by
  unfold byPos at h
  rw [if_neg hq] at h
  intro m hm
  have := List.findIdx?_eq_none_iff.1 h m hm
  simpa using this

/-- a successful lookup returns an existing node that carries the path, or else the position -/
theorem lookup_some {g : MGraph} {n : MNode} {i : Nat} (h : lookup g n = some i) :
    i < g.length ∧ ((pathAt g i = n.path ∧ n.path ≠ 0) ∨ (posAt g i = n.pos ∧ n.pos ≠ 0)) := by
  unfold lookup at h
  split at h
  · rename_i j hj
    cases h
    obtain ⟨a, b, c⟩ := byPath_some hj
    exact ⟨a, .inl ⟨b, c⟩⟩
  · obtain ⟨a, b, c⟩ := byPos_some h
    exact ⟨a, .inr ⟨b, c⟩⟩

/-- a failed lookup: no existing node carries the (non-zero) position -/
theorem lookup_none_pos {g : MGraph} {n : MNode} (h : lookup g n = none) (hq : n.pos ≠ 0) :
    ∀ m, m ∈ g → m.pos ≠ n.pos := by
  unfold lookup at h
  split at h
  · cases h
  · exact byPos_none h hq

theorem lookup_none_path {g : MGraph} {n : MNode} (h : lookup g n = none) (hp : n.path ≠ 0) :
    ∀ m, m ∈ g → m.path ≠ n.path := by
  unfold lookup at h
  split at h
  · cases h
  · rename_i hb
    exact byPath_none hb hp

/-! ### first pass -/

/-- non-zero positions name at most one node -/
def PosUnique (g : MGraph) : Prop :=
  ∀ i j, i < g.length → j < g.length → posAt g i = posAt g j → posAt g i ≠ 0 → i = j

/-- non-zero paths name at most one node -/
def PathUnique (g : MGraph) : Prop :=
  ∀ i j, i < g.length → j < g.length → pathAt g i = pathAt g j → pathAt g i ≠ 0 → i = j

/-- equal (non-empty) paths imply equal positions, over the nodes `all` -/
def PC (all : List MNode) : Prop :=
  ∀ n m, n ∈ all → m ∈ all → n.path ≠ 0 → n.path = m.path → n.pos = m.pos

/-- every node of `g` is a root or carries the identity of a node of `all` -/
def Src (all : List MNode) (g : MGraph) : Prop :=
  ∀ m, m ∈ g → (m.path = 0 ∧ m.pos = 0) ∨ ∃ n, n ∈ all ∧ n.path = m.path ∧ n.pos = m.pos

theorem posUnique_snoc {g : MGraph} (hu : PosUnique g) (nw : MNode)
    (hn : nw.pos ≠ 0 → ∀ m, m ∈ g → m.pos ≠ nw.pos) : PosUnique (g ++ [nw]) := by
  intro i j hi hj he h0
  simp only [List.length_append, List.length_cons, List.length_nil] at hi hj
  unfold PosUnique at hu
  unfold posAt at he h0 hu
  by_cases hig : i < g.length
  · by_cases hjg : j < g.length
    · rw [getD_append_left g _ hig] at he h0
      rw [getD_append_left g _ hjg] at he
      exact hu i j hig hjg he h0
    · have hj' : j = g.length := by omega
      subst hj'
      rw [getD_append_left g _ hig] at he h0
      rw [getD_append_right' g _ (Nat.le_refl _)] at he
      simp only [Nat.sub_self, List.getD_cons_zero] at he
      exact absurd he (hn (by rw [← he]; exact h0) _ (getD_lt_mem hig))
  · have hi' : i = g.length := by omega
    subst hi'
    by_cases hjg : j < g.length
    · rw [getD_append_right' g _ (Nat.le_refl _)] at he h0
      rw [getD_append_left g _ hjg] at he
      simp only [Nat.sub_self, List.getD_cons_zero] at he h0
      exact absurd he.symm (hn h0 _ (getD_lt_mem hjg))
    · omega

theorem pathUnique_snoc {g : MGraph} (hu : PathUnique g) (nw : MNode)
    (hn : nw.path ≠ 0 → ∀ m, m ∈ g → m.path ≠ nw.path) : PathUnique (g ++ [nw]) := by
  intro i j hi hj he h0
  simp only [List.length_append, List.length_cons, List.length_nil] at hi hj
  unfold PathUnique at hu
  unfold pathAt at he h0 hu
  by_cases hig : i < g.length
  · by_cases hjg : j < g.length
    · rw [getD_append_left g _ hig] at he h0
      rw [getD_append_left g _ hjg] at he
      exact hu i j hig hjg he h0
    · have hj' : j = g.length := by omega
      subst hj'
      rw [getD_append_left g _ hig] at he h0
      rw [getD_append_right' g _ (Nat.le_refl _)] at he
      simp only [Nat.sub_self, List.getD_cons_zero] at he
      exact absurd he (hn (by rw [← he]; exact h0) _ (getD_lt_mem hig))
  · have hi' : i = g.length := by omega
    subst hi'
    by_cases hjg : j < g.length
    · rw [getD_append_right' g _ (Nat.le_refl _)] at he h0
      rw [getD_append_left g _ hjg] at he
      simp only [Nat.sub_self, List.getD_cons_zero] at he h0
      exact absurd he.symm (hn h0 _ (getD_lt_mem hjg))
    · omega

/-- the position of the node a successful lookup returns, when paths are consistent -/
theorem lookup_some_pos {all : List MNode} {g : MGraph} {n : MNode} {i : Nat} (hpc : PC all) (hs : Src all g)
    (hn : n ∈ all) (h : lookup g n = some i) : posAt g i = n.pos := by
  obtain ⟨hi, hc⟩ := lookup_some h
  rcases hc with ⟨hp, hp0⟩ | ⟨hq', _⟩
  · have hm := getD_lt_mem hi
    rcases hs _ hm with ⟨h0, _⟩ | ⟨n', hn', hp', hq'⟩
    · unfold pathAt at hp; rw [hp] at h0; exact absurd h0 hp0
    · unfold pathAt at hp
      unfold posAt
      rw [← hq']
      exact hpc n' n hn' hn (by rw [hp', hp]; exact hp0) (by rw [hp', hp])
  · exact hq'

/-- First pass over the non-root nodes: the graph only grows at the end, by nodes without
edges that carry the identity of input nodes; the remapping points into the graph; unique
positions stay unique; with consistent paths the remapping preserves positions. -/
theorem pass1_tail (rest : List MNode) : ∀ (g : MGraph) (rm : List Nat), rm ≠ [] →
    ∃ ext t, pass1 rest g rm = (g ++ ext, rm ++ t) ∧ t.length = rest.length ∧
      (∀ k, k < rest.length → t.getD k 0 < (g ++ ext).length) ∧
      (∀ m, m ∈ ext → m.uses = [] ∧ m.owns = [] ∧ ∃ n, n ∈ rest ∧ m.path = n.path ∧ m.pos = n.pos) ∧
      (PosUnique g → PosUnique (g ++ ext)) ∧
      (PathUnique g → PathUnique (g ++ ext)) ∧
      (∀ all, PC all → Src all g → (∀ n, n ∈ rest → n ∈ all ∧ n.pos ≠ 0) →
        ∀ k, k < rest.length → posAt (g ++ ext) (t.getD k 0) = (rest.getD k MNode.root).pos) := by
  induction rest with
  | nil =>
    intro g rm _
    refine ⟨[], [], by simp [pass1], rfl, ?_, ?_, by simp, by simp, ?_⟩
    · intro k hk; cases hk
    · intro m hm; cases hm
    · intro _ _ _ _ k hk; cases hk
  | cons n rest ih =>
    intro g rm hrm
    cases hl : lookup g n with
    | some orig =>
      obtain ⟨ext, t, he, hlen, hlt, hext, hpu, hpa, hkey⟩ := ih g (rm ++ [orig]) (by simp)
      obtain ⟨hog, _⟩ := lookup_some hl
      refine ⟨ext, orig :: t, ?_, by simp [hlen], ?_, ?_, hpu, hpa, ?_⟩
      · simp only [pass1, hl, he, List.append_assoc, List.singleton_append]
      · intro k hk
        cases k with
        | zero => simp only [List.getD_cons_zero, List.length_append]; omega
        | succ k =>
          simp only [List.getD_cons_succ]
          exact hlt k (by simpa using hk)
      · intro m hm
        obtain ⟨a, b, n', hn', c⟩ := hext m hm
        exact ⟨a, b, n', List.mem_cons_of_mem _ hn', c⟩
      · intro all hpc hs hall k hk
        cases k with
        | zero =>
          simp only [List.getD_cons_zero]
          unfold posAt
          rw [getD_append_left g _ hog]
          exact lookup_some_pos hpc hs (hall n List.mem_cons_self).1 hl
        | succ k =>
          simp only [List.getD_cons_succ]
          exact hkey all hpc hs (fun n' hn' => hall n' (List.mem_cons_of_mem _ hn')) k (by simpa using hk)
    | none =>
      have hrm' : (rm.length == 0) = false := by
        cases rm with
        | nil => exact absurd rfl hrm
        | cons _ _ => simp
      obtain ⟨ext, t, he, hlen, hlt, hext, hpu, hpa, hkey⟩ :=
        ih (g ++ [⟨n.path, n.pos, [], []⟩]) (rm ++ [g.length]) (by simp)
      refine ⟨⟨n.path, n.pos, [], []⟩ :: ext, g.length :: t, ?_, by simp [hlen], ?_, ?_, ?_, ?_, ?_⟩
      · simp only [pass1, hl, addNew, hrm']
        rw [show (if false = true then
              (g ++ [(⟨n.path, n.pos, [], []⟩ : MNode)]).modify 0 (fun r => { r with uses := r.uses ++ [g.length] })
            else g ++ [(⟨n.path, n.pos, [], []⟩ : MNode)]) = g ++ [(⟨n.path, n.pos, [], []⟩ : MNode)] from by simp, he]
        simp
      · intro k hk
        cases k with
        | zero => simp only [List.getD_cons_zero, List.length_append, List.length_cons]; omega
        | succ k =>
          simp only [List.getD_cons_succ]
          have := hlt k (by simpa using hk)
          simpa [List.append_assoc] using this
      · intro m hm
        rcases List.mem_cons.1 hm with rfl | hm
        · exact ⟨rfl, rfl, n, List.mem_cons_self, rfl, rfl⟩
        · obtain ⟨a, b, n', hn', c⟩ := hext m hm
          exact ⟨a, b, n', List.mem_cons_of_mem _ hn', c⟩
      · intro hu
        have := hpu (posUnique_snoc hu ⟨n.path, n.pos, [], []⟩ (fun hq => lookup_none_pos hl hq))
        simpa [List.append_assoc] using this
      · intro hu
        have := hpa (pathUnique_snoc hu ⟨n.path, n.pos, [], []⟩ (fun hq => lookup_none_path hl hq))
        simpa [List.append_assoc] using this
      · intro all hpc hs hall k hk
        have hs' : Src all (g ++ [⟨n.path, n.pos, [], []⟩]) := by
          intro m hm
          rcases List.mem_append.1 hm with hm | hm
          · exact hs m hm
          · simp only [List.mem_singleton] at hm
            subst hm
            exact .inr ⟨n, (hall n List.mem_cons_self).1, rfl, rfl⟩
        cases k with
        | zero =>
          simp only [List.getD_cons_zero]
          unfold posAt
          rw [getD_append_right' g _ (Nat.le_refl _)]
          simp
        | succ k =>
          simp only [List.getD_cons_succ]
          have := hkey all hpc hs' (fun n' hn' => hall n' (List.mem_cons_of_mem _ hn')) k (by simpa using hk)
          simpa [List.append_assoc] using this

/-! ### second pass -/

theorem mem_remapL (rm xs : List Nat) (j : Nat) : j ∈ remapL rm xs ↔ ∃ b, b ∈ xs ∧ j = rm.getD b 0 := by
  unfold remapL
  simp only [List.mem_map]
  constructor
  · rintro ⟨b, hb, rfl⟩; exact ⟨b, hb, rfl⟩
  · rintro ⟨b, hb, rfl⟩; exact ⟨b, hb, rfl⟩

/-- one step of the second pass -/
theorem pass2_step (g : MGraph) (x : Nat) (us os : List Nat) (hx : x < g.length) :
    let g1 := g.modify x (fun nd => { nd with uses := nd.uses ++ us, owns := nd.owns ++ os })
    g1.length = g.length ∧
    (∀ t, pathAt g1 t = pathAt g t ∧ posAt g1 t = posAt g t) ∧
    (∀ t j, j ∈ usesAt g1 t ↔ j ∈ usesAt g t ∨ (x = t ∧ j ∈ us)) ∧
    (∀ t j, j ∈ ownsAt g1 t ↔ j ∈ ownsAt g t ∨ (x = t ∧ j ∈ os)) := by
  intro g1
  refine ⟨by simp [g1], ?_, ?_, ?_⟩
  · intro t
    simp only [g1, pathAt, posAt, getD_modify]
    by_cases h : x = t ∧ t < g.length <;> simp [h]
  · intro t j
    simp only [g1, usesAt, getD_modify]
    by_cases h : x = t ∧ t < g.length
    · simp [h, List.mem_append]
    · have : ¬ x = t := fun e => h ⟨e, e ▸ hx⟩
      simp [this]
  · intro t j
    simp only [g1, ownsAt, getD_modify]
    by_cases h : x = t ∧ t < g.length
    · simp [h, List.mem_append]
    · have : ¬ x = t := fun e => h ⟨e, e ▸ hx⟩
      simp [this]

/-- Second pass: identities and the number of nodes stay; node `t` gains exactly the
remapped edges of the input nodes that are remapped to `t`. -/
theorem pass2_spec (rest : List MNode) : ∀ (i : Nat) (rm : List Nat) (g : MGraph),
    (∀ k, k < rest.length → rm.getD (i + k) 0 < g.length) →
    (pass2 rest i rm g).length = g.length ∧
    (∀ t, pathAt (pass2 rest i rm g) t = pathAt g t ∧ posAt (pass2 rest i rm g) t = posAt g t) ∧
    (∀ t j, j ∈ usesAt (pass2 rest i rm g) t ↔ j ∈ usesAt g t ∨
      ∃ k, k < rest.length ∧ rm.getD (i + k) 0 = t ∧ ∃ b, b ∈ (rest.getD k MNode.root).uses ∧ j = rm.getD b 0) ∧
    (∀ t j, j ∈ ownsAt (pass2 rest i rm g) t ↔ j ∈ ownsAt g t ∨
      ∃ k, k < rest.length ∧ rm.getD (i + k) 0 = t ∧ ∃ b, b ∈ (rest.getD k MNode.root).owns ∧ j = rm.getD b 0) := by
  induction rest with
  | nil =>
    intro i rm g _
    simp [pass2]
  | cons n rest ih =>
    intro i rm g hlt
    have hx : rm.getD i 0 < g.length := by simpa using hlt 0 (by simp)
    obtain ⟨s1, s2, s3, s4⟩ := pass2_step g (rm.getD i 0) (remapL rm n.uses) (remapL rm n.owns) hx
    obtain ⟨r1, r2, r3, r4⟩ := ih (i + 1) rm _ (by
      intro k hk
      rw [s1]
      have := hlt (k + 1) (by simpa using hk)
      rwa [show i + (k + 1) = i + 1 + k from by omega] at this)
    simp only [pass2]
    refine ⟨by rw [r1, s1], ?_, ?_, ?_⟩
    · intro t
      rw [(r2 t).1, (r2 t).2, (s2 t).1, (s2 t).2]
      exact ⟨rfl, rfl⟩
    · intro t j
      rw [r3, s3, mem_remapL]
      constructor
      · rintro ((h | ⟨hxt, b, hb, hj⟩) | ⟨k, hk, hkt, b, hb, hj⟩)
        · exact .inl h
        · exact .inr ⟨0, by simp, by simpa using hxt, b, by simpa using hb, hj⟩
        · exact .inr ⟨k + 1, by simpa using hk, by rwa [show i + (k + 1) = i + 1 + k from by omega], b, by simpa using hb, hj⟩
      · rintro (h | ⟨k, hk, hkt, b, hb, hj⟩)
        · exact .inl (.inl h)
        · cases k with
          | zero => exact .inl (.inr ⟨by simpa using hkt, b, by simpa using hb, hj⟩)
          | succ k =>
            exact .inr ⟨k, by simpa using hk, by rwa [show i + (k + 1) = i + 1 + k from by omega] at hkt, b, by simpa using hb, hj⟩
    · intro t j
      rw [r4, s4, mem_remapL]
      constructor
      · rintro ((h | ⟨hxt, b, hb, hj⟩) | ⟨k, hk, hkt, b, hb, hj⟩)
        · exact .inl h
        · exact .inr ⟨0, by simp, by simpa using hxt, b, by simpa using hb, hj⟩
        · exact .inr ⟨k + 1, by simpa using hk, by rwa [show i + (k + 1) = i + 1 + k from by omega], b, by simpa using hb, hj⟩
      · rintro (h | ⟨k, hk, hkt, b, hb, hj⟩)
        · exact .inl (.inl h)
        · cases k with
          | zero => exact .inl (.inr ⟨by simpa using hkt, b, by simpa using hb, hj⟩)
          | succ k =>
            exact .inr ⟨k, by simpa using hk, by rwa [show i + (k + 1) = i + 1 + k from by omega] at hkt, b, by simpa using hb, hj⟩

/-! ### one call of `Merge` -/

/-- appending nodes without edges changes no edge list -/
theorem edges_append_ext (g ext : MGraph) (hext : ∀ m, m ∈ ext → m.uses = [] ∧ m.owns = []) (t : Nat) :
    usesAt (g ++ ext) t = usesAt g t ∧ ownsAt (g ++ ext) t = ownsAt g t := by
  unfold usesAt ownsAt
  by_cases ht : t < g.length
  · rw [getD_append_left g ext ht]; exact ⟨rfl, rfl⟩
  · have hge : g.length ≤ t := Nat.le_of_not_gt ht
    rw [getD_append_right' g ext hge, getD_ge hge]
    by_cases h2 : t - g.length < ext.length
    · obtain ⟨a, b⟩ := hext _ (getD_lt_mem h2)
      exact ⟨a, b⟩
    · rw [getD_ge (Nat.le_of_not_gt h2)]; exact ⟨rfl, rfl⟩

/-- what one call `Merge(v)` does to a non-empty serialized graph `g0`, for an input whose
first node is a root (no identity) -/
structure MergeSpec (g0 v g' : MGraph) (rm : List Nat) : Prop where
  rmLen : rm.length = v.length
  rmLt : ∀ a, a < v.length → rm.getD a 0 < g'.length
  len : g0.length < g'.length
  ident : ∀ i, i < g0.length → pathAt g' i = pathAt g0 i ∧ posAt g' i = posAt g0 i
  uses : ∀ t j, j ∈ usesAt g' t ↔ j ∈ usesAt g0 t ∨ (t = 0 ∧ j = g0.length) ∨
    ∃ a, a < v.length ∧ rm.getD a 0 = t ∧ ∃ b, b ∈ usesAt v a ∧ j = rm.getD b 0
  owns : ∀ t j, j ∈ ownsAt g' t ↔ j ∈ ownsAt g0 t ∨
    ∃ a, a < v.length ∧ rm.getD a 0 = t ∧ ∃ b, b ∈ ownsAt v a ∧ j = rm.getD b 0
  rm0 : rm.getD 0 0 = g0.length
  sub : pathAt g' g0.length = 0 ∧ posAt g' g0.length = 0
  fresh : ∀ i, g0.length < i → i < g'.length → ∃ n, n ∈ v.drop 1 ∧ pathAt g' i = n.path ∧ posAt g' i = n.pos
  posU : PosUnique g0 → PosUnique g'
  pathU : PathUnique g0 → PathUnique g'
  key : ∀ all, PC all → Src all g0 → (∀ n, n ∈ v.drop 1 → n ∈ all ∧ n.pos ≠ 0) →
    ∀ a, a < v.length → posAt g' (rm.getD a 0) = posAt v a

theorem root_step (g0 : MGraph) (_h0 : 0 < g0.length) :
    let g1 := (g0 ++ [MNode.root]).modify 0 (fun r => { r with uses := r.uses ++ [g0.length] })
    g1.length = g0.length + 1 ∧
    (∀ t, pathAt g1 t = pathAt g0 t ∧ posAt g1 t = posAt g0 t ∧ ownsAt g1 t = ownsAt g0 t) ∧
    (∀ t j, j ∈ usesAt g1 t ↔ j ∈ usesAt g0 t ∨ (t = 0 ∧ j = g0.length)) := by
  intro g1
  have hd : ∀ t, (g0 ++ [MNode.root]).getD t MNode.root = g0.getD t MNode.root :=
    fun t => getD_append_default g0 MNode.root t
  refine ⟨by simp [g1], ?_, ?_⟩
  · intro t
    simp only [g1, pathAt, posAt, ownsAt, getD_modify, hd]
    by_cases h : 0 = t ∧ t < (g0 ++ [MNode.root]).length
    · simp only [if_pos h, and_self]
    · simp only [if_neg h, and_self]
  · intro t j
    simp only [g1, usesAt, getD_modify, hd]
    by_cases h : 0 = t ∧ t < (g0 ++ [MNode.root]).length
    · simp only [if_pos h]
      obtain ⟨rfl, _⟩ := h
      simp [List.mem_append]
    · have : ¬ t = 0 := fun e => h ⟨e.symm, by subst e; simp⟩
      simp only [if_neg h]
      simp [this]

theorem pass1_cons_none {n : MNode} {rest : List MNode} {g : MGraph} {rm : List Nat} (h : lookup g n = none) :
    pass1 (n :: rest) g rm = pass1 rest (addNew g n (rm.length == 0)) (rm ++ [g.length]) := by
  rw [pass1, h]

theorem merge_nonempty (g0 v : MGraph) (h : g0.isEmpty = false) :
    merge g0 v = pass2 v 0 (pass1 v g0 []).2 (pass1 v g0 []).1 := by
  simp [merge, h]

theorem addNew_root (g0 : MGraph) (r0 : MNode) (hp : r0.path = 0) (hq : r0.pos = 0) :
    addNew g0 r0 (([] : List Nat).length == 0) =
      (g0 ++ [MNode.root]).modify 0 (fun r => { r with uses := r.uses ++ [g0.length] }) := by
  simp [addNew, hp, hq, MNode.root]

theorem lookup_root (g : MGraph) (n : MNode) (hp : n.path = 0) (hq : n.pos = 0) : lookup g n = none := by
  simp [lookup, byPath, byPos, hp, hq]

/-- `Merge` on a non-empty graph -/
theorem merge_spec (g0 : MGraph) (h0 : 0 < g0.length) (r0 : MNode) (rest : List MNode)
    (hp : r0.path = 0) (hq : r0.pos = 0) :
    ∃ rm, MergeSpec g0 (r0 :: rest) (merge g0 (r0 :: rest)) rm := by
  have hne : g0.isEmpty = false := by
    cases g0 with
    | nil => cases h0
    | cons _ _ => rfl
  obtain ⟨l1, i1, u1⟩ := root_step g0 h0
  generalize hg1 : (g0 ++ [MNode.root]).modify 0 (fun r => { r with uses := r.uses ++ [g0.length] }) = g1 at l1 i1 u1
  obtain ⟨ext, t, he, hlen, hlt, hext, hpu, hpa, hkey⟩ := pass1_tail rest g1 [g0.length] (by simp)
  have hm : merge g0 (r0 :: rest) = pass2 (r0 :: rest) 0 (g0.length :: t) (g1 ++ ext) := by
    rw [merge_nonempty g0 _ hne, pass1_cons_none (lookup_root g0 r0 hp hq), addNew_root g0 r0 hp hq, hg1]
    simp only [List.nil_append]
    rw [he]
    rfl
  have hee := edges_append_ext g1 ext (fun m hm => ⟨(hext m hm).1, (hext m hm).2.1⟩)
  have hrmlt : ∀ k, k < (r0 :: rest).length → (g0.length :: t).getD (0 + k) 0 < (g1 ++ ext).length := by
    intro k hk
    cases k with
    | zero => simp only [Nat.add_zero, List.getD_cons_zero, List.length_append]; omega
    | succ k =>
      simp only [Nat.zero_add, List.getD_cons_succ]
      exact hlt k (by simpa using hk)
  obtain ⟨p1, p2, p3, p4⟩ := pass2_spec (r0 :: rest) 0 (g0.length :: t) (g1 ++ ext) hrmlt
  rw [hm]
  have hidl : ∀ i, i < g1.length → pathAt (g1 ++ ext) i = pathAt g1 i ∧ posAt (g1 ++ ext) i = posAt g1 i := by
    intro i hi
    unfold pathAt posAt
    rw [getD_append_left g1 ext hi]
    exact ⟨rfl, rfl⟩
  refine ⟨g0.length :: t, ⟨by simp [hlen], ?_, ?_, ?_, ?_, ?_, rfl, ?_, ?_, ?_, ?_, ?_⟩⟩
  · intro a ha
    rw [p1]
    simpa using hrmlt a ha
  · rw [p1]; simp only [List.length_append]; omega
  · intro i hi
    rw [(p2 i).1, (p2 i).2, (hidl i (by omega)).1, (hidl i (by omega)).2, (i1 i).1, (i1 i).2.1]
    exact ⟨rfl, rfl⟩
  · intro t' j
    rw [p3, (hee t').1, u1]
    simp only [Nat.zero_add, usesAt]
    constructor
    · rintro ((h | h) | h)
      · exact .inl h
      · exact .inr (.inl h)
      · exact .inr (.inr h)
    · rintro (h | h | h)
      · exact .inl (.inl h)
      · exact .inl (.inr h)
      · exact .inr h
  · intro t' j
    rw [p4, (hee t').2, (i1 t').2.2]
    simp only [Nat.zero_add, ownsAt]
  · rw [(p2 _).1, (p2 _).2, (hidl _ (by omega)).1, (hidl _ (by omega)).2, (i1 _).1, (i1 _).2.1]
    unfold pathAt posAt
    rw [getD_ge (Nat.le_refl _)]
    exact ⟨rfl, rfl⟩
  · intro i hi hi'
    rw [p1] at hi'
    rw [(p2 i).1, (p2 i).2]
    unfold pathAt posAt
    rw [getD_append_right' g1 ext (by omega)]
    simp only [List.length_append] at hi'
    have hm' := getD_lt_mem (g := ext) (i := i - g1.length) (by omega)
    obtain ⟨_, _, n, hn, hpp, hqq⟩ := hext _ hm'
    exact ⟨n, by simpa using hn, hpp, hqq⟩
  · intro hu
    have hu1 : PosUnique g1 := by
      intro i j hi hj he' hz
      rw [(i1 i).2.1, (i1 j).2.1] at he'
      rw [(i1 i).2.1] at hz
      have hig : i < g0.length := by
        rcases Nat.lt_or_ge i g0.length with h | h
        · exact h
        · exfalso; unfold posAt at hz; rw [getD_ge h] at hz; exact hz rfl
      have hjg : j < g0.length := by
        rcases Nat.lt_or_ge j g0.length with h | h
        · exact h
        · exfalso; rw [he'] at hz; unfold posAt at hz; rw [getD_ge h] at hz; exact hz rfl
      exact hu i j hig hjg he' hz
    have hu2 := hpu hu1
    intro i j hi hj he' hz
    rw [p1] at hi hj
    rw [(p2 i).2, (p2 j).2] at he'
    rw [(p2 i).2] at hz
    exact hu2 i j hi hj he' hz
  · intro hu
    have hu1 : PathUnique g1 := by
      intro i j hi hj he' hz
      rw [(i1 i).1, (i1 j).1] at he'
      rw [(i1 i).1] at hz
      have hig : i < g0.length := by
        rcases Nat.lt_or_ge i g0.length with h | h
        · exact h
        · exfalso; unfold pathAt at hz; rw [getD_ge h] at hz; exact hz rfl
      have hjg : j < g0.length := by
        rcases Nat.lt_or_ge j g0.length with h | h
        · exact h
        · exfalso; rw [he'] at hz; unfold pathAt at hz; rw [getD_ge h] at hz; exact hz rfl
      exact hu i j hig hjg he' hz
    have hu2 := hpa hu1
    intro i j hi hj he' hz
    rw [p1] at hi hj
    rw [(p2 i).1, (p2 j).1] at he'
    rw [(p2 i).1] at hz
    exact hu2 i j hi hj he' hz
  · intro all hpc hs hall a ha
    rw [(p2 _).2]
    cases a with
    | zero =>
      simp only [List.getD_cons_zero]
      rw [(hidl _ (by omega)).2, (i1 _).2.1]
      unfold posAt
      rw [getD_ge (Nat.le_refl _)]
      simp [hq, MNode.root]
    | succ a =>
      simp only [List.getD_cons_succ]
      have hs1 : Src all g1 := by
        intro m hm
        obtain ⟨i, hi, rfl⟩ := mem_getD hm
        by_cases hig : i < g0.length
        · have := hs _ (getD_lt_mem hig)
          have e1 := (i1 i).1
          have e2 := (i1 i).2.1
          unfold pathAt at e1
          unfold posAt at e2
          rw [e1, e2]
          exact this
        · have e1 := (i1 i).1
          have e2 := (i1 i).2.1
          unfold pathAt at e1
          unfold posAt at e2
          rw [getD_ge (Nat.le_of_not_gt hig)] at e1 e2
          exact .inl ⟨e1, e2⟩
      have := hkey all hpc hs1 (fun n hn => hall n (by simpa using hn)) a (by simpa using ha)
      rw [this]
      unfold posAt
      simp

/-! ### a sequence of calls -/

/-- the Prop content of the executable probe `variantOk` -/
structure VOk (v : MGraph) : Prop where
  shape : ∃ r0 rest, v = r0 :: rest ∧ r0.path = 0 ∧ r0.pos = 0 ∧ ∀ n, n ∈ rest → n.pos ≠ 0
  usesLt : ∀ a b, b ∈ usesAt v a → b < v.length
  ownsLt : ∀ a b, b ∈ ownsAt v a → b < v.length

theorem variantOk_spec {v : MGraph} (h : variantOk v = true) : VOk v := by
  unfold variantOk inRange at h
  simp only [Bool.and_eq_true, decide_eq_true_eq, List.all_eq_true, beq_iff_eq, bne_iff_ne, ne_eq] at h
  obtain ⟨⟨⟨⟨hl, hr⟩, hp⟩, hq⟩, hd⟩ := h
  refine ⟨?_, ?_, ?_⟩
  · cases v with
    | nil => simp at hl
    | cons r0 rest =>
      refine ⟨r0, rest, rfl, ?_, ?_, ?_⟩
      · simpa [pathAt] using hp
      · simpa [posAt] using hq
      · intro n hn; exact hd n (by simpa using hn)
  · intro a b hb
    by_cases ha : a < v.length
    · exact (hr _ (getD_lt_mem ha)).1 b hb
    · unfold usesAt at hb; rw [getD_ge (Nat.le_of_not_gt ha)] at hb; cases hb
  · intro a b hb
    by_cases ha : a < v.length
    · exact (hr _ (getD_lt_mem ha)).2 b hb
    · unfold ownsAt at hb; rw [getD_ge (Nat.le_of_not_gt ha)] at hb; cases hb

theorem pathsConsistent_spec {vs : List MGraph} (h : pathsConsistent vs = true) : PC (vs.flatMap id) := by
  unfold pathsConsistent at h
  simp only [List.all_eq_true, Bool.or_eq_true, beq_iff_eq, bne_iff_ne, ne_eq] at h
  intro n m hn hm hp he
  rcases h n hn with h0 | h1
  · exact absurd h0 hp
  · rcases h1 m hm with h2 | h2
    · exact absurd he.symm h2
    · exact h2.symm

/-- The invariant of a serialized graph `g` that absorbed the variants `vs` (nodes drawn
from `all`): non-zero positions name one node each; every use edge of `g` is the root's edge
to a variant's root or the image of a variant's use edge; every variant maps into `g` by a
position-preserving homomorphism of use edges that sends its root below the root of `g`. -/
structure GInv (all : List MNode) (g : MGraph) (vs : List MGraph) : Prop where
  len : 0 < g.length
  pos0 : posAt g 0 = 0
  posU : PosUnique g
  src : Src all g
  wfU : ∀ i j, j ∈ usesAt g i → j < g.length
  wfO : ∀ i j, j ∈ ownsAt g i → j < g.length
  e1 : ∀ i j, j ∈ usesAt g i → (posAt g i = 0 ∧ posAt g j = 0) ∨
    ∃ v, v ∈ vs ∧ ∃ a b, a < v.length ∧ b ∈ usesAt v a ∧ posAt v a = posAt g i ∧ posAt v b = posAt g j
  e2 : ∀ v, v ∈ vs → ∃ rm : List Nat,
    (∀ a, a < v.length → rm.getD a 0 < g.length ∧ posAt g (rm.getD a 0) = posAt v a) ∧
    (∀ a b, a < v.length → b ∈ usesAt v a → rm.getD b 0 ∈ usesAt g (rm.getD a 0)) ∧
    rm.getD 0 0 ∈ usesAt g 0

theorem usesAt_lt {g : MGraph} {i j : Nat} (h : j ∈ usesAt g i) : i < g.length := by
  rcases Nat.lt_or_ge i g.length with h' | h'
  · exact h'
  · unfold usesAt at h; rw [getD_ge h'] at h; cases h

theorem ownsAt_lt {g : MGraph} {i j : Nat} (h : j ∈ ownsAt g i) : i < g.length := by
  rcases Nat.lt_or_ge i g.length with h' | h'
  · exact h'
  · unfold ownsAt at h; rw [getD_ge h'] at h; cases h

theorem ginv_init (all : List MNode) : GInv all [MNode.root] [] := by
  refine ⟨by simp, rfl, ?_, ?_, ?_, ?_, ?_, ?_⟩
  · intro i j hi hj _ _
    simp at hi hj; omega
  · intro m hm
    simp only [List.mem_singleton] at hm
    subst hm; exact .inl ⟨rfl, rfl⟩
  · intro i j h
    have := usesAt_lt h
    have hi : i = 0 := by simpa using this
    subst hi; simp [usesAt, MNode.root] at h
  · intro i j h
    have := ownsAt_lt h
    have hi : i = 0 := by simpa using this
    subst hi; simp [ownsAt, MNode.root] at h
  · intro i j h
    have := usesAt_lt h
    have hi : i = 0 := by simpa using this
    subst hi; simp [usesAt, MNode.root] at h
  · intro v hv; cases hv

theorem ginv_step {all : List MNode} {g : MGraph} {vs : List MGraph} {v : MGraph}
    (hi : GInv all g vs) (hpc : PC all) (hv : VOk v) (hall : ∀ n, n ∈ v → n ∈ all) :
    GInv all (merge g v) (vs ++ [v]) := by
  obtain ⟨r0, rest, rfl, hp, hq, hrest⟩ := hv.shape
  obtain ⟨rm, sp⟩ := merge_spec g hi.len r0 rest hp hq
  have hdrop : ∀ n, n ∈ (r0 :: rest).drop 1 → n ∈ all ∧ n.pos ≠ 0 := by
    intro n hn
    have : n ∈ rest := by simpa using hn
    exact ⟨hall n (List.mem_cons_of_mem _ this), hrest n this⟩
  have hkey := sp.key all hpc hi.src hdrop
  refine ⟨Nat.lt_trans hi.len sp.len, ?_, sp.posU hi.posU, ?_, ?_, ?_, ?_, ?_⟩
  · rw [(sp.ident 0 hi.len).2]; exact hi.pos0
  · intro m hm
    obtain ⟨i, hil, rfl⟩ := mem_getD hm
    rcases Nat.lt_trichotomy i g.length with h | h | h
    · have e1 := (sp.ident i h).1
      have e2 := (sp.ident i h).2
      unfold pathAt at e1
      unfold posAt at e2
      rw [e1, e2]
      exact hi.src _ (getD_lt_mem h)
    · subst h
      have e1 := sp.sub.1
      have e2 := sp.sub.2
      unfold pathAt at e1
      unfold posAt at e2
      exact .inl ⟨e1, e2⟩
    · obtain ⟨n, hn, e1, e2⟩ := sp.fresh i h hil
      unfold pathAt at e1
      unfold posAt at e2
      exact .inr ⟨n, (hdrop n hn).1, e1.symm, e2.symm⟩
  · intro i j hj
    rcases (sp.uses i j).1 hj with h | ⟨_, rfl⟩ | ⟨a, ha, _, b, hb, rfl⟩
    · exact Nat.lt_trans (hi.wfU i j h) sp.len
    · exact sp.len
    · exact sp.rmLt b (hv.usesLt a b hb)
  · intro i j hj
    rcases (sp.owns i j).1 hj with h | ⟨a, ha, _, b, hb, rfl⟩
    · exact Nat.lt_trans (hi.wfO i j h) sp.len
    · exact sp.rmLt b (hv.ownsLt a b hb)
  · intro i j hj
    rcases (sp.uses i j).1 hj with h | ⟨rfl, rfl⟩ | ⟨a, ha, rfl, b, hb, rfl⟩
    · have hil := usesAt_lt h
      have hjl := hi.wfU i j h
      rw [(sp.ident i hil).2, (sp.ident j hjl).2]
      rcases hi.e1 i j h with h1 | ⟨v', hv', rest'⟩
      · exact .inl h1
      · exact .inr ⟨v', List.mem_append_left _ hv', rest'⟩
    · exact .inl ⟨by rw [(sp.ident 0 hi.len).2]; exact hi.pos0, sp.sub.2⟩
    · exact .inr ⟨r0 :: rest, List.mem_append_right _ (List.mem_singleton.2 rfl), a, b, ha, hb,
        (hkey a ha).symm, (hkey b (hv.usesLt a b hb)).symm⟩
  · intro v' hv'
    rcases List.mem_append.1 hv' with hv' | hv'
    · obtain ⟨rm', h1, h2, h3⟩ := hi.e2 v' hv'
      refine ⟨rm', ?_, ?_, ?_⟩
      · intro a ha
        obtain ⟨hl, hk⟩ := h1 a ha
        exact ⟨Nat.lt_trans hl sp.len, by rw [(sp.ident _ hl).2]; exact hk⟩
      · intro a b ha hb
        exact (sp.uses _ _).2 (.inl (h2 a b ha hb))
      · exact (sp.uses _ _).2 (.inl h3)
    · simp only [List.mem_singleton] at hv'
      subst hv'
      refine ⟨rm, ?_, ?_, ?_⟩
      · intro a ha
        exact ⟨sp.rmLt a ha, hkey a ha⟩
      · intro a b ha hb
        exact (sp.uses _ _).2 (.inr (.inr ⟨a, ha, rfl, b, hb, rfl⟩))
      · exact (sp.uses _ _).2 (.inr (.inl ⟨rfl, sp.rm0⟩))

theorem ginv_foldl {all : List MNode} (hpc : PC all) (vs : List MGraph) :
    ∀ (g : MGraph) (done : List MGraph), GInv all g done →
      (∀ v, v ∈ vs → VOk v ∧ ∀ n, n ∈ v → n ∈ all) → GInv all (vs.foldl merge g) (done ++ vs) := by
  induction vs with
  | nil => intro g done h _; simpa using h
  | cons v vs ih =>
    intro g done h hvs
    have h1 := ginv_step h hpc (hvs v List.mem_cons_self).1 (hvs v List.mem_cons_self).2
    have := ih (merge g v) (done ++ [v]) h1 (fun v' hv' => hvs v' (List.mem_cons_of_mem _ hv'))
    simpa [List.append_assoc] using this

theorem merge_nil (v : MGraph) : merge [] v = merge [MNode.root] v := rfl

/-- `mergeAll` of at least one variant, with the hypotheses probed by `variantOk` /
`pathsConsistent`, satisfies the invariant -/
theorem ginv_mergeAll {vs : List MGraph} (hne : vs ≠ []) (hok : ∀ v, v ∈ vs → variantOk v = true)
    (hpc : pathsConsistent vs = true) : GInv (vs.flatMap id) (mergeAll vs) vs := by
  have hpc' := pathsConsistent_spec hpc
  cases vs with
  | nil => exact absurd rfl hne
  | cons v vs =>
    have := ginv_foldl hpc' (v :: vs) [MNode.root] [] (ginv_init _) (by
      intro v' hv'
      refine ⟨variantOk_spec (hok v' hv'), ?_⟩
      intro n hn
      exact List.mem_flatMap.2 ⟨v', hv', hn⟩)
    simpa [mergeAll, merge_nil] using this

end Verif.C17
