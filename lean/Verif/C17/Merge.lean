/-
C17 — model of the graph-level merge over package variants,
`(*SerializedGraph).Merge` of /repo/unused/serialize.go (used by internal/cmd/unused, which
loads every package with `Tests: true` and merges the graphs of all variants, and by whoever
merges serialized graphs).

  Node{id, obj{Path, Position}, uses, owns}      → `MNode` (id = index in the list)
  g.nodesByPath / g.nodesByPosition              → `byPath` / `byPos`
  first pass (remapping, new nodes, root edge)   → `pass1`
  second pass (rewrite ids, append edge lists)   → `pass2`
  Merge                                          → `merge`;  a sequence of calls → `mergeAll`

Identity of an object is abstracted to two numbers: `path` (0 = `ObjectPath{}`, no path) and
`pos` (0 = a position without column information, `Position.Column == 0`; every such
position behaves alike: it is never registered in and never matched against
`nodesByPosition`).  Two objects have the same `pos` number iff their `token.Position`s are
equal, the same `path` number iff their `ObjectPath`s are equal (the harness interns them).

The two Go maps are written only when a node is CREATED, and a node is created only when both
lookups failed; so a key is never overwritten and `nodesByPath[p]` / `nodesByPosition[q]` is
the index of the unique created node carrying that key — `List.findIdx?` on the node list.

Go panics (a) when a non-root node has neither a path nor a column (`identOk`), (b) with an
index out of range when an edge points outside the input (`inRange`).

Core Lean only (compiled into `c17driver`).
-/
import Verif.C07.Graph
namespace Verif.C17
open Verif.C07

structure MNode where
  path : Nat
  pos : Nat
  uses : List Nat
  owns : List Nat
  deriving Repr, DecidableEq, Inhabited

/-- `Node{}`: the root -/
def MNode.root : MNode := ⟨0, 0, [], []⟩

/-- a serialized graph / the `[]Node` of one package variant: node `i` has id `i`, node 0 is the root -/
abbrev MGraph := List MNode

def pathAt (g : MGraph) (i : Nat) : Nat := (g.getD i MNode.root).path
def posAt (g : MGraph) (i : Nat) : Nat := (g.getD i MNode.root).pos
def usesAt (g : MGraph) (i : Nat) : List Nat := (g.getD i MNode.root).uses
def ownsAt (g : MGraph) (i : Nat) : List Nat := (g.getD i MNode.root).owns

/-- `g.nodesByPath[p]` (the empty path is never registered) -/
def byPath (g : MGraph) (p : Nat) : Option Nat :=
  if p = 0 then none else g.findIdx? (fun m => m.path == p)

/-- `g.nodesByPosition[q]`, `ok && Column != 0` -/
def byPos (g : MGraph) (q : Nat) : Option Nat :=
  if q = 0 then none else g.findIdx? (fun m => m.pos == q)

/-- `if orig, ok := g.nodesByPath[n.obj.Path]; ok {…} else if orig, ok := g.nodesByPosition[n.obj.Position]; ok && Column != 0 {…}` -/
def lookup (g : MGraph) (n : MNode) : Option Nat :=
  match byPath g n.path with
  | some i => some i
  | none => byPos g n.pos

/-- the `else` branch of the first pass: append a node with empty edge lists; the root of the
merged graph uses the root of every merged subgraph -/
def addNew (g : MGraph) (n : MNode) (isRoot : Bool) : MGraph :=
  let g1 := g ++ [⟨n.path, n.pos, [], []⟩]
  if isRoot then g1.modify 0 (fun r => { r with uses := r.uses ++ [g.length] }) else g1

/-- first pass over the remaining input nodes; `rm` is `remapping[0 .. rm.length)`, so the
node being looked at has `id = rm.length` -/
def pass1 : List MNode → MGraph → List Nat → MGraph × List Nat
  | [], g, rm => (g, rm)
  | n :: rest, g, rm =>
    match lookup g n with
    | some orig => pass1 rest g (rm ++ [orig])
    | none => pass1 rest (addNew g n (rm.length == 0)) (rm ++ [g.length])

def remapL (rm : List Nat) (xs : List Nat) : List Nat := xs.map (fun x => rm.getD x 0)

/-- second pass over the remaining input nodes, `i` = id of the node being looked at -/
def pass2 : List MNode → Nat → List Nat → MGraph → MGraph
  | [], _, _, g => g
  | n :: rest, i, rm, g =>
    pass2 rest (i + 1) rm
      (g.modify (rm.getD i 0) (fun nd =>
        { nd with uses := nd.uses ++ remapL rm n.uses, owns := nd.owns ++ remapL rm n.owns }))

/-- `(*SerializedGraph).Merge(nodes)` -/
def merge (g : MGraph) (v : MGraph) : MGraph :=
  let g0 := if g.isEmpty then [MNode.root] else g
  let r := pass1 v g0 []
  pass2 v 0 r.2 r.1

/-- `var sg SerializedGraph; for v in vs { sg.Merge(v) }` -/
def mergeAll (vs : List MGraph) : MGraph := vs.foldl merge []

/-- the use/own graph of a serialized graph (what `Results()` colours) -/
def MGraph.graph (g : MGraph) : Graph := ⟨g.map (fun n => ⟨n.uses, n.owns⟩)⟩

/-- no panic (a): every non-root node has a path or a column -/
def identOk (v : MGraph) : Bool :=
  (v.drop 1).all (fun n => n.path != 0 || n.pos != 0)

/-- no panic (b): all edges stay inside the input, and there is a root -/
def inRange (v : MGraph) : Bool :=
  decide (0 < v.length) &&
  v.all (fun n => n.uses.all (fun b => decide (b < v.length)) && n.owns.all (fun b => decide (b < v.length)))

/-- What the harness can say about the variants of a package analysed from source
(hypotheses of the identity-level theorems, probed on every real input):
the root carries no identity, every other node has full position information, edges are in
range. -/
def variantOk (v : MGraph) : Bool :=
  inRange v && pathAt v 0 == 0 && posAt v 0 == 0 && (v.drop 1).all (fun n => n.pos != 0)

/-- an `ObjectPath` names one object, and an object has one position: equal paths imply
equal positions, over all nodes of all variants -/
def pathsConsistent (vs : List MGraph) : Bool :=
  let all := vs.flatMap id
  all.all (fun n => n.path == 0 || all.all (fun m => m.path != n.path || m.pos == n.pos))

/-- The union of the use relations of all variants, read on positions: `k'` is used by `k`
when some node at position `k` of some variant uses a node at position `k'`.  The roots of
all variants sit at position 0. -/
def posUses (vs : List MGraph) (k : Nat) : List Nat :=
  vs.flatMap (fun v => (v.filter (fun n => n.pos == k)).flatMap (fun n => n.uses.map (posAt v)))

/-- one more than the largest position number -/
def posBound (vs : List MGraph) : Nat := (vs.flatMap id).foldl (fun m n => max m n.pos) 0 + 1

/-- executable: positions reachable from the roots in the union of the use relations
(the colouring `color` of unused.go run on that union) -/
def unionUsed (vs : List MGraph) : List Nat :=
  dfs (posUses vs) (posBound vs + 1) 0 []

/-- the variant of `lookup` that trusts a non-empty path ("if it has a path use the path,
else use the position") — NOT what the code does; kept for the negative example -/
def lookupPathOnly (g : MGraph) (n : MNode) : Option Nat :=
  if n.path ≠ 0 then byPath g n.path else byPos g n.pos

end Verif.C17
