/-
C17 — rule 6.5 of `graph.namedType` (`hasExportedField`, model in `Rule65.lean`): theorems.

  rule65_iff                the verdict of `hasExportedField` (visited set, early returns) is a
                            REACHABILITY fact of the struct table: true iff some struct with an
                            exported field is reachable from the embedded field's struct over
                            embedded fields without passing through the struct being declared
  rule65_field_order_invariant   hence independent of the order (and multiplicity) of fields
  rule65_calls_perm         and the `use` calls rule 6.5 emits for a list of declarations are, as a
                            set, independent of the order of the declarations (no state survives
                            a declaration)
  + negative example: with a per-graph memo next to the cycle-cutting `seen`
    (`hasExpM`) the verdict of `type r struct{q}` depends on whether `p` was declared first
-/
import Verif.C07.Lemmas
import Verif.C17.Rule65
namespace Verif.C17
open Verif.C07

/-- struct `t` has an exported field of its own -/
def dexp (T : STab) (t : Nat) : Prop := Fld.exp ∈ T.flds t

/-- a chain of embedded fields from `t` to `w` none of whose structs is in `S` -/
inductive RA (T : STab) (S : List Nat) : Nat → Nat → Prop
  | refl {t : Nat} : t ∉ S → RA T S t t
  | head {t u w : Nat} : t ∉ S → Fld.emb u ∈ T.flds t → RA T S u w → RA T S t w

theorem RA.mono {T : STab} {S S' : List Nat} (h : ∀ x, x ∈ S → x ∈ S') {t w : Nat} (r : RA T S' t w) : RA T S t w := by
  induction r with
  | refl hn => exact .refl (fun hx => hn (h _ hx))
  | head hn he _ ih => exact .head (fun hx => hn (h _ hx)) he ih

/-! ### soundness: `true` is witnessed by a chain -/

def SoundRec (T : STab) (rec : Nat → List Nat → Bool × List Nat) : Prop :=
  ∀ u S, (∀ x, x ∈ S → x ∈ (rec u S).2) ∧ ((rec u S).1 = true → ∃ w, RA T S u w ∧ dexp T w)

theorem goFields_sound {T : STab} {rec : Nat → List Nat → Bool × List Nat} (hrec : SoundRec T rec) :
    ∀ (fs : List Fld) (S : List Nat), (∀ x, x ∈ S → x ∈ (goFields rec fs S).2) ∧
      ((goFields rec fs S).1 = true → Fld.exp ∈ fs ∨ ∃ u, Fld.emb u ∈ fs ∧ ∃ w, RA T S u w ∧ dexp T w) := by
  intro fs
  induction fs with
  | nil => intro S; simp [goFields]
  | cons f fs ih =>
    intro S
    cases f with
    | exp => simp [goFields]
    | plain =>
      simp only [goFields]
      obtain ⟨h1, h2⟩ := ih S
      refine ⟨h1, fun ht => ?_⟩
      rcases h2 ht with h | ⟨u, hu, r⟩
      · exact .inl (List.mem_cons_of_mem _ h)
      · exact .inr ⟨u, List.mem_cons_of_mem _ hu, r⟩
    | emb u =>
      simp only [goFields]
      obtain ⟨r1, r2⟩ := hrec u S
      by_cases hr : (rec u S).1 = true
      · rw [if_pos hr]
        exact ⟨r1, fun _ => .inr ⟨u, List.mem_cons_self, r2 hr⟩⟩
      · rw [if_neg hr]
        obtain ⟨h1, h2⟩ := ih (rec u S).2
        refine ⟨fun x hx => h1 x (r1 x hx), fun ht => ?_⟩
        rcases h2 ht with h | ⟨u', hu', w, rw', hw⟩
        · exact .inl (List.mem_cons_of_mem _ h)
        · exact .inr ⟨u', List.mem_cons_of_mem _ hu', w, rw'.mono r1, hw⟩

theorem hasExp_sound (T : STab) : ∀ fuel, SoundRec T (hasExp T fuel) := by
  intro fuel
  induction fuel with
  | zero => intro u S; simp [hasExp]
  | succ fuel ih =>
    intro t S
    by_cases hmem : t ∈ S
    · simp [hasExp, hmem]
    · simp only [hasExp, if_neg hmem]
      obtain ⟨h1, h2⟩ := goFields_sound ih (T.flds t) (t :: S)
      refine ⟨fun x hx => h1 x (List.mem_cons_of_mem _ hx), fun ht => ?_⟩
      rcases h2 ht with h | ⟨u, hu, w, r, hw⟩
      · exact ⟨t, .refl hmem, h⟩
      · exact ⟨w, .head hmem hu (r.mono (fun x hx => List.mem_cons_of_mem _ hx)), hw⟩

/-! ### completeness: `false` leaves a closed set without exported fields -/

/-- every struct of `R` outside `S` has no exported field of its own and embeds only structs of `R` -/
def Closed (T : STab) (R S : List Nat) : Prop :=
  ∀ x, x ∈ R → x ∉ S → ¬ dexp T x ∧ ∀ u, Fld.emb u ∈ T.flds x → u ∈ R

def CompRec (T : STab) (k : Nat) (rec : Nat → List Nat → Bool × List Nat) : Prop :=
  ∀ u S, u < T.length → unseen T.length S < k → (rec u S).1 = false →
    u ∈ (rec u S).2 ∧ Closed T (rec u S).2 S

theorem goFields_complete {T : STab} {k : Nat} {rec : Nat → List Nat → Bool × List Nat}
    (hs : SoundRec T rec) (hc : CompRec T k rec) :
    ∀ (fs : List Fld) (S : List Nat), (∀ u, Fld.emb u ∈ fs → u < T.length) → unseen T.length S < k →
      (goFields rec fs S).1 = false →
      Fld.exp ∉ fs ∧ (∀ u, Fld.emb u ∈ fs → u ∈ (goFields rec fs S).2) ∧ Closed T (goFields rec fs S).2 S := by
  intro fs
  induction fs with
  | nil =>
    intro S _ _ _
    refine ⟨by simp, by simp, ?_⟩
    intro x hx hxS
    exact absurd hx hxS
  | cons f fs ih =>
    intro S hlt hk hf
    cases f with
    | exp => simp [goFields] at hf
    | plain =>
      simp only [goFields] at hf ⊢
      obtain ⟨a, b, c⟩ := ih S (fun u hu => hlt u (List.mem_cons_of_mem _ hu)) hk hf
      refine ⟨?_, ?_, c⟩
      · intro h
        rcases List.mem_cons.1 h with h | h
        · cases h
        · exact a h
      · intro u hu
        rcases List.mem_cons.1 hu with h | h
        · cases h
        · exact b u h
    | emb u =>
      simp only [goFields] at hf ⊢
      by_cases hr : (rec u S).1 = true
      · rw [if_pos hr] at hf; rw [hr] at hf; cases hf
      · rw [if_neg hr] at hf ⊢
        have hr' : (rec u S).1 = false := by simpa using hr
        obtain ⟨r1, _⟩ := hs u S
        obtain ⟨c1, c2⟩ := hc u S (hlt u List.mem_cons_self) hk hr'
        have hk2 : unseen T.length (rec u S).2 < k := Nat.lt_of_le_of_lt (unseen_mono _ r1) hk
        obtain ⟨a, b, c⟩ := ih (rec u S).2 (fun u' hu' => hlt u' (List.mem_cons_of_mem _ hu')) hk2 hf
        obtain ⟨g1, _⟩ := goFields_sound hs fs (rec u S).2
        refine ⟨?_, ?_, ?_⟩
        · intro h
          rcases List.mem_cons.1 h with h | h
          · cases h
          · exact a h
        · intro u' hu'
          rcases List.mem_cons.1 hu' with h | h
          · cases h; exact g1 _ c1
          · exact b u' h
        · intro x hx hxS
          by_cases hx2 : x ∈ (rec u S).2
          · obtain ⟨d1, d2⟩ := c2 x hx2 hxS
            exact ⟨d1, fun u' hu' => g1 _ (d2 u' hu')⟩
          · exact c x hx hx2

theorem STab.wf_spec {T : STab} (h : T.wf = true) : ∀ t u, Fld.emb u ∈ T.flds t → u < T.length := by
  intro t u hu
  unfold STab.wf at h
  simp only [List.all_eq_true] at h
  unfold STab.flds at hu
  by_cases ht : t < T.length
  · have hm : T.getD t [] ∈ T := by
      rw [List.getD_eq_getElem?_getD, List.getElem?_eq_getElem ht]; simp
    have := h _ hm _ hu
    simpa using this
  · rw [List.getD_eq_getElem?_getD, List.getElem?_eq_none (Nat.le_of_not_gt ht)] at hu
    simp at hu

theorem hasExp_complete {T : STab} (hwf : T.wf = true) : ∀ fuel, CompRec T fuel (hasExp T fuel) := by
  intro fuel
  induction fuel with
  | zero => intro u S _ hk; omega
  | succ fuel ih =>
    intro t S ht hk hf
    by_cases hmem : t ∈ S
    · simp only [hasExp, if_pos hmem]
      exact ⟨hmem, fun x hx hxS => absurd hx hxS⟩
    · simp only [hasExp, if_neg hmem] at hf ⊢
      have hlt := unseen_cons_lt T.length ht hmem
      obtain ⟨a, b, c⟩ := goFields_complete (hasExp_sound T fuel) ih (T.flds t) (t :: S)
        (fun u hu => STab.wf_spec hwf t u hu) (by omega) hf
      obtain ⟨g1, _⟩ := goFields_sound (hasExp_sound T fuel) (T.flds t) (t :: S)
      refine ⟨g1 t List.mem_cons_self, ?_⟩
      intro x hx hxS
      by_cases hxt : x = t
      · subst hxt
        exact ⟨a, b⟩
      · exact c x hx (by simp [hxt, hxS])

/-! ### property theorems -/

/-- **Rule 6.5 is a reachability fact.**  `hasExportedField` — a DFS with a visited set that is
pre-seeded with the struct being declared, with early returns — answers `true` exactly when a
struct with an exported field of its own can be reached from the embedded field's struct `u`
along embedded fields without touching the struct `st` being declared.  The right-hand side
mentions neither the order of the fields, nor the order in which structs are visited, nor any
earlier declaration. -/
theorem rule65_iff {T : STab} (hwf : T.wf = true) (st u : Nat) (hu : u < T.length) :
    rule65 T st u = true ↔ ∃ w, RA T [st] u w ∧ dexp T w := by
  unfold rule65
  constructor
  · exact ((hasExp_sound T _) u [st]).2
  · rintro ⟨w, r, hw⟩
    cases hres : (hasExp T (T.length + 1) u [st]).1 with
    | true => rfl
    | false =>
      exfalso
      obtain ⟨hin, hcl⟩ := hasExp_complete hwf (T.length + 1) u [st] hu
        (Nat.lt_succ_of_le (unseen_le _ _)) hres
      have walk : ∀ {a b : Nat}, RA T [st] a b → a ∈ (hasExp T (T.length + 1) u [st]).2 →
          b ∈ (hasExp T (T.length + 1) u [st]).2 ∧ b ∉ [st] := by
        intro a b r
        induction r with
        | refl hn => intro ha; exact ⟨ha, hn⟩
        | head hn he _ ih => intro ha; exact ih ((hcl _ ha hn).2 _ he)
      obtain ⟨hwR, hwS⟩ := walk r hin
      exact (hcl w hwR hwS).1 hw

theorem RA.congr {T T' : STab} (h : ∀ t f, f ∈ T.flds t → f ∈ T'.flds t) {S : List Nat} {a b : Nat}
    (r : RA T S a b) : RA T' S a b := by
  induction r with
  | refl hn => exact .refl hn
  | head hn he _ ih => exact .head hn (h _ _ he) ih

/-- **Field order does not matter**: two struct tables that give every struct the same SET of
fields (any order, any multiplicity) get the same rule-6.5 verdict for every declaration and
every embedded field. -/
theorem rule65_field_order_invariant {T T' : STab} (hwf : T.wf = true) (hwf' : T'.wf = true)
    (hlen : T'.length = T.length) (hset : ∀ t f, f ∈ T.flds t ↔ f ∈ T'.flds t) (st u : Nat) (hu : u < T.length) :
    rule65 T' st u = rule65 T st u := by
  have e : rule65 T' st u = true ↔ rule65 T st u = true := by
    rw [rule65_iff hwf st u hu, rule65_iff hwf' st u (by omega)]
    constructor
    · rintro ⟨w, r, hw⟩; exact ⟨w, r.congr (fun t f => (hset t f).2), (hset w _).2 hw⟩
    · rintro ⟨w, r, hw⟩; exact ⟨w, r.congr (fun t f => (hset t f).1), (hset w _).1 hw⟩
  cases h1 : rule65 T' st u <;> cases h2 : rule65 T st u <;> simp_all

/-- **Declaration order does not matter**: the (declaring struct, embedded struct, used?)
triples rule 6.5 produces for a list of declarations are the same multiset for every order
of the declarations — each triple is computed from the struct table alone. -/
theorem rule65_calls_perm (T : STab) {ds ds' : List Nat} (hp : ds.Perm ds') :
    (rule65Run T ds).Perm (rule65Run T ds') := by
  unfold rule65Run
  exact hp.flatMap_right _

/-- every triple carries the reachability verdict, whatever the order -/
theorem rule65Run_spec {T : STab} (hwf : T.wf = true) (ds : List Nat) (st u : Nat) (b : Bool)
    (h : (st, u, b) ∈ rule65Run T ds) : (b = true ↔ ∃ w, RA T [st] u w ∧ dexp T w) := by
  unfold rule65Run at h
  simp only [List.mem_flatMap, List.mem_filterMap] at h
  obtain ⟨st', _, f, hf, hm⟩ := h
  cases f with
  | exp => cases hm
  | plain => cases hm
  | emb u' =>
    simp only [Option.some.injEq, Prod.mk.injEq] at hm
    obtain ⟨rfl, rfl, rfl⟩ := hm
    exact rule65_iff hwf _ _ (STab.wf_spec hwf _ _ hf)

/-! ### non-vacuity, and the negative example -/

/-- `type p struct{*q; X int}` (0), `type q struct{*p}` (1), `type r struct{q}` (2),
`type s struct{r}` (3), plus an acyclic chain `type a struct{b}` (4), `type b struct{c}` (5),
`type c struct{Y int; z int}` (6) and a 3-cycle without exported field 7 → 8 → 9 → 7 -/
def tabEx : STab :=
  [[.emb 1, .exp], [.emb 0], [.emb 1], [.emb 2], [.emb 5], [.emb 6], [.exp, .plain], [.emb 8], [.emb 9], [.emb 7, .plain]]

example : tabEx.wf = true := by decide
-- p's field *q is not used by rule 6.5 (q reaches an exported field only through p itself) …
example : rule65 tabEx 0 1 = false := by decide
-- … but r's field q is (q → p → X), and so are q's field *p, s's field r, a's field b
example : [rule65 tabEx 1 0, rule65 tabEx 2 1, rule65 tabEx 3 2, rule65 tabEx 4 5] = [true, true, true, true] := by decide
example : [rule65 tabEx 7 8, rule65 tabEx 8 9, rule65 tabEx 9 7] = [false, false, false] := by decide
example : ∃ w, RA tabEx [2] 1 w ∧ dexp tabEx w :=
  (rule65_iff (by decide) 2 1 (by decide)).1 (by decide)
example : rule65Run tabEx [0, 1, 2, 3] = [(0, 1, false), (1, 0, true), (2, 1, true), (3, 2, true)] := by decide
example : rule65Run tabEx [2, 3, 0, 1] = [(2, 1, true), (3, 2, true), (0, 1, false), (1, 0, true)] := by decide
-- fields in another order
example : rule65 [[.exp, .emb 1], [.emb 0], [.emb 1], [.emb 2]] 2 1 = rule65 [[.emb 1, .exp], [.emb 0], [.emb 1], [.emb 2]] 2 1 := by decide

/-- NEGATIVE: with a per-graph memo the `false` computed for `q` while the cycle was cut at `p`
is reused for `type r struct{q}` when `p` is declared before `r` — the verdict of `r`'s field
(and of `s`'s) depends on the order of the declarations -/
example : rule65MemoRun tabEx [0, 1, 2, 3] = [(0, 1, false), (1, 0, true), (2, 1, false), (3, 2, false)] := by decide
example : rule65MemoRun tabEx [2, 3, 0, 1] = [(2, 1, true), (3, 2, true), (0, 1, true), (1, 0, true)] := by decide

end Verif.C17
