/-
C17 — the graph-level merge over package variants (`SerializedGraph.Merge`, model in
`Merge.lean`): theorems.

Hypotheses about the world (executable, probed by the check on every real input):
  `variantOk v`        the `[]Node` of a variant analysed from source: the root carries no
                       identity, every other node has a full position (column ≠ 0), edges in range
  `pathsConsistent vs` equal object paths imply equal positions (over all variants)

  gmerge_pos_unique       the merged graph has ONE node per position
  gmerge_used_iff         merge-then-colour = colouring of the union of the use relations read
                          on positions: a node is Used ⇔ its position is reachable from the roots
  gmerge_usedAt_iff       … stated for positions
  unionUsed_iff           the executable `unionUsed` computes that reachability
  gmerge_set_invariant    Used positions depend only on the SET of merged variants: the merge is
                          commutative, associative and idempotent up to node identity
  gmerge_perm_invariant / gmerge_idempotent   (special cases, for the record)
  gmerge_used_of_variant_used        an object Used in some variant is Used in the merge
  gmerge_reported_only_if_unused_everywhere   a node of the merge that is not Used (reported or
                          quiet) sits at a position that is Used in NO variant
  + negative example: with "if it has a path use the path, else the position" the last two fail
-/
import Verif.C17.MergeLemmas
namespace Verif.C17
open Verif.C07 Verif.C07.Graph

/-! ### the graph of a serialized graph -/

theorem mgraph_usesOf (g : MGraph) (i : Nat) : g.graph.usesOf i = usesAt g i := by
  unfold MGraph.graph Graph.usesOf usesAt
  simp only [List.getD_eq_getElem?_getD, List.getElem?_map]
  cases g[i]? <;> rfl

theorem mgraph_ownsOf (g : MGraph) (i : Nat) : g.graph.ownsOf i = ownsAt g i := by
  unfold MGraph.graph Graph.ownsOf ownsAt
  simp only [List.getD_eq_getElem?_getD, List.getElem?_map]
  cases g[i]? <;> rfl

theorem mgraph_N (g : MGraph) : g.graph.N = g.length := by simp [MGraph.graph, Graph.N]

theorem mgraph_usesOf_fun (g : MGraph) : g.graph.usesOf = usesAt g := funext (mgraph_usesOf g)

theorem mgraph_wf {g : MGraph} (hl : 0 < g.length) (hu : ∀ i j, j ∈ usesAt g i → j < g.length)
    (ho : ∀ i j, j ∈ ownsAt g i → j < g.length) : g.graph.wf = true := by
  unfold Graph.wf
  simp only [Bool.and_eq_true, decide_eq_true_eq, List.all_eq_true, mgraph_N]
  refine ⟨hl, ?_⟩
  intro nd hnd
  unfold MGraph.graph at hnd
  simp only [List.mem_map] at hnd
  obtain ⟨m, hm, rfl⟩ := hnd
  obtain ⟨i, hi, rfl⟩ := mem_getD hm
  exact ⟨fun b hb => hu i b hb, fun b hb => ho i b hb⟩

theorem VOk.wf {v : MGraph} (h : VOk v) : v.graph.wf = true := by
  obtain ⟨r0, rest, rfl, _⟩ := h.shape
  exact mgraph_wf (by simp) h.usesLt h.ownsLt

/-- in a variant analysed from source only the root sits at position 0 -/
theorem VOk.pos_zero {v : MGraph} (h : VOk v) {a : Nat} (ha : a < v.length) (hz : posAt v a = 0) : a = 0 := by
  obtain ⟨r0, rest, rfl, _, _, hrest⟩ := h.shape
  cases a with
  | zero => rfl
  | succ a =>
    exfalso
    have hm : (r0 :: rest).getD (a + 1) MNode.root ∈ rest := by
      have : a < rest.length := by simpa using ha
      simp only [List.getD_cons_succ]
      exact getD_lt_mem this
    exact hrest _ hm hz

theorem VOk.pos_root {v : MGraph} (h : VOk v) : posAt v 0 = 0 := by
  obtain ⟨r0, rest, rfl, _, hq, _⟩ := h.shape
  simpa [posAt] using hq

/-! ### the union of the use relations, on positions -/

theorem mem_posUses (vs : List MGraph) (k k' : Nat) :
    k' ∈ posUses vs k ↔ ∃ v, v ∈ vs ∧ ∃ a, a < v.length ∧ posAt v a = k ∧ ∃ b, b ∈ usesAt v a ∧ posAt v b = k' := by
  unfold posUses
  simp only [List.mem_flatMap, List.mem_filter, List.mem_map, beq_iff_eq]
  constructor
  · rintro ⟨v, hv, n, ⟨hn, hk⟩, b, hb, rfl⟩
    obtain ⟨a, ha, rfl⟩ := mem_getD hn
    exact ⟨v, hv, a, ha, hk, b, hb, rfl⟩
  · rintro ⟨v, hv, a, ha, hk, b, hb, rfl⟩
    exact ⟨v, hv, v.getD a MNode.root, ⟨getD_lt_mem ha, hk⟩, b, hb, rfl⟩

/-- a use path inside one variant is a path of the union -/
theorem reach_variant_to_pos {vs : List MGraph} {v : MGraph} (hv : v ∈ vs) (hok : VOk v) {a : Nat}
    (r : Reach (usesAt v) 0 a) : Reach (posUses vs) 0 (posAt v a) := by
  induction r with
  | refl => rw [hok.pos_root]; exact .refl 0
  | step _ hc ih =>
    exact .step ih ((mem_posUses vs _ _).2 ⟨v, hv, _, usesAt_lt hc, rfl, _, hc, rfl⟩)

/-- forward: a use path of the merged graph is a path of the union -/
theorem ginv_reach_fwd {all : List MNode} {g : MGraph} {vs : List MGraph} (hi : GInv all g vs) {i : Nat}
    (r : Reach (usesAt g) 0 i) : Reach (posUses vs) 0 (posAt g i) := by
  induction r with
  | refl => rw [hi.pos0]; exact .refl 0
  | step _ hc ih =>
    rcases hi.e1 _ _ hc with ⟨h1, h2⟩ | ⟨v, hv, a, b, ha, hb, e1, e2⟩
    · rw [h2]; rw [h1] at ih; exact ih
    · exact .step ih ((mem_posUses vs _ _).2 ⟨v, hv, a, ha, e1, b, hb, e2⟩)

/-- backward: a path of the union lifts to the merged graph -/
theorem ginv_reach_bwd {all : List MNode} {g : MGraph} {vs : List MGraph} (hi : GInv all g vs)
    (hok : ∀ v, v ∈ vs → VOk v) {k : Nat} (r : Reach (posUses vs) 0 k) :
    k ≠ 0 → (∃ i, i < g.length ∧ posAt g i = k) ∧ ∀ i, i < g.length → posAt g i = k → Reach (usesAt g) 0 i := by
  induction r with
  | refl => intro h; exact absurd rfl h
  | @step k1 k2 _ hc ih =>
    intro hk
    obtain ⟨v, hv, a, ha, e1, b, hb, e2⟩ := (mem_posUses vs _ _).1 hc
    obtain ⟨rm, h1, h2, h3⟩ := hi.e2 v hv
    have hbl := (hok v hv).usesLt a b hb
    have hra : Reach (usesAt g) 0 (rm.getD a 0) := by
      by_cases hk1 : k1 = 0
      · have ha0 : a = 0 := (hok v hv).pos_zero ha (by rw [e1, hk1])
        subst ha0
        exact .step (.refl 0) h3
      · exact (ih hk1).2 _ (h1 a ha).1 (by rw [(h1 a ha).2, e1])
    have hrb : Reach (usesAt g) 0 (rm.getD b 0) := .step hra (h2 a b ha hb)
    have hpb : posAt g (rm.getD b 0) = k2 := by rw [(h1 b hbl).2, e2]
    refine ⟨⟨_, (h1 b hbl).1, hpb⟩, ?_⟩
    intro i hil hpi
    have : i = rm.getD b 0 := hi.posU i _ hil (h1 b hbl).1 (by rw [hpi, hpb]) (by rw [hpi]; exact hk)
    rw [this]; exact hrb

/-! ### property theorems -/

/-- `UsedAt g k`: some node of `g` at position `k` is in `Results().Used` -/
def UsedAt (g : MGraph) (k : Nat) : Prop := ∃ i, i < g.length ∧ posAt g i = k ∧ i ∈ g.graph.results.used

theorem ginv_wf {all : List MNode} {g : MGraph} {vs : List MGraph} (hi : GInv all g vs) : g.graph.wf = true :=
  mgraph_wf hi.len hi.wfU hi.wfO

/-- **One node per position**: in the merge of variants analysed from source, two nodes with
the same (full) position are the same node. -/
theorem gmerge_pos_unique {vs : List MGraph} (hne : vs ≠ []) (hok : ∀ v, v ∈ vs → variantOk v = true)
    (hpc : pathsConsistent vs = true) (i j : Nat) (hi : i < (mergeAll vs).length) (hj : j < (mergeAll vs).length)
    (he : posAt (mergeAll vs) i = posAt (mergeAll vs) j) (h0 : posAt (mergeAll vs) i ≠ 0) : i = j :=
  (ginv_mergeAll hne hok hpc).posU i j hi hj he h0

/-- **Merge-then-colour = colouring of the union of the use relations.**  A node of the
merged graph (other than the roots) is Used iff its position is reachable from position 0
(the roots) in the union, over all variants, of the use relations read on positions. -/
theorem gmerge_used_iff {vs : List MGraph} (hne : vs ≠ []) (hok : ∀ v, v ∈ vs → variantOk v = true)
    (hpc : pathsConsistent vs = true) (i : Nat) (hi : i < (mergeAll vs).length) (hp : posAt (mergeAll vs) i ≠ 0) :
    i ∈ (mergeAll vs).graph.results.used ↔ Reach (posUses vs) 0 (posAt (mergeAll vs) i) := by
  have inv := ginv_mergeAll hne hok hpc
  have hok' : ∀ v, v ∈ vs → VOk v := fun v hv => variantOk_spec (hok v hv)
  rw [used_iff_reachable (ginv_wf inv), mgraph_usesOf_fun]
  constructor
  · rintro ⟨_, r⟩; exact ginv_reach_fwd inv r
  · intro r
    refine ⟨?_, (ginv_reach_bwd inv hok' r hp).2 i hi rfl⟩
    intro h0; subst h0; exact hp inv.pos0

/-- the same for positions: position `k` is Used in the merge iff it is reachable in the union -/
theorem gmerge_usedAt_iff {vs : List MGraph} (hne : vs ≠ []) (hok : ∀ v, v ∈ vs → variantOk v = true)
    (hpc : pathsConsistent vs = true) (k : Nat) (hk : k ≠ 0) :
    UsedAt (mergeAll vs) k ↔ Reach (posUses vs) 0 k := by
  have inv := ginv_mergeAll hne hok hpc
  have hok' : ∀ v, v ∈ vs → VOk v := fun v hv => variantOk_spec (hok v hv)
  constructor
  · rintro ⟨i, hi, rfl, hu⟩
    exact (gmerge_used_iff hne hok hpc i hi hk).1 hu
  · intro r
    obtain ⟨⟨i, hi, hpi⟩, _⟩ := ginv_reach_bwd inv hok' r hk
    exact ⟨i, hi, hpi, (gmerge_used_iff hne hok hpc i hi (by rw [hpi]; exact hk)).2 (by rw [hpi]; exact r)⟩

theorem posUses_mono {vs vs' : List MGraph} (h : ∀ v, v ∈ vs → v ∈ vs') {k : Nat}
    (r : Reach (posUses vs) 0 k) : Reach (posUses vs') 0 k :=
  Reach.mono (fun a b hb => by
    obtain ⟨v, hv, rest⟩ := (mem_posUses vs a b).1 hb
    exact (mem_posUses vs' a b).2 ⟨v, h v hv, rest⟩) r

/-- **Commutative, associative, idempotent up to node identity**: which positions are Used
in the merged graph depends only on the SET of variants merged — not on their order, not on
how often a variant is merged, not on how the calls are grouped. -/
theorem gmerge_set_invariant {vs vs' : List MGraph} (hne : vs ≠ []) (hne' : vs' ≠ [])
    (hok : ∀ v, v ∈ vs → variantOk v = true) (hok' : ∀ v, v ∈ vs' → variantOk v = true)
    (hpc : pathsConsistent vs = true) (hpc' : pathsConsistent vs' = true)
    (hset : ∀ v, v ∈ vs ↔ v ∈ vs') (k : Nat) (hk : k ≠ 0) :
    UsedAt (mergeAll vs) k ↔ UsedAt (mergeAll vs') k := by
  rw [gmerge_usedAt_iff hne hok hpc k hk, gmerge_usedAt_iff hne' hok' hpc' k hk]
  exact ⟨posUses_mono (fun v => (hset v).1), posUses_mono (fun v => (hset v).2)⟩

theorem pathsConsistent_of_subset {vs vs' : List MGraph} (h : ∀ v, v ∈ vs' → v ∈ vs)
    (hpc : pathsConsistent vs = true) : pathsConsistent vs' = true := by
  unfold pathsConsistent at hpc ⊢
  simp only [List.all_eq_true, Bool.or_eq_true, beq_iff_eq, bne_iff_ne, ne_eq, List.mem_flatMap, id] at hpc ⊢
  intro n ⟨v, hv, hn⟩
  rcases hpc n ⟨v, h v hv, hn⟩ with h0 | h1
  · exact .inl h0
  · exact .inr (fun m ⟨w, hw, hm⟩ => h1 m ⟨w, h w hw, hm⟩)

/-- merge order does not matter -/
theorem gmerge_perm_invariant {vs vs' : List MGraph} (hp : vs.Perm vs') (hne : vs ≠ [])
    (hok : ∀ v, v ∈ vs → variantOk v = true) (hpc : pathsConsistent vs = true) (k : Nat) (hk : k ≠ 0) :
    UsedAt (mergeAll vs) k ↔ UsedAt (mergeAll vs') k := by
  have hne' : vs' ≠ [] := fun h => hne (by rw [h] at hp; exact hp.eq_nil)
  exact gmerge_set_invariant hne hne' hok (fun v hv => hok v (hp.mem_iff.2 hv)) hpc
    (pathsConsistent_of_subset (fun v hv => hp.mem_iff.2 hv) hpc) (fun v => hp.mem_iff) k hk

/-- merging every variant a second time changes no verdict -/
theorem gmerge_idempotent {vs : List MGraph} (hne : vs ≠ [])
    (hok : ∀ v, v ∈ vs → variantOk v = true) (hpc : pathsConsistent vs = true) (k : Nat) (hk : k ≠ 0) :
    UsedAt (mergeAll (vs ++ vs)) k ↔ UsedAt (mergeAll vs) k := by
  have hsub : ∀ v, v ∈ vs ++ vs → v ∈ vs := fun v hv => by simpa using hv
  exact gmerge_set_invariant (by simpa using hne) hne (fun v hv => hok v (hsub v hv)) hok
    (pathsConsistent_of_subset hsub hpc) hpc (fun v => by simp) k hk

/-- **An object used in any variant is used in the merge**: if node `a` of variant `v` is in
`Results().Used` of `v` analysed alone, then every node of the merged graph at `a`'s
position is in `Results().Used` of the merge (and there is such a node). -/
theorem gmerge_used_of_variant_used {vs : List MGraph} (hne : vs ≠ []) (hok : ∀ v, v ∈ vs → variantOk v = true)
    (hpc : pathsConsistent vs = true) {v : MGraph} (hv : v ∈ vs) {a : Nat} (ha : a ∈ v.graph.results.used) :
    UsedAt (mergeAll vs) (posAt v a) ∧
    ∀ i, i < (mergeAll vs).length → posAt (mergeAll vs) i = posAt v a → i ∈ (mergeAll vs).graph.results.used := by
  have hvo := variantOk_spec (hok v hv)
  obtain ⟨ha0, hr⟩ := (used_iff_reachable hvo.wf a).1 ha
  rw [mgraph_usesOf_fun] at hr
  have hal : a < v.length := by
    have := reach_lt hvo.wf (wf_pos hvo.wf) (by rw [mgraph_usesOf_fun]; exact hr)
    rwa [mgraph_N] at this
  have hk : posAt v a ≠ 0 := fun hz => ha0 (hvo.pos_zero hal hz)
  have hreach := reach_variant_to_pos hv hvo hr
  refine ⟨(gmerge_usedAt_iff hne hok hpc _ hk).2 hreach, ?_⟩
  intro i hi hpi
  exact (gmerge_used_iff hne hok hpc i hi (by rw [hpi]; exact hk)).2 (by rw [hpi]; exact hreach)

/-- **Reported only if unused in every variant** (graph-level merge): a node of the merged
graph that `Results()` does not list as Used — so it is reported, or quiet — sits at a
position at which NO variant, analysed alone, has a Used node. -/
theorem gmerge_reported_only_if_unused_everywhere {vs : List MGraph} (hne : vs ≠ [])
    (hok : ∀ v, v ∈ vs → variantOk v = true) (hpc : pathsConsistent vs = true)
    (i : Nat) (hi : i < (mergeAll vs).length) (hnu : i ∉ (mergeAll vs).graph.results.used) :
    ∀ v, v ∈ vs → ∀ a, posAt v a = posAt (mergeAll vs) i → a ∉ v.graph.results.used := by
  intro v hv a hpa hau
  exact hnu ((gmerge_used_of_variant_used hne hok hpc hv hau).2 i hi hpa.symm)

/-! ### the executable union colouring -/

theorem foldl_max_le (l : List MNode) : ∀ (m : Nat), m ≤ l.foldl (fun m n => max m n.pos) m ∧
    ∀ n, n ∈ l → n.pos ≤ l.foldl (fun m n => max m n.pos) m := by
  induction l with
  | nil => intro m; exact ⟨Nat.le_refl _, fun n hn => by cases hn⟩
  | cons x l ih =>
    intro m
    simp only [List.foldl_cons]
    obtain ⟨h1, h2⟩ := ih (max m x.pos)
    refine ⟨Nat.le_trans (Nat.le_max_left _ _) h1, ?_⟩
    intro n hn
    rcases List.mem_cons.1 hn with rfl | hn
    · exact Nat.le_trans (Nat.le_max_right _ _) h1
    · exact h2 n hn

theorem posAt_lt_bound (vs : List MGraph) {v : MGraph} (hv : v ∈ vs) (a : Nat) : posAt v a < posBound vs := by
  unfold posBound
  by_cases ha : a < v.length
  · have := (foldl_max_le (vs.flatMap id) 0).2 _ (List.mem_flatMap.2 ⟨v, hv, getD_lt_mem ha⟩)
    simp only [id] at this
    unfold posAt; omega
  · unfold posAt; rw [getD_ge (Nat.le_of_not_gt ha)]; simp [MNode.root]

/-- the executable union colouring is exactly reachability in the union of the use relations -/
theorem unionUsed_iff (vs : List MGraph) (k : Nat) : k ∈ unionUsed vs ↔ Reach (posUses vs) 0 k := by
  have hadj : ∀ a b, b ∈ posUses vs a → b < posBound vs := by
    intro a b hb
    obtain ⟨v, hv, _, _, _, b', _, rfl⟩ := (mem_posUses vs a b).1 hb
    exact posAt_lt_bound vs hv b'
  have hpos : 0 < posBound vs := by unfold posBound; omega
  unfold unionUsed
  constructor
  · intro hk
    rcases dfs_sound _ _ _ _ _ hk with h | h
    · cases h
    · exact h
  · intro r
    have hs := dfs_markSpec (posUses vs) (posBound vs) hadj (posBound vs + 1) 0 [] hpos
      (Nat.lt_succ_of_le (unseen_le _ _))
    exact Reach.mem_of_closed (fun x hx y hy => hs.2.2 x hx (by simp) y hy) hs.2.1 r

/-! ### non-vacuity, and the negative example -/

/-- plain variant: `type transport struct{ addr; attempts }`, `Dial`, `neverUsed`;
`attempts` (path 21 = `transport.attempts`, position 11) is not used -/
def vPlainG : MGraph :=
  [⟨0, 0, [1], []⟩, ⟨1, 20, [2, 3], []⟩, ⟨0, 10, [], []⟩, ⟨22, 12, [], []⟩, ⟨21, 11, [], []⟩, ⟨0, 40, [], []⟩]
/-- test variant: adds `type fakeTransport transport` (position 30) and a helper (position 31)
that reads `attempts`; objectpath now routes the field through `fakeTransport`: path 23 -/
def vTestG : MGraph :=
  [⟨0, 0, [1, 6], []⟩, ⟨1, 20, [2, 3], []⟩, ⟨0, 10, [], []⟩, ⟨24, 12, [], []⟩, ⟨23, 11, [], []⟩, ⟨0, 40, [], []⟩,
   ⟨2, 31, [7, 4], []⟩, ⟨0, 30, [2], []⟩]

example : variantOk vPlainG = true ∧ variantOk vTestG = true := by decide
example : pathsConsistent [vPlainG, vTestG] = true := by decide
example : vPlainG.graph.results.unused = [4, 5] ∧ 4 ∈ vTestG.graph.results.used := by decide
-- merged in either order: `attempts` (position 11) has ONE node, and it is Used; only `neverUsed` (40) is reported
example : ((mergeAll [vPlainG, vTestG]).map (·.pos), (mergeAll [vPlainG, vTestG]).graph.results.unused)
    = ([0, 0, 20, 10, 12, 11, 40, 0, 31, 30], [6]) := by decide
example : ((mergeAll [vTestG, vPlainG]).map (·.pos), (mergeAll [vTestG, vPlainG]).graph.results.unused)
    = ([0, 0, 20, 10, 12, 11, 40, 31, 30, 0], [6]) := by decide
example : unionUsed [vPlainG, vTestG] = [11, 30, 31, 12, 10, 20, 0] := by decide
example : UsedAt (mergeAll [vPlainG, vTestG]) 11 :=
  (gmerge_usedAt_iff (by simp) (by decide) (by decide) 11 (by decide)).2
    ((unionUsed_iff _ 11).1 (by decide))

/-- `Merge` with the tidied lookup "if it has a path use the path, else use the position" -/
def pass1PO : List MNode → MGraph → List Nat → MGraph × List Nat
  | [], g, rm => (g, rm)
  | n :: rest, g, rm =>
    match lookupPathOnly g n with
    | some orig => pass1PO rest g (rm ++ [orig])
    | none => pass1PO rest (addNew g n (rm.length == 0)) (rm ++ [g.length])
def mergePO (g v : MGraph) : MGraph :=
  let g0 := if g.isEmpty then [MNode.root] else g
  let r := pass1PO v g0 []
  pass2 v 0 r.2 r.1

/-- NEGATIVE: with the tidied lookup the field at position 11 gets two nodes and the one from
the plain variant is reported although the test variant uses the field -/
example : (([vPlainG, vTestG].foldl mergePO []).map (·.pos), ([vPlainG, vTestG].foldl mergePO []).graph.results.unused)
    = ([0, 0, 20, 10, 12, 11, 40, 0, 12, 11, 31, 30], [5, 6]) := by decide

end Verif.C17
