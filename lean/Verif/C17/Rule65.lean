/-
C17 — model of rule 6.5 of `graph.namedType` (/repo/unused/unused.go): "structs use embedded
structs that have exported fields (recursively)", i.e. the closure `hasExportedField` with
its per-field `seen` set that is pre-seeded with the struct being declared.

  *types.Struct (identity = pointer)       → a number; `STab` lists the fields of every struct
  field.Exported()                         → `Fld.exp`
  field.Embedded(), type (after Dereference) has an underlying struct u → `Fld.emb u`
  any other unexported field (incl. embedded non-structs)               → `Fld.plain`
  hasExportedField(T) with the map `seen`  → `hasExp` (returns the result and the new `seen`)
  the `for field := range t.Fields()` loop with its early returns → `goFields`
  `seen := {TypeOf(st)}; hasExportedField(fieldVar.Type())`  → `rule65`

The verdict is a pure function of the struct table: there is no state that survives from
one declaration to the next.  `hasExpM` is the memoised variant (a per-graph cache next to
the cycle-cutting `seen`) — NOT what the code does; kept for the negative example.

Core Lean only (compiled into `c17driver`).
-/
namespace Verif.C17

inductive Fld
  | exp
  | plain
  | emb (t : Nat)
  deriving Repr, DecidableEq, Inhabited

/-- the fields of struct `t` are `T[t]` -/
abbrev STab := List (List Fld)

def STab.flds (T : STab) (t : Nat) : List Fld := T.getD t []

/-- `for field := range t.Fields() { if field.Exported() {return true}; if field.Embedded() && hasExportedField(field.Type()) {return true} }; return false` -/
def goFields (rec : Nat → List Nat → Bool × List Nat) : List Fld → List Nat → Bool × List Nat
  | [], S => (false, S)
  | .exp :: _, S => (true, S)
  | .plain :: fs, S => goFields rec fs S
  | .emb u :: fs, S =>
    let r := rec u S
    if r.1 then r else goFields rec fs r.2

/-- `hasExportedField`; `fuel` bounds the depth of the recursion (every nested call marks a
fresh struct, so depth ≤ number of structs) -/
def hasExp (T : STab) : Nat → Nat → List Nat → Bool × List Nat
  | 0, _, S => (false, S)
  | fuel + 1, t, S =>
    if t ∈ S then (false, S) else goFields (hasExp T fuel) (T.flds t) (t :: S)

/-- does the struct `st` being declared use its embedded field whose type has underlying struct `u` -/
def rule65 (T : STab) (st u : Nat) : Bool := (hasExp T (T.length + 1) u [st]).1

/-- every embedded target is a struct of the table -/
def STab.wf (T : STab) : Bool :=
  T.all (fun fs => fs.all (fun f => match f with | .emb u => decide (u < T.length) | _ => true))

/-! ### the memoised variant (negative example) -/

abbrev Memo := List (Nat × Bool)

def goFieldsM (rec : Nat → List Nat → Memo → Bool × List Nat × Memo) : List Fld → List Nat → Memo → Bool × List Nat × Memo
  | [], S, M => (false, S, M)
  | .exp :: _, S, M => (true, S, M)
  | .plain :: fs, S, M => goFieldsM rec fs S M
  | .emb u :: fs, S, M =>
    let r := rec u S M
    if r.1 then r else goFieldsM rec fs r.2.1 r.2.2

/-- `if seen[t] {return false}; if res, ok := memo[t]; ok {return res}; seen[t] = {}; res := loop; memo[t] = res; return res` -/
def hasExpM (T : STab) : Nat → Nat → List Nat → Memo → Bool × List Nat × Memo
  | 0, _, S, M => (false, S, M)
  | fuel + 1, t, S, M =>
    if t ∈ S then (false, S, M) else
    match M.lookup t with
    | some r => (r, S, M)
    | none =>
      let r := goFieldsM (hasExpM T fuel) (T.flds t) (t :: S) M
      (r.1, r.2.1, (t, r.1) :: r.2.2)

/-- the declarations `decls` processed in this order with one memo per graph: for every
declared struct and every embedded field, is the field used (rule 6.5) -/
def rule65MemoRun (T : STab) (decls : List Nat) : List (Nat × Nat × Bool) :=
  (decls.foldl (fun (acc : List (Nat × Nat × Bool) × Memo) st =>
    (T.flds st).foldl (fun acc f =>
      match f with
      | .emb u =>
        let r := hasExpM T (T.length + 1) u [st] acc.2
        (acc.1 ++ [(st, u, r.1)], r.2.2)
      | _ => acc) acc) ([], [])).1

/-- the same without memo (what the code does) -/
def rule65Run (T : STab) (decls : List Nat) : List (Nat × Nat × Bool) :=
  decls.flatMap (fun st => (T.flds st).filterMap (fun f =>
    match f with
    | .emb u => some (st, u, rule65 T st u)
    | _ => none))

end Verif.C17
