import Verif.C11.Package
import Verif.C11.Theorems
/-!
C11 — theorems about the per-package configuration lookup (for all directory trees) and
about what linter.lint reports for one package, directive problems included.
-/
namespace Verif.C11

/-! ## 1. Which configuration files apply to a package -/

/-- one configuration file applied to what is inherited from further out: a file that sets
`checks` replaces the list, `"inherit"` standing for the inherited list; otherwise nothing
changes. -/
def applyConf (inherited : Checks) : Level → Checks
  | .conf (some l) => some (splice (inherited.getD []) l)
  | _ => inherited

/-- the documented reading, top-down: start at the root with the default list and apply
the file of every directory on the way **down** to `d`. -/
def cfgAt (fs : ConfFS) (dflt : Checks) : Dir → Checks
  | [] => applyConf dflt (fs [])
  | c :: up => applyConf (cfgAt fs dflt up) (fs (c :: up))

theorem resolve_cons (dflt : Checks) (lv : Level) (up : List Level) :
    resolve dflt (lv :: up) = applyConf (resolve dflt up) lv := by
  cases lv with
  | absent => rfl
  | conf c => cases c <;> rfl

/-- **tree_config_is_fold.** For every file system, default list and directory: merging what
the walk of parseConfigs collects (innermost first, reversed, default prepended) equals
applying the files from the outermost directory inward. -/
theorem tree_config_is_fold (fs : ConfFS) (dflt : Checks) (d : Dir) :
    mergeConfigs (parseConfigs dflt (walkOf fs d)) = cfgAt fs dflt d := by
  rw [inherit_splice]
  induction d with
  | nil => simp [walkOf, walkDirs, cfgAt, resolve_cons, resolve]
  | cons c up ih =>
    have : walkOf fs (c :: up) = fs (c :: up) :: walkOf fs up := by simp [walkOf, walkDirs]
    rw [this, resolve_cons, ih, cfgAt]

example : cfgAt (fun d => if d = ["a".toList, "mod".toList] then .conf (some ["inherit".toList, "-S1".toList])
      else if d = ["mod".toList] then .conf (some ["SA*".toList]) else .absent)
    (some ["all".toList]) ["b".toList, "a".toList, "mod".toList] = some ["SA*".toList, "-S1".toList] := by
  decide

/-- the configuration directory's own effective list: the top-down fold followed by `-checks`. -/
def documentedEffective (fs : ConfFS) (dflt cmd : Checks) (files : List SrcFile) : Checks :=
  applyConf (match configDir files with
    | none => dflt
    | some d => cfgAt fs dflt d) (.conf cmd)

theorem merge_eq_applyConf (cfg cmd : Checks) : cfg.merge cmd = applyConf cfg (.conf cmd) := by
  cases cmd <;> simp [Checks.merge, applyConf, mergeLists_eq_splice]

/-- **package_selection.** For all trees of staticcheck.conf files, all packages (file lists),
default and command-line lists: check `k` is applied to the package iff the last entry naming
it in [the files from the outermost directory down to the package's directory, then
`-checks`] enables it. The directory is that of the package's first file outside the build
cache; a package without such a file gets the default list. -/
theorem package_selection (all : List Name) (fs : ConfFS) (dflt cmd : Checks) (files : List SrcFile)
    (k : Name) :
    packageAllowed all fs dflt cmd files k = true ↔
      lastMatch (all.map lower) (((documentedEffective fs dflt cmd files).getD []).map lower) (lower k)
        = some true := by
  unfold packageAllowed packageEffective packageConfig documentedEffective
  cases hd : configDir files with
  | none =>
    simp only
    rw [merge_eq_applyConf]
    unfold allowed
    rw [selection_spec]
  | some d =>
    simp only
    have h := effective_selection all dflt (walkOf fs d) cmd k
    unfold effective at h
    rw [h, resolve_cons, ← inherit_splice, tree_config_is_fold]

example : packageAllowed ["S1000".toList, "SA4000".toList]
    (fun d => if d = ["mod".toList] then .conf (some ["SA*".toList]) else .absent)
    (some ["all".toList]) (some ["inherit".toList]) [⟨[], true⟩, ⟨["a".toList, "mod".toList], false⟩]
    "S1000".toList = false
  ∧ packageAllowed ["S1000".toList, "SA4000".toList]
    (fun d => if d = ["mod".toList] then .conf (some ["SA*".toList]) else .absent)
    (some ["all".toList]) (some ["inherit".toList]) [⟨[], true⟩, ⟨["other".toList], false⟩]
    "S1000".toList = true := by decide

theorem mem_walkDirs (x d : Dir) : x ∈ walkDirs d ↔ x <:+ d := by
  induction d with
  | nil => simp [walkDirs]
  | cons c up ih =>
    simp only [walkDirs, List.mem_cons, ih, List.suffix_cons_iff]

/-- **conf_scope.** The configuration of a package depends on the file system only at the
package's directory and its ancestors (`x <:+ d`: `x` is `d` with inner components removed):
a staticcheck.conf anywhere else — a sibling, a child — has no influence. -/
theorem conf_scope (fs fs' : ConfFS) (dflt : Checks) (d : Dir)
    (h : ∀ x, x <:+ d → fs x = fs' x) : cfgAt fs dflt d = cfgAt fs' dflt d := by
  induction d with
  | nil => simp [cfgAt, h [] (List.suffix_refl _)]
  | cons c up ih =>
    simp only [cfgAt]
    rw [h (c :: up) (List.suffix_refl _), ih fun x hx => h x (hx.trans (List.suffix_cons c up))]

example : cfgAt (fun d => if d = ["sib".toList, "mod".toList] then .conf (some []) else .absent)
    (some ["all".toList]) ["a".toList, "mod".toList] = some ["all".toList] := by decide

theorem splice_no_inherit (p l : List Name) (hn : inheritTok ∉ l) : splice p l = l := by
  induction l with
  | nil => simp [splice]
  | cons x xs ih =>
    have hx : x ≠ inheritTok := fun e => hn (by simp [e])
    have hxs : inheritTok ∉ xs := fun e => hn (List.mem_cons_of_mem _ e)
    rw [splice_cons, ih hxs]
    simp [hx]

/-- **inner_conf_overrides.** A file in the package directory that sets `checks` without
`"inherit"` decides alone, whatever is further out. -/
theorem inner_conf_overrides (fs : ConfFS) (dflt : Checks) (c : Name) (up : Dir) (l : List Name)
    (hl : fs (c :: up) = .conf (some l)) (hn : inheritTok ∉ l) :
    cfgAt fs dflt (c :: up) = some l := by
  simp only [cfgAt, hl, applyConf, Option.some.injEq]
  exact splice_no_inherit _ l hn

example : cfgAt (fun d => if d = ["a".toList] then .conf (some ["S1".toList]) else .conf (some ["all".toList]))
    none ["a".toList] = some ["S1".toList] := by decide

/-- **variants_same_config.** Files in the build cache in front of the first proper file and
any files after it (the test files of `p [p.test]`, generated files) do not change the
configuration directory — the variants of a package get the same configuration. -/
theorem variants_same_config (cached : List SrcFile) (f : SrcFile) (rest rest' : List SrcFile)
    (hc : ∀ g ∈ cached, g.inCache = true) (hf : f.inCache = false) :
    configDir (cached ++ f :: rest) = some f.dir ∧
      configDir (cached ++ f :: rest) = configDir (f :: rest') := by
  have h : ∀ r, configDir (cached ++ f :: r) = some f.dir := by
    intro r
    induction cached with
    | nil => simp [configDir, hf]
    | cons g gs ih =>
      have hg : g.inCache = true := hc g (by simp)
      simp only [List.cons_append, configDir, hg, if_true]
      exact ih fun g' hg' => hc g' (List.mem_cons_of_mem _ hg')
  refine ⟨h rest, ?_⟩
  rw [h rest]
  simp [configDir, hf]

/-- a package made only of build-cache files gets the default configuration. -/
theorem only_cached_default (fs : ConfFS) (dflt : Checks) (files : List SrcFile)
    (h : ∀ g ∈ files, g.inCache = true) : packageConfig fs dflt files = dflt := by
  have : configDir files = none := by
    induction files with
    | nil => rfl
    | cons g gs ih =>
      have hg : g.inCache = true := h g (by simp)
      simp only [configDir, hg, if_true]
      exact ih fun g' hg' => h g' (List.mem_cons_of_mem _ hg')
  simp [packageConfig, this]

/-! ## 2. What is reported for one package, directive problems included -/

theorem mem_successP (m : AMap) (ps : List Problem) (p : Problem) :
    p ∈ successP m ps ↔ p ∈ ps ∧ m.get (lower p.cat) = true := by
  simp [successP]

/-- **lintPackage_full_spec** (strengthens `lintPackage_spec`: no side condition on the
directive problems). A problem `q` is reported for a package iff
* it is a problem of some analyzer whose check is allowed — marked ignored iff some
  directive matches it —, or
* it is the `compile` problem of a malformed directive, or
* it is the `staticcheck` problem of a line directive that matches **no allowed** problem
  and names some allowed check other than U1000, or
* it is an unused object and U1000 is allowed. -/
theorem lintPackage_full_spec (pat : Name → Name → Bool) (m : AMap) (diags : List Problem)
    (dirs : List Directive) (unused : List Problem) (q : Problem) :
    q ∈ lintPackageP pat m diags dirs unused ↔
      (∃ p ∈ diags, m.get (lower p.cat) = true ∧
          q = if dirs.any (fun ig => ig.matches pat p) then { p with ignored := true } else p) ∨
      (∃ ig ∈ dirs, ig.kind = .malformed ∧ q = malformedProblem ig) ∨
      (∃ ig ∈ dirs, ig.kind = .line ∧
          (∀ p ∈ diags, m.get (lower p.cat) = true → ig.matches pat p = false) ∧
          (∃ c ∈ ig.checks, lower c ≠ u1000 ∧ m.get (lower c) = true) ∧ q = uselessProblem ig) ∨
      (q ∈ unused ∧ m.get u1000 = true) := by
  unfold lintPackageP filterIgnoredP
  simp only [List.mem_append, List.mem_map, List.mem_filter, mem_successP]
  constructor
  · rintro (((⟨p, ⟨hp, hm⟩, rfl⟩ | ⟨ig, ⟨hi, hk⟩, rfl⟩) | ⟨ig, ⟨hi, hu⟩, rfl⟩) | hq)
    · exact Or.inl ⟨p, hp, hm, rfl⟩
    · exact Or.inr (Or.inl ⟨ig, hi, by simpa using hk, rfl⟩)
    · right; right; left
      simp only [isUseless, Bool.and_eq_true, decide_eq_true_eq, Bool.not_eq_true',
        List.any_eq_false, mem_successP] at hu
      obtain ⟨⟨hk, hn⟩, hc⟩ := hu
      refine ⟨ig, hi, hk, ?_, ?_, rfl⟩
      · intro p hp hm
        have := hn p ⟨hp, hm⟩
        simpa using this
      · simp only [couldHaveMatched, List.any_eq_true, Bool.and_eq_true, Bool.not_eq_true',
          beq_eq_false_iff_ne] at hc
        obtain ⟨c, hc1, hc2, hc3⟩ := hc
        exact ⟨c, hc1, hc2, hc3⟩
    · by_cases hm : m.get u1000 = true
      · simp only [hm, if_true] at hq
        exact Or.inr (Or.inr (Or.inr ⟨hq, hm⟩))
      · simp [hm] at hq
  · rintro (⟨p, hp, hm, rfl⟩ | ⟨ig, hi, hk, rfl⟩ | ⟨ig, hi, hk, hn, ⟨c, hc1, hc2, hc3⟩, rfl⟩ | ⟨hq, hm⟩)
    · exact Or.inl (Or.inl (Or.inl ⟨p, ⟨hp, hm⟩, rfl⟩))
    · exact Or.inl (Or.inl (Or.inr ⟨ig, ⟨hi, by simpa using hk⟩, rfl⟩))
    · refine Or.inl (Or.inr ⟨ig, ⟨hi, ?_⟩, rfl⟩)
      simp only [isUseless, Bool.and_eq_true, decide_eq_true_eq, Bool.not_eq_true',
        List.any_eq_false, mem_successP]
      refine ⟨⟨hk, ?_⟩, ?_⟩
      · intro p ⟨hp, hm⟩
        simp [hn p hp hm]
      · simp only [couldHaveMatched, List.any_eq_true, Bool.and_eq_true, Bool.not_eq_true',
          beq_eq_false_iff_ne]
        exact ⟨c, hc1, hc2, hc3⟩
    · exact Or.inr (by simp [hm, hq])

/-- a package with a live problem, an ignored one, a filtered one, a useless directive for an
allowed check and one for a check that is not selected (silent). -/
example :
    (lintPackageP (fun a b => a == b) (filterAnalyzerNames ["sa4000".toList, "s1002".toList, "st1003".toList]
        ["sa*".toList, "s1002".toList])
      [⟨"SA4000".toList, false, ⟨"p.go".toList, 3, 1⟩, zeroPos, [], [], []⟩,
       ⟨"S1002".toList, false, ⟨"p.go".toList, 5, 1⟩, zeroPos, [], [], []⟩,
       ⟨"ST1003".toList, false, ⟨"p.go".toList, 9, 1⟩, zeroPos, [], [], []⟩]
      [⟨.line, ["S1002".toList], ⟨"p.go".toList, 5, 1⟩, ⟨"p.go".toList, 4, 2⟩⟩,
       ⟨.line, ["SA4000".toList], ⟨"p.go".toList, 7, 1⟩, ⟨"p.go".toList, 6, 2⟩⟩,
       ⟨.line, ["ST1003".toList], ⟨"p.go".toList, 9, 1⟩, ⟨"p.go".toList, 8, 2⟩⟩,
       ⟨.line, ["ST1005".toList], ⟨"p.go".toList, 11, 1⟩, ⟨"p.go".toList, 10, 2⟩⟩]
      []).map (fun p => (p.cat, p.ignored, p.pos.line))
    = [("SA4000".toList, false, 3), ("S1002".toList, true, 5), (staticcheckTok, false, 6)] := by decide

/-- **unselected_directive_silent.** A line directive none of whose checks is selected never
produces a "didn't match anything" problem — `-checks=SA1000` does not complain about
directives for unrelated checks — and selecting more checks can only make a directive that
names them reportable: the directive problems do depend on the selection. -/
theorem unselected_directive_silent (pat : Name → Name → Bool) (m : AMap) (diags : List Problem)
    (dirs : List Directive) (unused : List Problem) (ig : Directive)
    (h : ∀ c ∈ ig.checks, m.get (lower c) = false)
    (hne : ∀ p ∈ diags, uselessProblem ig ≠ p ∧ uselessProblem ig ≠ { p with ignored := true })
    (hu : uselessProblem ig ∉ unused)
    (hd : ∀ ig' ∈ dirs, uselessProblem ig = uselessProblem ig' → ig'.checks = ig.checks) :
    uselessProblem ig ∉ lintPackageP pat m diags dirs unused := by
  rw [lintPackage_full_spec]
  rintro (⟨p, hp, _, hq⟩ | ⟨ig', _, _, hq⟩ | ⟨ig', hi, _, _, ⟨c, hc1, _, hc3⟩, hq⟩ | ⟨hq, _⟩)
  · split at hq
    · exact (hne p hp).2 hq
    · exact (hne p hp).1 hq
  · have := congrArg Problem.cat hq
    simp [uselessProblem, malformedProblem, staticcheckTok, compileTok] at this
  · have := hd ig' hi hq
    rw [this] at hc1
    rw [h c hc1] at hc3
    exact Bool.noConfusion hc3
  · exact hu hq

/-- **printed_restricted_full.** Leaving the two kinds of directive problems aside, the
problems reported for a package are *all* problems of all analyzers restricted to the
allowed set (in order, each marked ignored iff a directive matches it) followed by the
unused objects iff U1000 is allowed. -/
theorem printed_restricted_full (pat : Name → Name → Bool) (m : AMap) (diags : List Problem)
    (dirs : List Directive) (unused : List Problem) :
    (lintPackageP pat m diags dirs unused).filter
        (fun q => !(decide (q.cat = staticcheckTok) || decide (q.cat = compileTok)))
      = ((diags.filter fun p => m.get (lower p.cat)).map fun p =>
            if dirs.any (fun ig => ig.matches pat p) then { p with ignored := true } else p).filter
          (fun q => !(decide (q.cat = staticcheckTok) || decide (q.cat = compileTok)))
        ++ (if m.get u1000 then unused else []).filter
          (fun q => !(decide (q.cat = staticcheckTok) || decide (q.cat = compileTok))) := by
  unfold lintPackageP filterIgnoredP successP
  simp only [List.filter_append, List.append_assoc]
  have h1 : ((dirs.filter fun ig => ig.kind = .malformed).map malformedProblem).filter
      (fun q => !(decide (q.cat = staticcheckTok) || decide (q.cat = compileTok))) = [] := by
    rw [List.filter_eq_nil_iff]
    intro q hq
    simp only [List.mem_map] at hq
    obtain ⟨ig, _, rfl⟩ := hq
    simp [malformedProblem]
  have h2 : ∀ l : List Directive, (l.map uselessProblem).filter
      (fun q => !(decide (q.cat = staticcheckTok) || decide (q.cat = compileTok))) = [] := by
    intro l
    rw [List.filter_eq_nil_iff]
    intro q hq
    simp only [List.mem_map] at hq
    obtain ⟨ig, _, rfl⟩ := hq
    simp [uselessProblem]
  rw [h1, h2]
  simp

end Verif.C11
