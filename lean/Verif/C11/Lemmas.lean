import Verif.C11.Model
/-! Helper lemmas for C11 (not property statements). -/
namespace Verif.C11

/-! ### mergeLists -/

/-- declarative reading of mergeLists: every `"inherit"` of the inner list is replaced by
the whole outer list, everything else is kept, order preserved. -/
def splice (parent : List Name) (l : List Name) : List Name :=
  l.flatMap fun el => if el = inheritTok then parent else [el]

theorem mergeLists_foldl (a b acc : List Name) :
    b.foldl (fun out el => if el = inheritTok then out ++ a else out ++ [el]) acc
      = acc ++ splice a b := by
  induction b generalizing acc with
  | nil => simp [splice]
  | cons x xs ih =>
    simp only [List.foldl_cons, ih, splice, List.flatMap_cons]
    split <;> simp

theorem splice_append (p x y : List Name) : splice p (x ++ y) = splice p x ++ splice p y := by
  simp [splice, List.flatMap_append]

theorem splice_cons (p : List Name) (x : Name) (xs : List Name) :
    splice p (x :: xs) = (if x = inheritTok then p else [x]) ++ splice p xs := by
  simp [splice, List.flatMap_cons]

/-! ### directory walk -/

/-- the configuration files found by the walk, innermost first. -/
def confsOf : List Level → List Checks
  | [] => []
  | .absent :: up => confsOf up
  | .conf c :: up => c :: confsOf up

theorem walk_foldl (walk : List Level) (acc : List Checks) :
    walk.foldl walkStep acc = acc ++ confsOf walk := by
  induction walk generalizing acc with
  | nil => simp [confsOf]
  | cons lv up ih =>
    cases lv with
    | absent => simp [List.foldl_cons, ih, confsOf, walkStep]
    | conf c => simp [List.foldl_cons, ih, confsOf, walkStep]

theorem parseConfigs_eq (dflt : Checks) (walk : List Level) :
    parseConfigs dflt walk = dflt :: (confsOf walk).reverse := by
  simp [parseConfigs, walk_foldl]

theorem mergeConfigs_parse (dflt : Checks) (walk : List Level) :
    mergeConfigs (parseConfigs dflt walk)
      = (confsOf walk).foldr (fun c acc => Checks.merge acc c) dflt := by
  rw [parseConfigs_eq]
  simp [mergeConfigs, List.foldl_reverse]

/-! ### association lists -/

theorem lookup_set (m : AMap) (k k' : Name) (b : Bool) :
    (m.set k' b).lookup k = if k = k' then some b else m.lookup k := by
  simp only [AMap.set, List.lookup_cons]
  by_cases h : k = k'
  · simp [h]
  · have : (k == k') = false := by simp [h]
    simp [this, h]

/-- a loop `for _, a := range all { if p(a) { m[a] = b } }`. -/
theorem lookup_foldl_set (all : List Name) (p : Name → Bool) (b : Bool) (m : AMap) (k : Name) :
    (all.foldl (fun m a => if p a then m.set a b else m) m).lookup k
      = if k ∈ all ∧ p k = true then some b else m.lookup k := by
  induction all generalizing m with
  | nil => simp
  | cons a rest ih =>
    simp only [List.foldl_cons, ih, List.mem_cons]
    by_cases hp : p a = true <;> by_cases hka : k = a <;> by_cases hkr : k ∈ rest <;>
      by_cases hpk : p k = true <;> simp_all [lookup_set]

end Verif.C11
