import Verif.C11.Lemmas
/-! Property theorems for C11.  Helper lemmas live in `Lemmas.lean`. -/
namespace Verif.C11

/-! ## 1. Selection: `-checks` / `-fail` lists are applied left to right -/

/-- What one list entry (leading `-` already removed, case folded) names, for the
analyzers `all`: `*`/`all` name every analyzer; `P*` with a digit-free `P` names exactly
the analyzers whose category (the part before the first digit) **is** `P`; `P*` with a
digit in `P` names the analyzers with prefix `P`; anything else names itself. -/
def bodyMatches (all : List Name) (body k : Name) : Bool :=
  if body = starTok ∨ body = allTok then decide (k ∈ all)
  else if endsWithStar body then
    decide (k ∈ all) &&
      (if hasDigit body.dropLast then body.dropLast.isPrefixOf k else decide (body.dropLast = catOf k))
  else decide (k = body)

/-- the verdict of the last entry of `sel` that names `k`, if any. -/
def lastMatch (all : List Name) : List Name → Name → Option Bool
  | [], _ => none
  | c :: rest, k =>
    match lastMatch all rest k with
    | some b => some b
    | none => if bodyMatches all (parseEntry c).2 k then some (parseEntry c).1 else none

theorem lookup_applyCheck (all : List Name) (m : AMap) (check k : Name) :
    (applyCheck all m check).lookup k
      = if bodyMatches all (parseEntry check).2 k then some (parseEntry check).1 else m.lookup k := by
  unfold applyCheck bodyMatches
  by_cases h1 : (parseEntry check).2 = starTok ∨ (parseEntry check).2 = allTok
  · simp only [h1, if_true]
    have := lookup_foldl_set all (fun _ => true) (parseEntry check).1 m k
    simpa using this
  · simp only [h1, if_false]
    by_cases h2 : endsWithStar (parseEntry check).2 = true
    · simp only [h2, if_true]
      by_cases h3 : hasDigit (parseEntry check).2.dropLast = true
      · have := lookup_foldl_set all (fun a => (parseEntry check).2.dropLast.isPrefixOf a)
          (parseEntry check).1 m k
        simpa [h3] using this
      · have := lookup_foldl_set all (fun a => decide ((parseEntry check).2.dropLast = catOf a))
          (parseEntry check).1 m k
        simpa [h3] using this
    · have h2' : endsWithStar (parseEntry check).2 = false := by simpa using h2
      simp only [h2', Bool.false_eq_true, if_false]
      rw [lookup_set]
      simp

theorem lookup_filter_foldl (all sel : List Name) (m : AMap) (k : Name) :
    (sel.foldl (applyCheck all) m).lookup k
      = match lastMatch all sel k with
        | some b => some b
        | none => m.lookup k := by
  induction sel generalizing m with
  | nil => simp [lastMatch]
  | cons c rest ih =>
    simp only [List.foldl_cons, ih, lastMatch]
    cases h : lastMatch all rest k with
    | some b => simp
    | none =>
      simp only [lookup_applyCheck]
      split <;> simp_all

/-- **selection_spec.** After folding the list left to right, check `k` is allowed iff the
last entry naming `k` enables it (no entry names it ⇒ not allowed).  For all analyzer
sets, all lists (unknown names, globs, negations included) and all `k`. -/
theorem selection_spec (all sel : List Name) (k : Name) :
    (filterAnalyzerNames all sel).get k = true ↔ lastMatch all sel k = some true := by
  unfold filterAnalyzerNames AMap.get
  rw [lookup_filter_foldl]
  cases lastMatch all sel k with
  | none => simp
  | some b => simp

example : (filterAnalyzerNames ["s1000".toList, "sa1000".toList] ["all".toList, "-s*".toList]).get
    "sa1000".toList = true := by decide

theorem lastMatch_eq_none_iff (all sel : List Name) (k : Name) :
    lastMatch all sel k = none ↔ ∀ d ∈ sel, bodyMatches all (parseEntry d).2 k = false := by
  induction sel with
  | nil => simp [lastMatch]
  | cons x rest ih =>
    simp only [lastMatch, List.mem_cons, forall_eq_or_imp]
    cases hr : lastMatch all rest k with
    | some b =>
      have : ¬ ∀ d ∈ rest, bodyMatches all (parseEntry d).2 k = false := fun h => by
        rw [ih.mpr h] at hr; cases hr
      simp [this]
    | none =>
      have := ih.mp hr
      cases hx : bodyMatches all (parseEntry x).2 k <;> simp_all

/-- `lastMatch` said without recursion: `sel = pre ++ c :: post`, `c` names `k`, nothing in
`post` names `k`, and `b` is whether `c` is un-negated. -/
theorem lastMatch_iff (all sel : List Name) (k : Name) (b : Bool) :
    lastMatch all sel k = some b ↔
      ∃ pre c post, sel = pre ++ c :: post ∧ bodyMatches all (parseEntry c).2 k = true ∧
        (parseEntry c).1 = b ∧ ∀ d ∈ post, bodyMatches all (parseEntry d).2 k = false := by
  induction sel with
  | nil => simp [lastMatch]
  | cons x rest ih =>
    simp only [lastMatch]
    constructor
    · intro h
      cases hr : lastMatch all rest k with
      | some b' =>
        rw [hr] at h
        simp only [Option.some.injEq] at h
        subst h
        obtain ⟨pre, c, post, e, hm, hb, hp⟩ := ih.mp hr
        exact ⟨x :: pre, c, post, by simp [e], hm, hb, hp⟩
      | none =>
        rw [hr] at h
        simp only at h
        split at h
        · rename_i hm
          simp only [Option.some.injEq] at h
          exact ⟨[], x, rest, by simp, hm, h, (lastMatch_eq_none_iff all rest k).mp hr⟩
        · simp at h
    · rintro ⟨pre, c, post, e, hm, hb, hp⟩
      cases pre with
      | nil =>
        simp only [List.nil_append, List.cons.injEq] at e
        obtain ⟨e1, e2⟩ := e
        subst e1 e2
        have hn := (lastMatch_eq_none_iff all rest k).mpr hp
        simp [hn, hm, hb]
      | cons y ys =>
        simp only [List.cons_append, List.cons.injEq] at e
        obtain ⟨e1, e2⟩ := e
        subst e1 e2
        have := ih.mpr ⟨ys, c, post, rfl, hm, hb, hp⟩
        simp [this]

example : lastMatch ["s1000".toList, "sa1000".toList] ["all".toList, "-s*".toList, "x".toList] "s1000".toList
    = some false := by decide
example : ∃ pre c post, ["all".toList, "-s*".toList, "x".toList] = pre ++ c :: post ∧
    bodyMatches ["s1000".toList, "sa1000".toList] (parseEntry c).2 "s1000".toList = true ∧ (parseEntry c).1 = false ∧
    ∀ d ∈ post, bodyMatches ["s1000".toList, "sa1000".toList] (parseEntry d).2 "s1000".toList = false :=
  ⟨["all".toList], "-s*".toList, ["x".toList], by decide, by decide, by decide, by decide⟩

/-! ### the kinds of entries -/

/-- `all` and `*` name every analyzer and nothing else. -/
theorem all_names_everything (all : List Name) (k : Name) :
    (bodyMatches all allTok k = true ↔ k ∈ all) ∧ (bodyMatches all starTok k = true ↔ k ∈ all) := by
  simp [bodyMatches]

example : bodyMatches ["s1000".toList] allTok "s1000".toList = true ∧ bodyMatches ["s1000".toList] starTok "x".toList = false := by
  decide

/-- **category glob.** `P*` with a non-empty digit-free `P` names exactly the analyzers whose
category *equals* `P` — so `S*` names `S1000` but not `SA1000`. -/
theorem cat_glob_exact (all : List Name) (pre k : Name) (hne : pre ≠ [])
    (hd : hasDigit pre = false) :
    bodyMatches all (pre ++ ['*']) k = true ↔ k ∈ all ∧ catOf k = pre := by
  have h1 : pre ++ ['*'] ≠ starTok := by
    intro h
    have := congrArg List.length h
    cases pre with
    | nil => exact hne rfl
    | cons a as => simp [starTok] at this
  have h2 : pre ++ ['*'] ≠ allTok := by
    intro h
    have := congrArg List.getLast? h
    simp [allTok] at this
  have h3 : endsWithStar (pre ++ ['*']) = true := by simp [endsWithStar]
  have h4 : (pre ++ ['*']).dropLast = pre := by simp
  simp only [bodyMatches, h1, h2, or_self, if_false, h3, if_true, h4, hd, Bool.false_eq_true]
  simp only [Bool.and_eq_true, decide_eq_true_eq]
  constructor
  · rintro ⟨a, b⟩; exact ⟨a, b.symm⟩
  · rintro ⟨a, b⟩; exact ⟨a, b.symm⟩

example : bodyMatches ["s1000".toList, "sa1000".toList] "s*".toList "sa1000".toList = false := by decide
example : bodyMatches ["s1000".toList, "sa1000".toList] "s*".toList "s1000".toList = true := by decide

/-- **prefix glob.** `P*` with a digit in `P` names the analyzers that have prefix `P`. -/
theorem prefix_glob (all : List Name) (pre k : Name) (hd : hasDigit pre = true) :
    bodyMatches all (pre ++ ['*']) k = true ↔ k ∈ all ∧ pre <+: k := by
  have hne : pre ≠ [] := by intro h; subst h; simp [hasDigit] at hd
  have h1 : pre ++ ['*'] ≠ starTok := by
    intro h
    have := congrArg List.length h
    cases pre with
    | nil => exact hne rfl
    | cons a as => simp [starTok] at this
  have h2 : pre ++ ['*'] ≠ allTok := by
    intro h
    have := congrArg List.getLast? h
    simp [allTok] at this
  have h3 : endsWithStar (pre ++ ['*']) = true := by simp [endsWithStar]
  have h4 : (pre ++ ['*']).dropLast = pre := by simp
  simp only [bodyMatches, h1, h2, or_self, if_false, h3, if_true, h4, hd]
  simp [List.isPrefixOf_iff_prefix]

example : bodyMatches ["sa1000".toList, "sa1001".toList, "sa2000".toList] "sa1*".toList "sa1001".toList = true
    ∧ bodyMatches ["sa1000".toList, "sa1001".toList, "sa2000".toList] "sa1*".toList "sa2000".toList = false := by
  decide

/-- **exact name.** Any other entry names exactly itself (known or not). -/
theorem exact_name (all : List Name) (body k : Name) (h1 : body ≠ starTok) (h2 : body ≠ allTok)
    (h3 : endsWithStar body = false) :
    bodyMatches all body k = true ↔ k = body := by
  simp [bodyMatches, h1, h2, h3]

example : bodyMatches ["s1000".toList] "zz9".toList "zz9".toList = true
    ∧ bodyMatches ["s1000".toList] "s1000".toList "s1001".toList = false := by decide

/-- **negation.** A leading `-` (on an entry of at least two characters) only flips the
verdict; the rest of the entry is what is named. -/
theorem negation (c : Char) (rest : Name) :
    parseEntry ('-' :: c :: rest) = (false, c :: rest) ∧
    (∀ s : Name, (∀ c r, s ≠ '-' :: c :: r) → parseEntry s = (true, s)) := by
  refine ⟨rfl, ?_⟩
  intro s hs
  unfold parseEntry
  split
  · rename_i c r; exact absurd rfl (hs c r)
  · rfl

example : parseEntry "-S1000".toList = (false, "S1000".toList) ∧ parseEntry "-".toList = (true, "-".toList)
    ∧ parseEntry "S-1".toList = (true, "S-1".toList) := by decide

/-- **case-insensitivity.** `allowed` depends only on the case folded analyzers, list and
check name (this is where makeCaseFoldedString is applied in lint.go / cmd.go). -/
theorem case_insensitive (all all' sel sel' : List Name) (k k' : Name)
    (ha : all.map lower = all'.map lower) (hs : sel.map lower = sel'.map lower)
    (hk : lower k = lower k') : allowed all sel k = allowed all' sel' k' := by
  simp [allowed, ha, hs, hk]

example : allowed ["S1000".toList, "SA1000".toList] ["ALL".toList, "-sa*".toList] "Sa1000".toList = false
    ∧ allowed ["S1000".toList, "SA1000".toList] ["ALL".toList, "-sa*".toList] "s1000".toList = true := by
  decide

/-- non-ASCII names: `unicode.IsNumber` ends the category at an Arabic-Indic digit, a superscript
or a Roman numeral; `strings.ToLower` folds `É`, the Kelvin sign and `İ` (to ASCII `i`). -/
example : catOf "sa\u0663x".toList = "sa".toList ∧ catOf "q\u00b2".toList = "q".toList
    ∧ catOf "r\u2167".toList = "r".toList ∧ catOf "\u00e9t\u00e9".toList = "\u00e9t\u00e9".toList := by decide
example : allowed ["SA\u0663".toList, "S\u00c91".toList, "\u212a9".toList, "\u0130X1".toList]
      ["sa*".toList, "s\u00e9*".toList, "K*".toList, "ix1".toList] "SA\u0663".toList = true
    ∧ allowed ["SA\u0663".toList, "S\u00c91".toList, "\u212a9".toList, "\u0130X1".toList]
      ["s\u00e9*".toList] "s\u00c91".toList = true
    ∧ allowed ["SA\u0663".toList, "S\u00c91".toList, "\u212a9".toList, "\u0130X1".toList]
      ["K*".toList] "\u212a9".toList = true
    ∧ allowed ["SA\u0663".toList, "S\u00c91".toList, "\u212a9".toList, "\u0130X1".toList]
      ["ix1".toList] "\u0130x1".toList = true
    ∧ allowed ["SA\u0663".toList, "S\u00c91".toList, "\u212a9".toList, "\u0130X1".toList]
      ["s*".toList] "SA\u0663".toList = false := by decide

/-! ## 2. Configuration inheritance -/

/-- mergeLists is the splice: `"inherit"` ↦ the outer list, everything else kept in order. -/
theorem mergeLists_eq_splice (a b : List Name) : mergeLists a b = splice a b := by
  simp [mergeLists, mergeLists_foldl]

example : mergeLists ["all".toList, "-st1000".toList] ["inherit".toList, "st1000".toList, "inherit".toList]
    = ["all".toList, "-st1000".toList, "st1000".toList, "all".toList, "-st1000".toList] := by decide

/-- merging lists is associative. -/
theorem merge_assoc (a b c : List Name) :
    mergeLists (mergeLists a b) c = mergeLists a (mergeLists b c) := by
  simp only [mergeLists_eq_splice]
  induction c with
  | nil => simp [splice]
  | cons x xs ih =>
    rw [splice_cons, splice_cons, splice_append, ih]
    by_cases h : x = inheritTok
    · simp [h]
    · simp [h, splice]

example : mergeLists (mergeLists ["a".toList] ["inherit".toList, "b".toList]) ["c".toList, "inherit".toList]
    = ["c".toList, "a".toList, "b".toList] := by decide

/-- What the documentation defines: walking from the package directory outwards, a
directory without a file, or with a file that does not set `checks`, inherits; a file
that sets `checks` replaces the inherited list, with every `"inherit"` in it standing for
the whole inherited list. -/
def resolve (dflt : Checks) : List Level → Checks
  | [] => dflt
  | .absent :: up => resolve dflt up
  | .conf none :: up => resolve dflt up
  | .conf (some l) :: up => some (splice ((resolve dflt up).getD []) l)

/-- **inherit_splice.** parseConfigs + mergeConfigs (outermost first) compute `resolve`. -/
theorem inherit_splice (dflt : Checks) (walk : List Level) :
    mergeConfigs (parseConfigs dflt walk) = resolve dflt walk := by
  rw [mergeConfigs_parse]
  induction walk with
  | nil => simp [confsOf, resolve]
  | cons lv up ih =>
    cases lv with
    | absent => simpa [confsOf, resolve] using ih
    | conf c =>
      cases c with
      | none => simpa [confsOf, resolve, Checks.merge] using ih
      | some l =>
        simp only [confsOf, List.foldr_cons, ih, resolve]
        simp [Checks.merge, mergeLists_eq_splice]

example : mergeConfigs (parseConfigs (some ["all".toList])
    [.conf (some ["inherit".toList, "-s1000".toList]), .absent, .conf none, .conf (some ["sa*".toList])])
    = some ["sa*".toList, "-s1000".toList] := by decide

/-- the command-line list behaves like one more, innermost, configuration file
(before normalizeList is taken into account, see `effective_selection`). -/
theorem cmdline_is_innermost (dflt : Checks) (walk : List Level) (cmd : Checks) :
    (mergeConfigs (parseConfigs dflt walk)).merge cmd = resolve dflt (.conf cmd :: walk) := by
  cases cmd with
  | none => simp [Checks.merge, resolve, inherit_splice]
  | some c => simp [Checks.merge, resolve, inherit_splice, mergeLists_eq_splice]

example : (mergeConfigs (parseConfigs (some ["all".toList]) [.conf (some ["inherit".toList, "-s1".toList])])).merge
    (some ["inherit".toList, "s1".toList])
    = resolve (some ["all".toList]) [.conf (some ["inherit".toList, "s1".toList]), .conf (some ["inherit".toList, "-s1".toList])]
    ∧ resolve (some ["all".toList]) [.conf (some ["inherit".toList, "s1".toList]), .conf (some ["inherit".toList, "-s1".toList])]
      = some ["all".toList, "-s1".toList, "s1".toList] := by decide

/-! ### normalizeList does not change what is selected (helper lemmas) -/

theorem lastMatch_append (all l1 l2 : List Name) (k : Name) :
    lastMatch all (l1 ++ l2) k
      = match lastMatch all l2 k with
        | some b => some b
        | none => lastMatch all l1 k := by
  induction l1 with
  | nil => cases h : lastMatch all l2 k <;> simp [lastMatch, h]
  | cons x xs ih =>
    simp only [List.cons_append, lastMatch, ih]
    cases h : lastMatch all l2 k <;> simp

theorem lastMatch_dedup (all : List Name) (f : Name → Name) (x : Name) (rest : List Name) (k : Name) :
    lastMatch all ((x :: dedupFrom x rest).map f) k = lastMatch all ((x :: rest).map f) k := by
  induction rest generalizing x with
  | nil => simp [dedupFrom]
  | cons el r ih =>
    simp only [dedupFrom]
    by_cases h : el = x
    · subst h
      simp only [if_true]
      rw [ih el]
      simp only [List.map_cons, lastMatch]
      cases lastMatch all (r.map f) k <;> simp
      split <;> simp_all
    · simp only [h, if_false]
      have := ih el
      simp only [List.map_cons, lastMatch] at this ⊢
      rw [this]

theorem lastMatch_normalize (all : List Name) (f : Name → Name) (l : List Name) (k : Name) :
    lastMatch all ((normalizeList l).map f) k = lastMatch all (l.map f) k := by
  cases l with
  | nil => simp [normalizeList]
  | cons x rest => simpa [normalizeList] using lastMatch_dedup all f x rest k

theorem lastMatch_splice_congr (all : List Name) (f : Name → Name) (p p' c : List Name)
    (h : ∀ k, lastMatch all (p.map f) k = lastMatch all (p'.map f) k) (k : Name) :
    lastMatch all ((splice p c).map f) k = lastMatch all ((splice p' c).map f) k := by
  induction c with
  | nil => simp [splice]
  | cons x xs ih =>
    rw [splice_cons, splice_cons, List.map_append, List.map_append, lastMatch_append,
      lastMatch_append, ih]
    by_cases hx : x = inheritTok
    · simp [hx, h]
    · simp [hx]

theorem load_eq (dflt : Checks) (walk : List Level) :
    (load dflt walk).getD [] = normalizeList ((resolve dflt walk).getD []) := by
  unfold load
  rw [inherit_splice]
  cases resolve dflt walk <;> simp [normalizeList]

/-- **effective_selection** (inheritance ∘ selection, the first sentence of C11). The set
of checks applied to a package with directory walk `walk` (innermost first), default
list `dflt` and `-checks cmd` is: resolve the files from the outermost inward with the
command line innermost, then let the last entry naming a check decide. normalizeList is
invisible. -/
theorem effective_selection (all : List Name) (dflt : Checks) (walk : List Level) (cmd : Checks)
    (k : Name) :
    allowed all ((effective dflt walk cmd).getD []) k = true ↔
      lastMatch (all.map lower) (((resolve dflt (.conf cmd :: walk)).getD []).map lower) (lower k)
        = some true := by
  unfold allowed
  rw [selection_spec]
  have hl := load_eq dflt walk
  cases cmd with
  | none =>
    have : effective dflt walk none = load dflt walk := rfl
    rw [this, hl, lastMatch_normalize]
    simp [resolve]
  | some c =>
    have : (effective dflt walk (some c)).getD [] = splice ((load dflt walk).getD []) c := by
      simp [effective, Checks.merge, mergeLists_eq_splice]
    rw [this, hl]
    have : (resolve dflt (.conf (some c) :: walk)).getD [] = splice ((resolve dflt walk).getD []) c := by
      simp [resolve]
    rw [this, lastMatch_splice_congr (all.map lower) lower _ ((resolve dflt walk).getD []) c
      (fun k => lastMatch_normalize _ _ _ k)]

example : allowed ["S1000".toList, "SA4000".toList, "ST1000".toList]
    ((effective (some ["all".toList, "-ST1000".toList])
      [.conf (some ["inherit".toList, "-S*".toList]), .absent, .conf none]
      (some ["inherit".toList, "st1000".toList])).getD []) "ST1000".toList = true := by decide

/-- **unset = inherit**: a file that does not set `checks`, or a missing file, changes nothing. -/
theorem unset_inherits (dflt : Checks) (walk : List Level) :
    resolve dflt (.conf none :: walk) = resolve dflt walk ∧
    resolve dflt (.absent :: walk) = resolve dflt walk := ⟨rfl, rfl⟩

example : resolve (some ["all".toList]) [.conf none, .absent, .conf (some ["x".toList])] = some ["x".toList] := by decide

theorem mem_dedupFrom (p x : Name) (l : List Name) : x ∈ dedupFrom p l → x ∈ l := by
  induction l generalizing p with
  | nil => simp [dedupFrom]
  | cons el r ih =>
    simp only [dedupFrom]
    split
    · intro h; exact List.mem_cons_of_mem _ (ih el h)
    · intro h
      rcases List.mem_cons.mp h with h | h
      · simp [h]
      · exact List.mem_cons_of_mem _ (ih el h)

/-- normalizeList never panics: if the default list has no `"inherit"`, none survives. -/
theorem no_unresolved_inherit (d : List Name) (hd : inheritTok ∉ d) (walk : List Level) :
    unresolvedInherit (some d) walk = false := by
  have hres : ∀ walk : List Level, ∃ l, resolve (some d) walk = some l ∧ inheritTok ∉ l := by
    intro walk
    induction walk with
    | nil => exact ⟨d, rfl, hd⟩
    | cons lv up ih =>
      obtain ⟨l, hl, hn⟩ := ih
      cases lv with
      | absent => exact ⟨l, by simp [resolve, hl], hn⟩
      | conf c =>
        cases c with
        | none => exact ⟨l, by simp [resolve, hl], hn⟩
        | some c =>
          refine ⟨splice l c, by simp [resolve, hl], ?_⟩
          simp only [splice, List.mem_flatMap, not_exists, not_and]
          intro el _ hmem
          by_cases he : el = inheritTok
          · simp only [he, if_true] at hmem; exact hn hmem
          · simp only [he, if_false, List.mem_singleton] at hmem; exact he hmem.symm
  obtain ⟨l, hl, hn⟩ := hres walk
  unfold unresolvedInherit load
  rw [inherit_splice, hl]
  simp only [Option.map_some]
  cases l with
  | nil => simp [normalizeList]
  | cons x rest =>
    simp only [normalizeList, List.contains_eq_mem, List.mem_cons, decide_eq_false_iff_not, not_or]
    constructor
    · intro h; exact hn (by simp [h])
    · intro h; exact hn (List.mem_cons_of_mem _ (mem_dedupFrom _ _ _ h))

example : inheritTok ∉ ["all".toList, "-ST1000".toList] ∧
    unresolvedInherit (some ["all".toList, "-ST1000".toList]) [.conf (some ["inherit".toList, "inherit".toList])] = false
    ∧ unresolvedInherit (some ["inherit".toList]) [] = true := by decide

/-! ## 3. What is printed -/

theorem success_foldl (m : AMap) (ds acc : List Diag) :
    ds.foldl (fun out d => if m.get (lower d.cat) then out ++ [d] else out) acc
      = acc ++ ds.filter (fun d => m.get (lower d.cat)) := by
  induction ds generalizing acc with
  | nil => simp
  | cons d r ih =>
    simp only [List.foldl_cons, ih, List.filter_cons]
    split <;> simp

/-- **printed_eq_restrict.** The problems kept for a package are *all* problems of all
analyzers restricted to the allowed set (same order, nothing else added or dropped). -/
theorem printed_eq_restrict (m : AMap) (ds : List Diag) :
    success m ds = ds.filter (fun d => m.get (lower d.cat)) := by
  simp [success, success_foldl]

/-- printed ⇔ produced by some analyzer ∧ the last entry naming its check enables it. -/
theorem printed_spec (all sel : List Name) (ds : List Diag) (d : Diag) :
    d ∈ success (filterAnalyzerNames (all.map lower) (sel.map lower)) ds ↔
      d ∈ ds ∧ lastMatch (all.map lower) (sel.map lower) (lower d.cat) = some true := by
  rw [printed_eq_restrict, List.mem_filter, selection_spec]

example : success (filterAnalyzerNames ["s1000".toList, "sa4000".toList] ["s*".toList])
    [⟨"S1000".toList, false, 1⟩, ⟨"SA4000".toList, false, 2⟩] = [⟨"S1000".toList, false, 1⟩] := by decide

/-- the same for a whole package, including the U1000 gate of linter.lint: an analyzer
problem or an unused object is reported iff its check is allowed; the diagnostics about
directives (`extra`) do not depend on the selection here. -/
theorem lintPackage_spec (m : AMap) (diags extra unused : List Diag) (d : Diag)
    (hu : ∀ u ∈ unused, lower u.cat = u1000) (hx : d ∉ extra) :
    d ∈ lintPackage m diags extra unused ↔ (d ∈ diags ∨ d ∈ unused) ∧ m.get (lower d.cat) = true := by
  unfold lintPackage
  rw [printed_eq_restrict]
  simp only [List.mem_append, List.mem_filter, hx, or_false]
  by_cases hm : m.get u1000 = true
  · simp only [hm, if_true]
    constructor
    · rintro (⟨a, b⟩ | a)
      · exact ⟨Or.inl a, b⟩
      · exact ⟨Or.inr a, by rw [hu d a]; exact hm⟩
    · rintro ⟨a | a, b⟩
      · exact Or.inl ⟨a, b⟩
      · exact Or.inr a
  · simp only [hm]
    constructor
    · rintro (⟨a, b⟩ | a)
      · exact ⟨Or.inl a, b⟩
      · simp at a
    · rintro ⟨a | a, b⟩
      · exact Or.inl ⟨a, b⟩
      · rw [hu d a] at b; exact absurd b hm

/-- non-vacuity of `lintPackage_spec`: U1000 allowed, one analyzer problem filtered, one kept. -/
example : lintPackage (filterAnalyzerNames ["s1000".toList, "sa4000".toList, "u1000".toList] ["s*".toList, "u1000".toList])
    [⟨"S1000".toList, false, 1⟩, ⟨"SA4000".toList, false, 2⟩] [⟨staticcheckTok, false, 3⟩] [⟨"U1000".toList, false, 4⟩]
    = [⟨"S1000".toList, false, 1⟩, ⟨staticcheckTok, false, 3⟩, ⟨"U1000".toList, false, 4⟩]
    ∧ (∀ u ∈ [(⟨"U1000".toList, false, 4⟩ : Diag)], lower u.cat = u1000)
    ∧ (⟨"S1000".toList, false, 1⟩ : Diag) ∉ [(⟨staticcheckTok, false, 3⟩ : Diag)] := by decide

/-! ## 4. Exit status -/

/-- a problem that counts as an error: not skipped, not ignored, in `shouldExit`. -/
def isError (se : AMap) (noCompile : Bool) (d : Diag) : Bool :=
  !(decide (d.cat = compileTok) && noCompile) && !d.ignored && se.get (lower d.cat)

/-- a problem that is handed to the formatter. -/
def isShown (showIgnored noCompile : Bool) (d : Diag) : Bool :=
  !(decide (d.cat = compileTok) && noCompile) && (!d.ignored || showIgnored)

theorem count_foldl (se : AMap) (si nc : Bool) (ds : List Diag) (c : Counts) :
    (ds.foldl (countStep se si nc) c).numErrors = c.numErrors + (ds.filter (isError se nc)).length ∧
    (ds.foldl (countStep se si nc) c).shown.map (·.1) = c.shown.map (·.1) ++ ds.filter (isShown si nc) := by
  induction ds generalizing c with
  | nil => simp
  | cons d r ih =>
    simp only [List.foldl_cons]
    obtain ⟨h1, h2⟩ := ih (countStep se si nc c d)
    rw [h1, h2]
    unfold countStep isError isShown
    simp only [List.filter_cons]
    by_cases a : d.cat = compileTok <;> by_cases b : nc = true <;> by_cases i : d.ignored = true <;>
      by_cases s : si = true <;> by_cases e : se.get (lower d.cat) = true <;>
      simp_all <;> omega

theorem shouldExit_get (all fail : List Name) (k : Name) :
    (shouldExit all fail).get k = true ↔
      (k = staticcheckTok ∨ k = compileTok ∨ k = configTok ∨
        lastMatch (all.map lower) (fail.map lower) k = some true) := by
  have hs := selection_spec (all.map lower) (fail.map lower) k
  unfold AMap.get at hs ⊢
  unfold shouldExit
  simp only [lookup_set]
  by_cases h1 : k = configTok
  · simp [h1]
  · by_cases h2 : k = compileTok
    · simp [h2]
    · by_cases h3 : k = staticcheckTok
      · simp [h3]
      · simp only [h1, h2, h3, if_false, false_or]
        exact hs

/-- **exit_spec.** The exit status is 1 exactly when the format is not SARIF and some
problem that is **not ignored** (and not a compile error hidden by
`-debug.no-compile-errors`) either is a compile / config / staticcheck (directive) problem
or has its check enabled by the last entry of `-fail` naming it.  Otherwise it is 0.
`-show-ignored` plays no role. -/
theorem exit_spec (all fail : List Name) (showIgnored noCompile : Bool) (fmt : Format)
    (ds : List Diag) :
    (printDiagnostics all fail showIgnored noCompile fmt ds).2 = 1 ↔
      fmt ≠ .sarif ∧ ∃ d ∈ ds, d.ignored = false ∧ ¬ (d.cat = compileTok ∧ noCompile = true) ∧
        (lower d.cat = staticcheckTok ∨ lower d.cat = compileTok ∨ lower d.cat = configTok ∨
          lastMatch (all.map lower) (fail.map lower) (lower d.cat) = some true) := by
  unfold printDiagnostics exitStatus count
  have h : (ds.foldl (countStep (shouldExit all fail) showIgnored noCompile) {}).numErrors
      = (ds.filter (isError (shouldExit all fail) noCompile)).length := by
    have := (count_foldl (shouldExit all fail) showIgnored noCompile ds {}).1
    simpa using this
  simp only [h]
  have hex : 0 < (ds.filter (isError (shouldExit all fail) noCompile)).length ↔
      ∃ d ∈ ds, d.ignored = false ∧ ¬ (d.cat = compileTok ∧ noCompile = true) ∧
        (lower d.cat = staticcheckTok ∨ lower d.cat = compileTok ∨ lower d.cat = configTok ∨
          lastMatch (all.map lower) (fail.map lower) (lower d.cat) = some true) := by
    rw [List.length_pos_iff_exists_mem]
    constructor
    · rintro ⟨d, hd⟩
      rw [List.mem_filter] at hd
      obtain ⟨hm, he⟩ := hd
      simp only [isError, Bool.and_eq_true, Bool.not_eq_true', Bool.and_eq_false_iff,
        decide_eq_false_iff_not] at he
      refine ⟨d, hm, he.1.2, ?_, (shouldExit_get all fail _).mp he.2⟩
      rintro ⟨a, b⟩
      rcases he.1.1 with h | h
      · exact h a
      · simp [b] at h
    · rintro ⟨d, hm, hi, hc, hs⟩
      refine ⟨d, List.mem_filter.mpr ⟨hm, ?_⟩⟩
      simp only [isError, Bool.and_eq_true, Bool.not_eq_true', Bool.and_eq_false_iff,
        decide_eq_false_iff_not]
      refine ⟨⟨?_, hi⟩, (shouldExit_get all fail _).mpr hs⟩
      by_cases a : d.cat = compileTok
      · right
        cases hn : noCompile with
        | false => rfl
        | true => exact absurd ⟨a, hn⟩ hc
      · left; exact a
  rw [← hex]
  by_cases hp : 0 < (ds.filter (isError (shouldExit all fail) noCompile)).length
  · by_cases hf : fmt = .sarif <;> simp [hp, hf]
  · simp [hp]

/-- the exit status of a lint run is 0 or 1. -/
theorem exit_zero_or_one (all fail : List Name) (si nc : Bool) (fmt : Format) (ds : List Diag) :
    (printDiagnostics all fail si nc fmt ds).2 = 0 ∨ (printDiagnostics all fail si nc fmt ds).2 = 1 := by
  unfold printDiagnostics exitStatus
  simp only
  split <;> (try split) <;> simp

example : (printDiagnostics ["S1".toList] [] false false .text [⟨"S1".toList, false, 1⟩]).2 = 0
    ∧ (printDiagnostics ["S1".toList] ["S1".toList] false false .text [⟨"S1".toList, false, 1⟩]).2 = 1
    ∧ (printDiagnostics ["S1".toList] ["-all".toList] false true .text [⟨compileTok, false, 1⟩]).2 = 0
    ∧ (printDiagnostics ["S1".toList] ["-all".toList] false false .text [⟨compileTok, false, 1⟩]).2 = 1 := by decide

/-- SARIF output always exits zero. -/
theorem sarif_exits_zero (all fail : List Name) (si nc : Bool) (ds : List Diag) :
    (printDiagnostics all fail si nc .sarif ds).2 = 0 := by
  simp [printDiagnostics, exitStatus]

/-- the regression of DESIGN §6 row 7: a run whose only problem is ignored exits 0, also
under `-show-ignored`, while the problem is shown. -/
example : (printDiagnostics ["S1002".toList] ["all".toList] true false .text
    [⟨"S1002".toList, true, 1⟩]).2 = 0 := by decide
example : ((printDiagnostics ["S1002".toList] ["all".toList] true false .text
    [⟨"S1002".toList, true, 1⟩]).1.shown.map (·.1)) = [⟨"S1002".toList, true, 1⟩] := by decide
example : (printDiagnostics ["S1002".toList, "SA4000".toList] ["SA*".toList] false false .json
    [⟨"S1002".toList, false, 1⟩, ⟨"SA4000".toList, false, 2⟩]).2 = 1
  ∧ (printDiagnostics ["S1002".toList, "SA4000".toList] ["SA*".toList] false false .sarif
    [⟨"S1002".toList, false, 1⟩, ⟨"SA4000".toList, false, 2⟩]).2 = 0
  ∧ (printDiagnostics ["S1002".toList, "SA4000".toList] ["S*".toList] false false .json
    [⟨"S1002".toList, true, 1⟩, ⟨"SA4000".toList, false, 2⟩]).2 = 0 := by decide

/-- **shown_spec.** What is handed to the formatter: every problem except compile errors
under `-debug.no-compile-errors` and, unless `-show-ignored`, ignored ones — in order. -/
theorem shown_spec (all fail : List Name) (showIgnored noCompile : Bool) (fmt : Format)
    (ds : List Diag) :
    (printDiagnostics all fail showIgnored noCompile fmt ds).1.shown.map (·.1)
      = ds.filter (isShown showIgnored noCompile) := by
  unfold printDiagnostics count
  simpa using (count_foldl (shouldExit all fail) showIgnored noCompile ds {}).2

/-- every formatter is handed the same list. Holds by `rfl` (in the model the list does not
depend on the format by construction); kept as a lemma. The property clause about the
formatters is `formats_same_problems` in `FormatTheorems.lean`. -/
theorem shown_list_format_independent (all fail : List Name) (si nc : Bool) (f g : Format) (ds : List Diag) :
    (printDiagnostics all fail si nc f ds).1.shown = (printDiagnostics all fail si nc g ds).1.shown := rfl

end Verif.C11
