import Verif.Common.Proto
import Verif.C11.Model
import Verif.C11.Format
import Verif.C11.Package
/-!
Line protocol of the C11 model driver.

  name   ::= `x` hex*                      (UTF-8 bytes, may be empty)
  list   ::= `L:` name (`,` name)*  |  `L:` (empty list)
  checks ::= `N` (nil slice)  |  list
  level  ::= `A` (no file)  |  `C` checks
  diags  ::= `D:` (name `/` (`0`|`1`)) (`,` …)*  |  `D:`

  load <dflt:checks> <cmd:checks> <level>*        (levels innermost first)
      -> <Load result:checks> <effective:checks> <unresolved-inherit 0|1>
  sel <all:list> <sel:list> <keys:list>           -> one 0/1 per key
  success <all:list> <sel:list> <cats:list> <unused:nat>
      -> one 0/1 per diagnostic, then `/`, then 0/1: U1000 objects reported
  exit <all:list> <fail:list> <showIgnored> <noCompile> <fmt> <diags>
      -> <exit> <errors> <warnings> <ignored> <per diag: - not shown | e | w | i>

  chars <codepoint>*                              -> per code point `<isNumber 0|1>:<toLowerChar code point>`
  selmap <all:list> <sel:list>                    -> `L:` the keys the map of filterAnalyzerNames maps to true
  pkg <all:list> <dflt:checks> <cmd:checks> <n> (<dir> <level>)*n <k> (<dir> <0|1 inCache>)*k
      -> <effective:checks> <bits: packageAllowed per analyzer of all>       (dir ::= `D:` names outermost first)
  lintpkg <all:list> <sel:list> <problems> <directives> <unused:problems>
      -> reported problems `cat/ignored/file/line/col` joined by `,`
  exitcode lint|merge <format:name> <showIgnored> <noCompile> <all:list> <fail:list> <problems>  -> exit code (0, 1, 2)
  fmt <format> <showIgnored> <noCompile> <all:list> <fail:list> <short table> <problems>
      -> <exit> <total> <errors> <warnings> <ignored> <rendering>   (see `showRendering`)

  problem   ::= cat/ign/file/line/col/efile/eline/ecol/msg/build/related   (names as `x`hex)
  related   ::= (file:line:col:efile:eline:ecol:msg) joined by `;`
  problems  ::= `P:` problem (`,` problem)*
  directive ::= kind(l|f|m|u)/checks(names joined by `;`)/file/line/col/dfile/dline/dcol ;  directives ::= `G:` …
  short table ::= `S:` (name=name) joined by `,`      (shortPath of every file name that occurs)
-/
namespace Verif.C11
open Verif.Proto

def parseName (s : String) : Option Name :=
  match s.toList with
  | 'x' :: rest => do
    let bs ← hexDecodeBytes rest
    let str ← String.fromUTF8? ⟨bs.toArray⟩
    pure str.toList
  | _ => none

def showName (n : Name) : String :=
  "x" ++ String.ofList ((String.ofList n).toUTF8.toList.flatMap fun b =>
    [hexDigit (b.toNat / 16), hexDigit (b.toNat % 16)])

def parseItems {α : Type} (f : String → Option α) (body : String) : Option (List α) :=
  if body = "" then some [] else (body.splitOn ",").mapM f

def parseList (s : String) : Option (List Name) :=
  match s.toList with
  | 'L' :: ':' :: rest => parseItems parseName (String.ofList rest)
  | _ => none

def parseChecks (s : String) : Option Checks :=
  if s = "N" then some none else (parseList s).map some

def parseLevel (s : String) : Option Level :=
  match s.toList with
  | ['A'] => some .absent
  | 'C' :: rest => (parseChecks (String.ofList rest)).map .conf
  | _ => none

def showList (l : List Name) : String := "L:" ++ ",".intercalate (l.map showName)

def showChecks : Checks → String
  | none => "N"
  | some l => showList l

def parseDiag (s : String) : Option (Name × Bool) :=
  match s.splitOn "/" with
  | [n, b] => do
    let n ← parseName n
    let b ← parseBool b
    pure (n, b)
  | _ => none

def parseDiags (s : String) : Option (List Diag) :=
  match s.toList with
  | 'D' :: ':' :: rest => do
    let items ← parseItems parseDiag (String.ofList rest)
    pure (items.zipIdx.map fun ((n, b), i) => { cat := n, ignored := b, id := i })
  | _ => none

def parseFormat : String → Option Format
  | "text" => some .text | "stylish" => some .stylish | "json" => some .json
  | "sarif" => some .sarif | "null" => some .null | _ => none

def bits (l : List Bool) : String := String.ofList (l.map fun b => if b then '1' else '0')

def sevChar : Sev → Char
  | .error => 'e' | .warning => 'w' | .ignored => 'i'

/-! ### rich problems, directives, directories -/

def parsePos3 (f l c : String) : Option Pos := do
  let f ← parseName f
  let l ← parseNat l
  let c ← parseNat c
  pure ⟨f, l, c⟩

def parseRelated (s : String) : Option Related :=
  match s.splitOn ":" with
  | [f, l, c, ef, el, ec, m] => do
    let p ← parsePos3 f l c
    let e ← parsePos3 ef el ec
    let m ← parseName m
    pure ⟨p, e, m⟩
  | _ => none

def parseProblem (s : String) : Option Problem :=
  match s.splitOn "/" with
  | [cat, ign, f, l, c, ef, el, ec, msg, build, rel] => do
    let cat ← parseName cat
    let ign ← parseBool ign
    let p ← parsePos3 f l c
    let e ← parsePos3 ef el ec
    let msg ← parseName msg
    let build ← parseName build
    let rel ← if rel = "" then some [] else (rel.splitOn ";").mapM parseRelated
    pure { cat := cat, ignored := ign, pos := p, stop := e, msg := msg, related := rel, build := build }
  | _ => none

def parseProblems (s : String) : Option (List Problem) :=
  match s.toList with
  | 'P' :: ':' :: rest => parseItems parseProblem (String.ofList rest)
  | _ => none

def parseKind : String → Option DKind
  | "l" => some .line | "f" => some .file | "m" => some .malformed | "u" => some .unknown | _ => none

def parseDirective (s : String) : Option Directive :=
  match s.splitOn "/" with
  | [k, cs, f, l, c, df, dl, dc] => do
    let k ← parseKind k
    let cs ← if cs = "" then some [] else (cs.splitOn ";").mapM parseName
    let n ← parsePos3 f l c
    let d ← parsePos3 df dl dc
    pure ⟨k, cs, n, d⟩
  | _ => none

def parseDirectives (s : String) : Option (List Directive) :=
  match s.toList with
  | 'G' :: ':' :: rest => parseItems parseDirective (String.ofList rest)
  | _ => none

/-- `D:` names outermost first -> innermost first. -/
def parseDir (s : String) : Option Dir :=
  match s.toList with
  | 'D' :: ':' :: rest => (parseItems parseName (String.ofList rest)).map List.reverse
  | _ => none

def parseShort (s : String) : Option (List (Name × Name)) :=
  match s.toList with
  | 'S' :: ':' :: rest =>
    parseItems (fun it => match it.splitOn "=" with
      | [a, b] => do
        let a ← parseName a
        let b ← parseName b
        pure (a, b)
      | _ => none) (String.ofList rest)
  | _ => none

def takePairs {α β : Type} (fa : String → Option α) (fb : String → Option β) :
    Nat → List String → Option (List (α × β) × List String)
  | 0, rest => some ([], rest)
  | n + 1, a :: b :: rest => do
    let x ← fa a
    let y ← fb b
    let (l, r) ← takePairs fa fb n rest
    pure ((x, y) :: l, r)
  | _, _ => none

def showPosStr : PosStr → String
  | .dash => "-"
  | .file f => "f:" ++ showName f
  | .lc l c => s!"l:{l}:{c}"
  | .flc f l c => s!"q:{showName f}:{l}:{c}"

def showTextLine : TextLine → String
  | .problem pos msg build code => s!"P~{showPosStr pos}~{showName msg}~{showName build}~{showName code}"
  | .related pos msg => s!"R~{showPosStr pos}~{showName msg}"

def showStyLine : StyLine → String
  | .blank => "B"
  | .header f => "H~" ++ showName f
  | .row l c code msg => s!"W~{l}~{c}~{showName code}~{showName msg}"
  | .rel l c msg => s!"L~{l}~{c}~{showName msg}"

def showPosF (p : Pos) (sep : String) : String := s!"{showName p.file}{sep}{p.line}{sep}{p.col}"

def showJObj (o : JObj) : String :=
  let rels := ";".intercalate (o.related.map fun r =>
    s!"{showPosF r.location ":"}:{showPosF r.stop ":"}:{showName r.message}")
  s!"O~{showName o.code}~{showName o.severity}~{showPosF o.location "~"}~{showPosF o.stop "~"}~{showName o.message}~{rels}"

def showALoc (a : ALoc) (sep : String) : String := s!"{showName a.path}{sep}{showBool a.srcroot}"

def showRegion (r : Region) (sep : String) : String :=
  s!"{r.startLine}{sep}{r.startCol}{sep}{r.endLine}{sep}{r.endCol}"

def showSResult (r : SResult) : String :=
  let rels := ";".intercalate (r.related.map fun s =>
    s!"{s.id}:{showName s.msg}:{showALoc s.loc ":"}:{showRegion s.region ":"}")
  let supp := if r.suppressions.isEmpty then "-" else ",".intercalate (r.suppressions.map showName)
  s!"X~{showName r.ruleId}~{showName r.text}~{showALoc r.loc "~"}~{showRegion r.region "~"}~{supp}~{rels}"

def bar (l : List String) : String := if l.isEmpty then "-" else "|".intercalate l

def showRendering : Rendering → String
  | .text ls => bar (ls.map showTextLine)
  | .stylish s => bar (s.lines.map showStyLine)
  | .json os => bar (os.map showJObj)
  | .sarif s => bar (("U~" ++ ",".intercalate (s.rules.map showName)) :: s.results.map showSResult)
  | .null => "-"

def showReported (p : Problem) : String :=
  s!"{showName p.cat}/{showBool p.ignored}/{showName p.pos.file}/{p.pos.line}/{p.pos.col}"

/-- keys of the association list that read as `true`, each once. -/
def trueKeys (m : AMap) : List Name :=
  (m.map (·.1)).eraseDups.filter fun k => m.get k

def stepPkg (all dflt cmd : String) (rest : List String) : String :=
  match parseList all, parseChecks dflt, parseChecks cmd, rest with
  | some a, some d, some c, n :: rest =>
    match parseNat n with
    | none => "bad-op"
    | some n =>
      match takePairs parseDir parseLevel n rest with
      | some (confs, k :: rest) =>
        match parseNat k with
        | none => "bad-op"
        | some k =>
          match takePairs parseDir parseBool k rest with
          | some (files, []) =>
            let fs : ConfFS := fun dir => (confs.lookup dir).getD .absent
            let fl := files.map fun (dir, b) => (⟨dir, b⟩ : SrcFile)
            s!"{showChecks (packageEffective fs d c fl)} b{bits (a.map (packageAllowed a fs d c fl))}"
          | _ => "bad-op"
      | _ => "bad-op"
  | _, _, _, _ => "bad-op"

def step (line : String) : String :=
  match tokens line with
  | "chars" :: cps =>
    match cps.mapM parseNat with
    | some ns => " ".intercalate (ns.map fun n =>
        let c := Char.ofNat n
        s!"{showBool (isNumber c)}:{(toLowerChar c).toNat}")
    | none => "bad-op"
  | ["selmap", all, sel] =>
    match parseList all, parseList sel with
    | some a, some s => showList (trueKeys (filterAnalyzerNames (a.map lower) (s.map lower)))
    | _, _ => "bad-op"
  | "pkg" :: all :: dflt :: cmd :: rest => stepPkg all dflt cmd rest
  | ["lintpkg", all, sel, probs, dirs, unused] =>
    match parseList all, parseList sel, parseProblems probs, parseDirectives dirs, parseProblems unused with
    | some a, some s, some ps, some ds, some us =>
      let m := filterAnalyzerNames (a.map lower) (s.map lower)
      let out := lintPackageP (fun x y => x == y) m ps ds us
      if out.isEmpty then "-" else ",".intercalate (out.map showReported)
    | _, _, _, _, _ => "bad-op"
  | ["exitcode", mode, fmt, si, nc, all, fail, probs] =>
    match parseName fmt, parseBool si, parseBool nc, parseList all, parseList fail, parseProblems probs with
    | some fmt, some si, some nc, some a, some f, some ps =>
      if mode = "lint" then toString (lintExit fmt a f si nc ps)
      else if mode = "merge" then toString (mergeExit fmt a f si nc ps)
      else "bad-op"
    | _, _, _, _, _, _ => "bad-op"
  | ["fmt", fmt, si, nc, all, fail, short, probs] =>
    match parseFormat fmt, parseBool si, parseBool nc, parseList all, parseList fail, parseShort short,
        parseProblems probs with
    | some fmt, some si, some nc, some a, some f, some tbl, some ps =>
      let sh : Name → Name := fun n => (tbl.lookup n).getD n
      let (r, e) := output sh a f si nc fmt ps
      let st := stats a f si nc ps
      s!"{e} {st.total} {st.errors} {st.warnings} {st.ignored} {showRendering r}"
    | _, _, _, _, _, _, _ => "bad-op"
  | "load" :: dflt :: cmd :: levels =>
    match parseChecks dflt, parseChecks cmd, levels.mapM parseLevel with
    | some d, some c, some ls =>
      s!"{showChecks (load d ls)} {showChecks (effective d ls c)} {showBool (unresolvedInherit d ls)}"
    | _, _, _ => "bad-op"
  | ["sel", all, sel, keys] =>
    match parseList all, parseList sel, parseList keys with
    | some a, some s, some ks => "b" ++ bits (ks.map (allowed a s))
    | _, _, _ => "bad-op"
  | ["success", all, sel, cats, unused] =>
    match parseList all, parseList sel, parseList cats, parseNat unused with
    | some a, some s, some cs, some nu =>
      let m := filterAnalyzerNames (a.map lower) (s.map lower)
      let ds : List Diag := cs.zipIdx.map fun (c, i) => { cat := c, ignored := false, id := i }
      let us : List Diag := (List.range nu).map fun i => { cat := "U1000".toList, ignored := false, id := 1000000 + i }
      let out := lintPackage m ds [] us
      "b" ++ bits (ds.map fun d => out.contains d) ++ "/" ++ showBool (us.all fun u => out.contains u)
    | _, _, _, _ => "bad-op"
  | ["exit", all, fail, si, nc, fmt, diags] =>
    match parseList all, parseList fail, parseBool si, parseBool nc, parseFormat fmt, parseDiags diags with
    | some a, some f, some si, some nc, some fmt, some ds =>
      let (c, e) := printDiagnostics a f si nc fmt ds
      let shown := ds.map fun d =>
        match c.shown.find? (fun p => p.1.id == d.id) with
        | some p => sevChar p.2
        | none => '-'
      s!"{e} {c.numErrors} {c.numWarnings} {c.numIgnored} s{String.ofList shown}"
    | _, _, _, _, _, _ => "bad-op"
  | _ => "bad-op"

end Verif.C11
