import Verif.Common.Proto
import Verif.C11.Model
/-!
Line protocol of the C11 model driver.

  name   ::= `x` hex*                      (UTF-8 bytes, may be empty)
  list   ::= `L:` name (`,` name)*  |  `L:` (empty list)
  checks ::= `N` (nil slice)  |  list
  level  ::= `A` (no file)  |  `C` checks
  diags  ::= `D:` (name `/` (`0`|`1`)) (`,` …)*  |  `D:`

  load <dflt:checks> <cmd:checks> <level>*        (levels innermost first)
      -> <Load result:checks> <effective:checks> <unresolved-inherit 0|1>
  sel <all:list> <sel:list> <keys:list>           -> one 0/1 per key
  success <all:list> <sel:list> <cats:list> <unused:nat>
      -> one 0/1 per diagnostic, then `/`, then 0/1: U1000 objects reported
  exit <all:list> <fail:list> <showIgnored> <noCompile> <fmt> <diags>
      -> <exit> <errors> <warnings> <ignored> <per diag: - not shown | e | w | i>
-/
namespace Verif.C11
open Verif.Proto

def parseName (s : String) : Option Name :=
  match s.toList with
  | 'x' :: rest => do
    let bs ← hexDecodeBytes rest
    let str ← String.fromUTF8? ⟨bs.toArray⟩
    pure str.toList
  | _ => none

def showName (n : Name) : String :=
  "x" ++ String.ofList ((String.ofList n).toUTF8.toList.flatMap fun b =>
    [hexDigit (b.toNat / 16), hexDigit (b.toNat % 16)])

def parseItems {α : Type} (f : String → Option α) (body : String) : Option (List α) :=
  if body = "" then some [] else (body.splitOn ",").mapM f

def parseList (s : String) : Option (List Name) :=
  match s.toList with
  | 'L' :: ':' :: rest => parseItems parseName (String.ofList rest)
  | _ => none

def parseChecks (s : String) : Option Checks :=
  if s = "N" then some none else (parseList s).map some

def parseLevel (s : String) : Option Level :=
  match s.toList with
  | ['A'] => some .absent
  | 'C' :: rest => (parseChecks (String.ofList rest)).map .conf
  | _ => none

def showList (l : List Name) : String := "L:" ++ ",".intercalate (l.map showName)

def showChecks : Checks → String
  | none => "N"
  | some l => showList l

def parseDiag (s : String) : Option (Name × Bool) :=
  match s.splitOn "/" with
  | [n, b] => do
    let n ← parseName n
    let b ← parseBool b
    pure (n, b)
  | _ => none

def parseDiags (s : String) : Option (List Diag) :=
  match s.toList with
  | 'D' :: ':' :: rest => do
    let items ← parseItems parseDiag (String.ofList rest)
    pure (items.zipIdx.map fun ((n, b), i) => { cat := n, ignored := b, id := i })
  | _ => none

def parseFormat : String → Option Format
  | "text" => some .text | "stylish" => some .stylish | "json" => some .json
  | "sarif" => some .sarif | "null" => some .null | _ => none

def bits (l : List Bool) : String := String.ofList (l.map fun b => if b then '1' else '0')

def sevChar : Sev → Char
  | .error => 'e' | .warning => 'w' | .ignored => 'i'

def step (line : String) : String :=
  match tokens line with
  | "load" :: dflt :: cmd :: levels =>
    match parseChecks dflt, parseChecks cmd, levels.mapM parseLevel with
    | some d, some c, some ls =>
      s!"{showChecks (load d ls)} {showChecks (effective d ls c)} {showBool (unresolvedInherit d ls)}"
    | _, _, _ => "bad-op"
  | ["sel", all, sel, keys] =>
    match parseList all, parseList sel, parseList keys with
    | some a, some s, some ks => "b" ++ bits (ks.map (allowed a s))
    | _, _, _ => "bad-op"
  | ["success", all, sel, cats, unused] =>
    match parseList all, parseList sel, parseList cats, parseNat unused with
    | some a, some s, some cs, some nu =>
      let m := filterAnalyzerNames (a.map lower) (s.map lower)
      let ds : List Diag := cs.zipIdx.map fun (c, i) => { cat := c, ignored := false, id := i }
      let us : List Diag := (List.range nu).map fun i => { cat := "U1000".toList, ignored := false, id := 1000000 + i }
      let out := lintPackage m ds [] us
      "b" ++ bits (ds.map fun d => out.contains d) ++ "/" ++ showBool (us.all fun u => out.contains u)
    | _, _, _, _ => "bad-op"
  | ["exit", all, fail, si, nc, fmt, diags] =>
    match parseList all, parseList fail, parseBool si, parseBool nc, parseFormat fmt, parseDiags diags with
    | some a, some f, some si, some nc, some fmt, some ds =>
      let (c, e) := printDiagnostics a f si nc fmt ds
      let shown := ds.map fun d =>
        match c.shown.find? (fun p => p.1.id == d.id) with
        | some p => sevChar p.2
        | none => '-'
      s!"{e} {c.numErrors} {c.numWarnings} {c.numIgnored} s{String.ofList shown}"
    | _, _, _, _, _, _ => "bad-op"
  | _ => "bad-op"

end Verif.C11
