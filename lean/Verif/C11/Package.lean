import Verif.C11.Format
/-!
C11 — which configuration applies to which package, and the per-package part of
linter.lint including the directive problems (core Lean only; compiled into c11driver).

  config.Dir / dirAST               `configDir`    directory of the first file outside the build cache
  config.Analyzer.Run               `packageConfig`  DefaultConfig if there is no such file, else Load(dir)
  parseConfigs' walk `dir → root`   `walkDirs`, `walkOf` over a file system view `Dir → Level`
  subrunner.do                      `packageEffective`  (… .Merge(-checks))
  lintcmd.success                   `successP`     on rich problems
  parseDirectives / filterIgnored   `filterIgnoredP`  marks ignored problems, adds `compile` problems for
                                    malformed directives and `staticcheck` problems for line directives that
                                    matched nothing **and name a selected check**
  linter.lint (one package)         `lintPackageP`
-/
namespace Verif.C11

/-! ### package directory → configuration -/

/-- a directory: its path components, innermost first (`[]` is the root). -/
abbrev Dir := List Name

/-- the directories parseConfigs visits: `dir`, its parent, …, the root
(`for dir != "" { …; ndir := filepath.Dir(dir); if ndir == dir { break }; dir = ndir }`). -/
def walkDirs : Dir → List Dir
  | [] => [[]]
  | c :: up => (c :: up) :: walkDirs up

/-- what the file system holds: the staticcheck.conf (or none) of every directory. -/
abbrev ConfFS := Dir → Level

/-- the walk of parseConfigs from `d`, innermost first. -/
def walkOf (fs : ConfFS) (d : Dir) : List Level := (walkDirs d).map fs

/-- a file of a package: its directory, and whether it lies in the Go build cache
(`strings.HasPrefix(p, cache)`). -/
structure SrcFile where
  dir : Dir
  inCache : Bool
deriving DecidableEq, Repr

/-- config.Dir: the directory of the first file that is not in the build cache. -/
def configDir : List SrcFile → Option Dir
  | [] => none
  | f :: rest => if f.inCache then configDir rest else some f.dir

/-- config.Analyzer.Run: `DefaultConfig` (as it is) if no directory could be determined,
else `Load(dir)`. -/
def packageConfig (fs : ConfFS) (dflt : Checks) (files : List SrcFile) : Checks :=
  match configDir files with
  | none => dflt
  | some d => load dflt (walkOf fs d)

/-- subrunner.do: `a.cfg = a.Package.Config.Merge(r.cfg)`. -/
def packageEffective (fs : ConfFS) (dflt cmd : Checks) (files : List SrcFile) : Checks :=
  (packageConfig fs dflt files).merge cmd

/-- is check `k` applied to the package? -/
def packageAllowed (all : List Name) (fs : ConfFS) (dflt cmd : Checks) (files : List SrcFile) (k : Name) : Bool :=
  allowed all ((packageEffective fs dflt cmd files).getD []) k

/-! ### success + filterIgnored on one package -/

/-- lintcmd.success on rich problems. -/
def successP (m : AMap) (ps : List Problem) : List Problem :=
  ps.filter fun p => m.get (lower p.cat)

inductive DKind where
  /-- `//lint:ignore checks reason` -/
  | line
  /-- `//lint:file-ignore checks reason` -/
  | file
  /-- `ignore` / `file-ignore` with fewer than two arguments -/
  | malformed
  /-- any other command: skipped -/
  | unknown
deriving DecidableEq, Repr

structure Directive where
  kind : DKind
  /-- `strings.Split(args[0], ",")`, as written -/
  checks : List Name
  /-- NodePosition -/
  node : Pos
  /-- DirectivePosition -/
  at_ : Pos
deriving DecidableEq, Repr

/-- lineIgnore.match / fileIgnore.match; `pat` stands for `filepath.Match` (C10's subject). -/
def Directive.matches (pat : Name → Name → Bool) (ig : Directive) (p : Problem) : Bool :=
  match ig.kind with
  | .line => decide (p.pos.file = ig.node.file) && decide (p.pos.line = ig.node.line) &&
      ig.checks.any fun c => pat (lower c) (lower p.cat)
  | .file => decide (p.pos.file = ig.node.file) && ig.checks.any fun c => pat (lower c) (lower p.cat)
  | _ => false

/-- `couldHaveMatched`: some named check other than U1000 is in the allowed set. -/
def couldHaveMatched (m : AMap) (ig : Directive) : Bool :=
  ig.checks.any fun c => !(lower c == u1000) && m.get (lower c)

def zeroPos : Pos := ⟨[], 0, 0⟩
def uselessMsg : Name := ['u', 's', 'e', 'l', 'e', 's', 's']
def malformedMsg : Name := ['m', 'a', 'l', 'f', 'o', 'r', 'm', 'e', 'd']

/-- "this linter directive didn't match anything; should it be removed?" at the directive. -/
def uselessProblem (ig : Directive) : Problem :=
  { cat := staticcheckTok, ignored := false, pos := ig.at_, stop := zeroPos, msg := uselessMsg,
    related := [], build := [] }

/-- "malformed linter directive; missing the required reason field?" at the node. -/
def malformedProblem (ig : Directive) : Problem :=
  { cat := compileTok, ignored := false, pos := ig.node, stop := zeroPos, msg := malformedMsg,
    related := [], build := [] }

/-- a line directive is reported as useless: it matched none of the problems it was given
(those that passed `success`) and could have matched. -/
def isUseless (pat : Name → Name → Bool) (m : AMap) (ps : List Problem) (ig : Directive) : Bool :=
  decide (ig.kind = .line) && !(ps.any (ig.matches pat)) && couldHaveMatched m ig

/-- lintcmd.filterIgnored (with parseDirectives): `ps` are the problems that passed `success`. -/
def filterIgnoredP (pat : Name → Name → Bool) (m : AMap) (ps : List Problem) (dirs : List Directive) :
    List Problem :=
  (ps.map fun p => if dirs.any (fun ig => ig.matches pat p) then { p with ignored := true } else p)
  ++ (dirs.filter fun ig => ig.kind = .malformed).map malformedProblem
  ++ (dirs.filter (isUseless pat m ps)).map uselessProblem

/-- the per-package part of linter.lint: `success`, `filterIgnored`, the U1000 gate. -/
def lintPackageP (pat : Name → Name → Bool) (m : AMap) (diags : List Problem) (dirs : List Directive)
    (unused : List Problem) : List Problem :=
  filterIgnoredP pat m (successP m diags) dirs ++ (if m.get u1000 then unused else [])

end Verif.C11
