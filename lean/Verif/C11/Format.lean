import Verif.C11.Model
/-!
C11 — the four formatters of lintcmd (format.go, sarif.go) and the part of
printDiagnostics that hands them their input (core Lean only; compiled into c11driver).

A problem now carries what the formatters read: position, end, message, related
information, build name.  A rendering is *abstract*: the sequence of lines / objects a
formatter writes, each with its fields, but not the concrete bytes (tabwriter padding,
JSON escaping, URI escaping).  The check parses the real output of each format into the
same structure and compares it field by field with the model's rendering.

  textFormatter.Format      `renderText`     one `problem` line per problem, then its `related` lines
  relativePositionString    `posStr`         `-` | `file` | `line:col` | `file:line:col`
  stylishFormatter.Format   `styLines`       header when the file changes (blank line before all but the first), rows
  stylishFormatter.Stats    `stats`          total, errors, warnings, ignored
  jsonFormatter.Format      `renderJson`     one object per problem
  sarifFormatter.Format     `renderSarif`    rules sorted by ID, one result per problem
  printDiagnostics          `classify`, `shownProblems`  (the counting loop, on rich problems)

`short` stands for `shortPath` (path relative to the working directory if that is shorter).
-/
namespace Verif.C11

structure Pos where
  file : Name
  line : Nat
  col : Nat
deriving DecidableEq, Repr

structure Related where
  pos : Pos
  stop : Pos
  msg : Name
deriving DecidableEq, Repr

/-- lintcmd.diagnostic as far as printDiagnostics and the formatters read it. -/
structure Problem where
  cat : Name
  ignored : Bool
  pos : Pos
  stop : Pos
  msg : Name
  related : List Related
  build : Name
deriving DecidableEq, Repr

/-- the view of a problem the counting model of `Model.lean` has. -/
def Problem.diag (p : Problem) : Diag := { cat := p.cat, ignored := p.ignored, id := 0 }

/-! ### printDiagnostics: which problems reach the formatter, with which severity -/

/-- body of the counting loop for one problem: `none` = not handed to the formatter. -/
def classify (se : AMap) (showIgnored noCompile : Bool) (p : Problem) : Option Sev :=
  if p.cat = compileTok ∧ noCompile then none
  else if p.ignored then (if showIgnored then some .ignored else none)
  else if se.get (lower p.cat) then some .error
  else some .warning

/-- the slice `notIgnored` of printDiagnostics. -/
def shownProblems (se : AMap) (showIgnored noCompile : Bool) (ps : List Problem) :
    List (Problem × Sev) :=
  ps.filterMap fun p => (classify se showIgnored noCompile p).map fun s => (p, s)

structure Stats where
  total : Nat
  errors : Nat
  warnings : Nat
  ignored : Nat
deriving DecidableEq, Repr

/-- the arguments of `Stats(len(diagnostics), numErrors, numWarnings, numIgnored)`. -/
def stats (all fail : List Name) (showIgnored noCompile : Bool) (ps : List Problem) : Stats :=
  let c := count all fail showIgnored noCompile (ps.map Problem.diag)
  { total := ps.length, errors := c.numErrors, warnings := c.numWarnings, ignored := c.numIgnored }

/-! ### text -/

/-- the four shapes relativePositionString produces. -/
inductive PosStr where
  | dash
  | file (f : Name)
  | lc (line col : Nat)
  | flc (f : Name) (line col : Nat)
deriving DecidableEq, Repr

/-- relativePositionString: `s := shortPath(file); if pos.IsValid() { if s != "" { s += ":" };
s += line:col }; if s == "" { s = "-" }`; `IsValid` is `Line > 0`. -/
def posStr (short : Name → Name) (p : Pos) : PosStr :=
  if p.line > 0 then
    (if short p.file = [] then .lc p.line p.col else .flc (short p.file) p.line p.col)
  else
    (if short p.file = [] then .dash else .file (short p.file))

inductive TextLine where
  /-- `<pos>: <msg> [<build>] (<code>)`; an empty build name is not printed -/
  | problem (pos : PosStr) (msg build code : Name)
  /-- `\t<pos>: <msg>` -/
  | related (pos : PosStr) (msg : Name)
deriving DecidableEq, Repr

def textLines (short : Name → Name) (p : Problem) : List TextLine :=
  .problem (posStr short p.pos) p.msg p.build p.cat ::
    p.related.map fun r => .related (posStr short r.pos) r.msg

/-- textFormatter.Format. -/
def renderText (short : Name → Name) (xs : List (Problem × Sev)) : List TextLine :=
  xs.flatMap fun x => textLines short x.1

/-! ### stylish -/

inductive StyLine where
  | blank
  | header (file : Name)
  /-- `  (line, col)\tcode\tmessage` -/
  | row (line col : Nat) (code msg : Name)
  /-- `    (line, col)\t\t  message` -/
  | rel (line col : Nat) (msg : Name)
deriving DecidableEq, Repr

/-- `if pos.Filename == "" { pos.Filename = "-" }` -/
def dashFile (f : Name) : Name := if f = [] then ['-'] else f

/-- the loop of stylishFormatter.Format; `prev` is `o.prevFile`. -/
def styLines (prev : Name) : List (Problem × Sev) → List StyLine
  | [] => []
  | x :: rest =>
    (if dashFile x.1.pos.file = prev then []
      else (if prev = [] then [] else [StyLine.blank]) ++ [StyLine.header (dashFile x.1.pos.file)])
    ++ (StyLine.row x.1.pos.line x.1.pos.col x.1.cat x.1.msg ::
          x.1.related.map fun r => StyLine.rel r.pos.line r.pos.col r.msg)
    ++ styLines (dashFile x.1.pos.file) rest

structure Stylish where
  lines : List StyLine
  stats : Stats
deriving DecidableEq, Repr

/-! ### JSON -/

def errorStr : Name := ['e', 'r', 'r', 'o', 'r']
def warningStr : Name := ['w', 'a', 'r', 'n', 'i', 'n', 'g']
def ignoredStr : Name := ['i', 'g', 'n', 'o', 'r', 'e', 'd']

/-- severity.String() -/
def sevString : Sev → Name
  | .error => errorStr
  | .warning => warningStr
  | .ignored => ignoredStr

structure JRelated where
  location : Pos
  stop : Pos
  message : Name
deriving DecidableEq, Repr

structure JObj where
  code : Name
  severity : Name
  location : Pos
  stop : Pos
  message : Name
  related : List JRelated
deriving DecidableEq, Repr

/-- jsonFormatter.Format. -/
def renderJson (xs : List (Problem × Sev)) : List JObj :=
  xs.map fun x =>
    { code := x.1.cat, severity := sevString x.2, location := x.1.pos, stop := x.1.stop,
      message := x.1.msg,
      related := x.1.related.map fun r => { location := r.pos, stop := r.stop, message := r.msg } }

/-! ### SARIF -/

/-- sarifArtifactLocation: the shortened path; `uriBaseId = %SRCROOT%` iff it is relative. -/
structure ALoc where
  path : Name
  srcroot : Bool
deriving DecidableEq, Repr

def aloc (short : Name → Name) (f : Name) : ALoc :=
  { path := short f, srcroot := !((short f).head? == some '/') }

structure Region where
  startLine : Nat
  startCol : Nat
  endLine : Nat
  endCol : Nat
deriving DecidableEq, Repr

structure SRel where
  id : Nat
  msg : Name
  loc : ALoc
  region : Region
deriving DecidableEq, Repr

structure SResult where
  ruleId : Name
  text : Name
  loc : ALoc
  region : Region
  related : List SRel
  /-- kinds of the suppressions: `[]` (not suppressed) or `["inSource"]` -/
  suppressions : List Name
deriving DecidableEq, Repr

def inSource : Name := ['i', 'n', 'S', 'o', 'u', 'r', 'c', 'e']

/-- `fmt.Sprintf("\n\t[%s](%d)", related.Message, i+1)` -/
def relRef (id : Nat) (msg : Name) : Name :=
  ['\n', '\t', '['] ++ msg ++ [']', '('] ++ (Nat.repr id).toList ++ [')']

/-- related information number `i` (0-based) gets the id `i+1`. -/
def sarifRelated (short : Name → Name) (i : Nat) : List Related → List SRel
  | [] => []
  | r :: rest =>
    { id := i + 1, msg := r.msg, loc := aloc short r.pos.file,
      region := ⟨r.pos.line, r.pos.col, r.stop.line, r.stop.col⟩ } :: sarifRelated short (i + 1) rest

def refSuffix (rels : List SRel) : Name := (rels.map fun r => relRef r.id r.msg).flatten

def sarifResult (short : Name → Name) (x : Problem × Sev) : SResult :=
  let rels := sarifRelated short 0 x.1.related
  { ruleId := x.1.cat, text := x.1.msg ++ refSuffix rels, loc := aloc short x.1.pos.file,
    region := ⟨x.1.pos.line, x.1.pos.col, x.1.stop.line, x.1.stop.col⟩, related := rels,
    suppressions := if x.2 = .ignored then [inSource] else [] }

/-- Go's `<` on strings (bytes of UTF-8 = code points). -/
def nameLt : Name → Name → Bool
  | [], [] => false
  | [], _ :: _ => true
  | _ :: _, [] => false
  | a :: as, b :: bs => if a < b then true else if b < a then false else nameLt as bs

def insertName (x : Name) : List Name → List Name
  | [] => [x]
  | y :: ys => if nameLt y x then y :: insertName x ys else x :: y :: ys

/-- `sort.Slice(rules, ID <)` (the checks come out of a map; names are distinct). -/
def sortNames (l : List Name) : List Name := l.foldr insertName []

structure Sarif where
  rules : List Name
  results : List SResult
deriving DecidableEq, Repr

/-- sarifFormatter.Format: `checks` are the analyzer names in map order. -/
def renderSarif (short : Name → Name) (checks : List Name) (xs : List (Problem × Sev)) : Sarif :=
  { rules := sortNames checks, results := xs.map (sarifResult short) }

/-! ### the whole of printDiagnostics after sorting -/

inductive Rendering where
  | text (ls : List TextLine)
  | stylish (s : Stylish)
  | json (os : List JObj)
  | sarif (s : Sarif)
  | null
deriving DecidableEq, Repr

/-- counting loop, `f.Format`, `f.Stats`, exit status. `checks` = analyzer names (original
case) in the order of the `cs` slice. -/
def output (short : Name → Name) (all fail : List Name) (showIgnored noCompile : Bool)
    (fmt : Format) (ps : List Problem) : Rendering × Nat :=
  let xs := shownProblems (shouldExit all fail) showIgnored noCompile ps
  let e := (printDiagnostics all fail showIgnored noCompile fmt (ps.map Problem.diag)).2
  match fmt with
  | .text => (.text (renderText short xs), e)
  | .stylish => (.stylish ⟨styLines [] xs, stats all fail showIgnored noCompile ps⟩, e)
  | .json => (.json (renderJson xs), e)
  | .sarif => (.sarif (renderSarif short all xs), e)
  | .null => (.null, e)

/-! ### the value of `-f` and the exit code 2 paths -/

inductive FormatArg where
  | known (f : Format)
  /-- `-f binary`: a lint run writes the gob encoded result -/
  | binary
  | unsupported
deriving DecidableEq, Repr

def textStr : Name := ['t', 'e', 'x', 't']
def stylishStr : Name := ['s', 't', 'y', 'l', 'i', 's', 'h']
def jsonStr : Name := ['j', 's', 'o', 'n']
def sarifStr : Name := ['s', 'a', 'r', 'i', 'f']
def nullStr : Name := ['n', 'u', 'l', 'l']
def binaryStr : Name := ['b', 'i', 'n', 'a', 'r', 'y']

/-- the `switch cmd.flags.formatter` of Command.lint / printDiagnostics (exact, case sensitive). -/
def formatArg (s : Name) : FormatArg :=
  if s = textStr then .known .text
  else if s = stylishStr then .known .stylish
  else if s = jsonStr then .known .json
  else if s = sarifStr then .known .sarif
  else if s = nullStr then .known .null
  else if s = binaryStr then .binary
  else .unsupported

/-- exit status of a lint run (Command.lint): an unsupported format exits 2 before anything
is linted; `-f binary` writes the result and exits 0; otherwise printDiagnostics decides. -/
def lintExit (fmt : Name) (all fail : List Name) (showIgnored noCompile : Bool) (ps : List Problem) : Nat :=
  match formatArg fmt with
  | .known f => (printDiagnostics all fail showIgnored noCompile f (ps.map Problem.diag)).2
  | .binary => 0
  | .unsupported => 2

/-- exit status of `staticcheck -merge -f fmt files` for readable files (Command.merge →
printDiagnostics): `-f binary` "not supported in this context" and unknown formats exit 2. -/
def mergeExit (fmt : Name) (all fail : List Name) (showIgnored noCompile : Bool) (ps : List Problem) : Nat :=
  match formatArg fmt with
  | .known f => (printDiagnostics all fail showIgnored noCompile f (ps.map Problem.diag)).2
  | .binary => 2
  | .unsupported => 2

end Verif.C11
