/-
C11 — check selection, config inheritance, exit status.

Model (transliteration, core Lean only) of
  * config.mergeLists, config.normalizeList, Config.Merge (the `Checks` field),
    config.parseConfigs over an abstract directory walk, config.mergeConfigs, config.Load
  * the command-line merge of lintcmd/runner (`a.Package.Config.Merge(r.cfg)`)
  * lintcmd.filterAnalyzerNames (with makeCaseFoldedString = `lower`)
  * lintcmd.success, and the selection dependent part of linter.lint (U1000 gate)
  * the counting / exit-status part of lintcmd.(*Command).printDiagnostics

Names are `List Char` (Unicode code points; byte-wise slicing of the Go strings happens
only at ASCII characters, so it agrees with slicing the code point list).
`strings.ToLower` / `unicode.IsNumber` are modelled by `toLowerChar` / `isNumber`: ASCII
plus explicit tables of the non-ASCII characters the generators draw from (numerals of
the categories Nd, No, Nl; letters with one-to-one, many-to-one and ASCII-valued lower
case mappings).  The check compares both functions with the Go library on every character
of the alphabet on every run (hypothesis "the tables are the Go tables on the alphabet",
probed).  Go loops are folds; Go maps are association lists where the most recent binding
of a key is the first one found.
-/
namespace Verif.C11

abbrev Name := List Char

def inheritTok : Name := ['i', 'n', 'h', 'e', 'r', 'i', 't']
def allTok : Name := ['a', 'l', 'l']
def starTok : Name := ['*']

/-! ### package config -/

/-- config.mergeLists: `for _, el := range b { if el == "inherit" { out = append(out, a...) }
else { out = append(out, el) } }`. -/
def mergeLists (a b : List Name) : List Name :=
  b.foldl (fun out el => if el = inheritTok then out ++ a else out ++ [el]) []

/-- the loop of config.normalizeList: keep `el = list[i+1]` iff it differs from `list[i]`. -/
def dedupFrom (prev : Name) : List Name → List Name
  | [] => []
  | el :: rest => if el = prev then dedupFrom el rest else el :: dedupFrom el rest

/-- config.normalizeList without its panic (see `unresolvedInherit`). -/
def normalizeList : List Name → List Name
  | [] => []
  | x :: rest => x :: dedupFrom x rest

/-- The `Checks` field of config.Config: `none` is the nil slice (option not set). -/
abbrev Checks := Option (List Name)

/-- Config.Merge restricted to `Checks`: `if ocfg.Checks != nil { cfg.Checks =
mergeLists(cfg.Checks, ocfg.Checks) }`. -/
def Checks.merge (cfg ocfg : Checks) : Checks :=
  match ocfg with
  | none => cfg
  | some b => some (mergeLists (cfg.getD []) b)

/-- One directory of the walk of parseConfigs (from the package directory up to the
root): either there is no staticcheck.conf, or there is one with `checks` set or not. -/
inductive Level where
  | absent
  | conf (checks : Checks)
deriving DecidableEq, Repr

/-- one directory of the walk: `out = append(out, cfg)` if a file is there. -/
def walkStep (out : List Checks) (lv : Level) : List Checks :=
  match lv with
  | .absent => out
  | .conf c => out ++ [c]

/-- config.parseConfigs: collect the files walking up, append the default, reverse. -/
def parseConfigs (dflt : Checks) (walk : List Level) : List Checks :=
  let out := walk.foldl walkStep []
  (out ++ [dflt]).reverse

/-- config.mergeConfigs (`[]` panics in Go; parseConfigs never returns it). -/
def mergeConfigs : List Checks → Checks
  | [] => none
  | c :: rest => rest.foldl Checks.merge c

/-- config.Load, `Checks` field. -/
def load (dflt : Checks) (walk : List Level) : Checks :=
  (mergeConfigs (parseConfigs dflt walk)).map normalizeList

/-- the panic of normalizeList: an `"inherit"` survived merging. -/
def unresolvedInherit (dflt : Checks) (walk : List Level) : Bool :=
  match load dflt walk with
  | none => false
  | some l => l.contains inheritTok

/-- subrunner.do: `a.cfg = a.Package.Config.Merge(r.cfg)`; `cmd` is `-checks`
(`some ["inherit"]` by default, `none` for `-checks ""`). -/
def effective (dflt : Checks) (walk : List Level) (cmd : Checks) : Checks :=
  (load dflt walk).merge cmd

/-! ### selection -/

/-- non-ASCII characters of the alphabet for which `unicode.IsNumber` holds:
ARABIC-INDIC DIGIT THREE (Nd), SUPERSCRIPT TWO (No), VULGAR FRACTION ONE HALF (No), ROMAN
NUMERAL EIGHT and SMALL ROMAN NUMERAL EIGHT (Nl), FULLWIDTH DIGIT FIVE (Nd), BENGALI DIGIT
FOUR (Nd), IDEOGRAPHIC NUMBER ZERO (Nl). -/
def numberTable : List Char :=
  ['\u0663', '\u00b2', '\u00bd', '\u2167', '\u2177', '\uff15', '\u09ea', '\u3007']

/-- `unicode.IsNumber` on the alphabet (ASCII and the tables). -/
def isNumber (c : Char) : Bool := c.isDigit || numberTable.contains c

/-- non-ASCII characters of the alphabet that `unicode.ToLower` changes: É Ä Σ, LATIN
CAPITAL I WITH DOT ABOVE (→ ASCII i), KELVIN SIGN (→ ASCII k), the title case digraph
U+01C5, ROMAN NUMERAL EIGHT (a numeral with a lower case), FULLWIDTH A, CAPITAL SHARP S. -/
def lowerTable : List (Char × Char) :=
  [('\u00c9', '\u00e9'), ('\u00c4', '\u00e4'), ('\u03a3', '\u03c3'), ('\u0130', 'i'),
   ('\u212a', 'k'), ('\u01c5', '\u01c6'), ('\u2167', '\u2177'), ('\uff21', '\uff41'),
   ('\u1e9e', '\u00df')]

/-- `unicode.ToLower` on the alphabet. -/
def toLowerChar (c : Char) : Char := (lowerTable.lookup c).getD c.toLower

/-- `strings.ToLower` (rune-wise `unicode.ToLower`). -/
def lower (s : Name) : Name := s.map toLowerChar

/-- Go map from case folded check name to bool; newest binding first. -/
abbrev AMap := List (Name × Bool)

def AMap.set (m : AMap) (k : Name) (b : Bool) : AMap := (k, b) :: m

/-- `m[k]` (missing key reads as false). -/
def AMap.get (m : AMap) (k : Name) : Bool := (m.lookup k).getD false

def hasDigit (s : Name) : Bool := s.any isNumber

/-- `a.Slice(0, strings.IndexFunc(a, unicode.IsNumber))`; without a digit the index is
-1 and `Slice(0, -1)` is the whole string. -/
def catOf (a : Name) : Name := a.takeWhile (fun c => !isNumber c)

/-- `if check.Length() > 1 && check.Index(0) == '-' { b = false; check = check.Slice(1, -1) }` -/
def parseEntry (check : Name) : Bool × Name :=
  match check with
  | '-' :: c :: rest => (false, c :: rest)
  | _ => (true, check)

def endsWithStar (s : Name) : Bool := s.getLast? == some '*'

/-- one iteration of the outer loop of filterAnalyzerNames. -/
def applyCheck (all : List Name) (m : AMap) (check : Name) : AMap :=
  let b := (parseEntry check).1
  let body := (parseEntry check).2
  if body = starTok ∨ body = allTok then
    all.foldl (fun m a => m.set a b) m
  else if endsWithStar body then
    let pre := body.dropLast
    let isCat := !hasDigit pre
    all.foldl (fun m a =>
      if isCat then (if pre = catOf a then m.set a b else m)
      else (if pre.isPrefixOf a then m.set a b else m)) m
  else
    m.set body b

/-- lintcmd.filterAnalyzerNames; both arguments already case folded. -/
def filterAnalyzerNames (all : List Name) (selection : List Name) : AMap :=
  selection.foldl (applyCheck all) []

/-- is check `k` allowed by the (unfolded) list `sel`, for analyzers `all`. -/
def allowed (all : List Name) (sel : List Name) (k : Name) : Bool :=
  (filterAnalyzerNames (all.map lower) (sel.map lower)).get (lower k)

/-! ### problems -/

/-- a problem; `id` stands for position, end and message. -/
structure Diag where
  cat : Name
  ignored : Bool
  id : Nat
deriving DecidableEq, Repr

/-- lintcmd.success: keep the diagnostics whose category is allowed. -/
def success (m : AMap) (diags : List Diag) : List Diag :=
  diags.foldl (fun out d => if m.get (lower d.cat) then out ++ [d] else out) []

def u1000 : Name := ['u', '1', '0', '0', '0']

/-- the selection dependent part of linter.lint for one package: analyzer diagnostics go
through `success`; `extra` are the diagnostics added by filterIgnored (category
staticcheck / compile, C10); the U1000 objects are reported iff U1000 is allowed. -/
def lintPackage (m : AMap) (diags extra unused : List Diag) : List Diag :=
  success m diags ++ extra ++ (if m.get u1000 then unused else [])

/-! ### exit status -/

inductive Format where
  | text | stylish | json | sarif | null
deriving DecidableEq, Repr

inductive Sev where
  | error | warning | ignored
deriving DecidableEq, Repr

def staticcheckTok : Name := ['s', 't', 'a', 't', 'i', 'c', 'c', 'h', 'e', 'c', 'k']
def compileTok : Name := ['c', 'o', 'm', 'p', 'i', 'l', 'e']
def configTok : Name := ['c', 'o', 'n', 'f', 'i', 'g']

/-- `shouldExit` of printDiagnostics. -/
def shouldExit (all fail : List Name) : AMap :=
  (((filterAnalyzerNames (all.map lower) (fail.map lower)).set staticcheckTok true).set
    compileTok true).set configTok true

structure Counts where
  shown : List (Diag × Sev) := []
  numErrors : Nat := 0
  numWarnings : Nat := 0
  numIgnored : Nat := 0
deriving Repr

/-- body of the counting loop of printDiagnostics (after the fix of the `-show-ignored`
defect: an ignored problem is counted as ignored and keeps its severity whether or not
it is shown). -/
def countStep (se : AMap) (showIgnored noCompile : Bool) (c : Counts) (d : Diag) : Counts :=
  if d.cat = compileTok ∧ noCompile then c
  else if d.ignored then
    if showIgnored then { c with numIgnored := c.numIgnored + 1, shown := c.shown ++ [(d, .ignored)] }
    else { c with numIgnored := c.numIgnored + 1 }
  else if se.get (lower d.cat) then
    { c with numErrors := c.numErrors + 1, shown := c.shown ++ [(d, .error)] }
  else
    { c with numWarnings := c.numWarnings + 1, shown := c.shown ++ [(d, .warning)] }

def count (all fail : List Name) (showIgnored noCompile : Bool) (ds : List Diag) : Counts :=
  ds.foldl (countStep (shouldExit all fail) showIgnored noCompile) {}

/-- `if numErrors > 0 { if sarif { return 0 } else { return 1 } }; return 0` -/
def exitStatus (fmt : Format) (c : Counts) : Nat :=
  if c.numErrors > 0 then (if fmt = .sarif then 0 else 1) else 0

def printDiagnostics (all fail : List Name) (showIgnored noCompile : Bool) (fmt : Format)
    (ds : List Diag) : Counts × Nat :=
  let c := count all fail showIgnored noCompile ds
  (c, exitStatus fmt c)

end Verif.C11
