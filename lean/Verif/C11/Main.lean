import Verif.C11.Driver
def main : IO UInt32 := do
  Verif.Proto.runLines Verif.C11.step
  return 0
