import Verif.C11.Format
import Verif.C11.Theorems
/-!
C11 — theorems about the four formatters: from each rendering exactly the problems handed
to the formatter can be read back (`*_extract`), hence all four carry the same problems
(`formats_agree`, `formats_same_problems`); the severity shown is the one the `-fail` set
defines; ignored problems appear only under `-show-ignored`; the stylish counts are the
counts of what is shown.
-/
namespace Verif.C11

/-! ## 1. What reaches the formatter -/

/-- the problem is handed to the formatter (`isShown` of `Theorems.lean` on rich problems). -/
def isShownP (showIgnored noCompile : Bool) (p : Problem) : Bool :=
  isShown showIgnored noCompile p.diag

theorem classify_isSome (se : AMap) (si nc : Bool) (p : Problem) :
    (classify se si nc p).isSome = isShownP si nc p := by
  unfold classify isShownP isShown Problem.diag
  by_cases a : p.cat = compileTok <;> by_cases b : nc = true <;> by_cases i : p.ignored = true <;>
    by_cases s : si = true <;> by_cases e : se.get (lower p.cat) = true <;> simp_all

/-- **shown_problems_spec.** The problems handed to the formatter are, in order, all
problems except compile errors under `-debug.no-compile-errors` and (unless
`-show-ignored`) the ignored ones; the `-fail` list has no influence on *which* are shown. -/
theorem shown_problems_spec (se : AMap) (si nc : Bool) (ps : List Problem) :
    (shownProblems se si nc ps).map (·.1) = ps.filter (isShownP si nc) := by
  induction ps with
  | nil => simp [shownProblems]
  | cons p rest ih =>
    have h := classify_isSome se si nc p
    unfold shownProblems at ih ⊢
    simp only [List.filterMap_cons, List.filter_cons]
    cases hc : classify se si nc p with
    | none =>
      rw [hc] at h
      simp only [Option.isSome_none] at h
      simp [← h, ih]
    | some s =>
      rw [hc] at h
      simp only [Option.isSome_some] at h
      simp [← h, ih]

example : (shownProblems [] false false
    [⟨"S1".toList, true, ⟨[], 0, 0⟩, ⟨[], 0, 0⟩, [], [], []⟩, ⟨"S2".toList, false, ⟨[], 0, 0⟩, ⟨[], 0, 0⟩, [], [], []⟩]).map
      (·.1.cat) = ["S2".toList] := by decide

/-- **severity_spec.** A shown problem is labelled `ignored` iff it is ignored (then
`-show-ignored` is set), `error` iff it is live and the last `-fail` entry naming its check
enables it or it is a compile / config / directive problem, `warning` otherwise. -/
theorem severity_spec (all fail : List Name) (si nc : Bool) (ps : List Problem) (p : Problem) (s : Sev) :
    (p, s) ∈ shownProblems (shouldExit all fail) si nc ps ↔
      p ∈ ps ∧ ¬ (p.cat = compileTok ∧ nc = true) ∧
        ((s = .ignored ∧ p.ignored = true ∧ si = true) ∨
         (s = .error ∧ p.ignored = false ∧
            (lower p.cat = staticcheckTok ∨ lower p.cat = compileTok ∨ lower p.cat = configTok ∨
              lastMatch (all.map lower) (fail.map lower) (lower p.cat) = some true)) ∨
         (s = .warning ∧ p.ignored = false ∧
            ¬ (lower p.cat = staticcheckTok ∨ lower p.cat = compileTok ∨ lower p.cat = configTok ∨
              lastMatch (all.map lower) (fail.map lower) (lower p.cat) = some true))) := by
  unfold shownProblems
  simp only [List.mem_filterMap, Option.map_eq_some_iff, Prod.mk.injEq]
  have hg := shouldExit_get all fail (lower p.cat)
  constructor
  · rintro ⟨q, hq, s', hc, rfl, rfl⟩
    refine ⟨hq, ?_⟩
    unfold classify at hc
    by_cases a : q.cat = compileTok ∧ nc = true
    · simp [a] at hc
    · refine ⟨a, ?_⟩
      simp only [a, if_false] at hc
      by_cases i : q.ignored = true
      · simp only [i, if_true] at hc
        by_cases s : si = true
        · simp only [s, if_true, Option.some.injEq] at hc
          left; exact ⟨hc.symm, i, s⟩
        · simp [s] at hc
      · have i' : q.ignored = false := by simpa using i
        simp only [i', Bool.false_eq_true, if_false] at hc
        by_cases e : (shouldExit all fail).get (lower q.cat) = true
        · simp only [e, if_true, Option.some.injEq] at hc
          right; left; exact ⟨hc.symm, i', hg.mp e⟩
        · have e' : (shouldExit all fail).get (lower q.cat) = false := by simpa using e
          simp only [e', Bool.false_eq_true, if_false, Option.some.injEq] at hc
          right; right; exact ⟨hc.symm, i', fun h => e (hg.mpr h)⟩
  · rintro ⟨hp, a, h⟩
    refine ⟨p, hp, s, ?_, rfl, rfl⟩
    unfold classify
    simp only [a, if_false]
    rcases h with ⟨rfl, i, s⟩ | ⟨rfl, i, e⟩ | ⟨rfl, i, e⟩
    · simp [i, s]
    · simp [i, hg.mpr e]
    · have : ¬ (shouldExit all fail).get (lower p.cat) = true := fun h => e (hg.mp h)
      simp [i, this]

example : (shownProblems (shouldExit ["S1002".toList, "SA4000".toList] ["SA*".toList]) true false
    [⟨"S1002".toList, false, ⟨[], 1, 1⟩, ⟨[], 1, 1⟩, [], [], []⟩,
     ⟨"SA4000".toList, false, ⟨[], 2, 1⟩, ⟨[], 2, 1⟩, [], [], []⟩,
     ⟨"SA4000".toList, true, ⟨[], 3, 1⟩, ⟨[], 3, 1⟩, [], [], []⟩]).map (·.2)
    = [.warning, .error, .ignored] := by decide

/-- **ignored_only_with_show_ignored.** Without `-show-ignored` nothing that is handed to a
formatter is an ignored problem or carries the severity `ignored`. -/
theorem ignored_only_with_show_ignored (se : AMap) (nc : Bool) (ps : List Problem) (x : Problem × Sev)
    (h : x ∈ shownProblems se false nc ps) : x.1.ignored = false ∧ x.2 ≠ .ignored := by
  unfold shownProblems at h
  simp only [List.mem_filterMap, Option.map_eq_some_iff] at h
  obtain ⟨p, _, s, hc, rfl⟩ := h
  unfold classify at hc
  by_cases a : p.cat = compileTok ∧ nc = true
  · simp [a] at hc
  · simp only [a, if_false] at hc
    by_cases i : p.ignored = true
    · simp [i] at hc
    · have i' : p.ignored = false := by simpa using i
      simp only [i', Bool.false_eq_true, if_false] at hc
      refine ⟨i', ?_⟩
      split at hc <;> (simp only [Option.some.injEq] at hc; subst hc; simp)

example : shownProblems [] false false [⟨"S1".toList, true, ⟨[], 0, 0⟩, ⟨[], 0, 0⟩, [], [], []⟩] = [] := by
  decide

/-- the severity label and the `ignored` flag of a shown problem agree. -/
theorem sev_ignored_iff (se : AMap) (si nc : Bool) (ps : List Problem) (x : Problem × Sev)
    (h : x ∈ shownProblems se si nc ps) : x.2 = .ignored ↔ x.1.ignored = true := by
  unfold shownProblems at h
  simp only [List.mem_filterMap, Option.map_eq_some_iff] at h
  obtain ⟨p, _, s, hc, rfl⟩ := h
  unfold classify at hc
  by_cases a : p.cat = compileTok ∧ nc = true
  · simp [a] at hc
  · simp only [a, if_false] at hc
    by_cases i : p.ignored = true
    · simp only [i, if_true] at hc
      split at hc
      · simp only [Option.some.injEq] at hc; subst hc; simp [i]
      · simp at hc
    · have i' : p.ignored = false := by simpa using i
      simp only [i', Bool.false_eq_true, if_false] at hc
      split at hc <;> (simp only [Option.some.injEq] at hc; subst hc; simp [i'])

/-! ## 2. text -/

/-- what a text rendering says about one problem. -/
structure TextItem where
  pos : PosStr
  msg : Name
  build : Name
  code : Name
  related : List (PosStr × Name)
deriving DecidableEq, Repr

/-- the `related` lines directly following a `problem` line. -/
def leadingRelated : List TextLine → List (PosStr × Name)
  | .related pos msg :: rest => (pos, msg) :: leadingRelated rest
  | _ => []

/-- read a text rendering back: every `problem` line with the `related` lines below it. -/
def textProblems : List TextLine → List TextItem
  | [] => []
  | .related _ _ :: rest => textProblems rest
  | .problem pos msg build code :: rest =>
    ⟨pos, msg, build, code, leadingRelated rest⟩ :: textProblems rest

def textCore (short : Name → Name) (p : Problem) : TextItem :=
  ⟨posStr short p.pos, p.msg, p.build, p.cat, p.related.map fun r => (posStr short r.pos, r.msg)⟩

theorem leadingRelated_render (short : Name → Name) (xs : List (Problem × Sev)) :
    leadingRelated (renderText short xs) = [] := by
  cases xs with
  | nil => simp [renderText, leadingRelated]
  | cons x rest => simp [renderText, textLines, leadingRelated]

theorem leadingRelated_append (short : Name → Name) (rs : List Related) (tail : List TextLine)
    (h : leadingRelated tail = []) :
    leadingRelated (rs.map (fun r => TextLine.related (posStr short r.pos) r.msg) ++ tail)
      = rs.map fun r => (posStr short r.pos, r.msg) := by
  induction rs with
  | nil => simpa using h
  | cons r rest ih => simp [leadingRelated, ih]

theorem textProblems_skip (short : Name → Name) (rs : List Related) (tail : List TextLine) :
    textProblems (rs.map (fun r => TextLine.related (posStr short r.pos) r.msg) ++ tail)
      = textProblems tail := by
  induction rs with
  | nil => simp
  | cons r rest ih => simp [textProblems, ih]

/-- **text_extract.** From the lines of `-f text` exactly the problems handed to the
formatter are read back, in order, each with position string, message, build name, check
and its related lines. -/
theorem text_extract (short : Name → Name) (xs : List (Problem × Sev)) :
    textProblems (renderText short xs) = xs.map fun x => textCore short x.1 := by
  induction xs with
  | nil => simp [renderText, textProblems]
  | cons x rest ih =>
    have hr : renderText short (x :: rest) = textLines short x.1 ++ renderText short rest := by
      simp [renderText]
    rw [hr]
    simp only [textLines, List.cons_append, textProblems, List.map_cons]
    rw [leadingRelated_append short _ _ (leadingRelated_render short rest), textProblems_skip, ih]
    simp [textCore]

example : textProblems (renderText id
    [(⟨"SA4009".toList, false, ⟨"p.go".toList, 3, 8⟩, ⟨"p.go".toList, 3, 9⟩, "m".toList,
        [⟨⟨"p.go".toList, 4, 2⟩, ⟨"p.go".toList, 4, 7⟩, "r".toList⟩], []⟩, .error),
     (⟨"compile".toList, false, ⟨[], 0, 0⟩, ⟨[], 0, 0⟩, "e".toList, [], []⟩, .error)])
    = [⟨.flc "p.go".toList 3 8, "m".toList, [], "SA4009".toList, [(.flc "p.go".toList 4 2, "r".toList)]⟩,
       ⟨.dash, "e".toList, [], "compile".toList, []⟩] := by decide

/-! ## 3. stylish -/

structure StyItem where
  file : Name
  line : Nat
  col : Nat
  code : Name
  msg : Name
  related : List (Nat × Nat × Name)
deriving DecidableEq, Repr

def leadingRel : List StyLine → List (Nat × Nat × Name)
  | .rel l c m :: rest => (l, c, m) :: leadingRel rest
  | _ => []

/-- read a stylish rendering back; `cur` is the header the rows are currently under. -/
def styProblems (cur : Name) : List StyLine → List StyItem
  | [] => []
  | .blank :: rest => styProblems cur rest
  | .header f :: rest => styProblems f rest
  | .rel _ _ _ :: rest => styProblems cur rest
  | .row l c code msg :: rest => ⟨cur, l, c, code, msg, leadingRel rest⟩ :: styProblems cur rest

def styCore (p : Problem) : StyItem :=
  ⟨dashFile p.pos.file, p.pos.line, p.pos.col, p.cat, p.msg,
    p.related.map fun r => (r.pos.line, r.pos.col, r.msg)⟩

/- -/
theorem dashFile_ne_nil (f : Name) : dashFile f ≠ [] := by
  unfold dashFile; split <;> simp_all

theorem leadingRel_styLines (prev : Name) (xs : List (Problem × Sev)) :
    leadingRel (styLines prev xs) = [] := by
  cases xs with
  | nil => simp [styLines, leadingRel]
  | cons x rest =>
    simp only [styLines]
    by_cases h : dashFile x.1.pos.file = prev
    · simp [h, leadingRel]
    · by_cases hp : prev = []
      · subst hp; simp [dashFile_ne_nil, leadingRel]
      · simp [h, hp, leadingRel]

theorem leadingRel_append (rs : List Related) (tail : List StyLine) (h : leadingRel tail = []) :
    leadingRel (rs.map (fun r => StyLine.rel r.pos.line r.pos.col r.msg) ++ tail)
      = rs.map fun r => (r.pos.line, r.pos.col, r.msg) := by
  induction rs with
  | nil => simpa using h
  | cons r rest ih => simp [leadingRel, ih]

theorem styProblems_skip (cur : Name) (rs : List Related) (tail : List StyLine) :
    styProblems cur (rs.map (fun r => StyLine.rel r.pos.line r.pos.col r.msg) ++ tail)
      = styProblems cur tail := by
  induction rs with
  | nil => simp
  | cons r rest ih => simp [styProblems, ih]

theorem stylish_extract_aux (prev : Name) (xs : List (Problem × Sev)) :
    styProblems prev (styLines prev xs) = xs.map fun x => styCore x.1 := by
  induction xs generalizing prev with
  | nil => simp [styLines, styProblems]
  | cons x rest ih =>
    simp only [styLines, List.map_cons]
    have body : ∀ cur, cur = dashFile x.1.pos.file →
        styProblems cur ((StyLine.row x.1.pos.line x.1.pos.col x.1.cat x.1.msg ::
            x.1.related.map fun r => StyLine.rel r.pos.line r.pos.col r.msg)
          ++ styLines (dashFile x.1.pos.file) rest)
        = styCore x.1 :: rest.map fun x => styCore x.1 := by
      intro cur hc
      subst hc
      simp only [List.cons_append, styProblems]
      rw [leadingRel_append _ _ (leadingRel_styLines _ rest), styProblems_skip, ih]
      simp [styCore]
    by_cases h : dashFile x.1.pos.file = prev
    · simp only [h, if_true, List.nil_append]
      have := body prev h.symm
      rw [h] at this
      exact this
    · by_cases hp : prev = []
      · subst hp
        simp only [dashFile_ne_nil, if_false, if_true, List.nil_append, List.cons_append, styProblems]
        exact body _ rfl
      · simp only [h, if_false, hp, List.cons_append, List.nil_append, styProblems]
        exact body _ rfl

/-- **stylish_extract.** From the lines of `-f stylish` exactly the problems handed to the
formatter are read back, in order: every row is attributed to the header it stands under,
which is the problem's own file (`-` for an empty file name). -/
theorem stylish_extract (xs : List (Problem × Sev)) :
    styProblems [] (styLines [] xs) = xs.map fun x => styCore x.1 :=
  stylish_extract_aux [] xs

example : styProblems [] (styLines []
    [(⟨"S1".toList, false, ⟨"a.go".toList, 1, 2⟩, ⟨[], 0, 0⟩, "m".toList, [], []⟩, .error),
     (⟨"S2".toList, false, ⟨"a.go".toList, 3, 4⟩, ⟨[], 0, 0⟩, "n".toList,
        [⟨⟨"a.go".toList, 5, 6⟩, ⟨[], 0, 0⟩, "r".toList⟩], []⟩, .warning),
     (⟨"S1".toList, false, ⟨[], 0, 0⟩, ⟨[], 0, 0⟩, "o".toList, [], []⟩, .error)])
    = [⟨"a.go".toList, 1, 2, "S1".toList, "m".toList, []⟩,
       ⟨"a.go".toList, 3, 4, "S2".toList, "n".toList, [(5, 6, "r".toList)]⟩,
       ⟨"-".toList, 0, 0, "S1".toList, "o".toList, []⟩] := by decide

/-- the stylish rendering has one header per maximal run of problems of the same file. -/
example : (styLines []
    [(⟨"S1".toList, false, ⟨"a.go".toList, 1, 2⟩, ⟨[], 0, 0⟩, "m".toList, [], []⟩, .error),
     (⟨"S2".toList, false, ⟨"a.go".toList, 3, 4⟩, ⟨[], 0, 0⟩, "n".toList, [], []⟩, .warning),
     (⟨"S1".toList, false, ⟨"b.go".toList, 1, 1⟩, ⟨[], 0, 0⟩, "o".toList, [], []⟩, .error)])
    = [.header "a.go".toList, .row 1 2 "S1".toList "m".toList, .row 3 4 "S2".toList "n".toList,
       .blank, .header "b.go".toList, .row 1 1 "S1".toList "o".toList] := by decide

/-! ## 4. JSON -/

def sevOfString (s : Name) : Option Sev :=
  if s = errorStr then some .error
  else if s = warningStr then some .warning
  else if s = ignoredStr then some .ignored
  else none

theorem sevOfString_sevString (s : Sev) : sevOfString (sevString s) = some s := by
  cases s <;> decide

/-- everything of a problem except the build name, and the severity. -/
structure JsonItem where
  code : Name
  sev : Option Sev
  pos : Pos
  stop : Pos
  msg : Name
  related : List Related
deriving DecidableEq, Repr

def jsonProblems (os : List JObj) : List JsonItem :=
  os.map fun o => ⟨o.code, sevOfString o.severity, o.location, o.stop, o.message,
    o.related.map fun r => ⟨r.location, r.stop, r.message⟩⟩

def jsonCore (x : Problem × Sev) : JsonItem := ⟨x.1.cat, some x.2, x.1.pos, x.1.stop, x.1.msg, x.1.related⟩

/-- **json_extract.** `-f json` carries every field of every problem handed to the
formatter (position, end, message, check, related information with positions and ends)
and its severity, in order. -/
theorem json_extract (xs : List (Problem × Sev)) :
    jsonProblems (renderJson xs) = xs.map jsonCore := by
  simp only [jsonProblems, renderJson, List.map_map]
  apply List.map_congr_left
  intro x _
  simp only [Function.comp, jsonCore, sevOfString_sevString, JsonItem.mk.injEq, true_and]
  induction x.1.related with
  | nil => simp
  | cons r rest ih => simp [ih]

example : jsonProblems (renderJson
    [(⟨"S1".toList, true, ⟨"a.go".toList, 1, 2⟩, ⟨"a.go".toList, 1, 9⟩, "m".toList,
        [⟨⟨"a.go".toList, 5, 6⟩, ⟨"a.go".toList, 5, 8⟩, "r".toList⟩], "linux".toList⟩, .ignored)])
    = [⟨"S1".toList, some .ignored, ⟨"a.go".toList, 1, 2⟩, ⟨"a.go".toList, 1, 9⟩, "m".toList,
        [⟨⟨"a.go".toList, 5, 6⟩, ⟨"a.go".toList, 5, 8⟩, "r".toList⟩]⟩] := by decide

/-- **json_severity_spec.** The `severity` of a JSON object is `"ignored"` exactly for an
ignored problem, and for a live one `"error"` exactly when its check is in the `-fail` set
(or it is a compile / config / directive problem), else `"warning"`. -/
theorem json_severity_spec (all fail : List Name) (si nc : Bool) (ps : List Problem) (o : JObj)
    (h : o ∈ renderJson (shownProblems (shouldExit all fail) si nc ps)) :
    ∃ p ∈ ps, o.code = p.cat ∧ o.location = p.pos ∧ o.message = p.msg ∧
      (o.severity = ignoredStr ↔ p.ignored = true) ∧
      (o.severity = errorStr ↔ p.ignored = false ∧
          (lower p.cat = staticcheckTok ∨ lower p.cat = compileTok ∨ lower p.cat = configTok ∨
            lastMatch (all.map lower) (fail.map lower) (lower p.cat) = some true)) := by
  simp only [renderJson, List.mem_map] at h
  obtain ⟨⟨p, s⟩, hx, rfl⟩ := h
  have hs := (severity_spec all fail si nc ps p s).mp hx
  obtain ⟨hp, _, hcases⟩ := hs
  refine ⟨p, hp, rfl, rfl, rfl, ?_, ?_⟩
  · have n1 : errorStr ≠ ignoredStr := by decide
    have n2 : warningStr ≠ ignoredStr := by decide
    rcases hcases with ⟨rfl, i, _⟩ | ⟨rfl, i, _⟩ | ⟨rfl, i, _⟩
    · simp [sevString, i]
    · simp [sevString, i, n1]
    · simp [sevString, i, n2]
  · have ne2 : warningStr ≠ errorStr := by decide
    have n3 : ignoredStr ≠ errorStr := by decide
    rcases hcases with ⟨rfl, i, _⟩ | ⟨rfl, i, e⟩ | ⟨rfl, i, e⟩
    · simp [sevString, i, n3]
    · simp only [sevString, i, true_and]; exact ⟨fun _ => e, fun _ => trivial⟩
    · simp only [sevString, i, true_and]
      constructor
      · intro h; exact absurd h ne2
      · intro h; exact absurd h e

/-! ## 5. SARIF -/

/-- what a SARIF result says about a problem: the message with the references to the related
locations removed again, start and end of the region, suppressed or not. -/
structure SarifItem where
  code : Name
  loc : ALoc
  region : Region
  msg : Name
  related : List (ALoc × Region × Name)
  suppressed : Bool
deriving DecidableEq, Repr

def sarifMsg (r : SResult) : Name := r.text.take (r.text.length - (refSuffix r.related).length)

def sarifProblems (rs : List SResult) : List SarifItem :=
  rs.map fun r => ⟨r.ruleId, r.loc, r.region, sarifMsg r,
    r.related.map (fun s => (s.loc, s.region, s.msg)), r.suppressions == [inSource]⟩

def sarifCore (short : Name → Name) (x : Problem × Sev) : SarifItem :=
  ⟨x.1.cat, aloc short x.1.pos.file, ⟨x.1.pos.line, x.1.pos.col, x.1.stop.line, x.1.stop.col⟩, x.1.msg,
    x.1.related.map fun r =>
      (aloc short r.pos.file, ⟨r.pos.line, r.pos.col, r.stop.line, r.stop.col⟩, r.msg),
    x.2 == .ignored⟩

theorem sarifRelated_core (short : Name → Name) (i : Nat) (rs : List Related) :
    (sarifRelated short i rs).map (fun s => (s.loc, s.region, s.msg))
      = rs.map fun r => (aloc short r.pos.file, ⟨r.pos.line, r.pos.col, r.stop.line, r.stop.col⟩, r.msg) := by
  induction rs generalizing i with
  | nil => simp [sarifRelated]
  | cons r rest ih => simp [sarifRelated, ih]

/-- related location number `i` (0-based) carries the id `i+1`, which is the number the
message text refers to. -/
theorem sarif_related_ids (short : Name → Name) (i : Nat) (rs : List Related) :
    (sarifRelated short i rs).map (·.id) = List.range' (i + 1) rs.length := by
  induction rs generalizing i with
  | nil => simp [sarifRelated]
  | cons r rest ih => simp [sarifRelated, ih, List.range'_succ]

theorem sarifMsg_result (short : Name → Name) (x : Problem × Sev) :
    sarifMsg (sarifResult short x) = x.1.msg := by
  simp [sarifMsg, sarifResult, List.length_append]

/-- **sarif_extract.** From the results of `-f sarif` exactly the problems handed to the
formatter are read back, in order: rule id, artifact location, region (start **and** end),
the message (the references to related locations the formatter appends are determined by
the related locations and come off again), the related locations, and whether the result
is suppressed (`suppressions = [inSource]` iff the severity is `ignored`). -/
theorem sarif_extract (short : Name → Name) (checks : List Name) (xs : List (Problem × Sev)) :
    sarifProblems (renderSarif short checks xs).results = xs.map (sarifCore short) := by
  simp only [sarifProblems, renderSarif, List.map_map]
  apply List.map_congr_left
  intro x _
  simp only [Function.comp]
  rw [sarifMsg_result]
  have hs : ((sarifResult short x).suppressions == [inSource]) = (x.2 == Sev.ignored) := by
    cases hx : x.2 <;> simp [sarifResult, hx]
  rw [hs]
  simp [sarifCore, sarifResult, sarifRelated_core]

example : sarifProblems (renderSarif id []
    [(⟨"SA4009".toList, true, ⟨"p.go".toList, 3, 8⟩, ⟨"p.go".toList, 3, 9⟩, "m".toList,
        [⟨⟨"/q.go".toList, 4, 2⟩, ⟨"/q.go".toList, 4, 7⟩, "r".toList⟩], []⟩, .ignored)]).results
    = [⟨"SA4009".toList, ⟨"p.go".toList, true⟩, ⟨3, 8, 3, 9⟩, "m".toList,
        [(⟨"/q.go".toList, false⟩, ⟨4, 2, 4, 7⟩, "r".toList)], true⟩] := by decide

example : (sarifResult id (⟨"SA4009".toList, false, ⟨"p.go".toList, 3, 8⟩, ⟨"p.go".toList, 3, 9⟩, "m".toList,
        [⟨⟨"p.go".toList, 4, 2⟩, ⟨"p.go".toList, 4, 7⟩, "r".toList⟩], []⟩, .error)).text
    = "m\n\t[r](1)".toList := by decide

/-- **sarif_suppression_spec.** A SARIF result is marked suppressed (`inSource`) exactly when
its problem is ignored, otherwise it has the empty suppression list; without
`-show-ignored` no result is suppressed. -/
theorem sarif_suppression_spec (short : Name → Name) (all fail : List Name) (si nc : Bool)
    (ps : List Problem) (r : SResult)
    (h : r ∈ (renderSarif short all (shownProblems (shouldExit all fail) si nc ps)).results) :
    ∃ p ∈ ps, r.ruleId = p.cat ∧ (r.suppressions = [inSource] ↔ p.ignored = true) ∧
      (r.suppressions = [] ↔ p.ignored = false) ∧ (si = false → r.suppressions = []) := by
  simp only [renderSarif, List.mem_map] at h
  obtain ⟨x, hx, rfl⟩ := h
  have hi := sev_ignored_iff _ si nc ps x hx
  have hm : x.1 ∈ ps := by
    have : x.1 ∈ (shownProblems (shouldExit all fail) si nc ps).map (·.1) := List.mem_map.mpr ⟨x, hx, rfl⟩
    rw [shown_problems_spec] at this
    exact (List.mem_filter.mp this).1
  refine ⟨x.1, hm, rfl, ?_, ?_, ?_⟩
  · by_cases e : x.2 = .ignored
    · simp [sarifResult, e, hi.mp e]
    · have : x.1.ignored = false := by
        cases hb : x.1.ignored with
        | false => rfl
        | true => exact absurd (hi.mpr hb) e
      simp [sarifResult, e, this]
  · by_cases e : x.2 = .ignored
    · simp [sarifResult, e, hi.mp e]
    · have : x.1.ignored = false := by
        cases hb : x.1.ignored with
        | false => rfl
        | true => exact absurd (hi.mpr hb) e
      simp [sarifResult, e, this]
  · intro hs
    subst hs
    have := (ignored_only_with_show_ignored _ nc ps x hx).2
    simp [sarifResult, this]

/-! ### the rules are listed sorted by ID (fix 1bec522) -/

def AdjSorted : List Name → Prop
  | [] => True
  | [_] => True
  | a :: b :: rest => nameLt b a = false ∧ AdjSorted (b :: rest)

theorem nameLt_asymm (a b : Name) (h : nameLt a b = true) : nameLt b a = false := by
  induction a generalizing b with
  | nil => cases b <;> simp_all [nameLt]
  | cons x xs ih =>
    cases b with
    | nil => simp_all [nameLt]
    | cons y ys =>
      simp only [nameLt] at h ⊢
      by_cases h1 : x < y
      · have h2 : ¬ y < x := fun h2 => Char.lt_irrefl x (Char.lt_trans h1 h2)
        simp [h1, h2]
      · by_cases h2 : y < x
        · simp [h1, h2] at h
        · simp only [h1, h2, if_false] at h ⊢
          exact ih ys h

theorem adjSorted_insert (x : Name) (l : List Name) (h : AdjSorted l) : AdjSorted (insertName x l) := by
  induction l with
  | nil => simp [insertName, AdjSorted]
  | cons y ys ih =>
    simp only [insertName]
    by_cases hyx : nameLt y x = true
    · simp only [hyx, if_true]
      have hs : AdjSorted ys := by
        cases ys with
        | nil => trivial
        | cons z zs => exact h.2
      have := ih hs
      cases ys with
      | nil => simp only [insertName, AdjSorted]; exact ⟨nameLt_asymm _ _ hyx, trivial⟩
      | cons z zs =>
        simp only [insertName] at this ⊢
        by_cases hzx : nameLt z x = true
        · simp only [hzx, if_true] at this ⊢
          exact ⟨h.1, this⟩
        · simp only [hzx] at this ⊢
          exact ⟨nameLt_asymm _ _ hyx, this⟩
    · have : nameLt y x = false := by simpa using hyx
      simp only [this, Bool.false_eq_true, if_false]
      exact ⟨this, h⟩

theorem perm_insert (x : Name) (l : List Name) : (insertName x l).Perm (x :: l) := by
  induction l with
  | nil => simp [insertName]
  | cons y ys ih =>
    simp only [insertName]
    split
    · exact (List.Perm.cons y ih).trans (List.Perm.swap x y ys)
    · exact List.Perm.refl _

/-- **sarif_rules_sorted.** The rules of the SARIF document are the registered checks, each
once, in non-decreasing order of their IDs, whatever order the map iteration produced. -/
theorem sarif_rules_sorted (short : Name → Name) (checks : List Name) (xs : List (Problem × Sev)) :
    AdjSorted (renderSarif short checks xs).rules ∧ (renderSarif short checks xs).rules.Perm checks := by
  simp only [renderSarif, sortNames]
  induction checks with
  | nil => exact ⟨trivial, List.Perm.refl _⟩
  | cons c cs ih =>
    simp only [List.foldr_cons]
    exact ⟨adjSorted_insert c _ ih.1, (perm_insert c _).trans (List.Perm.cons c ih.2)⟩

example : (renderSarif id ["ST1000".toList, "S1002".toList, "SA4000".toList, "QF1001".toList] []).rules
    = ["QF1001".toList, "S1002".toList, "SA4000".toList, "ST1000".toList] := by decide

/-! ## 6. All four formats carry the same problems -/

/-- what every format says about a problem: (shortened) file, line, column, check, message,
and line, column, message of each piece of related information. -/
structure Common where
  file : Name
  line : Nat
  col : Nat
  code : Name
  msg : Name
  related : List (Nat × Nat × Name)
deriving DecidableEq, Repr

def common (short : Name → Name) (p : Problem) : Common :=
  ⟨short p.pos.file, p.pos.line, p.pos.col, p.cat, p.msg, p.related.map fun r => (r.pos.line, r.pos.col, r.msg)⟩

/-- positions are valid (`line > 0`) or have no column (the zero `token.Position`; compile
errors without position). The check probes this on every real output. -/
def Pos.wf (p : Pos) : Prop := p.line = 0 → p.col = 0

/-- hypothesis of the agreement theorems: positions well formed, and no file is called `-`
(which stylish prints for the empty file name). -/
def Problem.wf (p : Problem) : Prop :=
  p.pos.wf ∧ p.pos.file ≠ ['-'] ∧ ∀ r ∈ p.related, r.pos.wf

def unPos : PosStr → Name × Nat × Nat
  | .dash => ([], 0, 0)
  | .file f => (f, 0, 0)
  | .lc l c => ([], l, c)
  | .flc f l c => (f, l, c)

theorem unPos_posStr (short : Name → Name) (p : Pos) (h : p.wf) :
    unPos (posStr short p) = (short p.file, p.line, p.col) := by
  unfold posStr
  by_cases hl : p.line > 0
  · by_cases hs : short p.file = [] <;> simp [hl, hs, unPos]
  · have h0 : p.line = 0 := by omega
    have hc := h h0
    by_cases hs : short p.file = [] <;> simp [hs, unPos, h0, hc]

def textCommon (t : TextItem) : Common :=
  ⟨(unPos t.pos).1, (unPos t.pos).2.1, (unPos t.pos).2.2, t.code, t.msg,
    t.related.map fun r => ((unPos r.1).2.1, (unPos r.1).2.2, r.2)⟩

def undash (f : Name) : Name := if f = ['-'] then [] else f

theorem undash_dashFile (f : Name) (h : f ≠ ['-']) : undash (dashFile f) = f := by
  unfold dashFile undash
  by_cases hf : f = [] <;> simp [hf, h]

def styCommon (short : Name → Name) (t : StyItem) : Common :=
  ⟨short (undash t.file), t.line, t.col, t.code, t.msg, t.related⟩

def jsonCommon (short : Name → Name) (t : JsonItem) : Common :=
  ⟨short t.pos.file, t.pos.line, t.pos.col, t.code, t.msg, t.related.map fun r => (r.pos.line, r.pos.col, r.msg)⟩

def sarifCommon (t : SarifItem) : Common :=
  ⟨t.loc.path, t.region.startLine, t.region.startCol, t.code, t.msg,
    t.related.map fun r => (r.2.1.startLine, r.2.1.startCol, r.2.2)⟩

theorem textCommon_core (short : Name → Name) (p : Problem) (h : p.wf) :
    textCommon (textCore short p) = common short p := by
  simp only [textCommon, textCore, common, unPos_posStr short p.pos h.1, Common.mk.injEq, true_and,
    List.map_map]
  apply List.map_congr_left
  intro r hr
  simp [Function.comp, unPos_posStr short r.pos (h.2.2 r hr)]

/-- **formats_agree.** Reading the four renderings of the same list back gives the same
list of problems (file, line, column, check, message, related line/column/message), which
is the list handed to the formatters — for all lists of well-formed problems. -/
theorem formats_agree (short : Name → Name) (checks : List Name) (xs : List (Problem × Sev))
    (h : ∀ x ∈ xs, x.1.wf) :
    (textProblems (renderText short xs)).map textCommon = xs.map (fun x => common short x.1) ∧
    (styProblems [] (styLines [] xs)).map (styCommon short) = xs.map (fun x => common short x.1) ∧
    (jsonProblems (renderJson xs)).map (jsonCommon short) = xs.map (fun x => common short x.1) ∧
    (sarifProblems (renderSarif short checks xs).results).map sarifCommon
      = xs.map (fun x => common short x.1) := by
  refine ⟨?_, ?_, ?_, ?_⟩
  · rw [text_extract, List.map_map]
    apply List.map_congr_left
    intro x hx
    exact textCommon_core short x.1 (h x hx)
  · rw [stylish_extract, List.map_map]
    apply List.map_congr_left
    intro x hx
    simp [Function.comp, styCommon, styCore, common, undash_dashFile _ (h x hx).2.1]
  · rw [json_extract, List.map_map]
    apply List.map_congr_left
    intro x _
    simp [Function.comp, jsonCommon, jsonCore, common]
  · rw [sarif_extract, List.map_map]
    apply List.map_congr_left
    intro x _
    simp [Function.comp, sarifCommon, sarifCore, common, aloc]

/-- the problems a rendering carries (`none` for `-f null`, which prints nothing). -/
def renderedCommon (short : Name → Name) : Rendering → Option (List Common)
  | .text ls => some ((textProblems ls).map textCommon)
  | .stylish s => some ((styProblems [] s.lines).map (styCommon short))
  | .json os => some ((jsonProblems os).map (jsonCommon short))
  | .sarif s => some ((sarifProblems s.results).map sarifCommon)
  | .null => none

/-- **formats_same_problems** (replaces the former statement of this name, which held by
`rfl`). Whatever the format — text, stylish, JSON or SARIF — the problems that can be read
back from what printDiagnostics prints are exactly the problems to be shown: all problems
except compile errors under `-debug.no-compile-errors` and, unless `-show-ignored`, the
ignored ones. In particular any two formats render the same problems. -/
theorem formats_same_problems (short : Name → Name) (all fail : List Name) (si nc : Bool) (f : Format)
    (hf : f ≠ .null) (ps : List Problem) (hwf : ∀ p ∈ ps, p.wf) :
    renderedCommon short (output short all fail si nc f ps).1
      = some ((ps.filter (isShownP si nc)).map (common short)) := by
  have hx : ∀ x ∈ shownProblems (shouldExit all fail) si nc ps, x.1.wf := by
    intro x hx
    have : x.1 ∈ (shownProblems (shouldExit all fail) si nc ps).map (·.1) := List.mem_map.mpr ⟨x, hx, rfl⟩
    rw [shown_problems_spec] at this
    exact hwf _ (List.mem_filter.mp this).1
  have hag := formats_agree short all _ hx
  have hm : (shownProblems (shouldExit all fail) si nc ps).map (fun x => common short x.1)
      = (ps.filter (isShownP si nc)).map (common short) := by
    rw [← shown_problems_spec (shouldExit all fail), List.map_map]
    rfl
  cases f with
  | text => simp only [output, renderedCommon]; rw [hag.1, hm]
  | stylish => simp only [output, renderedCommon]; rw [hag.2.1, hm]
  | json => simp only [output, renderedCommon]; rw [hag.2.2.1, hm]
  | sarif => simp only [output, renderedCommon]; rw [hag.2.2.2, hm]
  | null => exact absurd rfl hf

example : renderedCommon id (output id ["S1".toList, "S2".toList] ["S1".toList] false false .stylish
    [⟨"S1".toList, false, ⟨"a.go".toList, 1, 2⟩, ⟨[], 0, 0⟩, "m".toList, [], []⟩,
     ⟨"S2".toList, true, ⟨"a.go".toList, 3, 4⟩, ⟨[], 0, 0⟩, "n".toList, [], []⟩]).1
  = renderedCommon id (output id ["S1".toList, "S2".toList] ["S1".toList] false false .sarif
    [⟨"S1".toList, false, ⟨"a.go".toList, 1, 2⟩, ⟨[], 0, 0⟩, "m".toList, [], []⟩,
     ⟨"S2".toList, true, ⟨"a.go".toList, 3, 4⟩, ⟨[], 0, 0⟩, "n".toList, [], []⟩]).1 := by decide

/-! ## 7. The stylish summary line and the exit status -/

/-- a compile error hidden by `-debug.no-compile-errors`. -/
def hiddenP (noCompile : Bool) (p : Problem) : Bool := decide (p.cat = compileTok) && noCompile

theorem shownProblems_cons (se : AMap) (si nc : Bool) (p : Problem) (rest : List Problem) :
    shownProblems se si nc (p :: rest)
      = (match classify se si nc p with
          | some s => [(p, s)]
          | none => []) ++ shownProblems se si nc rest := by
  unfold shownProblems
  simp only [List.filterMap_cons]
  cases classify se si nc p <;> simp

theorem count_problems (se : AMap) (si nc : Bool) (ps : List Problem) (c : Counts) :
    ((ps.map Problem.diag).foldl (countStep se si nc) c).numErrors
        = c.numErrors + ((shownProblems se si nc ps).filter (fun x => x.2 == Sev.error)).length ∧
    ((ps.map Problem.diag).foldl (countStep se si nc) c).numWarnings
        = c.numWarnings + ((shownProblems se si nc ps).filter (fun x => x.2 == Sev.warning)).length ∧
    ((ps.map Problem.diag).foldl (countStep se si nc) c).numIgnored
        = c.numIgnored + (ps.filter (fun p => p.ignored && !hiddenP nc p)).length := by
  induction ps generalizing c with
  | nil => simp [shownProblems]
  | cons p rest ih =>
    simp only [List.map_cons, List.foldl_cons]
    obtain ⟨h1, h2, h3⟩ := ih (countStep se si nc c p.diag)
    rw [h1, h2, h3, shownProblems_cons]
    simp only [List.filter_append, List.length_append, List.filter_cons]
    unfold countStep classify hiddenP Problem.diag
    by_cases a : p.cat = compileTok <;> by_cases b : nc = true <;> by_cases i : p.ignored = true <;>
      by_cases s : si = true <;> by_cases e : se.get (lower p.cat) = true <;>
      simp_all <;> omega

/-- **stylish_stats_spec.** The summary line of `-f stylish`: `total` is the number of all
problems; `errors` and `warnings` are the numbers of rows shown with that severity;
`ignored` is the number of ignored problems (hidden compile errors aside) whether or not
they are shown — and equals the number of rows with severity `ignored` under
`-show-ignored`; the four kinds partition the problems. -/
theorem stylish_stats_spec (all fail : List Name) (si nc : Bool) (ps : List Problem) :
    (stats all fail si nc ps).total = ps.length ∧
    (stats all fail si nc ps).errors
      = ((shownProblems (shouldExit all fail) si nc ps).filter (fun x => x.2 == Sev.error)).length ∧
    (stats all fail si nc ps).warnings
      = ((shownProblems (shouldExit all fail) si nc ps).filter (fun x => x.2 == Sev.warning)).length ∧
    (stats all fail si nc ps).ignored = (ps.filter (fun p => p.ignored && !hiddenP nc p)).length ∧
    (si = true → (stats all fail si nc ps).ignored
      = ((shownProblems (shouldExit all fail) si nc ps).filter (fun x => x.2 == Sev.ignored)).length) ∧
    (stats all fail si nc ps).errors + (stats all fail si nc ps).warnings + (stats all fail si nc ps).ignored
      + (ps.filter (hiddenP nc)).length = (stats all fail si nc ps).total := by
  obtain ⟨h1, h2, h3⟩ := count_problems (shouldExit all fail) si nc ps {}
  simp only [Nat.zero_add] at h1 h2 h3
  refine ⟨rfl, h1, h2, h3, ?_, ?_⟩
  · intro hs
    subst hs
    simp only [stats, count, h3]
    clear h1 h2 h3
    induction ps with
    | nil => simp [shownProblems]
    | cons p rest ih =>
      rw [shownProblems_cons]
      simp only [List.filter_append, List.length_append, List.filter_cons, ← ih]
      unfold classify hiddenP
      by_cases a : p.cat = compileTok <;> by_cases b : nc = true <;> by_cases i : p.ignored = true <;>
        by_cases e : (shouldExit all fail).get (lower p.cat) = true <;> simp_all <;> omega
  · simp only [stats, count, h1, h2, h3]
    clear h1 h2 h3
    induction ps with
    | nil => simp [shownProblems]
    | cons p rest ih =>
      rw [shownProblems_cons]
      simp only [List.filter_append, List.length_append, List.filter_cons, List.length_cons, ← ih]
      unfold classify hiddenP
      by_cases a : p.cat = compileTok <;> by_cases b : nc = true <;> by_cases i : p.ignored = true <;>
        by_cases s : si = true <;> by_cases e : (shouldExit all fail).get (lower p.cat) = true <;>
        simp_all <;> omega

example : stats ["S1".toList, "S2".toList] ["S1".toList] true true
    [⟨"S1".toList, false, ⟨[], 0, 0⟩, ⟨[], 0, 0⟩, [], [], []⟩, ⟨"S2".toList, false, ⟨[], 0, 0⟩, ⟨[], 0, 0⟩, [], [], []⟩,
     ⟨"S2".toList, true, ⟨[], 0, 0⟩, ⟨[], 0, 0⟩, [], [], []⟩, ⟨"compile".toList, false, ⟨[], 0, 0⟩, ⟨[], 0, 0⟩, [], [], []⟩]
    = ⟨4, 1, 1, 1⟩ := by decide

/-- **exit_from_counts.** The exit status of a lint run is 1 exactly when the format is not
SARIF and the `errors` count (the one the stylish summary prints) is positive; together
with `stylish_stats_spec` and `severity_spec`: exactly when some problem is shown with
severity `error`. -/
theorem exit_from_counts (short : Name → Name) (all fail : List Name) (si nc : Bool) (f : Format)
    (ps : List Problem) :
    ((output short all fail si nc f ps).2 = 1 ↔ f ≠ .sarif ∧ 0 < (stats all fail si nc ps).errors) ∧
    ((output short all fail si nc f ps).2 = 0 ∨ (output short all fail si nc f ps).2 = 1) := by
  have he : (output short all fail si nc f ps).2
      = (printDiagnostics all fail si nc f (ps.map Problem.diag)).2 := by
    cases f <;> rfl
  rw [he]
  refine ⟨?_, exit_zero_or_one all fail si nc f _⟩
  simp only [printDiagnostics, exitStatus, stats]
  by_cases hp : 0 < (count all fail si nc (ps.map Problem.diag)).numErrors
  · by_cases hf : f = .sarif <;> simp [hp, hf]
  · simp [hp]

example : (output id ["S1".toList] ["all".toList] true false .text
    [⟨"S1".toList, true, ⟨"a.go".toList, 1, 2⟩, ⟨[], 0, 0⟩, "m".toList, [], []⟩]).2 = 0
  ∧ (output id ["S1".toList] ["all".toList] true false .text
    [⟨"S1".toList, false, ⟨"a.go".toList, 1, 2⟩, ⟨[], 0, 0⟩, "m".toList, [], []⟩]).2 = 1
  ∧ (output id ["S1".toList] ["all".toList] true false .sarif
    [⟨"S1".toList, false, ⟨"a.go".toList, 1, 2⟩, ⟨[], 0, 0⟩, "m".toList, [], []⟩]).2 = 0 := by decide

/-- **exit_code_spec.** Exit code 2 is reserved for an unusable `-f` value: a lint run exits 2
iff the format is unsupported (`-f binary` exits 0), `-merge` exits 2 iff the format is
unsupported or `binary`; a lint run exits 1 iff the format is one of the five known ones and
printDiagnostics returns 1 (see `exit_spec`); nothing else occurs. -/
theorem exit_code_spec (fmt : Name) (all fail : List Name) (si nc : Bool) (ps : List Problem) :
    (lintExit fmt all fail si nc ps = 2 ↔ formatArg fmt = .unsupported) ∧
    (mergeExit fmt all fail si nc ps = 2 ↔ formatArg fmt = .unsupported ∨ formatArg fmt = .binary) ∧
    (lintExit fmt all fail si nc ps = 1 ↔
      ∃ f, formatArg fmt = .known f ∧ (printDiagnostics all fail si nc f (ps.map Problem.diag)).2 = 1) ∧
    (lintExit fmt all fail si nc ps = 0 ∨ lintExit fmt all fail si nc ps = 1 ∨ lintExit fmt all fail si nc ps = 2) := by
  unfold lintExit mergeExit
  cases h : formatArg fmt with
  | known f =>
    rcases exit_zero_or_one all fail si nc f (ps.map Problem.diag) with h0 | h1
    · simp [h0]
    · simp [h1]
  | binary => simp
  | unsupported => simp

example : lintExit "xml".toList [] [] false false [] = 2 ∧ lintExit "binary".toList [] [] false false [] = 0
    ∧ mergeExit "binary".toList [] [] false false [] = 2 ∧ lintExit "Text".toList [] [] false false [] = 2
    ∧ lintExit "text".toList ["S1".toList] ["all".toList] false false
        [⟨"S1".toList, false, ⟨[], 0, 0⟩, ⟨[], 0, 0⟩, [], [], []⟩] = 1 := by decide

end Verif.C11
