/-
Line protocol shared by all model drivers.

One case per line; tokens separated by single spaces. Strings that may contain
spaces or be empty are hex-encoded by the harness (`hexDecode`).  Parsers reject
malformed input (`none`) rather than defaulting.
-/
namespace Verif.Proto

def tokens (line : String) : List String :=
  (line.splitOn " ").filter (· ≠ "")

def hexVal (c : Char) : Option Nat :=
  if '0' ≤ c ∧ c ≤ '9' then some (c.toNat - '0'.toNat)
  else if 'a' ≤ c ∧ c ≤ 'f' then some (c.toNat - 'a'.toNat + 10)
  else none

def hexDecodeBytes : List Char → Option (List UInt8)
  | [] => some []
  | [_] => none
  | a :: b :: rest => do
    let x ← hexVal a
    let y ← hexVal b
    let r ← hexDecodeBytes rest
    pure (UInt8.ofNat (x * 16 + y) :: r)

/-- `-` encodes the empty string, otherwise lower-case hex of the UTF-8 bytes. -/
def hexDecode (s : String) : Option String :=
  if s = "-" then some "" else do
    let bs ← hexDecodeBytes s.toList
    String.fromUTF8? ⟨bs.toArray⟩

def hexDigit (n : Nat) : Char :=
  if n < 10 then Char.ofNat ('0'.toNat + n) else Char.ofNat ('a'.toNat + n - 10)

def hexEncode (s : String) : String :=
  if s = "" then "-" else
  String.ofList (s.toUTF8.toList.flatMap fun b => [hexDigit (b.toNat / 16), hexDigit (b.toNat % 16)])

def parseInt (s : String) : Option Int := s.toInt?
def parseNat (s : String) : Option Nat := s.toNat?

def parseBool (s : String) : Option Bool :=
  if s = "1" || s = "true" then some true
  else if s = "0" || s = "false" then some false
  else none

def showBool (b : Bool) : String := if b then "1" else "0"

/-- Run `step` on every line of stdin, printing one output line per input line. -/
partial def lineLoop (h : IO.FS.Stream) (out : IO.FS.Stream) (step : String → String) : IO Unit := do
  let line ← h.getLine
  if line.isEmpty then
    out.flush
    return ()
  let l := if line.endsWith "\n" then (line.dropEnd 1).toString else line
  out.putStrLn (step l)
  lineLoop h out step

def runLines (step : String → String) : IO Unit := do
  lineLoop (← IO.getStdin) (← IO.getStdout) step

end Verif.Proto
