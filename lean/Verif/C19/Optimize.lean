import Verif.C19.Lemmas
/-!
C19 helper lemmas, part 2: what a valid layout is (`Tiles`, `ValidLayout`, `Roomy`), and
the facts about structlayout-optimize's `pad`, `offsetsof` and the `byAlignAndSize` order
that hold for arbitrary record lists.
-/
namespace Verif.C19

/-! ### layouts -/

/-- the records tile `[s, e)`: each record starts where the previous one stopped (no gap,
no overlap), `stop = start + size`, the first starts at `s`, the last stops at `e`. -/
def Tiles : Nat → Nat → List Rec → Prop
  | s, e, [] => s = e
  | s, e, r :: l => r.start = s ∧ r.stop = r.start + r.size ∧ Tiles r.stop e l

/-- end of the last record (0 for no records): the size a layout claims. -/
def total (l : List Rec) : Nat := (l.getLast?.map (·.stop)).getD 0

/-- (name, size, alignment) of a record: what a reordering must preserve. -/
def Rec.key (r : Rec) : List String × Nat × Nat := (r.name, r.size, r.align)

/-- the non-padding records. -/
def fieldsOf (l : List Rec) : List Rec := l.filter (fun r => !r.pad)

/-- every field record is aligned (and has a positive alignment), every padding record is
non-empty. -/
def WellRecs (l : List Rec) : Prop :=
  ∀ r ∈ l, (r.pad = false → 0 < r.align ∧ r.align ∣ r.start) ∧ (r.pad = true → 0 < r.size)

/-- A valid layout of size `size`: records tile `[0, size)`, fields are aligned, paddings are
non-empty, and the size is a multiple of every field's alignment. -/
structure ValidLayout (l : List Rec) (size : Nat) : Prop where
  tiles : Tiles 0 size l
  well : WellRecs l
  size_aligned : ∀ r ∈ l, r.pad = false → r.align ∣ size

/-- Every field's size is a multiple of its alignment, or the field is directly followed by
padding that reaches a multiple of the field's alignment. (Go types have sizes that are
multiples of their alignment; structlayout shows a zero-size field that ends a struct with
the byte the compiler adds, followed by the struct's tail padding.) -/
def Roomy : List Rec → Prop
  | [] => True
  | r :: rest =>
    (r.pad = false → r.align ∣ r.size ∨ ∃ q rest', rest = q :: rest' ∧ q.pad = true ∧ r.align ∣ q.stop) ∧
    Roomy rest

theorem Tiles.append {s m e : Nat} {l1 l2 : List Rec} (h1 : Tiles s m l1) (h2 : Tiles m e l2) :
    Tiles s e (l1 ++ l2) := by
  induction l1 generalizing s with
  | nil => simp only [Tiles] at h1; subst h1; simpa using h2
  | cons r l ih =>
    obtain ⟨a, b, c⟩ := h1
    exact ⟨a, b, ih c⟩

theorem Tiles.le {s e : Nat} {l : List Rec} (h : Tiles s e l) : s ≤ e := by
  induction l generalizing s with
  | nil => simp only [Tiles] at h; omega
  | cons r l ih =>
    obtain ⟨a, b, c⟩ := h
    have := ih c
    omega

theorem Tiles.sum {s e : Nat} {l : List Rec} (h : Tiles s e l) : s + sumSizes l = e := by
  induction l generalizing s with
  | nil => simp only [Tiles] at h; simp [sumSizes, h]
  | cons r l ih =>
    obtain ⟨a, b, c⟩ := h
    have := ih c
    simp only [sumSizes, List.map_cons, List.sum_cons] at this ⊢
    omega

theorem Tiles.total_eq {s e : Nat} {l : List Rec} (h : Tiles s e l) (hne : l ≠ []) : total l = e := by
  induction l generalizing s with
  | nil => exact absurd rfl hne
  | cons r l ih =>
    obtain ⟨a, b, c⟩ := h
    cases l with
    | nil => simp only [Tiles] at c; simp [C19.total, c]
    | cons q l' =>
      have := ih c (by simp)
      simpa [C19.total, List.getLast?_cons_cons] using this

/-- splitting a tiling at an append. -/
theorem Tiles.split {s e : Nat} {l1 l2 : List Rec} (h : Tiles s e (l1 ++ l2)) :
    ∃ m, Tiles s m l1 ∧ Tiles m e l2 := by
  induction l1 generalizing s with
  | nil => exact ⟨s, rfl, by simpa using h⟩
  | cons r l ih =>
    obtain ⟨a, b, c⟩ := h
    obtain ⟨m, h1, h2⟩ := ih c
    exact ⟨m, ⟨a, b, h1⟩, h2⟩

theorem Roomy.append {l1 l2 : List Rec} (h1 : Roomy l1) (h2 : Roomy l2) : Roomy (l1 ++ l2) := by
  induction l1 with
  | nil => simpa using h2
  | cons r l ih =>
    obtain ⟨a, b⟩ := h1
    refine ⟨fun hp => ?_, ih b⟩
    rcases a hp with h | ⟨q, rest', rfl, hq, hd⟩
    · exact Or.inl h
    · exact Or.inr ⟨q, rest' ++ l2, rfl, hq, hd⟩

theorem WellRecs.append {l1 l2 : List Rec} (h1 : WellRecs l1) (h2 : WellRecs l2) : WellRecs (l1 ++ l2) := by
  intro r hr
  rcases List.mem_append.mp hr with h | h
  · exact h1 r h
  · exact h2 r h

/-- sum of the fields' sizes rounded up to their alignments. -/
def rsum (l : List Rec) : Nat := (l.map (fun f => roundUp f.size f.align)).sum

theorem rsum_perm {l1 l2 : List Rec} (h : l1.Perm l2) : rsum l1 = rsum l2 :=
  (h.map _).sum_nat

theorem fieldsOf_cons_pad {r : Rec} (l : List Rec) (h : r.pad = true) : fieldsOf (r :: l) = fieldsOf l := by
  simp [fieldsOf, h]

theorem fieldsOf_cons_field {r : Rec} (l : List Rec) (h : r.pad = false) : fieldsOf (r :: l) = r :: fieldsOf l := by
  simp [fieldsOf, h]

theorem fieldsOf_append (l1 l2 : List Rec) : fieldsOf (l1 ++ l2) = fieldsOf l1 ++ fieldsOf l2 := by
  simp [fieldsOf]

theorem rsum_cons (r : Rec) (l : List Rec) : rsum (r :: l) = roundUp r.size r.align + rsum l := by
  simp [rsum]

/-- In a roomy tiling with aligned fields, the fields' rounded sizes fit. -/
theorem rsum_le_of_roomy {e : Nat} : ∀ (l : List Rec) (s : Nat), Tiles s e l → WellRecs l → Roomy l →
    s + rsum (fieldsOf l) ≤ e
  | [], s, ht, _, _ => by simp only [Tiles] at ht; simp [fieldsOf, rsum, ht]
  | r :: l, s, ht, hw, hr => by
    obtain ⟨a, b, c⟩ := ht
    obtain ⟨hr1, hr2⟩ := hr
    have hw' : WellRecs l := fun x hx => hw x (by simp [hx])
    have ih := rsum_le_of_roomy l r.stop c hw' hr2
    cases hp : r.pad with
    | true => rw [fieldsOf_cons_pad l hp]; omega
    | false =>
      rw [fieldsOf_cons_field l hp, rsum_cons]
      obtain ⟨hpos, hal⟩ := (hw r (by simp)).1 hp
      rcases hr1 hp with hd | ⟨q, rest', hl, hq, hd⟩
      · rw [roundUp_of_dvd hpos hd]; omega
      · subst hl
        obtain ⟨qa, qb, qc⟩ := c
        have hw'' : WellRecs rest' := fun x hx => hw' x (by simp [hx])
        have ih2 := rsum_le_of_roomy rest' q.stop qc hw'' hr2.2
        rw [fieldsOf_cons_pad rest' hq]
        have h1 : r.align ∣ q.stop - r.start := Nat.dvd_sub hd hal
        have h2 : roundUp r.size r.align ≤ q.stop - r.start := roundUp_min hpos h1 (by omega)
        omega
termination_by l => l.length

/-! ### `offsetsof`, `pad` of structlayout-optimize -/

/-- end of the last field when the fields are placed in this order (`offsetsof`). -/
def optEnd : Nat → List Rec → Nat
  | o, [] => o
  | o, f :: r => optEnd (align o f.align + f.size) r

/-- all records are fields with a positive alignment. -/
def AllFields (l : List Rec) : Prop := ∀ f ∈ l, f.pad = false ∧ 0 < f.align

theorem AllFields.tail {f : Rec} {l : List Rec} (h : AllFields (f :: l)) : AllFields l :=
  fun x hx => h x (by simp [hx])

theorem padLoop_cons (pos : Nat) (f : Rec) (l : List Rec) (hge : pos ≤ align pos f.align) :
    padLoop pos (f :: l) (optOffsets pos (f :: l)) =
      (if align pos f.align > pos then [Rec.padding pos (align pos f.align)] else []) ++
      ({ f with start := align pos f.align, stop := align pos f.align + f.size } ::
      padLoop (align pos f.align + f.size) l (optOffsets (align pos f.align + f.size) l)) := by
  have : (if align pos f.align > pos then align pos f.align else pos) = align pos f.align := by
    split <;> omega
  simp only [padLoop, optOffsets, this, List.append_assoc, List.cons_append, List.nil_append]

/-- the loop of `pad`: the records tile from the start position to the end of the last field,
fields are aligned, paddings non-empty, and the fields are the input fields in input order. -/
theorem padLoop_spec (l : List Rec) (pos : Nat) (h : AllFields l) :
    Tiles pos (optEnd pos l) (padLoop pos l (optOffsets pos l)) ∧
    WellRecs (padLoop pos l (optOffsets pos l)) ∧
    (fieldsOf (padLoop pos l (optOffsets pos l))).map Rec.key = l.map Rec.key := by
  induction l generalizing pos with
  | nil => simp [padLoop, optEnd, Tiles, WellRecs, fieldsOf]
  | cons f l ih =>
    obtain ⟨hp, ha⟩ := h f (by simp)
    have hge : pos ≤ align pos f.align := by rw [align_eq_roundUp]; exact le_roundUp pos ha
    have hdv : f.align ∣ align pos f.align := by rw [align_eq_roundUp]; exact roundUp_dvd _ _
    rw [padLoop_cons pos f l hge]
    obtain ⟨i1, i2, i3⟩ := ih (align pos f.align + f.size) h.tail
    have t2 : Tiles (align pos f.align) (optEnd pos (f :: l))
        ({ f with start := align pos f.align, stop := align pos f.align + f.size } ::
          padLoop (align pos f.align + f.size) l (optOffsets (align pos f.align + f.size) l)) :=
      ⟨rfl, rfl, i1⟩
    have w2 : WellRecs ({ f with start := align pos f.align, stop := align pos f.align + f.size } ::
          padLoop (align pos f.align + f.size) l (optOffsets (align pos f.align + f.size) l)) := by
      intro r hr
      rcases List.mem_cons.mp hr with rfl | hr
      · simp [hp, ha, hdv]
      · exact i2 r hr
    have k2 : (fieldsOf ({ f with start := align pos f.align, stop := align pos f.align + f.size } ::
          padLoop (align pos f.align + f.size) l (optOffsets (align pos f.align + f.size) l))).map Rec.key
          = (f :: l).map Rec.key := by
      rw [fieldsOf_cons_field _ (by simpa using hp)]
      simp only [List.map_cons, i3]
      rfl
    by_cases hgt : align pos f.align > pos
    · simp only [hgt, if_true]
      refine ⟨?_, ?_, ?_⟩
      · exact Tiles.append (l1 := [Rec.padding pos (align pos f.align)])
          ⟨rfl, by simp [Rec.padding]; omega, rfl⟩ t2
      · apply WellRecs.append _ w2
        intro r hr
        simp only [List.mem_singleton] at hr
        subst hr
        simp [Rec.padding]; omega
      · rw [fieldsOf_append, fieldsOf_cons_pad _ (by simp [Rec.padding])]
        simpa [fieldsOf] using k2
    · have heq : align pos f.align = pos := by omega
      simp only [hgt, if_false, List.nil_append]
      exact ⟨⟨heq, rfl, i1⟩, w2, k2⟩

/-- `alignment` of `pad`: the maximum of the alignments (at least 1). -/
theorem padAlignment_spec (l : List Rec) (m : Nat) (hm : Pow2 m) (h : ∀ f ∈ l, Pow2 f.align) :
    Pow2 (l.foldl (fun m f => if f.align > m then f.align else m) m) ∧
    m ≤ l.foldl (fun m f => if f.align > m then f.align else m) m ∧
    ∀ f ∈ l, f.align ≤ l.foldl (fun m f => if f.align > m then f.align else m) m := by
  induction l generalizing m with
  | nil => simp [hm]
  | cons x r ih =>
    have hx : Pow2 x.align := h x (by simp)
    have hm' : Pow2 (if x.align > m then x.align else m) := by split <;> assumption
    have := ih _ hm' (fun p hp => h p (by simp [hp]))
    have hb : m ≤ (if x.align > m then x.align else m) ∧ x.align ≤ (if x.align > m then x.align else m) := by
      split <;> omega
    simp only [List.foldl_cons]
    refine ⟨this.1, ?_, ?_⟩
    · have := this.2.1; omega
    · intro p hp
      rcases List.mem_cons.mp hp with rfl | hp
      · have := this.2.1; omega
      · exact this.2.2 p hp

theorem pow2_one : Pow2 1 := ⟨0, rfl⟩

theorem dvd_padAlignment (l : List Rec) (h : ∀ f ∈ l, Pow2 f.align) : ∀ f ∈ l, f.align ∣ padAlignment l :=
  fun f hf => (h f hf).dvd_of_le (padAlignment_spec l 1 pow2_one h).1 ((padAlignment_spec l 1 pow2_one h).2.2 f hf)

theorem padAlignment_pos (l : List Rec) (h : ∀ f ∈ l, Pow2 f.align) : 0 < padAlignment l :=
  (padAlignment_spec l 1 pow2_one h).1.pos

theorem padLoop_ne_nil (pos : Nat) (f : Rec) (l : List Rec) :
    padLoop pos (f :: l) (optOffsets pos (f :: l)) ≠ [] := by
  simp [padLoop, optOffsets]

/-- size of the layout `pad` produces for fields in this order. -/
def padSize (l : List Rec) : Nat := roundUp (optEnd 0 l) (padAlignment l)

/-- `pad`: a valid layout of size `padSize`, whose fields are the input fields in order. -/
theorem pad_spec (l : List Rec) (hne : l ≠ []) (h : AllFields l) (hp : ∀ f ∈ l, Pow2 f.align) :
    Tiles 0 (padSize l) (pad l) ∧ WellRecs (pad l) ∧ (fieldsOf (pad l)).map Rec.key = l.map Rec.key ∧
    total (pad l) = padSize l := by
  obtain ⟨f, r, rfl⟩ := List.exists_cons_of_ne_nil hne
  obtain ⟨t, w, k⟩ := padLoop_spec (f :: r) 0 h
  have hsum : sumSizes (padLoop 0 (f :: r) (optOffsets 0 (f :: r))) = optEnd 0 (f :: r) := by
    have := t.sum; omega
  have hlast := t.total_eq (padLoop_ne_nil 0 f r)
  have hA := padAlignment_pos (f :: r) hp
  have hle : optEnd 0 (f :: r) ≤ roundUp (optEnd 0 (f :: r)) (padAlignment (f :: r)) := le_roundUp _ hA
  have key : pad (f :: r) =
      if roundUp (optEnd 0 (f :: r)) (padAlignment (f :: r)) - optEnd 0 (f :: r) > 0 then
        padLoop 0 (f :: r) (optOffsets 0 (f :: r)) ++
          [Rec.padding (optEnd 0 (f :: r)) (optEnd 0 (f :: r) +
            (roundUp (optEnd 0 (f :: r)) (padAlignment (f :: r)) - optEnd 0 (f :: r)))]
      else padLoop 0 (f :: r) (optOffsets 0 (f :: r)) := by
    have hl : ((padLoop 0 (f :: r) (optOffsets 0 (f :: r))).getLast?.map (·.stop)).getD 0 = optEnd 0 (f :: r) := hlast
    simp only [pad, hsum, align_eq_roundUp, hl]
  have goal3 : Tiles 0 (padSize (f :: r)) (pad (f :: r)) ∧ WellRecs (pad (f :: r)) ∧
      (fieldsOf (pad (f :: r))).map Rec.key = (f :: r).map Rec.key := by
    rw [key]
    unfold padSize
    split
    · rename_i hgt
      refine ⟨?_, ?_, ?_⟩
      · apply t.append
        refine ⟨rfl, by simp [Rec.padding], ?_⟩
        show _ = _
        simp [Rec.padding]; omega
      · apply w.append
        intro x hx
        simp only [List.mem_singleton] at hx
        subst hx
        simp [Rec.padding]; omega
      · rw [fieldsOf_append, fieldsOf_cons_pad _ (by simp [Rec.padding])]
        simpa [fieldsOf] using k
    · rename_i hgt
      have : roundUp (optEnd 0 (f :: r)) (padAlignment (f :: r)) = optEnd 0 (f :: r) := by omega
      rw [this]
      exact ⟨t, w, k⟩
  refine ⟨goal3.1, goal3.2.1, goal3.2.2, ?_⟩
  apply goal3.1.total_eq
  intro hnil
  have := goal3.2.2
  rw [hnil] at this
  simp [fieldsOf] at this

/-! ### the `byAlignAndSize` order -/

theorem sortLe_trans (a b c : Rec) (h1 : sortLe a b = true) (h2 : sortLe b c = true) : sortLe a c = true := by
  simp only [sortLe, less, Bool.not_eq_true'] at *
  (repeat' split at h1) <;> (repeat' split at h2) <;> (repeat' split) <;> simp_all <;> omega

theorem sortLe_total (a b : Rec) : (sortLe a b || sortLe b a) = true := by
  simp only [sortLe, less]
  (repeat' split) <;> simp_all <;> omega

/-- what the order guarantees for a field placed before another: a non-zero-size field is
followed only by non-zero-size fields of at most its alignment. -/
theorem sortLe_spec {f g : Rec} (h : sortLe f g = true) (hf : f.size ≠ 0) : g.size ≠ 0 ∧ g.align ≤ f.align := by
  simp only [sortLe, less, Bool.not_eq_true'] at h
  (repeat' split at h) <;> simp_all <;> omega

theorem optimize_sorted (l : List Rec) : (optimize l).Pairwise (fun f g => sortLe f g = true) :=
  List.pairwise_mergeSort sortLe_trans sortLe_total l

theorem optimize_perm_list (l : List Rec) : (optimize l).Perm l := List.mergeSort_perm l _

/-- The heart of "sorting never grows a struct": if every non-zero-size field is followed only
by fields whose alignment divides its own, the fields are packed without any padding beyond
rounding each size up to its own alignment. -/
theorem optEnd_le_of_sorted (l : List Rec) (o R : Nat)
    (hs : l.Pairwise (fun f g => f.size ≠ 0 → g.align ∣ f.align))
    (hal : ∀ f ∈ l, 0 < f.align) (hoR : o ≤ R) (hdiv : ∀ f ∈ l, f.align ∣ R) :
    optEnd o l ≤ R + rsum l := by
  induction l generalizing o R with
  | nil => simpa [optEnd, rsum] using hoR
  | cons f r ih =>
    rw [List.pairwise_cons] at hs
    have ha := hal f (by simp)
    have h1 : align o f.align ≤ R := by
      rw [align_eq_roundUp]; exact roundUp_min ha (hdiv f (by simp)) hoR
    have h2 : f.size ≤ roundUp f.size f.align := le_roundUp _ ha
    have := ih (align o f.align + f.size) (R + roundUp f.size f.align) hs.2
      (fun g hg => hal g (by simp [hg])) (by omega) (by
        intro g hg
        apply Nat.dvd_add (hdiv g (by simp [hg]))
        by_cases hz : f.size = 0
        · rw [hz, roundUp_zero]; exact Nat.dvd_zero _
        · exact Nat.dvd_trans (hs.1 g hg hz) (roundUp_dvd _ _))
    simp only [optEnd, rsum_cons]
    omega

/-- after `optimize`, the fields need no more room than the sum of their rounded sizes. -/
theorem optEnd_optimize_le (l : List Rec) (h : AllFields l) (hp : ∀ f ∈ l, Pow2 f.align) :
    optEnd 0 (optimize l) ≤ rsum l := by
  have hperm := optimize_perm_list l
  have hmem : ∀ f, f ∈ optimize l → f ∈ l := fun f hf => hperm.mem_iff.mp hf
  have hs : (optimize l).Pairwise (fun f g => f.size ≠ 0 → g.align ∣ f.align) := by
    apply List.Pairwise.imp_of_mem _ (optimize_sorted l)
    intro f g hf hg hle hz
    exact (hp g (hmem g hg)).dvd_of_le (hp f (hmem f hf)) (sortLe_spec hle hz).2
  have := optEnd_le_of_sorted (optimize l) 0 0 hs (fun f hf => (h f (hmem f hf)).2) (Nat.le_refl _)
    (fun f _ => Nat.dvd_zero _)
  rw [rsum_perm hperm] at this
  omega

theorem padAlignment_perm {l1 l2 : List Rec} (h : l1.Perm l2) (hp : ∀ f ∈ l1, Pow2 f.align) :
    padAlignment l1 = padAlignment l2 := by
  have hp2 : ∀ f ∈ l2, Pow2 f.align := fun f hf => hp f (h.mem_iff.mpr hf)
  have s1 := padAlignment_spec l1 1 pow2_one hp
  have s2 := padAlignment_spec l2 1 pow2_one hp2
  -- both are the maximum of 1 and the alignments
  have att : ∀ (l : List Rec) (m : Nat),
      l.foldl (fun m f => if f.align > m then f.align else m) m = m ∨
      ∃ f ∈ l, f.align = l.foldl (fun m f => if f.align > m then f.align else m) m := by
    intro l
    induction l with
    | nil => intro m; simp
    | cons x r ih =>
      intro m
      simp only [List.foldl_cons]
      rcases ih (if x.align > m then x.align else m) with h | ⟨f, hf, he⟩
      · by_cases hx : x.align > m
        · right; exact ⟨x, by simp, by rw [h]; simp [hx]⟩
        · left; rw [h]; simp [hx]
      · right; exact ⟨f, by simp [hf], he⟩
  unfold padAlignment at *
  apply Nat.le_antisymm
  · rcases att l1 1 with h1 | ⟨f, hf, he⟩
    · rw [h1]; exact s2.2.1
    · rw [← he]; exact s2.2.2 f (h.mem_iff.mp hf)
  · rcases att l2 1 with h1 | ⟨f, hf, he⟩
    · rw [h1]; exact s1.2.1
    · rw [← he]; exact s1.2.2 f (h.mem_iff.mpr hf)

theorem padAlignment_attained (l : List Rec) : padAlignment l = 1 ∨ ∃ f ∈ l, f.align = padAlignment l := by
  have att : ∀ (l : List Rec) (m : Nat),
      l.foldl (fun m f => if f.align > m then f.align else m) m = m ∨
      ∃ f ∈ l, f.align = l.foldl (fun m f => if f.align > m then f.align else m) m := by
    intro l
    induction l with
    | nil => intro m; simp
    | cons x r ih =>
      intro m
      simp only [List.foldl_cons]
      rcases ih (if x.align > m then x.align else m) with h | ⟨f, hf, he⟩
      · by_cases hx : x.align > m
        · right; exact ⟨x, by simp, by rw [h]; simp [hx]⟩
        · left; rw [h]; simp [hx]
      · right; exact ⟨f, by simp [hf], he⟩
  exact att l 1

/-- if the fields' rounded sizes fit into `size` and every alignment divides `size`, then
`pad (optimize fields)` is not larger than `size`. -/
theorem pad_optimize_le (fields : List Rec) (size : Nat) (hp : ∀ f ∈ fields, Pow2 f.align)
    (hfit : rsum fields ≤ size) (hdiv : ∀ f ∈ fields, f.align ∣ size) :
    roundUp (rsum fields) (padAlignment fields) ≤ size := by
  apply roundUp_min (padAlignment_pos _ hp) _ hfit
  rcases padAlignment_attained fields with h1 | ⟨f, hf, he⟩
  · rw [h1]; exact Nat.one_dvd _
  · rw [← he]; exact hdiv f hf

end Verif.C19
