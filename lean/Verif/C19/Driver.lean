import Verif.Common.Proto
import Verif.C19.Model
/-
Line protocol of the C19 model driver.

  type encoding (prefix notation, space separated tokens):
    <kind>                     bool i8 i16 i32 i64 u8 u16 u32 u64 f32 f64 c64 c128 str int uint
                               uptr usp ptr slice iface map chan func
    N <ty>                     named / alias type with underlying <ty>
    A <n> <ty>                 [n]<ty>
    S <k> (<name> <ty>)*k      struct with k fields
  record encoding:  f:<dotted name>:<start>:<end>:<size>:<align>   |   p:<start>:<end>:<size>

  gc  <ty>        -> <size> <align> <offsets|-> <field sizes|-> <field aligns|->   compiler rules (specification)
  gcs <ty>        -> same format, go/gcsizes
  lay <ty>        -> records of `structlayout T` (type must be a struct)
  leaves <ty>     -> l:<dotted name>:<offset>:<size>:<align> per leaf, compiler rules (specification)
  opt <0|1> <ty>  -> records of `structlayout -json T | structlayout-optimize [-r]`
  optrec <0|1> <rec>*  -> records of structlayout-optimize [-r] on the given records
-/
namespace Verif.C19
open Verif.Proto

def parseKind : String → Option Kind
  | "bool" => some .bool | "i8" => some .i8 | "i16" => some .i16 | "i32" => some .i32
  | "i64" => some .i64 | "u8" => some .u8 | "u16" => some .u16 | "u32" => some .u32
  | "u64" => some .u64 | "f32" => some .f32 | "f64" => some .f64 | "c64" => some .c64
  | "c128" => some .c128 | "str" => some .str | "int" => some .int | "uint" => some .uint
  | "uptr" => some .uptr | "usp" => some .usp | "ptr" => some .ptr | "slice" => some .slice
  | "iface" => some .iface | "map" => some .map | "chan" => some .chan | "func" => some .func
  | _ => none

def validName (s : String) : Bool := s ≠ "" && !s.contains '.' && !s.contains ':'

mutual
def parseTy : Nat → List String → Option (Ty × List String)
  | 0, _ => none
  | _ + 1, [] => none
  | fuel + 1, "N" :: r => do
    let (u, r) ← parseTy fuel r
    pure (.named u, r)
  | fuel + 1, "A" :: n :: r => do
    let n ← n.toNat?
    let (e, r) ← parseTy fuel r
    pure (.array n e, r)
  | fuel + 1, "S" :: k :: r => do
    let k ← k.toNat?
    let (fs, r) ← parseFields fuel k r
    pure (.struct fs, r)
  | _ + 1, t :: r => (parseKind t).map fun k => (.prim k, r)
def parseFields : Nat → Nat → List String → Option (Fields × List String)
  | 0, _, _ => none
  | _ + 1, 0, r => some (.nil, r)
  | _ + 1, _ + 1, [] => none
  | fuel + 1, k + 1, nm :: r => do
    if !validName nm then none
    let (t, r) ← parseTy fuel r
    let (fs, r) ← parseFields fuel k r
    pure (.cons nm t fs, r)
end

/-- a complete type, no trailing tokens. -/
def parseWholeTy (toks : List String) : Option Ty :=
  match parseTy (toks.length + 1) toks with
  | some (t, []) => some t
  | _ => none

def showNats (l : List Nat) : String :=
  if l.isEmpty then "-" else ",".intercalate (l.map toString)

def showRec (r : Rec) : String :=
  if r.pad then s!"p:{r.start}:{r.stop}:{r.size}"
  else s!"f:{".".intercalate r.name}:{r.start}:{r.stop}:{r.size}:{r.align}"

def showRecs (l : List Rec) : String :=
  if l.isEmpty then "-" else " ".intercalate (l.map showRec)

def parseRec (s : String) : Option Rec :=
  match s.splitOn ":" with
  | ["p", a, b, c] => do
    let a ← a.toNat?; let b ← b.toNat?; let c ← c.toNat?
    pure ⟨[], a, b, c, 0, true⟩
  | ["f", nm, a, b, c, d] => do
    let a ← a.toNat?; let b ← b.toNat?; let c ← c.toNat?; let d ← d.toNat?
    let path := nm.splitOn "."
    -- structlayout names have at least two components; align 0 would divide by zero
    if path.length < 2 || path.any (· = "") || d = 0 then none
    pure ⟨path, a, b, c, d, false⟩
  | _ => none

def parseRecs : List String → Option (List Rec)
  | [] => some []
  | t :: r => do
    let x ← parseRec t
    let xs ← parseRecs r
    pure (x :: xs)

def structFields : Ty → Option Fields
  | .struct fs => some fs
  | .named u => structFields u
  | _ => none

def showInfo (size al : Nat) (fields : Option (List Nat × List (Nat × Nat))) : String :=
  match fields with
  | none => s!"{size} {al} - - -"
  | some (o, infos) => s!"{size} {al} {showNats o} {showNats (infos.map (·.1))} {showNats (infos.map (·.2))}"

def step (line : String) : String :=
  match tokens line with
  | "gc" :: toks =>
    match parseWholeTy toks with
    | some t => showInfo (gcSizeof t) (gcAlignof t) ((structFields t).map fun fs => (gcOffsetsof fs, gcInfos fs))
    | none => "bad-op"
  | "gcs" :: toks =>
    match parseWholeTy toks with
    | some t => showInfo (gcsSizeof t) (gcsAlignof t) ((structFields t).map fun fs => (gcsOffsetsof fs, gcsInfos fs))
    | none => "bad-op"
  | "lay" :: toks =>
    match (parseWholeTy toks).bind structFields with
    | some fs => showRecs (layout "T" fs)
    | none => "bad-op"
  | "leaves" :: toks =>
    match (parseWholeTy toks).bind structFields with
    | some fs =>
      let ls := gcLeavesFields ["T"] 0 0 fs
      if ls.isEmpty then "-"
      else " ".intercalate (ls.map fun l => s!"l:{".".intercalate l.path}:{l.off}:{l.size}:{l.align}")
    | none => "bad-op"
  | "opt" :: r :: toks =>
    match parseBool r, (parseWholeTy toks).bind structFields with
    | some r, some fs => showRecs (optimizeMain r (layout "T" fs))
    | _, _ => "bad-op"
  | "optrec" :: r :: toks =>
    match parseBool r, parseRecs toks with
    | some r, some recs => showRecs (optimizeMain r recs)
    | _, _ => "bad-op"
  | _ => "bad-op"

end Verif.C19
