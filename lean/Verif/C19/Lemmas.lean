import Verif.C19.Model
/-!
C19 helper lemmas, part 1: arithmetic of `roundUp`/`align`, alignments as powers of two,
well-formedness of every type of the grammar under the compiler's rules
(`gc_wf`: alignment ∈ {1,2,4,8} and alignment ∣ size), and go/gcsizes = compiler rules.
Not property statements (those are in Theorems.lean).
-/
namespace Verif.C19

/-! ### roundUp / align -/

theorem align_eq_roundUp (x a : Nat) : align x a = roundUp x a := by
  show (x + a - 1) - (x + a - 1) % a = (x + a - 1) / a * a
  have h := Nat.div_add_mod (x + a - 1) a
  rw [Nat.mul_comm] at h
  omega

theorem roundUp_dvd (x a : Nat) : a ∣ roundUp x a := Nat.dvd_mul_left _ _

theorem le_roundUp (x : Nat) {a : Nat} (h : 0 < a) : x ≤ roundUp x a := by
  unfold roundUp
  have h1 := Nat.div_add_mod (x + a - 1) a
  have h2 := Nat.mod_lt (x + a - 1) h
  rw [Nat.mul_comm] at h1
  omega

theorem roundUp_lt (x : Nat) {a : Nat} (h : 0 < a) : roundUp x a < x + a := by
  unfold roundUp
  have h1 := Nat.div_add_mod (x + a - 1) a
  rw [Nat.mul_comm] at h1
  omega

theorem roundUp_min {x y a : Nat} (h : 0 < a) (hd : a ∣ y) (hle : x ≤ y) : roundUp x a ≤ y := by
  obtain ⟨k, rfl⟩ := hd
  unfold roundUp
  have : (x + a - 1) / a < k + 1 := by
    apply Nat.div_lt_of_lt_mul
    rw [Nat.mul_add]; omega
  rw [Nat.mul_comm a k]
  exact Nat.mul_le_mul_right a (by omega)

theorem roundUp_of_dvd {x a : Nat} (h : 0 < a) (hd : a ∣ x) : roundUp x a = x :=
  Nat.le_antisymm (roundUp_min h hd (Nat.le_refl _)) (le_roundUp x h)

theorem roundUp_mono {x y : Nat} (a : Nat) (h : x ≤ y) : roundUp x a ≤ roundUp y a := by
  unfold roundUp
  exact Nat.mul_le_mul_right a (Nat.div_le_div_right (by omega))

theorem roundUp_zero (a : Nat) : roundUp 0 a = 0 := by
  unfold roundUp
  rcases Nat.eq_zero_or_pos a with rfl | h
  · simp
  · have : (0 + a - 1) / a = 0 := Nat.div_eq_of_lt (by omega)
    rw [this]; simp

/-- rounding to `a` and then to a multiple `b` of `a` is rounding to `b`. -/
theorem roundUp_roundUp {x a b : Nat} (ha : 0 < a) (hb : 0 < b) (hab : a ∣ b) :
    roundUp (roundUp x a) b = roundUp x b := by
  apply Nat.le_antisymm
  · apply roundUp_min hb (roundUp_dvd _ _)
    exact roundUp_min ha (Nat.dvd_trans hab (roundUp_dvd _ _)) (le_roundUp x hb)
  · exact roundUp_mono b (le_roundUp x ha)

/-- `o + roundUp x a` when `a ∣ o`. -/
theorem roundUp_add_left {o x a : Nat} (ha : 0 < a) (hd : a ∣ o) :
    roundUp (o + x) a = o + roundUp x a := by
  apply Nat.le_antisymm
  · exact roundUp_min ha (Nat.dvd_add hd (roundUp_dvd _ _)) (Nat.add_le_add_left (le_roundUp x ha) o)
  · -- o + roundUp x a ≤ roundUp (o + x) a
    have h1 : o ≤ roundUp (o + x) a := Nat.le_trans (Nat.le_add_right o x) (le_roundUp _ ha)
    have h2 : a ∣ roundUp (o + x) a - o := Nat.dvd_sub (roundUp_dvd _ _) hd
    have h3 : roundUp x a ≤ roundUp (o + x) a - o :=
      roundUp_min ha h2 (by have := le_roundUp (o + x) ha; omega)
    omega

/-! ### alignments -/

/-- the alignments of the amd64 compiler. -/
def IsAl (a : Nat) : Prop := a = 1 ∨ a = 2 ∨ a = 4 ∨ a = 8

/-- a power of two. -/
def Pow2 (a : Nat) : Prop := ∃ k, a = 2 ^ k

theorem IsAl.pos {a : Nat} (h : IsAl a) : 0 < a := by
  rcases h with rfl | rfl | rfl | rfl <;> omega

theorem IsAl.pow2 {a : Nat} (h : IsAl a) : Pow2 a := by
  rcases h with rfl | rfl | rfl | rfl
  · exact ⟨0, rfl⟩
  · exact ⟨1, rfl⟩
  · exact ⟨2, rfl⟩
  · exact ⟨3, rfl⟩

theorem Pow2.pos {a : Nat} (h : Pow2 a) : 0 < a := by
  obtain ⟨k, rfl⟩ := h
  exact Nat.pow_pos (by omega)

/-- powers of two are totally ordered by divisibility. -/
theorem Pow2.dvd_of_le {a b : Nat} (ha : Pow2 a) (hb : Pow2 b) (h : a ≤ b) : a ∣ b := by
  obtain ⟨i, rfl⟩ := ha
  obtain ⟨j, rfl⟩ := hb
  have : i ≤ j := (Nat.pow_le_pow_iff_right (by omega)).mp h
  exact Nat.pow_dvd_pow 2 this

theorem IsAl.dvd_of_le {a b : Nat} (ha : IsAl a) (hb : IsAl b) (h : a ≤ b) : a ∣ b :=
  ha.pow2.dvd_of_le hb.pow2 h

theorem IsAl.max {a b : Nat} (ha : IsAl a) (hb : IsAl b) : IsAl (max a b) := by
  rcases Nat.le_total a b with h | h
  · rw [Nat.max_eq_right h]; exact hb
  · rw [Nat.max_eq_left h]; exact ha

/-! ### struct alignment = maximum of the field alignments -/

theorem foldl_max_spec (l : List (Nat × Nat)) (m : Nat) (hm : IsAl m) (h : ∀ p ∈ l, IsAl p.2) :
    IsAl (l.foldl (fun m p => max m p.2) m) ∧ m ≤ l.foldl (fun m p => max m p.2) m ∧
    ∀ p ∈ l, p.2 ≤ l.foldl (fun m p => max m p.2) m := by
  induction l generalizing m with
  | nil => simp [hm]
  | cons x r ih =>
    have hx : IsAl x.2 := h x (by simp)
    have := ih (max m x.2) (hm.max hx) (fun p hp => h p (by simp [hp]))
    simp only [List.foldl_cons]
    refine ⟨this.1, by omega, ?_⟩
    intro p hp
    rcases List.mem_cons.mp hp with rfl | hp
    · omega
    · exact this.2.2 p hp

theorem gcStructAlign_isAl (l : List (Nat × Nat)) (h : ∀ p ∈ l, IsAl p.2) : IsAl (gcStructAlign l) :=
  (foldl_max_spec l 1 (Or.inl rfl) h).1

theorem dvd_gcStructAlign (l : List (Nat × Nat)) (h : ∀ p ∈ l, IsAl p.2) :
    ∀ p ∈ l, p.2 ∣ gcStructAlign l := fun p hp =>
  (h p hp).dvd_of_le (gcStructAlign_isAl l h) ((foldl_max_spec l 1 (Or.inl rfl) h).2.2 p hp)

/-- some field has the struct's alignment, unless that is 1. -/
theorem foldl_max_attained (l : List (Nat × Nat)) (m : Nat) :
    l.foldl (fun m p => max m p.2) m = m ∨ ∃ p ∈ l, p.2 = l.foldl (fun m p => max m p.2) m := by
  induction l generalizing m with
  | nil => simp
  | cons x r ih =>
    simp only [List.foldl_cons]
    rcases ih (max m x.2) with h | ⟨p, hp, he⟩
    · rcases Nat.le_total m x.2 with h' | h'
      · right; exact ⟨x, by simp, by rw [h, Nat.max_eq_right h']⟩
      · left; rw [h, Nat.max_eq_left h']
    · right; exact ⟨p, by simp [hp], he⟩

theorem gcStructAlign_attained (l : List (Nat × Nat)) :
    gcStructAlign l = 1 ∨ ∃ p ∈ l, p.2 = gcStructAlign l := foldl_max_attained l 1

/-! ### every type of the grammar is well-formed under the compiler's rules -/

theorem gcStructSize_dvd (l : List (Nat × Nat)) : gcStructAlign l ∣ gcStructSize l := by
  unfold gcStructSize
  exact roundUp_dvd _ _

mutual
/-- For every type: the alignment is 1, 2, 4 or 8 and divides the size. -/
theorem gc_wf : (t : Ty) → IsAl (gcAlignof t) ∧ gcAlignof t ∣ gcSizeof t
  | .prim k => by
    cases k <;> simp [gcAlignof, gcSizeof, gcPrimAlign, gcPrimSize, IsAl] <;> decide
  | .named u => by
    have := gc_wf u
    simpa [gcAlignof, gcSizeof] using this
  | .array n e => by
    have := gc_wf e
    simp only [gcAlignof, gcSizeof]
    exact ⟨this.1, Nat.dvd_mul_left_of_dvd this.2 n⟩
  | .struct fs => by
    have h := gc_wf_fields fs
    simp only [gcAlignof, gcSizeof]
    exact ⟨gcStructAlign_isAl _ (fun p hp => (h p hp).1), gcStructSize_dvd _⟩
theorem gc_wf_fields : (fs : Fields) → ∀ p ∈ gcInfos fs, IsAl p.2 ∧ p.2 ∣ p.1
  | .nil => by simp [gcInfos]
  | .cons _ t r => by
    have h1 := gc_wf t
    have h2 := gc_wf_fields r
    intro p hp
    simp only [gcInfos, List.mem_cons] at hp
    rcases hp with rfl | hp
    · exact h1
    · exact h2 p hp
end

/-! ### go/gcsizes = the compiler's rules -/

theorem gcsOffsets_eq (o : Nat) (l : List (Nat × Nat)) : gcsOffsets o l = gcOffsets o l := by
  induction l generalizing o with
  | nil => rfl
  | cons x r ih =>
    obtain ⟨sz, al⟩ := x
    simp only [gcsOffsets, gcOffsets, align_eq_roundUp, ih]

theorem gcsStructAlign_eq (l : List (Nat × Nat)) : gcsStructAlign l = gcStructAlign l := by
  unfold gcsStructAlign gcStructAlign
  congr 1
  funext m p
  rw [Nat.max_def]
  split <;> split <;> omega

theorem gcOffsets_ne_nil (o : Nat) (x : Nat × Nat) (r : List (Nat × Nat)) : gcOffsets o (x :: r) ≠ [] := by
  obtain ⟨sz, al⟩ := x
  simp [gcOffsets]

/-- the end of the last field = its offset + its width. -/
theorem gcEnd_eq (o : Nat) (l : List (Nat × Nat)) (p : Nat × Nat) (h : l.getLast? = some p) :
    gcEnd o l = (gcOffsets o l).getLast?.getD 0 + p.1 := by
  induction l generalizing o with
  | nil => simp at h
  | cons x r ih =>
    obtain ⟨sz, al⟩ := x
    cases r with
    | nil =>
      simp at h
      subst h
      simp [gcEnd, gcOffsets]
    | cons y r' =>
      rw [List.getLast?_cons_cons] at h
      have := ih (roundUp o al + sz) h
      rw [show gcEnd o ((sz, al) :: y :: r') = gcEnd (roundUp o al + sz) (y :: r') from rfl, this,
        show gcOffsets o ((sz, al) :: y :: r') = roundUp o al :: gcOffsets (roundUp o al + sz) (y :: r') from rfl]
      cases hq : gcOffsets (roundUp o al + sz) (y :: r') with
      | nil => exact absurd hq (gcOffsets_ne_nil _ _ _)
      | cons a b => rw [List.getLast?_cons_cons]

theorem gcsStructSize_eq (l : List (Nat × Nat)) : gcsStructSize l = gcStructSize l := by
  unfold gcsStructSize gcStructSize
  cases hl : l.getLast? with
  | none =>
    have : l = [] := List.getLast?_eq_none_iff.mp hl
    subst this
    simp [gcEnd, lastWidth, roundUp_zero]
  | some p =>
    obtain ⟨lastSz, lastAl⟩ := p
    have he := gcEnd_eq 0 l _ hl
    simp only [gcsOffsets_eq, gcsStructAlign_eq, align_eq_roundUp, lastWidth, hl, Option.map_some, he]
    by_cases hz : lastSz = 0
    · subst hz
      simp only [Nat.add_zero, true_and, and_true]
      split <;> simp_all
    · have h1 : ¬ (lastSz = 0 ∧ (gcOffsets 0 l).getLast?.getD 0 > 0) := by omega
      have h2 : ¬ ((gcOffsets 0 l).getLast?.getD 0 + lastSz > 0 ∧ some lastSz = some 0) := by
        simp; omega
      simp only [h1, h2, if_false]

mutual
theorem gcs_eq : (t : Ty) → gcsSizeof t = gcSizeof t ∧ gcsAlignof t = gcAlignof t
  | .prim k => by
    cases k <;> simp [gcsSizeof, gcsAlignof, gcSizeof, gcAlignof, gcsPrimSize, gcsPrimAlign,
      gcsBasicSize, gcPrimSize, gcPrimAlign, wordSize, maxAlign]
  | .named u => by
    have := gcs_eq u
    simpa [gcsSizeof, gcsAlignof, gcSizeof, gcAlignof] using this
  | .array n e => by
    have h := gcs_eq e
    have hw := gc_wf e
    simp only [gcsSizeof, gcsAlignof, gcSizeof, gcAlignof, h.1, h.2, align_eq_roundUp]
    refine ⟨?_, trivial⟩
    rw [roundUp_of_dvd hw.1.pos hw.2]
    split
    · subst_vars; simp
    · rename_i hn
      obtain ⟨m, rfl⟩ : ∃ m, n = m + 1 := ⟨n - 1, by omega⟩
      simp [Nat.add_mul, Nat.mul_comm]
  | .struct fs => by
    have h := gcsInfos_eq fs
    simp only [gcsSizeof, gcsAlignof, gcSizeof, gcAlignof, h, gcsStructSize_eq, gcsStructAlign_eq]
    exact ⟨trivial, trivial⟩
theorem gcsInfos_eq : (fs : Fields) → gcsInfos fs = gcInfos fs
  | .nil => by simp [gcsInfos, gcInfos]
  | .cons _ t r => by
    have h1 := gcs_eq t
    have h2 := gcsInfos_eq r
    simp [gcsInfos, gcInfos, h1.1, h1.2, h2]
end

end Verif.C19
