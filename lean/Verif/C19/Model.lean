/-
C19 — structlayout matches the compiler; optimize never grows a struct.

Model (amd64: word size 8, max alignment 8) of
  * the gc compiler's layout rules (cmd/compile/internal/types/size.go: CalcSize,
    calcStructOffset, CalcStructSize, RoundUp) — the *specification* (`gc*`);
  * honnef.co/go/tools/go/gcsizes: Sizeof, Alignof, Offsetsof, align      (`gcs*`);
  * cmd/structlayout: sizes (flattening into field + padding records)      (`lay*`);
  * cmd/structlayout-optimize: combine, byAlignAndSize.Less, optimize, offsetsof,
    pad, size                                                              (`combine`, `less`, `optimize`, `pad`);
    `combine` as of /repo 169e4a6 (each group keeps its own maximal alignment, its extent
    reaches the end of its last member and is rounded up to that alignment).
Core Lean only.

Modelling decisions
  * A field name `T.a.x` is the path `["T","a","x"]` (Go identifiers contain no '.', so
    strings.Split/Join on "." is the identity on paths); the `Type` string of a record
    is not modelled (not an observable of the property).
  * Go's int64 arithmetic is modelled in `Nat`; the only subtraction that can go
    negative in the code (`pad := … - field.End`, guarded by `pad > 0`) is written as a
    comparison.
  * sort.Sort is not stable; elements that compare equal under `Less` have the same
    size and alignment, so the produced layout does not depend on the order of ties.
    The model sorts with the stable `List.mergeSort`; the check compares modulo the
    order of tied names.
-/
namespace Verif.C19

/-- Non-composite kinds. The first group are `types.Basic` kinds, the second group the
pointer-shaped / header types (`*T`, `[]T`, interface, map, chan, func). -/
inductive Kind where
  | bool | i8 | i16 | i32 | i64 | u8 | u16 | u32 | u64 | f32 | f64 | c64 | c128
  | str | int | uint | uptr | usp
  | ptr | slice | iface | map | chan | func
deriving DecidableEq, Repr

mutual
/-- Go types as far as layout is concerned. `named u` is a defined or alias type with
underlying type `u` (layout-transparent; `Underlying()` strips it). -/
inductive Ty where
  | prim (k : Kind)
  | named (u : Ty)
  | array (n : Nat) (e : Ty)
  | struct (fs : Fields)
/-- Field list of a struct type. -/
inductive Fields where
  | nil
  | cons (name : String) (t : Ty) (rest : Fields)
end

def wordSize : Nat := 8
def maxAlign : Nat := 8

/-! ## The compiler's rules (specification) -/

/-- types.RoundUp: `(o + r - 1) &^ (r - 1)` for a power of two `r`, i.e. the smallest
multiple of `r` that is `≥ o`. -/
def roundUp (o r : Nat) : Nat := (o + r - 1) / r * r

/-- CalcSize, width of non-composite types on amd64. -/
def gcPrimSize : Kind → Nat
  | .bool | .i8 | .u8 => 1
  | .i16 | .u16 => 2
  | .i32 | .u32 | .f32 => 4
  | .i64 | .u64 | .f64 | .c64 => 8
  | .c128 => 16
  | .str => 16
  | .int | .uint | .uptr | .usp => 8
  | .ptr | .map | .chan | .func => 8
  | .slice => 24
  | .iface => 16

/-- CalcSize, alignment of non-composite types on amd64 (complex64: that of float32;
complex128, string, slice, interface: register size). -/
def gcPrimAlign : Kind → Nat
  | .bool | .i8 | .u8 => 1
  | .i16 | .u16 => 2
  | .i32 | .u32 | .f32 | .c64 => 4
  | .i64 | .u64 | .f64 | .c128 => 8
  | .str => 8
  | .int | .uint | .uptr | .usp => 8
  | .ptr | .map | .chan | .func => 8
  | .slice => 8
  | .iface => 8

/-- calcStructOffset over the (width, align) pairs of the fields: offsets of the fields. -/
def gcOffsets (o : Nat) : List (Nat × Nat) → List Nat
  | [] => []
  | (sz, al) :: r => roundUp o al :: gcOffsets (roundUp o al + sz) r

/-- calcStructOffset: the offset after the last field. -/
def gcEnd (o : Nat) : List (Nat × Nat) → Nat
  | [] => o
  | (sz, al) :: r => gcEnd (roundUp o al + sz) r

/-- CalcStructSize: maximum field alignment, at least 1. -/
def gcStructAlign (l : List (Nat × Nat)) : Nat := l.foldl (fun m p => max m p.2) 1

/-- width of the last field (`none` for no fields). -/
def lastWidth (l : List (Nat × Nat)) : Option Nat := l.getLast?.map (·.1)

/-- CalcStructSize: end of the last field, plus one byte if the struct is not empty and
ends in a zero-sized field (issue 9401), rounded up to the struct's alignment. -/
def gcStructSize (l : List (Nat × Nat)) : Nat :=
  let size := gcEnd 0 l
  let size := if size > 0 ∧ lastWidth l = some 0 then size + 1 else size
  roundUp size (gcStructAlign l)

mutual
def gcSizeof : Ty → Nat
  | .prim k => gcPrimSize k
  | .named u => gcSizeof u
  | .array n e => n * gcSizeof e
  | .struct fs => gcStructSize (gcInfos fs)
def gcAlignof : Ty → Nat
  | .prim k => gcPrimAlign k
  | .named u => gcAlignof u
  | .array _ e => gcAlignof e
  | .struct fs => gcStructAlign (gcInfos fs)
/-- (width, align) of every field. -/
def gcInfos : Fields → List (Nat × Nat)
  | .nil => []
  | .cons _ t r => (gcSizeof t, gcAlignof t) :: gcInfos r
end

/-- unsafe.Offsetof of every field of a struct with these fields. -/
def gcOffsetsof (fs : Fields) : List Nat := gcOffsets 0 (gcInfos fs)

def Fields.isNil : Fields → Bool
  | .nil => true
  | .cons .. => false

/-! ### the compiler's view of the flattened struct (specification of structlayout's field records) -/

/-- a leaf of the flattening of a struct: a field that is not itself a struct with fields. -/
structure Leaf where
  path : List String
  off : Nat
  size : Nat
  align : Nat
deriving DecidableEq, Repr

mutual
/-- the leaves of a field of type `u` (`orig` before stripping names) at absolute offset `off`,
by the compiler's rules only. -/
def gcLeavesTy (path : List String) (off : Nat) (orig : Ty) : Ty → List Leaf
  | .named u => gcLeavesTy path off orig u
  | .struct fs =>
    if fs.isNil then [⟨path, off, gcSizeof orig, gcAlignof orig⟩] else gcLeavesFields path off 0 fs
  | .prim _ => [⟨path, off, gcSizeof orig, gcAlignof orig⟩]
  | .array _ _ => [⟨path, off, gcSizeof orig, gcAlignof orig⟩]
/-- the leaves of the fields `fs` of a struct at `base`, the running offset being `o`
(`calcStructOffset`). -/
def gcLeavesFields (path : List String) (base o : Nat) : Fields → List Leaf
  | .nil => []
  | .cons nm t rest =>
    gcLeavesTy (path ++ [nm]) (base + roundUp o (gcAlignof t)) t t ++
    gcLeavesFields path base (roundUp o (gcAlignof t) + gcSizeof t) rest
end

/-! ## go/gcsizes (transliteration of sizes.go) -/

/-- `align` of sizes.go and of structlayout-optimize: `y := x + a - 1; y - y%a`. -/
def align (x a : Nat) : Nat :=
  let y := x + a - 1
  y - y % a

/-- `basicSizes` plus the `types.String` case; `none` = falls through to the catch-all. -/
def gcsBasicSize : Kind → Option Nat
  | .bool | .i8 | .u8 => some 1
  | .i16 | .u16 => some 2
  | .i32 | .u32 | .f32 => some 4
  | .i64 | .u64 | .f64 | .c64 => some 8
  | .c128 => some 16
  | .str => some (wordSize * 2)
  | _ => none

/-- Sizeof for non-composite types. -/
def gcsPrimSize (k : Kind) : Nat :=
  match k with
  | .slice => wordSize * 3
  | .iface => wordSize * 2
  | k => match gcsBasicSize k with
    | some s => s
    | none => wordSize -- catch-all

/-- Alignof for non-composite types: complex numbers are aligned like their parts; all
others to their size, clamped to [1, MaxAlign]. -/
def gcsPrimAlign (k : Kind) : Nat :=
  let a := if k = .c64 ∨ k = .c128 then gcsPrimSize k / 2 else gcsPrimSize k
  if a < 1 then 1 else if a > maxAlign then maxAlign else a

/-- Offsetsof, given (Sizeof, Alignof) of each field. -/
def gcsOffsets (o : Nat) : List (Nat × Nat) → List Nat
  | [] => []
  | (sz, al) :: r => align o al :: gcsOffsets (align o al + sz) r

/-- Alignof of a struct: `max := 1; for f { if a > max { max = a } }`. -/
def gcsStructAlign (l : List (Nat × Nat)) : Nat :=
  l.foldl (fun m p => if p.2 > m then p.2 else m) 1

/-- Sizeof of a struct, given (Sizeof, Alignof) of each field. -/
def gcsStructSize (l : List (Nat × Nat)) : Nat :=
  match l.getLast? with
  | none => 0                                  -- n == 0
  | some (lastSz, _) =>
    let offsets := gcsOffsets 0 l
    let lastOff := offsets.getLast?.getD 0
    let a := gcsStructAlign l
    -- the last field of a non-zero-sized struct is not allowed to have size 0
    let lsz := if lastSz = 0 ∧ lastOff > 0 then 1 else lastSz
    align (lastOff + lsz) a

mutual
def gcsSizeof : Ty → Nat
  | .prim k => gcsPrimSize k
  | .named u => gcsSizeof u                     -- T.Underlying()
  | .array n e =>
    if n = 0 then 0
    else align (gcsSizeof e) (gcsAlignof e) * (n - 1) + gcsSizeof e
  | .struct fs => gcsStructSize (gcsInfos fs)
def gcsAlignof : Ty → Nat
  | .prim k => gcsPrimAlign k
  | .named u => gcsAlignof u
  | .array _ e => gcsAlignof e
  | .struct fs => gcsStructAlign (gcsInfos fs)
def gcsInfos : Fields → List (Nat × Nat)
  | .nil => []
  | .cons _ t r => (gcsSizeof t, gcsAlignof t) :: gcsInfos r
end

def gcsOffsetsof (fs : Fields) : List Nat := gcsOffsets 0 (gcsInfos fs)

/-! ## structlayout.Field and cmd/structlayout `sizes` -/

/-- structlayout.Field without the `Type` string. `name` is the dotted name as a path. -/
structure Rec where
  name : List String
  start : Nat
  stop : Nat
  size : Nat
  align : Nat
  pad : Bool
deriving DecidableEq, Repr

def Rec.padding (a b : Nat) : Rec := ⟨[], a, b, b - a, 0, true⟩
def Rec.leaf (path : List String) (off size al : Nat) : Rec := ⟨path, off, off + size, size, al, false⟩

/-- the tail of `sizes`: the last record of a non-zero-sized struct gets the byte the
compiler adds after a zero-sized last field; then the struct's tail padding. -/
def layFinish (base total : Nat) (out : List Rec) : List Rec :=
  match out.getLast? with
  | none => out
  | some f =>
    let f' : Rec := if f.size = 0 ∧ total ≠ 0 then { f with size := 1, stop := f.stop + 1 } else f
    let out' := out.dropLast ++ [f']
    if base + total > f'.stop then out' ++ [Rec.padding f'.stop (base + total)] else out'

mutual
/-- the loop of `sizes` over the fields; `offs` are the remaining entries of
`Offsetsof(fields)` (relative to `base`), `pos` the running position. -/
def layLoop (pre : List String) (base pos : Nat) : Fields → List Nat → List Rec
  | .nil, _ => []
  | .cons _ _ _, [] => []
  | .cons nm t rest, o :: os =>
    let off := o + base
    let padr := if off > pos then [Rec.padding pos off] else []
    let pos' := if off > pos then off else pos
    padr ++ layField (pre ++ [nm]) pos' off t t ++ layLoop pre base (pos' + gcsSizeof t) rest os
/-- one field: recurse (`sizes(typ2, prefix+"."+name, pos, out)`) into a struct type with
at least one field, otherwise one record. `orig` is the field's type, the last argument
what is left of it after stripping names (`Underlying()`). -/
def layField (path : List String) (pos off : Nat) (orig : Ty) : Ty → List Rec
  | .named u => layField path pos off orig u
  | .struct fs =>
    if fs.isNil then [Rec.leaf path off (gcsSizeof orig) (gcsAlignof orig)]
    else layFinish pos (gcsStructSize (gcsInfos fs)) (layLoop path pos pos fs (gcsOffsets 0 (gcsInfos fs)))
  | .prim _ => [Rec.leaf path off (gcsSizeof orig) (gcsAlignof orig)]
  | .array _ _ => [Rec.leaf path off (gcsSizeof orig) (gcsAlignof orig)]
end

/-- `sizes(typ, prefix, base, out)`: the records appended for the struct with fields `fs`
(the struct case of `layField` is this function, inlined for structural recursion). -/
def laySizes (pre : List String) (base : Nat) (fs : Fields) : List Rec :=
  layFinish base (gcsStructSize (gcsInfos fs)) (layLoop pre base base fs (gcsOffsets 0 (gcsInfos fs)))

/-- `structlayout pkg T` for `type T struct{fs}`. -/
def layout (tname : String) (fs : Fields) : List Rec :=
  if fs.isNil then [] else laySizes [tname] 0 fs

/-! ## cmd/structlayout-optimize -/

/-- state of the loop in `combine`: `cur` (`none` = ""), `new`, `out`. -/
structure Comb where
  cur : Option (List String)
  new : Rec
  out : List Rec

/-- the combined field is complete: its size is its extent rounded up to its alignment. -/
def Comb.flush (c : Comb) : List Rec :=
  let sz := align (c.new.stop - c.new.start) c.new.align
  c.out ++ [{ c.new with size := sz, stop := c.new.start + sz }]

def combineStep (c : Comb) (f : Rec) : Comb :=
  if f.pad then c
  else
    let pre := f.name.take 2
    if c.cur ≠ some pre then
      { cur := some pre, new := { f with name := pre }, out := if c.cur.isSome then c.flush else c.out }
    else
      { c with new := { c.new with align := if f.align > c.new.align then f.align else c.new.align, stop := f.stop } }

def combine (fields : List Rec) : List Rec :=
  let c := fields.foldl combineStep ⟨none, ⟨[], 0, 0, 0, 0, false⟩, []⟩
  if c.cur.isSome then c.flush else c.out

/-- byAlignAndSize.Less. -/
def less (a b : Rec) : Bool :=
  if a.size = 0 ∧ b.size ≠ 0 then true
  else if b.size = 0 ∧ a.size ≠ 0 then false
  else if a.align ≠ b.align then a.align > b.align
  else if a.size ≠ b.size then a.size > b.size
  else false

/-- `a` may stay before `b`. -/
def sortLe (a b : Rec) : Bool := !less b a

/-- `optimize`: sort.Sort(byAlignAndSize). -/
def optimize (fields : List Rec) : List Rec := fields.mergeSort sortLe

/-- `offsetsof` of structlayout-optimize. -/
def optOffsets (o : Nat) : List Rec → List Nat
  | [] => []
  | f :: r => align o f.align :: optOffsets (align o f.align + f.size) r

/-- the loop of `pad`. -/
def padLoop (pos : Nat) : List Rec → List Nat → List Rec
  | [], _ => []
  | _ :: _, [] => []
  | f :: fs, o :: os =>
    let padr := if o > pos then [Rec.padding pos o] else []
    let pos' := if o > pos then o else pos
    padr ++ [{ f with start := pos', stop := pos' + f.size }] ++ padLoop (pos' + f.size) fs os

def sumSizes (l : List Rec) : Nat := (l.map (·.size)).sum

def padAlignment (fields : List Rec) : Nat :=
  fields.foldl (fun m f => if f.align > m then f.align else m) 1

/-- `pad`. -/
def pad (fields : List Rec) : List Rec :=
  match fields with
  | [] => []
  | _ =>
    let out := padLoop 0 fields (optOffsets 0 fields)
    let sz := sumSizes out
    let p := align sz (padAlignment fields) - sz
    if p > 0 then
      let e := (out.getLast?.map (·.stop)).getD 0
      out ++ [Rec.padding e (e + p)]
    else out

/-- structlayout-optimize's main: `-r` = do not combine. -/
def optimizeMain (recurse : Bool) (input : List Rec) : List Rec :=
  if input.isEmpty then []
  else
    let inp := if recurse then input else combine input
    pad (optimize (inp.filter (fun f => !f.pad)))

end Verif.C19
