import Verif.C19.Driver
def main : IO UInt32 := do
  Verif.Proto.runLines Verif.C19.step
  return 0
