import Verif.C19.Combine
/-!
C19 helper lemmas, part 5: `combine (layout T fs)` is the list of the top-level fields with
the compiler's offsets, sizes and alignments (`combine_layout`).
-/
namespace Verif.C19

/-- `layFinish` without the tail padding: the last record gets the extra byte. -/
def bumpL (tot : Nat) (l : List Rec) : List Rec :=
  match l.getLast? with
  | none => l
  | some f => l.dropLast ++ [if f.size = 0 ∧ tot ≠ 0 then { f with size := 1, stop := f.stop + 1 } else f]

theorem bumpL_concat (tot : Nat) (init : List Rec) (f : Rec) :
    bumpL tot (init ++ [f]) = init ++ [if f.size = 0 ∧ tot ≠ 0 then { f with size := 1, stop := f.stop + 1 } else f] := by
  simp [bumpL]

theorem exists_concat_of_ne_nil {l : List Rec} (h : l ≠ []) : ∃ init f, l = init ++ [f] := by
  rcases List.eq_nil_or_concat l with h' | ⟨l', b, h'⟩
  · exact absurd h' h
  · exact ⟨l', b, by simpa using h'⟩

theorem bumpL_append (tot : Nat) (l1 : List Rec) {l2 : List Rec} (h : l2 ≠ []) :
    bumpL tot (l1 ++ l2) = l1 ++ bumpL tot l2 := by
  obtain ⟨init, f, rfl⟩ := exists_concat_of_ne_nil h
  rw [← List.append_assoc, bumpL_concat, bumpL_concat, List.append_assoc]

theorem fieldsOf_layFinish (base tot : Nat) (out : List Rec) :
    fieldsOf (layFinish base tot out) = fieldsOf (bumpL tot out) := by
  by_cases h : out = []
  · subst h; simp [layFinish, bumpL]
  · obtain ⟨init, f, rfl⟩ := exists_concat_of_ne_nil h
    rw [layFinish_concat, bumpL_concat, fieldsOf_append]
    have : fieldsOf (if base + tot > (if f.size = 0 ∧ tot ≠ 0 then { f with size := 1, stop := f.stop + 1 } else f).stop then
        [Rec.padding (if f.size = 0 ∧ tot ≠ 0 then { f with size := 1, stop := f.stop + 1 } else f).stop (base + tot)]
       else []) = [] := by
      split <;> simp [fieldsOf, Rec.padding]
    rw [this, List.append_nil]

theorem mem_bumpL {tot : Nat} {l : List Rec} {r : Rec} (h : r ∈ bumpL tot l) :
    ∃ r0 ∈ l, r.name = r0.name ∧ r.pad = r0.pad := by
  by_cases hl : l = []
  · subst hl; simp [bumpL] at h
  · obtain ⟨init, f, rfl⟩ := exists_concat_of_ne_nil hl
    rw [bumpL_concat] at h
    rcases List.mem_append.mp h with h | h
    · exact ⟨r, by simp [h], rfl, rfl⟩
    · simp only [List.mem_singleton] at h
      refine ⟨f, by simp, ?_⟩
      subst h
      split <;> simp

theorem roundUp_one {a : Nat} (h : 0 < a) : roundUp 1 a = a := by
  apply Nat.le_antisymm
  · exact roundUp_min h (Nat.dvd_refl a) h
  · have h1 := le_roundUp 1 h
    have h2 := roundUp_dvd 1 a
    exact Nat.le_of_dvd (by omega) h2

/-- the record `combine` should emit for a top-level field. -/
def topRec (p : List String) (off sz al : Nat) : Rec := ⟨p, off, off + sz, sz, al, false⟩

/-- the crux: the group of one top-level field of type `t` at offset `off` (the last field's
group with the byte added by the top-level `layFinish`) flushes to the field's record. -/
theorem flush_field_group (p : List String) (hp : p.length = 2) (t : Ty) (off tot : Nat) (last : Bool)
    (hoff : gcsAlignof t ∣ off) :
    let B := layField p off off t t
    let B' := if last then bumpL tot B else B
    let sz := if last = true ∧ gcsSizeof t = 0 ∧ tot ≠ 0 then gcsAlignof t else gcsSizeof t
    IsGroup p (fieldsOf B') ∧ flushGroup p (fieldsOf B') = [topRec p off sz (gcsAlignof t)] := by
  intro B B' sz
  obtain ⟨hb, hne, hz⟩ := layField_spec t p off t rfl rfl hoff
  obtain ⟨e, hs, hle, hr⟩ := layField_summ t p off t rfl rfl hoff
  have hw := gcs_wf t
  -- names and padding flags of B' are those of B
  have hmem : ∀ r ∈ B', ∃ r0 ∈ B, r.name = r0.name ∧ r.pad = r0.pad := by
    intro r hr
    by_cases hl : last = true
    · simp only [B', hl, if_true] at hr; exact mem_bumpL hr
    · simp only [B', hl] at hr; exact ⟨r, hr, rfl, rfl⟩
  -- the summary of B'
  have hs' : ∃ e', summ B' = some (off, gcsAlignof t, e') ∧ align (e' - off) (gcsAlignof t) = sz := by
    by_cases hc : last = true ∧ gcsSizeof t = 0 ∧ tot ≠ 0
    · obtain ⟨hl, hS, ht⟩ := hc
      obtain ⟨init, f, hB⟩ := exists_concat_of_ne_nil hne
      have hfz : f.size = 0 := by
        obtain ⟨g, hg, hgz⟩ := hz.mpr hS
        rw [hB] at hg; simp at hg; subst hg; exact hgz
      have hfp : f.pad = false := by
        cases hpd : f.pad with
        | false => rfl
        | true => have := (hb.well f (by rw [hB]; simp)).2 hpd; omega
      have hstop : f.stop = off := by
        have := hb.tiles.total_eq hne
        rw [hB] at this
        simp [total] at this
        omega
      refine ⟨off + 1, ?_, ?_⟩
      · simp only [B', B, hl, if_true]
        rw [hB, bumpL_concat]
        simp only [hfz, ht, ne_eq, not_false_eq_true, and_self, if_true]
        rw [summ_concat_field _ _ (by simpa using hfp)]
        rw [hB, summ_concat_field _ _ hfp] at hs
        cases hsi : summ init with
        | none =>
          rw [hsi] at hs
          simp only [summOp, Option.some.injEq, Prod.mk.injEq] at hs
          obtain ⟨h1, h2, _⟩ := hs
          simp only [summOp]
          rw [h1, h2, hstop]
        | some x =>
          obtain ⟨s0, a0, e0⟩ := x
          rw [hsi] at hs
          simp only [summOp, Option.some.injEq, Prod.mk.injEq] at hs
          obtain ⟨h1, h2, _⟩ := hs
          simp only [summOp]
          rw [h1, h2, hstop]
      · simp only [sz, hl, hS, ht, ne_eq, not_false_eq_true, and_self, if_true]
        rw [Nat.add_sub_cancel_left, align_eq_roundUp, roundUp_one hw.1.pos]
    · have hBB : B' = B := by
        by_cases hl : last = true
        · simp only [B', B, hl, if_true]
          obtain ⟨init, f, hB⟩ := exists_concat_of_ne_nil hne
          rw [hB, bumpL_concat]
          have : ¬ (f.size = 0 ∧ tot ≠ 0) := by
            intro ⟨h1, h2⟩
            apply hc
            refine ⟨hl, hz.mp ⟨f, by rw [hB]; simp, h1⟩, h2⟩
          simp [this]
        · simp [B', hl]
      refine ⟨e, by rw [hBB]; exact hs, ?_⟩
      simp only [sz, hc, if_false]
      rw [align_eq_roundUp, hr]
  obtain ⟨e', hs1, hsz⟩ := hs'
  -- the group
  have hne' : fieldsOf B' ≠ [] := by
    intro h
    have := (summ_eq_none_iff B').mpr h
    rw [this] at hs1; cases hs1
  have hall : ∀ r ∈ fieldsOf B', r.pad = false ∧ r.name.take 2 = p := by
    intro r hr
    simp only [fieldsOf, List.mem_filter, Bool.not_eq_eq_eq_not, Bool.not_true] at hr
    refine ⟨hr.2, ?_⟩
    obtain ⟨r0, hr0, hn, hpd⟩ := hmem r hr.1
    have hpre := hb.names r0 hr0 (by rw [← hpd]; exact hr.2)
    rw [hn]
    have := List.prefix_iff_eq_take.mp hpre
    rw [hp] at this
    exact this.symm
  refine ⟨⟨hne', hall⟩, ?_⟩
  obtain ⟨g, G, hgG⟩ := List.exists_cons_of_ne_nil hne'
  have hsg := summ_group g G (fun r hr => (hall r (by rw [hgG]; exact hr)).1)
  rw [← hgG, summ_fieldsOf, hs1] at hsg
  simp only [Option.some.injEq, Prod.mk.injEq] at hsg
  obtain ⟨h1, h2, h3⟩ := hsg
  have hgp : g.pad = false := (hall g (by rw [hgG]; simp)).1
  rw [hgG]
  simp only [flushGroup, flushRec, topRec, ← h1, ← h2, ← h3, hsz, hgp]

/-! ### assembling the top-level fields -/

def Fields.names : Fields → List String
  | .nil => []
  | .cons nm _ rest => nm :: Fields.names rest

/-- the groups of the top-level fields (the last one with the byte `layFinish` adds). -/
def topGroups (T : String) (tot : Nat) : Nat → Fields → List (List String × List Rec)
  | _, .nil => []
  | o, .cons nm t rest =>
    ([T, nm], fieldsOf (if rest.isNil then
        bumpL tot (layField [T, nm] (align o (gcsAlignof t)) (align o (gcsAlignof t)) t t)
      else layField [T, nm] (align o (gcsAlignof t)) (align o (gcsAlignof t)) t t)) ::
    topGroups T tot (align o (gcsAlignof t) + gcsSizeof t) rest

/-- The top-level fields as `combine` reports them, in the compiler's terms: field `nm` of
type `t` at its offset with its size and alignment; a zero-size last field of a struct of
non-zero size `tot` is shown with size `Alignof t` (the byte the compiler adds after it,
rounded up to the field's alignment). -/
def topRecs (T : String) (tot : Nat) : Nat → Fields → List Rec
  | _, .nil => []
  | o, .cons nm t rest =>
    topRec [T, nm] (roundUp o (gcAlignof t))
      (if rest.isNil = true ∧ gcSizeof t = 0 ∧ tot ≠ 0 then gcAlignof t else gcSizeof t) (gcAlignof t) ::
    topRecs T tot (roundUp o (gcAlignof t) + gcSizeof t) rest

theorem fieldsOf_padding_if (c : Prop) [Decidable c] (a b : Nat) :
    fieldsOf (if c then [Rec.padding a b] else []) = [] := by
  split <;> simp [fieldsOf, Rec.padding]

theorem topGroups_flat (T : String) (tot : Nat) : (fs : Fields) → (o : Nat) →
    fieldsOf (bumpL tot (layLoop [T] 0 (0 + o) fs (gcsOffsets o (gcsInfos fs)))) =
      (topGroups T tot o fs).flatMap (·.2)
  | .nil, o => by simp [layLoop_nil, bumpL, fieldsOf, topGroups]
  | .cons nm t rest, o => by
    have ih := topGroups_flat T tot rest
    have hw := gcs_wf t
    have hge : o ≤ align o (gcsAlignof t) := by rw [align_eq_roundUp]; exact le_roundUp _ hw.1.pos
    have hdv : gcsAlignof t ∣ align o (gcsAlignof t) := by rw [align_eq_roundUp]; exact roundUp_dvd _ _
    obtain ⟨_, hBne, _⟩ := layField_spec t [T, nm] (align o (gcsAlignof t)) t rfl rfl hdv
    rw [layLoop_cons [T] 0 o nm t rest hge]
    simp only [Nat.zero_add, List.cons_append, List.nil_append, topGroups, List.flatMap_cons]
    by_cases hrest : rest = .nil
    · subst hrest
      simp only [layLoop_nil, List.append_nil, Fields.isNil, if_true, topGroups, List.flatMap_nil]
      rw [bumpL_append _ _ hBne, fieldsOf_append, fieldsOf_padding_if, List.nil_append]
    · have hn : rest.isNil = false := by
        cases h : rest.isNil with
        | false => rfl
        | true => exact absurd ((Fields.isNil_iff rest).mp h) hrest
      have hL := (layLoop_spec rest [T] 0 (align o (gcsAlignof t) + gcsSizeof t) 0
        (fun p _ => Nat.dvd_zero _) (fun p _ => Nat.dvd_zero _)).2 hrest
      simp only [Nat.zero_add] at hL
      have := ih (align o (gcsAlignof t) + gcsSizeof t)
      simp only [Nat.zero_add] at this
      rw [bumpL_append _ _ hL.1, fieldsOf_append, fieldsOf_append, fieldsOf_padding_if, List.nil_append, this]
      simp [hn]

theorem topGroups_flush (T : String) (tot : Nat) : (fs : Fields) → (o : Nat) →
    (topGroups T tot o fs).flatMap (fun x => flushGroup x.1 x.2) = topRecs T tot o fs ∧
    (∀ x ∈ topGroups T tot o fs, IsGroup x.1 x.2) ∧
    (topGroups T tot o fs).map (·.1) = (Fields.names fs).map (fun nm => [T, nm])
  | .nil, o => by simp [topGroups, topRecs, Fields.names]
  | .cons nm t rest, o => by
    have ih := topGroups_flush T tot rest
    have hw := gcs_wf t
    have hdv : gcsAlignof t ∣ align o (gcsAlignof t) := by rw [align_eq_roundUp]; exact roundUp_dvd _ _
    have hf := flush_field_group [T, nm] rfl t (align o (gcsAlignof t)) tot rest.isNil hdv
    simp only at hf
    obtain ⟨i1, i2, i3⟩ := ih (align o (gcsAlignof t) + gcsSizeof t)
    simp only [topGroups, topRecs, List.flatMap_cons, List.map_cons, Fields.names]
    refine ⟨?_, ?_, ?_⟩
    · rw [hf.2, i1]
      simp only [align_eq_roundUp, (gcs_eq t).1, (gcs_eq t).2, List.cons_append, List.nil_append]
    · intro x hx
      rcases List.mem_cons.mp hx with rfl | hx
      · exact hf.1
      · exact i2 x hx
    · rw [i3]

theorem groupsOK_of (gs : List (List String × List Rec)) (h1 : ∀ x ∈ gs, IsGroup x.1 x.2)
    (h2 : (gs.map (·.1)).Nodup) : GroupsOK gs := by
  induction gs with
  | nil => trivial
  | cons x r ih =>
    cases r with
    | nil => exact h1 x (by simp)
    | cons y r' =>
      simp only [List.map_cons, List.nodup_cons] at h2
      refine ⟨h1 x (by simp), ?_, ih (fun z hz => h1 z (by simp [hz])) (by simpa using h2.2)⟩
      intro h
      exact h2.1 (by simp [h])

/-- **Step B**: for every struct type with distinct field names, `combine` of structlayout's
records is the list of the top-level fields with the compiler's offsets, sizes, alignments. -/
theorem combine_layout (T : String) (fs : Fields) (hnd : (Fields.names fs).Nodup) :
    combine (layout T fs) = topRecs T (gcSizeof (.struct fs)) 0 fs := by
  by_cases h : fs = .nil
  · subst h; simp [layout, Fields.isNil, combine, topRecs]
  · have hn : ¬ fs.isNil = true := fun hh => h ((Fields.isNil_iff fs).mp hh)
    have hlay : layout T fs = layFinish 0 (gcsStructSize (gcsInfos fs)) (layLoop [T] 0 0 fs (gcsOffsets 0 (gcsInfos fs))) := by
      simp [layout, laySizes, hn]
    have htot : gcsStructSize (gcsInfos fs) = gcSizeof (.struct fs) := by
      rw [← (gcs_eq (.struct fs)).1]; simp [gcsSizeof]
    obtain ⟨g1, g2, g3⟩ := topGroups_flush T (gcSizeof (.struct fs)) fs 0
    have hflat := topGroups_flat T (gcSizeof (.struct fs)) fs 0
    simp only [Nat.zero_add] at hflat
    have hok : GroupsOK (topGroups T (gcSizeof (.struct fs)) 0 fs) := by
      apply groupsOK_of _ g2
      rw [g3]
      exact List.Pairwise.map _ (fun a b hab h => hab (by simpa using h)) hnd
    rw [← g1]
    apply combine_groups _ hok
    rw [hlay, fieldsOf_layFinish, htot, hflat]

/-! ### the combined fields fit into the struct -/

theorem gcInfos_ne_nil {fs : Fields} (h : fs ≠ .nil) : gcInfos fs ≠ [] := by
  rw [← gcsInfos_eq]; exact gcsInfos_ne_nil h

theorem topRecs_props (T : String) (tot : Nat) : (fs : Fields) → (o : Nat) →
    ∀ r ∈ topRecs T tot o fs, r.pad = false ∧ IsAl r.align ∧ r.align ∣ r.size ∧ ∃ p ∈ gcInfos fs, p.2 = r.align
  | .nil, o => by simp [topRecs]
  | .cons nm t rest, o => by
    have ih := topRecs_props T tot rest
    have hw := gc_wf t
    intro r hr
    simp only [topRecs, List.mem_cons] at hr
    rcases hr with rfl | hr
    · refine ⟨rfl, hw.1, ?_, ⟨(gcSizeof t, gcAlignof t), by simp [gcInfos], rfl⟩⟩
      simp only [topRec]
      split
      · exact Nat.dvd_refl _
      · exact hw.2
    · obtain ⟨a, b, c, p, hp, hpa⟩ := ih _ r hr
      exact ⟨a, b, c, p, by simp [gcInfos, hp], hpa⟩

theorem topRecs_sum (T : String) (tot : Nat) : (fs : Fields) → (o : Nat) →
    (¬ (lastWidth (gcInfos fs) = some 0 ∧ tot ≠ 0) → o + sumSizes (topRecs T tot o fs) ≤ gcEnd o (gcInfos fs)) ∧
    (lastWidth (gcInfos fs) = some 0 ∧ tot ≠ 0 → ∃ k al, (gcInfos fs).getLast?.map (·.2) = some al ∧
      o + sumSizes (topRecs T tot o fs) ≤ k + al ∧ al ∣ k ∧ k ≤ gcEnd o (gcInfos fs))
  | .nil, o => by simp [topRecs, sumSizes, gcInfos, gcEnd, lastWidth]
  | .cons nm t rest, o => by
    have ih := topRecs_sum T tot rest (roundUp o (gcAlignof t) + gcSizeof t)
    have hw := gc_wf t
    have hge : o ≤ roundUp o (gcAlignof t) := le_roundUp _ hw.1.pos
    by_cases hrest : rest = .nil
    · subst hrest
      simp only [topRecs, gcInfos, lastWidth_cons, if_true, gcEnd, sumSizes, List.map_cons, List.map_nil,
        List.sum_cons, List.sum_nil, topRec, Fields.isNil, true_and, Option.some.injEq]
      constructor
      · intro hnb
        simp only [hnb, if_false]
        omega
      · intro hb
        simp only [hb, ne_eq, not_false_eq_true, and_self, if_true]
        exact ⟨roundUp o (gcAlignof t), gcAlignof t, by simp, by omega, roundUp_dvd _ _, by omega⟩
    · have hn : rest.isNil = false := by
        cases h : rest.isNil with
        | false => rfl
        | true => exact absurd ((Fields.isNil_iff rest).mp h) hrest
      have hne := gcInfos_ne_nil hrest
      obtain ⟨x, l, hx⟩ := List.exists_cons_of_ne_nil hne
      have hlw : lastWidth (gcInfos (.cons nm t rest)) = lastWidth (gcInfos rest) := by
        simp only [gcInfos, lastWidth_cons, hne, if_false]
      have hgl : (gcInfos (.cons nm t rest)).getLast? = (gcInfos rest).getLast? := by
        simp only [gcInfos, hx, List.getLast?_cons_cons]
      have hend : gcEnd o (gcInfos (.cons nm t rest)) = gcEnd (roundUp o (gcAlignof t) + gcSizeof t) (gcInfos rest) := by
        simp only [gcInfos, gcEnd]
      have hsum : sumSizes (topRecs T tot o (.cons nm t rest)) =
          gcSizeof t + sumSizes (topRecs T tot (roundUp o (gcAlignof t) + gcSizeof t) rest) := by
        simp [topRecs, sumSizes, topRec, hn]
      rw [hlw, hgl, hend, hsum]
      constructor
      · intro hnb
        have := ih.1 hnb
        omega
      · intro hb
        obtain ⟨k, al, h1, h2, h3, h4⟩ := ih.2 hb
        exact ⟨k, al, h1, by omega, h3, h4⟩

theorem rsum_eq_sumSizes (l : List Rec) (h : ∀ r ∈ l, 0 < r.align ∧ r.align ∣ r.size) : rsum l = sumSizes l := by
  induction l with
  | nil => rfl
  | cons r l ih =>
    have := h r (by simp)
    simp only [rsum_cons, sumSizes, List.map_cons, List.sum_cons, roundUp_of_dvd this.1 this.2]
    rw [ih (fun x hx => h x (by simp [hx]))]
    rfl

/-- the combined top-level fields fit into the struct's size, which every alignment divides. -/
theorem topRecs_fit (T : String) (fs : Fields) :
    rsum (topRecs T (gcSizeof (.struct fs)) 0 fs) ≤ gcSizeof (.struct fs) ∧
    ∀ r ∈ topRecs T (gcSizeof (.struct fs)) 0 fs, r.align ∣ gcSizeof (.struct fs) := by
  have hprops := topRecs_props T (gcSizeof (.struct fs)) fs 0
  have hwf := gc_wf_fields fs
  have hw := gc_wf (.struct fs)
  have hAl : ∀ p ∈ gcInfos fs, p.2 ∣ gcSizeof (.struct fs) := by
    intro p hp
    have : p.2 ∣ gcAlignof (.struct fs) := by
      simp only [gcAlignof]; exact dvd_gcStructAlign _ (fun q hq => (hwf q hq).1) p hp
    exact Nat.dvd_trans this hw.2
  constructor
  · rw [rsum_eq_sumSizes _ (fun r hr => ⟨(hprops r hr).2.1.pos, (hprops r hr).2.2.1⟩)]
    have hsum := topRecs_sum T (gcSizeof (.struct fs)) fs 0
    have hApos : 0 < gcStructAlign (gcInfos fs) := by have := hw.1.pos; simpa [gcAlignof] using this
    have hge := gcStructSize_ge (gcInfos fs) hApos
    have hsz : gcSizeof (.struct fs) = gcStructSize (gcInfos fs) := by simp [gcSizeof]
    by_cases hb : lastWidth (gcInfos fs) = some 0 ∧ gcSizeof (.struct fs) ≠ 0
    · obtain ⟨k, al, h1, h2, h3, h4⟩ := hsum.2 hb
      have hal : al ∣ gcSizeof (.struct fs) := by
        cases hgl : (gcInfos fs).getLast? with
        | none => simp [hgl] at h1
        | some p =>
          simp [hgl] at h1
          rw [← h1]; exact hAl p (List.mem_of_getLast? hgl)
      have hlt : gcEnd 0 (gcInfos fs) + 1 ≤ gcSizeof (.struct fs) := by
        rw [hsz]; exact hge.2 hb.1 (by rw [← hsz]; exact hb.2)
      -- the size is a multiple of al above k, which is a multiple of al
      have hd : al ∣ gcSizeof (.struct fs) - k := Nat.dvd_sub hal h3
      have hpos : 0 < gcSizeof (.struct fs) - k := by omega
      have := Nat.le_of_dvd hpos hd
      omega
    · have := hsum.1 hb
      have := hge.1
      omega
  · intro r hr
    obtain ⟨_, _, _, p, hp, hpa⟩ := hprops r hr
    rw [← hpa]; exact hAl p hp

end Verif.C19
