import Verif.C19.Optimize
/-!
C19 helper lemmas, part 3: cmd/structlayout's `sizes` (`layField`/`layLoop`/`layFinish`):
by mutual induction over the type grammar, the records of every field tile the field's
extent, are aligned, roomy, and carry the field's path as name prefix.
-/
namespace Verif.C19

/-- the last record has size 0. -/
def LastZero (l : List Rec) : Prop := ∃ f, l.getLast? = some f ∧ f.size = 0

/-- what is known about the records `B` emitted for one field (or one field list) placed at
`[s, e)` with alignment `A` and name prefix `path`. -/
structure Block (path : List String) (s e A : Nat) (B : List Rec) : Prop where
  tiles : Tiles s e B
  well : WellRecs B
  roomy : Roomy B
  aligns : ∀ r ∈ B, r.pad = false → r.align ∣ A
  names : ∀ r ∈ B, r.pad = false → path <+: r.name

theorem Fields.isNil_iff (fs : Fields) : fs.isNil = true ↔ fs = .nil := by
  cases fs <;> simp [Fields.isNil]

theorem gcsInfos_ne_nil {fs : Fields} (h : fs ≠ .nil) : gcsInfos fs ≠ [] := by
  cases fs with
  | nil => exact absurd rfl h
  | cons nm t r => simp [gcsInfos]

theorem gcsInfos_wf (fs : Fields) : ∀ p ∈ gcsInfos fs, IsAl p.2 ∧ p.2 ∣ p.1 := by
  rw [gcsInfos_eq]; exact gc_wf_fields fs

theorem gcs_wf (t : Ty) : IsAl (gcsAlignof t) ∧ gcsAlignof t ∣ gcsSizeof t := by
  rw [(gcs_eq t).1, (gcs_eq t).2]; exact gc_wf t

/-! ### tilings of size zero -/

theorem Tiles.sizes_zero {s : Nat} {l : List Rec} (h : Tiles s s l) : ∀ r ∈ l, r.size = 0 := by
  induction l with
  | nil => simp
  | cons r l ih =>
    obtain ⟨a, b, c⟩ := h
    have h1 := c.le
    have hz : r.size = 0 := by omega
    have : r.stop = s := by omega
    intro x hx
    rcases List.mem_cons.mp hx with rfl | hx
    · exact hz
    · exact ih (this ▸ c) x hx

/-! ### Roomy and the last record -/

theorem Roomy.init {l : List Rec} {f : Rec} (h : Roomy (l ++ [f])) (hf : f.pad = false) : Roomy l := by
  induction l with
  | nil => trivial
  | cons r l ih =>
    obtain ⟨a, b⟩ := h
    refine ⟨fun hp => ?_, ih b⟩
    rcases a hp with h | ⟨q, rest', he, hq, hd⟩
    · exact Or.inl h
    · cases l with
      | nil =>
        simp at he
        rw [← he.1] at hq
        rw [hf] at hq
        cases hq
      | cons x l' =>
        simp at he
        exact Or.inr ⟨q, l', by rw [he.1], hq, hd⟩

theorem Roomy.last {l : List Rec} {f : Rec} (h : Roomy (l ++ [f])) (hf : f.pad = false) : f.align ∣ f.size := by
  induction l with
  | nil =>
    rcases h.1 hf with h | ⟨q, rest', he, _, _⟩
    · exact h
    · cases he
  | cons r l ih => exact ih h.2

/-! ### `layFinish` -/

theorem layFinish_concat (base tot : Nat) (init : List Rec) (f : Rec) :
    layFinish base tot (init ++ [f]) =
      init ++ [if f.size = 0 ∧ tot ≠ 0 then { f with size := 1, stop := f.stop + 1 } else f] ++
      (if base + tot > (if f.size = 0 ∧ tot ≠ 0 then { f with size := 1, stop := f.stop + 1 } else f).stop then
        [Rec.padding (if f.size = 0 ∧ tot ≠ 0 then { f with size := 1, stop := f.stop + 1 } else f).stop (base + tot)]
       else []) := by
  simp only [layFinish, List.getLast?_concat, List.dropLast_concat]
  split <;> split <;> simp

/-- `layFinish`: given the records of the fields of a struct at `base` (tiling up to the end
`e` of the last field), the finished records tile the struct's full size `tot`. -/
theorem layFinish_spec (path : List String) (base e tot A : Nat) (out : List Rec)
    (hb : Block path base e A out) (hne : out ≠ [])
    (hle : e ≤ base + tot)
    (hbump : LastZero out → tot ≠ 0 → e + 1 ≤ base + tot)
    (hAt : A ∣ base + tot) :
    Block path base (base + tot) A (layFinish base tot out) ∧ layFinish base tot out ≠ [] ∧
    (LastZero (layFinish base tot out) ↔ tot = 0) := by
  obtain ⟨init, f, rfl⟩ : ∃ init f, out = init ++ [f] := by
    rcases List.eq_nil_or_concat out with h | ⟨l', b, h⟩
    · exact absurd h hne
    · exact ⟨l', b, by simpa using h⟩
  obtain ⟨m, ti, tf⟩ := hb.tiles.split
  obtain ⟨fs1, fs2, fs3⟩ := tf
  simp only [Tiles] at fs3
  have hwi : WellRecs init := fun r hr => hb.well r (by simp [hr])
  have hwf := hb.well f (by simp)
  rw [layFinish_concat]
  by_cases hz : f.size = 0 ∧ tot ≠ 0
  · -- the last record gets the extra byte
    obtain ⟨hz1, hz2⟩ := hz
    have hfp : f.pad = false := by
      cases hp : f.pad with
      | false => rfl
      | true => have := hwf.2 hp; omega
    have hb1 := hbump ⟨f, by simp, hz1⟩ hz2
    have hfa := (hwf.1 hfp)
    have hdA : f.align ∣ base + tot := Nat.dvd_trans (hb.aligns f (by simp) hfp) hAt
    simp only [hz1, hz2, ne_eq, not_false_eq_true, and_self, if_true]
    have hri := hb.roomy.init hfp
    by_cases hpad : base + tot > f.stop + 1
    · simp only [hpad, if_true]
      refine ⟨⟨?_, ?_, ?_, ?_, ?_⟩, by simp, ?_⟩
      · rw [List.append_assoc]
        refine ti.append ⟨fs1, by simp; omega, ⟨rfl, by simp [Rec.padding]; omega, rfl⟩⟩
      · rw [List.append_assoc]
        apply hwi.append
        intro r hr
        simp only [List.cons_append, List.nil_append, List.mem_cons, List.not_mem_nil, or_false] at hr
        rcases hr with rfl | rfl
        · simp [hfp]; exact hfa
        · simp [Rec.padding]; omega
      · rw [List.append_assoc]
        apply hri.append
        refine ⟨fun _ => Or.inr ⟨_, [], rfl, by simp [Rec.padding], by simpa [Rec.padding] using hdA⟩, ?_, trivial⟩
        simp [Rec.padding]
      · intro r hr hp
        simp only [List.append_assoc, List.cons_append, List.nil_append, List.mem_append, List.mem_cons,
          List.not_mem_nil, or_false] at hr
        rcases hr with hr | rfl | rfl
        · exact hb.aligns r (by simp [hr]) hp
        · exact hb.aligns f (by simp) hfp
        · simp [Rec.padding] at hp
      · intro r hr hp
        simp only [List.append_assoc, List.cons_append, List.nil_append, List.mem_append, List.mem_cons,
          List.not_mem_nil, or_false] at hr
        rcases hr with hr | rfl | rfl
        · exact hb.names r (by simp [hr]) hp
        · exact hb.names f (by simp) hfp
        · simp [Rec.padding] at hp
      · constructor
        · rintro ⟨g, hg, hgz⟩
          simp [Rec.padding] at hg
          subst hg
          simp at hgz
          omega
        · intro h; first | exact h.elim | exact absurd h hz2
    · simp only [hpad, if_false, List.append_nil]
      have heq : base + tot = f.stop + 1 := by omega
      refine ⟨⟨?_, ?_, ?_, ?_, ?_⟩, by simp, ?_⟩
      · exact ti.append ⟨fs1, by simp; omega, by simp only [Tiles]; omega⟩
      · apply hwi.append
        intro r hr
        simp only [List.mem_singleton] at hr
        subst hr
        simp [hfp]; exact hfa
      · apply hri.append
        refine ⟨fun _ => Or.inl ?_, trivial⟩
        -- f.align divides f.start and f.start + 1
        have h1 : f.align ∣ (f.stop + 1) - f.start := Nat.dvd_sub (heq ▸ hdA) hfa.2
        have h2 : (f.stop + 1) - f.start = 1 := by omega
        simpa [h2] using h1
      · intro r hr hp
        simp only [List.mem_append, List.mem_singleton] at hr
        rcases hr with hr | rfl
        · exact hb.aligns r (by simp [hr]) hp
        · exact hb.aligns f (by simp) hfp
      · intro r hr hp
        simp only [List.mem_append, List.mem_singleton] at hr
        rcases hr with hr | rfl
        · exact hb.names r (by simp [hr]) hp
        · exact hb.names f (by simp) hfp
      · constructor
        · rintro ⟨g, hg, hgz⟩
          simp at hg
          subst hg
          simp at hgz
        · intro h; first | exact h.elim | exact absurd h hz2
  · -- the last record is unchanged
    simp only [hz, if_false]
    by_cases hpad : base + tot > f.stop
    · simp only [hpad, if_true]
      refine ⟨⟨?_, ?_, ?_, ?_, ?_⟩, by simp, ?_⟩
      · rw [List.append_assoc]
        exact ti.append ⟨fs1, fs2, ⟨rfl, by simp [Rec.padding]; omega, rfl⟩⟩
      · apply hb.well.append
        intro r hr
        simp only [List.mem_singleton] at hr
        subst hr
        simp [Rec.padding]; omega
      · apply hb.roomy.append
        exact ⟨by simp [Rec.padding], trivial⟩
      · intro r hr hp
        simp only [List.mem_append, List.mem_singleton] at hr
        rcases hr with hr | rfl
        · exact hb.aligns r (by simp [hr]) hp
        · simp [Rec.padding] at hp
      · intro r hr hp
        simp only [List.mem_append, List.mem_singleton] at hr
        rcases hr with hr | rfl
        · exact hb.names r (by simp [hr]) hp
        · simp [Rec.padding] at hp
      · constructor
        · rintro ⟨g, hg, hgz⟩
          simp [Rec.padding] at hg
          subst hg
          simp at hgz
          omega
        · intro h; have := ti.le; omega
    · simp only [hpad, if_false, List.append_nil]
      have heq : base + tot = e := by omega
      refine ⟨⟨heq ▸ hb.tiles, hb.well, hb.roomy, hb.aligns, hb.names⟩, by simp, ?_⟩
      constructor
      · rintro ⟨g, hg, hgz⟩
        simp at hg
        subst hg
        by_cases ht : tot = 0
        · exact ht
        · exact absurd ⟨hgz, ht⟩ hz
      · intro h
        have : e = base := by omega
        have hs := (this ▸ hb.tiles : Tiles base base (init ++ [f])).sizes_zero f (by simp)
        exact ⟨f, by simp, hs⟩

/-! ### blocks -/

theorem Block.append {path : List String} {s m e A : Nat} {B1 B2 : List Rec}
    (h1 : Block path s m A B1) (h2 : Block path m e A B2) : Block path s e A (B1 ++ B2) where
  tiles := h1.tiles.append h2.tiles
  well := h1.well.append h2.well
  roomy := h1.roomy.append h2.roomy
  aligns := fun r hr hp => by
    rcases List.mem_append.mp hr with h | h
    · exact h1.aligns r h hp
    · exact h2.aligns r h hp
  names := fun r hr hp => by
    rcases List.mem_append.mp hr with h | h
    · exact h1.names r h hp
    · exact h2.names r h hp

theorem Block.nil (path : List String) (s A : Nat) : Block path s s A [] where
  tiles := rfl
  well := by intro r hr; simp at hr
  roomy := trivial
  aligns := by intro r hr; simp at hr
  names := by intro r hr; simp at hr

theorem Block.padding (path : List String) {s e : Nat} (A : Nat) (h : s < e) : Block path s e A [Rec.padding s e] where
  tiles := ⟨rfl, by simp [Rec.padding]; omega, rfl⟩
  well := by
    intro r hr
    simp only [List.mem_singleton] at hr
    subst hr
    simp [Rec.padding]; omega
  roomy := ⟨by simp [Rec.padding], trivial⟩
  aligns := by
    intro r hr hp
    simp only [List.mem_singleton] at hr
    subst hr
    simp [Rec.padding] at hp
  names := by
    intro r hr hp
    simp only [List.mem_singleton] at hr
    subst hr
    simp [Rec.padding] at hp

theorem Block.weaken {path pre : List String} {s e A A' : Nat} {B : List Rec}
    (h : Block path s e A' B) (hp : pre <+: path) (hA : A' ∣ A) : Block pre s e A B where
  tiles := h.tiles
  well := h.well
  roomy := h.roomy
  aligns := fun r hr hq => Nat.dvd_trans (h.aligns r hr hq) hA
  names := fun r hr hq => hp.trans (h.names r hr hq)

theorem leaf_block (path : List String) (off sz al : Nat) (hal : 0 < al) (hd : al ∣ sz) (hoff : al ∣ off) :
    Block path off (off + sz) al [Rec.leaf path off sz al] ∧ [Rec.leaf path off sz al] ≠ [] ∧
    (LastZero [Rec.leaf path off sz al] ↔ sz = 0) := by
  refine ⟨⟨⟨rfl, rfl, rfl⟩, ?_, ⟨fun _ => Or.inl hd, trivial⟩, ?_, ?_⟩, by simp, ?_⟩
  · intro r hr
    simp only [List.mem_singleton] at hr
    subst hr
    simp [Rec.leaf, hal, hoff]
  · intro r hr _
    simp only [List.mem_singleton] at hr
    subst hr
    exact Nat.dvd_refl _
  · intro r hr _
    simp only [List.mem_singleton] at hr
    subst hr
    exact List.prefix_refl _
  · constructor
    · rintro ⟨g, hg, hz⟩
      simp at hg
      subst hg
      exact hz
    · intro h
      exact ⟨Rec.leaf path off sz al, by simp, h⟩

theorem LastZero_append_right (l1 : List Rec) {l2 : List Rec} (h : l2 ≠ []) :
    LastZero (l1 ++ l2) ↔ LastZero l2 := by
  obtain ⟨init, f, rfl⟩ : ∃ init f, l2 = init ++ [f] := by
    rcases List.eq_nil_or_concat l2 with h' | ⟨l', b, h'⟩
    · exact absurd h' h
    · exact ⟨l', b, by simpa using h'⟩
  unfold LastZero
  rw [← List.append_assoc, List.getLast?_concat, List.getLast?_concat]

theorem lastWidth_cons (x : Nat × Nat) (l : List (Nat × Nat)) :
    lastWidth (x :: l) = if l = [] then some x.1 else lastWidth l := by
  cases l with
  | nil => simp [lastWidth]
  | cons y r => simp [lastWidth, List.getLast?_cons_cons]

/-- the size of a struct leaves room for its fields and for the byte after a zero-size last
field. -/
theorem gcStructSize_ge (l : List (Nat × Nat)) (hA : 0 < gcStructAlign l) :
    gcEnd 0 l ≤ gcStructSize l ∧
    (lastWidth l = some 0 → gcStructSize l ≠ 0 → gcEnd 0 l + 1 ≤ gcStructSize l) := by
  unfold gcStructSize
  constructor
  · simp only
    split
    · exact Nat.le_trans (Nat.le_succ _) (le_roundUp _ hA)
    · exact le_roundUp _ hA
  · intro hz hne
    simp only at hne ⊢
    by_cases hpos : gcEnd 0 l > 0
    · simp only [hpos, hz, and_self, if_true] at hne ⊢
      exact le_roundUp _ hA
    · have : gcEnd 0 l = 0 := by omega
      simp [this, roundUp_zero] at hne

theorem layLoop_cons (pre : List String) (base o : Nat) (nm : String) (t : Ty) (rest : Fields)
    (hge : o ≤ align o (gcsAlignof t)) :
    layLoop pre base (base + o) (.cons nm t rest) (gcsOffsets o (gcsInfos (.cons nm t rest))) =
      (if base + align o (gcsAlignof t) > base + o then [Rec.padding (base + o) (base + align o (gcsAlignof t))] else []) ++
      layField (pre ++ [nm]) (base + align o (gcsAlignof t)) (base + align o (gcsAlignof t)) t t ++
      layLoop pre base (base + (align o (gcsAlignof t) + gcsSizeof t)) rest
        (gcsOffsets (align o (gcsAlignof t) + gcsSizeof t) (gcsInfos rest)) := by
  have h1 : (if align o (gcsAlignof t) + base > base + o then align o (gcsAlignof t) + base else base + o)
      = base + align o (gcsAlignof t) := by split <;> omega
  have h2 : align o (gcsAlignof t) + base = base + align o (gcsAlignof t) := Nat.add_comm _ _
  have h3 : base + align o (gcsAlignof t) + gcsSizeof t = base + (align o (gcsAlignof t) + gcsSizeof t) := by omega
  simp only [layLoop, gcsInfos, gcsOffsets, h1]
  rw [h2, h3]

theorem layLoop_nil (pre : List String) (base pos : Nat) (offs : List Nat) :
    layLoop pre base pos .nil offs = [] := by
  simp only [layLoop]

mutual
/-- the records `sizes` emits for one field of type `u` at offset `off`. -/
theorem layField_spec : (u : Ty) → (path : List String) → (off : Nat) → (orig : Ty) →
    gcsSizeof orig = gcsSizeof u → gcsAlignof orig = gcsAlignof u → gcsAlignof u ∣ off →
    Block path off (off + gcsSizeof u) (gcsAlignof u) (layField path off off orig u) ∧
    layField path off off orig u ≠ [] ∧ (LastZero (layField path off off orig u) ↔ gcsSizeof u = 0)
  | .prim k, path, off, orig, hS, hA, hoff => by
    have hw := gcs_wf (.prim k)
    simp only [layField, hS, hA]
    exact leaf_block path off _ _ hw.1.pos hw.2 hoff
  | .array n e, path, off, orig, hS, hA, hoff => by
    have hw := gcs_wf (.array n e)
    simp only [layField, hS, hA]
    exact leaf_block path off _ _ hw.1.pos hw.2 hoff
  | .named u, path, off, orig, hS, hA, hoff => by
    have := layField_spec u path off orig (by simpa [gcsSizeof] using hS) (by simpa [gcsAlignof] using hA)
      (by simpa [gcsAlignof] using hoff)
    simpa only [layField, gcsSizeof, gcsAlignof] using this
  | .struct fs, path, off, orig, hS, hA, hoff => by
    have hw := gcs_wf (.struct fs)
    by_cases hn : fs.isNil = true
    · simp only [layField, hn, if_true, hS, hA]
      exact leaf_block path off _ _ hw.1.pos hw.2 hoff
    · have hne : fs ≠ .nil := fun h => hn ((Fields.isNil_iff fs).mpr h)
      have hwf := gcsInfos_wf fs
      have hAl : ∀ p ∈ gcsInfos fs, p.2 ∣ gcsStructAlign (gcsInfos fs) := by
        rw [gcsStructAlign_eq]; exact dvd_gcStructAlign _ (fun p hp => (hwf p hp).1)
      simp only [gcsAlignof, gcsSizeof] at hoff hw ⊢
      have hl := layLoop_spec fs path off 0 (gcsStructAlign (gcsInfos fs))
        (fun p hp => Nat.dvd_trans (hAl p hp) hoff) hAl
      simp only [Nat.add_zero] at hl
      obtain ⟨hb, hz⟩ := hl
      obtain ⟨hz1, hz2⟩ := hz hne
      have hApos : 0 < gcStructAlign (gcsInfos fs) := by rw [← gcsStructAlign_eq]; exact hw.1.pos
      have hge := gcStructSize_ge (gcsInfos fs) hApos
      simp only [layField, hn]
      rw [gcsStructSize_eq] at hw ⊢
      exact layFinish_spec path off _ _ _ _ hb hz1 (by omega)
        (fun hlz hne0 => by have := hge.2 (hz2.mp hlz) hne0; omega)
        (Nat.dvd_add hoff hw.2)
/-- the records the loop of `sizes` emits for the fields `fs`, the running offset being `o`. -/
theorem layLoop_spec : (fs : Fields) → (pre : List String) → (base o A : Nat) →
    (∀ p ∈ gcsInfos fs, p.2 ∣ base) → (∀ p ∈ gcsInfos fs, p.2 ∣ A) →
    Block pre (base + o) (base + gcEnd o (gcsInfos fs)) A
      (layLoop pre base (base + o) fs (gcsOffsets o (gcsInfos fs))) ∧
    (fs ≠ .nil → layLoop pre base (base + o) fs (gcsOffsets o (gcsInfos fs)) ≠ [] ∧
      (LastZero (layLoop pre base (base + o) fs (gcsOffsets o (gcsInfos fs))) ↔
        lastWidth (gcsInfos fs) = some 0))
  | .nil, pre, base, o, A, _, _ => by
    simp only [layLoop_nil, gcsInfos, gcEnd]
    exact ⟨Block.nil _ _ _, fun h => absurd rfl h⟩
  | .cons nm t rest, pre, base, o, A, hbase, hA => by
    have hw := gcs_wf t
    have hge : o ≤ align o (gcsAlignof t) := by rw [align_eq_roundUp]; exact le_roundUp _ hw.1.pos
    have hdv : gcsAlignof t ∣ align o (gcsAlignof t) := by rw [align_eq_roundUp]; exact roundUp_dvd _ _
    have hb0 : gcsAlignof t ∣ base := hbase (gcsSizeof t, gcsAlignof t) (by simp [gcsInfos])
    have hA0 : gcsAlignof t ∣ A := hA (gcsSizeof t, gcsAlignof t) (by simp [gcsInfos])
    have hf := layField_spec t (pre ++ [nm]) (base + align o (gcsAlignof t)) t rfl rfl (Nat.dvd_add hb0 hdv)
    have hr := layLoop_spec rest pre base (align o (gcsAlignof t) + gcsSizeof t) A
      (fun p hp => hbase p (by simp [gcsInfos, hp])) (fun p hp => hA p (by simp [gcsInfos, hp]))
    rw [layLoop_cons pre base o nm t rest hge]
    have hend : gcEnd o (gcsInfos (.cons nm t rest)) = gcEnd (align o (gcsAlignof t) + gcsSizeof t) (gcsInfos rest) := by
      simp only [gcsInfos, gcEnd, align_eq_roundUp]
    rw [hend]
    obtain ⟨hfb, hfne, hfz⟩ := hf
    have hfb' : Block pre (base + align o (gcsAlignof t)) (base + (align o (gcsAlignof t) + gcsSizeof t)) A
        (layField (pre ++ [nm]) (base + align o (gcsAlignof t)) (base + align o (gcsAlignof t)) t t) := by
      have := hfb.weaken (List.prefix_append pre [nm]) hA0
      rwa [Nat.add_assoc] at this
    have hpadb : Block pre (base + o) (base + align o (gcsAlignof t)) A
        (if base + align o (gcsAlignof t) > base + o then [Rec.padding (base + o) (base + align o (gcsAlignof t))] else []) := by
      split
      · exact Block.padding pre A (by omega)
      · have : base + align o (gcsAlignof t) = base + o := by omega
        rw [this]; exact Block.nil _ _ _
    refine ⟨(hpadb.append hfb').append hr.1, fun _ => ?_⟩
    by_cases hrest : rest = .nil
    · subst hrest
      simp only [layLoop_nil, List.append_nil, gcsInfos, lastWidth_cons, if_true]
      refine ⟨by simp [hfne], ?_⟩
      rw [LastZero_append_right _ hfne, hfz]
      simp
    · obtain ⟨h1, h2⟩ := hr.2 hrest
      refine ⟨by simp [h1], ?_⟩
      rw [LastZero_append_right _ h1, h2]
      simp only [gcsInfos, lastWidth_cons, gcsInfos_ne_nil hrest, if_false]
end

end Verif.C19
