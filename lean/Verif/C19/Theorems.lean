import Verif.C19.Layout
/-!
# C19 — property theorems

"For every struct type, structlayout reports the field offsets, sizes, alignments and padding
that the Go compiler uses on the target architecture, covering the struct's full size without
gaps or overlaps. structlayout-optimize outputs a permutation of the input fields that is
itself a valid layout and whose padded size is never larger than the original's."

All statements are over the model in `Model.lean` (amd64), for ALL types of the grammar
`Ty` (basic kinds, pointer-shaped kinds, named/alias types, arrays of any length, structs of
any nesting, empty structs) resp. ALL record lists. Helper lemmas: Lemmas.lean (arithmetic,
type well-formedness, gcsizes = gc), Optimize.lean (pad / sort), Layout.lean (`sizes`).
-/
namespace Verif.C19

/-! ## Part 1: go/gcsizes implements the compiler's rules -/

/-- Every type of the grammar has, under the compiler's rules, an alignment in {1,2,4,8}
that divides its size. (This discharges, for all Go types of the grammar, the hypotheses
"alignments are powers of two" and "sizes are multiples of alignments" used below.) -/
theorem types_wellformed (t : Ty) : IsAl (gcAlignof t) ∧ gcAlignof t ∣ gcSizeof t := gc_wf t

example : IsAl (gcAlignof (.struct (.cons "a" (.prim .i8) (.cons "b" (.prim .c128) .nil)))) ∧
    gcSizeof (.struct (.cons "a" (.prim .i8) (.cons "b" (.prim .c128) .nil))) = 24 := by
  decide

/-- gcsizes.Sizeof and gcsizes.Alignof agree with the compiler's rules for every type. -/
theorem gcsizes_eq_gc (t : Ty) : gcsSizeof t = gcSizeof t ∧ gcsAlignof t = gcAlignof t := gcs_eq t

/-- gcsizes.Offsetsof agrees with the compiler's field offsets for every field list. -/
theorem gcsizes_offsets_eq_gc (fs : Fields) : gcsOffsetsof fs = gcOffsetsof fs := by
  unfold gcsOffsetsof gcOffsetsof
  rw [gcsOffsets_eq, gcsInfos_eq]

-- non-vacuity: complex64 after int32 (offset 4, size 12, align 4), a trailing zero-size array
example : gcsOffsetsof (.cons "a" (.prim .i32) (.cons "b" (.prim .c64) .nil)) = [0, 4] ∧
    gcsSizeof (.struct (.cons "a" (.prim .i32) (.cons "b" (.prim .c64) .nil))) = 12 ∧
    gcsSizeof (.struct (.cons "a" (.prim .i64) (.cons "z" (.array 0 (.prim .i64)) .nil))) = 16 := by
  decide

/-! ## Part 2: structlayout's records are a valid layout of the compiler's size -/

theorem layout_block (T : String) (fs : Fields) (h : fs ≠ .nil) :
    Block [T] 0 (gcSizeof (.struct fs)) (gcAlignof (.struct fs)) (layout T fs) ∧ layout T fs ≠ [] := by
  have hn : ¬ fs.isNil = true := fun hh => h ((Fields.isNil_iff fs).mp hh)
  have := layField_spec (.struct fs) [T] 0 (.struct fs) rfl rfl (Nat.dvd_zero _)
  simp only [layField, hn, Nat.zero_add, (gcs_eq (.struct fs)).1, (gcs_eq (.struct fs)).2] at this
  simp only [layout, laySizes, hn]
  exact ⟨this.1, this.2.1⟩

/-- **structlayout covers the struct's full size without gaps or overlaps**: for every struct
type, the records (fields and paddings) printed by `structlayout` tile `[0, Sizeof T)`, where
`Sizeof` is the compiler's size. -/
theorem layout_tiles (T : String) (fs : Fields) : Tiles 0 (gcSizeof (.struct fs)) (layout T fs) := by
  by_cases h : fs = .nil
  · subst h
    simp only [layout, Fields.isNil, if_true, Tiles]
    decide
  · exact (layout_block T fs h).1.tiles

/-- For every struct type the records are a valid layout: every field record starts at a
multiple of its (positive) alignment, every padding record is non-empty, every alignment
divides the struct's size; and the layout is roomy (a field's size is a multiple of its
alignment or the field is followed by padding up to such a multiple). -/
theorem layout_fields_aligned (T : String) (fs : Fields) :
    ValidLayout (layout T fs) (gcSizeof (.struct fs)) ∧ Roomy (layout T fs) ∧
    (∀ r ∈ layout T fs, r.pad = false → IsAl r.align ∧ [T] <+: r.name) := by
  by_cases h : fs = .nil
  · subst h
    have : layout T .nil = [] := by simp [layout, Fields.isNil]
    rw [this]
    exact ⟨⟨by simp only [Tiles]; decide, by intro r hr; simp at hr, by intro r hr; simp at hr⟩, trivial,
      by intro r hr; simp at hr⟩
  · have hb := (layout_block T fs h).1
    have hw := gc_wf (.struct fs)
    refine ⟨⟨hb.tiles, hb.well, fun r hr hp => Nat.dvd_trans (hb.aligns r hr hp) hw.2⟩, hb.roomy, ?_⟩
    intro r hr hp
    refine ⟨?_, hb.names r hr hp⟩
    have hd := hb.aligns r hr hp
    have hpos := ((hb.well r hr).1 hp).1
    have h8 : gcAlignof (.struct fs) ∣ 8 := by
      rcases hw.1 with h | h | h | h <;> rw [h] <;> decide
    have hd8 : r.align ∣ 8 := Nat.dvd_trans hd h8
    have hle : r.align ≤ 8 := Nat.le_of_dvd (by omega) hd8
    have key : ∀ d, d < 9 → 0 < d → d ∣ 8 → IsAl d := by unfold IsAl; decide
    exact key r.align (by omega) hpos hd8

-- non-vacuity: nested struct with tail padding, trailing zero-size field
example : layout "T" (.cons "p" (.prim .i64) (.cons "q" (.struct (.cons "x" (.prim .i64) (.cons "y" (.prim .i8) .nil)))
      (.cons "z" (.struct .nil) .nil))) =
    [⟨["T", "p"], 0, 8, 8, 8, false⟩, ⟨["T", "q", "x"], 8, 16, 8, 8, false⟩, ⟨["T", "q", "y"], 16, 17, 1, 1, false⟩,
     ⟨[], 17, 24, 7, 0, true⟩, ⟨["T", "z"], 24, 25, 1, 1, false⟩, ⟨[], 25, 32, 7, 0, true⟩] := by
  decide

/-! ## Part 3: structlayout-optimize -/

/-- What structlayout-optimize may assume of its input (all of it holds for structlayout's
output of any struct type, `layout_is_good_input`): a valid layout of `size` bytes whose
alignments are powers of two and which is roomy. -/
structure GoodInput (input : List Rec) (size : Nat) : Prop where
  valid : ValidLayout input size
  pow2 : ∀ r ∈ input, r.pad = false → Pow2 r.align
  roomy : Roomy input

theorem layout_is_good_input (T : String) (fs : Fields) : GoodInput (layout T fs) (gcSizeof (.struct fs)) := by
  obtain ⟨v, r, a⟩ := layout_fields_aligned T fs
  exact ⟨v, fun x hx hp => (a x hx hp).1.pow2, r⟩

/-- A layout in which every field's size is a multiple of its alignment is roomy. -/
theorem roomy_of_dvd (l : List Rec) (h : ∀ r ∈ l, r.pad = false → r.align ∣ r.size) : Roomy l := by
  induction l with
  | nil => trivial
  | cons r l ih =>
    exact ⟨fun hp => Or.inl (h r (by simp) hp), ih (fun x hx => h x (by simp [hx]))⟩

theorem allFields_fieldsOf (input : List Rec) (hpos : ∀ r ∈ input, r.pad = false → 0 < r.align) :
    AllFields (fieldsOf input) := by
  intro f hf
  simp only [fieldsOf, List.mem_filter, Bool.not_eq_eq_eq_not, Bool.not_true] at hf
  exact ⟨hf.2, hpos f hf.1 hf.2⟩

theorem optimizeMain_true (input : List Rec) :
    optimizeMain true input = pad (optimize (fieldsOf input)) := by
  unfold optimizeMain
  cases input with
  | nil => simp [fieldsOf, optimize, pad]
  | cons x l => simp [fieldsOf]

/-- without `-r`, the fields are first combined per top-level field. -/
theorem optimizeMain_false (input : List Rec) :
    optimizeMain false input = optimizeMain true (combine input) := by
  rw [optimizeMain_true]
  unfold optimizeMain
  cases input with
  | nil => simp [combine, fieldsOf, optimize, pad]
  | cons x l => simp [fieldsOf]

theorem fieldsOf_allFields (l : List Rec) (h : AllFields l) : fieldsOf l = l := by
  simp only [fieldsOf, List.filter_eq_self]
  intro f hf
  simp [(h f hf).1]

/-- facts about `pad (optimize fields)` -/
theorem pad_optimize_spec (fields : List Rec) (h : AllFields fields) (hp : ∀ f ∈ fields, Pow2 f.align) :
    ValidLayout (pad (optimize fields)) (total (pad (optimize fields))) ∧
    ((fieldsOf (pad (optimize fields))).map Rec.key).Perm (fields.map Rec.key) ∧
    total (pad (optimize fields)) ≤ roundUp (rsum fields) (padAlignment fields) := by
  have hperm := optimize_perm_list fields
  have hmem : ∀ f, f ∈ optimize fields → f ∈ fields := fun f hf => hperm.mem_iff.mp hf
  by_cases hnil : optimize fields = []
  · have : fields = [] := by
      have := hperm.length_eq; rw [hnil] at this
      exact List.length_eq_zero_iff.mp this.symm
    subst this
    simp only [hnil, pad]
    refine ⟨⟨rfl, by intro r hr; simp at hr, by intro r hr; simp at hr⟩, by simp [fieldsOf], by simp [total]⟩
  · have h' : AllFields (optimize fields) := fun f hf => h f (hmem f hf)
    have hp' : ∀ f ∈ optimize fields, Pow2 f.align := fun f hf => hp f (hmem f hf)
    obtain ⟨t, w, k, tot⟩ := pad_spec (optimize fields) hnil h' hp'
    rw [tot]
    refine ⟨⟨t, w, ?_⟩, ?_, ?_⟩
    · intro r hr hpad
      have hrk : r.key ∈ (fieldsOf (pad (optimize fields))).map Rec.key :=
        List.mem_map.mpr ⟨r, by simp [fieldsOf, hr, hpad], rfl⟩
      rw [k] at hrk
      obtain ⟨f, hf, hfk⟩ := List.mem_map.mp hrk
      have hal : f.align = r.align := by
        have := congrArg (fun x => x.2.2) hfk
        simpa [Rec.key] using this
      rw [← hal]
      exact Nat.dvd_trans (dvd_padAlignment _ hp' f hf) (roundUp_dvd _ _)
    · rw [k]; exact hperm.map _
    · unfold padSize
      rw [padAlignment_perm hperm hp']
      exact roundUp_mono _ (optEnd_optimize_le fields h hp)

/-- **structlayout-optimize -r outputs a permutation of the input fields**: the non-padding
records of the output are, as (name, size, alignment) triples, a permutation of those of the
input. -/
theorem optimize_perm (input : List Rec) (hp : ∀ r ∈ input, r.pad = false → Pow2 r.align) :
    ((fieldsOf (optimizeMain true input)).map Rec.key).Perm ((fieldsOf input).map Rec.key) := by
  rw [optimizeMain_true]
  have ha := allFields_fieldsOf input (fun r hr hpad => (hp r hr hpad).pos)
  exact (pad_optimize_spec (fieldsOf input) ha (by
    intro f hf
    simp only [fieldsOf, List.mem_filter, Bool.not_eq_eq_eq_not, Bool.not_true] at hf
    exact hp f hf.1 hf.2)).2.1

/-- **… that is itself a valid layout**: the output tiles `[0, its size)`, every field is at a
multiple of its alignment, paddings are non-empty and the size is a multiple of every
field's alignment. -/
theorem optimize_valid (input : List Rec) (hp : ∀ r ∈ input, r.pad = false → Pow2 r.align) :
    ValidLayout (optimizeMain true input) (total (optimizeMain true input)) := by
  rw [optimizeMain_true]
  have ha := allFields_fieldsOf input (fun r hr hpad => (hp r hr hpad).pos)
  exact (pad_optimize_spec (fieldsOf input) ha (by
    intro f hf
    simp only [fieldsOf, List.mem_filter, Bool.not_eq_eq_eq_not, Bool.not_true] at hf
    exact hp f hf.1 hf.2)).1

/-- **… whose padded size is never larger than the original's**: for every good input
(valid layout of `size` bytes, power-of-two alignments, roomy), the output of
`structlayout-optimize -r` is at most `size` bytes. Sorting by alignment (descending) never
grows a struct. -/
theorem optimize_not_larger (input : List Rec) (size : Nat) (h : GoodInput input size) :
    total (optimizeMain true input) ≤ size := by
  rw [optimizeMain_true]
  have ha := allFields_fieldsOf input (fun r hr hpad => (h.pow2 r hr hpad).pos)
  have hp : ∀ f ∈ fieldsOf input, Pow2 f.align := by
    intro f hf
    simp only [fieldsOf, List.mem_filter, Bool.not_eq_eq_eq_not, Bool.not_true] at hf
    exact h.pow2 f hf.1 hf.2
  refine Nat.le_trans (pad_optimize_spec (fieldsOf input) ha hp).2.2 ?_
  have hfit := rsum_le_of_roomy input 0 h.valid.tiles h.valid.well h.roomy
  apply roundUp_min (padAlignment_pos _ hp)
  · -- the maximal alignment divides the original size
    rcases (by
      have att : ∀ (l : List Rec) (m : Nat),
          l.foldl (fun m f => if f.align > m then f.align else m) m = m ∨
          ∃ f ∈ l, f.align = l.foldl (fun m f => if f.align > m then f.align else m) m := by
        intro l
        induction l with
        | nil => intro m; simp
        | cons x r ih =>
          intro m
          simp only [List.foldl_cons]
          rcases ih (if x.align > m then x.align else m) with h | ⟨f, hf, he⟩
          · by_cases hx : x.align > m
            · right; exact ⟨x, by simp, by rw [h]; simp [hx]⟩
            · left; rw [h]; simp [hx]
          · right; exact ⟨f, by simp [hf], he⟩
      exact att (fieldsOf input) 1) with h1 | ⟨f, hf, he⟩
    · unfold padAlignment; rw [h1]; exact Nat.one_dvd _
    · unfold padAlignment; rw [← he]
      simp only [fieldsOf, List.mem_filter, Bool.not_eq_eq_eq_not, Bool.not_true] at hf
      exact h.valid.size_aligned f hf.1 hf.2
  · omega

/-- the same under the simpler hypothesis that sizes are multiples of alignments -/
theorem optimize_not_larger_of_dvd (input : List Rec) (size : Nat) (hv : ValidLayout input size)
    (hp : ∀ r ∈ input, r.pad = false → Pow2 r.align) (hd : ∀ r ∈ input, r.pad = false → r.align ∣ r.size) :
    total (optimizeMain true input) ≤ size :=
  optimize_not_larger input size ⟨hv, hp, roomy_of_dvd input hd⟩

/-- `structlayout -json T | structlayout-optimize -r`, for every struct type: the result is
never larger than the struct (compiler's size). -/
theorem optimize_r_layout_not_larger (T : String) (fs : Fields) :
    total (optimizeMain true (layout T fs)) ≤ gcSizeof (.struct fs) :=
  optimize_not_larger _ _ (layout_is_good_input T fs)

end Verif.C19
