import Verif.C19.Model
namespace Verif.C19
end Verif.C19
