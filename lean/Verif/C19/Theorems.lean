import Verif.C19.Leaves
/-!
# C19 — property theorems

"For every struct type, structlayout reports the field offsets, sizes, alignments and padding
that the Go compiler uses on the target architecture, covering the struct's full size without
gaps or overlaps. structlayout-optimize outputs a permutation of the input fields that is
itself a valid layout and whose padded size is never larger than the original's."

All statements are over the model in `Model.lean` (amd64), for ALL types of the grammar
`Ty` (basic kinds, pointer-shaped kinds, named/alias types, arrays of any length, structs of
any nesting, empty structs) resp. ALL record lists. Helper lemmas: Lemmas.lean (arithmetic,
type well-formedness, gcsizes = gc), Optimize.lean (pad / sort), Layout.lean (`sizes`).
-/
namespace Verif.C19

/-! ## Part 1: go/gcsizes implements the compiler's rules -/

/-- Every type of the grammar has, under the compiler's rules, an alignment in {1,2,4,8}
that divides its size. (This discharges, for all Go types of the grammar, the hypotheses
"alignments are powers of two" and "sizes are multiples of alignments" used below.) -/
theorem types_wellformed (t : Ty) : IsAl (gcAlignof t) ∧ gcAlignof t ∣ gcSizeof t := gc_wf t

example : IsAl (gcAlignof (.struct (.cons "a" (.prim .i8) (.cons "b" (.prim .c128) .nil)))) ∧
    gcSizeof (.struct (.cons "a" (.prim .i8) (.cons "b" (.prim .c128) .nil))) = 24 := by
  unfold IsAl; decide

/-- gcsizes.Sizeof and gcsizes.Alignof agree with the compiler's rules for every type. -/
theorem gcsizes_eq_gc (t : Ty) : gcsSizeof t = gcSizeof t ∧ gcsAlignof t = gcAlignof t := gcs_eq t

/-- gcsizes.Offsetsof agrees with the compiler's field offsets for every field list. -/
theorem gcsizes_offsets_eq_gc (fs : Fields) : gcsOffsetsof fs = gcOffsetsof fs := by
  unfold gcsOffsetsof gcOffsetsof
  rw [gcsOffsets_eq, gcsInfos_eq]

-- non-vacuity: complex64 after int32 (offset 4, size 12, align 4), a trailing zero-size array
example : gcsOffsetsof (.cons "a" (.prim .i32) (.cons "b" (.prim .c64) .nil)) = [0, 4] ∧
    gcsSizeof (.struct (.cons "a" (.prim .i32) (.cons "b" (.prim .c64) .nil))) = 12 ∧
    gcsSizeof (.struct (.cons "a" (.prim .i64) (.cons "z" (.array 0 (.prim .i64)) .nil))) = 16 := by
  decide

/-! ## Part 2: structlayout's records are a valid layout of the compiler's size -/

theorem layout_block (T : String) (fs : Fields) (h : fs ≠ .nil) :
    Block [T] 0 (gcSizeof (.struct fs)) (gcAlignof (.struct fs)) (layout T fs) ∧ layout T fs ≠ [] := by
  have hn : ¬ fs.isNil = true := fun hh => h ((Fields.isNil_iff fs).mp hh)
  have := layField_spec (.struct fs) [T] 0 (.struct fs) rfl rfl (Nat.dvd_zero _)
  simp only [layField, hn, Nat.zero_add, (gcs_eq (.struct fs)).1, (gcs_eq (.struct fs)).2] at this
  simp only [layout, laySizes, hn]
  exact ⟨this.1, this.2.1⟩

/-- **structlayout covers the struct's full size without gaps or overlaps**: for every struct
type, the records (fields and paddings) printed by `structlayout` tile `[0, Sizeof T)`, where
`Sizeof` is the compiler's size. -/
theorem layout_tiles (T : String) (fs : Fields) : Tiles 0 (gcSizeof (.struct fs)) (layout T fs) := by
  by_cases h : fs = .nil
  · subst h
    simp only [layout, Fields.isNil, if_true, Tiles]
    decide
  · exact (layout_block T fs h).1.tiles

/-- For every struct type the records are a valid layout: every field record starts at a
multiple of its (positive) alignment, every padding record is non-empty, every alignment
divides the struct's size; and the layout is roomy (a field's size is a multiple of its
alignment or the field is followed by padding up to such a multiple). -/
theorem layout_fields_aligned (T : String) (fs : Fields) :
    ValidLayout (layout T fs) (gcSizeof (.struct fs)) ∧ Roomy (layout T fs) ∧
    (∀ r ∈ layout T fs, r.pad = false → IsAl r.align ∧ [T] <+: r.name) := by
  by_cases h : fs = .nil
  · subst h
    have : layout T .nil = [] := by simp [layout, Fields.isNil]
    rw [this]
    exact ⟨⟨by simp only [Tiles]; decide, by intro r hr; simp at hr, by intro r hr; simp at hr⟩, trivial,
      by intro r hr; simp at hr⟩
  · have hb := (layout_block T fs h).1
    have hw := gc_wf (.struct fs)
    refine ⟨⟨hb.tiles, hb.well, fun r hr hp => Nat.dvd_trans (hb.aligns r hr hp) hw.2⟩, hb.roomy, ?_⟩
    intro r hr hp
    refine ⟨?_, hb.names r hr hp⟩
    have hd := hb.aligns r hr hp
    have hpos := ((hb.well r hr).1 hp).1
    have h8 : gcAlignof (.struct fs) ∣ 8 := by
      rcases hw.1 with h | h | h | h <;> rw [h] <;> decide
    have hd8 : r.align ∣ 8 := Nat.dvd_trans hd h8
    have hle : r.align ≤ 8 := Nat.le_of_dvd (by omega) hd8
    have key : ∀ d, d < 9 → 0 < d → d ∣ 8 → IsAl d := by unfold IsAl; decide
    exact key r.align (by omega) hpos hd8

-- non-vacuity: nested struct with tail padding, trailing zero-size field
example : layout "T" (.cons "p" (.prim .i64) (.cons "q" (.struct (.cons "x" (.prim .i64) (.cons "y" (.prim .i8) .nil)))
      (.cons "z" (.struct .nil) .nil))) =
    [⟨["T", "p"], 0, 8, 8, 8, false⟩, ⟨["T", "q", "x"], 8, 16, 8, 8, false⟩, ⟨["T", "q", "y"], 16, 17, 1, 1, false⟩,
     ⟨[], 17, 24, 7, 0, true⟩, ⟨["T", "z"], 24, 25, 1, 1, false⟩, ⟨[], 25, 32, 7, 0, true⟩] := by
  decide

/-- **structlayout reports the field offsets, sizes and alignments the compiler uses**: for
every struct type the field records are, in order, exactly the leaves of the struct as the
compiler lays them out — dotted name, absolute offset (sum of the compiler's field offsets
along the path), alignment and size; a zero-size leaf that ends a struct of non-zero size may
be shown with the byte the compiler adds after it (size 1). -/
theorem layout_fields_eq_gc (T : String) (fs : Fields) :
    MatchAll (fieldsOf (layout T fs)) (gcLeavesFields [T] 0 0 fs) := by
  by_cases h : fs = .nil
  · subst h; simp [layout, Fields.isNil, fieldsOf, gcLeavesFields, MatchAll]
  · have hn : ¬ fs.isNil = true := fun hh => h ((Fields.isNil_iff fs).mp hh)
    have := layField_leaves (.struct fs) [T] 0 (.struct fs)
    simp only [layField, gcLeavesTy, hn, Bool.false_eq_true, if_false] at this
    simpa only [layout, laySizes, hn, Bool.false_eq_true, if_false] using this

example : gcLeavesFields ["T"] 0 0 (.cons "p" (.prim .i64) (.cons "q" (.struct (.cons "x" (.prim .i64) (.cons "y" (.prim .i8) .nil)))
      (.cons "z" (.struct .nil) .nil))) =
    [⟨["T", "p"], 0, 8, 8⟩, ⟨["T", "q", "x"], 8, 8, 8⟩, ⟨["T", "q", "y"], 16, 1, 1⟩, ⟨["T", "z"], 24, 0, 1⟩] := by
  decide

/-! ## Part 3: structlayout-optimize -/

/-- What structlayout-optimize may assume of its input (all of it holds for structlayout's
output of any struct type, `layout_is_good_input`): a valid layout of `size` bytes whose
alignments are powers of two and which is roomy. -/
structure GoodInput (input : List Rec) (size : Nat) : Prop where
  valid : ValidLayout input size
  pow2 : ∀ r ∈ input, r.pad = false → Pow2 r.align
  roomy : Roomy input

theorem layout_is_good_input (T : String) (fs : Fields) : GoodInput (layout T fs) (gcSizeof (.struct fs)) := by
  obtain ⟨v, r, a⟩ := layout_fields_aligned T fs
  exact ⟨v, fun x hx hp => (a x hx hp).1.pow2, r⟩

/-- A layout in which every field's size is a multiple of its alignment is roomy. -/
theorem roomy_of_dvd (l : List Rec) (h : ∀ r ∈ l, r.pad = false → r.align ∣ r.size) : Roomy l := by
  induction l with
  | nil => trivial
  | cons r l ih =>
    exact ⟨fun hp => Or.inl (h r (by simp) hp), ih (fun x hx => h x (by simp [hx]))⟩

theorem allFields_fieldsOf (input : List Rec) (hpos : ∀ r ∈ input, r.pad = false → 0 < r.align) :
    AllFields (fieldsOf input) := by
  intro f hf
  simp only [fieldsOf, List.mem_filter, Bool.not_eq_eq_eq_not, Bool.not_true] at hf
  exact ⟨hf.2, hpos f hf.1 hf.2⟩

theorem optimizeMain_true (input : List Rec) :
    optimizeMain true input = pad (optimize (fieldsOf input)) := by
  unfold optimizeMain
  cases input with
  | nil => simp [fieldsOf, optimize, pad]
  | cons x l => simp [fieldsOf]

/-- without `-r`, the fields are first combined per top-level field. -/
theorem optimizeMain_false (input : List Rec) :
    optimizeMain false input = optimizeMain true (combine input) := by
  rw [optimizeMain_true]
  unfold optimizeMain
  cases input with
  | nil => simp [combine, fieldsOf, optimize, pad]
  | cons x l => simp [fieldsOf]

theorem fieldsOf_allFields (l : List Rec) (h : AllFields l) : fieldsOf l = l := by
  simp only [fieldsOf, List.filter_eq_self]
  intro f hf
  simp [(h f hf).1]

/-- after any correct sort by `byAlignAndSize` (sort.Sort is not stable: any permutation that is
sorted with respect to `Less`), the fields need no more room than the sum of their rounded sizes. -/
theorem optEnd_sorted_le (fields sorted : List Rec) (hperm : sorted.Perm fields)
    (hsorted : sorted.Pairwise (fun f g => sortLe f g = true))
    (h : AllFields fields) (hp : ∀ f ∈ fields, Pow2 f.align) :
    optEnd 0 sorted ≤ rsum fields := by
  have hmem : ∀ f, f ∈ sorted → f ∈ fields := fun f hf => hperm.mem_iff.mp hf
  have hs : sorted.Pairwise (fun f g => f.size ≠ 0 → g.align ∣ f.align) := by
    apply List.Pairwise.imp_of_mem _ hsorted
    intro f g hf hg hle hz
    exact (hp g (hmem g hg)).dvd_of_le (hp f (hmem f hf)) (sortLe_spec hle hz).2
  have := optEnd_le_of_sorted sorted 0 0 hs (fun f hf => (h f (hmem f hf)).2) (Nat.le_refl _)
    (fun f _ => Nat.dvd_zero _)
  rw [rsum_perm hperm] at this
  omega

/-- `pad` of ANY correctly sorted permutation of the fields: a valid layout, a permutation of
the fields, of size at most the rounded sum rounded up to the maximal alignment. -/
theorem pad_sorted_spec (fields sorted : List Rec) (hperm : sorted.Perm fields)
    (hsorted : sorted.Pairwise (fun f g => sortLe f g = true))
    (h : AllFields fields) (hp : ∀ f ∈ fields, Pow2 f.align) :
    ValidLayout (pad sorted) (total (pad sorted)) ∧
    ((fieldsOf (pad sorted)).map Rec.key).Perm (fields.map Rec.key) ∧
    total (pad sorted) ≤ roundUp (rsum fields) (padAlignment fields) := by
  have hmem : ∀ f, f ∈ sorted → f ∈ fields := fun f hf => hperm.mem_iff.mp hf
  by_cases hnil : sorted = []
  · have : fields = [] := by
      have := hperm.length_eq; rw [hnil] at this
      exact List.length_eq_zero_iff.mp this.symm
    subst this
    simp only [hnil, pad]
    refine ⟨⟨rfl, by intro r hr; simp at hr, by intro r hr; simp at hr⟩, by simp [fieldsOf], by simp [total]⟩
  · have h' : AllFields sorted := fun f hf => h f (hmem f hf)
    have hp' : ∀ f ∈ sorted, Pow2 f.align := fun f hf => hp f (hmem f hf)
    obtain ⟨t, w, k, tot⟩ := pad_spec sorted hnil h' hp'
    rw [tot]
    refine ⟨⟨t, w, ?_⟩, ?_, ?_⟩
    · intro r hr hpad
      have hrk : r.key ∈ (fieldsOf (pad sorted)).map Rec.key :=
        List.mem_map.mpr ⟨r, by simp [fieldsOf, hr, hpad], rfl⟩
      rw [k] at hrk
      obtain ⟨f, hf, hfk⟩ := List.mem_map.mp hrk
      have hal : f.align = r.align := by
        have := congrArg (fun x => x.2.2) hfk
        simpa [Rec.key] using this
      rw [← hal]
      exact Nat.dvd_trans (dvd_padAlignment _ hp' f hf) (roundUp_dvd _ _)
    · rw [k]; exact hperm.map _
    · unfold padSize
      rw [padAlignment_perm hperm hp']
      exact roundUp_mono _ (optEnd_sorted_le fields sorted hperm hsorted h hp)

/-- facts about `pad (optimize fields)` -/
theorem pad_optimize_spec (fields : List Rec) (h : AllFields fields) (hp : ∀ f ∈ fields, Pow2 f.align) :
    ValidLayout (pad (optimize fields)) (total (pad (optimize fields))) ∧
    ((fieldsOf (pad (optimize fields))).map Rec.key).Perm (fields.map Rec.key) ∧
    total (pad (optimize fields)) ≤ roundUp (rsum fields) (padAlignment fields) :=
  pad_sorted_spec fields (optimize fields) (optimize_perm_list fields) (optimize_sorted fields) h hp

/-- **structlayout-optimize -r outputs a permutation of the input fields**: the non-padding
records of the output are, as (name, size, alignment) triples, a permutation of those of the
input. -/
theorem optimize_perm (input : List Rec) (hp : ∀ r ∈ input, r.pad = false → Pow2 r.align) :
    ((fieldsOf (optimizeMain true input)).map Rec.key).Perm ((fieldsOf input).map Rec.key) := by
  rw [optimizeMain_true]
  have ha := allFields_fieldsOf input (fun r hr hpad => (hp r hr hpad).pos)
  exact (pad_optimize_spec (fieldsOf input) ha (by
    intro f hf
    simp only [fieldsOf, List.mem_filter, Bool.not_eq_eq_eq_not, Bool.not_true] at hf
    exact hp f hf.1 hf.2)).2.1

/-- **… that is itself a valid layout**: the output tiles `[0, its size)`, every field is at a
multiple of its alignment, paddings are non-empty and the size is a multiple of every
field's alignment. -/
theorem optimize_valid (input : List Rec) (hp : ∀ r ∈ input, r.pad = false → Pow2 r.align) :
    ValidLayout (optimizeMain true input) (total (optimizeMain true input)) := by
  rw [optimizeMain_true]
  have ha := allFields_fieldsOf input (fun r hr hpad => (hp r hr hpad).pos)
  exact (pad_optimize_spec (fieldsOf input) ha (by
    intro f hf
    simp only [fieldsOf, List.mem_filter, Bool.not_eq_eq_eq_not, Bool.not_true] at hf
    exact hp f hf.1 hf.2)).1

/-- **… whose padded size is never larger than the original's**: for every good input
(valid layout of `size` bytes, power-of-two alignments, roomy), the output of
`structlayout-optimize -r` is at most `size` bytes. Sorting by alignment (descending) never
grows a struct. -/
theorem optimize_not_larger (input : List Rec) (size : Nat) (h : GoodInput input size) :
    total (optimizeMain true input) ≤ size := by
  rw [optimizeMain_true]
  have ha := allFields_fieldsOf input (fun r hr hpad => (h.pow2 r hr hpad).pos)
  have hp : ∀ f ∈ fieldsOf input, Pow2 f.align := by
    intro f hf
    simp only [fieldsOf, List.mem_filter, Bool.not_eq_eq_eq_not, Bool.not_true] at hf
    exact h.pow2 f hf.1 hf.2
  refine Nat.le_trans (pad_optimize_spec (fieldsOf input) ha hp).2.2 ?_
  have hfit := rsum_le_of_roomy input 0 h.valid.tiles h.valid.well h.roomy
  apply pad_optimize_le _ _ hp (by omega)
  intro f hf
  simp only [fieldsOf, List.mem_filter, Bool.not_eq_eq_eq_not, Bool.not_true] at hf
  exact h.valid.size_aligned f hf.1 hf.2

/-- the same under the simpler hypothesis that sizes are multiples of alignments -/
theorem optimize_not_larger_of_dvd (input : List Rec) (size : Nat) (hv : ValidLayout input size)
    (hp : ∀ r ∈ input, r.pad = false → Pow2 r.align) (hd : ∀ r ∈ input, r.pad = false → r.align ∣ r.size) :
    total (optimizeMain true input) ≤ size :=
  optimize_not_larger input size ⟨hv, hp, roomy_of_dvd input hd⟩

/-- **Independence of the (unstable) sort**: whatever order `sort.Sort` leaves fields that
compare equal in, the output is a permutation of the input fields, a valid layout and — for a
good input — not larger than the input. -/
theorem optimize_any_sort (input : List Rec) (size : Nat) (h : GoodInput input size)
    (sorted : List Rec) (hperm : sorted.Perm (fieldsOf input))
    (hsorted : sorted.Pairwise (fun f g => sortLe f g = true)) :
    ValidLayout (pad sorted) (total (pad sorted)) ∧
    ((fieldsOf (pad sorted)).map Rec.key).Perm ((fieldsOf input).map Rec.key) ∧
    total (pad sorted) ≤ size := by
  have ha := allFields_fieldsOf input (fun r hr hpad => (h.pow2 r hr hpad).pos)
  have hp : ∀ f ∈ fieldsOf input, Pow2 f.align := by
    intro f hf
    simp only [fieldsOf, List.mem_filter, Bool.not_eq_eq_eq_not, Bool.not_true] at hf
    exact h.pow2 f hf.1 hf.2
  obtain ⟨v, p, le⟩ := pad_sorted_spec (fieldsOf input) sorted hperm hsorted ha hp
  refine ⟨v, p, Nat.le_trans le ?_⟩
  have hfit := rsum_le_of_roomy input 0 h.valid.tiles h.valid.well h.roomy
  apply pad_optimize_le _ _ hp (by omega)
  intro f hf
  simp only [fieldsOf, List.mem_filter, Bool.not_eq_eq_eq_not, Bool.not_true] at hf
  exact h.valid.size_aligned f hf.1 hf.2

-- non-vacuity: the two orders of the tied fields `a`, `c` of `struct{a int8; b int64; c int8}`
example : ([⟨["T", "b"], 8, 16, 8, 8, false⟩, ⟨["T", "c"], 16, 17, 1, 1, false⟩, ⟨["T", "a"], 0, 1, 1, 1, false⟩] : List Rec).Perm
      (fieldsOf (layout "T" (.cons "a" (.prim .i8) (.cons "b" (.prim .i64) (.cons "c" (.prim .i8) .nil))))) ∧
    ([⟨["T", "b"], 8, 16, 8, 8, false⟩, ⟨["T", "c"], 16, 17, 1, 1, false⟩, ⟨["T", "a"], 0, 1, 1, 1, false⟩] : List Rec).Pairwise
      (fun f g => sortLe f g = true) := by
  constructor
  · have : fieldsOf (layout "T" (.cons "a" (.prim .i8) (.cons "b" (.prim .i64) (.cons "c" (.prim .i8) .nil)))) =
        [⟨["T", "a"], 0, 1, 1, 1, false⟩, ⟨["T", "b"], 8, 16, 8, 8, false⟩, ⟨["T", "c"], 16, 17, 1, 1, false⟩] := by decide
    rw [this]
    decide
  · decide

/-- `structlayout -json T | structlayout-optimize -r`, for every struct type: the result is
never larger than the struct (compiler's size). -/
theorem optimize_r_layout_not_larger (T : String) (fs : Fields) :
    total (optimizeMain true (layout T fs)) ≤ gcSizeof (.struct fs) :=
  optimize_not_larger _ _ (layout_is_good_input T fs)

-- non-vacuity of `optimize_not_larger`: structlayout's records of
-- `struct{x int32; a int8; b int64; y int32; c int8; d int64}` (32 bytes) are a good input,
-- and the optimized layout has 32 bytes (the unfixed `combine` produced 40).
example : GoodInput (layout "T" (.cons "x" (.prim .i32) (.cons "a" (.prim .i8) (.cons "b" (.prim .i64)
    (.cons "y" (.prim .i32) (.cons "c" (.prim .i8) (.cons "d" (.prim .i64) .nil))))))) 32 :=
  layout_is_good_input "T" _

/-- `struct{x int32; a int8; b int64; y int32; c int8; d int64}` -/
def exGrow : Fields := .cons "x" (.prim .i32) (.cons "a" (.prim .i8) (.cons "b" (.prim .i64)
    (.cons "y" (.prim .i32) (.cons "c" (.prim .i8) (.cons "d" (.prim .i64) .nil)))))

example : total (optimizeMain true (layout "T" exGrow)) = 32 := by
  rw [optimizeMain_true]
  have h1 : fieldsOf (layout "T" exGrow) =
      [⟨["T", "x"], 0, 4, 4, 4, false⟩, ⟨["T", "a"], 4, 5, 1, 1, false⟩, ⟨["T", "b"], 8, 16, 8, 8, false⟩,
       ⟨["T", "y"], 16, 20, 4, 4, false⟩, ⟨["T", "c"], 20, 21, 1, 1, false⟩, ⟨["T", "d"], 24, 32, 8, 8, false⟩] := by
    decide
  have h2 : optimize [⟨["T", "x"], 0, 4, 4, 4, false⟩, ⟨["T", "a"], 4, 5, 1, 1, false⟩, ⟨["T", "b"], 8, 16, 8, 8, false⟩,
       ⟨["T", "y"], 16, 20, 4, 4, false⟩, ⟨["T", "c"], 20, 21, 1, 1, false⟩, ⟨["T", "d"], 24, 32, 8, 8, false⟩] =
      [⟨["T", "b"], 8, 16, 8, 8, false⟩, ⟨["T", "d"], 24, 32, 8, 8, false⟩, ⟨["T", "x"], 0, 4, 4, 4, false⟩,
       ⟨["T", "y"], 16, 20, 4, 4, false⟩, ⟨["T", "a"], 4, 5, 1, 1, false⟩, ⟨["T", "c"], 20, 21, 1, 1, false⟩] := by
    simp [optimize, List.mergeSort, List.MergeSort.Internal.splitInTwo, sortLe, less]
  rw [h1, h2]
  decide

-- the hypothesis "roomy" cannot be dropped: a valid layout of 16 bytes with power-of-two
-- alignments in which two fields of size 1 and alignment 8 are each followed directly by
-- byte-aligned fields is laid out in 24 bytes once the two are placed first (each then needs
-- a slot of 8 bytes): `pad` of the sorted fields
example : total (pad ([⟨["T", "a"], 0, 1, 1, 8, false⟩, ⟨["T", "b"], 8, 9, 1, 8, false⟩] ++
    (List.range 14).map (fun _ => ⟨["T", "c"], 0, 1, 1, 1, false⟩))) = 24 := by
  decide

/-! ## Part 4: the default mode (without -r): `combine`, then the same -/

/-- **`combine` reports the top-level fields as the compiler lays them out**: for every struct
type with distinct field names, the records that structlayout-optimize (default mode) sorts
are the top-level fields with the compiler's offset, size and alignment (`topRecs`; a
zero-size last field of a non-zero-size struct has size `Alignof`). -/
theorem combine_layout_fields (T : String) (fs : Fields) (hnd : (Fields.names fs).Nodup) :
    combine (layout T fs) = topRecs T (gcSizeof (.struct fs)) 0 fs := combine_layout T fs hnd

example : combine (layout "T" (.cons "p" (.prim .i8) (.cons "q" (.struct (.cons "x" (.prim .i64) (.cons "y" (.prim .i8) .nil)))
      (.cons "z" (.array 0 (.prim .i64)) .nil)))) =
    [⟨["T", "p"], 0, 1, 1, 1, false⟩, ⟨["T", "q"], 8, 24, 16, 8, false⟩, ⟨["T", "z"], 24, 32, 8, 8, false⟩] := by
  decide

theorem topRecs_allFields (T : String) (fs : Fields) :
    AllFields (topRecs T (gcSizeof (.struct fs)) 0 fs) ∧ ∀ f ∈ topRecs T (gcSizeof (.struct fs)) 0 fs, Pow2 f.align := by
  have h := topRecs_props T (gcSizeof (.struct fs)) fs 0
  exact ⟨fun f hf => ⟨(h f hf).1, (h f hf).2.1.pos⟩, fun f hf => (h f hf).2.1.pow2⟩

theorem optimizeMain_false_layout (T : String) (fs : Fields) (hnd : (Fields.names fs).Nodup) :
    optimizeMain false (layout T fs) = pad (optimize (topRecs T (gcSizeof (.struct fs)) 0 fs)) := by
  rw [optimizeMain_false, optimizeMain_true, combine_layout T fs hnd,
    fieldsOf_allFields _ (topRecs_allFields T fs).1]

/-- `structlayout -json T | structlayout-optimize` outputs a permutation of the struct's
top-level fields (name, size, alignment as the compiler has them). -/
theorem optimize_layout_perm (T : String) (fs : Fields) (hnd : (Fields.names fs).Nodup) :
    ((fieldsOf (optimizeMain false (layout T fs))).map Rec.key).Perm
      ((topRecs T (gcSizeof (.struct fs)) 0 fs).map Rec.key) := by
  rw [optimizeMain_false_layout T fs hnd]
  exact (pad_optimize_spec _ (topRecs_allFields T fs).1 (topRecs_allFields T fs).2).2.1

/-- … and with `-r` a permutation of structlayout's field records. -/
theorem optimize_r_layout_perm (T : String) (fs : Fields) :
    ((fieldsOf (optimizeMain true (layout T fs))).map Rec.key).Perm ((fieldsOf (layout T fs)).map Rec.key) :=
  optimize_perm _ (layout_is_good_input T fs).pow2

/-- For every struct type, in both modes, the output is a valid layout. -/
theorem optimize_layout_valid (T : String) (fs : Fields) (hnd : (Fields.names fs).Nodup) (r : Bool) :
    ValidLayout (optimizeMain r (layout T fs)) (total (optimizeMain r (layout T fs))) := by
  cases r with
  | true => exact optimize_valid _ (layout_is_good_input T fs).pow2
  | false =>
    rw [optimizeMain_false_layout T fs hnd]
    exact (pad_optimize_spec _ (topRecs_allFields T fs).1 (topRecs_allFields T fs).2).1

/-- **optimize never grows a struct**: for every struct type of the grammar (distinct field
names), `structlayout -json T | structlayout-optimize [-r]` yields a layout whose size is at
most the compiler's `Sizeof T`. -/
theorem optimize_layout_not_larger (T : String) (fs : Fields) (hnd : (Fields.names fs).Nodup) (r : Bool) :
    total (optimizeMain r (layout T fs)) ≤ gcSizeof (.struct fs) := by
  cases r with
  | true => exact optimize_r_layout_not_larger T fs
  | false =>
    rw [optimizeMain_false_layout T fs hnd]
    obtain ⟨ha, hp⟩ := topRecs_allFields T fs
    obtain ⟨hfit, hdiv⟩ := topRecs_fit T fs
    exact Nat.le_trans (pad_optimize_spec _ ha hp).2.2 (pad_optimize_le _ _ hp hfit hdiv)

-- non-vacuity: two nested structs ending in zero-size aligned fields (40 bytes)
example : (Fields.names (.cons "q" (.struct (.cons "x" (.prim .i64) (.cons "z" (.array 0 (.prim .i64)) .nil)))
    (.cons "r" (.struct (.cons "y" (.prim .i64) (.cons "z" (.array 0 (.prim .i64)) .nil))) (.cons "s" (.prim .i8) .nil)))).Nodup ∧
    gcSizeof (.struct (.cons "q" (.struct (.cons "x" (.prim .i64) (.cons "z" (.array 0 (.prim .i64)) .nil)))
    (.cons "r" (.struct (.cons "y" (.prim .i64) (.cons "z" (.array 0 (.prim .i64)) .nil))) (.cons "s" (.prim .i8) .nil)))) = 40 := by
  decide

end Verif.C19
