import Verif.C19.Layout
/-!
C19 helper lemmas, part 4: structlayout-optimize's `combine` (default mode, without -r).

Step A (generic): on any record list whose field records come in groups with a common
two-component name prefix (adjacent groups having different prefixes), `combine` returns
one record per group: start of the first member, maximal alignment, extent up to the stop
of the last member rounded up to that alignment.

Step B (layouts): the field records of `layout T fs` are such groups, one per top-level
field, and the combined record of a field of type `t` at offset `off` is
`(T.f, off, gcSizeof t, gcAlignof t)` (a zero-size last field of a non-zero-size struct is
shown with size `gcAlignof t`: the byte the compiler adds, rounded up).
-/
namespace Verif.C19

/-! ### summary of a record list: what `combine` computes of a group -/

/-- (start of the first field record, maximal alignment, stop of the last field record). -/
def summ : List Rec → Option (Nat × Nat × Nat)
  | [] => none
  | r :: l =>
    if r.pad then summ l
    else match summ l with
      | none => some (r.start, r.align, r.stop)
      | some (_, a, e) => some (r.start, max r.align a, e)

def summOp : Option (Nat × Nat × Nat) → Option (Nat × Nat × Nat) → Option (Nat × Nat × Nat)
  | none, y => y
  | x, none => x
  | some (s, a, _), some (_, a', e') => some (s, max a a', e')

theorem summ_append (l1 l2 : List Rec) : summ (l1 ++ l2) = summOp (summ l1) (summ l2) := by
  induction l1 with
  | nil => simp [summ, summOp]
  | cons r l ih =>
    simp only [List.cons_append, summ, ih]
    by_cases hp : r.pad = true
    · simp [hp]
    · simp only [hp]
      cases h1 : summ l with
      | none =>
        cases h2 : summ l2 with
        | none => simp [summOp]
        | some y => obtain ⟨s, a, e⟩ := y; simp [summOp]
      | some x =>
        obtain ⟨s, a, e⟩ := x
        cases h2 : summ l2 with
        | none => simp [summOp]
        | some y => obtain ⟨s', a', e'⟩ := y; simp [summOp, Nat.max_assoc]

theorem summ_fieldsOf (l : List Rec) : summ (fieldsOf l) = summ l := by
  induction l with
  | nil => rfl
  | cons r l ih =>
    by_cases hp : r.pad = true
    · rw [fieldsOf_cons_pad l hp]; simp [summ, hp, ih]
    · have hp' : r.pad = false := by simpa using hp
      rw [fieldsOf_cons_field l hp']; simp [summ, hp', ih]

theorem summ_eq_none_iff (l : List Rec) : summ l = none ↔ fieldsOf l = [] := by
  induction l with
  | nil => simp [summ, fieldsOf]
  | cons r l ih =>
    by_cases hp : r.pad = true
    · rw [fieldsOf_cons_pad l hp]; simp [summ, hp, ih]
    · have hp' : r.pad = false := by simpa using hp
      rw [fieldsOf_cons_field l hp']
      simp only [summ, hp']
      cases summ l with
      | none => simp
      | some x => obtain ⟨s, a, e⟩ := x; simp

/-! ### Step A: `combine` on grouped field records -/

/-- the maximal alignment as `combine` computes it. -/
def maxAl (a : Nat) (g : List Rec) : Nat := g.foldl (fun m f => if f.align > m then f.align else m) a
/-- the stop of the last member. -/
def lastStop (s : Nat) (g : List Rec) : Nat := g.foldl (fun _ f => f.stop) s

/-- the record `combine` emits for the group `f :: g` with prefix `p`. -/
def flushRec (p : List String) (f : Rec) (g : List Rec) : Rec :=
  let al := maxAl f.align g
  let sz := align (lastStop f.stop g - f.start) al
  { f with name := p, align := al, size := sz, stop := f.start + sz }

/-- a group: non-empty, only field records, all with two-component prefix `p`. -/
def IsGroup (p : List String) (g : List Rec) : Prop :=
  g ≠ [] ∧ ∀ r ∈ g, r.pad = false ∧ r.name.take 2 = p

def flushGroup (p : List String) : List Rec → List Rec
  | [] => []
  | f :: g => [flushRec p f g]

theorem combineStep_pad (c : Comb) (f : Rec) (h : f.pad = true) : combineStep c f = c := by
  simp [combineStep, h]

theorem foldl_combineStep_fieldsOf (c : Comb) (l : List Rec) :
    l.foldl combineStep c = (fieldsOf l).foldl combineStep c := by
  induction l generalizing c with
  | nil => rfl
  | cons r l ih =>
    by_cases hp : r.pad = true
    · rw [fieldsOf_cons_pad l hp, List.foldl_cons, combineStep_pad c r hp, ih]
    · have hp' : r.pad = false := by simpa using hp
      rw [fieldsOf_cons_field l hp', List.foldl_cons, List.foldl_cons, ih]

/-- folding over further members of the current group only updates alignment and stop. -/
theorem foldl_same_group (p : List String) (g : List Rec) (c : Comb) (hc : c.cur = some p)
    (hg : ∀ r ∈ g, r.pad = false ∧ r.name.take 2 = p) :
    g.foldl combineStep c =
      { c with new := { c.new with align := maxAl c.new.align g, stop := lastStop c.new.stop g } } := by
  induction g generalizing c with
  | nil => simp [maxAl, lastStop]
  | cons r g ih =>
    obtain ⟨hp, hn⟩ := hg r (by simp)
    have hstep : combineStep c r =
        { c with new := { c.new with align := if r.align > c.new.align then r.align else c.new.align, stop := r.stop } } := by
      simp [combineStep, hp, hn, hc]
    rw [List.foldl_cons, hstep, ih]
    · simp [maxAl, lastStop]
    · exact hc
    · exact fun x hx => hg x (by simp [hx])

/-- the result of `combine` when started in state `c`. -/
def combineFrom (c : Comb) (l : List Rec) : List Rec :=
  let c' := l.foldl combineStep c
  if c'.cur.isSome then c'.flush else c'.out

theorem flush_eq (c : Comb) (p : List String) (f : Rec) (g : List Rec)
    (hn : c.new = { f with name := p, align := maxAl f.align g, stop := lastStop f.stop g }) :
    c.flush = c.out ++ [flushRec p f g] := by
  simp [Comb.flush, flushRec, hn]

/-- `gs`: groups with their prefixes; adjacent prefixes differ. -/
def GroupsOK : List (List String × List Rec) → Prop
  | [] => True
  | [x] => IsGroup x.1 x.2
  | x :: y :: r => IsGroup x.1 x.2 ∧ x.1 ≠ y.1 ∧ GroupsOK (y :: r)

theorem GroupsOK.head {x : List String × List Rec} {r : List (List String × List Rec)}
    (h : GroupsOK (x :: r)) : IsGroup x.1 x.2 := by
  cases r with
  | nil => exact h
  | cons y r => exact h.1

theorem GroupsOK.tail {x : List String × List Rec} {r : List (List String × List Rec)}
    (h : GroupsOK (x :: r)) : GroupsOK r := by
  cases r with
  | nil => trivial
  | cons y r => exact h.2.2

theorem combineFrom_groups (gs : List (List String × List Rec)) (hok : GroupsOK gs) (c : Comb)
    (p0 : List String) (f0 : Rec) (g0 : List Rec) (hc : c.cur = some p0)
    (hn : c.new = { f0 with name := p0, align := maxAl f0.align g0, stop := lastStop f0.stop g0 })
    (hne : ∀ x r, gs = x :: r → x.1 ≠ p0) :
    combineFrom c (gs.flatMap (·.2)) = c.out ++ [flushRec p0 f0 g0] ++ gs.flatMap (fun x => flushGroup x.1 x.2) := by
  induction gs generalizing c p0 f0 g0 with
  | nil =>
    simp only [List.flatMap_nil, combineFrom, List.foldl_nil, hc, Option.isSome_some, if_true, List.append_nil]
    exact flush_eq c p0 f0 g0 hn
  | cons x r ih =>
    obtain ⟨p, g⟩ := x
    have hg := hok.head
    obtain ⟨hgne, hgall⟩ := hg
    obtain ⟨f, g', rfl⟩ := List.exists_cons_of_ne_nil hgne
    obtain ⟨hfp, hfn⟩ := hgall f (by simp)
    have hpne : p ≠ p0 := hne (p, f :: g') r rfl
    -- first member of the new group: flush the previous one
    have hstep : combineStep c f = { cur := some p, new := { f with name := p }, out := c.out ++ [flushRec p0 f0 g0] } := by
      have : c.cur ≠ some (f.name.take 2) := by rw [hc, hfn]; intro h; exact hpne (Option.some.inj h).symm
      simp only [combineStep, hfp]
      simp [hfn, hc, flush_eq c p0 f0 g0 hn, (show ¬ p0 = p from fun h => hpne h.symm)]
    have hrest := foldl_same_group p g' { cur := some p, new := { f with name := p }, out := c.out ++ [flushRec p0 f0 g0] } rfl
      (fun x hx => hgall x (by simp [hx]))
    simp only [List.flatMap_cons, combineFrom, List.foldl_append, List.foldl_cons, hstep, hrest]
    have := ih hok.tail
      { cur := some p, new := { f with name := p, align := maxAl f.align g', stop := lastStop f.stop g' },
        out := c.out ++ [flushRec p0 f0 g0] } p f g' rfl rfl
      (by
        intro y r' hr'
        subst hr'
        exact fun h => hok.2.1 h.symm)
    simp only [combineFrom] at this
    simp only [this, flushGroup, List.append_assoc, List.cons_append, List.nil_append]

/-- **Step A**: `combine` of grouped records is one flushed record per group. -/
theorem combine_groups (gs : List (List String × List Rec)) (hok : GroupsOK gs) (l : List Rec)
    (hl : fieldsOf l = gs.flatMap (·.2)) :
    combine l = gs.flatMap (fun x => flushGroup x.1 x.2) := by
  have h0 : combine l = combineFrom ⟨none, ⟨[], 0, 0, 0, 0, false⟩, []⟩ (fieldsOf l) := by
    simp only [combine, combineFrom, foldl_combineStep_fieldsOf _ l]
  rw [h0, hl]
  cases gs with
  | nil => simp [combineFrom]
  | cons x r =>
    obtain ⟨p, g⟩ := x
    obtain ⟨hgne, hgall⟩ := hok.head
    obtain ⟨f, g', rfl⟩ := List.exists_cons_of_ne_nil hgne
    obtain ⟨hfp, hfn⟩ := hgall f (by simp)
    have hstep : combineStep ⟨none, ⟨[], 0, 0, 0, 0, false⟩, []⟩ f = { cur := some p, new := { f with name := p }, out := [] } := by
      simp [combineStep, hfp, hfn]
    have hrest := foldl_same_group p g' { cur := some p, new := { f with name := p }, out := [] } rfl
      (fun x hx => hgall x (by simp [hx]))
    have := combineFrom_groups r hok.tail
      { cur := some p, new := { f with name := p, align := maxAl f.align g', stop := lastStop f.stop g' }, out := [] }
      p f g' rfl rfl
      (by
        intro y r' hr'
        subst hr'
        exact fun h => hok.2.1 h.symm)
    simp only [combineFrom] at this
    simp only [List.flatMap_cons, combineFrom, List.foldl_append, List.foldl_cons, hstep, hrest, this, flushGroup,
      List.nil_append, List.cons_append]

/-! ### Step B: the groups of a layout -/

theorem if_gt_eq_max (x m : Nat) : (if x > m then x else m) = max m x := by
  rw [Nat.max_def]; split <;> split <;> omega

theorem maxAl_max (a b : Nat) (g : List Rec) : maxAl (max a b) g = max a (maxAl b g) := by
  induction g generalizing a b with
  | nil => simp [maxAl]
  | cons r g ih =>
    have h1 : maxAl (max a b) (r :: g) = maxAl (max (max a b) r.align) g := by
      simp [maxAl, if_gt_eq_max]
    have h2 : maxAl b (r :: g) = maxAl (max b r.align) g := by
      simp [maxAl, if_gt_eq_max]
    rw [h1, h2, Nat.max_assoc, ih]

/-- `combine`'s running values of a group are its summary. -/
theorem summ_group (f : Rec) (g : List Rec) (h : ∀ r ∈ f :: g, r.pad = false) :
    summ (f :: g) = some (f.start, maxAl f.align g, lastStop f.stop g) := by
  induction g generalizing f with
  | nil => simp [summ, h f (by simp), maxAl, lastStop]
  | cons r g ih =>
    have hr := ih r (fun x hx => h x (by simp [hx]))
    have hf := h f (by simp)
    have h1 : maxAl f.align (r :: g) = max f.align (maxAl r.align g) := by
      have : maxAl f.align (r :: g) = maxAl (max f.align r.align) g := by simp [maxAl, if_gt_eq_max]
      rw [this, maxAl_max]
    have h2 : lastStop f.stop (r :: g) = lastStop r.stop g := by simp [lastStop]
    rw [summ, hr, h1, h2]
    simp [hf]

theorem summ_concat_field (init : List Rec) (f : Rec) (hf : f.pad = false) :
    summ (init ++ [f]) = summOp (summ init) (some (f.start, f.align, f.stop)) := by
  rw [summ_append]; simp [summ, hf]

theorem summ_padding_if (c : Prop) [Decidable c] (a b : Nat) : summ (if c then [Rec.padding a b] else []) = none := by
  split <;> simp [summ, Rec.padding]

/-- summary after `layFinish`: start and alignment are unchanged; the stop moves by one byte
if the last record was bumped. -/
theorem summ_layFinish (base tot : Nat) (init : List Rec) (f : Rec) :
    summ (layFinish base tot (init ++ [f])) =
      summ (init ++ [if f.size = 0 ∧ tot ≠ 0 then { f with size := 1, stop := f.stop + 1 } else f]) := by
  rw [layFinish_concat, summ_append, summ_padding_if]
  cases summ (init ++ [if f.size = 0 ∧ tot ≠ 0 then { f with size := 1, stop := f.stop + 1 } else f]) <;> rfl

theorem gcsOffsets_head (o : Nat) (x : Nat × Nat) (l : List (Nat × Nat)) :
    (gcsOffsets o (x :: l)).head?.getD 0 = align o x.2 := by
  obtain ⟨sz, al⟩ := x
  simp [gcsOffsets]

theorem Nat.max_eq_or (a b : Nat) : max a b = a ∨ max a b = b := by
  rw [Nat.max_def]; split <;> simp

mutual
/-- summary of the records of one field: first field record at `off`, maximal alignment that
of the type, and the extent up to the last field record rounds up to the type's size. -/
theorem layField_summ : (u : Ty) → (path : List String) → (off : Nat) → (orig : Ty) →
    gcsSizeof orig = gcsSizeof u → gcsAlignof orig = gcsAlignof u → gcsAlignof u ∣ off →
    ∃ e, summ (layField path off off orig u) = some (off, gcsAlignof u, e) ∧ off ≤ e ∧
      roundUp (e - off) (gcsAlignof u) = gcsSizeof u
  | .prim k, path, off, orig, hS, hA, hoff => by
    have hw := gcs_wf (.prim k)
    refine ⟨off + gcsSizeof (.prim k), ?_, by omega, ?_⟩
    · simp only [layField, hS, hA, summ, Rec.leaf]; simp
    · rw [Nat.add_sub_cancel_left]; exact roundUp_of_dvd hw.1.pos hw.2
  | .array n el, path, off, orig, hS, hA, hoff => by
    have hw := gcs_wf (.array n el)
    refine ⟨off + gcsSizeof (.array n el), ?_, by omega, ?_⟩
    · simp only [layField, hS, hA, summ, Rec.leaf]; simp
    · rw [Nat.add_sub_cancel_left]; exact roundUp_of_dvd hw.1.pos hw.2
  | .named u, path, off, orig, hS, hA, hoff => by
    have := layField_summ u path off orig (by simpa [gcsSizeof] using hS) (by simpa [gcsAlignof] using hA)
      (by simpa [gcsAlignof] using hoff)
    simpa only [layField, gcsSizeof, gcsAlignof] using this
  | .struct fs, path, off, orig, hS, hA, hoff => by
    have hw := gcs_wf (.struct fs)
    by_cases hn : fs.isNil = true
    · refine ⟨off + gcsSizeof (.struct fs), ?_, by omega, ?_⟩
      · simp only [layField, hn, if_true, hS, hA, summ, Rec.leaf]; simp
      · rw [Nat.add_sub_cancel_left]; exact roundUp_of_dvd hw.1.pos hw.2
    · have hne : fs ≠ .nil := fun h => hn ((Fields.isNil_iff fs).mpr h)
      have hwf := gcsInfos_wf fs
      have hAl : ∀ p ∈ gcsInfos fs, p.2 ∣ gcsStructAlign (gcsInfos fs) := by
        rw [gcsStructAlign_eq]; exact dvd_gcStructAlign _ (fun p hp => (hwf p hp).1)
      simp only [gcsAlignof, gcsSizeof] at hoff hw ⊢
      have hbase : ∀ p ∈ gcsInfos fs, p.2 ∣ off := fun p hp => Nat.dvd_trans (hAl p hp) hoff
      -- what is known from the first induction
      have hl := layLoop_spec fs path off 0 (gcsStructAlign (gcsInfos fs)) hbase hAl
      simp only [Nat.add_zero] at hl
      obtain ⟨hb, hz⟩ := hl
      obtain ⟨hz1, hz2⟩ := hz hne
      -- the summary of the loop
      obtain ⟨a, e, al, hs, hle, hatt, hlast, hbe, hround⟩ := layLoop_summ fs path off 0 hbase hne
      simp only [Nat.add_zero] at hs
      have hApos : 0 < gcStructAlign (gcsInfos fs) := by rw [← gcsStructAlign_eq]; exact hw.1.pos
      -- a is the struct's alignment
      have haA : a = gcsStructAlign (gcsInfos fs) := by
        rw [gcsStructAlign_eq]
        obtain ⟨p, hp, hpa⟩ := hatt
        have hspec := foldl_max_spec (gcsInfos fs) 1 (Or.inl rfl) (fun p hp => (hwf p hp).1)
        apply Nat.le_antisymm
        · rw [← hpa]; exact hspec.2.2 p hp
        · rcases gcStructAlign_attained (gcsInfos fs) with h1 | ⟨q, hq, hqa⟩
          · rw [h1, ← hpa]; exact (hwf p hp).1.pos
          · rw [← hqa]; exact hle q hq
      -- the first offset is 0
      have hhead : (gcsOffsets 0 (gcsInfos fs)).head?.getD 0 = 0 := by
        obtain ⟨x, l, hx⟩ := List.exists_cons_of_ne_nil (gcsInfos_ne_nil hne)
        rw [hx, gcsOffsets_head, align_eq_roundUp, roundUp_zero]
      rw [hhead, Nat.add_zero] at hs
      -- the last field's alignment divides the struct's
      have hlastmem : ∃ p ∈ gcsInfos fs, p.2 = al := by
        cases hgl : (gcsInfos fs).getLast? with
        | none => simp [hgl] at hlast
        | some p =>
          simp [hgl] at hlast
          exact ⟨p, List.mem_of_getLast? hgl, hlast⟩
      obtain ⟨pl, hpl, hplal⟩ := hlastmem
      have halA : al ∣ gcStructAlign (gcsInfos fs) := by rw [← hplal, ← gcsStructAlign_eq]; exact hAl pl hpl
      have halpos : 0 < al := by rw [← hplal]; exact (hwf pl hpl).1.pos
      -- decompose the loop's records
      obtain ⟨init, f, hout⟩ : ∃ init f, layLoop path off off fs (gcsOffsets 0 (gcsInfos fs)) = init ++ [f] := by
        rcases List.eq_nil_or_concat (layLoop path off off fs (gcsOffsets 0 (gcsInfos fs))) with h | ⟨l', b, h⟩
        · exact absurd h hz1
        · exact ⟨l', b, by simpa using h⟩
      have hfz : f.size = 0 → f.pad = false := by
        intro h0
        cases hp : f.pad with
        | false => rfl
        | true => have := (hb.well f (by rw [hout]; simp)).2 hp; omega
      simp only [layField, hn, Bool.false_eq_true, if_false]
      rw [gcsStructSize_eq, hout, summ_layFinish]
      rw [hout] at hs hb hz2
      by_cases hbump : f.size = 0 ∧ gcStructSize (gcsInfos fs) ≠ 0
      · -- bumped: the last record is a zero-size field that ends at off + gcEnd
        have hfp := hfz hbump.1
        have hstop : f.stop = off + gcEnd 0 (gcsInfos fs) := by
          have := hb.tiles.total_eq (by simp)
          simpa [total] using this
        have hlw : lastWidth (gcsInfos fs) = some 0 := hz2.mp ⟨f, by simp, hbump.1⟩
        have hpos : gcEnd 0 (gcsInfos fs) > 0 := by
          rcases Nat.eq_zero_or_pos (gcEnd 0 (gcsInfos fs)) with h0 | h0
          · exfalso; apply hbump.2; unfold gcStructSize; simp [h0, roundUp_zero]
          · exact h0
        simp only [hbump, ne_eq, not_false_eq_true, and_self, if_true]
        rw [summ_concat_field _ _ (by simpa using hfp)]
        rw [summ_concat_field _ _ hfp] at hs
        refine ⟨f.stop + 1, ?_, by omega, ?_⟩
        · cases hsi : summ init with
          | none =>
            rw [hsi] at hs
            simp only [summOp, Option.some.injEq, Prod.mk.injEq] at hs
            obtain ⟨h1, h2, _⟩ := hs
            simp only [summOp]
            rw [h1, h2, haA]
          | some x =>
            obtain ⟨s0, a0, e0⟩ := x
            rw [hsi] at hs
            simp only [summOp, Option.some.injEq, Prod.mk.injEq] at hs
            obtain ⟨h1, h2, _⟩ := hs
            simp only [summOp]
            rw [h1, h2, haA]
        · have : f.stop + 1 - off = gcEnd 0 (gcsInfos fs) + 1 := by omega
          rw [this, gcsStructAlign_eq]
          unfold gcStructSize
          simp [hpos, hlw]
      · -- not bumped
        simp only [hbump, if_false]
        refine ⟨e, by rw [hs, haA], hbe, ?_⟩
        have hsz : gcStructSize (gcsInfos fs) = roundUp (gcEnd 0 (gcsInfos fs)) (gcStructAlign (gcsInfos fs)) := by
          unfold gcStructSize
          by_cases hc : gcEnd 0 (gcsInfos fs) > 0 ∧ lastWidth (gcsInfos fs) = some 0
          · exfalso
            -- then the last record has size 0 and the struct is not empty
            obtain ⟨g, hg, hgz⟩ := hz2.mpr hc.2
            simp at hg; subst hg
            apply hbump
            refine ⟨hgz, ?_⟩
            have := (gcStructSize_ge (gcsInfos fs) hApos).1
            omega
          · simp [hc]
        rw [hsz, ← hround, roundUp_roundUp halpos hApos halA, gcsStructAlign_eq]
/-- summary of the records of a field list. -/
theorem layLoop_summ : (fs : Fields) → (pre : List String) → (base o : Nat) →
    (∀ p ∈ gcsInfos fs, p.2 ∣ base) → fs ≠ .nil →
    ∃ a e al, summ (layLoop pre base (base + o) fs (gcsOffsets o (gcsInfos fs))) =
        some (base + (gcsOffsets o (gcsInfos fs)).head?.getD 0, a, e) ∧
      (∀ p ∈ gcsInfos fs, p.2 ≤ a) ∧ (∃ p ∈ gcsInfos fs, p.2 = a) ∧
      (gcsInfos fs).getLast?.map (·.2) = some al ∧ base ≤ e ∧
      roundUp (e - base) al = gcEnd o (gcsInfos fs)
  | .nil, _, _, _, _, hne => absurd rfl hne
  | .cons nm t rest, pre, base, o, hbase, _ => by
    have hw := gcs_wf t
    have hge : o ≤ align o (gcsAlignof t) := by rw [align_eq_roundUp]; exact le_roundUp _ hw.1.pos
    have hdv : gcsAlignof t ∣ align o (gcsAlignof t) := by rw [align_eq_roundUp]; exact roundUp_dvd _ _
    have hb0 : gcsAlignof t ∣ base := hbase (gcsSizeof t, gcsAlignof t) (by simp [gcsInfos])
    obtain ⟨e1, hs1, hle1, hr1⟩ := layField_summ t (pre ++ [nm]) (base + align o (gcsAlignof t)) t rfl rfl (Nat.dvd_add hb0 hdv)
    rw [layLoop_cons pre base o nm t rest hge, summ_append, summ_append, summ_padding_if, hs1]
    have hhead : (gcsOffsets o (gcsInfos (.cons nm t rest))).head?.getD 0 = align o (gcsAlignof t) := by
      simp [gcsInfos, gcsOffsets]
    have hend : gcEnd o (gcsInfos (.cons nm t rest)) = gcEnd (align o (gcsAlignof t) + gcsSizeof t) (gcsInfos rest) := by
      simp only [gcsInfos, gcEnd, align_eq_roundUp]
    rw [hhead, hend]
    by_cases hrest : rest = .nil
    · subst hrest
      refine ⟨gcsAlignof t, e1, gcsAlignof t, by simp [layLoop_nil, summ, summOp], ?_, ?_, ?_, by omega, ?_⟩
      · intro p hp; simp [gcsInfos] at hp; subst hp; exact Nat.le_refl _
      · exact ⟨(gcsSizeof t, gcsAlignof t), by simp [gcsInfos], rfl⟩
      · simp [gcsInfos]
      · simp only [gcsInfos, gcEnd]
        have : e1 - base = align o (gcsAlignof t) + (e1 - (base + align o (gcsAlignof t))) := by omega
        rw [this, roundUp_add_left hw.1.pos hdv, hr1]
    · obtain ⟨a', e', al', hs', hle', hatt', hlast', hbe', hr'⟩ :=
        layLoop_summ rest pre base (align o (gcsAlignof t) + gcsSizeof t)
          (fun p hp => hbase p (by simp [gcsInfos, hp])) hrest
      rw [hs']
      refine ⟨max (gcsAlignof t) a', e', al', by simp [summOp], ?_, ?_, ?_, hbe', hr'⟩
      · intro p hp
        simp only [gcsInfos, List.mem_cons] at hp
        rcases hp with rfl | hp
        · exact Nat.le_max_left _ _
        · exact Nat.le_trans (hle' p hp) (Nat.le_max_right _ _)
      · rcases Nat.max_eq_or (gcsAlignof t) a' with h | h
        · exact ⟨(gcsSizeof t, gcsAlignof t), by simp [gcsInfos], h.symm⟩
        · obtain ⟨p, hp, hpa⟩ := hatt'
          exact ⟨p, by simp [gcsInfos, hp], by rw [h, hpa]⟩
      · obtain ⟨x, l, hx⟩ := List.exists_cons_of_ne_nil (gcsInfos_ne_nil hrest)
        simp only [gcsInfos, hx, List.getLast?_cons_cons]
        rw [← hx]; exact hlast'
end

end Verif.C19
