import Verif.C19.CombineLayout
/-!
C19 helper lemmas, part 6: the field records of `layout T fs` are exactly the leaves of the
struct as the compiler lays them out (`gcLeavesFields`): same dotted name, same absolute
offset (sum of the compiler's field offsets along the path), same alignment, same size —
except that a zero-size field that ends a struct of non-zero size may be shown with size 1.
-/
namespace Verif.C19

/-- a field record shows a leaf. -/
def Matches (r : Rec) (l : Leaf) : Prop :=
  r.pad = false ∧ r.name = l.path ∧ r.start = l.off ∧ r.align = l.align ∧
  (r.size = l.size ∨ (l.size = 0 ∧ r.size = 1)) ∧ r.stop = r.start + r.size

def MatchAll : List Rec → List Leaf → Prop
  | [], [] => True
  | r :: rs, l :: ls => Matches r l ∧ MatchAll rs ls
  | _, _ => False

theorem MatchAll.append {a c : List Rec} {b d : List Leaf} (h1 : MatchAll a b) (h2 : MatchAll c d) :
    MatchAll (a ++ c) (b ++ d) := by
  induction a generalizing b with
  | nil =>
    cases b with
    | nil => simpa using h2
    | cons y b => simp [MatchAll] at h1
  | cons x a ih =>
    cases b with
    | nil => simp [MatchAll] at h1
    | cons y b => exact ⟨h1.1, ih h1.2⟩

theorem MatchAll.concat_inv {a : List Rec} {f : Rec} {ls : List Leaf} (h : MatchAll (a ++ [f]) ls) :
    ∃ ls' y, ls = ls' ++ [y] ∧ MatchAll a ls' ∧ Matches f y := by
  induction a generalizing ls with
  | nil =>
    cases ls with
    | nil => simp [MatchAll] at h
    | cons y ls =>
      cases ls with
      | nil => exact ⟨[], y, rfl, trivial, h.1⟩
      | cons z ls => simp [MatchAll] at h
  | cons x a ih =>
    cases ls with
    | nil => simp [MatchAll] at h
    | cons y ls =>
      obtain ⟨ls', z, rfl, h1, h2⟩ := ih h.2
      exact ⟨y :: ls', z, rfl, ⟨h.1, h1⟩, h2⟩

theorem matchAll_bumpL (tot : Nat) (L : List Rec) (ls : List Leaf) (h : MatchAll (fieldsOf L) ls) :
    MatchAll (fieldsOf (bumpL tot L)) ls := by
  by_cases hL : L = []
  · subst hL; simpa [bumpL] using h
  · obtain ⟨init, f, rfl⟩ := exists_concat_of_ne_nil hL
    rw [bumpL_concat]
    by_cases hc : f.size = 0 ∧ tot ≠ 0
    · simp only [hc, ne_eq, not_false_eq_true, and_self, if_true]
      by_cases hp : f.pad = true
      · rw [fieldsOf_append, fieldsOf_cons_pad _ (by simpa using hp)]
        rw [fieldsOf_append, fieldsOf_cons_pad _ hp] at h
        exact h
      · have hp' : f.pad = false := by simpa using hp
        rw [fieldsOf_append, fieldsOf_cons_field _ (by simpa using hp')]
        rw [fieldsOf_append, fieldsOf_cons_field _ hp'] at h
        obtain ⟨ls', y, rfl, h1, h2⟩ := h.concat_inv
        apply h1.append
        obtain ⟨m1, m2, m3, m4, m5, m6⟩ := h2
        refine ⟨⟨m1, m2, m3, m4, Or.inr ⟨?_, rfl⟩, ?_⟩, trivial⟩
        · rcases m5 with h | h
          · rw [← h]; exact hc.1
          · exact h.1
        · show f.stop + 1 = f.start + 1
          rw [m6, hc.1]
    · simpa only [hc, if_false] using h

theorem matches_leaf (path : List String) (off : Nat) (orig : Ty) :
    MatchAll (fieldsOf [Rec.leaf path off (gcsSizeof orig) (gcsAlignof orig)])
      [⟨path, off, gcSizeof orig, gcAlignof orig⟩] := by
  rw [fieldsOf_cons_field _ (by simp [Rec.leaf])]
  exact ⟨⟨rfl, rfl, rfl, (gcs_eq orig).2, Or.inl (gcs_eq orig).1, rfl⟩, trivial⟩

mutual
theorem layField_leaves : (u : Ty) → (path : List String) → (off : Nat) → (orig : Ty) →
    MatchAll (fieldsOf (layField path off off orig u)) (gcLeavesTy path off orig u)
  | .prim k, path, off, orig => by
    simp only [layField, gcLeavesTy]; exact matches_leaf path off orig
  | .array n e, path, off, orig => by
    simp only [layField, gcLeavesTy]; exact matches_leaf path off orig
  | .named u, path, off, orig => by
    simp only [layField, gcLeavesTy]; exact layField_leaves u path off orig
  | .struct fs, path, off, orig => by
    by_cases hn : fs.isNil = true
    · simp only [layField, gcLeavesTy, hn, if_true]; exact matches_leaf path off orig
    · simp only [layField, gcLeavesTy, hn, Bool.false_eq_true, if_false]
      rw [fieldsOf_layFinish]
      apply matchAll_bumpL
      have := layLoop_leaves fs path off 0
      simpa only [Nat.add_zero] using this
theorem layLoop_leaves : (fs : Fields) → (path : List String) → (base o : Nat) →
    MatchAll (fieldsOf (layLoop path base (base + o) fs (gcsOffsets o (gcsInfos fs))))
      (gcLeavesFields path base o fs)
  | .nil, path, base, o => by simp [layLoop_nil, fieldsOf, gcLeavesFields, MatchAll]
  | .cons nm t rest, path, base, o => by
    have hw := gcs_wf t
    have hge : o ≤ align o (gcsAlignof t) := by rw [align_eq_roundUp]; exact le_roundUp _ hw.1.pos
    rw [layLoop_cons path base o nm t rest hge, fieldsOf_append, fieldsOf_append, fieldsOf_padding_if,
      List.nil_append]
    simp only [gcLeavesFields]
    have h1 := layField_leaves t (path ++ [nm]) (base + align o (gcsAlignof t)) t
    have h2 := layLoop_leaves rest path base (align o (gcsAlignof t) + gcsSizeof t)
    rw [align_eq_roundUp, (gcs_eq t).2] at h1 h2
    rw [(gcs_eq t).1] at h2
    rw [align_eq_roundUp, (gcs_eq t).2, (gcs_eq t).1]
    exact h1.append h2
end

end Verif.C19
