import Verif.C05.Model
/-! Helper lemmas for C05 (not property statements). -/
namespace Verif.C05

/-- `f` is no longer than `c` and equals it at every position selected by the mask. -/
def AgreeOn (m : Nat → Bool) (f c : Bytes) : Prop :=
  f.length ≤ c.length ∧ ∀ i, i < f.length → m i = true → f[i]? = c[i]?

def allMask : Nat → Bool := fun _ => true
/-- everything except the time-stamp field `[154, 174)` of an index entry -/
def tsMask : Nat → Bool := fun i => !(decide (154 ≤ i) && decide (i < 174))

theorem zeros_length (n : Nat) : (zeros n).length = n := by simp [zeros]

theorem pwriteB_length {f ch : Bytes} {off : Nat} (h : off ≤ f.length) :
    (pwriteB f off ch).length = max f.length (off + ch.length) := by
  unfold pwriteB
  split
  · simp_all
  · simp [zeros]; omega

theorem pwriteB_getElem? {f ch : Bytes} {off : Nat} (h : off ≤ f.length) (i : Nat) :
    (pwriteB f off ch)[i]? =
      if i < off then f[i]? else if i < off + ch.length then ch[i - off]? else f[i]? := by
  unfold pwriteB
  split
  · simp_all
  · have hz : zeros (off - f.length) = [] := by simp [zeros]; omega
    rw [hz]
    simp only [List.append_nil, List.append_assoc]
    grind

theorem agreeOn_nil (m : Nat → Bool) (c : Bytes) : AgreeOn m [] c := by
  constructor <;> simp

theorem agreeOn_take {m : Nat → Bool} {f c : Bytes} (h : AgreeOn m f c) (n : Nat) :
    AgreeOn m (f.take n) c := by
  obtain ⟨h1, h2⟩ := h
  constructor
  · simp; omega
  · intro i hi hm
    have : i < f.length := by grind
    rw [← h2 i this hm]; grind

/-- A write at an offset inside the file of bytes that agree with `c` keeps agreement. -/
theorem agreeOn_pwriteB {m : Nat → Bool} {f c ch : Bytes} {off : Nat}
    (h : AgreeOn m f c) (hoff : off ≤ f.length) (hlen : off + ch.length ≤ c.length)
    (hch : ∀ j, j < ch.length → m (off + j) = true → ch[j]? = c[off + j]?) :
    AgreeOn m (pwriteB f off ch) c := by
  obtain ⟨h1, h2⟩ := h
  constructor
  · rw [pwriteB_length hoff]; omega
  · intro i hi hm
    rw [pwriteB_length hoff] at hi
    rw [pwriteB_getElem? hoff]
    by_cases c1 : i < off
    · simp [c1]; exact h2 i (by omega) hm
    · by_cases c2 : i < off + ch.length
      · simp [c1, c2]
        have := hch (i - off) (by omega) (by rw [show off + (i - off) = i by omega]; exact hm)
        rw [this]; congr 1; omega
      · simp [c1, c2]; exact h2 i (by omega) hm

theorem truncB_self (f : Bytes) : truncB f f.length = f := by
  simp [truncB, zeros]

/-- a full-length agreeing file equals the content -/
theorem agreeOn_all_full {f c : Bytes} (h : AgreeOn allMask f c) (hl : c.length ≤ f.length) : f = c := by
  obtain ⟨h1, h2⟩ := h
  apply List.ext_getElem?
  intro i
  by_cases hi : i < f.length
  · exact h2 i hi rfl
  · have : ¬ i < c.length := by omega
    simp [List.getElem?_eq_none_iff.mpr (by omega : f.length ≤ i), List.getElem?_eq_none_iff.mpr (by omega : c.length ≤ i)]

/-! ### codec round trips -/

theorem hexVal_hexDigit (d : Nat) (h : d < 16) : hexVal (hexDigit d) = some d := by
  unfold hexVal hexDigit
  grind

theorem hexEncode_length (l : Bytes) : (hexEncode l).length = 2 * l.length := by
  induction l with
  | nil => rfl
  | cons b bs ih => simp [hexEncode, ih]; omega

theorem hexDecode_hexEncode (l : Bytes) (h : ∀ b ∈ l, b < 256) : hexDecode (hexEncode l) = some l := by
  induction l with
  | nil => rfl
  | cons b bs ih =>
    have hb : b < 256 := h b (by simp)
    have ih' := ih (fun x hx => h x (by simp [hx]))
    simp only [hexEncode, hexDecode]
    rw [hexVal_hexDigit _ (by omega), hexVal_hexDigit _ (by omega), ih']
    simp; omega

/-! decimal -/
def valRev : List Nat → Nat
  | [] => 0
  | d :: ds => d + 10 * valRev ds

theorem decRev_val (f n : Nat) (h : n < 10 ^ (f + 1)) : valRev (decRev f n) = n := by
  induction f generalizing n with
  | zero => simp [decRev, valRev]; omega
  | succ f ih =>
    unfold decRev
    split
    · simp [valRev]
    · simp only [valRev]
      rw [ih (n / 10) (by rw [Nat.pow_succ] at h; omega)]
      omega

theorem decRev_digits (f n : Nat) : ∀ d ∈ decRev f n, d < 10 := by
  induction f generalizing n with
  | zero => simp [decRev]; omega
  | succ f ih =>
    unfold decRev
    split
    · simp; omega
    · intro d hd
      simp at hd
      rcases hd with hd | hd
      · omega
      · exact ih _ d hd

theorem decRev_length (f n k : Nat) (h : n < 10 ^ (k + 1)) : (decRev f n).length ≤ k + 1 := by
  induction f generalizing n k with
  | zero => simp [decRev]
  | succ f ih =>
    unfold decRev
    split
    · simp
    · cases k with
      | zero => simp at h; omega
      | succ k =>
        simp only [List.length_cons]
        have := ih (n / 10) k (by rw [Nat.pow_succ] at h; omega)
        omega

theorem decRev_ne_nil (f n : Nat) : decRev f n ≠ [] := by
  cases f <;> simp [decRev]
  split <;> simp

theorem digitsVal_append (acc : Nat) (a b : Bytes) :
    digitsVal acc (a ++ b) = (digitsVal acc a).bind (fun x => digitsVal x b) := by
  induction a generalizing acc with
  | nil => simp [digitsVal]
  | cons c cs ih =>
    simp only [List.cons_append, digitsVal]
    split
    · exact ih _
    · simp

theorem digitsVal_rev (l : List Nat) (h : ∀ d ∈ l, d < 10) (acc : Nat) :
    digitsVal acc ((l.reverse).map (· + 48)) = some (acc * 10 ^ l.length + valRev l) := by
  induction l generalizing acc with
  | nil => simp [digitsVal, valRev]
  | cons d ds ih =>
    have hd : d < 10 := h d (by simp)
    simp only [List.reverse_cons, List.map_append, digitsVal_append]
    rw [ih (fun x hx => h x (by simp [hx]))]
    simp [digitsVal, valRev]
    constructor
    · omega
    · rw [Nat.pow_succ]; grind

theorem decimal_length (n : Nat) (h : n < 10 ^ 20) : (decimal n).length ≤ 20 := by
  simp [decimal]; exact decRev_length 20 n 19 h

theorem pad20_length (n : Nat) (h : n < 10 ^ 20) : (pad20 n).length = 20 := by
  have := decimal_length n h
  simp [pad20]; omega

theorem skipSpaces_replicate (k : Nat) (l : Bytes) : skipSpaces (List.replicate k 32 ++ l) = skipSpaces l := by
  induction k with
  | zero => simp
  | succ k ih => simp [List.replicate_succ, skipSpaces, ih]

/-- the decimal string starts with a digit -/
theorem decimal_head (n : Nat) : ∃ c cs, decimal n = c :: cs ∧ 48 ≤ c ∧ c ≤ 57 := by
  have hne := decRev_ne_nil 20 n
  have hd := decRev_digits 20 n
  unfold decimal
  generalize decRev 20 n = l at *
  have : l.reverse ≠ [] := by simpa using hne
  match hr : l.reverse with
  | [] => exact absurd hr this
  | c :: cs =>
    refine ⟨c + 48, cs.map (· + 48), by simp, by omega, ?_⟩
    have : c ∈ l := by
      have : c ∈ l.reverse := by rw [hr]; simp
      simpa using this
    have := hd c this
    omega

theorem digitsVal_decimal (n : Nat) (h : n < 10 ^ 21) : digitsVal 0 (decimal n) = some n := by
  unfold decimal
  rw [digitsVal_rev _ (decRev_digits 20 n), decRev_val 20 n h]; simp

theorem parseInt64_decimal (n : Nat) (h : n < 2 ^ 63) : parseInt64 (decimal n) = some (Int.ofNat n) := by
  obtain ⟨c, cs, hc, h1, h2⟩ := decimal_head n
  have hv := digitsVal_decimal n (by omega)
  rw [hc] at hv ⊢
  unfold parseInt64
  split
  · simp at *
  · rename_i heq; simp at heq; omega
  · rename_i heq; simp at heq; omega
  · rw [hv]; simp [h]

theorem parseField_pad20 (n : Nat) (h : n < 2 ^ 63) : parseField (pad20 n) = some n := by
  unfold parseField pad20
  rw [skipSpaces_replicate]
  obtain ⟨c, cs, hc, h1, h2⟩ := decimal_head n
  have : skipSpaces (decimal n) = decimal n := by
    rw [hc]; unfold skipSpaces; split
    · rename_i heq; simp at heq; omega
    · rfl
  rw [this, parseInt64_decimal n h]
  simp

/-! ### layout of the index entry -/

theorem slice_mid (x y z : Bytes) (n k : Nat) (hx : x.length = n) (hy : y.length = k) :
    slice (x ++ y ++ z) n k = y := by
  subst hx hy
  simp [slice, List.append_assoc]

theorem getElem?_mid (x : Bytes) (y : Nat) (z : Bytes) (n : Nat) (hx : x.length = n) :
    (x ++ y :: z)[n]? = some y := by
  subst hx; simp

theorem slice_getElem? (e : Bytes) (off len j : Nat) :
    (slice e off len)[j]? = if j < len then e[off + j]? else none := by
  unfold slice; grind

theorem slice_congr {f c : Bytes} {off len : Nat}
    (h : ∀ i, off ≤ i → i < off + len → f[i]? = c[i]?) : slice f off len = slice c off len := by
  apply List.ext_getElem?
  intro j
  rw [slice_getElem?, slice_getElem?]
  split
  · exact h _ (by omega) (by omega)
  · rfl

structure EntryWF (id out : Bytes) (size ts : Nat) : Prop where
  idlen : id.length = 32
  outlen : out.length = 32
  size : size < 10 ^ 20
  ts : ts < 10 ^ 20

theorem entry_length {id out : Bytes} {size ts : Nat} (w : EntryWF id out size ts) :
    (entry id out size ts).length = 175 := by
  simp [entry, hexEncode_length, pad20_length _ w.size, pad20_length _ w.ts, w.idlen, w.outlen]

theorem entry_slice_id {id out : Bytes} {size ts : Nat} (w : EntryWF id out size ts) :
    slice (entry id out size ts) 3 64 = hexEncode id := by
  have : entry id out size ts = [118, 49, 32] ++ hexEncode id ++
      ([32] ++ hexEncode out ++ [32] ++ pad20 size ++ [32] ++ pad20 ts ++ [10]) := by simp [entry]
  rw [this]; exact slice_mid _ _ _ _ _ rfl (by simp [hexEncode_length, w.idlen])

theorem entry_slice_out {id out : Bytes} {size ts : Nat} (w : EntryWF id out size ts) :
    slice (entry id out size ts) 68 64 = hexEncode out := by
  have : entry id out size ts = ([118, 49, 32] ++ hexEncode id ++ [32]) ++ hexEncode out ++
      ([32] ++ pad20 size ++ [32] ++ pad20 ts ++ [10]) := by simp [entry]
  rw [this]; exact slice_mid _ _ _ _ _ (by simp [hexEncode_length, w.idlen]) (by simp [hexEncode_length, w.outlen])

theorem entry_slice_size {id out : Bytes} {size ts : Nat} (w : EntryWF id out size ts) :
    slice (entry id out size ts) 133 20 = pad20 size := by
  have : entry id out size ts = ([118, 49, 32] ++ hexEncode id ++ [32] ++ hexEncode out ++ [32]) ++ pad20 size ++
      ([32] ++ pad20 ts ++ [10]) := by simp [entry]
  rw [this]; exact slice_mid _ _ _ _ _ (by simp [hexEncode_length, w.idlen, w.outlen]) (pad20_length _ w.size)

theorem entry_slice_ts {id out : Bytes} {size ts : Nat} (w : EntryWF id out size ts) :
    slice (entry id out size ts) 154 20 = pad20 ts := by
  have : entry id out size ts = ([118, 49, 32] ++ hexEncode id ++ [32] ++ hexEncode out ++ [32] ++ pad20 size ++ [32]) ++ pad20 ts ++
      [10] := by simp [entry]
  rw [this]; exact slice_mid _ _ _ _ _ (by simp [hexEncode_length, w.idlen, w.outlen, pad20_length _ w.size]) (pad20_length _ w.ts)

theorem entry_header {id out : Bytes} {size ts : Nat} (w : EntryWF id out size ts) :
    let e := entry id out size ts
    e[0]? = some 118 ∧ e[1]? = some 49 ∧ e[2]? = some 32 ∧ e[67]? = some 32 ∧
    e[132]? = some 32 ∧ e[153]? = some 32 ∧ e[174]? = some 10 := by
  intro e
  refine ⟨by simp [e, entry], by simp [e, entry], by simp [e, entry], ?_, ?_, ?_, ?_⟩
  · have : e = ([118, 49, 32] ++ hexEncode id) ++ 32 :: (hexEncode out ++ [32] ++ pad20 size ++ [32] ++ pad20 ts ++ [10]) := by simp [e, entry]
    rw [this]; exact getElem?_mid _ _ _ _ (by simp [hexEncode_length, w.idlen])
  · have : e = ([118, 49, 32] ++ hexEncode id ++ [32] ++ hexEncode out) ++ 32 :: (pad20 size ++ [32] ++ pad20 ts ++ [10]) := by simp [e, entry]
    rw [this]; exact getElem?_mid _ _ _ _ (by simp [hexEncode_length, w.idlen, w.outlen])
  · have : e = ([118, 49, 32] ++ hexEncode id ++ [32] ++ hexEncode out ++ [32] ++ pad20 size) ++ 32 :: (pad20 ts ++ [10]) := by simp [e, entry]
    rw [this]; exact getElem?_mid _ _ _ _ (by simp [hexEncode_length, w.idlen, w.outlen, pad20_length _ w.size])
  · have : e = ([118, 49, 32] ++ hexEncode id ++ [32] ++ hexEncode out ++ [32] ++ pad20 size ++ [32] ++ pad20 ts) ++ 10 :: [] := by simp [e, entry]
    rw [this]; exact getElem?_mid _ _ _ _ (by simp [hexEncode_length, w.idlen, w.outlen, pad20_length _ w.size, pad20_length _ w.ts])

/-- soundness of the parse: whatever the time-stamp bytes are, a successful parse of a
175-byte file whose output-id and size fields are canonical yields exactly them. -/
theorem parseEntry_sound {id f out o : Bytes} {size sz : Nat}
    (hout : slice f 68 64 = hexEncode out) (hsize : slice f 133 20 = pad20 size)
    (wout : ∀ b ∈ out, b < 256) (hs : size < 2 ^ 63)
    (h : parseEntry id f = some (o, sz)) : o = out ∧ sz = size := by
  unfold parseEntry at h
  rw [hout, hsize, hexDecode_hexEncode out wout, parseField_pad20 size hs] at h
  grind

theorem parseEntry_entry {id out : Bytes} {size ts : Nat} (w : EntryWF id out size ts)
    (wid : ∀ b ∈ id, b < 256) (wout : ∀ b ∈ out, b < 256) (hs : size < 2 ^ 63) (ht : ts < 2 ^ 63) :
    parseEntry id (entry id out size ts) = some (out, size) := by
  unfold parseEntry
  obtain ⟨h0, h1, h2, h3, h4, h5, h6⟩ := entry_header w
  rw [entry_length w, entry_slice_id w, entry_slice_out w, entry_slice_size w, entry_slice_ts w,
    hexDecode_hexEncode id wid, hexDecode_hexEncode out wout, parseField_pad20 size hs, parseField_pad20 ts ht]
  simp [entrySize, h0, h1, h2, h3, h4, h5, h6]

theorem entry_agree_ts {id out : Bytes} {size ts : Nat} (w : EntryWF id out size ts) (j : Nat)
    (hm : tsMask j = true) : (entry id out size ts)[j]? = (entry id out size 0)[j]? := by
  have w0 : EntryWF id out size 0 := ⟨w.idlen, w.outlen, w.size, by decide⟩
  have e1 : entry id out size ts = ([118, 49, 32] ++ hexEncode id ++ [32] ++ hexEncode out ++ [32] ++ pad20 size ++ [32]) ++ (pad20 ts ++ [10]) := by simp [entry]
  have e0 : entry id out size 0 = ([118, 49, 32] ++ hexEncode id ++ [32] ++ hexEncode out ++ [32] ++ pad20 size ++ [32]) ++ (pad20 0 ++ [10]) := by simp [entry]
  rw [e1, e0]
  generalize hp : ([118, 49, 32] ++ hexEncode id ++ [32] ++ hexEncode out ++ [32] ++ pad20 size ++ [32]) = pre
  have hl : pre.length = 154 := by
    subst hp; simp [hexEncode_length, w.idlen, w.outlen, pad20_length _ w.size]
  have l1 := pad20_length _ w.ts
  have l0 := pad20_length 0 (by decide)
  simp [tsMask] at hm
  by_cases hj : j < 154
  · simp [List.getElem?_append, hl, hj]
  · have : 174 ≤ j := by omega
    simp [List.getElem?_append, hl, hj, l1, l0]
    have h1 : ¬ (j - 154 < 20) := by omega
    simp [h1]

theorem pwriteB_length_ge (f ch : Bytes) (off : Nat) : f.length ≤ (pwriteB f off ch).length := by
  unfold pwriteB; split
  · simp
  · simp [zeros]; omega

@[simp] theorem FS.set_apply (fs : FS) (n m : Name) (v : Option Bytes) :
    (fs.set n v) m = if m = n then v else fs m := rfl


end Verif.C05
