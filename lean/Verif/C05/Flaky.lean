import Verif.C05.Repair
/-!
The hash re-check before the last byte (mechanism "last byte written only after the hash
of the copied bytes was verified").

`Put` reads its source twice.  If the caller breaks the contract and the second pass
yields other bytes `data2` (same length, other hash), the model's `nextOpF` copies `data2`
and — like `copyFile` — compares the hash of what it copied with the output id before
writing the last byte; on a mismatch it truncates the file to 0 and fails.

`flaky_source_never_full`: starting from a directory whose data file for the output id
is not already of full size, at no moment of such a `Put` does a data file of the full
size exist (so `GetFile`'s size check never accepts it), the index file of the action id
is never touched, and the writer never reaches the index write.
-/
namespace Verif.C05
variable {H : Bytes → Bytes}

/-- what holds at each program counter of a `Put` whose source changed -/
def flakySt (H : Bytes → Bytes) (fs : FS) (data : Bytes) : PC → Prop
  | .statD => ∀ f, fs (.D (H data)) = some f → f.length ≠ data.length
  | .openD t => ∀ f, fs (.D (H data)) = some f → f.length ≠ data.length ∧ (data.length < f.length → t = true)
  | .writeD off => 1 ≤ data.length ∧ off ≤ data.length - 1 ∧
      ∃ f, fs (.D (H data)) = some f ∧ off ≤ f.length ∧ f.length ≤ data.length - 1
  | .lastD => 1 ≤ data.length ∧ ∃ f, fs (.D (H data)) = some f ∧ f.length ≤ data.length - 1
  | .dead => ∀ f, fs (.D (H data)) = some f → f.length ≠ data.length
  | _ => False

structure FlakyOK (H : Bytes → Bytes) (a0 : Option Bytes) (x : FS × Proc) : Prop where
  live : x.2.orph = false
  idx : x.1 (.A x.2.id) = a0
  st : flakySt H x.1 x.2.data x.2.pc

theorem flakyOK_step (cs : Nat) (data2 : Bytes) (a0 : Option Bytes) (x : FS × Proc)
    (hne : H data2 ≠ H x.2.data) (hl2 : data2.length = x.2.data.length)
    (ok : FlakyOK H a0 x) : FlakyOK H a0 (soloStepF H cs data2 x) := by
  obtain ⟨fs, ⟨id, data, ts, pc, orph⟩⟩ := x
  obtain ⟨live, idx, st⟩ := ok
  simp only at live idx st hne hl2
  subst live
  have hAD : (Name.A id) ≠ (Name.D (H data)) := by simp
  have h1 : 1 ≤ data.length := by
    cases hd : data with
    | nil =>
      exfalso; apply hne
      have : data2 = [] := List.eq_nil_of_length_eq_zero (by rw [hl2, hd]; rfl)
      rw [this, hd]
    | cons a l => simp
  cases pc with
  | statD =>
    simp only [flakySt] at st
    cases hf : fs (.D (H data)) with
    | none =>
      refine ⟨by simp [soloStepF, nextOpF, nextOp, hf, applyOp], by simpa [soloStepF, nextOpF, nextOp, hf, applyOp] using idx, ?_⟩
      simp only [soloStepF, nextOpF, nextOp, hf, applyOp, flakySt]
      intro f hf'; simp at hf'
    | some f =>
      have hl : f.length ≠ data.length := st f hf
      refine ⟨by simp [soloStepF, nextOpF, nextOp, hf, hl, applyOp], by simpa [soloStepF, nextOpF, nextOp, hf, hl, applyOp] using idx, ?_⟩
      simp only [soloStepF, nextOpF, nextOp, hf, hl, applyOp, if_false, flakySt]
      intro f' hf'; cases hf'
      exact ⟨hl, fun hlt => by simpa using hlt⟩
  | hashcmp => exact absurd st (by simp [flakySt])
  | openD t =>
    simp only [flakySt] at st
    have hat := openCreate_at fs (.D (H data)) t
    obtain ⟨g, hg⟩ := openCreate_exists fs (.D (H data)) t
    have hgl : g.length ≤ data.length - 1 := by
      rw [hat] at hg
      cases hf : fs (.D (H data)) with
      | none => simp [hf] at hg; subst hg; simp
      | some f =>
        simp only [hf] at hg
        obtain ⟨hn, ht⟩ := st f hf
        cases t with
        | true => simp at hg; subst hg; simp
        | false =>
          simp at hg; subst hg
          by_cases hlt : data.length < f.length
          · have := ht hlt; cases this
          · omega
    have h0 : data.length ≠ 0 := by omega
    have hidx : openCreate fs (.D (H data)) t (.A id) = a0 := by
      rw [openCreate_other _ _ _ _ hAD]; exact idx
    by_cases h1' : data.length - 1 = 0
    · refine ⟨by simp [soloStepF, nextOpF, nextOp, h0, h1', applyOp], by simpa [soloStepF, nextOpF, nextOp, h0, h1', applyOp] using hidx, ?_⟩
      simp only [soloStepF, nextOpF, nextOp, h0, h1', applyOp, if_true, if_false, flakySt]
      exact ⟨h1, g, hg, by omega⟩
    · refine ⟨by simp [soloStepF, nextOpF, nextOp, h0, h1', applyOp], by simpa [soloStepF, nextOpF, nextOp, h0, h1', applyOp] using hidx, ?_⟩
      simp only [soloStepF, nextOpF, nextOp, h0, h1', applyOp, if_false, flakySt]
      exact ⟨h1, by omega, g, hg, by omega, hgl⟩
  | writeD off =>
    simp only [flakySt] at st
    obtain ⟨_, hoff, f, hf, hofl, hfl⟩ := st
    have hchlen : ((data2.drop off).take (min cs (data.length - 1 - off))).length
        = min cs (data.length - 1 - off) := by simp; omega
    have hat := pwrite_at hf off ((data2.drop off).take (min cs (data.length - 1 - off)))
    have hl := pwriteB_length (ch := (data2.drop off).take (min cs (data.length - 1 - off))) hofl
    rw [hchlen] at hl
    have hidx : pwrite fs (.D (H data)) off ((data2.drop off).take (min cs (data.length - 1 - off))) (.A id) = a0 := by
      rw [pwrite_other _ _ _ _ _ hAD]; exact idx
    by_cases hc : off + min cs (data.length - 1 - off) ≥ data.length - 1
    · refine ⟨by simp [soloStepF, nextOpF, hc, applyOp], by simpa [soloStepF, nextOpF, hc, applyOp] using hidx, ?_⟩
      simp only [soloStepF, nextOpF, hc, applyOp, if_true, flakySt, Bool.false_eq_true, if_false]
      exact ⟨h1, _, hat, by rw [hl]; omega⟩
    · refine ⟨by simp [soloStepF, nextOpF, hc, applyOp], by simpa [soloStepF, nextOpF, hc, applyOp] using hidx, ?_⟩
      simp only [soloStepF, nextOpF, hc, applyOp, if_false, flakySt, Bool.false_eq_true]
      exact ⟨h1, by omega, _, hat, by rw [hl]; omega, by rw [hl]; omega⟩
  | lastD =>
    simp only [flakySt] at st
    obtain ⟨_, f, hf, hfl⟩ := st
    have hidx : ftruncate fs (.D (H data)) 0 (.A id) = a0 := by
      rw [ftruncate_other _ _ _ _ hAD]; exact idx
    refine ⟨by simp [soloStepF, nextOpF, hne, applyOp], by simpa [soloStepF, nextOpF, hne, applyOp] using hidx, ?_⟩
    simp only [soloStepF, nextOpF, hne, applyOp, if_false, flakySt, Bool.false_eq_true]
    intro f' hf'
    rw [ftruncate_at hf] at hf'
    cases hf'
    simp [truncB, zeros]; omega
  | idxOpen => exact absurd st (by simp [flakySt])
  | idxWrite => exact absurd st (by simp [flakySt])
  | idxTrunc => exact absurd st (by simp [flakySt])
  | done => exact absurd st (by simp [flakySt])
  | dead =>
    refine ⟨by simp [soloStepF, nextOpF, nextOp, applyOp], by simpa [soloStepF, nextOpF, nextOp, applyOp] using idx, ?_⟩
    simpa [soloStepF, nextOpF, nextOp, applyOp, flakySt] using st

theorem soloStepF_data (cs : Nat) (data2 : Bytes) (x : FS × Proc) :
    (soloStepF H cs data2 x).2.id = x.2.id ∧ (soloStepF H cs data2 x).2.data = x.2.data := by
  simp [soloStepF]

theorem flakyOK_run (cs : Nat) (data2 : Bytes) (a0 : Option Bytes) (n : Nat) (x : FS × Proc)
    (hne : H data2 ≠ H x.2.data) (hl2 : data2.length = x.2.data.length)
    (ok : FlakyOK H a0 x) :
    FlakyOK H a0 (soloRunF H cs data2 n x) ∧ (soloRunF H cs data2 n x).2.id = x.2.id ∧
      (soloRunF H cs data2 n x).2.data = x.2.data := by
  induction n generalizing x with
  | zero => exact ⟨ok, rfl, rfl⟩
  | succ n ih =>
    obtain ⟨e1, e2⟩ := soloStepF_data (H := H) cs data2 x
    obtain ⟨h1, h2, h3⟩ := ih (soloStepF H cs data2 x) (by rw [e2]; exact hne) (by rw [e2]; exact hl2)
      (flakyOK_step cs data2 a0 x hne hl2 ok)
    exact ⟨h1, by rw [← e1]; exact h2, by rw [← e2]; exact h3⟩

theorem flakySt_not_full {fs : FS} {data : Bytes} {pc : PC} (h : flakySt H fs data pc) (h1 : 1 ≤ data.length) :
    (∀ f, fs (.D (H data)) = some f → f.length ≠ data.length) ∧
    pc ≠ .idxOpen ∧ pc ≠ .idxWrite ∧ pc ≠ .idxTrunc ∧ pc ≠ .done := by
  cases pc with
  | statD => exact ⟨h, by simp, by simp, by simp, by simp⟩
  | openD t => exact ⟨fun f hf => (h f hf).1, by simp, by simp, by simp, by simp⟩
  | writeD off =>
    obtain ⟨_, _, f, hf, _, hl⟩ := h
    exact ⟨fun f' hf' => by rw [hf] at hf'; cases hf'; omega, by simp, by simp, by simp, by simp⟩
  | lastD =>
    obtain ⟨_, f, hf, hl⟩ := h
    exact ⟨fun f' hf' => by rw [hf] at hf'; cases hf'; omega, by simp, by simp, by simp, by simp⟩
  | dead => exact ⟨h, by simp, by simp, by simp, by simp⟩
  | hashcmp => exact absurd h (by simp [flakySt])
  | idxOpen => exact absurd h (by simp [flakySt])
  | idxWrite => exact absurd h (by simp [flakySt])
  | idxTrunc => exact absurd h (by simp [flakySt])
  | done => exact absurd h (by simp [flakySt])

/-- **the hash re-check.**  A `Put` whose source yields other bytes on the second pass
(same length, other hash), on a directory whose data file for the output id is not
already of full size: after ANY number of its steps there is no data file of the full
size, the index file of the action id is untouched, and the writer is not at (and never
gets past) the index write. -/
theorem flaky_source_never_full (cs : Nat) (fs : FS) (id data data2 : Bytes) (ts : Nat)
    (hne : H data2 ≠ H data) (hl2 : data2.length = data.length)
    (h0 : ∀ f, fs (.D (H data)) = some f → f.length ≠ data.length) (n : Nat) :
    let x := soloRunF H cs data2 n (fs, { id := id, data := data, ts := ts, pc := .statD, orph := false })
    (∀ f, x.1 (.D (H data)) = some f → f.length ≠ data.length) ∧
    x.1 (.A id) = fs (.A id) ∧
    x.2.pc ≠ .idxOpen ∧ x.2.pc ≠ .idxWrite ∧ x.2.pc ≠ .idxTrunc ∧ x.2.pc ≠ .done := by
  intro x
  have h1 : 1 ≤ data.length := by
    cases hd : data with
    | nil =>
      exfalso; apply hne
      have : data2 = [] := List.eq_nil_of_length_eq_zero (by rw [hl2, hd]; rfl)
      rw [this, hd]
    | cons a l => simp
  obtain ⟨ok, e1, e2⟩ := flakyOK_run (H := H) cs data2 (fs (.A id)) n
    (fs, { id := id, data := data, ts := ts, pc := .statD, orph := false }) hne hl2
    ⟨rfl, rfl, by simpa [flakySt] using h0⟩
  have hst := ok.st
  have hidx := ok.idx
  rw [e1] at hidx
  rw [e2] at hst
  obtain ⟨a, b⟩ := flakySt_not_full hst h1
  exact ⟨a, hidx, b⟩

end Verif.C05
