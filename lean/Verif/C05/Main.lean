import Verif.C05.Driver
def main : IO UInt32 := do
  Verif.Proto.runLines Verif.C05.step
  return 0
