import Verif.C05.Lemmas
/-! The invariant of the cache directory and its preservation by every primitive
file-system operation the protocol performs (helper layer for `Theorems.lean`). -/
namespace Verif.C05

/-- What the world must supply: no second preimage of the hash of a stored content,
output ids are 32 bytes, sizes fit `int64`. `stored id` is THE content every `put` of
action `id` stores (one output per action id, the runner's situation). -/
structure World (H : Bytes → Bytes) (stored : Bytes → Bytes) : Prop where
  nocoll : ∀ id d, H d = H (stored id) → d = stored id
  outlen : ∀ id, (H (stored id)).length = 32
  outbytes : ∀ id, ∀ b ∈ H (stored id), b < 256
  sizeok : ∀ id, (stored id).length < 2 ^ 63

/-- the canonical index entry of an action id (time stamp 0; time-stamp bytes are masked) -/
def canon (H stored : Bytes → Bytes) (id : Bytes) : Bytes :=
  entry id (H (stored id)) (stored id).length 0

/-- Invariant of the directory: (I1) every data file named by the hash of a stored
content is a prefix of that content; (I2) every index file is no longer than, and
agrees with, the canonical entry of its action id on every non-time-stamp byte. -/
structure FSInv (H stored : Bytes → Bytes) (fs : FS) : Prop where
  data : ∀ id f, fs (.D (H (stored id))) = some f → AgreeOn allMask f (stored id)
  index : ∀ id f, fs (.A id) = some f → AgreeOn tsMask f (canon H stored id)

variable {H stored : Bytes → Bytes}

theorem wfId_spec {id : Bytes} (h : wfId id = true) : id.length = 32 ∧ ∀ b ∈ id, b < 256 := by
  simp [wfId] at h; exact h

theorem entryWF_of (W : World H stored) {id : Bytes} (hid : wfId id = true) {ts : Nat} (ht : ts < 2 ^ 63) :
    EntryWF id (H (stored id)) (stored id).length ts :=
  ⟨(wfId_spec hid).1, W.outlen id, by have := W.sizeok id; omega, by omega⟩

theorem canon_length (W : World H stored) {id : Bytes} (hid : wfId id = true) :
    (canon H stored id).length = 175 :=
  entry_length (entryWF_of W hid (by decide : 0 < 2 ^ 63))

theorem fsinv_empty : FSInv H stored FS.empty := ⟨by simp [FS.empty], by simp [FS.empty]⟩

theorem fsinv_openCreate (h : FSInv H stored fs) (n : Name) : FSInv H stored (openCreate fs n false) := by
  unfold openCreate
  split
  · constructor
    · intro id f hf
      simp at hf; split at hf
      · cases hf; exact agreeOn_nil _ _
      · exact h.data id f hf
    · intro id f hf
      simp at hf; split at hf
      · cases hf; exact agreeOn_nil _ _
      · exact h.index id f hf
  · simpa using h

theorem fsinv_unlink (h : FSInv H stored fs) (n : Name) : FSInv H stored (unlink fs n) := by
  constructor
  · intro id f hf; simp [unlink] at hf; exact h.data id f hf.2
  · intro id f hf; simp [unlink] at hf; exact h.index id f hf.2

theorem fsinv_take (h : FSInv H stored fs) {n : Name} {f : Bytes} (hn : fs n = some f) (len : Nat) :
    FSInv H stored (fs.set n (some (f.take len))) := by
  constructor
  · intro id g hg
    simp at hg; split at hg
    · rename_i heq; cases hg; rw [← heq] at hn; exact agreeOn_take (h.data id f hn) len
    · exact h.data id g hg
  · intro id g hg
    simp at hg; split at hg
    · rename_i heq; cases hg; rw [← heq] at hn; exact agreeOn_take (h.index id f hn) len
    · exact h.index id g hg

/-- a write into the data file of `stored id` of bytes of `stored id` at their own offset -/
theorem fsinv_pwrite_data (W : World H stored) (h : FSInv H stored fs) (id : Bytes) (off m : Nat)
    (hoff : ∀ f, fs (.D (H (stored id))) = some f → off ≤ f.length) (hsz : off ≤ (stored id).length) :
    FSInv H stored (pwrite fs (.D (H (stored id))) off (((stored id).drop off).take m)) := by
  unfold pwrite
  split
  · exact h
  · rename_i f hf
    constructor
    · intro id' g hg
      simp at hg; split at hg
      · rename_i heq
        cases hg
        have : stored id' = stored id := W.nocoll id (stored id') heq
        rw [this]
        refine agreeOn_pwriteB (h.data id f hf) (hoff f hf) ?_ ?_
        · simp; omega
        · intro j hj _
          simp at hj
          grind
      · exact h.data id' g hg
    · intro id' g hg
      simp at hg
      exact h.index id' g hg

/-- a write at offset 0 into the index file of `id` of a prefix of an entry that differs
from the canonical one only in the time stamp -/
theorem fsinv_pwrite_index (W : World H stored) (h : FSInv H stored fs) {id : Bytes} (hid : wfId id = true)
    {ts : Nat} (ht : ts < 2 ^ 63) (k : Nat) :
    FSInv H stored (pwrite fs (.A id) 0 ((entry id (H (stored id)) (stored id).length ts).take k)) := by
  have w := entryWF_of W hid ht
  unfold pwrite
  split
  · exact h
  · rename_i f hf
    constructor
    · intro id' g hg
      simp at hg
      exact h.data id' g hg
    · intro id' g hg
      simp at hg; split at hg
      · rename_i heq
        cases hg; cases heq
        refine agreeOn_pwriteB (h.index id f hf) (Nat.zero_le _) ?_ ?_
        · rw [canon_length W hid]; simp [entry_length w]; omega
        · intro j hj hm
          simp at hj hm
          have hjk : j < k := by omega
          rw [List.getElem?_take]; simp only [hjk, if_true]
          simpa [canon] using entry_agree_ts w j (by simpa using hm)
      · exact h.index id' g hg

/-! ### processes -/

/-- file length a process relies on for the file it has open -/
def Proc.need (p : Proc) : Nat :=
  match p.pc with
  | .writeD off => off
  | .lastD => p.data.length - 1
  | .idxTrunc => 175
  | _ => 0

def Proc.pcPure (p : Proc) : Prop :=
  match p.pc with
  | .openD t => t = false
  | .writeD off => off ≤ p.data.length - 1
  | _ => True

/-- per-process part of the invariant -/
structure ProcOK (H stored : Bytes → Bytes) (fs : FS) (p : Proc) : Prop where
  det : p.data = stored p.id
  wf : wfId p.id = true
  ts : p.ts < 2 ^ 63
  pure : p.pcPure
  held : ∀ n, p.holds H = some n → p.orph = false → ∃ f, fs n = some f ∧ p.need ≤ f.length

/-- The invariant of the whole system. -/
structure Inv (H stored : Bytes → Bytes) (s : Sys) : Prop where
  fs : FSInv H stored s.fs
  procs : ∀ p ∈ s.procs, ProcOK H stored s.fs p

/-- every file that exists keeps existing and does not shrink -/
def Grows (fs fs' : FS) : Prop := ∀ n f, fs n = some f → ∃ f', fs' n = some f' ∧ f.length ≤ f'.length

theorem grows_refl (fs : FS) : Grows fs fs := fun _ f h => ⟨f, h, Nat.le_refl _⟩

theorem grows_openCreate (fs : FS) (n : Name) : Grows fs (openCreate fs n false) := by
  intro m f hm
  cases hn : fs n with
  | none =>
    refine ⟨f, ?_, Nat.le_refl _⟩
    simp only [openCreate, hn, FS.set_apply]
    split
    · rename_i h; subst h; simp_all
    · exact hm
  | some g => exact ⟨f, by simp [openCreate, hn, hm], Nat.le_refl _⟩

theorem grows_pwrite (fs : FS) (n : Name) (off : Nat) (ch : Bytes) : Grows fs (pwrite fs n off ch) := by
  intro m f hm
  cases hn : fs n with
  | none => exact ⟨f, by simp [pwrite, hn, hm], Nat.le_refl _⟩
  | some g =>
    by_cases h : m = n
    · subst h; rw [hm] at hn; cases hn
      exact ⟨pwriteB f off ch, by simp [pwrite, hm], pwriteB_length_ge _ _ _⟩
    · exact ⟨f, by simp [pwrite, hn, h, hm], Nat.le_refl _⟩

theorem procOK_grows {fs fs' : FS} {p : Proc} (h : ProcOK H stored fs p) (g : Grows fs fs') :
    ProcOK H stored fs' p := by
  refine ⟨h.det, h.wf, h.ts, h.pure, ?_⟩
  intro n hn ho
  obtain ⟨f, hf, hl⟩ := h.held n hn ho
  obtain ⟨f', hf', hl'⟩ := g n f hf
  exact ⟨f', hf', by omega⟩


theorem openCreate_exists (fs : FS) (n : Name) (t : Bool) : ∃ f, openCreate fs n t n = some f := by
  unfold openCreate
  cases h : fs n with
  | none => simp
  | some g => cases t <;> simp [h]

theorem pwrite_at {fs : FS} {n : Name} {f : Bytes} (hf : fs n = some f) (off : Nat) (ch : Bytes) :
    pwrite fs n off ch n = some (pwriteB f off ch) := by simp [pwrite, hf]

theorem set_same {fs : FS} {n : Name} {f : Bytes} (hf : fs n = some f) : fs.set n (some f) = fs := by
  funext m; simp; intro h; subst h; exact hf.symm

theorem step_core (W : World H stored) (cs : Nat) {fs : FS} {p : Proc}
    (hfs : FSInv H stored fs) (ok : ProcOK H stored fs p) :
    FSInv H stored (applyOp fs p.orph (nextOp H cs fs p).1).1 ∧
    Grows fs (applyOp fs p.orph (nextOp H cs fs p).1).1 ∧
    ProcOK H stored (applyOp fs p.orph (nextOp H cs fs p).1).1
      { p with pc := (nextOp H cs fs p).2, orph := (applyOp fs p.orph (nextOp H cs fs p).1).2 } := by
  obtain ⟨id, data, ts, pc, orph⟩ := p
  obtain ⟨det, wf, hts, pure, held⟩ := ok
  simp only at det wf hts
  subst det
  cases pc with
  | statD =>
    cases hf : fs (.D (H (stored id))) with
    | none =>
      simp only [nextOp, hf, applyOp]
      exact ⟨hfs, grows_refl fs, rfl, wf, hts, rfl, by simp [Proc.holds]⟩
    | some f =>
      have := (hfs.data id f hf).1
      by_cases hl : f.length = (stored id).length
      · simp only [nextOp, hf, hl, applyOp, if_true]
        exact ⟨hfs, grows_refl fs, rfl, wf, hts, trivial, by simp [Proc.holds]⟩
      · simp only [nextOp, hf, hl, applyOp, if_false]
        exact ⟨hfs, grows_refl fs, rfl, wf, hts, by simp [Proc.pcPure]; omega, by simp [Proc.holds]⟩
  | hashcmp =>
    cases hf : fs (.D (H (stored id))) with
    | none =>
      simp only [nextOp, hf, applyOp]
      exact ⟨hfs, grows_refl fs, rfl, wf, hts, rfl, by simp [Proc.holds]⟩
    | some f =>
      by_cases hl : H f = H (stored id)
      · simp only [nextOp, hf, hl, applyOp, if_true]
        exact ⟨hfs, grows_refl fs, rfl, wf, hts, trivial, by simp [Proc.holds]⟩
      · simp only [nextOp, hf, hl, applyOp, if_false]
        exact ⟨hfs, grows_refl fs, rfl, wf, hts, rfl, by simp [Proc.holds]⟩
  | openD t =>
    have ht : t = false := pure
    subst ht
    obtain ⟨g, hg⟩ := openCreate_exists fs (.D (H (stored id))) false
    by_cases h0 : (stored id).length = 0
    · simp only [nextOp, h0, applyOp, if_true]
      exact ⟨fsinv_openCreate hfs _, grows_openCreate fs _, rfl, wf, hts, trivial, by simp [Proc.holds]⟩
    · by_cases h1 : (stored id).length - 1 = 0
      · simp only [nextOp, h0, h1, applyOp, if_true, if_false]
        refine ⟨fsinv_openCreate hfs _, grows_openCreate fs _, rfl, wf, hts, trivial, ?_⟩
        intro n hn _
        simp [Proc.holds] at hn; subst hn
        exact ⟨g, hg, by simp [Proc.need]; omega⟩
      · simp only [nextOp, h0, h1, applyOp, if_false]
        refine ⟨fsinv_openCreate hfs _, grows_openCreate fs _, rfl, wf, hts, by simp [Proc.pcPure], ?_⟩
        intro n hn _
        simp [Proc.holds] at hn; subst hn
        exact ⟨g, hg, by simp [Proc.need]⟩
  | writeD off =>
    have hp : off ≤ (stored id).length - 1 := pure
    have hchlen : (((stored id).drop off).take (min cs ((stored id).length - 1 - off))).length
        = min cs ((stored id).length - 1 - off) := by simp; omega
    cases orph with
    | true =>
      by_cases hc : off + min cs ((stored id).length - 1 - off) ≥ (stored id).length - 1
      · simp only [nextOp, hc, applyOp, if_true]
        exact ⟨hfs, grows_refl fs, rfl, wf, hts, trivial, by simp⟩
      · simp only [nextOp, hc, applyOp, if_false]
        exact ⟨hfs, grows_refl fs, rfl, wf, hts, by simp [Proc.pcPure]; omega, by simp⟩
    | false =>
      obtain ⟨f, hf, hlen⟩ := held (.D (H (stored id))) rfl rfl
      simp only [Proc.need] at hlen
      have hfs' := fsinv_pwrite_data W hfs id off (min cs ((stored id).length - 1 - off))
        (fun g hg => by rw [hf] at hg; cases hg; exact hlen) (by omega)
      have hat := pwrite_at hf off (((stored id).drop off).take (min cs ((stored id).length - 1 - off)))
      have hl := pwriteB_length (ch := ((stored id).drop off).take (min cs ((stored id).length - 1 - off))) hlen
      rw [hchlen] at hl
      by_cases hc : off + min cs ((stored id).length - 1 - off) ≥ (stored id).length - 1
      · simp only [nextOp, hc, applyOp, if_true]
        refine ⟨hfs', grows_pwrite _ _ _ _, rfl, wf, hts, trivial, ?_⟩
        intro n hn _
        simp [Proc.holds] at hn; subst hn
        exact ⟨_, hat, by simp only [Proc.need]; omega⟩
      · simp only [nextOp, hc, applyOp, if_false]
        refine ⟨hfs', grows_pwrite _ _ _ _, rfl, wf, hts, by simp [Proc.pcPure]; omega, ?_⟩
        intro n hn _
        simp [Proc.holds] at hn; subst hn
        exact ⟨_, hat, by simp only [Proc.need]; omega⟩
  | lastD =>
    have hch : (stored id).drop ((stored id).length - 1)
        = ((stored id).drop ((stored id).length - 1)).take (stored id).length := by
      rw [List.take_of_length_le]; simp
    cases orph with
    | true =>
      simp only [nextOp, applyOp, if_true]
      exact ⟨hfs, grows_refl fs, rfl, wf, hts, trivial, by simp⟩
    | false =>
      obtain ⟨f, hf, hlen⟩ := held (.D (H (stored id))) rfl rfl
      simp only [Proc.need] at hlen
      have hfs' := fsinv_pwrite_data W hfs id ((stored id).length - 1) (stored id).length
        (fun g hg => by rw [hf] at hg; cases hg; exact hlen) (by omega)
      rw [← hch] at hfs'
      simp only [nextOp, applyOp]
      exact ⟨hfs', grows_pwrite _ _ _ _, rfl, wf, hts, trivial, by simp [Proc.holds]⟩
  | idxOpen =>
    obtain ⟨g, hg⟩ := openCreate_exists fs (.A id) false
    simp only [nextOp, applyOp]
    refine ⟨fsinv_openCreate hfs _, grows_openCreate fs _, rfl, wf, hts, trivial, ?_⟩
    intro n hn _
    simp [Proc.holds] at hn; subst hn
    exact ⟨g, hg, by simp [Proc.need]⟩
  | idxWrite =>
    have w := entryWF_of W wf hts
    have hfs' := fsinv_pwrite_index W hfs wf hts 175
    rw [show (entry id (H (stored id)) (stored id).length ts).take 175 = entry id (H (stored id)) (stored id).length ts from by
      rw [List.take_of_length_le]; rw [entry_length w]; omega] at hfs'
    cases orph with
    | true =>
      simp only [nextOp, applyOp, if_true]
      exact ⟨hfs, grows_refl fs, rfl, wf, hts, trivial, by simp⟩
    | false =>
      obtain ⟨f, hf, _⟩ := held (.A id) rfl rfl
      simp only [nextOp, applyOp]
      refine ⟨hfs', grows_pwrite _ _ _ _, rfl, wf, hts, trivial, ?_⟩
      intro n hn _
      simp [Proc.holds] at hn; subst hn
      refine ⟨_, pwrite_at hf 0 _, ?_⟩
      rw [pwriteB_length (Nat.zero_le _), entry_length w]; simp only [Proc.need]; omega
  | idxTrunc =>
    have w := entryWF_of W wf hts
    cases orph with
    | true =>
      simp only [nextOp, applyOp, if_true]
      exact ⟨hfs, grows_refl fs, rfl, wf, hts, trivial, by simp [Proc.holds]⟩
    | false =>
      obtain ⟨f, hf, hlen⟩ := held (.A id) rfl rfl
      simp only [Proc.need] at hlen
      have h2 := (hfs.index id f hf).1
      rw [canon_length W wf] at h2
      have hfl : f.length = 175 := by omega
      have : ftruncate fs (.A id) (entry id (H (stored id)) (stored id).length ts).length = fs := by
        simp only [ftruncate, hf, entry_length w]
        rw [← hfl, truncB_self]; exact set_same hf
      simp only [nextOp, applyOp, this]
      exact ⟨hfs, grows_refl fs, rfl, wf, hts, trivial, by simp [Proc.holds]⟩
  | done =>
    simp only [nextOp, applyOp]
    exact ⟨hfs, grows_refl fs, rfl, wf, hts, trivial, by simp [Proc.holds]⟩
  | dead =>
    simp only [nextOp, applyOp]
    exact ⟨hfs, grows_refl fs, rfl, wf, hts, trivial, by simp [Proc.holds]⟩

/-- the partial write of a dying process -/
theorem crash_core (W : World H stored) (cs k : Nat) {fs : FS} {p : Proc}
    (hfs : FSInv H stored fs) (ok : ProcOK H stored fs p) :
    let fs' := match (nextOp H cs fs p).1 with
      | .write n off ch => if p.orph then fs else pwrite fs n off (ch.take k)
      | _ => fs
    FSInv H stored fs' ∧ Grows fs fs' := by
  obtain ⟨id, data, ts, pc, orph⟩ := p
  obtain ⟨det, wf, hts, pure, held⟩ := ok
  simp only at det wf hts
  subst det
  cases pc with
  | writeD off =>
    have hp : off ≤ (stored id).length - 1 := pure
    cases orph with
    | true => simp only [nextOp]; exact ⟨hfs, grows_refl fs⟩
    | false =>
      obtain ⟨f, hf, hlen⟩ := held (.D (H (stored id))) rfl rfl
      simp only [Proc.need] at hlen
      simp only [nextOp, List.take_take]
      exact ⟨fsinv_pwrite_data W hfs id off _ (fun g hg => by rw [hf] at hg; cases hg; exact hlen) (by omega),
        grows_pwrite _ _ _ _⟩
  | lastD =>
    cases orph with
    | true => simp only [nextOp]; exact ⟨hfs, grows_refl fs⟩
    | false =>
      obtain ⟨f, hf, hlen⟩ := held (.D (H (stored id))) rfl rfl
      simp only [Proc.need] at hlen
      simp only [nextOp]
      exact ⟨fsinv_pwrite_data W hfs id _ _ (fun g hg => by rw [hf] at hg; cases hg; exact hlen) (by omega),
        grows_pwrite _ _ _ _⟩
  | idxWrite =>
    cases orph with
    | true => simp only [nextOp]; exact ⟨hfs, grows_refl fs⟩
    | false =>
      simp only [nextOp]
      exact ⟨fsinv_pwrite_index W hfs wf hts k, grows_pwrite _ _ _ _⟩
  | statD => simp only [nextOp]; exact ⟨hfs, grows_refl fs⟩
  | hashcmp => simp only [nextOp]; exact ⟨hfs, grows_refl fs⟩
  | openD t => simp only [nextOp]; exact ⟨hfs, grows_refl fs⟩
  | idxOpen => simp only [nextOp]; exact ⟨hfs, grows_refl fs⟩
  | idxTrunc => simp only [nextOp]; exact ⟨hfs, grows_refl fs⟩
  | done => simp only [nextOp]; exact ⟨hfs, grows_refl fs⟩
  | dead => simp only [nextOp]; exact ⟨hfs, grows_refl fs⟩

theorem inv_stepProc (W : World H stored) (cs : Nat) {s : Sys} (h : Inv H stored s) (i : Nat) :
    Inv H stored (stepProc H cs s i) := by
  unfold stepProc
  cases hp : s.procs[i]? with
  | none => exact h
  | some p =>
    have hmem : p ∈ s.procs := List.mem_of_getElem? hp
    obtain ⟨h1, h2, h3⟩ := step_core W cs h.fs (h.procs p hmem)
    refine ⟨h1, ?_⟩
    intro q hq
    rcases List.mem_or_eq_of_mem_set hq with hq | hq
    · exact procOK_grows (h.procs q hq) h2
    · subst hq; exact h3

theorem inv_crashProc (W : World H stored) (cs : Nat) {s : Sys} (h : Inv H stored s) (i k : Nat) :
    Inv H stored (crashProc H cs s i k) := by
  unfold crashProc
  cases hp : s.procs[i]? with
  | none => exact h
  | some p =>
    have hmem : p ∈ s.procs := List.mem_of_getElem? hp
    have ok := h.procs p hmem
    obtain ⟨h1, h2⟩ := crash_core W cs k h.fs ok
    refine ⟨h1, ?_⟩
    intro q hq
    rcases List.mem_or_eq_of_mem_set hq with hq | hq
    · exact procOK_grows (h.procs q hq) h2
    · subst hq
      exact ⟨ok.det, ok.wf, ok.ts, trivial, by simp [Proc.holds]⟩


theorem inv_spawn {s : Sys} (h : Inv H stored s) (id : Bytes) (ts : Nat) :
    Inv H stored (stepEv H stored cs s (.spawn id ts)) := by
  simp only [stepEv]
  split
  · rename_i hc
    simp at hc
    refine ⟨h.fs, ?_⟩
    intro q hq
    simp at hq
    rcases hq with hq | hq
    · exact h.procs q hq
    · subst hq
      exact ⟨rfl, hc.1, hc.2, trivial, by simp [Proc.holds]⟩
  · exact h

theorem inv_truncate {s : Sys} (h : Inv H stored s) (n : Name) (len : Nat) :
    Inv H stored (stepEv H stored cs s (.truncate n len)) := by
  simp only [stepEv]
  cases hf : s.fs n with
  | none => exact h
  | some f =>
    simp only []
    split
    · rename_i hc
      simp [atRest] at hc
      refine ⟨fsinv_take h.fs hf len, ?_⟩
      intro q hq
      have ok := h.procs q hq
      refine ⟨ok.det, ok.wf, ok.ts, ok.pure, ?_⟩
      intro m hm ho
      have hne : m ≠ n := by
        intro e; subst e
        have := hc.1 q hq
        simp [hm, ho] at this
      obtain ⟨g, hg, hl⟩ := ok.held m hm ho
      exact ⟨g, by simp [hne, hg], hl⟩
    · exact h

theorem inv_unlink {s : Sys} (h : Inv H stored s) (n : Name) :
    Inv H stored (stepEv H stored cs s (.unlink n)) := by
  simp only [stepEv]
  refine ⟨fsinv_unlink h.fs n, ?_⟩
  intro q hq
  simp at hq
  obtain ⟨q0, hq0, rfl⟩ := hq
  have ok := h.procs q0 hq0
  by_cases hh : q0.holds H = some n
  · simp only [hh, if_true]
    exact ⟨ok.det, ok.wf, ok.ts, ok.pure, by simp⟩
  · simp only [hh, if_false]
    refine ⟨ok.det, ok.wf, ok.ts, ok.pure, ?_⟩
    intro m hm ho
    have hne : m ≠ n := by intro e; subst e; exact hh hm
    obtain ⟨g, hg, hl⟩ := ok.held m hm ho
    exact ⟨g, by simp [unlink, hne, hg], hl⟩


/-! ### progress of an undisturbed writer -/

/-- progress facts of a writer that nobody disturbs -/
structure Prog (H : Bytes → Bytes) (fs : FS) (p : Proc) : Prop where
  live : p.orph = false
  dataFull : p.pc = .idxOpen ∨ p.pc = .idxWrite ∨ p.pc = .idxTrunc ∨ p.pc = .done →
    fs (.D (H p.data)) = some p.data
  idxFull : p.pc = .idxTrunc ∨ p.pc = .done →
    fs (.A p.id) = some (entry p.id (H p.data) p.data.length p.ts)

theorem full_of_grows {fs fs' : FS} (h' : FSInv H stored fs') (g : Grows fs fs') {id : Bytes}
    (hf : fs (.D (H (stored id))) = some (stored id)) : fs' (.D (H (stored id))) = some (stored id) := by
  obtain ⟨f', hf', hl⟩ := g _ _ hf
  rw [hf', agreeOn_all_full (h'.data id f' hf') hl]

theorem pwriteB_zero_cover {f ch : Bytes} (h : f.length ≤ ch.length) : pwriteB f 0 ch = ch := by
  unfold pwriteB
  split
  · simp_all
  · simp [zeros]; omega

theorem prog_core (W : World H stored) (cs : Nat) {fs : FS} {p : Proc}
    (hfs : FSInv H stored fs) (ok : ProcOK H stored fs p) (pr : Prog H fs p) :
    Prog H (applyOp fs p.orph (nextOp H cs fs p).1).1
      { p with pc := (nextOp H cs fs p).2, orph := (applyOp fs p.orph (nextOp H cs fs p).1).2 } := by
  obtain ⟨hfs', hgr, _⟩ := step_core W cs hfs ok
  obtain ⟨id, data, ts, pc, orph⟩ := p
  obtain ⟨det, wf, hts, pure, held⟩ := ok
  obtain ⟨live, dfull, ifull⟩ := pr
  simp only at det wf hts live
  subst det live
  cases pc with
  | statD =>
    cases hf : fs (.D (H (stored id))) with
    | none => simp only [nextOp, hf, applyOp]; exact ⟨rfl, by simp, by simp⟩
    | some f =>
      by_cases hl : f.length = (stored id).length
      · simp only [nextOp, hf, hl, applyOp, if_true]; exact ⟨rfl, by simp, by simp⟩
      · simp only [nextOp, hf, hl, applyOp, if_false]; exact ⟨rfl, by simp, by simp⟩
  | hashcmp =>
    cases hf : fs (.D (H (stored id))) with
    | none => simp only [nextOp, hf, applyOp]; exact ⟨rfl, by simp, by simp⟩
    | some f =>
      by_cases hl : H f = H (stored id)
      · simp only [nextOp, hf, hl, applyOp, if_true]
        exact ⟨rfl, fun _ => by rw [hf, W.nocoll id f hl], by simp⟩
      · simp only [nextOp, hf, hl, applyOp, if_false]; exact ⟨rfl, by simp, by simp⟩
  | openD t =>
    have ht : t = false := pure
    subst ht
    by_cases h0 : (stored id).length = 0
    · simp only [nextOp, h0, applyOp, if_true] at hfs' ⊢
      refine ⟨rfl, fun _ => ?_, by simp⟩
      obtain ⟨g, hg⟩ := openCreate_exists fs (.D (H (stored id))) false
      have := (hfs'.data id g hg).1
      have hgn : g = [] := List.eq_nil_of_length_eq_zero (by omega)
      rw [hg, hgn, List.eq_nil_of_length_eq_zero h0]
    · by_cases h1 : (stored id).length - 1 = 0
      · simp only [nextOp, h0, h1, applyOp, if_true, if_false]; exact ⟨rfl, by simp, by simp⟩
      · simp only [nextOp, h0, h1, applyOp, if_false]; exact ⟨rfl, by simp, by simp⟩
  | writeD off =>
    by_cases hc : off + min cs ((stored id).length - 1 - off) ≥ (stored id).length - 1
    · simp only [nextOp, hc, applyOp, if_true]; exact ⟨rfl, by simp, by simp⟩
    · simp only [nextOp, hc, applyOp, if_false]; exact ⟨rfl, by simp, by simp⟩
  | lastD =>
    obtain ⟨f, hf, hlen⟩ := held (.D (H (stored id))) rfl rfl
    simp only [Proc.need] at hlen
    simp only [nextOp, applyOp] at hfs' ⊢
    refine ⟨rfl, fun _ => ?_, by simp⟩
    have hat := pwrite_at hf ((stored id).length - 1) ((stored id).drop ((stored id).length - 1))
    simp only [Bool.false_eq_true, if_false] at hfs' ⊢
    rw [hat]
    have hl := pwriteB_length (ch := (stored id).drop ((stored id).length - 1)) hlen
    rw [agreeOn_all_full (hfs'.data id _ hat) (by rw [hl]; simp; omega)]
  | idxOpen =>
    simp only [nextOp, applyOp] at hfs' hgr ⊢
    exact ⟨rfl, fun _ => full_of_grows hfs' hgr (dfull (by simp)), by simp⟩
  | idxWrite =>
    have w := entryWF_of W wf hts
    obtain ⟨f, hf, _⟩ := held (.A id) rfl rfl
    have hfl : f.length ≤ 175 := by have := (hfs.index id f hf).1; rwa [canon_length W wf] at this
    simp only [nextOp, applyOp, Bool.false_eq_true, if_false] at hfs' hgr ⊢
    refine ⟨rfl, fun _ => full_of_grows hfs' hgr (dfull (by simp)), fun _ => ?_⟩
    rw [pwrite_at hf, pwriteB_zero_cover (by rw [entry_length w]; exact hfl)]
  | idxTrunc =>
    have w := entryWF_of W wf hts
    have he := ifull (by simp)
    simp only at he
    have : ftruncate fs (.A id) (entry id (H (stored id)) (stored id).length ts).length = fs := by
      simp only [ftruncate, he, truncB_self]; exact set_same he
    simp only [nextOp, applyOp, Bool.false_eq_true, if_false, this]
    exact ⟨rfl, fun _ => dfull (by simp), fun _ => he⟩
  | done =>
    simp only [nextOp, applyOp]
    exact ⟨rfl, fun _ => dfull (by simp), fun _ => ifull (by simp)⟩
  | dead =>
    simp only [nextOp, applyOp]; exact ⟨rfl, by simp, by simp⟩


end Verif.C05
