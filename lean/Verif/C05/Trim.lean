import Verif.C05.Multi
/-!
`Trim`, `used` and modification times (C05, strengthening).

`TSys` (Model.lean) adds to the file-protocol system a clock, the mtimes of the cache
files, `DiskCache.used` (bump the mtime unless it is less than an hour old), and trimmer
processes that execute `Trim`/`trimSubdir` as separate system calls: read `now`, then per
file `os.Stat` (decision: mtime before `now - 5 days - 1 hour`) and later `os.Remove`.

* `stepT_sys`: every `EvT` event acts on the directory as a (possibly empty) list of `EvM`
  events — a trimmer's removal is an `unlink`.  Hence `InvM` and the soundness of lookups
  hold along every run with trimmers (`invT_run`, `lookup_soundT`): whatever `Trim`
  removes, a lookup misses or returns a complete stored content; a removed data file gives
  a miss (`removed_data_misses`).
* `trim_only_old`: a trimmer decides to remove a file only if its mtime is more than
  5 days + 1 hour before the current time.
* `getFile_then_trim_sound`: the window between `GetFile` and the caller's open.  If, when
  `GetFile`'s `used` bump happens, no trimmer has ALREADY decided (stat done, remove
  pending) to remove the data file, then for 5 days no trimmer removes it; if in addition
  no fault hits it, the caller reads a complete stored content.  The remaining schedule —
  a trimmer between its `os.Stat` and its `os.Remove` of that file while `GetFile` runs —
  is exactly `getfile_window_breaks`; the check replays it on the real code
  (finding `getfile-window`).
-/
namespace Verif.C05
variable {H : Bytes → Bytes} {wr : Bytes → Bytes → Prop}

/-- the `EvM` events an `EvT` event performs on the directory -/
def projT (s : TSys) : EvT → List EvM
  | .base e => [e]
  | .trimRemove j =>
    match s.trimmers[j]? with
    | none => []
    | some t =>
      match t.pending with
      | none => []
      | some n => [.unlink n]
  | _ => []

theorem stepT_sys (cs : Nat) (s : TSys) (e : EvT) :
    (stepT H cs s e).sys = runM H cs s.sys (projT s e) := by
  cases e with
  | base e => simp [stepT, projT, runM]
  | tick dt => simp [stepT, projT, runM]
  | used n =>
    simp only [stepT, projT, runM, List.foldl_nil]
    cases s.sys.fs n with
    | none => rfl
    | some f => simp only []; split <;> rfl
  | touch n t => simp [stepT, projT, runM]
  | trimBegin => simp [stepT, projT, runM]
  | trimStat j n =>
    simp only [stepT, projT, runM, List.foldl_nil]
    cases s.trimmers[j]? <;> rfl
  | trimRemove j =>
    simp only [stepT, projT]
    cases s.trimmers[j]? with
    | none => rfl
    | some t =>
      simp only []
      cases t.pending with
      | none => rfl
      | some n => simp [runM]

def EvT.ok (wr : Bytes → Bytes → Prop) : EvT → Prop
  | .base e => e.ok wr
  | _ => True

theorem projT_ok (s : TSys) (e : EvT) (he : e.ok wr) : ∀ e' ∈ projT s e, e'.ok wr := by
  cases e with
  | base e => intro e' h; simp [projT] at h; subst h; exact he
  | trimRemove j =>
    intro e' h
    simp only [projT] at h
    cases hj : s.trimmers[j]? with
    | none => simp [hj] at h
    | some t =>
      simp only [hj] at h
      cases hp : t.pending with
      | none => simp [hp] at h
      | some n => simp [hp] at h; subst h; trivial
  | tick dt => intro e' h; simp [projT] at h
  | used n => intro e' h; simp [projT] at h
  | touch n t => intro e' h; simp [projT] at h
  | trimBegin => intro e' h; simp [projT] at h
  | trimStat j n => intro e' h; simp [projT] at h

theorem invT_step (W : WorldM H wr) (cs : Nat) {s : TSys} (h : InvM H wr s.sys) (e : EvT) (he : e.ok wr) :
    InvM H wr (stepT H cs s e).sys := by
  rw [stepT_sys]
  exact inv_runM W cs h _ (projT_ok s e he)

/-- the invariant of the file protocol holds along every run with clocks, `used` and
trimmers -/
theorem invT_run (W : WorldM H wr) (cs : Nat) {s : TSys} (h : InvM H wr s.sys) (evs : List EvT)
    (hok : ∀ e ∈ evs, e.ok wr) : InvM H wr (runT H cs s evs).sys := by
  induction evs generalizing s with
  | nil => exact h
  | cons e es ih =>
    exact ih (invT_step W cs h e (hok e (by simp))) (fun e' he' => hok e' (by simp [he']))

/-- lookups on a directory satisfying the invariant -/
theorem lookup_sound_state (W : WorldM H wr) {s : Sys} (h : InvM H wr s) {id : Bytes} (hid : wfId id = true) :
    (∀ b, getBytes H s.fs id = some b → wr id b) ∧
    (∀ out, getFile s.fs id = some out → ∃ d, wr id d ∧ out = H d ∧ readFile s.fs out = some d) :=
  lookup_soundM W 1 h [] (by simp) hid

/-- **lookups are sound whatever `Trim` does.** -/
theorem lookup_soundT (W : WorldM H wr) (cs : Nat) {s : TSys} (h : InvM H wr s.sys) (evs : List EvT)
    (hok : ∀ e ∈ evs, e.ok wr) {id : Bytes} (hid : wfId id = true) :
    (∀ b, getBytes H (runT H cs s evs).sys.fs id = some b → wr id b) ∧
    (∀ out, getFile (runT H cs s evs).sys.fs id = some out →
      ∃ d, wr id d ∧ out = H d ∧ readFile (runT H cs s evs).sys.fs out = some d) :=
  lookup_sound_state W (invT_run W cs h evs hok) hid

/-- a removed data file gives a miss: `GetFile` misses, and `GetBytes` can only "hit" with
the empty content when the empty content is what the entry names -/
theorem removed_data_misses {fs : FS} {id out : Bytes} {size : Nat}
    (hg : get fs id = some (out, size)) (hrm : fs (.D out) = none) :
    getFile fs id = none ∧ (∀ b, getBytes H fs id = some b → b = [] ∧ H [] = out) := by
  constructor
  · simp [getFile, hg, stat, hrm]
  · intro b hb
    simp only [getBytes, hg, getBytesRead, hrm, Option.getD_none] at hb
    split at hb
    · rename_i hh; cases hb; exact ⟨rfl, hh⟩
    · cases hb

/-! ### what a trimmer removes -/

/-- every trimmer read its `now` in the past -/
def TimeOK (s : TSys) : Prop := ∀ t ∈ s.trimmers, t.t0 ≤ s.now

theorem timeOK_step (cs : Nat) {s : TSys} (h : TimeOK s) (e : EvT) : TimeOK (stepT H cs s e) := by
  cases e with
  | base e => exact h
  | tick dt => intro t ht; have := h t ht; simp only [stepT]; omega
  | used n =>
    simp only [stepT]
    cases s.sys.fs n with
    | none => exact h
    | some f => simp only []; split <;> exact h
  | touch n t => exact h
  | trimBegin =>
    intro t ht
    simp only [stepT, List.mem_append, List.mem_singleton] at ht
    rcases ht with ht | ht
    · exact h t ht
    · subst ht; exact Nat.le_refl _
  | trimStat j n =>
    simp only [stepT]
    cases hj : s.trimmers[j]? with
    | none => exact h
    | some t0 =>
      intro t ht
      rcases List.mem_or_eq_of_mem_set ht with ht | ht
      · exact h t ht
      · subst ht; exact h t0 (List.mem_of_getElem? hj)
  | trimRemove j =>
    simp only [stepT]
    cases hj : s.trimmers[j]? with
    | none => exact h
    | some t0 =>
      simp only []
      cases hp : t0.pending with
      | none => exact h
      | some n =>
        intro t ht
        rcases List.mem_or_eq_of_mem_set ht with ht | ht
        · exact h t ht
        · subst ht; exact h t0 (List.mem_of_getElem? hj)

/-- **`Trim` removes only old files.** If a trimmer, at its `os.Stat`, decides to remove a
file, the file exists and was last used more than 5 days + 1 hour ago. -/
theorem trim_only_old (cs : Nat) {s : TSys} (h : TimeOK s) (j : Nat) (n : Name) (t' : Trimmer)
    (hj : (stepT H cs s (.trimStat j n)).trimmers[j]? = some t') (hp : t'.pending = some n) :
    (s.sys.fs n).isSome ∧ s.mt n + (trimLimit + mtimeInterval) < s.now := by
  simp only [stepT] at hj
  cases ht : s.trimmers[j]? with
  | none =>
    simp only [ht] at hj
    cases hj
  | some t =>
    simp only [ht] at hj
    have hlt : j < s.trimmers.length := by
      rcases List.getElem?_eq_some_iff.mp ht with ⟨hl, _⟩; exact hl
    rw [List.getElem?_set_self hlt] at hj
    cases hj
    simp only at hp
    have ht0 := h t (List.mem_of_getElem? ht)
    split at hp
    · rename_i hold
      simp at hold
      exact ⟨by simp [hold.1], by omega⟩
    · cases hp

/-! ### the window between `GetFile` and the caller's open -/

theorem now_le_step (cs : Nat) (s : TSys) (e : EvT) : s.now ≤ (stepT H cs s e).now := by
  cases e with
  | base e => exact Nat.le_refl _
  | tick dt => simp only [stepT]; omega
  | used n =>
    simp only [stepT]
    cases s.sys.fs n with
    | none => exact Nat.le_refl _
    | some f => simp only []; split <;> exact Nat.le_refl _
  | touch n t => exact Nat.le_refl _
  | trimBegin => exact Nat.le_refl _
  | trimStat j n =>
    simp only [stepT]
    cases s.trimmers[j]? <;> exact Nat.le_refl _
  | trimRemove j =>
    simp only [stepT]
    cases s.trimmers[j]? with
    | none => exact Nat.le_refl _
    | some t => simp only []; cases t.pending <;> exact Nat.le_refl _

theorem now_le_run (cs : Nat) (s : TSys) (evs : List EvT) : s.now ≤ (runT H cs s evs).now := by
  induction evs generalizing s with
  | nil => exact Nat.le_refl _
  | cons e es ih => exact Nat.le_trans (now_le_step cs s e) (ih (stepT H cs s e))

/-- the event is a fault on file `n`: truncation, removal by the environment, or an mtime
set by the environment (a trimmer's removal is not an environment event) -/
def EvT.faults (e : EvT) (n : Name) : Prop :=
  match e with
  | .base e => e.faults n
  | .touch m _ => m = n
  | _ => False

/-- protection of file `n` until time `B`: no trimmer has a removal of `n` pending, and
the mtime of `n` is too recent for any trimmer that stats it before `B` -/
structure Guard (n : Name) (B : Nat) (s : TSys) : Prop where
  time : TimeOK s
  nopend : ∀ t ∈ s.trimmers, t.pending ≠ some n
  fresh : B < s.mt n + (trimLimit + mtimeInterval)
  clock : B ≤ s.now + trimLimit

theorem setMt_self (mt : Name → Nat) (n : Name) (t : Nat) : setMt mt n t n = t := by simp [setMt]

theorem setMt_other (mt : Name → Nat) {n m : Name} (t : Nat) (h : m ≠ n) : setMt mt n t m = mt m := by
  simp [setMt, h]

theorem guard_step (cs : Nat) {n : Name} {B : Nat} {s : TSys} (g : Guard n B s) (e : EvT)
    (hnf : ¬ e.faults n) (hB : s.now ≤ B) : Guard n B (stepT H cs s e) := by
  obtain ⟨time, nopend, fresh, clock⟩ := g
  have time' := timeOK_step (H := H) cs time e
  have hmt : ∀ m, B < setMt s.mt m s.now n + (trimLimit + mtimeInterval) := by
    intro m
    by_cases hm : n = m
    · subst hm; rw [setMt_self]; simp only [trimLimit, mtimeInterval] at clock ⊢; omega
    · rw [setMt_other _ _ hm]; exact fresh
  cases e with
  | base e =>
    refine ⟨time', nopend, ?_, clock⟩
    simp only [stepT]
    cases evTouches H cs s.sys e with
    | none => exact fresh
    | some m => exact hmt m
  | tick dt =>
    refine ⟨time', nopend, fresh, ?_⟩
    simp only [stepT]; omega
  | used m =>
    simp only [stepT] at time' ⊢
    cases hf : s.sys.fs m with
    | none => simp only [hf] at time' ⊢; exact ⟨time', nopend, fresh, clock⟩
    | some f =>
      simp only [hf] at time' ⊢
      split
      · rename_i hc; simp only [hc, if_true] at time'; exact ⟨time', nopend, fresh, clock⟩
      · rename_i hc; simp only [hc, if_false] at time'; exact ⟨time', nopend, hmt m, clock⟩
  | touch m t =>
    have hm : n ≠ m := fun e => hnf (by simp [EvT.faults, e])
    refine ⟨time', nopend, ?_, clock⟩
    simp only [stepT]
    rw [setMt_other _ _ hm]; exact fresh
  | trimBegin =>
    refine ⟨time', ?_, fresh, clock⟩
    intro t ht
    simp only [stepT, List.mem_append, List.mem_singleton] at ht
    rcases ht with ht | ht
    · exact nopend t ht
    · subst ht; simp
  | trimStat j m =>
    refine ⟨time', ?_, ?_, ?_⟩
    · simp only [stepT]
      cases hj : s.trimmers[j]? with
      | none => exact nopend
      | some t0 =>
        intro t ht
        rcases List.mem_or_eq_of_mem_set ht with ht | ht
        · exact nopend t ht
        · subst ht
          simp only
          have ht0 := time t0 (List.mem_of_getElem? hj)
          split
          · rename_i hold
            simp at hold
            intro heq
            cases heq
            omega
          · simp
    · simp only [stepT]; cases s.trimmers[j]? <;> exact fresh
    · simp only [stepT]; cases s.trimmers[j]? <;> exact clock
  | trimRemove j =>
    simp only [stepT] at time' ⊢
    cases hj : s.trimmers[j]? with
    | none => simp only [hj] at time' ⊢; exact ⟨time', nopend, fresh, clock⟩
    | some t0 =>
      simp only [hj] at time' ⊢
      cases hp : t0.pending with
      | none => simp only [hp] at time' ⊢; exact ⟨time', nopend, fresh, clock⟩
      | some m =>
        simp only [hp] at time' ⊢
        refine ⟨time', ?_, fresh, clock⟩
        intro t ht
        rcases List.mem_or_eq_of_mem_set ht with ht | ht
        · exact nopend t ht
        · subst ht; simp

/-- under the guard no event removes or shortens the complete data file -/
theorem guarded_full_step (W : WorldM H wr) (cs : Nat) {id0 d : Bytes} (hw : wr id0 d) {B : Nat} {s : TSys}
    (h : InvM H wr s.sys) (g : Guard (.D (H d)) B s) (e : EvT) (he : e.ok wr)
    (hnf : ¬ e.faults (.D (H d))) (hfull : s.sys.fs (.D (H d)) = some d) :
    (stepT H cs s e).sys.fs (.D (H d)) = some d := by
  rw [stepT_sys]
  refine full_runM W cs h d hw _ (projT_ok s e he) ?_ hfull
  intro e' he'
  cases e with
  | base e => simp [projT] at he'; subst he'; exact hnf
  | trimRemove j =>
    simp only [projT] at he'
    cases hj : s.trimmers[j]? with
    | none => simp [hj] at he'
    | some t =>
      simp only [hj] at he'
      cases hp : t.pending with
      | none => simp [hp] at he'
      | some n =>
        simp [hp] at he'; subst he'
        simp only [EvM.faults]
        intro heq; subst heq
        exact g.nopend t (List.mem_of_getElem? hj) hp
  | tick dt => simp [projT] at he'
  | used n => simp [projT] at he'
  | touch n t => simp [projT] at he'
  | trimBegin => simp [projT] at he'
  | trimStat j n => simp [projT] at he'

theorem guarded_full_run (W : WorldM H wr) (cs : Nat) {id0 d : Bytes} (hw : wr id0 d) {B : Nat} {s : TSys}
    (h : InvM H wr s.sys) (g : Guard (.D (H d)) B s) (evs : List EvT)
    (hok : ∀ e ∈ evs, e.ok wr) (hnf : ∀ e ∈ evs, ¬ e.faults (.D (H d)))
    (hB : (runT H cs s evs).now ≤ B) (hfull : s.sys.fs (.D (H d)) = some d) :
    (runT H cs s evs).sys.fs (.D (H d)) = some d := by
  induction evs generalizing s with
  | nil => exact hfull
  | cons e es ih =>
    have hnow : s.now ≤ B :=
      Nat.le_trans (now_le_run (H := H) cs s (e :: es)) hB
    exact ih (invT_step W cs h e (hok e (by simp)))
      (guard_step cs g e (hnf e (by simp)) hnow)
      (fun e' he' => hok e' (by simp [he'])) (fun e' he' => hnf e' (by simp [he']))
      hB (guarded_full_step W cs hw h g e (hok e (by simp)) (hnf e (by simp)) hfull)

/-- **the `GetFile` window, positive side.**  `GetFile` hits in state `s` (its
`OutputFile` call performs `used` on the data file); at that moment no trimmer has a
removal of that file pending (every trimmer that will ever stat it does so after the
bump).  Then whatever happens during the next 5 days — writers, crashes, faults on other
files, any number of complete `Trim` runs — as long as no fault hits that file itself, the
caller that opens the returned path reads a complete content stored under the id. -/
theorem getFile_then_trim_sound (W : WorldM H wr) (cs : Nat) {s : TSys} (h : InvM H wr s.sys) (ht : TimeOK s)
    {id out : Bytes} (hid : wfId id = true) (hg : getFile s.sys.fs id = some out)
    (hnp : ∀ t ∈ s.trimmers, t.pending ≠ some (.D out))
    (evs : List EvT) (hok : ∀ e ∈ evs, e.ok wr) (hnf : ∀ e ∈ evs, ¬ e.faults (.D out))
    (hB : (runT H cs (stepT H cs s (.used (.D out))) evs).now ≤ s.now + trimLimit) :
    ∃ d, wr id d ∧ out = H d ∧
      readFile (runT H cs (stepT H cs s (.used (.D out))) evs).sys.fs out = some d := by
  obtain ⟨d, hw, ho, hr⟩ := (lookup_sound_state W h hid).2 out hg
  subst ho
  simp only [readFile] at hr ⊢
  refine ⟨d, hw, rfl, ?_⟩
  have hsys : (stepT H cs s (.used (.D (H d)))).sys = s.sys := by
    rw [stepT_sys]; rfl
  have g : Guard (.D (H d)) (s.now + trimLimit) (stepT H cs s (.used (.D (H d)))) := by
    refine ⟨timeOK_step cs ht _, ?_, ?_, ?_⟩
    · simp only [stepT, hr]; split <;> exact hnp
    · simp only [stepT, hr]
      split
      · rename_i hc; simp only [trimLimit, mtimeInterval] at hc ⊢; omega
      · show s.now + trimLimit < setMt s.mt (Name.D (H d)) s.now (Name.D (H d)) + (trimLimit + mtimeInterval)
        rw [setMt_self]; simp only [trimLimit, mtimeInterval]; omega
    · have := now_le_step (H := H) cs s (.used (.D (H d))); omega
  exact guarded_full_run W cs hw (by rw [hsys]; exact h) g evs hok hnf hB (by rw [hsys]; exact hr)

end Verif.C05
