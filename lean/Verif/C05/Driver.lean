import Verif.Common.Proto
import Verif.C05.Model
/-!
Line-protocol driver of the C05 model.

  sha <hex>                                   sha256 (self test of the driver's hash)
  look <idhex> <files>                        the three lookups on a directory state
  put <cs> <ts> <idhex> <datahex> <files> <nsteps> <k>
        run `put id data` from the given directory state for at most <nsteps> micro
        steps; if <k> is not `-`, the process then dies inside/before its next system
        call after <k> bytes of a write.  Prints the system calls performed, the
        resulting directory and the lookups on it.

  flaky <cs> <ts> <idhex> <datahex> <data2hex> <files> <nsteps> <k>
        like `put`, but the source yields <data2> on the second pass (`nextOpF`).
  hist <cs> <op>;<op>;…
        a history on one directory (several contents per action id, mtimes, `used`, Trim):
        p:<idhex>:<datahex>:<ts>  complete solo `put`        -> put=<pc>:<outfile read>
        t:<name>:<len>  truncate at rest   r:<name>  remove  -> ok
        a:<name>:<age>  set the mtime to now-<age> seconds    -> ok
        l:<idhex>       the three lookups (with their `used` bumps) -> get=… getfile=… getbytes=…
        trim            one complete `Trim` (stat+remove of every file) -> files=<listing>
        results are joined by `|`.

<files> = `-` or `name:hex;name:hex;…`, name = `a<idhex>` / `d<outhex>`, hex `-` = empty.
-/
namespace Verif.C05
open Verif.Proto

/-! ## SHA-256 (executable only; the theorems treat the hash as a parameter) -/

def shaK : Array UInt32 := #[
  0x428a2f98, 0x71374491, 0xb5c0fbcf, 0xe9b5dba5, 0x3956c25b, 0x59f111f1, 0x923f82a4, 0xab1c5ed5,
  0xd807aa98, 0x12835b01, 0x243185be, 0x550c7dc3, 0x72be5d74, 0x80deb1fe, 0x9bdc06a7, 0xc19bf174,
  0xe49b69c1, 0xefbe4786, 0x0fc19dc6, 0x240ca1cc, 0x2de92c6f, 0x4a7484aa, 0x5cb0a9dc, 0x76f988da,
  0x983e5152, 0xa831c66d, 0xb00327c8, 0xbf597fc7, 0xc6e00bf3, 0xd5a79147, 0x06ca6351, 0x14292967,
  0x27b70a85, 0x2e1b2138, 0x4d2c6dfc, 0x53380d13, 0x650a7354, 0x766a0abb, 0x81c2c92e, 0x92722c85,
  0xa2bfe8a1, 0xa81a664b, 0xc24b8b70, 0xc76c51a3, 0xd192e819, 0xd6990624, 0xf40e3585, 0x106aa070,
  0x19a4c116, 0x1e376c08, 0x2748774c, 0x34b0bcb5, 0x391c0cb3, 0x4ed8aa4a, 0x5b9cca4f, 0x682e6ff3,
  0x748f82ee, 0x78a5636f, 0x84c87814, 0x8cc70208, 0x90befffa, 0xa4506ceb, 0xbef9a3f7, 0xc67178f2]

def rotr (x : UInt32) (n : UInt32) : UInt32 := (x >>> n) ||| (x <<< (32 - n))

def sha256 (msg : Bytes) : Bytes := Id.run do
  let len := msg.length
  let mut m : Array UInt8 := (msg.map (fun b => UInt8.ofNat b)).toArray
  m := m.push 0x80
  while m.size % 64 ≠ 56 do
    m := m.push 0
  let bits := len * 8
  for i in [0:8] do
    m := m.push (UInt8.ofNat ((bits >>> (8 * (7 - i))) % 256))
  let mut h : Array UInt32 := #[0x6a09e667, 0xbb67ae85, 0x3c6ef372, 0xa54ff53a, 0x510e527f, 0x9b05688c, 0x1f83d9ab, 0x5be0cd19]
  for blk in [0:m.size / 64] do
    let mut w : Array UInt32 := Array.replicate 64 0
    for t in [0:16] do
      let o := blk * 64 + t * 4
      w := w.set! t ((m[o]!.toUInt32 <<< 24) ||| (m[o+1]!.toUInt32 <<< 16) ||| (m[o+2]!.toUInt32 <<< 8) ||| m[o+3]!.toUInt32)
    for t in [16:64] do
      let x := w[t-15]!
      let y := w[t-2]!
      let s0 := rotr x 7 ^^^ rotr x 18 ^^^ (x >>> 3)
      let s1 := rotr y 17 ^^^ rotr y 19 ^^^ (y >>> 10)
      w := w.set! t (w[t-16]! + s0 + w[t-7]! + s1)
    let mut a := h[0]!
    let mut b := h[1]!
    let mut c := h[2]!
    let mut d := h[3]!
    let mut e := h[4]!
    let mut f := h[5]!
    let mut g := h[6]!
    let mut hh := h[7]!
    for t in [0:64] do
      let s1 := rotr e 6 ^^^ rotr e 11 ^^^ rotr e 25
      let ch := (e &&& f) ^^^ ((~~~ e) &&& g)
      let t1 := hh + s1 + ch + shaK[t]! + w[t]!
      let s0 := rotr a 2 ^^^ rotr a 13 ^^^ rotr a 22
      let mj := (a &&& b) ^^^ (a &&& c) ^^^ (b &&& c)
      let t2 := s0 + mj
      hh := g; g := f; f := e; e := d + t1; d := c; c := b; b := a; a := t1 + t2
    h := #[h[0]! + a, h[1]! + b, h[2]! + c, h[3]! + d, h[4]! + e, h[5]! + f, h[6]! + g, h[7]! + hh]
  let mut out : List Nat := []
  for x in h.toList.reverse do
    out := ((x >>> 24).toNat % 256) :: ((x >>> 16).toNat % 256) :: ((x >>> 8).toNat % 256) :: (x.toNat % 256) :: out
  return out

/-! ## encoding -/

def parseHexBytes (s : String) : Option Bytes :=
  if s = "-" then some [] else (hexDecodeBytes s.toList).map (·.map (·.toNat))

def showHex (b : Bytes) : String :=
  if b = [] then "-" else String.ofList (b.flatMap fun x => [Verif.Proto.hexDigit (x / 16), Verif.Proto.hexDigit (x % 16)])

def parseName (s : String) : Option Name :=
  match s.toList with
  | 'a' :: r => (parseHexBytes (String.ofList r)).map Name.A
  | 'd' :: r => (parseHexBytes (String.ofList r)).map Name.D
  | _ => none

def parseFiles (s : String) : Option (List (Name × Bytes)) :=
  if s = "-" then some [] else
  (s.splitOn ";").mapM fun item =>
    match item.splitOn ":" with
    | [n, c] => do
      let n ← parseName n
      let c ← parseHexBytes c
      pure (n, c)
    | _ => none

def fsOf (l : List (Name × Bytes)) : FS := fun n => (l.find? (·.1 = n)).map (·.2)

def baseName : Name → String
  | .A id => (if id = [] then "" else showHex id) ++ "-a"
  | .D out => (if out = [] then "" else showHex out) ++ "-d"

/-- sha256 with one remembered value (the content being stored), to avoid re-hashing it -/
def memoH (data out : Bytes) : Bytes → Bytes := fun d => if d = data then out else sha256 d

def showDigest (h : Bytes → Bytes) (b : Bytes) : String := s!"{b.length}:{showHex (h b)}"

/-- `name:len:sha256` of every existing file among `names`, in the given order -/
def showFiles (h : Bytes → Bytes) (fs : FS) (names : List Name) : String :=
  let items := names.eraseDups.filterMap fun n => (fs n).map fun c => s!"{baseName n}:{showDigest h c}"
  if items = [] then "-" else ",".intercalate items

def showLook (h : Bytes → Bytes) (fs : FS) (id : Bytes) : String :=
  let g := match get fs id with
    | none => "get=miss"
    | some (out, size) => s!"get=hit:{showHex out}:{size}"
  let gf := match getFile fs id with
    | none => "getfile=miss"
    | some out => match readFile fs out with
      | none => "getfile=openerr"
      | some b => s!"getfile=hit:{showHex (h b)}:{b.length}"
  let gb := match getBytes h fs id with
    | none => "getbytes=miss"
    | some b => s!"getbytes=hit:{showHex (h b)}:{b.length}"
  s!"{g} {gf} {gb}"

def nameTag : Name → String
  | .A _ => "A"
  | .D _ => "D"

def showOp : Op → Option String
  | .nop => none
  | .stat n => some s!"stat:{nameTag n}"
  | .readAll n => some s!"openr:{nameTag n}"
  | .open n t => some s!"open:{nameTag n}:{showBool t}"
  | .write n off ch => some s!"write:{nameTag n}:{off}:{ch.length}"
  | .ftrunc n len => some s!"ftrunc:{nameTag n}:{len}"

/-- run one process for at most `fuel` steps, collecting the system calls -/
def runPut (h : Bytes → Bytes) (cs : Nat) : Nat → Sys → List String → Sys × List String
  | 0, s, acc => (s, acc.reverse)
  | fuel + 1, s, acc =>
    match s.procs[0]? with
    | none => (s, acc.reverse)
    | some p =>
      if p.pc = .done ∨ p.pc = .dead then (s, acc.reverse) else
      let op := (nextOp h cs s.fs p).1
      let acc' := match showOp op with | some t => t :: acc | none => acc
      runPut h cs fuel (stepProc h cs s 0) acc'

def showPC : PC → String
  | .statD => "statD" | .hashcmp => "hashcmp" | .openD t => s!"openD{showBool t}"
  | .writeD off => s!"writeD{off}" | .lastD => "lastD" | .idxOpen => "idxOpen"
  | .idxWrite => "idxWrite" | .idxTrunc => "idxTrunc" | .done => "done" | .dead => "dead"

/-- what the caller of `Put` reads when it opens `OutputFile(out)` (lintcmd/runner) -/
def showOutFile (h : Bytes → Bytes) (fs : FS) (out : Bytes) : String :=
  match readFile fs out with
  | none => "outfile=openerr"
  | some b => s!"outfile=hit:{showHex (h b)}:{b.length}"

def memoH2 (d1 o1 d2 o2 : Bytes) : Bytes → Bytes :=
  fun d => if d = d1 then o1 else if d = d2 then o2 else sha256 d

/-- run the flaky-source put for at most `fuel` steps, collecting the system calls -/
def runPutF (h : Bytes → Bytes) (cs : Nat) (data2 : Bytes) : Nat → FS × Proc → List String → (FS × Proc) × List String
  | 0, x, acc => (x, acc.reverse)
  | fuel + 1, x, acc =>
    if x.2.pc = .done ∨ x.2.pc = .dead then (x, acc.reverse) else
    let op := (nextOpF h cs x.1 x.2 data2).1
    let acc' := match showOp op with | some t => t :: acc | none => acc
    runPutF h cs data2 fuel (soloStepF h cs data2 x) acc'

/-! ### histories (several contents per id, mtimes, `used`, Trim) -/

inductive HOp where
  | put (id data : Bytes) (ts : Nat)
  | trunc (n : Name) (len : Nat)
  | rm (n : Name)
  | age (n : Name) (age : Nat)
  | look (id : Bytes)
  | trim

def parseHOp (s : String) : Option HOp :=
  match s.splitOn ":" with
  | ["p", id, data, ts] => do
    let id ← parseHexBytes id
    let data ← parseHexBytes data
    let ts ← parseNat ts
    pure (.put id data ts)
  | ["t", n, len] => do
    let n ← parseName n
    let len ← parseNat len
    pure (.trunc n len)
  | ["r", n] => (parseName n).map .rm
  | ["a", n, age] => do
    let n ← parseName n
    let age ← parseNat age
    pure (.age n age)
  | ["l", id] => (parseHexBytes id).map .look
  | ["trim"] => some .trim
  | _ => none

/-- sha256 with the contents of the history remembered -/
def memoList (m : List (Bytes × Bytes)) : Bytes → Bytes :=
  fun d => match m.find? (·.1 = d) with
    | some (_, o) => o
    | none => sha256 d

def histNames (ops : List HOp) (h : Bytes → Bytes) : List Name :=
  (ops.flatMap fun
    | .put id data _ => [Name.D (h data), Name.A id]
    | .trunc n _ => [n]
    | .rm n => [n]
    | .age n _ => [n]
    | .look id => [Name.A id]
    | .trim => []).eraseDups

/-- at most `fuel` steps of process `i`, stopping when it is `done` -/
def stepsUntilDone (h : Bytes → Bytes) (cs : Nat) (i : Nat) : Nat → TSys → TSys
  | 0, s => s
  | f + 1, s =>
    match s.sys.procs[i]? with
    | some p => if p.pc = .done ∨ p.pc = .dead then s else stepsUntilDone h cs i f (stepT h cs s (.base (.step i)))
    | none => s

/-- the same state with the function closures of `fs` and `mt` rebuilt from the (finitely many)
names of the history — keeps look-ups cheap; extensionally the identity on those names -/
def flatten (names : List Name) (s : TSys) : TSys :=
  let fl := names.filterMap fun n => (s.sys.fs n).map fun c => (n, c)
  let ml := names.map fun n => (n, s.mt n)
  { s with sys := { s.sys with fs := fsOf fl },
           mt := fun n => match ml.find? (·.1 = n) with | some (_, t) => t | none => 0 }

def runHist (cs : Nat) (ops : List HOp) : String :=
  let memo := (ops.filterMap fun | .put _ data _ => some data | _ => none).eraseDups.map fun d => (d, sha256 d)
  let h := memoList memo
  let names := histNames ops h
  let s0 : TSys := { sys := { fs := FS.empty, procs := [] }, mt := fun _ => 0, now := 2000000000, trimmers := [] }
  let (_, outs) := ops.foldl (init := (s0, ([] : List String))) fun (s, outs) op =>
    let s := flatten names s
    match op with
    | .put id data ts =>
      let i := s.sys.procs.length
      -- `putBound` steps of the new process (further steps of a `done` process change nothing, so the
      -- loop stops there); the caller then takes `OutputFile(out)` (lintcmd/runner.writeCacheReader):
      -- `used` on the data file
      let s1 := stepsUntilDone h cs i (putBound data.length) (stepT h cs s (.base (.spawn id data ts)))
      let s' := stepT h cs s1 (.used (.D (h data)))
      let pc := match s'.sys.procs[i]? with | some p => showPC p.pc | none => "rejected"
      let rd := match readFile s'.sys.fs (h data) with
        | none => "openerr"
        | some b => s!"hit:{showHex (h b)}:{b.length}"
      (s', s!"put={pc}:{rd}" :: outs)
    | .trunc n len => (stepT h cs s (.base (.truncate n len)), "ok" :: outs)
    | .rm n => (stepT h cs s (.base (.unlink n)), "ok" :: outs)
    | .age n age => (stepT h cs s (.touch n (s.now - age)), "ok" :: outs)
    | .look id =>
      let line := showLook h s.sys.fs id
      let s' := match get s.sys.fs id with
        | none => s
        | some (out, _) => runT h cs s [.used (.A id), .used (.D out)]
      (s', line :: outs)
    | .trim =>
      let j := s.trimmers.length
      let evs : List EvT := .trimBegin :: names.flatMap fun n => [.trimStat j n, .trimRemove j]
      let s' := runT h cs s evs
      (s', s!"files={showFiles h s'.sys.fs names}" :: outs)
  "|".intercalate outs.reverse

def step (line : String) : String :=
  match tokens line with
  | ["sha", d] =>
    match parseHexBytes d with
    | some b => showHex (sha256 b)
    | none => "bad-op"
  | ["look", id, files] =>
    match parseHexBytes id, parseFiles files with
    | some id, some fl => showLook sha256 (fsOf fl) id
    | _, _ => "bad-op"
  | ["put", cs, ts, id, data, files, nsteps, k] =>
    match parseNat cs, parseNat ts, parseHexBytes id, parseHexBytes data, parseFiles files, parseNat nsteps with
    | some cs, some ts, some id, some data, some fl, some nsteps =>
      let kk : Option (Option Nat) := if k = "-" then some none else (parseNat k).map some
      match kk with
      | none => "bad-op"
      | some kk =>
        let out := sha256 data
        let h := memoH data out
        let s0 : Sys := { fs := fsOf fl, procs := [{ id := id, data := data, ts := ts, pc := .statD, orph := false }] }
        let (s1, ops) := runPut h cs nsteps s0 []
        let s2 := match kk with
          | none => s1
          | some k => crashProc h cs s1 0 k
        let names := fl.map (·.1) ++ [Name.D out, Name.A id]
        let pc := match s2.procs[0]? with | some p => showPC p.pc | none => "?"
        let opss := if ops = [] then "-" else ",".intercalate ops
        s!"ops={opss} pc={pc} files={showFiles h s2.fs names} {showLook h s2.fs id} {showOutFile h s2.fs out}"
    | _, _, _, _, _, _ => "bad-op"
  | ["flaky", cs, ts, id, data, data2, files, nsteps, k] =>
    match parseNat cs, parseNat ts, parseHexBytes id, parseHexBytes data, parseHexBytes data2, parseFiles files, parseNat nsteps with
    | some cs, some ts, some id, some data, some data2, some fl, some nsteps =>
      let kk : Option (Option Nat) := if k = "-" then some none else (parseNat k).map some
      match kk with
      | none => "bad-op"
      | some kk =>
        if data2.length ≠ data.length then "bad-op" else
        let out := sha256 data
        let h := memoH2 data out data2 (sha256 data2)
        let p0 : Proc := { id := id, data := data, ts := ts, pc := .statD, orph := false }
        let (x1, ops) := runPutF h cs data2 nsteps (fsOf fl, p0) []
        let fs2 := match kk with
          | none => x1.1
          | some k =>
            if x1.2.pc = .done ∨ x1.2.pc = .dead then x1.1 else
            match (nextOpF h cs x1.1 x1.2 data2).1 with
            | .write n off ch => pwrite x1.1 n off (ch.take k)
            | _ => x1.1
        let pc := match kk with | none => showPC x1.2.pc | some _ => "dead"
        let names := fl.map (·.1) ++ [Name.D out, Name.A id]
        let opss := if ops = [] then "-" else ",".intercalate ops
        s!"ops={opss} pc={pc} files={showFiles h fs2 names} {showLook h fs2 id} {showOutFile h fs2 out}"
    | _, _, _, _, _, _, _ => "bad-op"
  | ["hist", cs, ops] =>
    match parseNat cs, (ops.splitOn ";").mapM parseHOp with
    | some cs, some hops => runHist cs hops
    | _, _ => "bad-op"
  | _ => "bad-op"

end Verif.C05
