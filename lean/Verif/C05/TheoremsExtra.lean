import Verif.C05.Theorems
import Verif.C05.Trim
import Verif.C05.Flaky
/-!
C05 — strengthening: non-vacuity witnesses for `put_repairs`, the several-contents
family (`InvM`, `lookup_soundM`, `getFile_read_soundM`), the Trim layer (`lookup_soundT`,
`trim_only_old`, `getFile_then_trim_sound`), `flaky_source_never_full`, and the negative
witness `torn_index_mix_breaks`.
-/
namespace Verif.C05

/-! ### a concrete world with two contents under one action id -/
def c1 : Bytes := [7, 8, 9]
def c2 : Bytes := [4, 5]
def o1 : Bytes := List.replicate 32 1
def o2 : Bytes := List.replicate 32 3
def exHM : Bytes → Bytes := fun d => if d = c1 then o1 else if d = c2 then o2 else List.replicate 32 2
def exWr : Bytes → Bytes → Prop := fun id d => id = exId ∧ (d = c1 ∨ d = c2)

theorem exHM_o1 (f : Bytes) (h : exHM f = o1) : f = c1 := by
  unfold exHM at h
  by_cases h1 : f = c1
  · exact h1
  · rw [if_neg h1] at h
    by_cases h2 : f = c2
    · rw [if_pos h2] at h; exact absurd h (by decide)
    · rw [if_neg h2] at h; exact absurd h (by decide)

theorem exHM_o2 (f : Bytes) (h : exHM f = o2) : f = c2 := by
  unfold exHM at h
  by_cases h1 : f = c1
  · rw [if_pos h1] at h; exact absurd h (by decide)
  · rw [if_neg h1] at h
    by_cases h2 : f = c2
    · exact h2
    · rw [if_neg h2] at h; exact absurd h (by decide)

theorem exWorldM : WorldM exHM exWr := by
  refine ⟨?_, ?_, ?_⟩
  · intro id d d' hw h
    obtain ⟨_, hd | hd⟩ := hw
    · subst hd; exact exHM_o1 d' (by rw [h]; decide)
    · subst hd; exact exHM_o2 d' (by rw [h]; decide)
  · intro d; unfold exHM; split
    · decide
    · split <;> decide
  · intro d b hb
    unfold exHM at hb
    split at hb
    · simp [o1] at hb; omega
    · split at hb
      · simp [o2] at hb; omega
      · simp at hb; omega

/-- writer 0 stores `c1`, writer 1 starts storing `c2` under the SAME id and dies inside its
data write; writer 2 stores `c2` completely; the data file of `c1` is cut at rest -/
def exEvsM : List EvM :=
  [.spawn exId c1 17] ++ List.replicate 8 (.step 0) ++
  [.spawn exId c2 18, .step 1, .step 1, .crash 1 1, .spawn exId c2 19] ++ List.replicate 8 (.step 2) ++
  [.truncate (.D o1) 2]

theorem exEvsM_ok : ∀ e ∈ exEvsM, e.ok exWr := by
  intro e he
  simp only [exEvsM, List.mem_append, List.mem_cons, List.mem_replicate, List.not_mem_nil, or_false] at he
  rcases he with ((((rfl | ⟨_, rfl⟩)) | (rfl | rfl | rfl | rfl | rfl)) | ⟨_, rfl⟩) | rfl <;>
    simp [EvM.ok, exWr]

def exRunM (evs : List EvM) : Sys := runM exHM 1 { fs := FS.empty, procs := [] } evs

/-- the run is not trivial: under ONE id first `c1` then `c2` is served, the cut file misses -/
theorem exRunM_facts :
    getBytes exHM (exRunM (exEvsM.take 9)).fs exId = some c1 ∧
    getBytes exHM (exRunM exEvsM).fs exId = some c2 ∧
    getFile (exRunM exEvsM).fs exId = some o2 ∧
    (exRunM exEvsM).fs (.D o1) = some [7, 8] := by
  decide +kernel

example := lookup_soundM exWorldM 1 inv_initM exEvsM exEvsM_ok (id := exId) (by decide)
example := inv_runM exWorldM 1 (inv_initM (H := exHM) (wr := exWr)) exEvsM exEvsM_ok
example := getFile_read_soundM exWorldM 1 (inv_runM exWorldM 1 inv_initM exEvsM exEvsM_ok) (id := exId) (out := o2)
  (by decide) exRunM_facts.2.2.1 [.spawn exId c1 20, .step 3, .unlink (.A exId)]
  (by intro e he; simp at he; rcases he with rfl | rfl | rfl <;> simp [EvM.ok, exWr])
  (by intro e he; simp at he; rcases he with rfl | rfl | rfl <;> simp [EvM.faults])

/-! ### `put_repairs`: a directory full of garbage -/

/-- data file of the right size with other bytes, index file 200 bytes of garbage -/
def exGarbage : Sys :=
  { fs := (FS.empty.set (.D o1) (some [9, 9, 9])).set (.A exId) (some (List.replicate 200 65)), procs := [] }

theorem exHM_c1 : ∀ f, exHM f = exHM c1 → f = c1 := by
  intro f h
  exact exHM_o1 f (by rw [h]; decide)

example := put_repairs (H := exHM) 1 (by decide) exGarbage exId c1 17 (by decide) (by decide) (by decide)
  (by decide) (by decide) exHM_c1

/-- … and the statement computes: 10 = |c1| + 7 steps from the garbage directory -/
theorem ex_put_repairs :
    let s' := runM exHM 1 (stepEvM exHM 1 exGarbage (.spawn exId c1 17)) (List.replicate (putBound 3) (.step 0))
    getFile s'.fs exId = some o1 ∧ readFile s'.fs o1 = some c1 ∧ getBytes exHM s'.fs exId = some c1 ∧
    getFile exGarbage.fs exId = none := by
  decide +kernel

/-! ### Trim -/

def exT0 : TSys := { sys := { fs := FS.empty, procs := [] }, mt := fun _ => 0, now := 1000000, trimmers := [] }

/-- a complete store; 6 days pass; a complete Trim removes both files; the lookup misses -/
def exTrimEvs : List EvT :=
  [.base (.spawn exId c1 17)] ++ List.replicate 8 (.base (.step 0)) ++
  [.tick 518400, .trimBegin, .trimStat 0 (.D o1), .trimRemove 0, .trimStat 0 (.A exId), .trimRemove 0]

theorem exTrimEvs_ok : ∀ e ∈ exTrimEvs, e.ok exWr := by
  intro e he
  simp only [exTrimEvs, List.mem_append, List.mem_cons, List.mem_replicate, List.not_mem_nil, or_false] at he
  rcases he with ((rfl | ⟨_, rfl⟩)) | (rfl | rfl | rfl | rfl | rfl | rfl) <;> simp [EvT.ok, EvM.ok, exWr]

theorem ex_trim_removes :
    getFile (runT exHM 1 exT0 (exTrimEvs.take 9)).sys.fs exId = some o1 ∧
    (runT exHM 1 exT0 exTrimEvs).sys.fs (.D o1) = none ∧
    (runT exHM 1 exT0 exTrimEvs).sys.fs (.A exId) = none ∧
    getFile (runT exHM 1 exT0 exTrimEvs).sys.fs exId = none := by
  decide +kernel

/-- the same, but the entry is looked up (`used`) one hour before the Trim: everything stays -/
theorem ex_used_protects :
    let evs : List EvT := exTrimEvs.take 9 ++ [.tick 514800, .used (.D o1), .used (.A exId), .tick 3600, .trimBegin,
      .trimStat 0 (.D o1), .trimRemove 0, .trimStat 0 (.A exId), .trimRemove 0]
    getFile (runT exHM 1 exT0 evs).sys.fs exId = some o1 := by
  decide +kernel

example := lookup_soundT exWorldM 1 (s := exT0) inv_initM exTrimEvs exTrimEvs_ok (id := exId) (by decide)
example := invT_run exWorldM 1 (s := exT0) (inv_initM (H := exHM) (wr := exWr)) exTrimEvs exTrimEvs_ok

/-- `trim_only_old` applies to the run above (the trimmer did decide to remove the file) -/
example : (1 : Nat) = 1 := by
  have h : TimeOK (runT exHM 1 exT0 (exTrimEvs.take 11)) := by
    intro t ht
    have : (runT exHM 1 exT0 (exTrimEvs.take 11)).trimmers = [{ t0 := 1518400, pending := none }] := by decide +kernel
    rw [this] at ht; simp at ht; subst ht
    have : (runT exHM 1 exT0 (exTrimEvs.take 11)).now = 1518400 := by decide +kernel
    rw [this]; exact Nat.le_refl _
  have := trim_only_old (H := exHM) 1 h 0 (.D o1) { t0 := 1518400, pending := some (.D o1) } (by decide +kernel) rfl
  rfl

/-- `getFile_then_trim_sound`: the store, then `GetFile` (used), then 4 days later a complete
Trim and a second writer: the held path still reads the content -/
example := getFile_then_trim_sound exWorldM 1 (s := runT exHM 1 exT0 (exTrimEvs.take 9))
  (invT_run exWorldM 1 (s := exT0) inv_initM (exTrimEvs.take 9)
    (fun e he => exTrimEvs_ok e (List.mem_of_mem_take he)))
  (by intro t ht; have : (runT exHM 1 exT0 (exTrimEvs.take 9)).trimmers = [] := by decide +kernel
      rw [this] at ht; simp at ht)
  (id := exId) (out := o1) (by decide) ex_trim_removes.1
  (by intro t ht; have : (runT exHM 1 exT0 (exTrimEvs.take 9)).trimmers = [] := by decide +kernel
      rw [this] at ht; simp at ht)
  [.tick 345600, .trimBegin, .trimStat 0 (.D o1), .trimRemove 0, .base (.spawn exId c2 30), .base (.step 1)]
  (by intro e he; simp at he; rcases he with rfl | rfl | rfl | rfl | rfl | rfl <;> simp [EvT.ok, EvM.ok, exWr])
  (by intro e he; simp at he; rcases he with rfl | rfl | rfl | rfl | rfl | rfl <;> simp [EvT.faults, EvM.faults])
  (by decide +kernel)

/-! ### the hash re-check -/

example := flaky_source_never_full (H := exHM) 1 FS.empty exId c1 [7, 8, 0] 17 (by decide) (by decide)
  (by intro f hf; simp [FS.empty] at hf) 9

/-- the flaky `Put` computes: it ends `dead` with an empty data file and no index file -/
theorem ex_flaky :
    let x := soloRunF exHM 1 [7, 8, 0] 9 (FS.empty, { id := exId, data := c1, ts := 17, pc := .statD, orph := false })
    x.2.pc = .dead ∧ x.1 (.D o1) = some [] ∧ x.1 (.A exId) = none := by
  decide +kernel

/-! ### outside both families: a torn index write over the entry of ANOTHER content

Contents of 19 and 11 bytes under one id.  The writer of the 19-byte content dies inside
its index write after 152 bytes (the output-id field and the first digit of the size field
are new, the second digit is the old entry's): the entry names the new output with size
11.  If the new data file is then cut at rest to 11 bytes, `GetFile` accepts a strict
prefix.  (A `write(2)` of 175 bytes inside one page is not torn by the death of a process
on Linux; power loss is outside the property.) -/
theorem torn_index_mix_breaks :
    let cNew : Bytes := List.range 19
    let oNew : Bytes := List.replicate 32 6
    let oOld : Bytes := List.replicate 32 5
    let eNew := entry exId oNew 19 5
    let eOld := entry exId oOld 11 4
    let fs : FS := (FS.empty.set (.A exId) (some (eNew.take 152 ++ eOld.drop 152))).set (.D oNew) (some (cNew.take 11))
    getFile fs exId = some oNew ∧ readFile fs oNew = some (cNew.take 11) ∧ cNew.take 11 ≠ cNew := by
  decide +kernel

end Verif.C05
