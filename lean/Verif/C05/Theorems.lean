import Verif.C05.Inv
/-!
Property theorems for C05 (cache never serves wrong bytes).

World hypotheses (`World H stored`, never axioms): no second preimage of the hash of a
stored content; output ids are 32 bytes; sizes fit int64.  `stored id` is the content
every `put` of action `id` stores (one output per action id: the runner's situation;
without it an index entry overwritten half-way by a different output names a file that
exists only with negligible probability, and the guarantee is probabilistic).

Events (`Ev`): a new writer starts (`spawn`), a writer performs its next system call
(`step`), a writer dies before its next system call or inside a write after any number
of bytes (`crash i k`), a file at rest is truncated to any shorter length, any file is
unlinked (fault or trimmer).  `run` executes an arbitrary list of events, i.e. an
arbitrary interleaving of any number of writers with the environment.

Reading of "truncation": a fault on a file at rest.  Truncating a data file under a live
writer is outside the quantifier (see `midwrite_truncate_breaks`).
-/
namespace Verif.C05
variable {H stored : Bytes → Bytes}

/-! ### the invariant holds initially, is preserved by every event, hence along every interleaving -/

theorem inv_init : Inv H stored { fs := FS.empty, procs := [] } :=
  ⟨fsinv_empty, by simp⟩

example : Inv (fun d => d) (fun _ => [1, 2]) { fs := FS.empty, procs := [] } := inv_init

/-- every process step and every environment step preserves the invariant -/
theorem inv_step (W : World H stored) (cs : Nat) {s : Sys} (h : Inv H stored s) (e : Ev) :
    Inv H stored (stepEv H stored cs s e) := by
  cases e with
  | spawn id ts => exact inv_spawn h id ts
  | step i => exact inv_stepProc W cs h i
  | crash i k => exact inv_crashProc W cs h i k
  | truncate n len => exact inv_truncate h n len
  | unlink n => exact inv_unlink h n

/-- all interleavings of any number of writers, crashes, truncations at rest, removals -/
theorem inv_run (W : World H stored) (cs : Nat) {s : Sys} (h : Inv H stored s) (evs : List Ev) :
    Inv H stored (run H stored cs s evs) := by
  induction evs generalizing s with
  | nil => exact h
  | cons e es ih => exact ih (inv_step W cs h e)

/-! ### lookups -/

/-- `DiskCache.get` on a directory satisfying the invariant returns the canonical output
id and size of the action id, or misses — whatever bytes the time stamp field holds. -/
theorem get_sound (W : World H stored) {fs : FS} (h : FSInv H stored fs) {id out : Bytes} {size : Nat}
    (hid : wfId id = true) (hg : get fs id = some (out, size)) :
    out = H (stored id) ∧ size = (stored id).length := by
  unfold get at hg
  cases hf : fs (.A id) with
  | none => simp [hf] at hg
  | some f =>
    simp only [hf] at hg
    have hag := h.index id f hf
    have hlen : f.length = 175 := by
      unfold parseEntry at hg
      split at hg
      · cases hg
      · rename_i hl; simpa [entrySize] using hl
    have w := entryWF_of W hid (by decide : 0 < 2 ^ 63)
    have hout : slice f 68 64 = hexEncode (H (stored id)) := by
      rw [← entry_slice_out w]
      exact slice_congr (fun i h1 h2 => hag.2 i (by omega) (by simp [tsMask]; omega))
    have hsize : slice f 133 20 = pad20 (stored id).length := by
      rw [← entry_slice_size w]
      exact slice_congr (fun i h1 h2 => hag.2 i (by omega) (by simp [tsMask]; omega))
    exact parseEntry_sound hout hsize (W.outbytes id) (W.sizeok id) hg

/-- `GetBytes`: index read in one reachable state, data file read in a (possibly) later
one; a hit is exactly the stored content. -/
theorem getBytes_sound (W : World H stored) {fs1 fs2 : FS} (h1 : FSInv H stored fs1)
    {id out b : Bytes} {size : Nat} (hid : wfId id = true)
    (hg : get fs1 id = some (out, size)) (hr : getBytesRead H fs2 out = some b) : b = stored id := by
  obtain ⟨ho, _⟩ := get_sound W h1 hid hg
  subst ho
  unfold getBytesRead at hr
  simp only [] at hr
  split at hr
  · rename_i hh; cases hr; exact W.nocoll id _ hh
  · cases hr

/-- `GetFile`: index read in one reachable state, size check in a later one; on a hit the
named file holds, at that moment, exactly the stored content. -/
theorem getFile_sound (W : World H stored) {fs1 fs2 : FS} (h1 : FSInv H stored fs1) (h2 : FSInv H stored fs2)
    {id out : Bytes} {size : Nat} (hid : wfId id = true)
    (hg : get fs1 id = some (out, size)) (hs : stat fs2 (.D out) = some size) :
    fs2 (.D out) = some (stored id) := by
  obtain ⟨ho, hsz⟩ := get_sound W h1 hid hg
  subst ho hsz
  unfold stat at hs
  cases hf : fs2 (.D (H (stored id))) with
  | none => simp [hf] at hs
  | some f =>
    simp [hf] at hs
    rw [agreeOn_all_full (h2.data id f hf) (by omega)]

/-- **C05 (model).** After any interleaving of writers, crashes (between any two system
calls and inside any write), truncations at rest and removals, a lookup either misses or
returns exactly the bytes stored under the key. -/
theorem lookup_sound (W : World H stored) (cs : Nat) {s : Sys} (h : Inv H stored s) (evs : List Ev)
    {id : Bytes} (hid : wfId id = true) :
    (∀ b, getBytes H (run H stored cs s evs).fs id = some b → b = stored id) ∧
    (∀ out, getFile (run H stored cs s evs).fs id = some out →
      readFile (run H stored cs s evs).fs out = some (stored id)) := by
  have hi := (inv_run W cs h evs).fs
  generalize (run H stored cs s evs).fs = fs at hi
  constructor
  · intro b hb
    unfold getBytes at hb
    cases hg : get fs id with
    | none => simp [hg] at hb
    | some r =>
      obtain ⟨out, size⟩ := r
      simp only [hg] at hb
      exact getBytes_sound W hi hid hg hb
  · intro out ho
    unfold getFile at ho
    cases hg : get fs id with
    | none => simp [hg] at ho
    | some r =>
      obtain ⟨out', size⟩ := r
      simp only [hg] at ho
      cases hs : stat fs (.D out') with
      | none => simp [hs] at ho
      | some n =>
        simp only [hs] at ho
        split at ho
        · rename_i hn; cases ho; subst hn
          exact getFile_sound W hi hi hid hg hs
        · cases ho

/-! ### a complete data file stays complete; the window between `GetFile` and the read -/

/-- the event is a fault (truncation or removal) on file `n` -/
def Ev.faults (e : Ev) (n : Name) : Prop :=
  match e with
  | .truncate m _ => m = n
  | .unlink m => m = n
  | _ => False

theorem grows_on (W : World H stored) (cs : Nat) {s : Sys} (h : Inv H stored s) (e : Ev) (n : Name)
    (hne : ¬ e.faults n) {f : Bytes} (hf : s.fs n = some f) :
    ∃ f', (stepEv H stored cs s e).fs n = some f' ∧ f.length ≤ f'.length := by
  cases e with
  | spawn id ts =>
    simp only [stepEv]; split <;> exact ⟨f, hf, Nat.le_refl _⟩
  | step i =>
    simp only [stepEv, stepProc]
    cases hp : s.procs[i]? with
    | none => exact ⟨f, hf, Nat.le_refl _⟩
    | some p => exact (step_core W cs h.fs (h.procs p (List.mem_of_getElem? hp))).2.1 n f hf
  | crash i k =>
    simp only [stepEv, crashProc]
    cases hp : s.procs[i]? with
    | none => exact ⟨f, hf, Nat.le_refl _⟩
    | some p => exact (crash_core W cs k h.fs (h.procs p (List.mem_of_getElem? hp))).2 n f hf
  | truncate m len =>
    have hmn : n ≠ m := fun e => hne (by simp [Ev.faults, e])
    simp only [stepEv]
    cases hm : s.fs m with
    | none => exact ⟨f, hf, Nat.le_refl _⟩
    | some g =>
      simp only []
      split
      · exact ⟨f, by simp [hmn, hf], Nat.le_refl _⟩
      · exact ⟨f, hf, Nat.le_refl _⟩
  | unlink m =>
    have hmn : n ≠ m := fun e => hne (by simp [Ev.faults, e])
    exact ⟨f, by simp [stepEv, unlink, hmn, hf], Nat.le_refl _⟩

/-- Once a data file is complete it stays complete under every event that is not a
fault on that very file (concurrent writers re-write the same bytes). -/
theorem full_stable (W : World H stored) (cs : Nat) {s : Sys} (h : Inv H stored s) (e : Ev) (id : Bytes)
    (hne : ¬ e.faults (.D (H (stored id))))
    (hfull : s.fs (.D (H (stored id))) = some (stored id)) :
    (stepEv H stored cs s e).fs (.D (H (stored id))) = some (stored id) := by
  obtain ⟨f', hf', hl⟩ := grows_on W cs h e _ hne hfull
  rw [hf', agreeOn_all_full ((inv_step W cs h e).fs.data id f' hf') hl]

theorem full_run (W : World H stored) (cs : Nat) {s : Sys} (h : Inv H stored s) (id : Bytes) (evs : List Ev)
    (hnf : ∀ e ∈ evs, ¬ e.faults (.D (H (stored id))))
    (hfull : s.fs (.D (H (stored id))) = some (stored id)) :
    (run H stored cs s evs).fs (.D (H (stored id))) = some (stored id) := by
  induction evs generalizing s with
  | nil => exact hfull
  | cons e es ih =>
    exact ih (inv_step W cs h e) (fun e' he' => hnf e' (by simp [he']))
      (full_stable W cs h e id (hnf e (by simp)) hfull)

/-- `GetFile` hit, then any interleaving without a fault on the returned file, then the
caller opens and reads it: it reads exactly the stored content. -/
theorem getFile_read_sound (W : World H stored) (cs : Nat) {s : Sys} (h : Inv H stored s)
    {id out : Bytes} (hid : wfId id = true) (hg : getFile s.fs id = some out) (evs : List Ev)
    (hnf : ∀ e ∈ evs, ¬ e.faults (.D out)) :
    readFile (run H stored cs s evs).fs out = some (stored id) := by
  have h0 := (lookup_sound W cs h [] hid).2 out hg
  simp only [run, List.foldl_nil, readFile] at h0
  have ho : out = H (stored id) := by
    unfold getFile at hg
    cases hgg : get s.fs id with
    | none => simp [hgg] at hg
    | some r =>
      obtain ⟨o, sz⟩ := r
      simp only [hgg] at hg
      have := (get_sound W h.fs hid hgg).1
      cases hs : stat s.fs (.D o) with
      | none => simp [hs] at hg
      | some n => simp only [hs] at hg; split at hg <;> simp_all
  subst ho
  exact full_run W cs h id evs hnf h0


/-! ### completeness: put then get -/

theorem solo_run (W : World H stored) (cs : Nat) {s : Sys} (h : Inv H stored s) (i : Nat) {p : Proc}
    (hp : s.procs[i]? = some p) (pr : Prog H s.fs p) (n : Nat) :
    ∃ p', (run H stored cs s (List.replicate n (.step i))).procs[i]? = some p' ∧
      Prog H (run H stored cs s (List.replicate n (.step i))).fs p' ∧
      p'.id = p.id ∧ p'.data = p.data ∧ p'.ts = p.ts := by
  induction n generalizing s p with
  | zero => exact ⟨p, hp, pr, rfl, rfl, rfl⟩
  | succ n ih =>
    have hmem : p ∈ s.procs := List.mem_of_getElem? hp
    have hlt : i < s.procs.length := by
      rcases List.getElem?_eq_some_iff.mp hp with ⟨hl, _⟩; exact hl
    have hi := inv_step W cs h (.step i)
    have pr' := prog_core W cs h.fs (h.procs p hmem) pr
    have hp' : (stepEv H stored cs s (.step i)).procs[i]? =
        some { p with pc := (nextOp H cs s.fs p).2, orph := (applyOp s.fs p.orph (nextOp H cs s.fs p).1).2 } := by
      simp only [stepEv, stepProc, hp]
      exact List.getElem?_set_self hlt
    have hfs' : (stepEv H stored cs s (.step i)).fs = (applyOp s.fs p.orph (nextOp H cs s.fs p).1).1 := by
      simp only [stepEv, stepProc, hp]
    rw [← hfs'] at pr'
    obtain ⟨p'', h1, h2, h3, h4, h5⟩ := ih hi hp' pr'
    exact ⟨p'', by simpa [List.replicate_succ, run] using h1, by simpa [List.replicate_succ, run] using h2, h3, h4, h5⟩

theorem lookups_hit (W : World H stored) {fs : FS} {id : Bytes} {ts : Nat} (hid : wfId id = true) (hts : ts < 2 ^ 63)
    (hd : fs (.D (H (stored id))) = some (stored id))
    (hx : fs (.A id) = some (entry id (H (stored id)) (stored id).length ts)) :
    getBytes H fs id = some (stored id) ∧ getFile fs id = some (H (stored id)) ∧
      readFile fs (H (stored id)) = some (stored id) := by
  have w := entryWF_of W hid hts
  have hget : get fs id = some (H (stored id), (stored id).length) := by
    unfold get; rw [hx]
    exact parseEntry_entry w (wfId_spec hid).2 (W.outbytes id) (W.sizeok id) hts
  refine ⟨?_, ?_, hd⟩
  · simp only [getBytes, hget, getBytesRead, hd, Option.getD_some, if_true]
  · simp only [getFile, hget, stat, hd, Option.map_some, if_true]

/-- **put then get.** A writer that starts in any reachable state and runs to completion
without interference makes all three lookups hit with exactly the stored bytes. -/
theorem put_then_get (W : World H stored) (cs : Nat) {s : Sys} (h : Inv H stored s) (id : Bytes) (ts n : Nat)
    (hid : wfId id = true) (hts : ts < 2 ^ 63) :
    let s' := run H stored cs (stepEv H stored cs s (.spawn id ts)) (List.replicate n (.step s.procs.length))
    (∃ p, s'.procs[s.procs.length]? = some p ∧ p.pc = .done) →
    getBytes H s'.fs id = some (stored id) ∧ getFile s'.fs id = some (H (stored id)) ∧
      readFile s'.fs (H (stored id)) = some (stored id) := by
  intro s' hdone
  have hspawn : stepEv H stored cs s (.spawn id ts) =
      { s with procs := s.procs ++ [{ id := id, data := stored id, ts := ts, pc := .statD, orph := false }] } := by
    simp [stepEv, hid, hts]
  have hi := inv_step W cs h (.spawn id ts)
  have hp : (stepEv H stored cs s (.spawn id ts)).procs[s.procs.length]? =
      some { id := id, data := stored id, ts := ts, pc := .statD, orph := false } := by
    rw [hspawn]; simp
  obtain ⟨p', h1, h2, h3, h4, h5⟩ := solo_run W cs hi s.procs.length hp ⟨rfl, by simp, by simp⟩ n
  obtain ⟨p, hp2, hpc⟩ := hdone
  have : p = p' := by
    have : s'.procs[s.procs.length]? = some p' := h1
    rw [hp2] at this; exact Option.some.inj this
  subst this
  have hd := h2.dataFull (Or.inr (Or.inr (Or.inr hpc)))
  have hx := h2.idxFull (Or.inr hpc)
  simp only [h3, h4, h5] at hd hx
  exact lookups_hit W hid hts hd hx


/-! ### a concrete world for the non-vacuity examples -/
def exStored : Bytes → Bytes := fun _ => [7, 8, 9]
def exH : Bytes → Bytes := fun d => if d = [7, 8, 9] then List.replicate 32 1 else List.replicate 32 2
def exId : Bytes := List.replicate 32 5
def exOut : Bytes := List.replicate 32 1

theorem exWorld : World exH exStored := by
  refine ⟨?_, ?_, ?_, ?_⟩
  · intro id d h
    simp only [exH, exStored] at h ⊢
    split at h
    · assumption
    · simp at h
  · intro id; simp [exH, exStored]
  · intro id b hb; simp [exH, exStored] at hb; omega
  · intro id; simp [exStored]

def exInit : Sys := { fs := FS.empty, procs := [] }
def exRun (evs : List Ev) : Sys := run exH exStored 1 exInit evs

/-- the hypotheses of `put_then_get` are satisfiable: 8 steps complete a 3-byte put (copy
buffer of one byte: stat, open, two chunk writes, last byte, index open/write/truncate) -/
example : ((exRun (.spawn exId 17 :: List.replicate 8 (.step 0))).procs[0]?).map (·.pc) = some .done := by
  decide

example : getBytes exH (exRun (.spawn exId 17 :: List.replicate 8 (.step 0))).fs exId = some [7, 8, 9] := by
  decide +kernel


/-- a writer dies inside its second chunk write; lookups miss; a second writer completes -/
def exCrash : List Ev :=
  [.spawn exId 17, .step 0, .step 0, .step 0, .crash 0 1, .spawn exId 18] ++ List.replicate 8 (.step 1)

theorem ex_crash_then_put :
    getFile (exRun (exCrash.take 5)).fs exId = none ∧
    (exRun (exCrash.take 5)).fs (.D exOut) = some [7, 8] ∧
    getFile (exRun exCrash).fs exId = some exOut ∧
    readFile (exRun exCrash).fs exOut = some [7, 8, 9] := by
  decide +kernel

/-- a complete entry whose data file is then truncated at rest: `GetFile` and `GetBytes` miss -/
theorem ex_truncate_at_rest :
    let s := exRun ((.spawn exId 17 :: List.replicate 8 (.step 0)) ++ [.truncate (.D exOut) 2])
    s.fs (.D exOut) = some [7, 8] ∧ getFile s.fs exId = none ∧ getBytes exH s.fs exId = none := by
  decide +kernel

/-- the index file truncated to every shorter length: `get` misses (strict parse) -/
theorem ex_index_truncated :
    ∀ len < 175, get (exRun ((.spawn exId 17 :: List.replicate 8 (.step 0)) ++ [.truncate (.A exId) len])).fs exId = none := by
  decide +kernel

/-- Outside the quantifier (documented, not reported): truncating a data file UNDER a
live writer.  Content `[1,2,3,4,5]`, the writer has written 3 bytes (its offset is 3), the
file is cut to 1 byte, the writer writes byte 3 at offset 3 and the last byte at offset 4:
the file has the full size and a zero hole, which `GetFile`'s size check accepts. -/
theorem midwrite_truncate_breaks :
    let c : Bytes := [1, 2, 3, 4, 5]
    let f := (c.take 3).take 1
    let f2 := pwriteB (pwriteB f 3 ((c.drop 3).take 1)) 4 (c.drop 4)
    f2.length = c.length ∧ f2 ≠ c ∧ f2 = [1, 0, 0, 4, 5] := by
  decide


/-- Outside `lookup_sound`'s conclusion (documented window, see `getFile_read_sound`):
`GetFile` hits; then the data file is removed (trimmer) and another writer has re-created
its first byte when the caller opens the returned name: the caller reads a strict prefix. -/
theorem getfile_window_breaks :
    let s := exRun (.spawn exId 17 :: List.replicate 8 (.step 0))
    let s' := run exH exStored 1 s [.unlink (.D exOut), .spawn exId 18, .step 1, .step 1, .step 1]
    getFile s.fs exId = some exOut ∧ readFile s'.fs exOut = some [7] := by
  decide +kernel

/-! the property theorems instantiated (their hypotheses are satisfiable) -/
example := lookup_sound exWorld 1 inv_init exCrash (id := exId) (by decide)
example := inv_run exWorld 1 inv_init exCrash
example := put_then_get exWorld 1 inv_init exId 17 8 (by decide) (by decide)
example := getFile_read_sound exWorld 1 (inv_run exWorld 1 inv_init exCrash) (id := exId) (out := exOut) (by decide)
  ex_crash_then_put.2.2.1 [.spawn exId 19, .step 2, .unlink (.A exId)] (by simp [Ev.faults])

end Verif.C05
