/-
C05 — model of the file protocol of `lintcmd/cache` (DiskCache.put → copyFile →
putIndexEntry, DiskCache.get, GetFile, GetBytes) over a small POSIX-like file system.

Bytes are `Nat`s (character codes); the hash is a parameter `H : Bytes → Bytes`.
The model transliterates what the Go code does, step by step (one micro-step per
system call that can change or inspect a cache file), so that it can be compared with
an `strace` of the real code and so that crashes can be placed between any two steps
(and inside any write).
-/
namespace Verif.C05

abbrev Bytes := List Nat

/-! ## file system -/

/-- Cache file names: index file `<hex id>-a`, data file `<hex out>-d`. -/
inductive Name where
  | A (id : Bytes)
  | D (out : Bytes)
  deriving DecidableEq, Repr

abbrev FS := Name → Option Bytes

def FS.empty : FS := fun _ => none

def FS.set (fs : FS) (n : Name) (v : Option Bytes) : FS :=
  fun m => if m = n then v else fs m

def zeros (n : Nat) : Bytes := List.replicate n 0

/-- `pwrite(off, ch)` on a file with content `f`: replaces exactly `[off, off+|ch|)`,
zero-fills a hole, extends the file if needed; a write of no bytes does nothing. -/
def pwriteB (f : Bytes) (off : Nat) (ch : Bytes) : Bytes :=
  if ch = [] then f else
  f.take off ++ zeros (off - f.length) ++ ch ++ f.drop (off + ch.length)

/-- `ftruncate(n)`: cut, or extend with zeros. -/
def truncB (f : Bytes) (n : Nat) : Bytes := f.take n ++ zeros (n - f.length)

/-- `open(O_CREAT [|O_TRUNC])`. -/
def openCreate (fs : FS) (n : Name) (trunc : Bool) : FS :=
  match fs n with
  | none => fs.set n (some [])
  | some _ => if trunc then fs.set n (some []) else fs

def pwrite (fs : FS) (n : Name) (off : Nat) (ch : Bytes) : FS :=
  match fs n with
  | none => fs
  | some f => fs.set n (some (pwriteB f off ch))

def ftruncate (fs : FS) (n : Name) (len : Nat) : FS :=
  match fs n with
  | none => fs
  | some f => fs.set n (some (truncB f len))

def unlink (fs : FS) (n : Name) : FS := fs.set n none

def stat (fs : FS) (n : Name) : Option Nat := (fs n).map List.length

/-! ## codec of the index entry
`"v1 %x %x %20d %20d\n"` — 2+1+64+1+64+1+20+1+20+1 = 175 bytes. -/

def hexDigit (n : Nat) : Nat := if n < 10 then 48 + n else 87 + n

/-- `encoding/hex` accepts both cases when decoding. -/
def hexVal (c : Nat) : Option Nat :=
  if 48 ≤ c ∧ c ≤ 57 then some (c - 48)
  else if 97 ≤ c ∧ c ≤ 102 then some (c - 87)
  else if 65 ≤ c ∧ c ≤ 70 then some (c - 55)
  else none

def hexEncode : Bytes → Bytes
  | [] => []
  | b :: bs => hexDigit (b / 16) :: hexDigit (b % 16) :: hexEncode bs

def hexDecode : Bytes → Option Bytes
  | [] => some []
  | [_] => none
  | a :: b :: r =>
    match hexVal a, hexVal b, hexDecode r with
    | some x, some y, some t => some ((x * 16 + y) :: t)
    | _, _, _ => none

/-- little-endian decimal digits, at least one digit. -/
def decRev : Nat → Nat → List Nat
  | 0, n => [n % 10]
  | f + 1, n => if n < 10 then [n] else (n % 10) :: decRev f (n / 10)

def decimal (n : Nat) : Bytes := ((decRev 20 n).reverse).map (· + 48)

/-- `%20d` for a non-negative number. -/
def pad20 (n : Nat) : Bytes := List.replicate (20 - (decimal n).length) 32 ++ decimal n

def entrySize : Nat := 175

/-- The index entry `putIndexEntry` formats. -/
def entry (id out : Bytes) (size ts : Nat) : Bytes :=
  [118, 49, 32] ++ hexEncode id ++ [32] ++ hexEncode out ++ [32] ++ pad20 size ++ [32] ++ pad20 ts ++ [10]

/-- value of a non-empty all-digit string (big-endian), `none` on any other character. -/
def digitsVal : Nat → Bytes → Option Nat
  | acc, [] => some acc
  | acc, c :: cs => if 48 ≤ c ∧ c ≤ 57 then digitsVal (acc * 10 + (c - 48)) cs else none

/-- `strconv.ParseInt(s, 10, 64)`: optional sign, digits, range check. -/
def parseInt64 (s : Bytes) : Option Int :=
  match s with
  | [] => none
  | 43 :: r => if r = [] then none else
      match digitsVal 0 r with
      | some v => if v < 2 ^ 63 then some (Int.ofNat v) else none
      | none => none
  | 45 :: r => if r = [] then none else
      match digitsVal 0 r with
      | some v => if v ≤ 2 ^ 63 then some (- Int.ofNat v) else none
      | none => none
  | _ =>
      match digitsVal 0 s with
      | some v => if v < 2 ^ 63 then some (Int.ofNat v) else none
      | none => none

def skipSpaces : Bytes → Bytes
  | 32 :: r => skipSpaces r
  | l => l

/-- a 20-byte field: leading spaces skipped, `ParseInt`, negative rejected. -/
def parseField (f : Bytes) : Option Nat :=
  match parseInt64 (skipSpaces f) with
  | some v => if v < 0 then none else some v.toNat
  | none => none

def slice (e : Bytes) (off len : Nat) : Bytes := (e.drop off).take len

/-- The strict fixed-width parse of `DiskCache.get` applied to the whole content of the
index file of action `id`: `(output id, size)` or a miss. -/
def parseEntry (id : Bytes) (e : Bytes) : Option (Bytes × Nat) :=
  if e.length ≠ entrySize then none else
  if e[0]? ≠ some 118 ∨ e[1]? ≠ some 49 ∨ e[2]? ≠ some 32 ∨ e[67]? ≠ some 32 ∨
     e[132]? ≠ some 32 ∨ e[153]? ≠ some 32 ∨ e[174]? ≠ some 10 then none else
  match hexDecode (slice e 3 64) with
  | none => none
  | some eid =>
    if eid ≠ id then none else
    match hexDecode (slice e 68 64) with
    | none => none
    | some out =>
      match parseField (slice e 133 20) with
      | none => none
      | some size =>
        match parseField (slice e 154 20) with
        | none => none
        | some _ => some (out, size)

/-! ## lookups -/

/-- `DiskCache.get`. -/
def get (fs : FS) (id : Bytes) : Option (Bytes × Nat) :=
  match fs (.A id) with
  | none => none
  | some e => parseEntry id e

/-- `GetFile`: the name (output id) of the data file, if its size matches the entry. -/
def getFile (fs : FS) (id : Bytes) : Option Bytes :=
  match get fs id with
  | none => none
  | some (out, size) =>
    match stat fs (.D out) with
    | some n => if n = size then some out else none
    | none => none

/-- what the caller of `GetFile` reads when it later opens the returned name. -/
def readFile (fs : FS) (out : Bytes) : Option Bytes := fs (.D out)

/-- second half of `GetBytes`: `os.ReadFile` (error ignored ⇒ empty), checksum compare. -/
def getBytesRead (H : Bytes → Bytes) (fs : FS) (out : Bytes) : Option Bytes :=
  let data := (fs (.D out)).getD []
  if H data = out then some data else none

/-- `GetBytes` without anything happening between its two reads. -/
def getBytes (H : Bytes → Bytes) (fs : FS) (id : Bytes) : Option Bytes :=
  match get fs id with
  | none => none
  | some (out, _) => getBytesRead H fs out

/-! ## `put` as a program of micro-steps -/

inductive PC where
  | statD                 -- copyFile: os.Stat(data file)
  | hashcmp               -- same size: open, read everything, compare the hash
  | openD (trunc : Bool)  -- os.OpenFile(O_RDWR|O_CREATE [|O_TRUNC])
  | writeD (off : Nat)    -- io.CopyN(f, file, size-1), one chunk per step
  | lastD                 -- hash verified, write the last byte
  | idxOpen               -- putIndexEntry: os.OpenFile(O_WRONLY|O_CREATE)
  | idxWrite              -- f.WriteString(entry)
  | idxTrunc              -- f.Truncate(len(entry))
  | done
  | dead
  deriving DecidableEq, Repr

/-- A process executing `put id data`; `ts` is the time stamp it will format;
`orph` says that the file it currently has open was unlinked after it opened it
(its descriptor refers to an inode that no longer has the name). -/
structure Proc where
  id : Bytes
  data : Bytes
  ts : Nat
  pc : PC
  orph : Bool

inductive Op where
  | nop
  | stat (n : Name)
  | readAll (n : Name)
  | open (n : Name) (trunc : Bool)
  | write (n : Name) (off : Nat) (ch : Bytes)
  | ftrunc (n : Name) (len : Nat)

/-- The next system call of a process and the program counter after it.
`cs` is the copy buffer size (32768 in `io.Copy`). -/
def nextOp (H : Bytes → Bytes) (cs : Nat) (fs : FS) (p : Proc) : Op × PC :=
  let out := H p.data
  let size := p.data.length
  match p.pc with
  | .statD =>
    (.stat (.D out),
      match fs (.D out) with
      | some f => if f.length = size then .hashcmp else .openD (decide (f.length > size))
      | none => .openD false)
  | .hashcmp =>
    (.readAll (.D out),
      match fs (.D out) with
      | some f => if H f = out then .idxOpen else .openD false
      | none => .openD false)
  | .openD t =>
    (.open (.D out) t,
      if size = 0 then .idxOpen else if size - 1 = 0 then .lastD else .writeD 0)
  | .writeD off =>
    let n := min cs (size - 1 - off)
    (.write (.D out) off ((p.data.drop off).take n),
      if off + n ≥ size - 1 then .lastD else .writeD (off + n))
  | .lastD => (.write (.D out) (size - 1) (p.data.drop (size - 1)), .idxOpen)
  | .idxOpen => (.open (.A p.id) false, .idxWrite)
  | .idxWrite => (.write (.A p.id) 0 (entry p.id out size p.ts), .idxTrunc)
  | .idxTrunc => (.ftrunc (.A p.id) (entry p.id out size p.ts).length, .done)
  | .done => (.nop, .done)
  | .dead => (.nop, .dead)

/-- Effect of a system call on the name space; `orph`: the descriptor is orphaned. -/
def applyOp (fs : FS) (orph : Bool) : Op → FS × Bool
  | .open n t => (openCreate fs n t, false)
  | .write n off ch => (if orph then fs else pwrite fs n off ch, orph)
  | .ftrunc n len => (if orph then fs else ftruncate fs n len, orph)
  | _ => (fs, orph)

/-- The file a process has open for writing. -/
def Proc.holds (H : Bytes → Bytes) (p : Proc) : Option Name :=
  match p.pc with
  | .writeD _ => some (.D (H p.data))
  | .lastD => some (.D (H p.data))
  | .idxWrite => some (.A p.id)
  | .idxTrunc => some (.A p.id)
  | _ => none

/-! ## system: processes + file system, process and environment events -/

structure Sys where
  fs : FS
  procs : List Proc

def wfId (id : Bytes) : Bool := id.length == 32 && id.all (· < 256)

inductive Ev where
  /-- a new process starts `put id (stored id)` -/
  | spawn (id : Bytes) (ts : Nat)
  /-- process `i` performs its next system call completely -/
  | step (i : Nat)
  /-- process `i` dies; if its next system call is a write, the first `k` bytes of
  that write still reach the file (`k = 0`: it dies before the call) -/
  | crash (i : Nat) (k : Nat)
  /-- a file at rest (no live writer has it open) is cut to `len ≤` its length -/
  | truncate (n : Name) (len : Nat)
  /-- any file is removed (fault, or the trimmer) -/
  | unlink (n : Name)

def stepProc (H : Bytes → Bytes) (cs : Nat) (s : Sys) (i : Nat) : Sys :=
  match s.procs[i]? with
  | none => s
  | some p =>
    let r := nextOp H cs s.fs p
    let a := applyOp s.fs p.orph r.1
    { fs := a.1, procs := s.procs.set i { p with pc := r.2, orph := a.2 } }

def crashProc (H : Bytes → Bytes) (cs : Nat) (s : Sys) (i : Nat) (k : Nat) : Sys :=
  match s.procs[i]? with
  | none => s
  | some p =>
    let fs' := match (nextOp H cs s.fs p).1 with
      | .write n off ch => if p.orph then s.fs else pwrite s.fs n off (ch.take k)
      | _ => s.fs
    { fs := fs', procs := s.procs.set i { p with pc := .dead } }

def atRest (H : Bytes → Bytes) (s : Sys) (n : Name) : Bool :=
  s.procs.all fun p => !(decide (p.holds H = some n)) || p.orph

def stepEv (H : Bytes → Bytes) (stored : Bytes → Bytes) (cs : Nat) (s : Sys) : Ev → Sys
  | .spawn id ts =>
    if wfId id && decide (ts < 2 ^ 63) then
      { s with procs := s.procs ++ [{ id := id, data := stored id, ts := ts, pc := .statD, orph := false }] }
    else s
  | .step i => stepProc H cs s i
  | .crash i k => crashProc H cs s i k
  | .truncate n len =>
    match s.fs n with
    | none => s
    | some f =>
      if atRest H s n && decide (len ≤ f.length) then { s with fs := s.fs.set n (some (f.take len)) } else s
  | .unlink n =>
    { fs := unlink s.fs n,
      procs := s.procs.map fun p => if p.holds H = some n then { p with orph := true } else p }

def run (H : Bytes → Bytes) (stored : Bytes → Bytes) (cs : Nat) (s : Sys) (evs : List Ev) : Sys :=
  evs.foldl (stepEv H stored cs) s

/-! ## several contents per action id (`EvM`)

The runner may store different contents under one action id (gob bytes of the fact map
are not deterministic, a re-analysis after a lost entry may produce another encoding).
`EvM.spawn` therefore carries the content.  In this event alphabet the index write
(one `write(2)` of 175 bytes at offset 0, inside one page — observed in the strace tie
on every run) is atomic with respect to the death of the writing process: `crash` on a
process about to write the index entry writes nothing.  (The torn index write is kept in
`Ev`/`stepEv`, where every writer of an id stores the same content.) -/

inductive EvM where
  | spawn (id data : Bytes) (ts : Nat)
  | step (i : Nat)
  | crash (i : Nat) (k : Nat)
  | truncate (n : Name) (len : Nat)
  | unlink (n : Name)

def pcIsIdxWrite : PC → Bool
  | .idxWrite => true
  | _ => false

def crashProcM (H : Bytes → Bytes) (cs : Nat) (s : Sys) (i : Nat) (k : Nat) : Sys :=
  match s.procs[i]? with
  | none => s
  | some p => if pcIsIdxWrite p.pc then crashProc H cs s i 0 else crashProc H cs s i k

def stepEvM (H : Bytes → Bytes) (cs : Nat) (s : Sys) : EvM → Sys
  | .spawn id data ts =>
    if wfId id && decide (ts < 2 ^ 63) && decide (data.length < 2 ^ 63) then
      { s with procs := s.procs ++ [{ id := id, data := data, ts := ts, pc := .statD, orph := false }] }
    else s
  | .step i => stepProc H cs s i
  | .crash i k => crashProcM H cs s i k
  | .truncate n len =>
    match s.fs n with
    | none => s
    | some f =>
      if atRest H s n && decide (len ≤ f.length) then { s with fs := s.fs.set n (some (f.take len)) } else s
  | .unlink n =>
    { fs := unlink s.fs n,
      procs := s.procs.map fun p => if p.holds H = some n then { p with orph := true } else p }

def runM (H : Bytes → Bytes) (cs : Nat) (s : Sys) (evs : List EvM) : Sys :=
  evs.foldl (stepEvM H cs) s

/-- upper bound on the number of system calls of one `put` of `size` bytes (copy buffer ≥ 1) -/
def putBound (size : Nat) : Nat := size + 7

/-! ## `Trim`, `used` and modification times (`EvT`)

`DiskCache.used(file)`: `Chtimes(file, now)` unless the mtime is less than an hour old.
`DiskCache.Trim`: `now` is read once; `trimSubdir` stats every cache file and removes it
if its mtime lies before `now - 5 days - 1 hour` — two system calls, so other processes
run between the decision and the removal. -/

def mtimeInterval : Nat := 3600
def trimLimit : Nat := 432000

structure Trimmer where
  t0 : Nat                 -- `now` read at the start of `Trim`
  pending : Option Name    -- the file it has decided (after `os.Stat`) to remove next
  deriving DecidableEq

structure TSys where
  sys : Sys
  mt : Name → Nat          -- modification time (seconds) of the files that exist
  now : Nat
  trimmers : List Trimmer

inductive EvT where
  | base (e : EvM)                 -- writer / fault event of the file protocol
  | tick (dt : Nat)                -- the clock advances
  | used (n : Name)                -- `c.used(file)` (in `get`, `OutputFile`)
  | touch (n : Name) (t : Nat)     -- the environment sets an mtime (utime, restore)
  | trimBegin                      -- a `Trim` passes the trim.txt check and reads `now`
  | trimStat (j : Nat) (n : Name)  -- `trimSubdir`: `os.Stat(entry)` and the decision
  | trimRemove (j : Nat)           -- `trimSubdir`: `os.Remove(entry)`

/-- the file whose mtime a system call of a writer sets to `now` -/
def opTouches (fs : FS) : Op → Option Name
  | .open n t => if t || (fs n).isNone then some n else none
  | .write n _ ch => if ch = [] then none else some n
  | .ftrunc n _ => some n
  | _ => none

/-- names whose mtime the base event sets to the current time -/
def evTouches (H : Bytes → Bytes) (cs : Nat) (s : Sys) : EvM → Option Name
  | .step i =>
    match s.procs[i]? with
    | none => none
    | some p => if p.orph then none else opTouches s.fs (nextOp H cs s.fs p).1
  | .crash i _ =>
    match s.procs[i]? with
    | none => none
    | some p =>
      if p.orph || pcIsIdxWrite p.pc then none else
      match (nextOp H cs s.fs p).1 with
      | .write n _ ch => if ch = [] then none else some n
      | _ => none
  | .truncate n _ => some n
  | _ => none

def setMt (mt : Name → Nat) (n : Name) (t : Nat) : Name → Nat := fun m => if m = n then t else mt m

def stepT (H : Bytes → Bytes) (cs : Nat) (s : TSys) : EvT → TSys
  | .base e =>
    let mt' := match evTouches H cs s.sys e with
      | some n => setMt s.mt n s.now
      | none => s.mt
    { s with sys := stepEvM H cs s.sys e, mt := mt' }
  | .tick dt => { s with now := s.now + dt }
  | .used n =>
    match s.sys.fs n with
    | none => s
    | some _ => if s.now - s.mt n < mtimeInterval then s else { s with mt := setMt s.mt n s.now }
  | .touch n t => { s with mt := setMt s.mt n t }
  | .trimBegin => { s with trimmers := s.trimmers ++ [{ t0 := s.now, pending := none }] }
  | .trimStat j n =>
    match s.trimmers[j]? with
    | none => s
    | some t =>
      let old := (s.sys.fs n).isSome && decide (s.mt n + (trimLimit + mtimeInterval) < t.t0)
      { s with trimmers := s.trimmers.set j { t with pending := if old then some n else none } }
  | .trimRemove j =>
    match s.trimmers[j]? with
    | none => s
    | some t =>
      match t.pending with
      | none => s
      | some n =>
        { s with sys := stepEvM H cs s.sys (.unlink n),
                 trimmers := s.trimmers.set j { t with pending := none } }

def runT (H : Bytes → Bytes) (cs : Nat) (s : TSys) (evs : List EvT) : TSys :=
  evs.foldl (stepT H cs) s

/-! ## a source that changes between the two passes of `Put` (contract violation)

`Put` reads its source twice: once to compute the output id and size, once to copy.  If
the second pass yields `data2` (same length), the copy writes `data2`; `copyFile` hashes
what it copies and compares with the output id BEFORE writing the last byte; on a
mismatch it truncates the file to 0 and `Put` fails (`dead`: no further system call). -/
def nextOpF (H : Bytes → Bytes) (cs : Nat) (fs : FS) (p : Proc) (data2 : Bytes) : Op × PC :=
  let out := H p.data
  let size := p.data.length
  match p.pc with
  | .writeD off =>
    let n := min cs (size - 1 - off)
    (.write (.D out) off ((data2.drop off).take n),
      if off + n ≥ size - 1 then .lastD else .writeD (off + n))
  | .lastD =>
    if H data2 = out then (.write (.D out) (size - 1) (data2.drop (size - 1)), .idxOpen)
    else (.ftrunc (.D out) 0, .dead)
  | _ => nextOp H cs fs p

def soloStepF (H : Bytes → Bytes) (cs : Nat) (data2 : Bytes) (x : FS × Proc) : FS × Proc :=
  ((applyOp x.1 x.2.orph (nextOpF H cs x.1 x.2 data2).1).1,
   { x.2 with pc := (nextOpF H cs x.1 x.2 data2).2, orph := (applyOp x.1 x.2.orph (nextOpF H cs x.1 x.2 data2).1).2 })

def soloRunF (H : Bytes → Bytes) (cs : Nat) (data2 : Bytes) : Nat → FS × Proc → FS × Proc
  | 0, x => x
  | n + 1, x => soloRunF H cs data2 n (soloStepF H cs data2 x)

end Verif.C05
