import Verif.C05.Inv
/-!
`put` repairs whatever it finds and terminates (C05, strengthening).

A writer that is not disturbed (no other process steps, no fault) and runs its program
`DiskCache.put → copyFile → putIndexEntry` from an ARBITRARY directory — any garbage in
the data file of its output and in the index file of its action id: shorter, longer,
same size with other bytes, absent — reaches `done` within `putBound size = size + 7`
system calls (copy buffer ≥ 1 byte), and then the data file holds exactly the content and
the index file exactly the entry, so all three lookups hit with the stored bytes and the
path returned by `OutputFile` (what the runner opens after `Put`) reads the content.

Only hypothesis about the hash: no other content of that hash (`H f = H data → f = data`,
needed where `copyFile` skips the copy because an existing file of the same size hashes
to the output id).  No invariant on the initial state.
-/
namespace Verif.C05
variable {H : Bytes → Bytes}

/-- one system call of a single process on a file system -/
def soloStep (H : Bytes → Bytes) (cs : Nat) (x : FS × Proc) : FS × Proc :=
  ((applyOp x.1 x.2.orph (nextOp H cs x.1 x.2).1).1,
   { x.2 with pc := (nextOp H cs x.1 x.2).2, orph := (applyOp x.1 x.2.orph (nextOp H cs x.1 x.2).1).2 })

def soloRun (H : Bytes → Bytes) (cs : Nat) : Nat → FS × Proc → FS × Proc
  | 0, x => x
  | n + 1, x => soloRun H cs n (soloStep H cs x)

/-- remaining system calls (upper bound) -/
def rank (size : Nat) : PC → Nat
  | .statD => size + 7
  | .hashcmp => size + 6
  | .openD _ => size + 5
  | .writeD off => 5 + (size - 1 - off)
  | .lastD => 4
  | .idxOpen => 3
  | .idxWrite => 2
  | .idxTrunc => 1
  | .done => 0
  | .dead => 0

/-- what an undisturbed writer knows about the directory at each program counter -/
def soloSt (H : Bytes → Bytes) (fs : FS) (id data : Bytes) (ts : Nat) : PC → Prop
  | .statD => True
  | .hashcmp => ∀ f, fs (.D (H data)) = some f → f.length = data.length
  | .openD t => ∀ f, fs (.D (H data)) = some f → data.length < f.length → t = true
  | .writeD off => off ≤ data.length - 1 ∧ 1 ≤ data.length ∧
      ∃ f, fs (.D (H data)) = some f ∧ off ≤ f.length ∧ f.length ≤ data.length ∧ f.take off = data.take off
  | .lastD => 1 ≤ data.length ∧
      ∃ f, fs (.D (H data)) = some f ∧ data.length - 1 ≤ f.length ∧ f.length ≤ data.length ∧
        f.take (data.length - 1) = data.take (data.length - 1)
  | .idxOpen => fs (.D (H data)) = some data
  | .idxWrite => fs (.D (H data)) = some data ∧ ∃ g, fs (.A id) = some g
  | .idxTrunc => fs (.D (H data)) = some data ∧
      ∃ g, fs (.A id) = some g ∧ 175 ≤ g.length ∧ g.take 175 = entry id (H data) data.length ts
  | .done => fs (.D (H data)) = some data ∧ fs (.A id) = some (entry id (H data) data.length ts)
  | .dead => False

structure SoloOK (H : Bytes → Bytes) (x : FS × Proc) : Prop where
  live : x.2.orph = false
  st : soloSt H x.1 x.2.id x.2.data x.2.ts x.2.pc

/-! ### byte-level lemmas -/

theorem pwriteB_take {f ch : Bytes} {off : Nat} (h : off ≤ f.length) :
    (pwriteB f off ch).take (off + ch.length) = f.take off ++ ch := by
  unfold pwriteB
  split
  · rename_i hc; subst hc; simp
  · have hz : zeros (off - f.length) = [] := by simp [zeros]; omega
    rw [hz, List.append_nil]
    apply List.take_left'
    simp; omega

theorem take_drop_take (d : Bytes) (off n : Nat) :
    d.take off ++ (d.drop off).take n = d.take (off + n) := by
  rw [List.take_add]

theorem eq_of_take_full {f d : Bytes} (hl : f.length = d.length) (ht : f.take d.length = d) : f = d := by
  rw [← hl, List.take_length] at ht; exact ht

theorem openCreate_other (fs : FS) (n m : Name) (t : Bool) (h : m ≠ n) : openCreate fs n t m = fs m := by
  unfold openCreate
  cases hn : fs n with
  | none => simp [h]
  | some f => cases t <;> simp [h]

theorem pwrite_other (fs : FS) (n m : Name) (off : Nat) (ch : Bytes) (h : m ≠ n) :
    pwrite fs n off ch m = fs m := by
  unfold pwrite; cases hn : fs n <;> simp [h]

theorem ftruncate_other (fs : FS) (n m : Name) (len : Nat) (h : m ≠ n) :
    ftruncate fs n len m = fs m := by
  unfold ftruncate; cases hn : fs n <;> simp [h]

theorem ftruncate_at {fs : FS} {n : Name} {f : Bytes} (hf : fs n = some f) (len : Nat) :
    ftruncate fs n len n = some (truncB f len) := by simp [ftruncate, hf]

/-- the content of the file after `open(O_CREAT [|O_TRUNC])` -/
theorem openCreate_at (fs : FS) (n : Name) (t : Bool) :
    openCreate fs n t n = some (match fs n with | none => [] | some f => if t then [] else f) := by
  unfold openCreate
  cases h : fs n with
  | none => simp
  | some f => cases t <;> simp [h]

/-! ### the program counter decreases -/

theorem rank_step (cs : Nat) (hcs : 0 < cs) (x : FS × Proc)
    (h : x.2.pc ≠ .done ∧ x.2.pc ≠ .dead) :
    rank x.2.data.length (soloStep H cs x).2.pc < rank x.2.data.length x.2.pc := by
  obtain ⟨fs, ⟨id, data, ts, pc, orph⟩⟩ := x
  simp only [soloStep]
  cases pc with
  | statD =>
    simp only [nextOp]
    cases fs (.D (H data)) with
    | none => simp [rank]
    | some f => simp only []; split <;> simp [rank]
  | hashcmp =>
    simp only [nextOp]
    cases fs (.D (H data)) with
    | none => simp [rank]
    | some f => simp only []; split <;> simp [rank]
  | openD t =>
    simp only [nextOp]
    split
    · simp [rank]
    · split
      · simp [rank]
      · simp [rank]; omega
  | writeD off =>
    simp only [nextOp]
    split
    · simp only [rank]; omega
    · simp only [rank]; omega
  | lastD => simp [nextOp, rank]
  | idxOpen => simp [nextOp, rank]
  | idxWrite => simp [nextOp, rank]
  | idxTrunc => simp [nextOp, rank]
  | done => simp at h
  | dead => simp at h

theorem soloStep_data (cs : Nat) (x : FS × Proc) :
    (soloStep H cs x).2.id = x.2.id ∧ (soloStep H cs x).2.data = x.2.data ∧ (soloStep H cs x).2.ts = x.2.ts := by
  simp [soloStep]

/-! ### preservation of what the writer knows -/

theorem soloOK_step (cs : Nat) (x : FS × Proc)
    (hH : ∀ f, H f = H x.2.data → f = x.2.data)
    (hent : (entry x.2.id (H x.2.data) x.2.data.length x.2.ts).length = 175)
    (ok : SoloOK H x) : SoloOK H (soloStep H cs x) := by
  obtain ⟨fs, ⟨id, data, ts, pc, orph⟩⟩ := x
  obtain ⟨live, st⟩ := ok
  simp only at live hH hent st
  subst live
  have hDA : (Name.A id) ≠ (Name.D (H data)) := by simp
  have hAD : (Name.D (H data)) ≠ (Name.A id) := by simp
  cases pc with
  | statD =>
    cases hf : fs (.D (H data)) with
    | none =>
      refine ⟨by simp [soloStep, nextOp, hf, applyOp], ?_⟩
      simp only [soloStep, nextOp, hf, applyOp, soloSt]
      intro f hf'; simp [hf] at hf'
    | some f =>
      by_cases hl : f.length = data.length
      · refine ⟨by simp [soloStep, nextOp, hf, hl, applyOp], ?_⟩
        simp only [soloStep, nextOp, hf, hl, applyOp, if_true, soloSt]
        intro f' hf'; cases hf'; exact hl
      · refine ⟨by simp [soloStep, nextOp, hf, hl, applyOp], ?_⟩
        simp only [soloStep, nextOp, hf, hl, applyOp, if_false, soloSt]
        intro f' hf' hlt; cases hf'; simpa using hlt
  | hashcmp =>
    simp only [soloSt] at st
    cases hf : fs (.D (H data)) with
    | none =>
      refine ⟨by simp [soloStep, nextOp, hf, applyOp], ?_⟩
      simp only [soloStep, nextOp, hf, applyOp, soloSt]
      intro f hf'; simp [hf] at hf'
    | some f =>
      by_cases hh : H f = H data
      · refine ⟨by simp [soloStep, nextOp, hf, hh, applyOp], ?_⟩
        simp only [soloStep, nextOp, hf, hh, applyOp, if_true, soloSt]
        rw [hH f hh]
      · refine ⟨by simp [soloStep, nextOp, hf, hh, applyOp], ?_⟩
        simp only [soloStep, nextOp, hf, hh, applyOp, if_false, soloSt]
        intro f' hf' hlt; cases hf'
        have := st f hf; omega
  | openD t =>
    simp only [soloSt] at st
    have hat := openCreate_at fs (.D (H data)) t
    -- the file after the open is no longer than the content
    have hlen : ∀ g, openCreate fs (.D (H data)) t (.D (H data)) = some g → g.length ≤ data.length := by
      intro g hg
      rw [hat] at hg
      cases hf : fs (.D (H data)) with
      | none => simp [hf] at hg; subst hg; simp
      | some f =>
        simp only [hf] at hg
        cases t with
        | true => simp at hg; subst hg; simp
        | false =>
          simp at hg; subst hg
          by_cases hlt : data.length < f.length
          · have := st f hf hlt; cases this
          · omega
    obtain ⟨g, hg⟩ := openCreate_exists fs (.D (H data)) t
    have hgl := hlen g hg
    by_cases h0 : data.length = 0
    · refine ⟨by simp [soloStep, nextOp, h0, applyOp], ?_⟩
      simp only [soloStep, nextOp, h0, applyOp, if_true, soloSt]
      have hgn : g = [] := List.eq_nil_of_length_eq_zero (by omega)
      rw [hg, hgn, List.eq_nil_of_length_eq_zero h0]
    · by_cases h1 : data.length - 1 = 0
      · refine ⟨by simp [soloStep, nextOp, h0, h1, applyOp], ?_⟩
        simp only [soloStep, nextOp, h0, h1, applyOp, if_true, if_false, soloSt]
        exact ⟨by omega, g, hg, by omega, hgl, by simp [h1]⟩
      · refine ⟨by simp [soloStep, nextOp, h0, h1, applyOp], ?_⟩
        simp only [soloStep, nextOp, h0, h1, applyOp, if_false, soloSt]
        exact ⟨by omega, by omega, g, hg, by omega, hgl, by simp⟩
  | writeD off =>
    simp only [soloSt] at st
    obtain ⟨hoff, h1, f, hf, hofl, hfl, htk⟩ := st
    have hchlen : (((data.drop off).take (min cs (data.length - 1 - off)))).length
        = min cs (data.length - 1 - off) := by simp; omega
    have hat := pwrite_at hf off ((data.drop off).take (min cs (data.length - 1 - off)))
    have hl := pwriteB_length (ch := (data.drop off).take (min cs (data.length - 1 - off))) hofl
    have htake := pwriteB_take (ch := (data.drop off).take (min cs (data.length - 1 - off))) hofl
    rw [hchlen] at hl htake
    rw [htk, take_drop_take] at htake
    by_cases hc : off + min cs (data.length - 1 - off) ≥ data.length - 1
    · refine ⟨by simp [soloStep, nextOp, hc, applyOp], ?_⟩
      simp only [soloStep, nextOp, hc, applyOp, if_true, soloSt, Bool.false_eq_true, if_false]
      have he : off + min cs (data.length - 1 - off) = data.length - 1 := by omega
      refine ⟨h1, _, hat, by rw [hl]; omega, by rw [hl]; omega, ?_⟩
      have h2 := htake
      rw [he] at h2
      exact h2
    · refine ⟨by simp [soloStep, nextOp, hc, applyOp], ?_⟩
      simp only [soloStep, nextOp, hc, applyOp, if_false, soloSt, Bool.false_eq_true]
      exact ⟨by omega, h1, _, hat, by rw [hl]; omega, by rw [hl]; omega, htake⟩
  | lastD =>
    simp only [soloSt] at st
    obtain ⟨h1, f, hf, hlo, hfl, htk⟩ := st
    have hchlen : (data.drop (data.length - 1)).length = 1 := by simp; omega
    have hat := pwrite_at hf (data.length - 1) (data.drop (data.length - 1))
    have hl := pwriteB_length (ch := data.drop (data.length - 1)) hlo
    have htake := pwriteB_take (ch := data.drop (data.length - 1)) hlo
    rw [hchlen] at hl htake
    rw [htk, List.take_append_drop] at htake
    have hsz : data.length - 1 + 1 = data.length := by omega
    rw [hsz] at hl htake
    refine ⟨by simp [soloStep, nextOp, applyOp], ?_⟩
    simp only [soloStep, nextOp, applyOp, soloSt, Bool.false_eq_true, if_false]
    rw [hat]
    congr 1
    exact eq_of_take_full (by rw [hl]; omega) htake
  | idxOpen =>
    simp only [soloSt] at st
    obtain ⟨g, hg⟩ := openCreate_exists fs (.A id) false
    refine ⟨by simp [soloStep, nextOp, applyOp], ?_⟩
    simp only [soloStep, nextOp, applyOp, soloSt]
    exact ⟨by rw [openCreate_other _ _ _ _ hAD]; exact st, g, hg⟩
  | idxWrite =>
    simp only [soloSt] at st
    obtain ⟨hd, g, hg⟩ := st
    refine ⟨by simp [soloStep, nextOp, applyOp], ?_⟩
    simp only [soloStep, nextOp, applyOp, soloSt, Bool.false_eq_true, if_false]
    refine ⟨by rw [pwrite_other _ _ _ _ _ hAD]; exact hd, _, pwrite_at hg 0 _, ?_, ?_⟩
    · rw [pwriteB_length (Nat.zero_le _), hent]; omega
    · have := pwriteB_take (f := g) (ch := entry id (H data) data.length ts) (off := 0) (Nat.zero_le _)
      rw [hent] at this
      simpa using this
  | idxTrunc =>
    simp only [soloSt] at st
    obtain ⟨hd, g, hg, hgl, hgt⟩ := st
    refine ⟨by simp [soloStep, nextOp, applyOp], ?_⟩
    simp only [soloStep, nextOp, applyOp, soloSt, Bool.false_eq_true, if_false]
    refine ⟨by rw [ftruncate_other _ _ _ _ hAD]; exact hd, ?_⟩
    rw [ftruncate_at hg, hent]
    have hz : zeros (175 - g.length) = [] := by simp [zeros]; omega
    simp only [truncB, hz, List.append_nil, hgt]
  | done =>
    refine ⟨by simp [soloStep, nextOp, applyOp], ?_⟩
    simpa [soloStep, nextOp, applyOp, soloSt] using st
  | dead => exact absurd st (by simp [soloSt])

/-- a writer that starts `put` knows nothing about the directory -/
theorem soloOK_start (fs : FS) (id data : Bytes) (ts : Nat) :
    SoloOK H (fs, { id := id, data := data, ts := ts, pc := .statD, orph := false }) :=
  ⟨rfl, by simp [soloSt]⟩

theorem rank_zero {size : Nat} {pc : PC} (h : rank size pc = 0) : pc = .done ∨ pc = .dead := by
  cases pc <;> simp [rank] at h ⊢

theorem pc_done_of_final (x : FS × Proc) (ok : SoloOK H x) (h : x.2.pc = .done ∨ x.2.pc = .dead) :
    x.2.pc = .done := by
  obtain ⟨fs, ⟨id, data, ts, pc, orph⟩⟩ := x
  rcases h with h | h
  · exact h
  · have hst := ok.st
    simp only at h hst
    subst h
    exact absurd hst (by simp [soloSt])

theorem soloStep_done (cs : Nat) (x : FS × Proc) (h : x.2.pc = .done) : (soloStep H cs x).2.pc = .done := by
  obtain ⟨fs, ⟨id, data, ts, pc, orph⟩⟩ := x
  simp only at h; subst h
  simp [soloStep, nextOp]

theorem soloRun_done (cs : Nat) (hcs : 0 < cs) (n : Nat) (x : FS × Proc)
    (hH : ∀ f, H f = H x.2.data → f = x.2.data)
    (hent : (entry x.2.id (H x.2.data) x.2.data.length x.2.ts).length = 175)
    (ok : SoloOK H x) (hr : rank x.2.data.length x.2.pc ≤ n) :
    (soloRun H cs n x).2.pc = .done ∧ SoloOK H (soloRun H cs n x) ∧
      (soloRun H cs n x).2.id = x.2.id ∧ (soloRun H cs n x).2.data = x.2.data ∧ (soloRun H cs n x).2.ts = x.2.ts := by
  induction n generalizing x with
  | zero =>
    exact ⟨pc_done_of_final x ok (rank_zero (Nat.le_zero.mp hr)), ok, rfl, rfl, rfl⟩
  | succ n ih =>
    obtain ⟨e1, e2, e3⟩ := soloStep_data (H := H) cs x
    have ok' := soloOK_step cs x hH hent ok
    have hr' : rank (soloStep H cs x).2.data.length (soloStep H cs x).2.pc ≤ n := by
      rw [e2]
      by_cases hd : x.2.pc ≠ .done ∧ x.2.pc ≠ .dead
      · have := rank_step (H := H) cs hcs x hd; omega
      · have hfin : x.2.pc = .done ∨ x.2.pc = .dead := by
          by_cases h1 : x.2.pc = .done
          · exact Or.inl h1
          · by_cases h2 : x.2.pc = .dead
            · exact Or.inr h2
            · exact absurd ⟨h1, h2⟩ hd
        have hdone := pc_done_of_final x ok hfin
        rw [soloStep_done cs x hdone]; simp [rank]
    obtain ⟨h1, h2, h3, h4, h5⟩ := ih (soloStep H cs x) (by rw [e2]; exact hH) (by rw [e1, e2, e3]; exact hent) ok' hr'
    exact ⟨h1, h2, by rw [← e1]; exact h3, by rw [← e2]; exact h4, by rw [← e3]; exact h5⟩

/-! ### the system level: `n` steps of process `i`, nobody else moves -/

theorem runM_solo (cs : Nat) (n : Nat) (s : Sys) (i : Nat) (p : Proc) (hp : s.procs[i]? = some p) :
    (runM H cs s (List.replicate n (.step i))).fs = (soloRun H cs n (s.fs, p)).1 ∧
    (runM H cs s (List.replicate n (.step i))).procs[i]? = some (soloRun H cs n (s.fs, p)).2 := by
  induction n generalizing s p with
  | zero => exact ⟨rfl, hp⟩
  | succ n ih =>
    have hlt : i < s.procs.length := by
      rcases List.getElem?_eq_some_iff.mp hp with ⟨hl, _⟩; exact hl
    have hfs : (stepEvM H cs s (.step i)).fs = (soloStep H cs (s.fs, p)).1 := by
      simp only [stepEvM, stepProc, hp, soloStep]
    have hpr : (stepEvM H cs s (.step i)).procs[i]? = some (soloStep H cs (s.fs, p)).2 := by
      simp only [stepEvM, stepProc, hp, soloStep]
      exact List.getElem?_set_self hlt
    have := ih (stepEvM H cs s (.step i)) (soloStep H cs (s.fs, p)).2 hpr
    rw [hfs] at this
    simpa [List.replicate_succ, runM, soloRun] using this

/-- both files complete ⇒ every lookup hits with exactly the content -/
theorem lookups_hit_of_files {fs : FS} {id data : Bytes} {ts : Nat}
    (hid : wfId id = true) (hts : ts < 2 ^ 63) (hsz : data.length < 2 ^ 63)
    (hol : (H data).length = 32) (hob : ∀ b ∈ H data, b < 256)
    (hd : fs (.D (H data)) = some data)
    (hx : fs (.A id) = some (entry id (H data) data.length ts)) :
    get fs id = some (H data, data.length) ∧
    getBytes H fs id = some data ∧ getFile fs id = some (H data) ∧ readFile fs (H data) = some data := by
  have w : EntryWF id (H data) data.length ts := ⟨(wfId_spec hid).1, hol, by omega, by omega⟩
  have hget : get fs id = some (H data, data.length) := by
    unfold get; rw [hx]
    exact parseEntry_entry w (wfId_spec hid).2 hob hsz hts
  refine ⟨hget, ?_, ?_, hd⟩
  · simp only [getBytes, hget, getBytesRead, hd, Option.getD_some, if_true]
  · simp only [getFile, hget, stat, hd, Option.map_some, if_true]

/-- **`put` terminates and repairs.**  From ANY directory state (any garbage or damage in
the data file and in the index file, other processes present but not moving), a writer
started with `(id, data)` that performs `putBound |data| = |data| + 7` undisturbed steps
is `done`, both files are exactly right, all lookups hit with `data`, and the path of the
data file (`OutputFile`, what the runner opens after `Put`) reads `data`. -/
theorem put_repairs (cs : Nat) (hcs : 0 < cs) (s : Sys) (id data : Bytes) (ts : Nat)
    (hid : wfId id = true) (hts : ts < 2 ^ 63) (hsz : data.length < 2 ^ 63)
    (hol : (H data).length = 32) (hob : ∀ b ∈ H data, b < 256)
    (hH : ∀ f, H f = H data → f = data) :
    let s' := runM H cs (stepEvM H cs s (.spawn id data ts))
      (List.replicate (putBound data.length) (.step s.procs.length))
    (∃ p, s'.procs[s.procs.length]? = some p ∧ p.pc = .done) ∧
    s'.fs (.D (H data)) = some data ∧
    s'.fs (.A id) = some (entry id (H data) data.length ts) ∧
    getBytes H s'.fs id = some data ∧ getFile s'.fs id = some (H data) ∧
    readFile s'.fs (H data) = some data := by
  intro s'
  have hspawn : stepEvM H cs s (.spawn id data ts) =
      { s with procs := s.procs ++ [{ id := id, data := data, ts := ts, pc := .statD, orph := false }] } := by
    simp [stepEvM, hid, hts, hsz]
  have hp : (stepEvM H cs s (.spawn id data ts)).procs[s.procs.length]? =
      some { id := id, data := data, ts := ts, pc := .statD, orph := false } := by
    rw [hspawn]; simp
  have hfs0 : (stepEvM H cs s (.spawn id data ts)).fs = s.fs := by rw [hspawn]
  obtain ⟨r1, r2⟩ := runM_solo (H := H) cs (putBound data.length) _ _ _ hp
  rw [hfs0] at r1 r2
  have w : EntryWF id (H data) data.length ts := ⟨(wfId_spec hid).1, hol, by omega, by omega⟩
  obtain ⟨d1, d2, d3, d4, d5⟩ := soloRun_done (H := H) cs hcs (putBound data.length)
    (s.fs, { id := id, data := data, ts := ts, pc := .statD, orph := false })
    hH (entry_length w) (soloOK_start _ _ _ _) (by simp [rank, putBound])
  have hst := d2.st
  rw [d1, d3, d4, d5] at hst
  simp only [soloSt] at hst
  have hD : s'.fs (.D (H data)) = some data := by show (runM _ _ _ _).fs _ = _; rw [r1]; exact hst.1
  have hA : s'.fs (.A id) = some (entry id (H data) data.length ts) := by
    show (runM _ _ _ _).fs _ = _; rw [r1]; exact hst.2
  obtain ⟨_, l1, l2, l3⟩ := lookups_hit_of_files hid hts hsz hol hob hD hA
  exact ⟨⟨_, r2, d1⟩, hD, hA, l1, l2, l3⟩

end Verif.C05
