import Verif.C05.Repair
/-!
C05 without "one content per action id".

The runner stores gob bytes whose encoding is not a function of the action id (map order),
so several writers may store DIFFERENT contents under one action id.  Here `wr id d` says
"`d` is a content some writer stores under `id`" (any relation), events are `EvM`
(`spawn id data ts` carries the content) and the invariant becomes:

* (J1) every data file named `D (H d)` is a prefix of `d`, for every stored content `d`
  (hypothesis: no second preimage of the hash of a stored content);
* (J2) every index file `A id` is a prefix of ONE complete entry
  `entry id (H d) |d| ts` with `wr id d` (time stamp included).

(J2) needs the index write to be atomic w.r.t. process death, which is how `EvM.crash`
is defined (`Model.lean`); the syscall tie checks on every run that the index entry is
written by one `write` of 175 bytes at offset 0.  With a torn index write AND two contents
of different size under one id the property is false (`torn_index_mix_breaks` below).

Soundness (`lookup_soundM`): a hit returns a complete content `d` with `wr id d` whose hash
is the output id recorded in the index entry that was read.
-/
namespace Verif.C05
variable {H : Bytes → Bytes} {wr : Bytes → Bytes → Prop}

/-- what the world must supply: no second preimage of the hash of a content some writer
stores (`nocoll`), output ids are 32 bytes -/
structure WorldM (H : Bytes → Bytes) (wr : Bytes → Bytes → Prop) : Prop where
  nocoll : ∀ id d d', wr id d → H d' = H d → d' = d
  outlen : ∀ d, (H d).length = 32
  outbytes : ∀ d, ∀ b ∈ H d, b < 256

/-- a complete index entry of `id` for a content stored under `id` -/
def LegitEntry (H : Bytes → Bytes) (wr : Bytes → Bytes → Prop) (id e : Bytes) : Prop :=
  ∃ d ts, wr id d ∧ d.length < 2 ^ 63 ∧ ts < 2 ^ 63 ∧ e = entry id (H d) d.length ts

structure FSInvM (H : Bytes → Bytes) (wr : Bytes → Bytes → Prop) (fs : FS) : Prop where
  data : ∀ id d f, wr id d → fs (.D (H d)) = some f → AgreeOn allMask f d
  index : ∀ id f, fs (.A id) = some f → ∃ e, LegitEntry H wr id e ∧ AgreeOn allMask f e

theorem legit_length (W : WorldM H wr) {id e : Bytes} (hid : wfId id = true) (h : LegitEntry H wr id e) :
    e.length = 175 := by
  obtain ⟨d, ts, _, hs, ht, rfl⟩ := h
  exact entry_length ⟨(wfId_spec hid).1, W.outlen d, by omega, by omega⟩

theorem fsinvM_empty : FSInvM H wr FS.empty := ⟨by simp [FS.empty], by simp [FS.empty]⟩

theorem fsinvM_openD (h : FSInvM H wr fs) (out : Bytes) : FSInvM H wr (openCreate fs (.D out) false) := by
  unfold openCreate
  split
  · constructor
    · intro id d f hw hf
      simp at hf; split at hf
      · cases hf; exact agreeOn_nil _ _
      · exact h.data id d f hw hf
    · intro id f hf
      simp at hf
      exact h.index id f hf
  · simpa using h

theorem fsinvM_openA (h : FSInvM H wr fs) (id : Bytes) (hw : ∃ e, LegitEntry H wr id e) :
    FSInvM H wr (openCreate fs (.A id) false) := by
  unfold openCreate
  split
  · constructor
    · intro id0 d f hw0 hf
      simp at hf
      exact h.data id0 d f hw0 hf
    · intro id' f hf
      simp at hf; split at hf
      · rename_i heq; cases hf; subst heq
        obtain ⟨e, he⟩ := hw
        exact ⟨e, he, agreeOn_nil _ _⟩
      · exact h.index id' f hf
  · simpa using h

theorem fsinvM_unlink (h : FSInvM H wr fs) (n : Name) : FSInvM H wr (unlink fs n) := by
  constructor
  · intro id d f hw hf; simp [unlink] at hf; exact h.data id d f hw hf.2
  · intro id f hf; simp [unlink] at hf; exact h.index id f hf.2

theorem fsinvM_take (h : FSInvM H wr fs) {n : Name} {f : Bytes} (hn : fs n = some f) (len : Nat) :
    FSInvM H wr (fs.set n (some (f.take len))) := by
  constructor
  · intro id d g hw hg
    simp at hg; split at hg
    · rename_i heq; cases hg; rw [← heq] at hn; exact agreeOn_take (h.data id d f hw hn) len
    · exact h.data id d g hw hg
  · intro id g hg
    simp at hg; split at hg
    · rename_i heq; cases hg; rw [← heq] at hn
      obtain ⟨e, he, ha⟩ := h.index id f hn
      exact ⟨e, he, agreeOn_take ha len⟩
    · exact h.index id g hg

/-- a write into the data file of `d` of bytes of `d` at their own offset -/
theorem fsinvM_pwrite_data (W : WorldM H wr) (h : FSInvM H wr fs) {id0 : Bytes} (d : Bytes) (hw0 : wr id0 d) (off m : Nat)
    (hoff : ∀ f, fs (.D (H d)) = some f → off ≤ f.length) (hsz : off ≤ d.length) :
    FSInvM H wr (pwrite fs (.D (H d)) off ((d.drop off).take m)) := by
  unfold pwrite
  split
  · exact h
  · rename_i f hf
    constructor
    · intro id' d' g hw' hg
      simp at hg; split at hg
      · rename_i heq
        cases hg
        have : d' = d := W.nocoll id0 d d' hw0 heq
        rw [this]
        refine agreeOn_pwriteB (h.data id0 d f hw0 hf) (hoff f hf) ?_ ?_
        · simp; omega
        · intro j hj _
          simp at hj
          grind
      · exact h.data id' d' g hw' hg
    · intro id' g hg
      simp at hg
      exact h.index id' g hg

/-- the complete index entry written at offset 0 over a file that is not longer -/
theorem fsinvM_pwrite_index (h : FSInvM H wr fs) {id e : Bytes} (he : LegitEntry H wr id e)
    (hlen : ∀ f, fs (.A id) = some f → f.length ≤ e.length) :
    FSInvM H wr (pwrite fs (.A id) 0 e) := by
  unfold pwrite
  split
  · exact h
  · rename_i f hf
    constructor
    · intro id0 d g hw0 hg
      simp at hg
      exact h.data id0 d g hw0 hg
    · intro id' g hg
      simp at hg; split at hg
      · rename_i heq
        cases hg; cases heq
        rw [pwriteB_zero_cover (hlen f hf)]
        exact ⟨e, he, Nat.le_refl _, fun _ _ _ => rfl⟩
      · exact h.index id' g hg

/-! ### processes -/

structure ProcOKM (H : Bytes → Bytes) (wr : Bytes → Bytes → Prop) (fs : FS) (p : Proc) : Prop where
  wrt : wr p.id p.data
  wf : wfId p.id = true
  ts : p.ts < 2 ^ 63
  sz : p.data.length < 2 ^ 63
  pure : p.pcPure
  held : ∀ n, p.holds H = some n → p.orph = false → ∃ f, fs n = some f ∧ p.need ≤ f.length

structure InvM (H : Bytes → Bytes) (wr : Bytes → Bytes → Prop) (s : Sys) : Prop where
  fs : FSInvM H wr s.fs
  procs : ∀ p ∈ s.procs, ProcOKM H wr s.fs p

theorem procOKM_grows {fs fs' : FS} {p : Proc} (h : ProcOKM H wr fs p) (g : Grows fs fs') :
    ProcOKM H wr fs' p := by
  refine ⟨h.wrt, h.wf, h.ts, h.sz, h.pure, ?_⟩
  intro n hn ho
  obtain ⟨f, hf, hl⟩ := h.held n hn ho
  obtain ⟨f', hf', hl'⟩ := g n f hf
  exact ⟨f', hf', by omega⟩

theorem procOKM_legit {fs : FS} {p : Proc} (ok : ProcOKM H wr fs p) :
    LegitEntry H wr p.id (entry p.id (H p.data) p.data.length p.ts) :=
  ⟨p.data, p.ts, ok.wrt, ok.sz, ok.ts, rfl⟩

theorem index_len_le (W : WorldM H wr) {fs : FS} (hfs : FSInvM H wr fs) {id f : Bytes} (hid : wfId id = true)
    (hf : fs (.A id) = some f) : f.length ≤ 175 := by
  obtain ⟨e, he, ha⟩ := hfs.index id f hf
  have := legit_length W hid he
  have := ha.1
  omega

theorem step_coreM (W : WorldM H wr) (cs : Nat) {fs : FS} {p : Proc}
    (hfs : FSInvM H wr fs) (ok : ProcOKM H wr fs p) :
    FSInvM H wr (applyOp fs p.orph (nextOp H cs fs p).1).1 ∧
    Grows fs (applyOp fs p.orph (nextOp H cs fs p).1).1 ∧
    ProcOKM H wr (applyOp fs p.orph (nextOp H cs fs p).1).1
      { p with pc := (nextOp H cs fs p).2, orph := (applyOp fs p.orph (nextOp H cs fs p).1).2 } := by
  have hleg := procOKM_legit ok
  obtain ⟨id, data, ts, pc, orph⟩ := p
  obtain ⟨wrt, wf, hts, hsz, pure, held⟩ := ok
  simp only at wrt wf hts hsz hleg
  cases pc with
  | statD =>
    cases hf : fs (.D (H data)) with
    | none =>
      simp only [nextOp, hf, applyOp]
      exact ⟨hfs, grows_refl fs, wrt, wf, hts, hsz, rfl, by simp [Proc.holds]⟩
    | some f =>
      have := (hfs.data id data f wrt hf).1
      by_cases hl : f.length = data.length
      · simp only [nextOp, hf, hl, applyOp, if_true]
        exact ⟨hfs, grows_refl fs, wrt, wf, hts, hsz, trivial, by simp [Proc.holds]⟩
      · simp only [nextOp, hf, hl, applyOp, if_false]
        exact ⟨hfs, grows_refl fs, wrt, wf, hts, hsz, by simp [Proc.pcPure]; omega, by simp [Proc.holds]⟩
  | hashcmp =>
    cases hf : fs (.D (H data)) with
    | none =>
      simp only [nextOp, hf, applyOp]
      exact ⟨hfs, grows_refl fs, wrt, wf, hts, hsz, rfl, by simp [Proc.holds]⟩
    | some f =>
      by_cases hl : H f = H data
      · simp only [nextOp, hf, hl, applyOp, if_true]
        exact ⟨hfs, grows_refl fs, wrt, wf, hts, hsz, trivial, by simp [Proc.holds]⟩
      · simp only [nextOp, hf, hl, applyOp, if_false]
        exact ⟨hfs, grows_refl fs, wrt, wf, hts, hsz, rfl, by simp [Proc.holds]⟩
  | openD t =>
    have ht : t = false := pure
    subst ht
    obtain ⟨g, hg⟩ := openCreate_exists fs (.D (H data)) false
    by_cases h0 : data.length = 0
    · simp only [nextOp, h0, applyOp, if_true]
      exact ⟨fsinvM_openD hfs _, grows_openCreate fs _, wrt, wf, hts, hsz, trivial, by simp [Proc.holds]⟩
    · by_cases h1 : data.length - 1 = 0
      · simp only [nextOp, h0, h1, applyOp, if_true, if_false]
        refine ⟨fsinvM_openD hfs _, grows_openCreate fs _, wrt, wf, hts, hsz, trivial, ?_⟩
        intro n hn _
        simp [Proc.holds] at hn; subst hn
        exact ⟨g, hg, by simp [Proc.need]; omega⟩
      · simp only [nextOp, h0, h1, applyOp, if_false]
        refine ⟨fsinvM_openD hfs _, grows_openCreate fs _, wrt, wf, hts, hsz, by simp [Proc.pcPure], ?_⟩
        intro n hn _
        simp [Proc.holds] at hn; subst hn
        exact ⟨g, hg, by simp [Proc.need]⟩
  | writeD off =>
    have hp : off ≤ data.length - 1 := pure
    have hchlen : ((data.drop off).take (min cs (data.length - 1 - off))).length
        = min cs (data.length - 1 - off) := by simp; omega
    cases orph with
    | true =>
      by_cases hc : off + min cs (data.length - 1 - off) ≥ data.length - 1
      · simp only [nextOp, hc, applyOp, if_true]
        exact ⟨hfs, grows_refl fs, wrt, wf, hts, hsz, trivial, by simp⟩
      · simp only [nextOp, hc, applyOp, if_false]
        exact ⟨hfs, grows_refl fs, wrt, wf, hts, hsz, by simp [Proc.pcPure]; omega, by simp⟩
    | false =>
      obtain ⟨f, hf, hlen⟩ := held (.D (H data)) rfl rfl
      simp only [Proc.need] at hlen
      have hfs' := fsinvM_pwrite_data W hfs data wrt off (min cs (data.length - 1 - off))
        (fun g hg => by rw [hf] at hg; cases hg; exact hlen) (by omega)
      have hat := pwrite_at hf off ((data.drop off).take (min cs (data.length - 1 - off)))
      have hl := pwriteB_length (ch := (data.drop off).take (min cs (data.length - 1 - off))) hlen
      rw [hchlen] at hl
      by_cases hc : off + min cs (data.length - 1 - off) ≥ data.length - 1
      · simp only [nextOp, hc, applyOp, if_true]
        refine ⟨hfs', grows_pwrite _ _ _ _, wrt, wf, hts, hsz, trivial, ?_⟩
        intro n hn _
        simp [Proc.holds] at hn; subst hn
        exact ⟨_, hat, by simp only [Proc.need]; omega⟩
      · simp only [nextOp, hc, applyOp, if_false]
        refine ⟨hfs', grows_pwrite _ _ _ _, wrt, wf, hts, hsz, by simp [Proc.pcPure]; omega, ?_⟩
        intro n hn _
        simp [Proc.holds] at hn; subst hn
        exact ⟨_, hat, by simp only [Proc.need]; omega⟩
  | lastD =>
    have hch : data.drop (data.length - 1)
        = (data.drop (data.length - 1)).take data.length := by
      rw [List.take_of_length_le]; simp
    cases orph with
    | true =>
      simp only [nextOp, applyOp, if_true]
      exact ⟨hfs, grows_refl fs, wrt, wf, hts, hsz, trivial, by simp⟩
    | false =>
      obtain ⟨f, hf, hlen⟩ := held (.D (H data)) rfl rfl
      simp only [Proc.need] at hlen
      have hfs' := fsinvM_pwrite_data W hfs data wrt (data.length - 1) data.length
        (fun g hg => by rw [hf] at hg; cases hg; exact hlen) (by omega)
      rw [← hch] at hfs'
      simp only [nextOp, applyOp]
      exact ⟨hfs', grows_pwrite _ _ _ _, wrt, wf, hts, hsz, trivial, by simp [Proc.holds]⟩
  | idxOpen =>
    obtain ⟨g, hg⟩ := openCreate_exists fs (.A id) false
    simp only [nextOp, applyOp]
    refine ⟨fsinvM_openA hfs _ ⟨_, hleg⟩, grows_openCreate fs _, wrt, wf, hts, hsz, trivial, ?_⟩
    intro n hn _
    simp [Proc.holds] at hn; subst hn
    exact ⟨g, hg, by simp [Proc.need]⟩
  | idxWrite =>
    have hel := legit_length W wf hleg
    cases orph with
    | true =>
      simp only [nextOp, applyOp, if_true]
      exact ⟨hfs, grows_refl fs, wrt, wf, hts, hsz, trivial, by simp⟩
    | false =>
      obtain ⟨f, hf, _⟩ := held (.A id) rfl rfl
      have hfs' := fsinvM_pwrite_index hfs hleg
        (fun g hg => by rw [hel]; exact index_len_le W hfs wf hg)
      simp only [nextOp, applyOp]
      refine ⟨hfs', grows_pwrite _ _ _ _, wrt, wf, hts, hsz, trivial, ?_⟩
      intro n hn _
      simp [Proc.holds] at hn; subst hn
      refine ⟨_, pwrite_at hf 0 _, ?_⟩
      rw [pwriteB_length (Nat.zero_le _), hel]; simp only [Proc.need]; omega
  | idxTrunc =>
    have hel := legit_length W wf hleg
    cases orph with
    | true =>
      simp only [nextOp, applyOp, if_true]
      exact ⟨hfs, grows_refl fs, wrt, wf, hts, hsz, trivial, by simp [Proc.holds]⟩
    | false =>
      obtain ⟨f, hf, hlen⟩ := held (.A id) rfl rfl
      simp only [Proc.need] at hlen
      have h2 := index_len_le W hfs wf hf
      have hfl : f.length = 175 := by omega
      have : ftruncate fs (.A id) (entry id (H data) data.length ts).length = fs := by
        simp only [ftruncate, hf, hel]
        rw [← hfl, truncB_self]; exact set_same hf
      simp only [nextOp, applyOp, this]
      exact ⟨hfs, grows_refl fs, wrt, wf, hts, hsz, trivial, by simp [Proc.holds]⟩
  | done =>
    simp only [nextOp, applyOp]
    exact ⟨hfs, grows_refl fs, wrt, wf, hts, hsz, trivial, by simp [Proc.holds]⟩
  | dead =>
    simp only [nextOp, applyOp]
    exact ⟨hfs, grows_refl fs, wrt, wf, hts, hsz, trivial, by simp [Proc.holds]⟩

/-- the partial DATA write of a dying process (`crashProc` on a process that is not about
to write the index entry) -/
theorem crash_coreM (W : WorldM H wr) (cs k : Nat) {fs : FS} {p : Proc}
    (hfs : FSInvM H wr fs) (ok : ProcOKM H wr fs p) (hpc : pcIsIdxWrite p.pc = false) :
    let fs' := match (nextOp H cs fs p).1 with
      | .write n off ch => if p.orph then fs else pwrite fs n off (ch.take k)
      | _ => fs
    FSInvM H wr fs' ∧ Grows fs fs' := by
  obtain ⟨id, data, ts, pc, orph⟩ := p
  obtain ⟨wrt, wf, hts, hsz, pure, held⟩ := ok
  simp only at wrt wf hts hsz hpc
  cases pc with
  | writeD off =>
    have hp : off ≤ data.length - 1 := pure
    cases orph with
    | true => simp only [nextOp]; exact ⟨hfs, grows_refl fs⟩
    | false =>
      obtain ⟨f, hf, hlen⟩ := held (.D (H data)) rfl rfl
      simp only [Proc.need] at hlen
      simp only [nextOp, List.take_take]
      exact ⟨fsinvM_pwrite_data W hfs data wrt off _ (fun g hg => by rw [hf] at hg; cases hg; exact hlen) (by omega),
        grows_pwrite _ _ _ _⟩
  | lastD =>
    cases orph with
    | true => simp only [nextOp]; exact ⟨hfs, grows_refl fs⟩
    | false =>
      obtain ⟨f, hf, hlen⟩ := held (.D (H data)) rfl rfl
      simp only [Proc.need] at hlen
      simp only [nextOp]
      exact ⟨fsinvM_pwrite_data W hfs data wrt _ _ (fun g hg => by rw [hf] at hg; cases hg; exact hlen) (by omega),
        grows_pwrite _ _ _ _⟩
  | idxWrite => simp [pcIsIdxWrite] at hpc
  | statD => simp only [nextOp]; exact ⟨hfs, grows_refl fs⟩
  | hashcmp => simp only [nextOp]; exact ⟨hfs, grows_refl fs⟩
  | openD t => simp only [nextOp]; exact ⟨hfs, grows_refl fs⟩
  | idxOpen => simp only [nextOp]; exact ⟨hfs, grows_refl fs⟩
  | idxTrunc => simp only [nextOp]; exact ⟨hfs, grows_refl fs⟩
  | done => simp only [nextOp]; exact ⟨hfs, grows_refl fs⟩
  | dead => simp only [nextOp]; exact ⟨hfs, grows_refl fs⟩

/-- the file system after the death of process `p` (index write atomic) -/
def crashFS (H : Bytes → Bytes) (cs : Nat) (fs : FS) (p : Proc) (k : Nat) : FS :=
  if pcIsIdxWrite p.pc then fs else
  match (nextOp H cs fs p).1 with
  | .write n off ch => if p.orph then fs else pwrite fs n off (ch.take k)
  | _ => fs

theorem pwrite_nil (fs : FS) (n : Name) (off : Nat) : pwrite fs n off [] = fs := by
  unfold pwrite
  cases hf : fs n with
  | none => rfl
  | some f => simp only [pwriteB, if_true]; exact set_same hf

theorem crashProcM_eq (cs : Nat) (s : Sys) (i k : Nat) (p : Proc) (hp : s.procs[i]? = some p) :
    crashProcM H cs s i k = { fs := crashFS H cs s.fs p k, procs := s.procs.set i { p with pc := .dead } } := by
  unfold crashProcM crashFS
  simp only [hp]
  cases hpc : pcIsIdxWrite p.pc with
  | true =>
    simp only [if_true, crashProc, hp]
    congr 1
    cases (nextOp H cs s.fs p).1 <;> simp [pwrite_nil]
  | false =>
    simp only [Bool.false_eq_true, if_false, crashProc, hp]
    rfl

theorem inv_stepProcM (W : WorldM H wr) (cs : Nat) {s : Sys} (h : InvM H wr s) (i : Nat) :
    InvM H wr (stepProc H cs s i) := by
  unfold stepProc
  cases hp : s.procs[i]? with
  | none => exact h
  | some p =>
    have hmem : p ∈ s.procs := List.mem_of_getElem? hp
    obtain ⟨h1, h2, h3⟩ := step_coreM W cs h.fs (h.procs p hmem)
    refine ⟨h1, ?_⟩
    intro q hq
    rcases List.mem_or_eq_of_mem_set hq with hq | hq
    · exact procOKM_grows (h.procs q hq) h2
    · subst hq; exact h3

theorem crashFS_core (W : WorldM H wr) (cs k : Nat) {fs : FS} {p : Proc}
    (hfs : FSInvM H wr fs) (ok : ProcOKM H wr fs p) :
    FSInvM H wr (crashFS H cs fs p k) ∧ Grows fs (crashFS H cs fs p k) := by
  unfold crashFS
  cases hpc : pcIsIdxWrite p.pc with
  | true => simp only [if_true]; exact ⟨hfs, grows_refl fs⟩
  | false =>
    simp only [Bool.false_eq_true, if_false]
    exact crash_coreM W cs k hfs ok hpc

theorem inv_crashProcM (W : WorldM H wr) (cs : Nat) {s : Sys} (h : InvM H wr s) (i k : Nat) :
    InvM H wr (crashProcM H cs s i k) := by
  cases hp : s.procs[i]? with
  | none => simp only [crashProcM, hp]; exact h
  | some p =>
    rw [crashProcM_eq cs s i k p hp]
    have hmem : p ∈ s.procs := List.mem_of_getElem? hp
    have ok := h.procs p hmem
    obtain ⟨h1, h2⟩ := crashFS_core W cs k h.fs ok
    refine ⟨h1, ?_⟩
    intro q hq
    rcases List.mem_or_eq_of_mem_set hq with hq | hq
    · exact procOKM_grows (h.procs q hq) h2
    · subst hq
      exact ⟨ok.wrt, ok.wf, ok.ts, ok.sz, trivial, by simp [Proc.holds]⟩

/-- the event only starts writers whose content is stored under their id -/
def EvM.ok (wr : Bytes → Bytes → Prop) : EvM → Prop
  | .spawn id data _ => wr id data
  | _ => True

theorem inv_stepM (W : WorldM H wr) (cs : Nat) {s : Sys} (h : InvM H wr s) (e : EvM) (he : e.ok wr) :
    InvM H wr (stepEvM H cs s e) := by
  cases e with
  | spawn id data ts =>
    simp only [stepEvM]
    split
    · rename_i hc
      simp at hc
      refine ⟨h.fs, ?_⟩
      intro q hq
      simp at hq
      rcases hq with hq | hq
      · exact h.procs q hq
      · subst hq
        exact ⟨he, hc.1.1, hc.1.2, hc.2, trivial, by simp [Proc.holds]⟩
    · exact h
  | step i => exact inv_stepProcM W cs h i
  | crash i k => exact inv_crashProcM W cs h i k
  | truncate n len =>
    simp only [stepEvM]
    cases hf : s.fs n with
    | none => exact h
    | some f =>
      simp only []
      split
      · rename_i hc
        simp [atRest] at hc
        refine ⟨fsinvM_take h.fs hf len, ?_⟩
        intro q hq
        have ok := h.procs q hq
        refine ⟨ok.wrt, ok.wf, ok.ts, ok.sz, ok.pure, ?_⟩
        intro m hm ho
        have hne : m ≠ n := by
          intro e; subst e
          have := hc.1 q hq
          simp [hm, ho] at this
        obtain ⟨g, hg, hl⟩ := ok.held m hm ho
        exact ⟨g, by simp [hne, hg], hl⟩
      · exact h
  | unlink n =>
    simp only [stepEvM]
    refine ⟨fsinvM_unlink h.fs n, ?_⟩
    intro q hq
    simp at hq
    obtain ⟨q0, hq0, rfl⟩ := hq
    have ok := h.procs q0 hq0
    by_cases hh : q0.holds H = some n
    · simp only [hh, if_true]
      exact ⟨ok.wrt, ok.wf, ok.ts, ok.sz, ok.pure, by simp⟩
    · simp only [hh, if_false]
      refine ⟨ok.wrt, ok.wf, ok.ts, ok.sz, ok.pure, ?_⟩
      intro m hm ho
      have hne : m ≠ n := by intro e; subst e; exact hh hm
      obtain ⟨g, hg, hl⟩ := ok.held m hm ho
      exact ⟨g, by simp [unlink, hne, hg], hl⟩

theorem inv_initM : InvM H wr { fs := FS.empty, procs := [] } := ⟨fsinvM_empty, by simp⟩

theorem inv_runM (W : WorldM H wr) (cs : Nat) {s : Sys} (h : InvM H wr s) (evs : List EvM)
    (hok : ∀ e ∈ evs, e.ok wr) : InvM H wr (runM H cs s evs) := by
  induction evs generalizing s with
  | nil => exact h
  | cons e es ih =>
    exact ih (inv_stepM W cs h e (hok e (by simp))) (fun e' he' => hok e' (by simp [he']))

/-! ### lookups -/

theorem get_soundM (W : WorldM H wr) {fs : FS} (h : FSInvM H wr fs) {id out : Bytes} {size : Nat}
    (hid : wfId id = true) (hg : get fs id = some (out, size)) :
    ∃ d, wr id d ∧ out = H d ∧ size = d.length := by
  unfold get at hg
  cases hf : fs (.A id) with
  | none => simp [hf] at hg
  | some f =>
    simp only [hf] at hg
    obtain ⟨e, he, hag⟩ := h.index id f hf
    have hlen : f.length = 175 := by
      unfold parseEntry at hg
      split at hg
      · cases hg
      · rename_i hl; simpa [entrySize] using hl
    have hel := legit_length W hid he
    have hfe : f = e := agreeOn_all_full hag (by omega)
    obtain ⟨d, ts, hw, hs, ht, rfl⟩ := he
    have w : EntryWF id (H d) d.length ts := ⟨(wfId_spec hid).1, W.outlen d, by omega, by omega⟩
    rw [hfe, parseEntry_entry w (wfId_spec hid).2 (W.outbytes d) hs ht] at hg
    simp at hg
    exact ⟨d, hw, hg.1.symm, hg.2.symm⟩

/-- `GetBytes`: index read in one state, data file read in any (later) state -/
theorem getBytes_soundM (W : WorldM H wr) {fs1 fs2 : FS} (h1 : FSInvM H wr fs1)
    {id out b : Bytes} {size : Nat} (hid : wfId id = true)
    (hg : get fs1 id = some (out, size)) (hr : getBytesRead H fs2 out = some b) :
    wr id b ∧ H b = out := by
  obtain ⟨d, hw, ho, _⟩ := get_soundM W h1 hid hg
  subst ho
  unfold getBytesRead at hr
  simp only [] at hr
  split at hr
  · rename_i hh; cases hr
    have := W.nocoll id d _ hw hh
    rw [this]; exact ⟨hw, rfl⟩
  · cases hr

/-- `GetFile`: index read in one state, size check in a later one -/
theorem getFile_soundM (W : WorldM H wr) {fs1 fs2 : FS} (h1 : FSInvM H wr fs1) (h2 : FSInvM H wr fs2)
    {id out : Bytes} {size : Nat} (hid : wfId id = true)
    (hg : get fs1 id = some (out, size)) (hs : stat fs2 (.D out) = some size) :
    ∃ d, wr id d ∧ out = H d ∧ fs2 (.D out) = some d := by
  obtain ⟨d, hw, ho, hsz⟩ := get_soundM W h1 hid hg
  subst ho hsz
  refine ⟨d, hw, rfl, ?_⟩
  unfold stat at hs
  cases hf : fs2 (.D (H d)) with
  | none => simp [hf] at hs
  | some f =>
    simp [hf] at hs
    rw [agreeOn_all_full (h2.data id d f hw hf) (by omega)]

/-- **C05 without "one content per action id".**  After any interleaving of writers
storing any contents `wr` allows under any ids, crashes (between any two system calls and
inside any data write), truncations at rest and removals: a `GetBytes` hit is a complete
content stored under that id, whose hash is the output id of the index entry read; a
`GetFile` hit names a file that holds, in that state, a complete content stored under that
id whose hash is the file's name. -/
theorem lookup_soundM (W : WorldM H wr) (cs : Nat) {s : Sys} (h : InvM H wr s) (evs : List EvM)
    (hok : ∀ e ∈ evs, e.ok wr) {id : Bytes} (hid : wfId id = true) :
    (∀ b, getBytes H (runM H cs s evs).fs id = some b → wr id b) ∧
    (∀ out, getFile (runM H cs s evs).fs id = some out →
      ∃ d, wr id d ∧ out = H d ∧ readFile (runM H cs s evs).fs out = some d) := by
  have hi := (inv_runM W cs h evs hok).fs
  generalize (runM H cs s evs).fs = fs at hi
  constructor
  · intro b hb
    unfold getBytes at hb
    cases hg : get fs id with
    | none => simp [hg] at hb
    | some r =>
      obtain ⟨out, size⟩ := r
      simp only [hg] at hb
      exact (getBytes_soundM W hi hid hg hb).1
  · intro out ho
    unfold getFile at ho
    cases hg : get fs id with
    | none => simp [hg] at ho
    | some r =>
      obtain ⟨out', size⟩ := r
      simp only [hg] at ho
      cases hs : stat fs (.D out') with
      | none => simp [hs] at ho
      | some n =>
        simp only [hs] at ho
        split at ho
        · rename_i hn; cases ho; subst hn
          exact getFile_soundM W hi hi hid hg hs
        · cases ho

/-! ### a complete data file stays complete -/

def EvM.faults (e : EvM) (n : Name) : Prop :=
  match e with
  | .truncate m _ => m = n
  | .unlink m => m = n
  | _ => False

theorem grows_onM (W : WorldM H wr) (cs : Nat) {s : Sys} (h : InvM H wr s) (e : EvM) (n : Name)
    (hne : ¬ e.faults n) {f : Bytes} (hf : s.fs n = some f) :
    ∃ f', (stepEvM H cs s e).fs n = some f' ∧ f.length ≤ f'.length := by
  cases e with
  | spawn id data ts =>
    simp only [stepEvM]; split <;> exact ⟨f, hf, Nat.le_refl _⟩
  | step i =>
    simp only [stepEvM, stepProc]
    cases hp : s.procs[i]? with
    | none => exact ⟨f, hf, Nat.le_refl _⟩
    | some p => exact (step_coreM W cs h.fs (h.procs p (List.mem_of_getElem? hp))).2.1 n f hf
  | crash i k =>
    simp only [stepEvM]
    cases hp : s.procs[i]? with
    | none => simp only [crashProcM, hp]; exact ⟨f, hf, Nat.le_refl _⟩
    | some p =>
      rw [crashProcM_eq cs s i k p hp]
      exact (crashFS_core W cs k h.fs (h.procs p (List.mem_of_getElem? hp))).2 n f hf
  | truncate m len =>
    have hmn : n ≠ m := fun e => hne (by simp [EvM.faults, e])
    simp only [stepEvM]
    cases hm : s.fs m with
    | none => exact ⟨f, hf, Nat.le_refl _⟩
    | some g =>
      simp only []
      split
      · exact ⟨f, by simp [hmn, hf], Nat.le_refl _⟩
      · exact ⟨f, hf, Nat.le_refl _⟩
  | unlink m =>
    have hmn : n ≠ m := fun e => hne (by simp [EvM.faults, e])
    exact ⟨f, by simp [stepEvM, unlink, hmn, hf], Nat.le_refl _⟩

/-- once a data file is complete it stays complete under every event that is not a
fault on that very file -/
theorem full_stableM (W : WorldM H wr) (cs : Nat) {s : Sys} (h : InvM H wr s) (e : EvM) (he : e.ok wr)
    {id0 : Bytes} (d : Bytes) (hw : wr id0 d)
    (hne : ¬ e.faults (.D (H d))) (hfull : s.fs (.D (H d)) = some d) :
    (stepEvM H cs s e).fs (.D (H d)) = some d := by
  obtain ⟨f', hf', hl⟩ := grows_onM W cs h e _ hne hfull
  rw [hf', agreeOn_all_full ((inv_stepM W cs h e he).fs.data id0 d f' hw hf') hl]

theorem full_runM (W : WorldM H wr) (cs : Nat) {s : Sys} (h : InvM H wr s) {id0 : Bytes} (d : Bytes) (hw : wr id0 d) (evs : List EvM)
    (hok : ∀ e ∈ evs, e.ok wr) (hnf : ∀ e ∈ evs, ¬ e.faults (.D (H d)))
    (hfull : s.fs (.D (H d)) = some d) :
    (runM H cs s evs).fs (.D (H d)) = some d := by
  induction evs generalizing s with
  | nil => exact hfull
  | cons e es ih =>
    exact ih (inv_stepM W cs h e (hok e (by simp))) (fun e' he' => hok e' (by simp [he']))
      (fun e' he' => hnf e' (by simp [he']))
      (full_stableM W cs h e (hok e (by simp)) d hw (hnf e (by simp)) hfull)

/-- `GetFile` hit, then any interleaving without a fault on the returned file, then the
caller opens and reads the path: it reads a complete content stored under the id. -/
theorem getFile_read_soundM (W : WorldM H wr) (cs : Nat) {s : Sys} (h : InvM H wr s)
    {id out : Bytes} (hid : wfId id = true) (hg : getFile s.fs id = some out) (evs : List EvM)
    (hok : ∀ e ∈ evs, e.ok wr) (hnf : ∀ e ∈ evs, ¬ e.faults (.D out)) :
    ∃ d, wr id d ∧ out = H d ∧ readFile (runM H cs s evs).fs out = some d := by
  obtain ⟨d, hw, ho, hr⟩ := (lookup_soundM W cs h [] (by simp) hid).2 out hg
  simp only [runM, List.foldl_nil, readFile] at hr
  subst ho
  exact ⟨d, hw, rfl, full_runM W cs h d hw evs hok hnf hr⟩

end Verif.C05
