import Verif.Common.Proto
import Verif.C12.Model
/-
Line protocol of the C12 model driver.

  merge <nruns> run*          run  := <ncf> cf* <nd> diag*
                              diag := file off line col efile eoff eline ecol cat msg sev mergeif build
  (strings hex-encoded, `-` = empty).  Every run is a lintResult and goes through
  `runFromLintResult`.  Output: `<n> entry*`, entry := the 10 descriptor tokens, <k>, k names.
Anything malformed (wrong counts, trailing tokens, bad numbers) gives `bad-op`.
-/
namespace Verif.C12
open Verif.Proto

def parseDiag : List String → Option (Diag × List String)
  | f :: off :: ln :: col :: ef :: eoff :: eln :: ecol :: cat :: msg :: sev :: mi :: b :: rest => do
    let f ← hexDecode f
    let off ← parseInt off
    let ln ← parseInt ln
    let col ← parseInt col
    let ef ← hexDecode ef
    let eoff ← parseInt eoff
    let eln ← parseInt eln
    let ecol ← parseInt ecol
    let cat ← hexDecode cat
    let msg ← hexDecode msg
    let sev ← parseNat sev
    let mi ← parseInt mi
    let b ← hexDecode b
    pure ({ desc := { pos := ⟨f, off, ln, col⟩, end_ := ⟨ef, eoff, eln, ecol⟩, cat := cat, msg := msg },
            sev := sev, mergeIf := mi, build := b }, rest)
  | _ => none

def parseStrs : Nat → List String → Option (List String × List String)
  | 0, ts => some ([], ts)
  | n + 1, t :: ts => do
    let s ← hexDecode t
    let (r, rest) ← parseStrs n ts
    pure (s :: r, rest)
  | _ + 1, [] => none

def parseDiags : Nat → List String → Option (List Diag × List String)
  | 0, ts => some ([], ts)
  | n + 1, ts => do
    let (d, rest) ← parseDiag ts
    let (r, rest) ← parseDiags n rest
    pure (d :: r, rest)

def parseRes : List String → Option (LintResult × List String)
  | ncf :: ts => do
    let ncf ← parseNat ncf
    let (cfs, rest) ← parseStrs ncf ts
    match rest with
    | nd :: rest => do
      let nd ← parseNat nd
      let (ds, rest) ← parseDiags nd rest
      pure ({ checked := cfs, diags := ds }, rest)
    | [] => none
  | [] => none

def parseRuns : Nat → List String → Option (List LintResult × List String)
  | 0, ts => some ([], ts)
  | n + 1, ts => do
    let (r, rest) ← parseRes ts
    let (rs, rest) ← parseRuns n rest
    pure (r :: rs, rest)

def showDesc (k : Desc) : String :=
  s!"{hexEncode k.pos.file} {k.pos.off} {k.pos.line} {k.pos.col} {hexEncode k.end_.file} {k.end_.off} {k.end_.line} {k.end_.col} {hexEncode k.cat} {hexEncode k.msg}"

def showEntry (e : Desc × List String) : String :=
  " ".intercalate (showDesc e.1 :: toString e.2.length :: e.2.map hexEncode)

def step (line : String) : String :=
  match tokens line with
  | "merge" :: n :: ts =>
    match parseNat n with
    | some n =>
      match parseRuns n ts with
      | some (rs, []) =>
        let out := output (rs.map runFromLintResult)
        " ".intercalate (toString out.length :: out.map showEntry)
      | _ => "bad-op"
    | none => "bad-op"
  | _ => "bad-op"

end Verif.C12
